package main

// C14 - equality and ordering operators obey their algebraic laws.
// Bounded-exhaustive over a curated value pool (+ random deeper values and their numerically equal
// twins): all pairs x {= != < > <= >= ~ min max switch order}, triples for transitivity, min/max/order
// of three and two-case switches; every operator is evaluated through value.New().Generate with the
// operands passed as arguments, on freshly built operands.  The answers go to Coq (model: c14_im,
// specification: c14_is); independently the laws are evaluated here on the implementation's own
// answers (symmetry, negation, flip, <= is < or =, >= is flipped <=, asymmetry, transitivity,
// membership = first decisive equality, min/max/order/switch agree with < and =).

import (
	"encoding/json"
	"fmt"
	"github.com/hneemann/parser2/funcGen"
	"github.com/hneemann/parser2/listMap"
	"github.com/hneemann/parser2/value"
	"math"
	"path/filepath"
	"sort"
	"strings"
)

func init() {
	register("c14", cmdC14)
	registerTables(c14Tables)
}

// ---------------------------------------------------------------- values

type c14CV struct {
	Kind  string `json:"k"` // int float bool str list map clo
	I     int64  `json:"i,omitempty"`
	FBits uint64 `json:"f,omitempty"`
	B     bool   `json:"b,omitempty"`
	S     string `json:"s,omitempty"`
	Items []*c14CV  `json:"items,omitempty"`
	Keys  []string `json:"keys,omitempty"`
	Repr  string `json:"repr,omitempty"` // list: eager lazy append concat; map: listmap real put
	Arity int    `json:"arity,omitempty"`
}

func c14CInt(i int64) *c14CV     { return &c14CV{Kind: "int", I: i} }
func c14CFloat(f float64) *c14CV { return &c14CV{Kind: "float", FBits: math.Float64bits(f)} }
func c14CStr(s string) *c14CV    { return &c14CV{Kind: "str", S: s} }
func c14CBool(b bool) *c14CV     { return &c14CV{Kind: "bool", B: b} }
func c14CList(repr string, items ...*c14CV) *c14CV {
	return &c14CV{Kind: "list", Repr: repr, Items: items}
}
func c14CMap(repr string, kv ...any) *c14CV {
	m := &c14CV{Kind: "map", Repr: repr}
	for i := 0; i+1 < len(kv); i += 2 {
		m.Keys = append(m.Keys, kv[i].(string))
		m.Items = append(m.Items, kv[i+1].(*c14CV))
	}
	return m
}
func c14CClo(n int) *c14CV { return &c14CV{Kind: "clo", Arity: n} }

func (t *c14CV) F() float64 { return math.Float64frombits(t.FBits) }

func (t *c14CV) Build() value.Value {
	switch t.Kind {
	case "int":
		return value.Int(t.I)
	case "float":
		return value.Float(t.F())
	case "bool":
		return value.Bool(t.B)
	case "str":
		return value.String(t.S)
	case "clo":
		if t.Arity == 2 {
			return mustEval("(x,y)->x", nil)
		}
		return mustEval("x->x", nil)
	case "list":
		items := make([]value.Value, len(t.Items))
		for i, it := range t.Items {
			items[i] = it.Build()
		}
		return c14BuildList(t.Repr, items)
	case "map":
		vals := make([]value.Value, len(t.Items))
		for i, it := range t.Items {
			vals[i] = it.Build()
		}
		return c14BuildMap(t.Repr, t.Keys, vals)
	}
	panic("bad kind " + t.Kind)
}

// the map storage representations; every one denotes exactly the map keys[i] -> vals[i].
// The replacement maps of the replace representations also carry "phantom" keys (c14Phantom*) that the
// original does not have: replace ignores them, so they must never be visible.
var c14MapReprs = []string{"listmap", "real", "put", "putchain", "merge", "replace", "replace-all", "replace2", "replace10", "funcmap", "eval", "merge-replace"}

const c14PhantomKey = "ph"

var c14PhantomVal = value.Int(3)

func c14ListMap(keys []string, vals []value.Value, lo, hi int) value.Map {
	lm := listMap.New[value.Value](hi - lo)
	for i := lo; i < hi; i++ {
		lm = lm.Append(keys[i], vals[i])
	}
	return value.NewMap(lm)
}

func c14BuildMap(repr string, keys []string, vals []value.Value) value.Value {
	n := len(keys)
	dummy := value.String("\x00dummy")
	// m.replace(o->r): the original holds dummies for the keys from index lo on, r the real values + phantom keys
	replace := func(m value.Map, lo int) value.Value {
		lm := listMap.New[value.Value](n - lo + 2)
		lm = lm.Append(c14PhantomKey, c14PhantomVal)
		for i := lo; i < n; i++ {
			lm = lm.Append(keys[i], vals[i])
		}
		lm = lm.Append(c14PhantomKey+"2", dummy)
		return mustEval("m.replace(o->r)", []string{"m", "r"}, m, value.NewMap(lm))
	}
	withDummies := func(lo int) value.Map {
		vs := append([]value.Value{}, vals...)
		for i := lo; i < n; i++ {
			vs[i] = dummy
		}
		return c14ListMap(keys, vs, 0, n)
	}
	switch repr {
	case "real":
		rm := value.RealMap{}
		for i, k := range keys {
			rm[k] = vals[i]
		}
		return value.NewMap(rm)
	case "put":
		if n > 0 {
			return mustEval("m.put(k,v)", []string{"m", "k", "v"}, c14ListMap(keys, vals, 0, n-1), value.String(keys[n-1]), vals[n-1])
		}
	case "putchain":
		var m value.Value = c14ListMap(keys, vals, 0, 0)
		for i := range keys {
			m = mustEval("m.put(k,v)", []string{"m", "k", "v"}, m, value.String(keys[i]), vals[i])
		}
		return m
	case "merge":
		return mustEval("a+b", []string{"a", "b"}, c14ListMap(keys, vals, 0, n/2), c14ListMap(keys, vals, n/2, n))
	case "replace": // the last key is replaced, the others come from the original
		lo := n - 1
		if lo < 0 {
			lo = 0
		}
		return replace(withDummies(lo), lo)
	case "replace-all":
		return replace(withDummies(0), 0)
	case "replace2": // two nested replaces, both with phantom keys
		return replace(replace(withDummies(0), n/2).(value.Map), 0)
	case "replace10": // ten nested replaces: the chain is flattened
		var m value.Value = withDummies(0)
		for i := 0; i < 10; i++ {
			m = replace(m.(value.Map), 0)
		}
		return m
	case "funcmap":
		idx := map[string]int{}
		for i, k := range keys {
			idx[k] = i
		}
		ff := value.NewFuncMapFactory[value.Value](func(_ value.Value, key string) (value.Value, bool) {
			i, ok := idx[key]
			if !ok {
				return nil, false
			}
			return vals[i], true
		}, keys...)
		return ff.Create(value.Int(0))
	case "eval":
		return mustEval("(a+b).eval()", []string{"a", "b"}, c14ListMap(keys, vals, 0, n/2), c14ListMap(keys, vals, n/2, n))
	case "merge-replace":
		vs := append([]value.Value{}, vals...)
		for i := n / 2; i < n; i++ {
			vs[i] = dummy
		}
		m := mustEval("a+b", []string{"a", "b"}, c14ListMap(keys, vals, 0, n/2), c14ListMap(keys, vs, n/2, n))
		return replace(m.(value.Map), n/2)
	}
	return c14ListMap(keys, vals, 0, n)
}

// the un-evaluated list representations: every one denotes exactly the list of items.
// "map:<r>" is map(e->e) over representation r (a size hint of r is inherited).
var c14ListReprs = []string{"eager", "lazy", "append", "concat", "accept", "acceptdrop", "skip", "topeq", "topmore", "topmore-unsized", "topeq-unsized", "combine"}

func c14AllListReprs() []string {
	rs := append([]string{}, c14ListReprs...)
	for _, r := range c14ListReprs {
		if r != "eager" {
			rs = append(rs, "map:"+r)
		}
	}
	return append(rs, "map:eager")
}

// pipelines "p:<source>/<stage>/<stage>...": an un-evaluated lazy pipeline denoting exactly the list of items.
//   sources: eager (literal), lazy (sized, map over the literal), numbers (numbers(k).map(i->l[i]): sized)
//   stages (all the identity on the content): skip-2 skip-1 skip0 top-1 topeq topmore (n = -2,-1,0 / -1,size,size+1),
//   map number iir accept compact revrev (reverse twice) plus (+ [])
var c14PipeSources = []string{"eager", "lazy", "numbers"}
var c14PipeCuts = []string{"skip-2", "skip-1", "skip0", "top-1", "topeq", "topmore"}
var c14PipeTops = []string{"map", "number", "iir", "accept", "compact", "revrev", "plus"}

func c14PipelineReprs() []string {
	var rs []string
	k := 0
	for _, src := range c14PipeSources {
		for _, cut := range c14PipeCuts {
			rs = append(rs, "p:"+src+"/"+cut)
			// two size-handling stages on top of every cut, rotating through all of them
			rs = append(rs, "p:"+src+"/"+cut+"/"+c14PipeTops[k%len(c14PipeTops)])
			rs = append(rs, "p:"+src+"/"+cut+"/"+c14PipeTops[(k+3)%len(c14PipeTops)]+"/"+c14PipeTops[(k+5)%len(c14PipeTops)])
			k++
		}
	}
	return rs
}

func c14BuildPipeline(spec string, items []value.Value) value.Value {
	l1 := []string{"l"}
	ln := []string{"l", "n"}
	parts := strings.Split(spec, "/")
	var v value.Value = value.NewList(items...)
	switch parts[0] {
	case "lazy":
		v = mustEval("l.map(e->e)", l1, v)
	case "numbers":
		v = mustEval("numbers(n).map(i->l[i])", ln, v, value.Int(len(items)))
	}
	for _, stage := range parts[1:] {
		switch stage {
		case "skip-2":
			v = mustEval("l.skip(n)", ln, v, value.Int(-2))
		case "skip-1":
			v = mustEval("l.skip(n)", ln, v, value.Int(-1))
		case "skip0":
			v = mustEval("l.skip(n)", ln, v, value.Int(0))
		case "top-1":
			v = mustEval("l.top(n)", ln, v, value.Int(-1))
		case "topeq":
			v = mustEval("l.top(n)", ln, v, value.Int(len(items)))
		case "topmore":
			v = mustEval("l.top(n)", ln, v, value.Int(len(items)+1))
		case "map":
			v = mustEval("l.map(e->e)", l1, v)
		case "number":
			v = mustEval("l.number((i,e)->e)", l1, v)
		case "iir":
			v = mustEval("l.iir(x->x,(item,last)->item)", l1, v)
		case "accept":
			v = mustEval("l.accept(x->true)", l1, v)
		case "compact":
			v = mustEval("l.compact((a,b)->false)", l1, v)
		case "revrev":
			v = mustEval("l.reverse().reverse()", l1, v)
		case "plus":
			v = mustEval("l+e", []string{"l", "e"}, v, value.NewList())
		default:
			panic("bad pipeline stage " + stage)
		}
	}
	return v
}

func c14BuildList(repr string, items []value.Value) value.Value {
	dummy := value.String("\x00dummy")
	l1 := []string{"l"}
	ln := []string{"l", "n"}
	if spec, ok := strings.CutPrefix(repr, "p:"); ok {
		return c14BuildPipeline(spec, items)
	}
	if rest, ok := strings.CutPrefix(repr, "map:"); ok {
		return mustEval("l.map(e->e)", l1, c14BuildList(rest, items))
	}
	switch repr {
	case "lazy":
		return mustEval("l.map(e->e)", l1, value.NewList(items...))
	case "append":
		if len(items) > 0 {
			return mustEval("l.append(x)", []string{"l", "x"}, value.NewList(items[:len(items)-1]...), items[len(items)-1])
		}
	case "concat":
		k := len(items) / 2
		return mustEval("a+b", []string{"a", "b"}, value.NewList(items[:k]...), value.NewList(items[k:]...))
	case "accept":
		return mustEval("l.accept(x->true)", l1, value.NewList(items...))
	case "acceptdrop":
		// [[false,d],[true,x1],..,[true,xn],[false,d]].accept(p->p[0]).map(p->p[1]): leading and trailing items dropped
		ps := []value.Value{value.NewList(value.Bool(false), dummy)}
		for _, it := range items {
			ps = append(ps, value.NewList(value.Bool(true), it))
		}
		ps = append(ps, value.NewList(value.Bool(false), dummy))
		return mustEval("l.accept(p->p[0]).map(p->p[1])", l1, value.NewList(ps...))
	case "skip":
		return mustEval("l.skip(2)", l1, value.NewList(append([]value.Value{dummy, dummy}, items...)...))
	case "topeq":
		return mustEval("l.top(n)", ln, value.NewList(items...), value.Int(len(items)))
	case "topmore":
		return mustEval("l.top(n)", ln, value.NewList(items...), value.Int(len(items)+3))
	case "topeq-unsized":
		return mustEval("l.accept(x->true).top(n)", ln, value.NewList(items...), value.Int(len(items)))
	case "topmore-unsized":
		return mustEval("l.accept(x->true).top(n)", ln, value.NewList(items...), value.Int(len(items)+3))
	case "combine":
		return mustEval("l.combine((a,b)->a)", l1, value.NewList(append(append([]value.Value{}, items...), dummy)...))
	}
	return value.NewList(items...)
}

// the same abstract value with every list (repr "<list representation>") or every map (repr
// "m=<map representation>") down to nesting depth 2 in the given representation
func (t *c14CV) withRepr(repr string, depth int) *c14CV {
	c := *t
	mrep, isMap := strings.CutPrefix(repr, "m=")
	if depth <= 2 {
		if t.Kind == "list" && !isMap {
			c.Repr = repr
		}
		if t.Kind == "map" && isMap {
			c.Repr = mrep
		}
	}
	c.Items = make([]*c14CV, len(t.Items))
	for i, it := range t.Items {
		c.Items[i] = it.withRepr(repr, depth+1)
	}
	return &c
}

func (t *c14CV) hasMapWithin(depth int) bool {
	if t.Kind == "map" {
		return true
	}
	if depth >= 2 {
		return false
	}
	for _, it := range t.Items {
		if it.hasMapWithin(depth + 1) {
			return true
		}
	}
	return false
}

// the opponent of a map for the phantom key of the replace representations: same size, key number k
// replaced by the phantom key with the phantom value
func (t *c14CV) phantomOpponent(k int) *c14CV {
	c := *t
	c.Keys = append([]string{}, t.Keys...)
	c.Items = append([]*c14CV{}, t.Items...)
	c.Keys[k] = c14PhantomKey
	c.Items[k] = c14CInt(3)
	c.Repr = "listmap"
	return &c
}

func (t *c14CV) hasListWithin(depth int) bool {
	if t.Kind == "list" {
		return true
	}
	if depth >= 2 {
		return false
	}
	for _, it := range t.Items {
		if it.hasListWithin(depth + 1) {
			return true
		}
	}
	return false
}

func (t *c14CV) Depth() int {
	d := 0
	for _, it := range t.Items {
		if x := it.Depth(); x > d {
			d = x
		}
	}
	if t.Kind == "list" || t.Kind == "map" {
		return d + 1
	}
	return 0
}

func (t *c14CV) Walk(f func(*c14CV)) {
	f(t)
	for _, it := range t.Items {
		it.Walk(f)
	}
}

func (t *c14CV) Human() string {
	switch t.Kind {
	case "int":
		return fmt.Sprint(t.I)
	case "float":
		f := t.F()
		if f == 0 && math.Signbit(f) {
			return "-0.0"
		}
		s := fmt.Sprint(f)
		if !strings.ContainsAny(s, ".eIN") {
			s += ".0"
		}
		return s
	case "bool":
		return fmt.Sprint(t.B)
	case "str":
		return fmt.Sprintf("%q", t.S)
	case "clo":
		return fmt.Sprintf("<closure/%d>", t.Arity)
	case "list":
		xs := make([]string, len(t.Items))
		for i, it := range t.Items {
			xs[i] = it.Human()
		}
		r := "[" + strings.Join(xs, ",") + "]"
		if t.Repr != "" && t.Repr != "eager" {
			r += "<" + t.Repr + ">"
		}
		return r
	}
	xs := make([]string, len(t.Items))
	for i, it := range t.Items {
		xs[i] = fmt.Sprintf("%q:%s", t.Keys[i], it.Human())
	}
	r := "{" + strings.Join(xs, ",") + "}"
	if t.Repr != "" && t.Repr != "listmap" {
		r += "<" + t.Repr + ">"
	}
	return r
}

func c14CoqZ(i int64) string { return fmt.Sprintf("(%d)%%Z", i) }

func c14CoqFloat(f float64) string {
	switch {
	case math.IsNaN(f):
		return "FNaN"
	case math.IsInf(f, 1):
		return "(FInf false)"
	case math.IsInf(f, -1):
		return "(FInf true)"
	case f == 0:
		if math.Signbit(f) {
			return "FNegZero"
		}
		return "(FFin 0%Z 0%Z)"
	}
	bits := math.Float64bits(f)
	e := int64((bits >> 52) & 0x7ff)
	m := int64(bits & (1<<52 - 1))
	if e == 0 {
		e = -1074
	} else {
		m |= 1 << 52
		e -= 1075
	}
	for m%2 == 0 {
		m /= 2
		e++
	}
	if math.Signbit(f) {
		m = -m
	}
	return fmt.Sprintf("(FFin %s %s)", c14CoqZ(m), c14CoqZ(e))
}

func c14CoqClo(arity int) string {
	ps := make([]string, arity)
	for i := range ps {
		ps[i] = fmt.Sprintf("[%d]", 120+i)
	}
	return "(VClo " + CoqList(ps) + " (AIdent [120]) [] [])"
}

// Coq term (Sem.Syntax.value) of a runtime value; sorted = map entries by key (results, where only the
// content matters), otherwise in the iteration order of the value (operands: the model visits entries
// in this order)
func c14CoqOfValue(v value.Value, sorted bool) string {
	st := funcGen.NewEmptyStack[value.Value]()
	switch x := v.(type) {
	case value.Int:
		return "(VInt " + c14CoqZ(int64(x)) + ")"
	case value.Float:
		return "(VFloat " + c14CoqFloat(float64(x)) + ")"
	case value.String:
		return "(VStr " + CoqStr(string(x)) + ")"
	case value.Bool:
		return "(VBool " + CoqBool(bool(x)) + ")"
	case value.Closure:
		return c14CoqClo(x.Args)
	case *value.List:
		sl, err := x.ToSlice(st)
		if err != nil {
			fatal("ToSlice: %v", err)
		}
		parts := make([]string, len(sl))
		for i, it := range sl {
			parts[i] = c14CoqOfValue(it, sorted)
		}
		return "(VList " + CoqList(parts) + ")"
	case value.Map:
		type kv struct{ k, t string }
		var es []kv
		x.Iter(func(k string, v value.Value) bool {
			es = append(es, kv{k, c14CoqOfValue(v, sorted)})
			return true
		})
		if sorted {
			sort.Slice(es, func(i, j int) bool { return es[i].k < es[j].k })
		}
		parts := make([]string, len(es))
		for i, e := range es {
			parts[i] = "(" + CoqStr(e.k) + ", " + e.t + ")"
		}
		return "(VMap " + CoqList(parts) + ")"
	}
	return "(VErrText None)" // a value kind outside the model: can never agree
}

// the pool term: maps in the iteration order of the built value, except Go maps (random order), which
// are printed in the order of the description
func (t *c14CV) Coq() string {
	switch t.Kind {
	case "list":
		parts := make([]string, len(t.Items))
		for i, it := range t.Items {
			parts[i] = it.Coq()
		}
		return "(VList " + CoqList(parts) + ")"
	case "map":
		order := make([]int, 0, len(t.Keys))
		if t.Repr == "real" {
			for i := range t.Keys {
				order = append(order, i)
			}
		} else {
			idx := map[string]int{}
			for i, k := range t.Keys {
				idx[k] = i
			}
			t.Build().(value.Map).Iter(func(k string, _ value.Value) bool {
				order = append(order, idx[k])
				return true
			})
		}
		parts := make([]string, len(order))
		for n, i := range order {
			parts[n] = "(" + CoqStr(t.Keys[i]) + ", " + t.Items[i].Coq() + ")"
		}
		return "(VMap " + CoqList(parts) + ")"
	case "clo":
		return c14CoqClo(t.Arity)
	}
	return c14CoqOfValue(t.Build(), false)
}

func (t *c14CV) hasNaN() bool {
	r := false
	t.Walk(func(x *c14CV) {
		if x.Kind == "float" && math.IsNaN(x.F()) {
			r = true
		}
	})
	return r
}

// ---------------------------------------------------------------- pool

const c14Two53 = int64(1) << 53

type c14PoolEntry struct {
	v    *c14CV
	core bool // member of the subset whose triples are enumerated exhaustively in the quick tier
}

func c14CuratedPool() []c14PoolEntry {
	var p []c14PoolEntry
	add := func(core bool, vs ...*c14CV) {
		for _, v := range vs {
			p = append(p, c14PoolEntry{v, core})
		}
	}
	// ints around 0, +-1, +-(2^53-1), 2^53
	add(true, c14CInt(0), c14CInt(1), c14CInt(-1), c14CInt(2), c14CInt(c14Two53-1), c14CInt(-(c14Two53 - 1)), c14CInt(c14Two53))
	add(false, c14CInt(-2), c14CInt(3), c14CInt(7), c14CInt(-c14Two53), c14CInt(c14Two53-2))
	// ints that are different but round to the same float64 (seeded/C14-h compared sort keys as float64): neighbours above 2^53
	// and at both ends of the int64 range
	add(false, c14CInt(c14Two53+1), c14CInt(math.MaxInt64), c14CInt(math.MaxInt64-1), c14CInt(math.MinInt64), c14CInt(math.MinInt64+1))
	// floats: +-0, infinities, NaN, values equal and adjacent to ints, halves
	add(true, c14CFloat(0), c14CFloat(math.Copysign(0, -1)), c14CFloat(1), c14CFloat(-1), c14CFloat(0.5), c14CFloat(1.5), c14CFloat(2),
		c14CFloat(float64(c14Two53-1)), c14CFloat(float64(c14Two53)), c14CFloat(math.Inf(1)), c14CFloat(math.Inf(-1)), c14CFloat(math.NaN()))
	add(false, c14CFloat(-0.5), c14CFloat(-1.5), c14CFloat(2.5), c14CFloat(3), c14CFloat(-float64(c14Two53-1)), c14CFloat(float64(c14Two53-2)),
		c14CFloat(math.Nextafter(1, 2)), c14CFloat(math.Nextafter(1, 0)), c14CFloat(5e-324), c14CFloat(math.MaxFloat64), c14CFloat(-float64(c14Two53)))
	// strings incl. empty, prefix pairs, non-ASCII, astral, NUL
	add(true, c14CStr(""), c14CStr("a"), c14CStr("ab"), c14CStr("b"), c14CStr("ä"))
	add(false, c14CStr("A"), c14CStr("1"), c14CStr("aä"), c14CStr("\U0001f600"), c14CStr("￿"), c14CStr("\x00"), c14CStr("true"))
	// bools
	add(true, c14CBool(true))
	add(false, c14CBool(false))
	// lists: empty, numerically equal in different representations, nested, with incomparable elements
	add(true, c14CList("eager", c14CInt(1)))
	add(false, c14CList("eager"), c14CList("lazy"), c14CList("lazy", c14CFloat(1)), c14CList("eager", c14CInt(2)),
		c14CList("eager", c14CInt(1), c14CInt(2)), c14CList("concat", c14CFloat(1), c14CInt(2)), c14CList("append", c14CInt(1), c14CFloat(2)),
		c14CList("eager", c14CInt(2), c14CInt(1)), c14CList("eager", c14CInt(1), c14CInt(2), c14CInt(3)), c14CList("lazy", c14CInt(2), c14CInt(3)),
		c14CList("eager", c14CList("eager", c14CInt(1)), c14CList("eager", c14CInt(2))), c14CList("lazy", c14CList("lazy", c14CFloat(1)), c14CList("eager", c14CInt(2))),
		c14CList("eager", c14CInt(1), c14CStr("a")), c14CList("eager", c14CStr("a"), c14CInt(1)), c14CList("eager", c14CStr("a")), c14CList("lazy", c14CStr("a")),
		c14CList("eager", c14CInt(1), c14CStr("x")), c14CList("eager", c14CInt(2), c14CInt(1), c14CInt(0)),
		c14CList("eager", c14CFloat(math.NaN())), c14CList("eager", c14CList("eager")), c14CList("eager", c14CMap("listmap", "a", c14CInt(1))),
		c14CList("lazy", c14CMap("put", "a", c14CFloat(1))), c14CList("eager", c14CBool(true)), c14CList("eager", c14CClo(1)))
	// maps in three representations, same content in different key order, nested, incomparable entries
	add(true, c14CMap("listmap", "a", c14CInt(1)))
	add(false, c14CMap("listmap"), c14CMap("real"), c14CMap("real", "a", c14CInt(1)), c14CMap("put", "a", c14CFloat(1)),
		c14CMap("listmap", "a", c14CInt(2)), c14CMap("listmap", "b", c14CInt(1)),
		c14CMap("listmap", "a", c14CInt(1), "b", c14CInt(2)), c14CMap("listmap", "b", c14CFloat(2), "a", c14CInt(1)), c14CMap("put", "a", c14CInt(1), "b", c14CInt(2)),
		c14CMap("listmap", "a", c14CInt(1), "b", c14CInt(3)),
		c14CMap("real", "r1", c14CInt(1), "r2", c14CFloat(2)), c14CMap("listmap", "r2", c14CInt(2), "r1", c14CFloat(1)), c14CMap("put", "r1", c14CInt(1), "r2", c14CInt(3)),
		c14CMap("listmap", "a", c14CInt(1), "b", c14CStr("x")), c14CMap("listmap", "b", c14CInt(1), "a", c14CInt(2)), c14CMap("put", "b", c14CStr("x"), "a", c14CInt(1)),
		c14CMap("listmap", "m", c14CMap("listmap", "a", c14CInt(1), "b", c14CStr("x"))), c14CMap("listmap", "m", c14CMap("listmap", "b", c14CInt(1), "a", c14CInt(2))),
		c14CMap("listmap", "a", c14CList("eager", c14CInt(1))), c14CMap("put", "a", c14CList("lazy", c14CFloat(1))),
		c14CMap("listmap", "", c14CInt(0)), c14CMap("listmap", "ä", c14CStr("ä")), c14CMap("listmap", "a", c14CFloat(math.NaN())), c14CMap("listmap", "a", c14CClo(1)))
	// a list inside a map inside a list, and the map alone: {k:l} ~ [{k:r}]
	add(false, c14CMap("listmap", "k", c14CList("eager", c14CInt(1), c14CInt(2))),
		c14CList("eager", c14CMap("listmap", "k", c14CList("eager", c14CInt(1), c14CInt(2)))),
		c14CList("eager", c14CList("eager", c14CInt(1), c14CInt(2)), c14CList("eager")))
	// closures
	add(false, c14CClo(1), c14CClo(2))
	return p
}

var c14SmallScalars = []*c14CV{c14CInt(0), c14CInt(1), c14CInt(2), c14CFloat(1), c14CFloat(2), c14CFloat(0.5), c14CStr("a"), c14CStr("b"), c14CStr(""), c14CBool(true), c14CBool(false)}

func (r *Rng) c14Gen(depth int) *c14CV {
	k := r.Pick(10)
	if depth <= 0 {
		k = r.Pick(6)
	}
	switch {
	case k < 6:
		return c14SmallScalars[r.Pick(len(c14SmallScalars))]
	case k < 8:
		n := r.Pick(4)
		t := &c14CV{Kind: "list", Repr: []string{"eager", "lazy", "append", "concat"}[r.Pick(4)]}
		for i := 0; i < n; i++ {
			t.Items = append(t.Items, r.c14Gen(depth-1))
		}
		return t
	default:
		n := r.Pick(4)
		t := &c14CV{Kind: "map", Repr: []string{"listmap", "put"}[r.Pick(2)]}
		for i := 0; i < n; i++ {
			key := []string{"a", "b", "c", "", "ä"}[r.Pick(5)]
			dup := false
			for _, k := range t.Keys {
				dup = dup || k == key
			}
			if dup {
				continue
			}
			t.Keys = append(t.Keys, key)
			t.Items = append(t.Items, r.c14Gen(depth-1))
		}
		if len(t.Keys) <= 1 && r.Chance(0.3) {
			t.Repr = "real"
		}
		return t
	}
}

// twin: the same value by the property's notion of equality, written differently: ints <-> floats,
// other list/map representation, map entries in another order; with probability pMut one leaf is changed
func (r *Rng) c14Twin(t *c14CV, pMut float64) *c14CV {
	switch t.Kind {
	case "int":
		if r.Chance(pMut) {
			return c14SmallScalars[r.Pick(len(c14SmallScalars))]
		}
		if r.Chance(0.5) && t.I > -c14Two53 && t.I < c14Two53 {
			return c14CFloat(float64(t.I))
		}
		return t
	case "float":
		if r.Chance(pMut) {
			return c14SmallScalars[r.Pick(len(c14SmallScalars))]
		}
		f := t.F()
		if r.Chance(0.5) && f == math.Trunc(f) && math.Abs(f) < float64(c14Two53) && !(f == 0 && math.Signbit(f)) {
			return c14CInt(int64(f))
		}
		return t
	case "list":
		n := &c14CV{Kind: "list", Repr: []string{"eager", "lazy", "append", "concat"}[r.Pick(4)]}
		for _, it := range t.Items {
			n.Items = append(n.Items, r.c14Twin(it, pMut))
		}
		return n
	case "map":
		n := &c14CV{Kind: "map", Repr: []string{"listmap", "put"}[r.Pick(2)]}
		perm := r.Perm(len(t.Keys))
		for _, i := range perm {
			n.Keys = append(n.Keys, t.Keys[i])
			n.Items = append(n.Items, r.c14Twin(t.Items[i], pMut))
		}
		return n
	}
	if r.Chance(pMut) {
		return c14SmallScalars[r.Pick(len(c14SmallScalars))]
	}
	return t
}

// ---------------------------------------------------------------- observations

const (
	c14OT = "OT"
	c14OF = "OF"
	c14OE = "OE"
)

func c14ObsBool(v value.Value, err error) string {
	if err != nil {
		return c14OE
	}
	if b, ok := v.(value.Bool); ok {
		if b {
			return c14OT
		}
		return c14OF
	}
	return "(OV " + c14CoqOfValue(v, true) + ")"
}

func c14ObsVal(v value.Value, err error) string {
	if err != nil {
		return c14OE
	}
	return "(OV " + c14CoqOfValue(v, true) + ")"
}

func c14ObsN(v value.Value, err error) string {
	if err != nil {
		return c14OE
	}
	if i, ok := v.(value.Int); ok && i >= 0 {
		return fmt.Sprintf("(ON %d)", int64(i))
	}
	return "(OV " + c14CoqOfValue(v, true) + ")"
}

var c14AB = []string{"a", "b"}
var c14ABC = []string{"a", "b", "c"}

var c14PairOps = []string{"=", "!=", "<", ">", "<=", ">="}

// the observations of one direction of a pair: = != < > <= >= min max switch order
func c14DirObs(a, b *c14CV) []string {
	var o []string
	for _, op := range c14PairOps {
		o = append(o, c14ObsBool(evalExpr("a"+op+"b", c14AB, a.Build(), b.Build())))
	}
	o = append(o, c14ObsVal(evalExpr("min(a,b)", c14AB, a.Build(), b.Build())))
	o = append(o, c14ObsVal(evalExpr("max(a,b)", c14AB, a.Build(), b.Build())))
	o = append(o, c14ObsN(evalExpr("switch a case b: 1 default 0", c14AB, a.Build(), b.Build())))
	o = append(o, c14ObsVal(evalExpr("[a,b].order(x->x)", c14AB, a.Build(), b.Build())))
	return o
}

func c14TripleObs(a, b, c *c14CV) []string {
	e3 := func(x string) (value.Value, error) { return evalExpr(x, c14ABC, a.Build(), b.Build(), c.Build()) }
	return []string{
		c14ObsVal(e3("min(a,b,c)")), c14ObsVal(e3("max(a,b,c)")), c14ObsVal(e3("[a,b,c].min()")), c14ObsVal(e3("[a,b,c].max()")),
		c14ObsVal(e3("[a,b,c].order(x->x)")), c14ObsN(e3("switch a case b: 1 case c: 2 default 0")),
		c14ObsBool(evalExpr("a<b", c14AB, a.Build(), b.Build())), c14ObsBool(evalExpr("a<b", c14AB, b.Build(), c.Build())), c14ObsBool(evalExpr("a<b", c14AB, a.Build(), c.Build())),
		c14ObsBool(evalExpr("a=b", c14AB, a.Build(), b.Build())), c14ObsBool(evalExpr("a=b", c14AB, b.Build(), c.Build())), c14ObsBool(evalExpr("a=b", c14AB, a.Build(), c.Build())),
	}
}

func c14MemObs(a, b *c14CV) (obs string, present bool) {
	bv := b.Build()
	present = true
	if l, ok := bv.(*value.List); ok {
		present = value.VerifItemsPresent(l)
	}
	return c14ObsBool(evalExpr("a~b", c14AB, a.Build(), bv)), present
}

func c14NegObs(o string) string {
	switch o {
	case c14OT:
		return c14OF
	case c14OF:
		return c14OT
	}
	return o
}

// ---------------------------------------------------------------- the run

type c14Run struct {
	sum  *Summary
	cw   *CaseWriter
	id   int
	pool []*c14CV
	term []string // Coq term of pool[i] with sorted maps: identifies which operand min/max/order returned
	human []string
	ov    map[int]*c14CV      // representation variants of pool values for the case being run
	ovPos []*c14CV            // the same by operand position (a pair may use one pool value in two representations)
	base  map[[2]int][]string // answers of the pool's own representations, per ordered pair: the reference for the variants
}

func c14Kinds(vs ...*c14CV) string {
	ks := make([]string, len(vs))
	for i, v := range vs {
		ks[i] = v.Kind
	}
	return strings.Join(ks, ",")
}

func (r *c14Run) nextID() int { r.id++; return r.id }

func (r *c14Run) op(i int) *c14CV {
	if v, ok := r.ov[i]; ok {
		return v
	}
	return r.pool[i]
}

func (r *c14Run) violation(id int, op, law string, what string, human map[string]any, expected, observed string, vs ...*c14CV) {
	h := map[string]any{}
	for k, v := range human {
		h[k] = v
	}
	sig := op + "/" + c14Kinds(vs...) + "/" + law
	h["signature"] = sig
	r.sum.GoViolations = append(r.sum.GoViolations, GoViolation{CaseID: id, What: what,
		Sig: sig, Human: h, Expected: expected, Observed: observed})
}

// the case as kept in summary.json: what is needed to replay it (the operand descriptions), the
// observation and the signature under which a specification-side failure found by Coq is reported
func (r *c14Run) record(id int, typ string, defaultSig string, idx []int, desc string) map[string]any {
	vals := make([]*c14CV, len(idx))
	hs := make([]string, len(idx))
	for n, i := range idx {
		vals[n] = r.op(i)
		hs[n] = r.human[i]
		if n < len(r.ovPos) {
			vals[n] = r.ovPos[n]
		}
		if vals[n] != r.pool[i] {
			hs[n] = vals[n].Human()
		}
	}
	repro, _ := json.Marshal(map[string]any{"type": typ, "values": vals})
	human := map[string]any{"operands": strings.Join(hs, "  |  "), "repro": string(repro), "signature": defaultSig}
	if typ != "triple" && (r.ovPos == nil || typ != "pair") {
		human["observed"] = desc
	}
	r.sum.Cases[fmt.Sprint(id)] = human
	if typ != "triple" || len(r.sum.Samples) < 3 {
		r.sum.Sample(human)
	}
	return human
}

// which sub-pair makes = asymmetric: descend while a component pair is itself asymmetric
func c14SymWitness(a, b *c14CV) (*c14CV, *c14CV) {
	asym := func(x, y *c14CV) bool {
		return c14ObsBool(evalExpr("a=b", c14AB, x.Build(), y.Build())) != c14ObsBool(evalExpr("a=b", c14AB, y.Build(), x.Build()))
	}
	for {
		found := false
		if a.Kind == "list" && b.Kind == "list" && len(a.Items) == len(b.Items) {
			for i := range a.Items {
				if asym(a.Items[i], b.Items[i]) {
					a, b, found = a.Items[i], b.Items[i], true
					break
				}
			}
		} else if a.Kind == "map" && b.Kind == "map" {
			for i, k := range a.Keys {
				for j, k2 := range b.Keys {
					if !found && k == k2 && asym(a.Items[i], b.Items[j]) {
						a, b, found = a.Items[i], b.Items[j], true
					}
				}
			}
		}
		if !found {
			return a, b
		}
	}
}

// index of the operand (among idx) whose term equals the result term; -1 if none
func (r *c14Run) whichOperand(resultObs string, idx []int, used []bool) int {
	for n, i := range idx {
		if !used[n] && resultObs == "(OV "+r.term[i]+")" {
			return n
		}
	}
	return -1
}

// a returned list as positions of the operands idx (matching the element terms); rest = what did not match
func (r *c14Run) operandList(o string, idx []int) (outIdx []int, rest string) {
	if !strings.HasPrefix(o, "(OV (VList [") {
		return nil, o
	}
	rest = strings.TrimSuffix(strings.TrimPrefix(o, "(OV (VList ["), "]))")
	used := make([]bool, len(idx))
	for len(rest) > 0 {
		matched := false
		for n, i := range idx {
			if !used[n] && strings.HasPrefix(rest, r.term[i]) && (len(rest) == len(r.term[i]) || rest[len(r.term[i])] == ';') {
				used[n], matched = true, true
				outIdx = append(outIdx, n)
				rest = strings.TrimPrefix(rest[len(r.term[i]):], ";")
				break
			}
		}
		if !matched {
			break
		}
	}
	return outIdx, rest
}

// observations as written to the case file: a returned operand as (OP k), a list of operands as (OL [..])
func (r *c14Run) compact(obs []string, idx []int) string {
	out := make([]string, len(obs))
	for n, o := range obs {
		out[n] = o
		if !strings.HasPrefix(o, "(OV ") {
			continue
		}
		if k := r.whichOperand(o, idx, make([]bool, len(idx))); k >= 0 {
			out[n] = fmt.Sprintf("(OP %d)", k)
		} else if ks, rest := r.operandList(o, idx); rest == "" && len(ks) > 0 {
			parts := make([]string, len(ks))
			for i, k := range ks {
				parts[i] = fmt.Sprint(k)
			}
			out[n] = "(OL " + CoqList(parts) + ")"
		}
	}
	return CoqList(out)
}

// order law on the implementation's own < answers: lt(x,y) is the observed answer for operands x,y of idx
func (r *c14Run) orderLaw(id int, human map[string]any, oord string, idx []int, lt func(x, y int) string) {
	anyErr, nan := false, false
	for x := range idx {
		nan = nan || r.pool[idx[x]].hasNaN()
		for y := range idx {
			if x != y && lt(x, y) == c14OE {
				anyErr = true
			}
		}
	}
	vs := make([]*c14CV, len(idx))
	for n, i := range idx {
		vs[n] = r.pool[i]
	}
	if anyErr {
		if oord != c14OE {
			r.violation(id, "order", "incomparable-is-error", "order answers although < fails on two of the elements", human, "error", oord, vs...)
		}
		return
	}
	if oord == c14OE {
		r.violation(id, "order", "defined", "order fails although < is defined on all elements", human, "a sorted permutation", oord, vs...)
		return
	}
	outIdx, rest := r.operandList(oord, idx)
	if len(outIdx) != len(idx) || len(rest) > 0 {
		r.violation(id, "order", "permutation", "order's result is not a permutation of the list", human, "a permutation", oord, vs...)
		return
	}
	if nan {
		return
	}
	for p := 0; p < len(outIdx); p++ {
		for q := p + 1; q < len(outIdx); q++ {
			if lt(outIdx[q], outIdx[p]) == c14OT {
				r.violation(id, "order", "sorted", "order's result has a later element that is < an earlier one", human, "sorted by <", oord, vs...)
				return
			}
		}
	}
}

// min/max law: the running extreme is replaced when < says so (the implementation's own < answers)
func (r *c14Run) pickLaw(id int, human map[string]any, name string, observed string, idx []int, lt func(x, y int) string) {
	cur := 0
	exp := ""
	for n := 1; n < len(idx); n++ {
		var l string
		if name == "min" {
			l = lt(n, cur)
		} else {
			l = lt(cur, n)
		}
		if l == c14OE {
			exp = c14OE
			break
		}
		if l == c14OT {
			cur = n
		}
	}
	if exp == "" {
		exp = "(OV " + r.term[idx[cur]] + ")"
	}
	if exp != observed {
		vs := make([]*c14CV, len(idx))
		for n, i := range idx {
			vs[n] = r.pool[i]
		}
		r.violation(id, name, "picks-by-less", name+" does not pick the operand that < selects", human, exp, observed, vs...)
	}
}

func (r *c14Run) pairCase(i, j int, lt, eq [][]string) {
	r.pairCaseV(i, j, r.pool[i], r.pool[j], lt, eq)
}

// representation variant of the pair (i,j): a and b denote the same abstract values as pool[i], pool[j];
// the case handed to Coq is the same CPair (the model has no representations), and the answers must be
// those of the pool's own representations
func (r *c14Run) pairVariant(i, j int, ra, rb string, lt, eq [][]string) {
	a, b := r.pool[i].withRepr(ra, 0), r.pool[j].withRepr(rb, 0)
	r.ov = map[int]*c14CV{i: a}
	if i != j {
		r.ov[j] = b
	}
	r.ovPos = []*c14CV{a, b}
	r.sum.Count("variant_pairs", map[bool]string{true: "same abstract value", false: "different values"}[i == j])
	r.pairCaseV(i, j, a, b, lt, eq)
	r.ov, r.ovPos = nil, nil
}

func (r *c14Run) pairCaseV(i, j int, a, b *c14CV, lt, eq [][]string) {
	variant := a != r.pool[i] || b != r.pool[j]
	oab := c14DirObs(a, b)
	oba := oab
	if i != j || variant {
		oba = c14DirObs(b, a)
	}
	if !variant {
		lt[i][j], lt[j][i], eq[i][j], eq[j][i] = oab[2], oba[2], oab[0], oba[0]
		r.base[[2]int{i, j}], r.base[[2]int{j, i}] = oab, oba
	}
	id := r.nextID()
	sum := r.sum
	sum.Evaluations += 2 * len(oab)
	desc := fmt.Sprintf("= != < > <= >= min max switch order: a,b -> %v ; b,a -> %v", oab, oba)
	human := r.record(id, "pair", "pair/"+c14Kinds(a, b)+"/spec", []int{i, j}, desc)
	r.cw.Add(fmt.Sprintf("CPair %d %d %d %s %s", id, i, j, r.compact(oab, []int{i, j}), r.compact(oba, []int{j, i})))
	if variant {
		opn := []string{"=", "!=", "<", ">", "<=", ">=", "min", "max", "switch", "order"}
		for d, o := range [][]string{oab, oba} {
			ref := r.base[[2]int{i, j}]
			x, y := a, b
			if d == 1 {
				ref, x, y = r.base[[2]int{j, i}], b, a
			}
			for n := range o {
				if ref != nil && o[n] != ref[n] {
					r.violation(id, opn[n], "representation", fmt.Sprintf("%s on %s , %s answers %s, on the same values in the pool's representation %s", opn[n], x.Human(), y.Human(), o[n], ref[n]), human, ref[n], o[n], x, y)
					break
				}
			}
		}
	}
	sum.Count("pair_kinds", c14Kinds(a, b))
	sum.Count("pair_depth", fmt.Sprintf("%d,%d", a.Depth(), b.Depth()))
	sum.Count("eq_outcome", oab[0])
	sum.Count("lt_outcome", oab[2])
	if a.Kind != b.Kind || a.Depth() >= 2 || b.Depth() >= 2 {
		sum.Nontriv(fmt.Sprintf("pair:%s|%s", r.term[i], r.term[j]))
	}
	// the laws on the implementation's own answers, both directions
	for d := 0; d < 2; d++ {
		x, y, o, o2 := a, b, oab, oba
		if d == 1 {
			if i == j && !variant {
				break
			}
			x, y, o, o2 = b, a, oba, oab
		}
		e, ne, l, g, le, ge, sw := o[0], o[1], o[2], o[3], o[4], o[5], o[8]
		if e != o2[0] && d == 0 {
			wa, wb := c14SymWitness(x, y)
			r.violation(id, "=", "symmetry", fmt.Sprintf("a=b is %s but b=a is %s (smallest component pair: %s, %s)", e, o2[0], wa.Human(), wb.Human()), human, e, o2[0], wa, wb)
		}
		if ne != c14NegObs(e) {
			r.violation(id, "!=", "negation", "a!=b is not the negation of a=b", human, c14NegObs(e), ne, x, y)
		}
		if g != o2[2] {
			r.violation(id, ">", "flip", "a>b differs from b<a", human, o2[2], g, x, y)
		}
		expLe := l
		if l == c14OF {
			expLe = e
		}
		if le != expLe {
			r.violation(id, "<=", "lt-or-eq", "a<=b differs from (a<b or a=b)", human, expLe, le, x, y)
		}
		if ge != o2[4] {
			r.violation(id, ">=", "flip-le", "a>=b differs from b<=a", human, o2[4], ge, x, y)
		}
		if l == c14OT && o2[2] == c14OT {
			r.violation(id, "<", "asymmetry", "a<b and b<a both hold", human, "not both", "both true", x, y)
		}
		expSw := map[string]string{c14OT: "(ON 1)", c14OF: "(ON 0)", c14OE: c14OE}[e]
		if sw != expSw {
			r.violation(id, "switch", "uses-eq", "switch a case b disagrees with a=b", human, expSw, sw, x, y)
		}
		idx := []int{i, j}
		ltf := func(p, q int) string {
			if p == q {
				return c14OF
			}
			if p == 0 {
				return o[2]
			}
			return o2[2]
		}
		if d == 1 {
			idx = []int{j, i}
		}
		r.pickLaw(id, human, "min", o[6], idx, ltf)
		r.pickLaw(id, human, "max", o[7], idx, ltf)
		if i != j {
			r.orderLaw(id, human, o[9], idx, ltf)
		}
		_ = variant
	}
}

// x ~ l must be the first decisive answer of x = e over the elements (the implementation's own = answers)
func c14FirstDecisive(eqs []string) string {
	for _, e := range eqs {
		if e != c14OF {
			return e
		}
	}
	return c14OF
}

func (r *c14Run) memVariant(i, j int, ra, rb string) {
	r.ov = map[int]*c14CV{i: r.pool[i].withRepr(ra, 0)}
	if i != j {
		r.ov[j] = r.pool[j].withRepr(rb, 0)
	}
	r.ovPos = []*c14CV{r.pool[i].withRepr(ra, 0), r.pool[j].withRepr(rb, 0)}
	r.sum.Count("variant_mem", "x ~ y in other representations")
	r.memCase(i, j)
	r.ov, r.ovPos = nil, nil
}

func (r *c14Run) memCase(i, j int) {
	a, b := r.op(i), r.op(j)
	if len(r.ovPos) == 2 {
		a, b = r.ovPos[0], r.ovPos[1]
	}
	o, present := c14MemObs(a, b)
	id := r.nextID()
	r.sum.Evaluations++
	human := r.record(id, "mem", "~/"+c14Kinds(a, b)+"/spec", []int{i, j}, "a ~ b -> "+o)
	r.cw.Add(fmt.Sprintf("CMem %d %d %d %s %s", id, i, j, CoqBool(present), o))
	r.sum.Count("mem_kinds", c14Kinds(a, b))
	r.sum.Count("mem_outcome", o)
	if b.Kind == "list" {
		r.sum.Count("mem_right_list_materialised", fmt.Sprint(present))
		var eqs []string
		for _, e := range b.Items {
			eqs = append(eqs, c14ObsBool(evalExpr("a=b", c14AB, a.Build(), e.Build())))
		}
		if exp := c14FirstDecisive(eqs); exp != o {
			r.violation(id, "~", "member", fmt.Sprintf("x ~ list is %s but the first decisive answer of x = element is %s (answers %v)", o, exp, eqs), human, exp, o, a, b)
		}
		if a.Kind != "list" || len(b.Items) > 0 {
			r.sum.Nontriv(fmt.Sprintf("mem:%s|%s", r.term[i], r.term[j]))
		}
	}
}

func (r *c14Run) mem2Variant(i, j, k int, ra, rb, rc string, eq [][]string) {
	r.ovPos = []*c14CV{r.pool[i].withRepr(ra, 0), r.pool[j].withRepr(rb, 0), r.pool[k].withRepr(rc, 0)}
	r.sum.Count("variant_mem", "x ~ [y,z] in other representations")
	r.mem2Case(i, j, k, eq)
	r.ovPos = nil
}

func (r *c14Run) mem2Case(i, j, k int, eq [][]string) {
	a, b, c := r.pool[i], r.pool[j], r.pool[k]
	if len(r.ovPos) == 3 {
		a, b, c = r.ovPos[0], r.ovPos[1], r.ovPos[2]
	}
	o := c14ObsBool(evalExpr("a~[b,c]", c14ABC, a.Build(), b.Build(), c.Build()))
	id := r.nextID()
	r.sum.Evaluations++
	human := r.record(id, "mem2", "~/"+c14Kinds(a)+",list/spec", []int{i, j, k}, "a ~ [b,c] -> "+o)
	r.cw.Add(fmt.Sprintf("CMem2 %d %d %d %d %s", id, i, j, k, o))
	if exp := c14FirstDecisive([]string{eq[i][j], eq[i][k]}); exp != o {
		r.violation(id, "~", "member", fmt.Sprintf("x ~ [y,z] is %s but the first decisive answer of x=y, x=z is %s", o, exp), human, exp, o, a, c14CList("eager", b, c))
	}
}

func (r *c14Run) tripleCase(i, j, k int, lt, eq [][]string) int {
	a, b, c := r.pool[i], r.pool[j], r.pool[k]
	o := c14TripleObs(a, b, c)
	id := r.nextID()
	r.sum.Evaluations += len(o)
	human := r.record(id, "triple", "triple/"+c14Kinds(a, b, c)+"/spec", []int{i, j, k},
		fmt.Sprintf("min max l.min l.max order switch a<b b<c a<c a=b b=c a=c -> %v", o))
	r.cw.Add(fmt.Sprintf("CTriple %d %d %d %d %s", id, i, j, k, r.compact(o, []int{i, j, k})))
	r.sum.Count("triple_kinds", c14Kinds(a, b, c))
	if o[6] == c14OT && o[7] == c14OT {
		r.sum.Count("triple_chain", "a<b<c")
		r.sum.Nontriv(fmt.Sprintf("triple:%d,%d,%d", i, j, k))
	} else if o[9] == c14OT && o[10] == c14OT {
		r.sum.Count("triple_chain", "a=b=c")
		r.sum.Nontriv(fmt.Sprintf("triple:%d,%d,%d", i, j, k))
	} else {
		r.sum.Count("triple_chain", "none")
	}
	idx := []int{i, j, k}
	ltf := func(p, q int) string { return lt[idx[p]][idx[q]] }
	r.pickLaw(id, human, "min", o[0], idx, ltf)
	r.pickLaw(id, human, "max", o[1], idx, ltf)
	r.pickLaw(id, human, "min", o[2], idx, ltf)
	r.pickLaw(id, human, "max", o[3], idx, ltf)
	r.orderLaw(id, human, o[4], idx, ltf)
	expSw := c14OE
	switch {
	case eq[i][j] == c14OT:
		expSw = "(ON 1)"
	case eq[i][j] == c14OE:
	case eq[i][k] == c14OT:
		expSw = "(ON 2)"
	case eq[i][k] == c14OF:
		expSw = "(ON 0)"
	}
	if o[5] != expSw {
		r.violation(id, "switch", "first-equal-case", "switch does not take the first case equal to the value", human, expSw, o[5], a, b, c)
	}
	if o[6] == c14OT && o[7] == c14OT && o[8] != c14OT {
		r.violation(id, "<", "transitivity", "a<b and b<c but not a<c", human, c14OT, o[8], a, b, c)
	}
	if o[9] == c14OT && o[10] == c14OT && o[11] != c14OT {
		r.violation(id, "=", "transitivity", "a=b and b=c but not a=c", human, c14OT, o[11], a, b, c)
	}
	return id
}

// [v1..vn].groupByEqual(k->k).size(): the number of groups must be what a first-occurrence scan with the
// implementation's own = answers gives (eq = answers of the pool's own representations)
func (r *c14Run) groupCase(idx []int, eq [][]string) {
	ops := make([]*c14CV, len(idx))
	vals := make([]value.Value, len(idx))
	for n, i := range idx {
		ops[n] = r.pool[i]
		if n < len(r.ovPos) {
			ops[n] = r.ovPos[n]
		}
		vals[n] = ops[n].Build()
	}
	o := c14ObsN(evalExpr("l.groupByEqual(k->k).size()", []string{"l"}, value.NewList(vals...)))
	id := r.nextID()
	r.sum.Evaluations++
	human := r.record(id, "group", "groupByEqual/"+c14Kinds(ops...)+"/spec", idx, "l.groupByEqual(k->k).size() -> "+o)
	ix := make([]string, len(idx))
	for n, i := range idx {
		ix[n] = fmt.Sprint(i)
	}
	r.cw.Add(fmt.Sprintf("CGroup %d %s %s", id, CoqList(ix), o))
	r.sum.Count("group_outcome", o)
	// expected from the = answers
	var groups []int
	exp := ""
scan:
	for _, k := range idx {
		for _, g := range groups {
			switch eq[g][k] {
			case c14OT:
				continue scan
			case c14OE:
				exp = c14OE
				break scan
			}
		}
		groups = append(groups, k)
	}
	if exp == "" {
		exp = fmt.Sprintf("(ON %d)", len(groups))
	}
	if exp != o {
		r.violation(id, "groupByEqual", "groups-by-eq", fmt.Sprintf("groupByEqual makes %s groups, grouping by the implementation's own = answers gives %s", o, exp), human, exp, o, ops...)
	}
	if o != c14OE && len(idx) >= 2 {
		r.sum.Nontriv("group:" + fmt.Sprint(idx) + fmt.Sprint(len(r.ovPos)))
	}
}

func (r *c14Run) groupVariant(i, j int, ra, rb string, eq [][]string) {
	r.ovPos = []*c14CV{r.pool[i].withRepr(ra, 0), r.pool[j].withRepr(rb, 0)}
	r.sum.Count("variant_group", "keys in other representations")
	r.groupCase([]int{i, j}, eq)
	r.ovPos = nil
}

// [v1..vn].order(x->x) for 4..10 operands
func (r *c14Run) orderCase(idx []int, lt [][]string) {
	vals := make([]value.Value, len(idx))
	for n, i := range idx {
		vals[n] = r.pool[i].Build()
	}
	o := c14ObsVal(evalExpr("l.order(x->x)", []string{"l"}, value.NewList(vals...)))
	id := r.nextID()
	r.sum.Evaluations++
	human := r.record(id, "order", "order/n="+fmt.Sprint(len(idx))+"/spec", idx, "l.order(x->x) -> "+o)
	ix := make([]string, len(idx))
	for n, i := range idx {
		ix[n] = fmt.Sprint(i)
	}
	r.cw.Add(fmt.Sprintf("COrder %d %s %s", id, CoqList(ix), strings.TrimSuffix(strings.TrimPrefix(r.compact([]string{o}, idx), "["), "]")))
	r.sum.Count("order_len", fmt.Sprint(len(idx)))
	r.sum.Count("order_outcome", map[bool]string{true: "error", false: "sorted list"}[o == c14OE])
	if o != c14OE {
		r.sum.Nontriv("order:" + fmt.Sprint(idx))
	}
	r.orderLaw(id, human, o, idx, func(p, q int) string {
		if idx[p] == idx[q] {
			return lt[idx[p]][idx[p]]
		}
		return lt[idx[p]][idx[q]]
	})
	// orderRev: the same law with < flipped (an error iff two elements are incomparable, a permutation, no later element
	// greater than an earlier one); judged on the implementation's own < answers (seeded/C14-g swallowed the comparison error)
	orev := c14ObsVal(evalExpr("l.orderRev(x->x)", []string{"l"}, value.NewList(vals...)))
	idr := r.nextID()
	r.sum.Evaluations++
	humanR := r.record(idr, "order", "orderRev/n="+fmt.Sprint(len(idx))+"/law", idx, "l.orderRev(x->x) -> "+orev)
	r.sum.Count("orderRev_outcome", map[bool]string{true: "error", false: "sorted list"}[orev == c14OE])
	r.orderLaw(idr, humanR, orev, idx, func(p, q int) string { return lt[idx[q]][idx[p]] })
}

func (r *c14Run) setPool(pool []*c14CV) {
	r.pool = pool
	r.term = make([]string, len(pool))
	r.human = make([]string, len(pool))
	terms := make([]string, len(pool))
	for i, v := range pool {
		r.term[i] = c14CoqOfValue(v.Build(), true)
		r.human[i] = v.Human()
		terms[i] = v.Coq()
		v.Walk(func(x *c14CV) {
			r.sum.Count("pool_node_kinds", x.Kind)
			if x.Kind == "list" || x.Kind == "map" {
				r.sum.Count("pool_representations", x.Kind+":"+x.Repr)
			}
		})
		r.sum.Count("pool_depth", fmt.Sprint(v.Depth()))
	}
	r.cw.prelude = "Definition pool : list value := [\n" + strings.Join(terms, ";\n") + "\n].\n"
}

func c14NewMatrix(n int) [][]string {
	m := make([][]string, n)
	for i := range m {
		m[i] = make([]string, n)
	}
	return m
}

func cmdC14(seed int64, tier, outDir string) {
	rg := NewRng(seed)
	sum := NewSummary("C14", seed, tier)
	sum.Rule = "curated pool (ints around 0, +-1, +-(2^53-1), 2^53; floats +-0, +-inf, NaN, halves, neighbours of ints; strings incl. empty, prefixes, non-ASCII, astral, NUL; bools; nested lists in 4 representations; maps in 3 representations and different key orders; closures) plus random nested values and their numerically-equal twins: ALL unordered pairs x (= != < > <= >= min max switch order in both directions), ALL ordered pairs for ~, triples (exhaustive over the core subset + random) for transitivity, 3-argument min/max/order, 2-case switch, x~[y,z]; operands are rebuilt for every evaluation and passed as arguments to functions generated by value.New(). non-trivial = pair of different c14Kinds or nesting depth >= 2, membership in a non-empty list (or with a non-list left operand), triple with a<b<c or a=b=c; distinct by operand terms"
	cw := NewCaseWriter(outDir, "From P2 Require Import Base.Prelude Sem.Num Sem.Syntax Sem.Ops Sem.OpsSpec Run.C14Run.", "c14_case", "c14_id", "(c14_im pool)", "(c14_is pool)", 5000)
	run := &c14Run{sum: sum, cw: cw, base: map[[2]int][]string{}}
	finish := func() {
		cw.Flush()
		sum.CaseFiles = cw.files
		sort.SliceStable(sum.GoViolations, func(i, j int) bool {
			return len(fmt.Sprint(sum.GoViolations[i].Human["operands"])) < len(fmt.Sprint(sum.GoViolations[j].Human["operands"]))
		})
		sum.Write(outDir)
	}
	if optReplay != "" {
		var rp struct {
			Type   string `json:"type"`
			Values []*c14CV  `json:"values"`
		}
		var text string
		if err := json.Unmarshal(loadReplayCase(), &text); err != nil {
			fatal("replay case: %v", err)
		}
		if err := json.Unmarshal([]byte(text), &rp); err != nil || len(rp.Values) < 2 {
			fatal("replay case: %v", err)
		}
		run.setPool(rp.Values)
		n := len(rp.Values)
		lt, eq := c14NewMatrix(n), c14NewMatrix(n)
		for i := 0; i < n; i++ {
			for j := i; j < n; j++ {
				if rp.Type != "pair" {
					// only the matrices are needed
					o1, o2 := c14DirObs(rp.Values[i], rp.Values[j]), c14DirObs(rp.Values[j], rp.Values[i])
					lt[i][j], lt[j][i], eq[i][j], eq[j][i] = o1[2], o2[2], o1[0], o2[0]
				}
			}
		}
		switch rp.Type {
		case "pair":
			run.pairCase(0, 1, lt, eq)
		case "mem":
			run.memCase(0, 1)
		case "mem2":
			run.mem2Case(0, 1, 2, eq)
		case "triple":
			run.tripleCase(0, 1, 2, lt, eq)
		case "group":
			idx := make([]int, n)
			for i := range idx {
				idx[i] = i
			}
			run.groupCase(idx, eq)
		case "order":
			idx := make([]int, n)
			for i := range idx {
				idx[i] = i
			}
			run.orderCase(idx, lt)
		default:
			fatal("replay case: unknown type %q", rp.Type)
		}
		finish()
		return
	}

	// ---- pool: corpus of known-bad operand pairs first, then the curated values, then random ones + twins
	var pool []*c14CV
	var core []int
	corpus := []*c14CV{
		c14CList("eager", c14CInt(1)), c14CList("eager", c14CList("eager", c14CInt(1)), c14CList("eager", c14CInt(2))), // [1] ~ [[1],[2]]: error, an element equals x
		c14CList("eager", c14CInt(2), c14CInt(3)), c14CList("eager", c14CInt(1), c14CInt(2), c14CInt(3)), // [2,3] ~ [1,2,3]: true (containment), no element equals x
		c14CMap("listmap", "a", c14CInt(1), "b", c14CStr("x")), c14CMap("listmap", "b", c14CInt(1), "a", c14CInt(2)), // = was false one way and an error the other way before the repair of Map.Equals (error both ways now)
		c14CList("eager", c14CInt(1), c14CStr("a")), c14CList("lazy", c14CStr("a")), // [1,"a"] ~ ["a"]: false if materialised, error if lazy
	}
	seen := map[string]bool{}
	addPool := func(v *c14CV, isCore bool) {
		key := v.Human()
		if seen[key] {
			return
		}
		seen[key] = true
		if isCore {
			core = append(core, len(pool))
		}
		pool = append(pool, v)
	}
	for _, v := range corpus {
		addPool(v, false)
	}
	for _, e := range c14CuratedPool() {
		addPool(e.v, e.core || tier == "thorough" && e.v.Depth() == 0)
	}
	// opponents for the phantom keys of the replace representations: same size, one key swapped for the phantom
	type oppPair struct{ opp, m int }
	var opps []oppPair
	nOpp := 0
	for m := 0; m < len(pool) && nOpp < 14; m++ {
		v := pool[m]
		if v.Kind != "map" || len(v.Keys) == 0 || strings.Contains(v.Human(), "closure") || strings.Contains(v.Human(), "NaN") {
			continue
		}
		for _, k := range []int{len(v.Keys) - 1, 0} {
			o := v.phantomOpponent(k)
			before := len(pool)
			addPool(o, false)
			if len(pool) > before {
				opps = append(opps, oppPair{before, m})
				nOpp++
			}
			if len(v.Keys) == 1 {
				break
			}
		}
	}
	sum.Extra["phantom_opponents"] = len(opps)
	sum.Extra["curated_pool_size"] = len(pool)
	nRandom := 14 * optBoost
	if tier == "thorough" {
		nRandom = 60 * optBoost
	}
	for n := 0; n < nRandom; n++ {
		v := rg.c14Gen(1 + rg.Pick(3))
		addPool(v, false)
		addPool(rg.c14Twin(v, 0), false)
		if rg.Chance(0.5) {
			addPool(rg.c14Twin(v, 0.25), false)
		}
	}
	sum.Extra["pool_size"] = len(pool)
	sum.Extra["core_size"] = len(core)
	run.setPool(pool)
	n := len(pool)
	lt, eq := c14NewMatrix(n), c14NewMatrix(n)

	for i := 0; i < n; i++ {
		for j := i; j < n; j++ {
			run.pairCase(i, j, lt, eq)
		}
	}
	for i := 0; i < n; i++ {
		for j := 0; j < n; j++ {
			run.memCase(i, j)
		}
	}
	// ---- representation independence: the same abstract values with their lists (down to depth 2) in every
	// un-evaluated representation; operands are rebuilt for every evaluation, so they stay un-evaluated
	reprs := c14AllListReprs()
	st0 := funcGen.NewEmptyStack[value.Value]()
	for _, rp := range reprs {
		for _, items := range [][]value.Value{{}, {value.Int(1)}, {value.Int(1), value.Int(2), value.Int(3)}} {
			l := c14BuildList(rp, items).(*value.List)
			hint, known := l.SizeIfKnown()
			state := fmt.Sprintf("present=%v sizeKnown=%v", value.VerifItemsPresent(l), known)
			if known {
				if n, err := l.Size(st0); err == nil {
					state += fmt.Sprintf(" hintExact=%v", n == hint)
				}
			}
			sum.Count("list_state:"+rp, state)
		}
	}
	var withLists, coreLists []int
	for i, v := range pool {
		if i < sum.Extra["curated_pool_size"].(int) && v.hasListWithin(0) && !strings.Contains(v.Human(), "closure") {
			withLists = append(withLists, i)
			if len(coreLists) < 4 && i >= len(corpus) && (v.Depth() >= 2 || len(v.Items) >= 1) && i%2 == 0 {
				coreLists = append(coreLists, i)
			}
		}
	}
	sum.Extra["values_with_lists"] = len(withLists)
	sum.Extra["list_representations"] = len(reprs)
	nPer, nDiff := 12*optBoost, 1
	if tier == "thorough" {
		coreLists = withLists
		nPer, nDiff = 0, 12
	}
	isCore := map[int]bool{}
	for _, i := range coreLists { // the same abstract value: representation x representation, exhaustive
		isCore[i] = true
		for _, ra := range reprs {
			for _, rb := range reprs {
				run.pairVariant(i, i, ra, rb, lt, eq)
			}
		}
	}
	for _, i := range withLists {
		if isCore[i] {
			continue
		}
		for _, ra := range reprs { // every representation against the pool's own and against one other
			run.pairVariant(i, i, ra, pool[i].Repr, lt, eq)
			run.pairVariant(i, i, ra, reprs[rg.Pick(len(reprs))], lt, eq)
		}
		for t := 0; t < nPer; t++ {
			run.pairVariant(i, i, reprs[rg.Pick(len(reprs))], reprs[rg.Pick(len(reprs))], lt, eq)
		}
	}
	for x, i := range withLists { // different values (prefixes, permutations, other kinds of elements)
		for _, j := range withLists[x+1:] {
			for t := 0; t < nDiff; t++ {
				run.pairVariant(i, j, reprs[rg.Pick(len(reprs))], reprs[rg.Pick(len(reprs))], lt, eq)
			}
		}
	}
	for _, j := range withLists { // x ~ l with l (and x) in every representation
		if pool[j].Kind != "list" {
			continue
		}
		for _, rb := range reprs {
			for _, i := range withLists {
				if i == j || rg.Chance(0.08) {
					run.memVariant(i, j, reprs[rg.Pick(len(reprs))], rb)
				}
			}
			run.memVariant(rg.Pick(n), j, "eager", rb)
		}
	}
	// ---- lists as un-evaluated lazy pipelines (size-claiming stages: skip/top with n in {-2,-1,0,size,size+1},
	// map, number, iir, accept, compact, reverse, + on top), each against the literal list, a sized lazy list and a
	// differently built pipeline, both directions, fresh per comparison
	pipes := c14PipelineReprs()
	allL := append(append([]string{}, reprs...), pipes...)
	for _, rp := range pipes {
		for _, items := range [][]value.Value{{}, {value.Int(1)}, {value.Int(1), value.Int(2), value.Int(3)}} {
			l := c14BuildList(rp, items).(*value.List)
			hint, known := l.SizeIfKnown()
			state := fmt.Sprintf("present=%v sizeKnown=%v", value.VerifItemsPresent(l), known)
			if known {
				if n, err := l.Size(st0); err == nil {
					state += fmt.Sprintf(" hintExact=%v", n == hint)
				}
			}
			sum.Count("pipeline_state", state)
			sum.Count("list_state:"+rp, state)
		}
	}
	sum.Extra["list_pipelines"] = len(pipes)
	for _, i := range withLists {
		for _, rp := range pipes {
			run.pairVariant(i, i, rp, "eager", lt, eq)
			if tier == "thorough" || rg.Chance(0.3) {
				run.pairVariant(i, i, rp, "lazy", lt, eq)
			}
			if tier == "thorough" || rg.Chance(0.5) {
				run.pairVariant(i, i, rp, allL[rg.Pick(len(allL))], lt, eq)
			}
		}
	}
	for x, i := range withLists {
		for _, j := range withLists[x+1:] {
			run.pairVariant(i, j, pipes[rg.Pick(len(pipes))], allL[rg.Pick(len(allL))], lt, eq)
		}
	}
	for _, j := range withLists {
		if pool[j].Kind != "list" {
			continue
		}
		for _, rp := range pipes {
			run.memVariant(j, j, allL[rg.Pick(len(allL))], rp)
			if tier == "thorough" || rg.Chance(0.3) {
				run.memVariant(withLists[rg.Pick(len(withLists))], j, pipes[rg.Pick(len(pipes))], rp)
				run.memVariant(rg.Pick(n), j, "eager", rp)
			}
		}
	}
	// ---- maps in every storage representation (down to depth 2): listmap, Go map, put / put chain (AppendMap),
	// + (MergeMap), replace (ReplaceMap: partly / fully replaced, nested twice, ten times = flattened; the replacement
	// maps carry phantom keys the original does not have), funcMap, eval; same abstract value representation x
	// representation, different values, and the phantom-key opponents against every representation, both directions
	var mreprs []string
	for _, mr := range c14MapReprs {
		mreprs = append(mreprs, "m="+mr)
	}
	var withMaps []int
	for i, v := range pool {
		if i < sum.Extra["curated_pool_size"].(int) && v.hasMapWithin(0) && !strings.Contains(v.Human(), "closure") {
			withMaps = append(withMaps, i)
		}
	}
	sum.Extra["values_with_maps"] = len(withMaps)
	sum.Extra["map_representations"] = len(mreprs)
	for _, i := range withMaps {
		for _, ma := range mreprs {
			for _, mb := range mreprs {
				if tier == "thorough" || ma == "m=listmap" || mb == "m=listmap" || rg.Chance(0.12) {
					run.pairVariant(i, i, ma, mb, lt, eq)
				}
			}
		}
	}
	for _, o := range opps {
		for _, mb := range mreprs {
			run.pairVariant(o.opp, o.m, "m=listmap", mb, lt, eq)
			run.pairVariant(o.opp, o.m, mreprs[rg.Pick(len(mreprs))], mb, lt, eq)
			sum.Count("variant_pairs", "phantom-key opponent")
		}
	}
	for x, i := range withMaps {
		for _, j := range withMaps[x+1:] {
			run.pairVariant(i, j, mreprs[rg.Pick(len(mreprs))], mreprs[rg.Pick(len(mreprs))], lt, eq)
		}
	}
	// x ~ [.., m, ..] and switch-like membership with the maps inside the list in every representation
	for _, j := range withMaps {
		if pool[j].Kind != "list" {
			continue
		}
		for _, mb := range mreprs {
			for _, i := range withMaps {
				if pool[i].Kind == "map" && rg.Chance(0.25) {
					run.memVariant(i, j, "m=listmap", mb)
				}
			}
		}
	}
	for _, o := range opps {
		for _, mb := range mreprs {
			other := withMaps[rg.Pick(len(withMaps))]
			run.mem2Variant(o.opp, other, o.m, "m=listmap", mreprs[rg.Pick(len(mreprs))], mb, eq)
			run.mem2Variant(o.m, o.opp, o.m, mb, "m=listmap", mreprs[rg.Pick(len(mreprs))], eq)
		}
	}
	// ---- groupByEqual (derived from =): all ordered pairs of the curated pool, random triples, and the keys in
	// other representations (same abstract value, phantom-key opponents)
	nCur := sum.Extra["curated_pool_size"].(int)
	for i := 0; i < nCur; i++ {
		for j := 0; j < nCur; j++ {
			// every pair that = can compare; one in six of the incomparable ones (thorough: all)
			if eq[i][j] != c14OE || tier == "thorough" || (i+j)%6 == 0 {
				run.groupCase([]int{i, j}, eq)
			}
		}
	}
	nGrp := 1500 * optBoost
	if tier == "thorough" {
		nGrp = 30000 * optBoost
	}
	for t := 0; t < nGrp; t++ {
		idx := make([]int, 3+rg.Pick(3))
		for k := range idx {
			idx[k] = rg.Pick(n)
		}
		run.groupCase(idx, eq)
	}
	for _, i := range withLists {
		for _, rp := range allL {
			if tier == "thorough" || rg.Chance(0.3) {
				run.groupVariant(i, i, rp, allL[rg.Pick(len(allL))], eq)
			}
		}
	}
	for _, i := range withMaps {
		for _, mb := range mreprs {
			run.groupVariant(i, i, mreprs[rg.Pick(len(mreprs))], mb, eq)
		}
	}
	for _, o := range opps {
		for _, mb := range mreprs {
			run.groupVariant(o.opp, o.m, "m=listmap", mb, eq)
			run.groupVariant(o.m, o.opp, mb, "m=listmap", eq)
		}
	}
	// triples: exhaustive over the core subset, random over the whole pool
	done := map[[3]int]int{}
	for _, i := range core {
		for _, j := range core {
			for _, k := range core {
				done[[3]int{i, j, k}] = run.tripleCase(i, j, k, lt, eq)
			}
		}
	}
	nRandTriples := 3000 * optBoost
	if tier == "thorough" {
		nRandTriples = 100000 * optBoost
	}
	for t := 0; t < nRandTriples; t++ {
		i, j, k := rg.Pick(n), rg.Pick(n), rg.Pick(n)
		if _, ok := done[[3]int{i, j, k}]; !ok {
			done[[3]int{i, j, k}] = run.tripleCase(i, j, k, lt, eq)
		}
		if t%3 == 0 {
			run.mem2Case(i, j, k, eq)
		}
	}
	// longer lists for order: mostly mutually comparable scalars (all numbers or all strings)
	var nums, strs []int
	for i, v := range pool {
		switch v.Kind {
		case "int", "float":
			nums = append(nums, i)
		case "str":
			strs = append(strs, i)
		}
	}
	nOrder := 300 * optBoost
	if tier == "thorough" {
		nOrder = 5000 * optBoost
	}
	for t := 0; t < nOrder; t++ {
		src := nums
		if rg.Chance(0.3) {
			src = strs
		}
		idx := make([]int, 4+rg.Pick(7))
		if t%4 == 3 { // longer than the insertion-sort limit of sort.Sort: pdqsort, judged by the checker alone
			idx = make([]int, 13+rg.Pick(28))
		}
		for k := range idx {
			idx[k] = src[rg.Pick(len(src))]
			if rg.Chance(0.02) {
				idx[k] = rg.Pick(n) // an incomparable element now and then
			}
		}
		run.orderCase(idx, lt)
	}
	// transitivity of < and = over ALL triples of the pool, on the pair answers already observed
	checked, chains := 0, 0
	for i := 0; i < n; i++ {
		for j := 0; j < n; j++ {
			if lt[i][j] != c14OT && eq[i][j] != c14OT {
				continue
			}
			for k := 0; k < n; k++ {
				checked++
				bad := (lt[i][j] == c14OT && lt[j][k] == c14OT && lt[i][k] != c14OT) || (eq[i][j] == c14OT && eq[j][k] == c14OT && eq[i][k] != c14OT)
				if lt[i][j] == c14OT && lt[j][k] == c14OT || eq[i][j] == c14OT && eq[j][k] == c14OT {
					chains++
				}
				if bad {
					if _, ok := done[[3]int{i, j, k}]; !ok {
						done[[3]int{i, j, k}] = run.tripleCase(i, j, k, lt, eq) // records the violation with a replayable case
					}
				}
			}
		}
	}
	sum.Extra["transitivity_triples_checked_on_pair_answers"] = checked
	sum.Extra["transitivity_chains_with_both_premises"] = chains
	errs := 0
	for _, k := range []string{"eq_outcome", "lt_outcome", "mem_outcome"} {
		errs += sum.Distribution[k][c14OE]
	}
	sum.Extra["error_outcomes_eq_lt_mem"] = errs
	finish()
}

// ---------------------------------------------------------------- tables

var c14Ops = []string{"|", "&", "=", "!=", "~", "<", ">", "<=", ">=", "+", "-", "<<", ">>", "*", "%", "/", "^"}

// Generated/ValueOps.v: for every operator matrix of value.New() the registered (left type, right type) pairs
func c14Tables(outDir string) {
	fg := value.New()
	ms, plain := value.VerifOpMatrices(fg, c14Ops)
	var b strings.Builder
	b.WriteString(genHeader)
	b.WriteString("(* type ids of value.New() *)\nDefinition type_names : list (N * str) := [")
	for i, nme := range value.VerifTypeNames(fg) {
		if i == 0 {
			continue
		}
		if i > 1 {
			b.WriteString(";")
		}
		fmt.Fprintf(&b, "\n  (%d, %s) (* %s *)", i, CoqStr(nme), nme)
	}
	b.WriteString("].\n\n(* operator, wrapper (0 none, 1 deepEqual: lists and maps first, 2 stringAdd: a string on the left first), registered pairs *)\n")
	b.WriteString("Definition op_matrices : list (str * (N * list (N * N))) := [")
	for i, m := range ms {
		if i > 0 {
			b.WriteString(";")
		}
		w := map[string]int{"": 0, "deepEqual": 1, "stringAdd": 2}[m.Wrapper]
		ps := make([]string, len(m.Pairs))
		for k, p := range m.Pairs {
			ps[k] = fmt.Sprintf("(%d,%d)", p[0], p[1])
		}
		fmt.Fprintf(&b, "\n  (%s (* %s *), (%d, %s))", CoqStr(m.Op), m.Op, w, CoqList(ps))
	}
	b.WriteString("].\n\n(* operators implemented by a function built from the matrices of = and < *)\nDefinition plain_ops : list str := [")
	for i, op := range plain {
		if i > 0 {
			b.WriteString("; ")
		}
		fmt.Fprintf(&b, "%s (* %s *)", CoqStr(op), op)
	}
	b.WriteString("].\n")
	writeIfChanged(filepath.Join(outDir, "ValueOps.v"), b.String())
}
