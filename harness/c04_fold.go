package main

// C04 stream "fold-bomb": constant sub-expressions whose folding at Parse/Generate time panics, fails or recurses
// without end, placed at every grammar position the parser hands to the optimizer (top level, let value, func body,
// nested func body, closure body, if, switch, try/catch, arguments, list elements, map values, operands) x optimizer
// on/off x generators.  Oracle: Generate returns (function or error) - the optimizer's panics must stay contained -
// and the evaluation of a returned function returns too.

import "strings"

// bombs of the value grammar; the ones using `om` need the prefix `let om=x->x(x);` (om is then a constant closure)
var c04Bombs = []struct {
	expr   string
	needOm bool
}{
	{"(x->x(x))(x->x(x))", false},                  // self application: the evaluator's stack guard panics while folding
	{"om(om)", true},                               //
	{"(f->f(f,0))((f,n)->f(f,n+1))", false},        // a constant closure applied to constants exhausts the 10000 slots
	{"[1].map(y->om(om)).size()", true},            // constant list method call with a self-applying callback
	{"[1,2].reduce((p,q)->om(om))", true},          //
	{"ppanic(1)", false},                           // pure host function that panics
	{"1+ppanic(2)*3", false},                       //
	{"[ppanic(1)].size()", false},                  //
	{"perr(1)", false},                             // pure host function that fails
	{"[1,2][5]", false},                            // constant index / member / method on constants that fail
	{"{k:1}.nokey", false},                         //
	{"\"s\".nosuch(1)", false},                     //
	{"1%0", false},                                 //
	{"[1,2].map(y->y%0).sum()", false},             //
	{"\"a\"<1", false},                             //
	{"sqrt(\"s\")", false},                         //
}

// positions: _ is the hole
var c04FoldPositions = []string{
	"_", "a+_", "-_", "(_)*2",
	"let v=_; v", "let v=_; 1", "let v=1; _",
	"if _ then 1 else 2", "if a=1 then _ else 2", "if a=1 then 1 else _", "if true then _ else 2", "if false then 1 else _",
	"switch _ case 1: 2 default 3", "switch a case _: 2 default 3", "switch a case 1: _ default 3", "switch a case 2: 1 default _",
	"try _ catch 0", "try a catch _", "try _ catch e->0", "try a%0 catch e->_",
	"f(_)", "sin(_)", "(y->y)(_)", "\"abc\".cut(_,1)", "[1,2].get(_)", "[1,2].map(y->_).size()", "[1,2].accept(y->_).size()",
	"[1,_,3]", "[_].size()", "{k:_}", "{k:_}.k", "_.size()", "[1,2][_]",
	"(y->_)(1)", "let c=y->_; c(1)", "y->_",
}

// wrappers: where the whole position is placed; _ is the hole
var c04FoldWrappers = []string{
	"_",
	"func g(a) _; g(1)",
	"func g(a) a+(_); g(1)",
	"func g(a) func h(b) _; h(a); g(1)",
	"let c=a->_; c(1)",
	"func g(a) if a=1 then _ else 0; g(1)",
}

func (s *c04Stream) foldBombs(all bool) {
	r := s.r
	k := 0
	add := func(gen string, noopt bool, prog string, needOm bool) {
		if needOm {
			prog = "let om=x->x(x); " + prog
		}
		c := c04Plain(gen, r.Chance(0.3), false, "fold-bomb", prog)
		c.NoOpt, c.Eval = noopt, true
		s.add(c)
	}
	// corpus: the inputs the coordinator's seeded change was found with, and their neighbours
	for _, p := range []string{"let om=x->x(x); func g(a) a+om(om); g(1)", "let om=x->x(x); func g(a) om(om); g(1)", "func g(a) ppanic(1); g(1)",
		"func g(a) (x->x(x))(x->x(x)); g(1)", "let om=x->x(x); om(om)", "let v=ppanic(1); v", "ppanic(1)", "let om=x->x(x); let v=om(om); 1"} {
		add("value", false, p, false)
		add("value", true, p, false)
	}
	for wi, w := range c04FoldWrappers {
		for pi, pos := range c04FoldPositions {
			for bi, b := range c04Bombs {
				k++
				// quick tier: every (wrapper, position) pair with a rotating bomb (two at top level and directly in a func body)
				if !all && (wi*7+pi*3+bi)%len(c04Bombs) != 0 && !(wi <= 1 && (wi*5+pi+bi*3)%len(c04Bombs) == 1) {
					continue
				}
				prog := strings.Replace(w, "_", strings.Replace(pos, "_", b.expr, 1), 1)
				add("value", false, prog, b.needOm)
				if all || k%3 == 0 {
					add("value", true, prog, b.needOm)
				}
			}
		}
	}
	// the other generators: host bombs at the positions their grammar has
	gens := []string{"float", "bool", "empty", "lastunary"}
	if !all {
		gens = gens[:2]
	}
	for _, gen := range gens {
		for _, b := range []string{"ppanic(1)", "perr(1)", "ppanic(a)", "sin(ppanic(1))", "-ppanic(1)", "1+ppanic(2)", "ppanic(1)+a", "ppanic(ppanic(1))", "true&ppanic(true)", "!ppanic(true)"} {
			for wi, w := range []string{"_", "(_)", "a+_", "sin(_)", "_=1"} {
				if !all && wi%2 == 1 {
					continue
				}
				for _, noopt := range []bool{false, true} {
					add(gen, noopt, strings.Replace(w, "_", b, 1), false)
				}
			}
		}
	}
	// fold-cost: constant expressions that are cheap to write and expensive to evaluate. The optimizer evaluates them
	// during Generate, so the time Generate needs is not bounded by the input (known finding); without the
	// optimizer Generate is fast (control).
	for _, p := range []string{"numbers(300000000).sum()+a", "let c=numbers(150000000).map(x->x*2).sum(); c+a"} {
		for _, noopt := range []bool{false, true} {
			c := c04Plain("value", false, false, "fold-cost", p)
			c.NoOpt = noopt
			s.add(c)
		}
	}
}
