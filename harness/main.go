package main

import (
	"encoding/json"
	"flag"
	"fmt"
	"os"
	"strconv"
	"strings"
)

// commands and table writers register themselves from init() functions (one file per property)
var commands = map[string]func(seed int64, tier, outDir string){}
var tableWriters []func(outDir string)

func register(name string, f func(seed int64, tier, outDir string)) { commands[name] = f }
func registerTables(f func(outDir string))                          { tableWriters = append(tableWriters, f) }

func writeExtraTables(outDir string) {
	for _, f := range tableWriters {
		f(outDir)
	}
}

var optReplay string
var optBoost = 1
var optExtraRunes string

func extraRunes() []rune {
	var rs []rune
	for _, f := range strings.Split(optExtraRunes, ",") {
		if n, err := strconv.Atoi(strings.TrimSpace(f)); err == nil {
			rs = append(rs, rune(n))
		}
	}
	return rs
}

// loadReplayCase returns the "case" member of a replay file as raw JSON
func loadReplayCase() json.RawMessage {
	bs, err := os.ReadFile(optReplay)
	if err != nil {
		fatal("replay file: %v", err)
	}
	var rp struct {
		Case json.RawMessage `json:"case"`
	}
	if err := json.Unmarshal(bs, &rp); err != nil || len(rp.Case) == 0 || string(rp.Case) == "null" {
		fatal("replay file has no case to re-run")
	}
	return rp.Case
}

func main() {
	if len(os.Args) < 2 {
		fatal("usage: p2h <command> [flags]")
	}
	cmd := os.Args[1]
	fs := flag.NewFlagSet(cmd, flag.ExitOnError)
	seed := fs.Int64("seed", 1, "PRNG seed")
	tier := fs.String("tier", "quick", "quick|thorough")
	out := fs.String("out", "", "output directory")
	fs.StringVar(&optReplay, "replay", "", "replay file: re-run exactly that case")
	fs.IntVar(&optBoost, "boost", 1, "multiply the case budget (search after a broken obligation)")
	fs.StringVar(&optExtraRunes, "extra-runes", "", "comma separated code points the model computed as witnesses")
	fs.Parse(os.Args[2:])
	if cmd == "tables" {
		cmdTables(*out)
		return
	}
	f, ok := commands[cmd]
	if !ok {
		fmt.Fprintf(os.Stderr, "unknown command %s\n", cmd)
		os.Exit(2)
	}
	f(*seed, *tier, *out)
}
