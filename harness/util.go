package main

import (
	"encoding/json"
	"fmt"
	"math/rand"
	"os"
	"path/filepath"
	"sort"
	"strings"
	"unicode/utf8"
)

// ---------- deterministic randomness: every choice derives from one seed ----------

type Rng struct{ *rand.Rand }

func NewRng(seed int64) *Rng { return &Rng{rand.New(rand.NewSource(seed))} }

func (r *Rng) Pick(n int) int        { return r.Intn(n) }
func (r *Rng) Chance(p float64) bool { return r.Float64() < p }

// ---------- Coq term printing ----------

// runes of a Go string as the scanner/exporters see them (invalid bytes -> U+FFFD)
func Runes(s string) []rune { return []rune(s) }

func CoqRunes(rs []rune) string {
	var b strings.Builder
	b.WriteString("[")
	for i, r := range rs {
		if i > 0 {
			b.WriteString(";")
		}
		fmt.Fprintf(&b, "%d", r)
	}
	b.WriteString("]")
	return b.String()
}

func CoqStr(s string) string { return CoqRunes(Runes(s)) }

func CoqBytesAsRunes(bs []byte) string { return CoqRunes([]rune(string(bs))) }

func CoqList(items []string) string { return "[" + strings.Join(items, ";") + "]" }

func CoqBool(b bool) string {
	if b {
		return "true"
	}
	return "false"
}

// ---------- case files ----------

// CaseFile collects cases for one coqc run; shards are written as Cases_<k>.v
type CaseWriter struct {
	dir      string
	imports  string // Require lines
	prelude  string // definitions placed before the cases (e.g. the checker to use)
	epilogue string // commands placed after bad_im/bad_is (e.g. counts of skipped cases; tools/check.py reads `c01_counts`-style lists named in PROP["count_lists"])
	caseTy   string
	checkIM  string // Coq function name: case -> bool  (true = model agrees with implementation)
	checkIS  string // Coq function name: case -> bool  (true = implementation satisfies the spec side)
	idOf     string // Coq function: case -> N
	shard    int
	per      int
	cur      []string
	files    []string
}

func NewCaseWriter(dir, imports, caseTy, idOf, checkIM, checkIS string, perShard int) *CaseWriter {
	os.MkdirAll(dir, 0o755)
	old, _ := filepath.Glob(filepath.Join(dir, "Cases_*"))
	for _, f := range old {
		os.Remove(f)
	}
	return &CaseWriter{dir: dir, imports: imports, caseTy: caseTy, idOf: idOf, checkIM: checkIM, checkIS: checkIS, per: perShard}
}

func (w *CaseWriter) Add(term string) {
	w.cur = append(w.cur, term)
	if len(w.cur) >= w.per {
		w.Flush()
	}
}

func (w *CaseWriter) Flush() {
	if len(w.cur) == 0 {
		return
	}
	name := fmt.Sprintf("Cases_%d.v", w.shard)
	w.shard++
	var b strings.Builder
	b.WriteString(w.imports)
	b.WriteString("\nLocal Open Scope N_scope.\n")
	b.WriteString(w.prelude)
	fmt.Fprintf(&b, "Definition cases : list (%s) := [\n", w.caseTy)
	b.WriteString(strings.Join(w.cur, ";\n"))
	b.WriteString("\n].\n")
	fmt.Fprintf(&b, "Definition bad_im := Eval vm_compute in map %s (filter (fun c => negb (%s c)) cases).\n", w.idOf, w.checkIM)
	fmt.Fprintf(&b, "Definition bad_is := Eval vm_compute in map %s (filter (fun c => negb (%s c)) cases).\n", w.idOf, w.checkIS)
	b.WriteString("Print bad_im.\nPrint bad_is.\n")
	b.WriteString(w.epilogue)
	p := filepath.Join(w.dir, name)
	if err := os.WriteFile(p, []byte(b.String()), 0o644); err != nil {
		panic(err)
	}
	w.files = append(w.files, p)
	w.cur = nil
}

// ---------- run summary handed to the python driver ----------

type GoViolation struct {
	CaseID   int            `json:"case_id"`
	What     string         `json:"what"`
	Sig      string         `json:"signature"`
	Human    map[string]any `json:"human"`
	Expected string         `json:"expected_S"`
	Observed string         `json:"observed_I"`
}

type Summary struct {
	Property     string                    `json:"property"`
	Seed         int64                     `json:"seed"`
	Tier         string                    `json:"tier"`
	Evaluations  int                       `json:"evaluations"`
	Nontrivial   int                       `json:"distinct_nontrivial"`
	Rule         string                    `json:"rule"`
	Distribution map[string]map[string]int `json:"distribution"`
	Samples      []any                     `json:"samples"`
	Skipped      map[string]int            `json:"skipped"`
	GoViolations []GoViolation             `json:"go_violations"`
	Cases        map[string]map[string]any `json:"cases"` // case id -> human readable description (for replays)
	CaseFiles    []string                  `json:"case_files"`
	Extra        map[string]any            `json:"extra"`
	distinct     map[string]bool
}

func NewSummary(prop string, seed int64, tier string) *Summary {
	return &Summary{Property: prop, Seed: seed, Tier: tier,
		Distribution: map[string]map[string]int{}, Skipped: map[string]int{},
		Cases: map[string]map[string]any{}, Extra: map[string]any{}, distinct: map[string]bool{}}
}

func (s *Summary) Count(hist, key string) {
	m := s.Distribution[hist]
	if m == nil {
		m = map[string]int{}
		s.Distribution[hist] = m
	}
	m[key]++
}

// Nontriv registers a case as non-trivial under the property's rule; distinctness by key
func (s *Summary) Nontriv(key string) {
	if !s.distinct[key] {
		s.distinct[key] = true
		s.Nontrivial++
	}
}

func (s *Summary) Sample(v any) {
	if len(s.Samples) < 5 {
		s.Samples = append(s.Samples, v)
	}
}

func (s *Summary) Write(dir string) {
	os.MkdirAll(dir, 0o755)
	bs, err := json.MarshalIndent(s, "", " ")
	if err != nil {
		panic(err)
	}
	if err := os.WriteFile(filepath.Join(dir, "summary.json"), bs, 0o644); err != nil {
		panic(err)
	}
}

func bucket(n int) string {
	switch {
	case n == 0:
		return "0"
	case n <= 2:
		return "1-2"
	case n <= 5:
		return "3-5"
	case n <= 10:
		return "6-10"
	case n <= 30:
		return "11-30"
	case n <= 100:
		return "31-100"
	}
	return ">100"
}

func sortedKeys[V any](m map[string]V) []string {
	ks := make([]string, 0, len(m))
	for k := range m {
		ks = append(ks, k)
	}
	sort.Strings(ks)
	return ks
}

func validUTF8(s string) bool { return utf8.ValidString(s) }

func fatal(format string, a ...any) {
	fmt.Fprintf(os.Stderr, "harness: "+format+"\n", a...)
	os.Exit(2)
}
