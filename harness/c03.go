package main

// C03 - operator priority, associativity and grouping for any operator table (and the parser half of C04).
//
// For random operator tables the harness generates expression trees, writes them with minimal,
// random-redundant and full parenthesisation (its own rule for where parentheses are needed), lets the
// REAL parser (parser2.NewParser[string]().Op(..).Unary(..).Parse) parse the text and compares the AST with
// the tree it started from (Go-side oracle, independent of the Coq model).  Every case also goes to
// Coq: the token list is taken from the implementation's tokenizer (hook), so c03_im compares the parser
// model with the implementation on exactly the tokens the real parser saw, and c03_is checks the
// implementation's AST against the specification side (Syn/Render.v: wf / flatten / erase).
// Malformed stream: single-token deletions and insertions of valid token lists.
// Full grammar (Step 2): generated programs of the value language's table (let/func/if/switch/try/closures/
// list and map literals) and token-level mutations of them.

import (
	"encoding/json"
	"fmt"
	"sort"
	"strings"

	"github.com/hneemann/parser2"
	"github.com/hneemann/parser2/funcGen"
	"github.com/hneemann/parser2/value"
)

func init() { register("c03", cmdC03) }

// ---------------------------------------------------------------- tables

var c03Pool = []string{"+", "-", "*", "/", "%", "^", "&", "|", "!", "~", "<", ">", "=", "==", "!=", "<=", ">=", "<<", ">>",
	"<<<", "&&", "||", "**", "<>", "?", "??", "@", "#", "$", "+-", "-+", "--", "++", "|>", "<|", "=~", "!~", "<=>", "===", "^^", "~~", "=>", "-<"}

var c03AliasWords = []string{"plus", "and", "or", "mod", "xor", "times"}

type c03Ident struct {
	Name string `json:"name"`
	Kind string `json:"kind"` // var | const | func
}

type c03Table struct {
	Ops     []string          `json:"ops"`
	Unary   []string          `json:"unary"`
	Alias   map[string]string `json:"alias"` // alias word -> operator
	Idents  []c03Ident        `json:"idents"`
	MapThis string            `json:"map_this"` // AddMap(this) on top of the chain, "" = none
	Value   bool              `json:"value"`    // the table of value.New().GetParser()
	Decls   []c03Decl         `json:"decls,omitempty"` // the table is built through the funcGen API with these declarations; Ops is the PROMISED order
	Comfort bool              `json:"comfort,omitempty"` // Parser.Comfort(true): implicit multiplication
}

// one declaration of a binary operator through the generator API
type c03Decl struct {
	API    string `json:"api"` // AddOp AddOpImpl AddOpPure AddSimpleOp AddOpBehind
	Anchor string `json:"anchor"`
	Op     string `json:"op"`
}

// the table the API documentation promises: AddOp* append (lowest priority first), AddOpBehind(behind, new) puts the new
// operator right behind the given one in the priority list (one level above it), behind = "" appends
func c03Promised(decls []c03Decl) []string {
	var tbl []string
	for _, d := range decls {
		if d.API != "AddOpBehind" || d.Anchor == "" {
			tbl = append(tbl, d.Op)
			continue
		}
		var nt []string
		for _, o := range tbl {
			nt = append(nt, o)
			if o == d.Anchor {
				nt = append(nt, d.Op)
			}
		}
		tbl = nt
	}
	return tbl
}

func (t *c03Table) funcGenParser() *parser2.Parser[string] {
	g := funcGen.New[string]().
		SetNumberParser(parser2.NumberParserFunc[string](c03NumberParser)).
		SetStringConverter(parser2.StringConverterFunc[string](func(s string) string { return "s:" + s }))
	for _, d := range t.Decls {
		switch d.API {
		case "AddOp":
			g.AddOp(d.Op, false, funcGen.OperatorFunc[string](nil))
		case "AddOpImpl":
			g.AddOpImpl(d.Op, true, funcGen.OperatorFunc[string](nil))
		case "AddOpPure":
			g.AddOpPure(d.Op, false, funcGen.OperatorFunc[string](nil), false)
		case "AddSimpleOp":
			g.AddSimpleOp(d.Op, false, nil)
		case "AddOpBehind":
			g.AddOpBehind(d.Anchor, d.Op, false, funcGen.OperatorFunc[string](nil), true)
		default:
			panic("bad declaration " + d.API)
		}
	}
	for i, u := range t.Unary {
		if i%2 == 0 {
			g.AddUnary(u, funcGen.UnaryOperatorFunc[string](nil))
		} else {
			g.AddUnaryFunc(u, funcGen.UnaryOperatorFunc[string](nil))
		}
	}
	g.SetOptimizer(nil)
	p := g.GetParser()
	if len(t.Alias) > 0 {
		p.TextOperator(t.Alias)
	}
	if t.Comfort {
		p.Comfort(true)
	}
	return p
}

var c03BaseIdents = []c03Ident{{"a", "var"}, {"b", "var"}, {"c", "var"}, {"x1", "var"}, {"a b", "var"}, {"pi", "const"}, {"k", "const"}, {"f", "func"}, {"sin", "func"}}

func (r *Rng) c03Table() *c03Table {
	t := &c03Table{Alias: map[string]string{}, Idents: c03BaseIdents}
	n := 1 + r.Pick(16)
	if r.Chance(0.3) {
		n = 1 + r.Pick(4)
	}
	perm := r.Perm(len(c03Pool))
	for i := 0; i < n; i++ {
		t.Ops = append(t.Ops, c03Pool[perm[i]])
	}
	nu := r.Pick(4)
	for i := 0; i < nu; i++ {
		var u string
		switch {
		case r.Chance(0.25):
			u = t.Ops[len(t.Ops)-1] // also the highest-priority binary operator
		case r.Chance(0.6):
			u = t.Ops[r.Pick(len(t.Ops))]
		default:
			u = c03Pool[perm[n+r.Pick(len(c03Pool)-n)]]
		}
		dup := false
		for _, x := range t.Unary {
			dup = dup || x == u
		}
		if !dup {
			t.Unary = append(t.Unary, u)
		}
	}
	sort.Strings(t.Unary)
	if r.Chance(0.4) {
		na := 1 + r.Pick(2)
		for i := 0; i < na; i++ {
			t.Alias[c03AliasWords[r.Pick(len(c03AliasWords))]] = t.Ops[r.Pick(len(t.Ops))]
		}
	}
	return t
}

func c03StrConst(s string) string { return s }

func c03NumberParser(n string) (string, error) {
	if strings.Count(n, ".") > 1 {
		return "", fmt.Errorf("not a number")
	}
	return "n:" + n, nil
}

func (t *c03Table) parser() *parser2.Parser[string] {
	if len(t.Decls) > 0 {
		return t.funcGenParser()
	}
	p := parser2.NewParser[string]().
		SetNumberParser(parser2.NumberParserFunc[string](c03NumberParser)).
		SetStringConverter(parser2.StringConverterFunc[string](func(s string) string { return "s:" + s }))
	if len(t.Ops) > 0 {
		p.Op(t.Ops...)
	}
	p.Unary(t.Unary...)
	if len(t.Alias) > 0 {
		p.TextOperator(t.Alias)
	}
	if t.Comfort {
		p.Comfort(true)
	}
	return p
}

func (t *c03Table) idents(withMap bool) parser2.Identifiers[string] {
	var ids parser2.Identifiers[string]
	for _, i := range t.Idents {
		switch i.Kind {
		case "var":
			ids = ids.Add(i.Name)
		case "const":
			ids = ids.AddConst(i.Name, "c:"+i.Name)
		case "func":
			ids = ids.AddFunc(i.Name)
		}
	}
	if withMap && t.MapThis != "" {
		ids = ids.AddMap(t.MapThis)
	}
	return ids
}

// the chain as a Coq term of type idents (innermost first)
func (t *c03Table) coqIdents(withMap bool) string {
	var items []string
	if withMap && t.MapThis != "" {
		items = append(items, "SMap "+CoqStr(t.MapThis))
	}
	for i := len(t.Idents) - 1; i >= 0; i-- {
		id := t.Idents[i]
		switch id.Kind {
		case "var":
			items = append(items, "id_var "+CoqStr(id.Name))
		case "const":
			items = append(items, "id_constant "+CoqStr(id.Name)+" "+CoqStr("c:"+id.Name))
		case "func":
			items = append(items, "id_function "+CoqStr(id.Name))
		}
	}
	return CoqList(items)
}

func c03CoqStrs(l []string) string {
	items := make([]string, len(l))
	for i, s := range l {
		items[i] = CoqStr(s)
	}
	return CoqList(items)
}

// ---------------------------------------------------------------- rendering trees

type c03Rt struct {
	K        string    `json:"k"` // ident num str paren bin un access method call index list
	S        string    `json:"s,omitempty"`
	J        int       `json:"j,omitempty"`
	L        *c03Rt   `json:"l,omitempty"`
	R        *c03Rt   `json:"r,omitempty"`
	Args     []*c03Rt `json:"args,omitempty"`
	Trailing bool      `json:"trailing,omitempty"`
}

func (n *c03Rt) coqArgs() string {
	s := "RA_nil"
	if len(n.Args) == 0 {
		return s
	}
	if !n.Trailing {
		s = "(RA_last " + n.Args[len(n.Args)-1].coq() + ")"
	} else {
		s = "(RA_cons " + n.Args[len(n.Args)-1].coq() + " RA_nil)"
	}
	for i := len(n.Args) - 2; i >= 0; i-- {
		s = "(RA_cons " + n.Args[i].coq() + " " + s + ")"
	}
	return s
}

func (n *c03Rt) coq() string {
	switch n.K {
	case "ident":
		return "(RIdent " + CoqStr(n.S) + ")"
	case "num":
		return "(RNum " + CoqStr(n.S) + ")"
	case "str":
		return "(RStr " + CoqStr(n.S) + ")"
	case "paren":
		return "(RParen " + n.L.coq() + ")"
	case "bin":
		return fmt.Sprintf("(RBin %d%%nat %s %s)", n.J, n.L.coq(), n.R.coq())
	case "un":
		return "(RUn " + CoqStr(n.S) + " " + n.L.coq() + ")"
	case "access":
		return "(RAccess " + n.L.coq() + " " + CoqStr(n.S) + ")"
	case "method":
		return "(RMethod " + n.L.coq() + " " + CoqStr(n.S) + " " + n.coqArgs() + ")"
	case "call":
		return "(RCall " + n.L.coq() + " " + n.coqArgs() + ")"
	case "index":
		return "(RIndex " + n.L.coq() + " " + n.R.coq() + ")"
	case "list":
		return "(RList " + n.coqArgs() + ")"
	}
	panic("rt kind " + n.K)
}

func (n *c03Rt) depth() int {
	d := 0
	for _, c := range append([]*c03Rt{n.L, n.R}, n.Args...) {
		if c != nil && c.depth() > d {
			d = c.depth()
		}
	}
	return d + 1
}

func (n *c03Rt) walk(f func(*c03Rt)) {
	f(n)
	for _, c := range append([]*c03Rt{n.L, n.R}, n.Args...) {
		if c != nil {
			c.walk(f)
		}
	}
}

// surface tree (no parentheses) over the table
func (r *Rng) c03Expr(t *c03Table, depth int) *c03Rt {
	if depth <= 0 || r.Chance(0.12) {
		switch r.Pick(10) {
		case 0, 1:
			return &c03Rt{K: "num", S: []string{"1", "2", "42", "3.5", "0.25", "7"}[r.Pick(6)]}
		case 2:
			return &c03Rt{K: "str", S: []string{"s", "a b", "", "x+y"}[r.Pick(4)]}
		default:
			return &c03Rt{K: "ident", S: t.Idents[r.Pick(len(t.Idents))].Name}
		}
	}
	args := func() ([]*c03Rt, bool) {
		var as []*c03Rt
		k := r.Pick(4)
		for i := 0; i < k; i++ {
			as = append(as, r.c03Expr(t, depth-1-r.Pick(2)))
		}
		return as, k > 0 && r.Chance(0.15)
	}
	c := r.Pick(100)
	switch {
	case c < 55 && len(t.Ops) > 0:
		return &c03Rt{K: "bin", J: r.Pick(len(t.Ops)), L: r.c03Expr(t, depth-1), R: r.c03Expr(t, depth-1)}
	case c < 72 && len(t.Unary) > 0:
		return &c03Rt{K: "un", S: t.Unary[r.Pick(len(t.Unary))], L: r.c03Expr(t, depth-1)}
	case c < 78:
		return &c03Rt{K: "access", S: []string{"m", "len", "a"}[r.Pick(3)], L: r.c03Expr(t, depth-1)}
	case c < 84:
		as, tr := args()
		return &c03Rt{K: "method", S: []string{"m", "len", "a"}[r.Pick(3)], L: r.c03Expr(t, depth-1), Args: as, Trailing: tr}
	case c < 90:
		as, tr := args()
		return &c03Rt{K: "call", L: r.c03Expr(t, depth-1), Args: as, Trailing: tr}
	case c < 95:
		return &c03Rt{K: "index", L: r.c03Expr(t, depth-1), R: r.c03Expr(t, depth-1)}
	case c < 98:
		as, tr := args()
		return &c03Rt{K: "list", Args: as, Trailing: tr}
	}
	return r.c03Expr(t, 0)
}

// ---- the generator's own rule for where parentheses are needed

func (t *c03Table) levelOf(u string) int {
	for i, o := range t.Ops {
		if o == u {
			return i
		}
	}
	return -1
}

func (t *c03Table) lvl(n *c03Rt) int {
	switch n.K {
	case "bin":
		return n.J
	case "un":
		return len(t.Ops)
	}
	return len(t.Ops) + 1
}

// operators of a level >= follow(n) written directly after n would become part of n's last operand
func (t *c03Table) follow(n *c03Rt) int {
	switch n.K {
	case "bin":
		return t.follow(n.R)
	case "un":
		if p := t.levelOf(n.S); p >= 0 {
			f := t.follow(n.L)
			if p+1 < f {
				return p + 1
			}
			return f
		}
	}
	return len(t.Ops)
}

const (
	c03ModeMin  = 0
	c03ModeRand = 1
	c03ModeFull = 2
)

func c03Paren(n *c03Rt) *c03Rt { return &c03Rt{K: "paren", L: n} }

// render inserts parentheses into the surface tree n
func (r *Rng) c03Render(t *c03Table, n *c03Rt, mode int) *c03Rt {
	nops := len(t.Ops)
	wrap := func(ok bool, x *c03Rt) *c03Rt {
		if ok {
			return x
		}
		return c03Paren(x)
	}
	var out *c03Rt
	args := func() []*c03Rt {
		var as []*c03Rt
		for _, a := range n.Args {
			as = append(as, r.c03Render(t, a, mode))
		}
		return as
	}
	switch n.K {
	case "ident", "num", "str":
		out = &c03Rt{K: n.K, S: n.S}
		if mode == c03ModeRand && r.Chance(0.1) {
			out = c03Paren(out)
		}
		return out
	case "paren":
		return r.c03Render(t, n.L, mode)
	case "bin":
		l := r.c03Render(t, n.L, mode)
		rr := r.c03Render(t, n.R, mode)
		out = &c03Rt{K: "bin", J: n.J, L: wrap(t.lvl(l) >= n.J && n.J < t.follow(l), l), R: wrap(t.lvl(rr) >= n.J+1, rr)}
	case "un":
		e := r.c03Render(t, n.L, mode)
		if p := t.levelOf(n.S); p >= 0 {
			out = &c03Rt{K: "un", S: n.S, L: wrap(t.lvl(e) >= p+1, e)}
		} else {
			out = &c03Rt{K: "un", S: n.S, L: wrap(t.lvl(e) == nops+1, e)}
		}
	case "access":
		e := r.c03Render(t, n.L, mode)
		out = &c03Rt{K: "access", S: n.S, L: wrap(t.lvl(e) == nops+1, e)}
	case "method":
		e := r.c03Render(t, n.L, mode)
		out = &c03Rt{K: "method", S: n.S, L: wrap(t.lvl(e) == nops+1, e), Args: args(), Trailing: n.Trailing}
	case "call":
		e := r.c03Render(t, n.L, mode)
		out = &c03Rt{K: "call", L: wrap(t.lvl(e) == nops+1 && e.K != "access", e), Args: args(), Trailing: n.Trailing}
	case "index":
		e := r.c03Render(t, n.L, mode)
		out = &c03Rt{K: "index", L: wrap(t.lvl(e) == nops+1, e), R: r.c03Render(t, n.R, mode)}
	case "list":
		out = &c03Rt{K: "list", Args: args(), Trailing: n.Trailing}
	}
	switch mode {
	case c03ModeFull:
		out = c03Paren(out)
	case c03ModeRand:
		for r.Chance(0.25) {
			out = c03Paren(out)
		}
	}
	return out
}

// ---- tokens and text

type c03Tok struct {
	Typ int    `json:"t"`
	Img string `json:"i"`
	Q   bool   `json:"q,omitempty"` // identifier written in quotes even if it is a plain word
}

const (
	c03ttIdent = 0
	c03ttKeyWord = 1
	c03ttOpen = 2
	c03ttClose = 3
	c03ttOpenBracket = 4
	c03ttCloseBracket = 5
	c03ttOpenCurly = 6
	c03ttCloseCurly = 7
	c03ttDot = 8
	c03ttComma = 9
	c03ttColon = 10
	c03ttSemicolon = 11
	c03ttNumber = 12
	c03ttString = 13
	c03ttOperate = 14
)

func (t *c03Table) flatten(n *c03Rt, out *[]c03Tok) {
	emit := func(typ int, img string) { *out = append(*out, c03Tok{Typ: typ, Img: img}) }
	args := func(closeTyp int, closeImg string) {
		for i, a := range n.Args {
			if i > 0 {
				emit(c03ttComma, ",")
			}
			t.flatten(a, out)
		}
		if n.Trailing && len(n.Args) > 0 {
			emit(c03ttComma, ",")
		}
		emit(closeTyp, closeImg)
	}
	switch n.K {
	case "ident":
		emit(c03ttIdent, n.S)
	case "num":
		emit(c03ttNumber, n.S)
	case "str":
		emit(c03ttString, n.S)
	case "paren":
		emit(c03ttOpen, "(")
		t.flatten(n.L, out)
		emit(c03ttClose, ")")
	case "bin":
		t.flatten(n.L, out)
		emit(c03ttOperate, t.Ops[n.J])
		t.flatten(n.R, out)
	case "un":
		emit(c03ttOperate, n.S)
		t.flatten(n.L, out)
	case "access":
		t.flatten(n.L, out)
		emit(c03ttDot, ".")
		emit(c03ttIdent, n.S)
	case "method":
		t.flatten(n.L, out)
		emit(c03ttDot, ".")
		emit(c03ttIdent, n.S)
		emit(c03ttOpen, "(")
		args(c03ttClose, ")")
	case "call":
		t.flatten(n.L, out)
		emit(c03ttOpen, "(")
		args(c03ttClose, ")")
	case "index":
		t.flatten(n.L, out)
		emit(c03ttOpenBracket, "[")
		t.flatten(n.R, out)
		emit(c03ttCloseBracket, "]")
	case "list":
		emit(c03ttOpenBracket, "[")
		args(c03ttCloseBracket, "]")
	}
}

func c03IsWordy(s string) bool {
	if s == "" {
		return false
	}
	for _, c := range s {
		if !(c == '_' || c >= '0' && c <= '9' || c >= 'a' && c <= 'z' || c >= 'A' && c <= 'Z') {
			return false
		}
	}
	return true
}

// text of a token list; alias words are used for operators now and then; blanks are random except where
// two tokens would otherwise be read as one
func (r *Rng) c03Text(t *c03Table, toks []c03Tok) string {
	var b strings.Builder
	prevWord, prevOp, prevNum := false, false, false
	for i, tk := range toks {
		img := tk.Img
		word, op, num := false, false, false
		switch tk.Typ {
		case c03ttIdent:
			if !tk.Q && c03IsWordy(img) && !(img[0] >= '0' && img[0] <= '9') {
				word = true
			} else {
				img = "'" + img + "'"
			}
		case c03ttNumber:
			word, num = true, true
		case c03ttString:
			img = "\"" + img + "\""
		case c03ttOperate:
			op = true
			for w, o := range t.Alias {
				if o == img && r.Chance(0.5) {
					img, word, op = w, true, false
					break
				}
			}
		case c03ttKeyWord:
			word = true
		}
		sep := r.Chance(0.4)
		if i == 0 {
			sep = r.Chance(0.1)
		}
		if (prevWord && word) || (prevOp && op) || (prevNum && tk.Typ == c03ttDot) || (prevWord && tk.Typ == c03ttDot && num) {
			sep = true
		}
		if prevNum && tk.Typ == c03ttDot {
			sep = true
		}
		if sep {
			b.WriteString(" ")
		}
		b.WriteString(img)
		prevWord, prevOp, prevNum = word, op, num
	}
	return b.String()
}

// ---- comfort mode (Parser.Comfort(true)): the text of a token list with multiplication signs LEFT OUT.
// The generator's own bookkeeping of what the scanner does (token.go run(): lastTokenType is number / identifier / ')'
// behind such a lexeme and nothing behind any other; blanks keep it; a sign is sent in front of a number or an
// identifier when it is set, in front of '(' when it is number or ')' or - only with a blank in between - identifier).
// A binary * is left out with probability omitP where the scanner puts it back; a call f(x) is written tight.
// admissible = false: the text reads as another token stream whatever the layout (call of a parenthesised, called or
// numeric callee: "(f)(x)", "f(x)(y)", "2(x)" are products in comfort mode).
func (r *Rng) c03ComfortText(t *c03Table, toks []c03Tok, omitP float64) (text string, omitted int, tight int, admissible bool) {
	var b strings.Builder
	prevWord, prevOp, prevNum := false, false, false
	const (
		ltNone = iota
		ltNum
		ltIdent
		ltClose
	)
	lt, pend, first := ltNone, false, true
	admissible = true
	for i, tk := range toks {
		img := tk.Img
		word, op, num, plainIdent := false, false, false, false
		switch tk.Typ {
		case c03ttIdent:
			if !tk.Q && c03IsWordy(img) && !(img[0] >= '0' && img[0] <= '9') {
				word, plainIdent = true, true
			} else {
				img = "'" + img + "'"
			}
		case c03ttNumber:
			word, num = true, true
		case c03ttString:
			img = "\"" + img + "\""
		case c03ttOperate:
			op = true
			for w, o := range t.Alias {
				if o == img && r.Chance(0.5) {
					img, word, op = w, true, false
					break
				}
			}
		case c03ttKeyWord:
			word = true
		}
		if tk.Typ == c03ttOperate && op && tk.Img == "*" && !pend && lt != ltNone && i+1 < len(toks) && r.Chance(omitP) {
			if n := toks[i+1].Typ; n == c03ttIdent || n == c03ttNumber || n == c03ttOpen {
				pend = true
				omitted++
				continue
			}
		}
		sep := r.Chance(0.4)
		if first {
			sep = r.Chance(0.1)
		}
		forced := (prevWord && word) || (prevOp && op) || (prevNum && tk.Typ == c03ttDot)
		if prevNum && plainIdent && img[0] != 'e' {
			forced = false // 2a: the number scanner stops in front of a letter other than e
		}
		if forced {
			sep = true
		}
		ins := false
		switch tk.Typ {
		case c03ttIdent, c03ttNumber:
			ins = lt != ltNone
		case c03ttOpen:
			if lt == ltIdent {
				sep = pend // a (b) is the product, a(b) the call
				ins = pend
			} else {
				ins = lt == ltNum || lt == ltClose
			}
		}
		if ins != pend {
			admissible = false
		}
		if pend && !sep {
			tight++
		}
		pend = false
		if sep {
			b.WriteString(" ")
		}
		b.WriteString(img)
		first = false
		prevWord, prevOp, prevNum = word, op, num
		switch tk.Typ {
		case c03ttIdent:
			lt = ltIdent
		case c03ttNumber:
			lt = ltNum
		case c03ttClose:
			lt = ltClose
		default:
			lt = ltNone
		}
	}
	if pend {
		admissible = false
	}
	return b.String(), omitted, tight, admissible
}

// an expression tree for the comfort family: products are boosted, callees are mostly function names
func (r *Rng) c03ComfortExpr(t *c03Table, depth int) *c03Rt {
	star := -1
	for i, o := range t.Ops {
		if o == "*" {
			star = i
		}
	}
	tree := r.c03Expr(t, depth)
	tree.walk(func(n *c03Rt) {
		switch n.K {
		case "bin":
			if star >= 0 && r.Chance(0.5) {
				n.J = star
			}
		case "call":
			if n.L.K != "ident" && r.Chance(0.85) {
				n.L = &c03Rt{K: "ident", S: []string{"f", "sin", "a"}[r.Pick(3)]}
			}
		}
	})
	return tree
}

// ---- the tree the generator expects, in the hook's dump format (computed here, not by the model)

func (t *c03Table) identKind(name string) string {
	for _, i := range t.Idents {
		if i.Name == name {
			return i.Kind
		}
	}
	return ""
}

func (t *c03Table) expect(n *c03Rt, withMap bool) string {
	args := func() string {
		var as []string
		for _, a := range n.Args {
			as = append(as, t.expect(a, withMap))
		}
		return CoqList(as)
	}
	switch n.K {
	case "ident":
		switch t.identKind(n.S) {
		case "const":
			return "(AConst " + CoqStr("c:"+n.S) + ")"
		case "func":
			return "(AIdent " + CoqStr(n.S) + " true)"
		}
		if withMap && t.MapThis != "" {
			return "(AAccess " + CoqStr(n.S) + " (AIdent " + CoqStr(t.MapThis) + " false))"
		}
		return "(AIdent " + CoqStr(n.S) + " false)"
	case "num":
		return "(AConst " + CoqStr("n:"+n.S) + ")"
	case "str":
		return "(AConst " + CoqStr("s:"+n.S) + ")"
	case "paren":
		return t.expect(n.L, withMap)
	case "bin":
		return fmt.Sprintf("(AOp %s %d %s %s)", CoqStr(t.Ops[n.J]), n.J, t.expect(n.L, withMap), t.expect(n.R, withMap))
	case "un":
		return "(AUn " + CoqStr(n.S) + " " + t.expect(n.L, withMap) + ")"
	case "access":
		return "(AAccess " + CoqStr(n.S) + " " + t.expect(n.L, withMap) + ")"
	case "method":
		return "(AMethod " + CoqStr(n.S) + " " + args() + " " + t.expect(n.L, withMap) + ")"
	case "call":
		return "(ACall " + t.expect(n.L, withMap) + " " + args() + ")"
	case "index":
		return "(AIndex " + t.expect(n.R, withMap) + " " + t.expect(n.L, withMap) + ")"
	case "list":
		return "(AListLit " + args() + ")"
	}
	panic("expect " + n.K)
}

// ---------------------------------------------------------------- one case

type c03Case struct {
	Table   *c03Table `json:"table"`
	Text    string    `json:"text"`
	Kind    int       `json:"kind"`
	WithMap bool      `json:"with_map"`
	Cert    *c03Rt   `json:"cert,omitempty"` // kind 0: rendering tree
	Want    []c03Tok  `json:"want_tokens,omitempty"`
	Note    string    `json:"note,omitempty"`
	// comfort-mode family: the same tokens written with every multiplication sign (parsed too and compared)
	Explicit string `json:"explicit,omitempty"`
}

type c03Runner struct {
	sum *Summary
	cw  *CaseWriter
	id  int
	vp  *parser2.Parser[value.Value] // value-language parser (optimizer off, descriptive constants)
}

func c03FirstDiff(a, b string) string {
	split := func(s string) []string {
		return strings.Fields(strings.NewReplacer("(", " ", ")", " ", "[", " [ ", "]", " ] ", ";", " ").Replace(s))
	}
	x, y := split(a), split(b)
	for i := 0; i < len(x) && i < len(y); i++ {
		if x[i] != y[i] {
			return x[i] + "/" + y[i]
		}
	}
	return "length"
}

func c03Balanced(toks []parser2.VerifPTok) bool {
	var st []int
	for _, t := range toks {
		switch t.Typ {
		case c03ttOpen:
			st = append(st, c03ttClose)
		case c03ttOpenBracket:
			st = append(st, c03ttCloseBracket)
		case c03ttOpenCurly:
			st = append(st, c03ttCloseCurly)
		case c03ttClose, c03ttCloseBracket, c03ttCloseCurly:
			if len(st) == 0 || st[len(st)-1] != t.Typ {
				return false
			}
			st = st[:len(st)-1]
		}
	}
	return len(st) == 0
}

func (cr *c03Runner) run(c *c03Case) {
	sum := cr.sum
	cr.id++
	id := cr.id
	t := c.Table
	var toks []parser2.VerifPTok
	var dump string
	var fragAst parser2.AST
	actualOps := t.Ops
	outcome := "ok"
	src, explicitDump := "None", ""
	func() {
		defer func() {
			if rec := recover(); rec != nil {
				outcome = "panic"
				dump = fmt.Sprint(rec)
			}
		}()
		if t.Value {
			toks = cr.vp.VerifParseTokens(c.Text)
			ast, err := cr.vp.Parse(c.Text, c03ValueIdents(c.WithMap))
			if err != nil {
				outcome = "error"
				dump = err.Error()
				return
			}
			dump = parser2.VerifParseDump(ast, func(v value.Value) string {
				if s, ok := v.(value.String); ok {
					return string(s)
				}
				return fmt.Sprintf("?%T", v)
			})
			return
		}
		p := t.parser()
		actualOps, _, _, _ = p.VerifParseConfig()
		toks = p.VerifParseTokens(c.Text)
		if t.Comfort {
			ops, to, kw, cm, cf := p.VerifTokenizerConfig()
			var tl []string
			for w, o := range to {
				tl = append(tl, "("+CoqStr(w)+", "+CoqStr(o)+")")
			}
			sort.Strings(tl)
			src = fmt.Sprintf("(Some (mkSrc %s %s %s %s %s %s))", CoqStr(c.Text), c03CoqStrs(ops), CoqList(tl), c03CoqStrs(kw), CoqBool(cm), CoqBool(cf))
			if c.Explicit != "" {
				if ast2, err2 := p.Parse(c.Explicit, t.idents(c.WithMap)); err2 != nil {
					explicitDump = "error: " + err2.Error()
				} else {
					explicitDump = parser2.VerifParseDump(ast2, c03StrConst)
				}
			}
		}
		ast, err := p.Parse(c.Text, t.idents(c.WithMap))
		if err != nil {
			outcome = "error"
			dump = err.Error()
			return
		}
		dump = parser2.VerifParseDump(ast, c03StrConst)
		fragAst = ast
	}()
	sum.Evaluations++
	kindName := []string{"rendering", "fragment-mutant", "program", "program-mutant"}[c.Kind]
	sum.Count("kind", kindName)
	sum.Count("outcome:"+kindName, outcome)
	sum.Count("tokens", bucket(len(toks)))
	if !t.Value {
		sum.Count("binary_ops_in_table", fmt.Sprint(len(t.Ops)))
		sum.Count("prefix_ops_in_table", fmt.Sprint(len(t.Unary)))
	}

	obs := "OErr"
	switch outcome {
	case "ok":
		obs = "(OAst " + dump + ")"
	case "panic":
		obs = "OPanic"
	}
	var tl []string
	for _, k := range toks {
		tl = append(tl, fmt.Sprintf("(%d,%s)", k.Typ, CoqStr(k.Image)))
	}
	cert := "None"
	if c.Cert != nil {
		cert = "(Some " + c.Cert.coq() + ")"
	}
	ids := t.coqIdents(c.WithMap)
	if t.Value {
		ids = c03ValueCoqIdents(c.WithMap)
	}
	var hist []string
	for _, d := range t.Decls {
		anchor := ""
		if d.API == "AddOpBehind" {
			anchor = d.Anchor
		}
		hist = append(hist, "("+CoqStr(anchor)+", "+CoqStr(d.Op)+")")
	}
	cr.cw.Add(fmt.Sprintf("(%d, mkIn %s %s %s %s %d %s %s %s %s, %s)", id, c03CoqStrs(t.Ops), c03CoqStrs(t.Unary), ids, CoqList(tl), c.Kind, cert,
		c03CoqStrs(actualOps), CoqList(hist), src, obs))


	sig := ""
	human := map[string]any{"text": c.Text, "ops": t.Ops, "unary": t.Unary, "kind": kindName, "observed": outcome + ": " + dump, "repro": c, "note": c.Note}
	if t.Comfort {
		human["comfort"] = true
		if c.Explicit != "" {
			human["explicit_text"] = c.Explicit
			human["explicit_observed"] = explicitDump
		}
	}
	viol := func(what, s, exp string) {
		sig = s
		human["signature"] = s
		sum.GoViolations = append(sum.GoViolations, GoViolation{CaseID: id, What: what, Sig: s, Human: human, Expected: exp, Observed: outcome + ": " + dump})
	}
	// ---- Go-side oracle
	switch {
	case len(t.Decls) > 0 && outcome != "panic" && strings.Join(actualOps, "\x00") != strings.Join(t.Ops, "\x00"):
		human["declarations"] = t.Decls
		viol("the parser's operator order differs from the order the table-construction API (AddOp*, AddOpBehind) promises",
			"table-order", strings.Join(t.Ops, " "))
		human["observed_table"] = strings.Join(actualOps, " ")
	case outcome == "panic":
		viol("Parse panicked", "panic:"+kindName, "an AST or an error")
	case c.Kind == 0:
		want := t.expect(c.Cert, c.WithMap)
		human["expected"] = want
		tokOK := len(toks) == len(c.Want)
		for i := 0; tokOK && i < len(toks); i++ {
			tokOK = toks[i].Typ == c.Want[i].Typ && toks[i].Image == c.Want[i].Img
		}
		if !tokOK {
			viol("the tokenizer did not deliver the tokens that were written (operators separated by blanks)", "tokens", fmt.Sprint(c.Want))
		} else if outcome != "ok" {
			viol("a rendering of an expression tree was rejected", "rejected:"+c03FirstDiff(want, ""), want)
		} else if dump != want {
			viol("the AST differs from the tree that was written", "regroup:"+c03FirstDiff(want, dump), want)
		} else if c.Explicit != "" && explicitDump != dump {
			viol("comfort mode: the text with multiplication signs left out and the explicit text parse differently", "comfort-differs:"+c03FirstDiff(explicitDump, dump), explicitDump)
		}
	case c.Kind == 1 || c.Kind == 3:
		if outcome == "ok" && !c03Balanced(toks) {
			viol("input with unbalanced brackets was accepted", "accepted-unbalanced", "error")
		} else if outcome == "ok" && c.Kind == 1 && fragAst != nil && !c.WithMap {
			// an accepted input is accounted for token by token, kind by kind: operators of the AST are operator
			// tokens, constants are literals, names are identifiers - in the order they were written
			var got, want []c03Tok
			if c03Yield(fragAst, &got) {
				for _, k := range toks {
					switch k.Typ {
					case c03ttIdent, c03ttNumber, c03ttString, c03ttOperate:
						want = append(want, c03Tok{Typ: k.Typ, Img: k.Image})
					}
				}
				same := len(got) == len(want)
				for i := 0; same && i < len(got); i++ {
					same = got[i].Typ == want[i].Typ && got[i].Img == want[i].Img
				}
				if !same {
					sg := "accounting"
					for i := 0; i < len(got) && i < len(want); i++ {
						if got[i] != want[i] {
							sg = fmt.Sprintf("accounting:token-type-%d-read-as-%d", want[i].Typ, got[i].Typ)
							break
						}
					}
					viol("the accepted AST does not account for the tokens as written (a token was dropped, regrouped or read as another kind)", sg, fmt.Sprint(want))
				}
			}
		}
	case c.Kind == 2:
		if outcome != "ok" {
			viol("a generated program of the full grammar was rejected", "program-rejected", "an AST")
		}
	}
	if sig == "" {
		// signature used when only the Coq-side specification check objects to this case
		sig = "spec:" + kindName
	}
	human["signature"] = sig
	if len(sum.GoViolations) > 0 || id%40 == 1 || len(sum.Cases) < 400 || c.Kind == 0 || outcome == "ok" {
		sum.Cases[fmt.Sprint(id)] = human
	}
	if c.Kind == 0 {
		sum.Sample(map[string]any{"ops": t.Ops, "unary": t.Unary, "text": c.Text, "ast": dump})
	}
}

// ---------------------------------------------------------------- full grammar (Step 2)

var c03ValueGlobals = []c03Ident{{"x", "var"}, {"y", "var"}, {"lst", "var"}, {"pi", "const"}, {"true", "const"}, {"sin", "func"}, {"list", "func"}}

func c03ValueIdents(withMap bool) parser2.Identifiers[value.Value] {
	var ids parser2.Identifiers[value.Value]
	for _, i := range c03ValueGlobals {
		switch i.Kind {
		case "var":
			ids = ids.Add(i.Name)
		case "const":
			ids = ids.AddConst(i.Name, value.String("c:"+i.Name))
		case "func":
			ids = ids.AddFunc(i.Name)
		}
	}
	if withMap {
		ids = ids.AddMap("this")
	}
	return ids
}

func c03ValueCoqIdents(withMap bool) string {
	t := &c03Table{Idents: c03ValueGlobals, MapThis: "this"}
	return t.coqIdents(withMap)
}

type c03ProgGen struct {
	r     *Rng
	ops   []string
	unary []string
	scope []string
	n     int
}

var c03ProgNames = []string{"a", "b", "c", "n", "f", "g", "acc", "x", "y", "e"}

func (g *c03ProgGen) name() string { return c03ProgNames[g.r.Pick(len(c03ProgNames))] }

func (g *c03ProgGen) use() string {
	c := g.r.Pick(100)
	switch {
	case c < 60 && len(g.scope) > 0:
		return g.scope[g.r.Pick(len(g.scope))]
	case c < 95:
		return c03ValueGlobals[g.r.Pick(len(c03ValueGlobals))].Name
	}
	return "zz" // unknown
}

func (g *c03ProgGen) with(names []string, f func() string) string {
	old := g.scope
	g.scope = append(append([]string{}, g.scope...), names...)
	s := f()
	g.scope = old
	return s
}

func (g *c03ProgGen) params() []string {
	k := 1 + g.r.Pick(3)
	var ps []string
	for len(ps) < k {
		n := g.name()
		dup := false
		for _, p := range ps {
			dup = dup || p == n
		}
		if !dup {
			ps = append(ps, n)
		}
	}
	return ps
}

// a position where parseLet is called
func (g *c03ProgGen) let(d int) string {
	g.n++
	if d > 0 && g.r.Chance(0.3) {
		n := g.name()
		if g.r.Chance(0.6) {
			v := g.expr(d - 1)
			return "let " + n + " = " + v + " ; " + g.with([]string{n}, func() string { return g.let(d - 1) })
		}
		ps := g.params()
		body := g.with(append(append([]string{}, ps...), n), func() string { return g.let(d - 1) })
		return "func " + n + " ( " + strings.Join(ps, " , ") + " ) " + body + " ; " + g.with([]string{n}, func() string { return g.let(d - 1) })
	}
	return g.expr(d)
}

func (g *c03ProgGen) expr(d int) string {
	g.n++
	if d <= 0 || g.r.Chance(0.15) {
		switch g.r.Pick(8) {
		case 0:
			return []string{"1", "2", "3.5", "10"}[g.r.Pick(4)]
		case 1:
			return "\"s\""
		default:
			return g.use()
		}
	}
	c := g.r.Pick(100)
	switch {
	case c < 30:
		return g.expr(d-1) + " " + g.ops[g.r.Pick(len(g.ops))] + " " + g.expr(d-1)
	case c < 36:
		u := g.unary[g.r.Pick(len(g.unary))]
		for _, o := range g.ops {
			if o == u {
				return u + " " + g.expr(d-1)
			}
		}
		return u + " " + g.postfixBase(d) // a pure prefix operator takes a postfix expression
	case c < 42:
		return "( " + g.expr(d-1) + " )"
	case c < 50:
		x := g.name()
		return x + " -> " + g.with([]string{x}, func() string { return g.let(d - 1) })
	case c < 56:
		ps := g.params()
		if len(ps) < 2 {
			ps = append(ps, "zq")
		}
		return "( " + strings.Join(ps, " , ") + " ) -> " + g.with(ps, func() string { return g.let(d - 1) })
	case c < 62:
		return "if " + g.expr(d-1) + " then " + g.let(d-1) + " else " + g.let(d-1)
	case c < 66:
		return "try " + g.let(d-1) + " catch " + g.let(d-1)
	case c < 71:
		s := "switch " + g.expr(d-1)
		for i := g.r.Pick(3); i > 0; i-- {
			s += " case " + g.expr(d-1) + " : " + g.let(d-1)
		}
		return s + " default " + g.let(d-1)
	case c < 77:
		var es []string
		for i := g.r.Pick(4); i > 0; i-- {
			es = append(es, g.let(d-1))
		}
		return "[ " + strings.Join(es, " , ") + " ]"
	case c < 83:
		var es []string
		for i, k := 0, g.r.Pick(4); i < k; i++ {
			es = append(es, fmt.Sprintf("k%d : %s", i, g.let(d-1)))
		}
		return "{ " + strings.Join(es, " , ") + " }"
	case c < 90:
		var es []string
		for i := g.r.Pick(3); i > 0; i-- {
			es = append(es, g.let(d-1))
		}
		return g.postfixBase(d) + " . " + []string{"map", "size", "reduce"}[g.r.Pick(3)] + " ( " + strings.Join(es, " , ") + " )"
	case c < 95:
		var es []string
		for i := g.r.Pick(3); i > 0; i-- {
			es = append(es, g.let(d-1))
		}
		return g.postfixBase(d) + " ( " + strings.Join(es, " , ") + " )"
	case c < 98:
		return g.postfixBase(d) + " [ " + g.expr(d-1) + " ]"
	}
	return g.postfixBase(d) + " . key"
}

func (g *c03ProgGen) postfixBase(d int) string {
	if g.r.Chance(0.7) {
		return g.use()
	}
	return "( " + g.expr(d-1) + " )"
}

// ---- bracket-kind swaps
//
// A valid token list in which ONE closing bracket is replaced by a closing bracket of another kind (or one opening
// bracket by another opening bracket): the bracket COUNTS of such an input can still pair up - f ( ]  [ ) - which no
// single deletion or insertion produces.  It must be rejected.  Swaps at an EMPTY pair (the opening bracket directly
// followed by the closing one: empty argument lists, method calls without arguments, empty list and map literals) come
// first.
type c03Swap struct {
	pos   int
	to    c03Tok
	empty bool
}

var c03Openers = []c03Tok{{Typ: c03ttOpen, Img: "("}, {Typ: c03ttOpenBracket, Img: "["}, {Typ: c03ttOpenCurly, Img: "{"}}
var c03Closers = []c03Tok{{Typ: c03ttClose, Img: ")"}, {Typ: c03ttCloseBracket, Img: "]"}, {Typ: c03ttCloseCurly, Img: "}"}}

func c03BracketKind(img string) (open, close bool) {
	switch img {
	case "(", "[", "{":
		return true, false
	case ")", "]", "}":
		return false, true
	}
	return false, false
}

// imgs: the images of the tokens; isBracket[i]: token i is a bracket token (not a string or identifier spelled like one)
func c03BracketSwaps(imgs []string, isBracket func(i int) bool) []c03Swap {
	var out []c03Swap
	kind := func(i int) (bool, bool) {
		if i < 0 || i >= len(imgs) || !isBracket(i) {
			return false, false
		}
		return c03BracketKind(imgs[i])
	}
	for i := range imgs {
		o, c := kind(i)
		switch {
		case c:
			po, _ := kind(i - 1)
			for _, k := range c03Closers {
				if k.Img != imgs[i] {
					out = append(out, c03Swap{pos: i, to: k, empty: po})
				}
			}
		case o:
			_, nc := kind(i + 1)
			for _, k := range c03Openers {
				if k.Img != imgs[i] {
					out = append(out, c03Swap{pos: i, to: k, empty: nc})
				}
			}
		}
	}
	return out
}

// the first n swaps: those at an empty pair first (closing before opening), the others after them
func (r *Rng) c03PickSwaps(sw []c03Swap, n int) []c03Swap {
	r.Shuffle(len(sw), func(i, j int) { sw[i], sw[j] = sw[j], sw[i] })
	rank := func(x c03Swap) int {
		_, c := c03BracketKind(x.to.Img)
		switch {
		case x.empty && c:
			return 0
		case x.empty:
			return 1
		}
		return 2
	}
	sort.SliceStable(sw, func(i, j int) bool { return rank(sw[i]) < rank(sw[j]) })
	if n < len(sw) {
		sw = sw[:n]
	}
	return sw
}

// ---- disguised operators

type c03Dis struct {
	toks    []c03Tok
	replace bool
	kind    string
	note    string
}

// every replacement of an operator token, and every insertion after a complete operand, by a string literal
// and by a quoted identifier spelling an operator or a text alias of the table
func c03Disguised(t *c03Table, toks []c03Tok) []c03Dis {
	var out []c03Dis
	forms := func(img string) []c03Tok {
		return []c03Tok{{Typ: c03ttString, Img: img}, {Typ: c03ttIdent, Img: img, Q: true}}
	}
	seen := map[string]bool{}
	var spellings []string
	for _, l := range [][]string{t.Ops, t.Unary} {
		for _, o := range l {
			if !seen[o] {
				seen[o] = true
				spellings = append(spellings, o)
			}
		}
	}
	for _, w := range sortedKeys(t.Alias) {
		if !seen[w] {
			seen[w] = true
			spellings = append(spellings, w)
		}
	}
	for i, k := range toks {
		if k.Typ == c03ttOperate {
			for _, f := range forms(k.Img) {
				nt := append(append(append([]c03Tok{}, toks[:i]...), f), toks[i+1:]...)
				out = append(out, c03Dis{toks: nt, replace: true, kind: "disguise-replace",
					note: fmt.Sprintf("operator token %d (%s) replaced by a %s with the same text", i, k.Img, map[int]string{c03ttString: "string literal", c03ttIdent: "quoted identifier"}[f.Typ])})
			}
		}
		operandEnd := k.Typ == c03ttIdent || k.Typ == c03ttNumber || k.Typ == c03ttString || k.Typ == c03ttClose || k.Typ == c03ttCloseBracket
		if operandEnd {
			for _, sp := range spellings {
				for _, f := range forms(sp) {
					nt := append(append(append([]c03Tok{}, toks[:i+1]...), f), toks[i+1:]...)
					out = append(out, c03Dis{toks: nt, kind: "disguise-insert",
						note: fmt.Sprintf("%s spelling %s inserted after the operand ending at token %d", map[int]string{c03ttString: "string literal", c03ttIdent: "quoted identifier"}[f.Typ], sp, i)})
				}
			}
		}
	}
	return out
}

// content tokens of an accepted input in the order of the AST, with their kinds: an operator of the AST must
// come from an operator token, a constant from a literal or constant identifier, a name from an identifier
func c03Yield(a parser2.AST, out *[]c03Tok) bool {
	list := func(l []parser2.AST) bool {
		for _, x := range l {
			if !c03Yield(x, out) {
				return false
			}
		}
		return true
	}
	switch n := a.(type) {
	case *parser2.Operate:
		if !c03Yield(n.A, out) {
			return false
		}
		*out = append(*out, c03Tok{Typ: c03ttOperate, Img: n.Operator})
		return c03Yield(n.B, out)
	case *parser2.Unary:
		*out = append(*out, c03Tok{Typ: c03ttOperate, Img: n.Operator})
		return c03Yield(n.Value, out)
	case *parser2.MapAccess:
		if !c03Yield(n.MapValue, out) {
			return false
		}
		*out = append(*out, c03Tok{Typ: c03ttIdent, Img: n.Key})
		return true
	case *parser2.MethodCall:
		if !c03Yield(n.Value, out) {
			return false
		}
		*out = append(*out, c03Tok{Typ: c03ttIdent, Img: n.Name})
		return list(n.Args)
	case *parser2.ListAccess:
		return c03Yield(n.List, out) && c03Yield(n.Index, out)
	case *parser2.ListLiteral:
		return list(n.List)
	case *parser2.FunctionCall:
		return c03Yield(n.Func, out) && list(n.Args)
	case *parser2.Ident:
		*out = append(*out, c03Tok{Typ: c03ttIdent, Img: n.Name})
		return true
	case *parser2.Const[string]:
		v := n.Value
		typ := map[byte]int{'n': c03ttNumber, 's': c03ttString, 'c': c03ttIdent}
		if len(v) < 2 || v[1] != ':' {
			return false
		}
		ty, ok := typ[v[0]]
		if !ok {
			return false
		}
		*out = append(*out, c03Tok{Typ: ty, Img: v[2:]})
		return true
	}
	return false
}

// ---------------------------------------------------------------- driver

func (cr *c03Runner) rendering(r *Rng, t *c03Table, tree *c03Rt, mode int, withMap bool) (*c03Case, []c03Tok) {
	rt := r.c03Render(t, tree, mode)
	var toks []c03Tok
	t.flatten(rt, &toks)
	return &c03Case{Table: t, Text: r.c03Text(t, toks), Kind: 0, WithMap: withMap, Cert: rt, Want: toks,
		Note: []string{"minimal parentheses", "random redundant parentheses", "full parentheses"}[mode]}, toks
}

func c03Levels(n *c03Rt) int {
	lv := map[int]bool{}
	n.walk(func(x *c03Rt) {
		if x.K == "bin" {
			lv[x.J] = true
		}
	})
	return len(lv)
}

// a table built through the generator API: random declarations, the promised order computed here
func (r *Rng) c03FuncGenTable() *c03Table {
	t := &c03Table{Alias: map[string]string{}, Idents: c03BaseIdents}
	n := 2 + r.Pick(7)
	perm := r.Perm(len(c03Pool))
	var have []string
	for i := 0; i < n; i++ {
		op := c03Pool[perm[i]]
		d := c03Decl{Op: op}
		switch {
		case i > 0 && r.Chance(0.55):
			d.API = "AddOpBehind"
			if !r.Chance(0.12) {
				d.Anchor = have[r.Pick(len(have))]
			}
		default:
			d.API = []string{"AddOp", "AddOpImpl", "AddOpPure", "AddSimpleOp"}[r.Pick(4)]
		}
		t.Decls = append(t.Decls, d)
		have = append(have, op)
	}
	t.Ops = c03Promised(t.Decls)
	for i, nu := 0, r.Pick(3); i < nu; i++ {
		u := t.Ops[r.Pick(len(t.Ops))]
		if r.Chance(0.3) {
			u = c03Pool[perm[n+r.Pick(len(c03Pool)-n)]]
		}
		if !pgContains(t.Unary, u) {
			t.Unary = append(t.Unary, u)
		}
	}
	sort.Strings(t.Unary)
	return t
}

// trees that mix an operator declared with AddOpBehind with its anchor and its neighbours
func (t *c03Table) c03AnchorTrees() []*c03Rt {
	id := func(s string) *c03Rt { return &c03Rt{K: "ident", S: s} }
	bin := func(j int, l, r *c03Rt) *c03Rt { return &c03Rt{K: "bin", J: j, L: l, R: r} }
	var out []*c03Rt
	for _, d := range t.Decls {
		if d.API != "AddOpBehind" || d.Anchor == "" {
			continue
		}
		la, lo := t.levelOf(d.Anchor), t.levelOf(d.Op)
		out = append(out, bin(la, id("a"), bin(lo, id("b"), id("c"))), bin(la, bin(lo, id("a"), id("b")), id("c")),
			bin(lo, bin(la, id("a"), id("b")), id("c")), bin(lo, id("a"), bin(la, id("b"), id("c"))))
		if lo+1 < len(t.Ops) {
			out = append(out, bin(lo, id("a"), bin(lo+1, id("b"), id("c"))), bin(lo+1, bin(lo, id("a"), id("b")), id("c")))
		}
		if pgContains(t.Unary, d.Anchor) {
			out = append(out, &c03Rt{K: "un", S: d.Anchor, L: bin(lo, id("a"), id("b"))}, bin(lo, &c03Rt{K: "un", S: d.Anchor, L: id("a")}, id("b")))
		}
	}
	return out
}

func (cr *c03Runner) corpus() {
	r := NewRng(7)
	id := func(s string) *c03Rt { return &c03Rt{K: "ident", S: s} }
	num := func(s string) *c03Rt { return &c03Rt{K: "num", S: s} }
	// known-bad first: prefix operator = highest-priority binary operator (panicked before the fix),
	// and the empty operator table (panicked in parseOp)
	// a table built through the generator API: + - * ^ and then AddOpBehind("*", "%"): the promised table is + - * % ^
	tb := &c03Table{Unary: []string{"-"}, Alias: map[string]string{}, Idents: c03BaseIdents,
		Decls: []c03Decl{{API: "AddOp", Op: "+"}, {API: "AddOpImpl", Op: "-"}, {API: "AddSimpleOp", Op: "*"}, {API: "AddOpPure", Op: "^"}, {API: "AddOpBehind", Anchor: "*", Op: "%"}}}
	tb.Ops = c03Promised(tb.Decls)
	for _, tree := range tb.c03AnchorTrees() {
		for mode := 0; mode < 3; mode++ {
			c, _ := cr.rendering(r, tb, tree, mode, false)
			c.Note = "corpus: table built with AddOpBehind(\"*\", \"%\"); " + c.Note
			cr.run(c)
		}
	}
	t1 := &c03Table{Ops: []string{"+", "-"}, Unary: []string{"-"}, Alias: map[string]string{}, Idents: c03BaseIdents}
	for _, tree := range []*c03Rt{
		{K: "un", S: "-", L: num("1")},
		{K: "bin", J: 0, L: num("2"), R: &c03Rt{K: "un", S: "-", L: num("1")}},
		{K: "bin", J: 1, L: &c03Rt{K: "un", S: "-", L: id("a")}, R: &c03Rt{K: "un", S: "-", L: &c03Rt{K: "un", S: "-", L: id("b")}}},
	} {
		for mode := 0; mode < 3; mode++ {
			c, _ := cr.rendering(r, t1, tree, mode, false)
			c.Note = "corpus: prefix operator is also the highest-priority binary operator; " + c.Note
			cr.run(c)
		}
	}
	t0 := &c03Table{Ops: nil, Unary: []string{"-", "!"}, Alias: map[string]string{}, Idents: c03BaseIdents}
	for _, tree := range []*c03Rt{num("1"), {K: "un", S: "-", L: &c03Rt{K: "un", S: "!", L: id("a")}},
		{K: "call", L: id("f"), Args: []*c03Rt{{K: "un", S: "-", L: num("1")}, id("b")}}} {
		c, _ := cr.rendering(r, t0, tree, c03ModeMin, false)
		c.Note = "corpus: no binary operators declared"
		cr.run(c)
	}
	cr.run(&c03Case{Table: t0, Text: "1 1", Kind: 1, Note: "corpus: no binary operators, trailing token"})
	// the follow bound: a * -b * c  with  - below *  groups as a * (-(b*c))
	t2 := &c03Table{Ops: []string{"-", "*"}, Unary: []string{"-"}, Alias: map[string]string{}, Idents: c03BaseIdents}
	tree := &c03Rt{K: "bin", J: 1, L: &c03Rt{K: "bin", J: 1, L: id("a"), R: &c03Rt{K: "un", S: "-", L: id("b")}}, R: id("c")}
	for mode := 0; mode < 3; mode++ {
		c, _ := cr.rendering(r, t2, tree, mode, false)
		c.Note = "corpus: follow bound of a prefix operator that is also binary; " + c.Note
		cr.run(c)
	}
	// disguised operators: a string literal / quoted identifier spelling an operator or a text alias is an operand
	t3 := &c03Table{Ops: []string{"+", "<=", "*"}, Unary: []string{"+"}, Alias: map[string]string{"plus": "+"}, Idents: c03BaseIdents}
	for _, s := range []string{"a \"+\" b", "a '*' b", "f(a '*' b)", "a \"<=\" b", "a '<=' b", "a 'plus' b", "a \"plus\" b", "\"+\" a", "'+' a",
		"a + \"+\"", "a plus '*'", "a \"+\" (b)", "f('*')", "[a \"*\" b]", "a.m(b '+' c)", "a[1 \"+\" 2]"} {
		cr.run(&c03Case{Table: t3, Text: s, Kind: 1, Note: "corpus: string literal / quoted identifier spelling an operator or alias in operator position"})
	}
	// an EMPTY argument list / list literal closed by the wrong KIND of bracket, the rest balanced (bracket counts pair up:
	// not reachable by one deletion or insertion)
	t4 := &c03Table{Ops: []string{"+", "*", "^"}, Unary: []string{"-"}, Alias: map[string]string{}, Idents: append(append([]c03Ident{}, c03BaseIdents...), c03Ident{"g", "func"})}
	for _, s := range []string{"f(]", "a.g(]", "[)", "a+f(]*2", "g([))", "-f(]^2", "g([),f())", "g([],f(])", "[f(],[]]", "[f(),[)]", "f(a)[1].g(]",
		"f[)", "f{)", "f(}", "[}", "a.g[)", "f(a]", "[a,b)", "f(a,]", "(a+b]", "a[1)"} {
		cr.run(&c03Case{Table: t4, Text: s, Kind: 1, Note: "corpus: one bracket replaced by a bracket of another kind"})
	}
	if cr.vp != nil {
		vops, vun, _, _ := cr.vp.VerifParseConfig()
		vt := &c03Table{Ops: vops, Unary: vun, Value: true, Alias: map[string]string{}}
		for _, s := range []string{"let b=[); b", "let b=x.size(]; b", "func h(n) sin(]; h(1)", "{)", "{]", "[}", "let b={a:[)}; b", "x->list(]"} {
			cr.run(&c03Case{Table: vt, Text: s, Kind: 3, Note: "corpus: one bracket replaced by a bracket of another kind (full grammar)"})
		}
	}
	for _, s := range []string{"a * - b * c", "(a", "a)", "a b", "a *", "* a", "f(a,,b)", "f(a b)", "a[1", "a.", "a.(b)", "(a,b)", "a.m(", "[a,b", "()", "a - - b", "-", ""} {
		cr.run(&c03Case{Table: t2, Text: s, Kind: 1, Note: "corpus: malformed or boundary input"})
	}
}

func cmdC03(seed int64, tier, outDir string) {
	r := NewRng(seed)
	sum := NewSummary("C03", seed, tier)
	sum.Rule = "random operator tables (1..16 binary operators from a pool of 43 spellings with prefix overlaps, 0..3 prefix operators of which some are also binary incl. the highest level, optional text aliases) x expression trees of depth <= 6 (binary, prefix, member, method call, call, index, list) x {minimal, random-redundant, full} parenthesisation, parsed by the real parser; plus tables built through the generator API (funcGen AddOp / AddOpImpl / AddOpPure / AddSimpleOp / AddOpBehind with every existing operator or \"\" as anchor, AddUnary / AddUnaryFunc, then GetParser): the parser's operator order must be the promised one (Go and Coq: build_table) and programs mixing the new operator with its anchor and neighbours must group by the promised table; plus single-token deletions/insertions of the minimal rendering, BRACKET-KIND SWAPS (one closing bracket replaced by a closing bracket of another kind, one opening bracket by another opening bracket - at empty argument lists / empty list and map literals first, where the bracket counts still pair up) of the minimal rendering and of valid generated programs, and generated/mutated programs of the full grammar over the value-language table. Non-trivial = a (table, tree) pair whose tree uses >= 3 distinct priority levels and whose minimal and full parenthesisation differ; distinct by table and fully parenthesised text"
	cw := NewCaseWriter(outDir, "From P2 Require Import Base.Prelude Lex.Token Syn.Ast Syn.Parse Syn.Render Run.C03Run.", "c03_case", "c03_id", "c03_im", "c03_is", 300)
	cr := &c03Runner{sum: sum, cw: cw}

	// the value-language parser: real operator table and keywords; optimizer off, constants describe themselves
	vp := value.New().GetParser()
	vp.SetOptimizer(nil)
	vp.SetNumberParser(parser2.NumberParserFunc[value.Value](func(n string) (value.Value, error) {
		s, err := c03NumberParser(n)
		return value.String(s), err
	}))
	vp.SetStringConverter(parser2.StringConverterFunc[value.Value](func(s string) value.Value { return value.String("s:" + s) }))
	cr.vp = vp
	vops, vun, _, _ := vp.VerifParseConfig()
	vt := &c03Table{Ops: vops, Unary: vun, Value: true, Alias: map[string]string{}}

	finish := func() {
		cw.Flush()
		sum.CaseFiles = cw.files
		sort.SliceStable(sum.GoViolations, func(i, j int) bool {
			return len(fmt.Sprint(sum.GoViolations[i].Human["text"])) < len(fmt.Sprint(sum.GoViolations[j].Human["text"]))
		})
		sum.Write(outDir)
	}

	if optReplay != "" {
		var c c03Case
		if err := json.Unmarshal(loadReplayCase(), &c); err != nil {
			fatal("replay case: %v", err)
		}
		if c.Table.Value {
			c.Table = vt
		}
		cr.run(&c)
		finish()
		return
	}

	cr.corpus()

	tables, exprs, muts, progs, fgTables, swaps, progSwaps := 30, 5, 10, 120, 10, 3, 2
	if tier == "thorough" {
		tables, exprs, muts, progs, fgTables, swaps, progSwaps = 500, 12, 40, 2500, 200, 40, 16
	}
	rs := NewRng(seed + 300) // the bracket-swap family draws from a generator of its own: the other streams do not depend on it
	tables *= optBoost
	progs *= optBoost
	insertable := func(t *c03Table) []c03Tok {
		var l []c03Tok
		for _, k := range [][2]any{{c03ttOpen, "("}, {c03ttClose, ")"}, {c03ttOpenBracket, "["}, {c03ttCloseBracket, "]"}, {c03ttComma, ","}, {c03ttDot, "."}, {c03ttIdent, "a"}, {c03ttNumber, "1"}} {
			l = append(l, c03Tok{Typ: k[0].(int), Img: k[1].(string)})
		}
		for _, o := range t.Ops {
			l = append(l, c03Tok{Typ: c03ttOperate, Img: o})
		}
		for _, u := range t.Unary {
			l = append(l, c03Tok{Typ: c03ttOperate, Img: u})
		}
		return l
	}
	for ti := 0; ti < tables; ti++ {
		t := r.c03Table()
		if r.Chance(0.15) {
			t.MapThis = "this"
		}
		for e := 0; e < exprs; e++ {
			depth := 2 + r.Pick(5)
			tree := r.c03Expr(t, depth)
			withMap := t.MapThis != ""
			sum.Count("tree_depth", fmt.Sprint(tree.depth()))
			tree.walk(func(x *c03Rt) { sum.Count("node_kinds", x.K) })
			var minToks, fullToks []c03Tok
			for mode := 0; mode < 3; mode++ {
				c, toks := cr.rendering(r, t, tree, mode, withMap)
				sum.Count("render_mode", c.Note)
				switch mode {
				case c03ModeMin:
					minToks = toks
				case c03ModeFull:
					fullToks = toks
				}
				cr.run(c)
			}
			minP, fullP := r.c03Render(t, tree, c03ModeMin), r.c03Render(t, tree, c03ModeFull)
			var a, b []c03Tok
			t.flatten(minP, &a)
			t.flatten(fullP, &b)
			// parentheses the minimal rendering needs but are not the outermost/full ones
			if c03Levels(tree) >= 3 && len(a) != len(b) {
				var sb strings.Builder
				for _, k := range fullToks {
					sb.WriteString(k.Img + " ")
				}
				sum.Nontriv(strings.Join(t.Ops, " ") + "|" + strings.Join(t.Unary, " ") + "|" + sb.String())
			}
			if withMap {
				continue
			}
			// malformed stream: single-token deletions and insertions of the minimal rendering
			ins := insertable(t)
			type mut struct {
				del bool
				pos int
				tok c03Tok
			}
			var all []mut
			for i := range minToks {
				all = append(all, mut{del: true, pos: i})
			}
			for i := 0; i <= len(minToks); i++ {
				for _, k := range ins {
					all = append(all, mut{pos: i, tok: k})
				}
			}
			r.Shuffle(len(all), func(i, j int) { all[i], all[j] = all[j], all[i] })
			// quick: a sample with an equal share of deletions and insertions; thorough: all of them
			nm := muts
			if tier == "thorough" && len(all) < 400 {
				nm = len(all)
			} else {
				var dels, inss, mix []mut
				for _, m := range all {
					if m.del {
						dels = append(dels, m)
					} else {
						inss = append(inss, m)
					}
				}
				for i := 0; i < len(dels) || i < len(inss); i++ {
					if i < len(dels) {
						mix = append(mix, dels[i])
					}
					if i < len(inss) {
						mix = append(mix, inss[i])
					}
				}
				all = mix
			}
			if nm > len(all) {
				nm = len(all)
			}
			for _, m := range all[:nm] {
				var toks []c03Tok
				note := ""
				if m.del {
					toks = append(append(toks, minToks[:m.pos]...), minToks[m.pos+1:]...)
					note = fmt.Sprintf("deleted token %d (%s)", m.pos, minToks[m.pos].Img)
					sum.Count("mutation", "delete")
				} else {
					toks = append(append(append(toks, minToks[:m.pos]...), m.tok), minToks[m.pos:]...)
					note = fmt.Sprintf("inserted %s at %d", m.tok.Img, m.pos)
					sum.Count("mutation", "insert")
				}
				cr.run(&c03Case{Table: t, Text: r.c03Text(t, toks), Kind: 1, Note: note})
			}
			// disguised operators: a string literal or a quoted identifier whose text spells an operator of the
			// table (or one of its text aliases) is an operand, never an operator - replacing an operator token by
			// it, or inserting it after a complete operand, must not be read as that operator
			dis := c03Disguised(t, minToks)
			r.Shuffle(len(dis), func(i, j int) { dis[i], dis[j] = dis[j], dis[i] })
			sort.SliceStable(dis, func(i, j int) bool { return dis[i].replace && !dis[j].replace })
			nd := muts * 6 / 10
			if tier == "thorough" && len(dis) < 400 {
				nd = len(dis)
			}
			if nd > len(dis) {
				nd = len(dis)
			}
			// quick: replacements and insertions alternate
			var rep, insd []c03Dis
			for _, d := range dis {
				if d.replace {
					rep = append(rep, d)
				} else {
					insd = append(insd, d)
				}
			}
			var mixd []c03Dis
			for i := 0; i < len(rep) || i < len(insd); i++ {
				if i < len(rep) {
					mixd = append(mixd, rep[i])
				}
				if i < len(insd) {
					mixd = append(mixd, insd[i])
				}
			}
			for _, d := range mixd[:nd] {
				sum.Count("mutation", d.kind)
				cr.run(&c03Case{Table: t, Text: r.c03Text(t, d.toks), Kind: 1, Note: d.note})
			}
			// bracket-kind swaps: one closing (opening) bracket replaced by a closing (opening) bracket of another kind
			imgs := make([]string, len(minToks))
			for i, k := range minToks {
				imgs[i] = k.Img
			}
			sw := c03BracketSwaps(imgs, func(i int) bool { return minToks[i].Typ >= c03ttOpen && minToks[i].Typ <= c03ttCloseCurly })
			nsw := swaps
			if tier == "thorough" && len(sw) < 400 {
				nsw = len(sw)
			}
			for _, x := range rs.c03PickSwaps(sw, nsw) {
				nt := append([]c03Tok{}, minToks...)
				nt[x.pos] = x.to
				kind := "bracket-swap"
				if x.empty {
					kind = "bracket-swap at an empty pair"
				}
				sum.Count("mutation", kind)
				cr.run(&c03Case{Table: t, Text: rs.c03Text(t, nt), Kind: 1, Note: fmt.Sprintf("%s: token %d (%s) replaced by %s", kind, x.pos, minToks[x.pos].Img, x.to.Img)})
			}
		}
	}

	// tables built through the generator API (AddOp, AddOpImpl, AddOpPure, AddSimpleOp, AddOpBehind with every kind of anchor)
	for ti := 0; ti < fgTables*optBoost; ti++ {
		t := r.c03FuncGenTable()
		sum.Count("table_construction", "funcGen API")
		for _, d := range t.Decls {
			api := d.API
			if api == "AddOpBehind" && d.Anchor == "" {
				api = "AddOpBehind(\"\")"
			}
			sum.Count("table_declarations", api)
		}
		trees := t.c03AnchorTrees()
		if len(trees) > 6 {
			r.Shuffle(len(trees), func(i, j int) { trees[i], trees[j] = trees[j], trees[i] })
			trees = trees[:6]
		}
		for e := 0; e < 3; e++ {
			trees = append(trees, r.c03Expr(t, 2+r.Pick(4)))
		}
		for _, tree := range trees {
			for mode := 0; mode < 3; mode++ {
				c, _ := cr.rendering(r, t, tree, mode, false)
				c.Note = "table built through the funcGen API; " + c.Note
				cr.run(c)
			}
		}
	}

	// comfort mode (Parser.Comfort(true)): the renderings written with multiplication signs left out at a random subset
	// of the positions where the scanner puts them back, lexemes tight or spaced; the real tokenizer must deliver the
	// EXPLICIT tokens of the tree (Go oracle and c03_is), the tokenizer model the same tokens (c03_im), the AST must be
	// the tree's and equal to the AST of the explicit text
	ctables, cexprs := 14, 4
	if tier == "thorough" {
		ctables, cexprs = 250, 10
	}
	rc := NewRng(seed + 700)
	for ti := 0; ti < ctables*optBoost; ti++ {
		t := rc.c03Table()
		t.Comfort = true
		hasStar := false
		for _, o := range t.Ops {
			hasStar = hasStar || o == "*"
		}
		if !hasStar {
			at := rc.Pick(len(t.Ops) + 1)
			t.Ops = append(append(append([]string{}, t.Ops[:at]...), "*"), t.Ops[at:]...)
		}
		for e := 0; e < cexprs; e++ {
			tree := rc.c03ComfortExpr(t, 2+rc.Pick(5))
			for _, mode := range []int{c03ModeMin, c03ModeRand} {
				rt := rc.c03Render(t, tree, mode)
				var toks []c03Tok
				t.flatten(rt, &toks)
				omitP := []float64{1, 0.6, 0.3}[rc.Pick(3)]
				text, omitted, tight, adm := rc.c03ComfortText(t, toks, omitP)
				explicit, _, _, _ := rc.c03ComfortText(t, toks, 0)
				ascii := true
				for _, ch := range text + explicit {
					ascii = ascii && ch < 128
				}
				if !ascii {
					sum.Skipped["comfort text with non-ASCII runes (the run models the ASCII letter/digit classes)"]++
					continue
				}
				sum.Count("comfort_signs_left_out", bucket(omitted))
				sum.Count("comfort_tight_products", bucket(tight))
				if adm {
					sum.Count("comfort_text", "reads back to the written tokens")
					if omitted > 0 {
						sum.Count("comfort_text", "... with at least one sign left out")
					}
					cr.run(&c03Case{Table: t, Text: text, Kind: 0, Cert: rt, Want: toks, Explicit: explicit,
						Note: fmt.Sprintf("comfort mode, %d multiplication signs left out", omitted)})
				} else {
					sum.Count("comfort_text", "reads as another token stream (call of a parenthesised / called / numeric callee)")
					cr.run(&c03Case{Table: t, Text: text, Kind: 1, Note: "comfort mode, inadmissible text: a call reads as a product"})
				}
			}
		}
	}

	// full grammar over the value-language table
	for i := 0; i < progs; i++ {
		g := &c03ProgGen{r: r, ops: vops, unary: vun}
		withMap := r.Chance(0.15)
		text := g.let(2 + r.Pick(4))
		sum.Count("program_nodes", bucket(g.n))
		if strings.Contains(" "+text+" ", " zz ") || withMap {
			// unknown identifier (error path) or implicit-attribute mode: outcome not predicted
			cr.run(&c03Case{Table: vt, Text: text, Kind: 3, WithMap: withMap, Note: "generated program with an unknown identifier or AddMap"})
		} else {
			cr.run(&c03Case{Table: vt, Text: text, Kind: 2, Note: "generated program"})
			// bracket-kind swaps of the valid program (tokens are separated by blanks; string literals contain no brackets)
			pf := strings.Fields(text)
			for _, x := range rs.c03PickSwaps(c03BracketSwaps(pf, func(int) bool { return true }), progSwaps) {
				ms := append([]string{}, pf...)
				ms[x.pos] = x.to.Img
				kind := "program bracket-swap"
				if x.empty {
					kind = "program bracket-swap at an empty pair"
				}
				sum.Count("mutation", kind)
				cr.run(&c03Case{Table: vt, Text: strings.Join(ms, " "), Kind: 3, Note: fmt.Sprintf("%s: token %d (%s) replaced by %s", kind, x.pos, pf[x.pos], x.to.Img)})
			}
		}
		// token-level mutations
		fs := strings.Fields(text)
		for k := 0; k < 2 && len(fs) > 1; k++ {
			ms := append([]string{}, fs...)
			p := r.Pick(len(ms))
			switch r.Pick(4) {
			case 0:
				ms = append(ms[:p], ms[p+1:]...)
			case 1:
				ms = append(ms[:p], append([]string{fs[r.Pick(len(fs))]}, ms[p:]...)...)
			case 2:
				q := r.Pick(len(ms))
				ms[p], ms[q] = ms[q], ms[p]
			case 3:
				ms = ms[:p]
			}
			cr.run(&c03Case{Table: vt, Text: strings.Join(ms, " "), Kind: 3, WithMap: withMap, Note: "mutated program"})
		}
	}
	finish()
}
