package main

// C20 - binning conserves mass and is additive.
// Generated lists of numeric records are binned by the REAL implementation through
// value.New().Generate(...): list.binning(...), list.binning2d(...), and, for splittings of the list into
// parts, parts.map(p->p.binning(...)).collectBinning().  Observed result maps are written as Coq terms
// (floats exactly, as sign/mantissa/exponent) and compared with the model (c20_im) and the specification
// side (c20_is) by vm_compute; the laws themselves (mass, description, additivity) are also evaluated here
// on the implementation's outputs with exact rational arithmetic (math/big) as an independent oracle.

import (
	"crypto/sha256"
	"encoding/json"
	"fmt"
	"github.com/hneemann/parser2/funcGen"
	"github.com/hneemann/parser2/listMap"
	"github.com/hneemann/parser2/value"
	"math"
	"math/big"
	"sort"
	"strings"
)

func init() { register("c20", cmdC20) }

// ---------- case description (also the replay format) ----------

type c20Num struct {
	Bits  uint64 // IEEE bits of the float64
	Int   bool   // handed to the implementation as value.Int instead of value.Float
	Human string // decimal text, information only
}

func (n c20Num) F() float64 { return math.Float64frombits(n.Bits) }

func c20F(f float64) c20Num { return c20Num{Bits: math.Float64bits(f), Human: fmt.Sprint(f)} }
func c20I(i int) c20Num    { return c20Num{Bits: math.Float64bits(float64(i)), Int: true, Human: fmt.Sprint(i)} }

func (n c20Num) Value() value.Value {
	if n.Int {
		return value.Int(int(n.F()))
	}
	return value.Float(n.F())
}

type c20Axis struct {
	Start, Size c20Num
	Count       int
}

type c20Elem struct{ X, Y, V c20Num }

type c20Part struct {
	Axis  c20Axis
	Elems []c20Elem
}

type c20Case struct {
	Kind   string // "1d" | "2d" | "mixed" | "hist1" | "hist2" (history on the same partial results) | "descr" (map observers of the bin descriptions)
	X, Y   c20Axis
	Elems  []c20Elem
	Splits [][]int   // lengths of consecutive parts (sum = len(Elems)), each splitting has 1..4 parts
	Repr   string    // how the list is built: eager | lazy-map | lazy-accept
	Parts  []c20Part // mixed; hist1/hist2: the parts, each binned once on the grid X (and Y)
	Steps  [][]int   // hist1/hist2: every step is one collectBinning over these partial results (indices into Parts, repetition allowed)
	Source string    // descr: which description list is observed: "descr" (binning), "xd" | "yDescr" (binning2d, grid X on that axis)
	Note   string
}

// ---------- exact arithmetic helpers ----------

func rat(f float64) *big.Rat { return new(big.Rat).SetFloat64(f) }

// nearest float64 and whether it is the exact value (Rat.Float64's own flag is wrong for quotients that
// underflow to zero, so the result is converted back and compared)
func nearest(r *big.Rat) (float64, bool) {
	f, _ := r.Float64()
	if math.IsInf(f, 0) {
		return f, false
	}
	return f, rat(f).Cmp(r) == 0
}

func isF64(r *big.Rat) bool {
	_, exact := nearest(r)
	return exact
}

func rAdd(a, b *big.Rat) *big.Rat { return new(big.Rat).Add(a, b) }
func rSub(a, b *big.Rat) *big.Rat { return new(big.Rat).Sub(a, b) }
func rMul(a, b *big.Rat) *big.Rat { return new(big.Rat).Mul(a, b) }
func rInt(i int) *big.Rat         { return new(big.Rat).SetInt64(int64(i)) }

// Coq term of type Q for a finite float64: exactly sign * mantissa * 2^exponent
func coqQ(f float64) string {
	if math.IsInf(f, 0) || math.IsNaN(f) {
		panic("non-finite float in a C20 case")
	}
	bits := math.Float64bits(f)
	neg := bits>>63 == 1
	exp := int((bits >> 52) & 0x7ff)
	m := bits & (1<<52 - 1)
	e := -1074
	if exp != 0 {
		m |= 1 << 52
		e = exp - 1075
	}
	if m == 0 {
		return "(zi 0)"
	}
	for m&1 == 0 {
		m >>= 1
		e++
	}
	if !neg && e >= 0 && e < 10 && m < 1<<50 {
		return fmt.Sprintf("(zi %d)", m<<uint(e))
	}
	if e < 0 {
		return fmt.Sprintf("(fl %s %d true %d)", CoqBool(neg), m, -e)
	}
	return fmt.Sprintf("(fl %s %d false %d)", CoqBool(neg), m, e)
}

// ---------- the domain of the property: every float operation of the code is exact ----------

// axisExact: the descriptions start+i*size and (start+i*size)-size are computed without rounding
func axisExact(a c20Axis) string {
	s, z := rat(a.Start.F()), rat(a.Size.F())
	for i := 0; i <= a.Count+1; i++ {
		t1 := rMul(rInt(i), z)
		if !isF64(t1) {
			return "inexact:i*size"
		}
		t2 := rAdd(s, t1)
		if !isF64(t2) {
			return "inexact:start+i*size"
		}
		if i >= 1 && !isF64(rSub(t2, z)) {
			return "inexact:to-size"
		}
	}
	return ""
}

// indexExact: v-start is exact and the quotient is exact, or is rounded to a non-integer (rounding is
// monotone and integers below 2^53 are floats, so floor of the rounded quotient is then the floor of the
// exact one)
func indexExact(a c20Axis, x float64) string {
	d := rSub(rat(x), rat(a.Start.F()))
	if !isF64(d) {
		return "inexact:v-start"
	}
	if a.Size.F() == 0 {
		return ""
	}
	q := new(big.Rat).Quo(d, rat(a.Size.F()))
	fq, exact := nearest(q)
	if math.IsInf(fq, 0) {
		return "inexact:quotient-overflow"
	}
	if !exact && fq == math.Floor(fq) {
		return "inexact:quotient-rounds-to-integer"
	}
	return ""
}

// sumsExact: all values are multiples of one power of two g and sum |v| < 2^53*g, so every partial sum in
// every order and grouping is exactly representable
func sumsExact(vs []float64) string {
	minExp := 0
	first := true
	total := new(big.Rat)
	for _, v := range vs {
		if v == 0 {
			continue
		}
		fr, ex := math.Frexp(math.Abs(v)) // v = fr * 2^ex, fr in [0.5,1)
		m := uint64(fr * (1 << 53))
		tz := 0
		for m&1 == 0 {
			m >>= 1
			tz++
		}
		low := ex - 53 + tz // exponent of the lowest set bit
		if first || low < minExp {
			minExp = low
			first = false
		}
		total.Add(total, rat(math.Abs(v)))
	}
	if first {
		return ""
	}
	if minExp < -1070 {
		return "inexact:sum-subnormal"
	}
	limit := new(big.Rat).SetFloat64(math.Ldexp(1, minExp+53))
	if total.Cmp(limit) >= 0 {
		return "inexact:sum"
	}
	return ""
}

func finite(fs ...float64) bool {
	for _, f := range fs {
		if math.IsInf(f, 0) || math.IsNaN(f) {
			return false
		}
	}
	return true
}

func (c *c20Case) skipReason() string {
	check := func(a c20Axis, xs []float64) string {
		if !finite(a.Start.F(), a.Size.F()) {
			return "non-finite"
		}
		if a.Count < 0 || a.Count > 64 {
			return "count-out-of-grid"
		}
		if r := axisExact(a); r != "" {
			return r
		}
		for _, x := range xs {
			if !finite(x) {
				return "non-finite"
			}
			if r := indexExact(a, x); r != "" {
				return r
			}
		}
		return ""
	}
	col := func(es []c20Elem, f func(c20Elem) float64) []float64 {
		r := make([]float64, len(es))
		for i, e := range es {
			r[i] = f(e)
		}
		return r
	}
	gx := func(e c20Elem) float64 { return e.X.F() }
	gy := func(e c20Elem) float64 { return e.Y.F() }
	gv := func(e c20Elem) float64 { return e.V.F() }
	switch c.Kind {
	case "1d":
		if r := check(c.X, col(c.Elems, gx)); r != "" {
			return r
		}
	case "2d":
		if r := check(c.X, col(c.Elems, gx)); r != "" {
			return r
		}
		if r := check(c.Y, col(c.Elems, gy)); r != "" {
			return r
		}
	case "hist1", "hist2":
		var all []float64
		for _, p := range c.Parts {
			if r := check(c.X, col(p.Elems, gx)); r != "" {
				return r
			}
			if c.Kind == "hist2" {
				if r := check(c.Y, col(p.Elems, gy)); r != "" {
					return r
				}
			}
			for k := 0; k < 4; k++ { // a part may enter one collect up to four times
				all = append(all, col(p.Elems, gv)...)
			}
		}
		if !finite(all...) {
			return "non-finite"
		}
		return sumsExact(all)
	case "descr":
		return check(c.X, nil)
	case "mixed":
		var all []float64
		for _, p := range c.Parts {
			if r := check(p.Axis, col(p.Elems, gx)); r != "" {
				return r
			}
			all = append(all, col(p.Elems, gv)...)
		}
		if !finite(all...) {
			return "non-finite"
		}
		return sumsExact(all)
	}
	vs := col(c.Elems, gv)
	if !finite(vs...) {
		return "non-finite"
	}
	return sumsExact(vs)
}

// ---------- running the implementation ----------

var emptySt = funcGen.NewEmptyStack[value.Value]()

func (e c20Elem) Value() value.Value {
	return value.NewMap(listMap.New[value.Value](3).Append("x", e.X.Value()).Append("y", e.Y.Value()).Append("v", e.V.Value()))
}

func c20List(es []c20Elem, repr string) value.Value {
	items := make([]value.Value, len(es))
	for i, e := range es {
		items[i] = e.Value()
	}
	base := value.NewList(items...)
	switch repr {
	case "lazy-map":
		return mustEval("l.map(e->e)", []string{"l"}, base)
	case "lazy-accept":
		return mustEval("l.accept(e->true)", []string{"l"}, base)
	}
	return base
}

func c20Parts(es []c20Elem, lens []int, repr string) value.Value {
	var parts []value.Value
	at := 0
	for _, n := range lens {
		parts = append(parts, c20List(es[at:at+n], repr))
		at += n
	}
	return value.NewList(parts...)
}

type obsBin struct {
	HasMin, HasMax, HasStr bool
	Min, Max               float64
}

type obs1 struct {
	Descr  []obsBin
	Values []float64
}

type obs2 struct {
	YDescr []obsBin
	XD     []obsBin
	Rows   [][]float64
}

func getFloat(v value.Value) (float64, error) {
	if f, ok := v.(value.Float); ok {
		return float64(f), nil
	}
	return 0, fmt.Errorf("result entry is not a Float: %s", value.TypeName(v))
}

func readBin(v value.Value) (obsBin, error) {
	m, ok := v.ToMap()
	if !ok {
		return obsBin{}, fmt.Errorf("bin description is not a map")
	}
	var b obsBin
	if x, ok := m.Get("min"); ok {
		f, err := getFloat(x)
		if err != nil {
			return b, err
		}
		b.HasMin, b.Min = true, f
	}
	if x, ok := m.Get("max"); ok {
		f, err := getFloat(x)
		if err != nil {
			return b, err
		}
		b.HasMax, b.Max = true, f
	}
	_, b.HasStr = m.Get("str")
	return b, nil
}

func readBins(v value.Value) ([]obsBin, error) {
	l, ok := v.ToList()
	if !ok {
		return nil, fmt.Errorf("descr is not a list")
	}
	sl, err := l.ToSlice(emptySt)
	if err != nil {
		return nil, err
	}
	bs := make([]obsBin, len(sl))
	for i, e := range sl {
		if bs[i], err = readBin(e); err != nil {
			return nil, err
		}
	}
	return bs, nil
}

func readFloats(v value.Value) ([]float64, error) {
	l, ok := v.ToList()
	if !ok {
		return nil, fmt.Errorf("values is not a list")
	}
	sl, err := l.ToSlice(emptySt)
	if err != nil {
		return nil, err
	}
	fs := make([]float64, len(sl))
	for i, e := range sl {
		if fs[i], err = getFloat(e); err != nil {
			return nil, err
		}
	}
	return fs, nil
}

func readObs1(v value.Value) (*obs1, error) {
	m, ok := v.ToMap()
	if !ok {
		return nil, fmt.Errorf("binning result is not a map")
	}
	d, ok1 := m.Get("descr")
	vals, ok2 := m.Get("values")
	if !ok1 || !ok2 {
		return nil, fmt.Errorf("binning result lacks descr/values")
	}
	var o obs1
	var err error
	if o.Descr, err = readBins(d); err != nil {
		return nil, err
	}
	if o.Values, err = readFloats(vals); err != nil {
		return nil, err
	}
	return &o, nil
}

func readObs2(v value.Value) (*obs2, error) {
	m, ok := v.ToMap()
	if !ok {
		return nil, fmt.Errorf("binning2d result is not a map")
	}
	d, ok1 := m.Get("yDescr")
	vals, ok2 := m.Get("values")
	if !ok1 || !ok2 {
		return nil, fmt.Errorf("binning2d result lacks yDescr/values")
	}
	var o obs2
	var err error
	if o.YDescr, err = readBins(d); err != nil {
		return nil, err
	}
	l, ok := vals.ToList()
	if !ok {
		return nil, fmt.Errorf("values is not a list")
	}
	sl, err := l.ToSlice(emptySt)
	if err != nil {
		return nil, err
	}
	for _, e := range sl {
		em, ok := e.ToMap()
		if !ok {
			return nil, fmt.Errorf("values entry is not a map")
		}
		xd, ok1 := em.Get("xd")
		row, ok2 := em.Get("row")
		if !ok1 || !ok2 {
			return nil, fmt.Errorf("values entry lacks xd/row")
		}
		b, err := readBin(xd)
		if err != nil {
			return nil, err
		}
		fs, err := readFloats(row)
		if err != nil {
			return nil, err
		}
		o.XD = append(o.XD, b)
		o.Rows = append(o.Rows, fs)
	}
	return &o, nil
}

const c20Expr1 = "l.binning(s,z,c,e->e.x,e->e.v)"
const c20Coll1 = "ps.map(p->p.binning(s,z,c,e->e.x,e->e.v)).collectBinning()"
const c20Expr2 = "l.binning2d(s,z,c,t,w,d,e->e.x,e->e.y,e->e.v)"
const c20Coll2 = "ps.map(p->p.binning2d(s,z,c,t,w,d,e->e.x,e->e.y,e->e.v)).collectBinning()"

func axisArgs(a c20Axis) []value.Value {
	return []value.Value{a.Start.Value(), a.Size.Value(), value.Int(a.Count)}
}

// ---------- Coq printing ----------

func coqBin(b obsBin) string {
	mn, mx := "None", "None"
	if b.HasMin {
		mn = "Some " + coqQ(b.Min)
	}
	if b.HasMax {
		mx = "Some " + coqQ(b.Max)
	}
	return "(" + mn + "," + mx + ")"
}

func coqBins(bs []obsBin) string {
	items := make([]string, len(bs))
	for i, b := range bs {
		items[i] = coqBin(b)
	}
	return CoqList(items)
}

func coqQs(fs []float64) string {
	items := make([]string, len(fs))
	for i, f := range fs {
		items[i] = coqQ(f)
	}
	return CoqList(items)
}

func coqInts(ns []int) string {
	items := make([]string, len(ns))
	for i, n := range ns {
		items[i] = fmt.Sprint(n)
	}
	return CoqList(items)
}

func sameBins(a, b []obsBin) bool {
	if len(a) != len(b) {
		return false
	}
	for i := range a {
		if a[i].HasMin != b[i].HasMin || a[i].HasMax != b[i].HasMax {
			return false
		}
		if a[i].HasMin && a[i].Min != b[i].Min {
			return false
		}
		if a[i].HasMax && a[i].Max != b[i].Max {
			return false
		}
	}
	return true
}

func sameFloats(a, b []float64) bool {
	if len(a) != len(b) {
		return false
	}
	for i := range a {
		if a[i] != b[i] {
			return false
		}
	}
	return true
}

// ---------- the property evaluated on the implementation's outputs (exact rationals) ----------

func posClass(a c20Axis, x float64) string {
	s, z, r := rat(a.Start.F()), rat(a.Size.F()), rat(x)
	if r.Cmp(s) < 0 {
		return "underflow"
	}
	if r.Cmp(rAdd(s, rMul(rInt(a.Count), z))) >= 0 {
		if r.Cmp(rAdd(s, rMul(rInt(a.Count), z))) == 0 {
			return "edge"
		}
		return "overflow"
	}
	for k := 0; k <= a.Count; k++ {
		if r.Cmp(rAdd(s, rMul(rInt(k), z))) == 0 {
			return "edge"
		}
	}
	return "interior"
}

// binsContaining: indices of the described bins whose bounds contain x
func binsContaining(ds []obsBin, x float64) []int {
	var r []int
	for i, d := range ds {
		if d.HasMin && !(rat(d.Min).Cmp(rat(x)) <= 0) {
			continue
		}
		if d.HasMax && !(rat(x).Cmp(rat(d.Max)) < 0) {
			continue
		}
		r = append(r, i)
	}
	return r
}

// descrLaw: the descriptions are the grid the property names (no min on the first, no max on the last,
// bin i = [start+(i-1)*size, start+i*size)), every one has a str
func descrLaw(a c20Axis, ds []obsBin) string {
	if len(ds) != a.Count+2 {
		return fmt.Sprintf("%d descriptions for count %d", len(ds), a.Count)
	}
	s, z := rat(a.Start.F()), rat(a.Size.F())
	for i, d := range ds {
		if !d.HasStr {
			return fmt.Sprintf("description %d has no str", i)
		}
		if d.HasMin != (i > 0) || d.HasMax != (i < len(ds)-1) {
			return fmt.Sprintf("description %d has the wrong bounds present", i)
		}
		if d.HasMin && rat(d.Min).Cmp(rAdd(s, rMul(rInt(i-1), z))) != 0 {
			return fmt.Sprintf("description %d: min is not start+(i-1)*size", i)
		}
		if d.HasMax && rat(d.Max).Cmp(rAdd(s, rMul(rInt(i), z))) != 0 {
			return fmt.Sprintf("description %d: max is not start+i*size", i)
		}
	}
	return ""
}

// implBin1: the bin in which the implementation counts a single element at position x (-1: none found)
func implBin1(a c20Axis, x c20Num) int {
	l := value.NewList(c20Elem{X: x, Y: c20I(0), V: c20I(1)}.Value())
	v, err := evalExpr(c20Expr1, []string{"l", "s", "z", "c"}, append([]value.Value{l}, axisArgs(a)...)...)
	if err != nil {
		return -1
	}
	o, err := readObs1(v)
	if err != nil {
		return -1
	}
	for i, f := range o.Values {
		if f == 1 {
			return i
		}
	}
	return -1
}

type lawFail struct{ law, class, what, expected, observed string }

func ratStr(r *big.Rat) string { return r.RatString() }

func sumRat(fs []float64) *big.Rat {
	t := new(big.Rat)
	for _, f := range fs {
		t.Add(t, rat(f))
	}
	return t
}

func oracle1(c *c20Case, o *obs1) *lawFail {
	a := c.X
	var vs []float64
	for _, e := range c.Elems {
		vs = append(vs, e.V.F())
	}
	if a.Size.F() > 0 {
		if w := descrLaw(a, o.Descr); w != "" {
			return &lawFail{"description", "grid", w, "", ""}
		}
		if len(o.Values) != len(o.Descr) {
			return &lawFail{"description", "grid", "values and descr differ in length", "", ""}
		}
		exp := make([]*big.Rat, len(o.Descr))
		for i := range exp {
			exp[i] = new(big.Rat)
		}
		for _, e := range c.Elems {
			in := binsContaining(o.Descr, e.X.F())
			if len(in) != 1 {
				return &lawFail{"description", posClass(a, e.X.F()), fmt.Sprintf("element x=%v lies in %d described bins", e.X.F(), len(in)), "1", fmt.Sprint(len(in))}
			}
			exp[in[0]].Add(exp[in[0]], rat(e.V.F()))
		}
		for i := range exp {
			if exp[i].Cmp(rat(o.Values[i])) != 0 {
				// blame the first element the implementation counts in another bin than the one whose
				// description admits it (asked from the implementation itself, one element at a time)
				cls := "any"
				for _, e := range c.Elems {
					in := binsContaining(o.Descr, e.X.F())
					if got := implBin1(a, e.X); got >= 0 && got != in[0] {
						cls = posClass(a, e.X.F())
						break
					}
				}
				return &lawFail{"description", cls, fmt.Sprintf("bin %d does not hold the sum of the elements its description admits", i), ratStr(exp[i]), fmt.Sprint(o.Values[i])}
			}
		}
	}
	if sumRat(o.Values).Cmp(sumRat(vs)) != 0 {
		return &lawFail{"mass", "any", "sum of the bins differs from the sum of the element values", ratStr(sumRat(vs)), ratStr(sumRat(o.Values))}
	}
	return nil
}

func oracle2(c *c20Case, o *obs2) *lawFail {
	var vs []float64
	for _, e := range c.Elems {
		vs = append(vs, e.V.F())
	}
	total := new(big.Rat)
	for _, r := range o.Rows {
		total.Add(total, sumRat(r))
	}
	if c.X.Size.F() > 0 && c.Y.Size.F() > 0 {
		if w := descrLaw(c.X, o.XD); w != "" {
			return &lawFail{"description", "grid", "x: " + w, "", ""}
		}
		if w := descrLaw(c.Y, o.YDescr); w != "" {
			return &lawFail{"description", "grid", "y: " + w, "", ""}
		}
		exp := make([][]*big.Rat, len(o.XD))
		for i := range exp {
			if len(o.Rows[i]) != len(o.YDescr) {
				return &lawFail{"description", "grid", "row length differs from yDescr", "", ""}
			}
			exp[i] = make([]*big.Rat, len(o.YDescr))
			for j := range exp[i] {
				exp[i][j] = new(big.Rat)
			}
		}
		type at struct{ i, j int }
		where := make([]at, len(c.Elems))
		for k, e := range c.Elems {
			ix := binsContaining(o.XD, e.X.F())
			iy := binsContaining(o.YDescr, e.Y.F())
			if len(ix) != 1 || len(iy) != 1 {
				return &lawFail{"description", posClass(c.X, e.X.F()) + "," + posClass(c.Y, e.Y.F()), "element lies in several or no described bins", "1", fmt.Sprint(len(ix), len(iy))}
			}
			where[k] = at{ix[0], iy[0]}
			exp[ix[0]][iy[0]].Add(exp[ix[0]][iy[0]], rat(e.V.F()))
		}
		for i := range exp {
			for j := range exp[i] {
				if exp[i][j].Cmp(rat(o.Rows[i][j])) != 0 {
					cls := "any"
					for k, e := range c.Elems {
						if gx := implBin1(c.X, e.X); gx >= 0 && gx != where[k].i {
							cls = "x:" + posClass(c.X, e.X.F())
							break
						}
						if gy := implBin1(c.Y, e.Y); gy >= 0 && gy != where[k].j {
							cls = "y:" + posClass(c.Y, e.Y.F())
							break
						}
					}
					return &lawFail{"description", cls, fmt.Sprintf("cell (%d,%d) does not hold the sum of the elements its descriptions admit", i, j), ratStr(exp[i][j]), fmt.Sprint(o.Rows[i][j])}
				}
			}
		}
	}
	if total.Cmp(sumRat(vs)) != 0 {
		return &lawFail{"mass", "any", "sum of the cells differs from the sum of the element values", ratStr(sumRat(vs)), ratStr(total)}
	}
	return nil
}

// ---------- one case ----------

func (c *c20Case) human() string {
	ax := func(a c20Axis) string { return fmt.Sprintf("start=%s size=%s count=%d", a.Start.Human, a.Size.Human, a.Count) }
	var es []string
	for _, e := range c.Elems {
		if c.Kind == "2d" {
			es = append(es, fmt.Sprintf("{x:%s,y:%s,v:%s}", e.X.Human, e.Y.Human, e.V.Human))
		} else {
			es = append(es, fmt.Sprintf("{x:%s,v:%s}", e.X.Human, e.V.Human))
		}
	}
	switch c.Kind {
	case "1d":
		return fmt.Sprintf("[%s].binning(%s, e->e.x, e->e.v); splittings %v", strings.Join(es, ","), ax(c.X), c.Splits)
	case "2d":
		return fmt.Sprintf("[%s].binning2d(x: %s; y: %s; e->e.x, e->e.y, e->e.v); splittings %v", strings.Join(es, ","), ax(c.X), ax(c.Y), c.Splits)
	}
	switch c.Kind {
	case "descr":
		return fmt.Sprintf("all map observers on every bin description in %s of a binning on %s", c.Source, ax(c.X))
	case "hist1", "hist2":
		var ps []string
		for i, p := range c.Parts {
			var pe []string
			for _, e := range p.Elems {
				if c.Kind == "hist2" {
					pe = append(pe, fmt.Sprintf("{x:%s,y:%s,v:%s}", e.X.Human, e.Y.Human, e.V.Human))
				} else {
					pe = append(pe, fmt.Sprintf("{x:%s,v:%s}", e.X.Human, e.V.Human))
				}
			}
			ps = append(ps, fmt.Sprintf("p%d=[%s]", i, strings.Join(pe, ",")))
		}
		grid := "binning(" + ax(c.X) + ")"
		if c.Kind == "hist2" {
			grid = "binning2d(x: " + ax(c.X) + "; y: " + ax(c.Y) + ")"
		}
		return fmt.Sprintf("%s; every part binned once with %s; then collectBinning over the partial results %v, one call after the other", strings.Join(ps, " "), grid, c.Steps)
	}
	var ps []string
	for _, p := range c.Parts {
		var pe []string
		for _, e := range p.Elems {
			pe = append(pe, fmt.Sprintf("{x:%s,v:%s}", e.X.Human, e.V.Human))
		}
		ps = append(ps, fmt.Sprintf("[%s].binning(%s,..)", strings.Join(pe, ","), ax(p.Axis)))
	}
	return "[" + strings.Join(ps, ", ") + "].collectBinning()"
}

func c20Key(c *c20Case) string {
	bs, _ := json.Marshal(c)
	return fmt.Sprintf("%x", sha256.Sum256(bs))[:24]
}

func countBucket(n int) string {
	switch {
	case n == 0:
		return "0"
	case n <= 2:
		return "1-2"
	case n <= 8:
		return "3-8"
	case n <= 32:
		return "9-32"
	case n < 64:
		return "33-63"
	}
	return "64"
}

func sizeKind(z float64) string {
	if z <= 0 {
		return "non-positive"
	}
	fr, _ := math.Frexp(z)
	if fr == 0.5 {
		if z >= 1 {
			return "power-of-two>=1"
		}
		return "power-of-two<1"
	}
	if z == math.Floor(z) {
		return "small-integer"
	}
	return "dyadic-fraction"
}

func coqElems1(es []c20Elem) string {
	items := make([]string, len(es))
	for i, e := range es {
		items[i] = "(" + coqQ(e.X.F()) + "," + coqQ(e.V.F()) + ")"
	}
	return CoqList(items)
}

func coqElems2(es []c20Elem) string {
	items := make([]string, len(es))
	for i, e := range es {
		items[i] = "(" + coqQ(e.X.F()) + "," + coqQ(e.Y.F()) + "," + coqQ(e.V.F()) + ")"
	}
	return CoqList(items)
}

func c20Run(c *c20Case, id int, sum *Summary, cw *CaseWriter) {
	if r := c.skipReason(); r != "" {
		sum.Skipped[r]++
		return
	}
	human := map[string]any{"input": c.human(), "repro": c, "signature": "none", "note": c.Note}
	violate := func(f *lawFail, dim string) {
		sig := dim + "/" + f.class + "/" + f.law
		human["signature"] = sig
		sum.GoViolations = append(sum.GoViolations, GoViolation{CaseID: id, What: f.what, Sig: sig, Human: human, Expected: f.expected, Observed: f.observed})
	}
	ids := fmt.Sprint(id)
	switch c.Kind {
	case "hist1", "hist2":
		c20RunHistory(c, id, sum, cw, human, violate)
	case "descr":
		c20RunDescr(c, id, sum, cw, human, violate)
	case "1d":
		args := append([]value.Value{c20List(c.Elems, c.Repr)}, axisArgs(c.X)...)
		v, err := evalExpr(c20Expr1, []string{"l", "s", "z", "c"}, args...)
		if err != nil {
			fatal("case %d: binning returned an error: %v", id, err)
		}
		o, err := readObs1(v)
		if err != nil {
			fatal("case %d: %v", id, err)
		}
		human["values"] = fmt.Sprint(o.Values)
		var fail *lawFail = oracle1(c, o)
		var splits []string
		for _, sp := range c.Splits {
			pargs := append([]value.Value{c20Parts(c.Elems, sp, c.Repr)}, axisArgs(c.X)...)
			cv, err := evalExpr(c20Coll1, []string{"ps", "s", "z", "c"}, pargs...)
			if err != nil {
				splits = append(splits, fmt.Sprintf("(%s, None)", coqInts(sp)))
				if fail == nil {
					fail = &lawFail{"additivity", "any", fmt.Sprintf("collectBinning over parts %v returned an error: %v", sp, err), fmt.Sprint(o.Values), "error"}
				}
				continue
			}
			co, err := readObs1(cv)
			if err != nil {
				fatal("case %d: collect: %v", id, err)
			}
			same := sameBins(co.Descr, o.Descr)
			cvals := "None" // identical to the values of the unsplit binning: not repeated in the case file
			if !sameFloats(co.Values, o.Values) {
				cvals = "Some " + coqQs(co.Values)
			}
			splits = append(splits, fmt.Sprintf("(%s, Some (%s, %s))", coqInts(sp), CoqBool(same), cvals))
			if fail == nil && (!same || !sameFloats(co.Values, o.Values)) {
				fail = &lawFail{"additivity", "any", fmt.Sprintf("collectBinning over parts %v differs from the binning of the whole list", sp), fmt.Sprint(o.Values), fmt.Sprint(co.Values)}
			}
			sum.Count("parts_per_splitting", fmt.Sprint(len(sp)))
		}
		if fail != nil {
			violate(fail, "1d")
		}
		cw.Add(fmt.Sprintf("C1 %d %s %s %d %s (%s, %s) %s", id, coqQ(c.X.Start.F()), coqQ(c.X.Size.F()), c.X.Count,
			coqElems1(c.Elems), coqBins(o.Descr), coqQs(o.Values), CoqList(splits)))
	case "2d":
		args := append([]value.Value{c20List(c.Elems, c.Repr)}, append(axisArgs(c.X), axisArgs(c.Y)...)...)
		names := []string{"l", "s", "z", "c", "t", "w", "d"}
		v, err := evalExpr(c20Expr2, names, args...)
		if err != nil {
			fatal("case %d: binning2d returned an error: %v", id, err)
		}
		o, err := readObs2(v)
		if err != nil {
			fatal("case %d: %v", id, err)
		}
		human["values"] = fmt.Sprint(o.Rows)
		fail := oracle2(c, o)
		var splits []string
		for _, sp := range c.Splits {
			pargs := append([]value.Value{c20Parts(c.Elems, sp, c.Repr)}, append(axisArgs(c.X), axisArgs(c.Y)...)...)
			pn := append([]string{"ps"}, names[1:]...)
			cv, err := evalExpr(c20Coll2, pn, pargs...)
			if err != nil {
				splits = append(splits, fmt.Sprintf("(%s, None)", coqInts(sp)))
				if fail == nil {
					fail = &lawFail{"additivity", "any", fmt.Sprintf("collectBinning over parts %v returned an error: %v", sp, err), fmt.Sprint(o.Rows), "error"}
				}
				continue
			}
			co, err := readObs2(cv)
			if err != nil {
				fatal("case %d: collect: %v", id, err)
			}
			samey := sameBins(co.YDescr, o.YDescr)
			samex := sameBins(co.XD, o.XD)
			rowsEq := len(co.Rows) == len(o.Rows)
			rows := make([]string, len(co.Rows))
			for i, r := range co.Rows {
				rows[i] = coqQs(r)
				if rowsEq && !sameFloats(r, o.Rows[i]) {
					rowsEq = false
				}
			}
			crows := "None"
			if !rowsEq {
				crows = "Some " + CoqList(rows)
			}
			splits = append(splits, fmt.Sprintf("(%s, Some (%s, %s, %s))", coqInts(sp), CoqBool(samey), CoqBool(samex), crows))
			if fail == nil && (!samey || !samex || !rowsEq) {
				fail = &lawFail{"additivity", "any", fmt.Sprintf("collectBinning over parts %v differs from the binning2d of the whole list", sp), fmt.Sprint(o.Rows), fmt.Sprint(co.Rows)}
			}
			sum.Count("parts_per_splitting", fmt.Sprint(len(sp)))
		}
		if fail != nil {
			violate(fail, "2d")
		}
		vals := make([]string, len(o.XD))
		for i := range o.XD {
			vals[i] = "(" + coqBin(o.XD[i]) + "," + coqQs(o.Rows[i]) + ")"
		}
		cw.Add(fmt.Sprintf("C2 %d %s %s %d %s %s %d %s (%s, %s) %s", id, coqQ(c.X.Start.F()), coqQ(c.X.Size.F()), c.X.Count,
			coqQ(c.Y.Start.F()), coqQ(c.Y.Size.F()), c.Y.Count, coqElems2(c.Elems), coqBins(o.YDescr), CoqList(vals), CoqList(splits)))
	case "mixed":
		var parts []value.Value
		var cparts []string
		for _, p := range c.Parts {
			args := append([]value.Value{c20List(p.Elems, c.Repr)}, axisArgs(p.Axis)...)
			v, err := evalExpr(c20Expr1, []string{"l", "s", "z", "c"}, args...)
			if err != nil {
				fatal("case %d: binning returned an error: %v", id, err)
			}
			parts = append(parts, v)
			cparts = append(cparts, fmt.Sprintf("(%s,%s,%d,%s)", coqQ(p.Axis.Start.F()), coqQ(p.Axis.Size.F()), p.Axis.Count, coqElems1(p.Elems)))
		}
		cv, err := evalExpr("ps.collectBinning()", []string{"ps"}, value.NewList(parts...))
		obs := "None"
		if err == nil {
			co, err := readObs1(cv)
			if err != nil {
				fatal("case %d: collect: %v", id, err)
			}
			obs = fmt.Sprintf("Some (%s, %s)", coqBins(co.Descr), coqQs(co.Values))
			sum.Count("mixed_outcome", "ok")
		} else {
			sum.Count("mixed_outcome", "error")
		}
		cw.Add(fmt.Sprintf("CM %d %s (%s)", id, CoqList(cparts), obs))
	}
	sum.Evaluations++
	sum.Cases[ids] = human
	sum.Sample(map[string]any{"input": human["input"], "values": human["values"]})

	// measured input distribution
	sum.Count("kind", c.Kind)
	sum.Count("list_repr", c.Repr)
	axes := []c20Axis{}
	switch c.Kind {
	case "1d":
		axes = append(axes, c.X)
	case "2d":
		axes = append(axes, c.X, c.Y)
	}
	for _, a := range axes {
		sum.Count("count", countBucket(a.Count))
		sum.Count("size_kind", sizeKind(a.Size.F()))
	}
	if c.Kind == "1d" || c.Kind == "2d" {
		sum.Count("elements", bucket(len(c.Elems)))
		sum.Count("splittings_per_case", bucket(len(c.Splits)))
		edge, under, over := false, false, false
		for _, e := range c.Elems {
			cx := posClass(c.X, e.X.F())
			sum.Count("position_class", cx)
			if math.Abs(e.X.F()) >= math.Ldexp(math.Abs(c.X.Size.F()), 62) && c.X.Size.F() != 0 {
				sum.Count("position_class", "far(|x|>=2^62*size)")
			}
			edge = edge || cx == "edge"
			under = under || cx == "underflow"
			over = over || cx == "overflow"
			if c.Kind == "2d" {
				sum.Count("position_class_y", posClass(c.Y, e.Y.F()))
			}
			switch v := e.V.F(); {
			case v == 0:
				sum.Count("value_class", "zero")
			case v < 0:
				sum.Count("value_class", "negative")
			case v == 1:
				sum.Count("value_class", "one")
			default:
				sum.Count("value_class", "other-positive")
			}
		}
		if edge && under && over {
			sum.Nontriv(c20Key(c))
		}
	}
}

// ---------- generators ----------

var c20Sizes2 = []int{-10, -4, -3, -2, -1, 0, 1, 2, 3, 4, 10}
var c20SizesInt = []float64{3, 5, 6, 7, 10, 12, 100}
var c20SizesFrac = []float64{1.5, 0.75, 2.5, 0.375, 1.25}

func (r *Rng) c20Count(max int) int {
	switch p := r.Float64(); {
	case p < 0.10:
		return 0
	case p < 0.25:
		return 1 + r.Pick(2)
	case p < 0.65:
		return 3 + r.Pick(6)
	case p < 0.90:
		if max < 63 {
			return r.Pick(max + 1)
		}
		return 9 + r.Pick(55)
	}
	return max
}

func (r *Rng) c20Axis(maxCount int) c20Axis {
	var z float64
	switch p := r.Float64(); {
	case p < 0.5:
		z = math.Ldexp(1, c20Sizes2[r.Pick(len(c20Sizes2))])
	case p < 0.8:
		z = c20SizesInt[r.Pick(len(c20SizesInt))]
	default:
		z = c20SizesFrac[r.Pick(len(c20SizesFrac))]
	}
	var s float64
	switch p := r.Float64(); {
	case p < 0.35:
		s = 0
	case p < 0.6:
		s = float64(r.Pick(201) - 100)
	case p < 0.8:
		s = z * float64(r.Pick(41)-20)
	default:
		s = float64(r.Pick(65)-32) / 8
	}
	if r.Chance(0.15) { // grids on which values far outside are still in the exact domain
		s = 0
		z = math.Ldexp(1, c20Sizes2[r.Pick(len(c20Sizes2))])
	}
	a := c20Axis{Start: c20F(s), Size: c20F(z), Count: r.c20Count(maxCount)}
	if s == math.Floor(s) && r.Chance(0.5) {
		a.Start = c20I(int(s))
	}
	if z == math.Floor(z) && r.Chance(0.5) {
		a.Size = c20I(int(z))
	}
	return a
}

// a position for one element relative to the grid, by class
func (r *Rng) c20Pos(a c20Axis) float64 {
	s, z, n := a.Start.F(), a.Size.F(), a.Count
	fr := []float64{0.5, 0.25, 0.75, 0.125}[r.Pick(4)]
	switch p := r.Float64(); {
	case p < 0.22: // on an edge
		return s + float64(r.Pick(n+1))*z
	case p < 0.30: // next float below / above an edge
		e := s + float64(r.Pick(n+1))*z
		if r.Chance(0.5) {
			return math.Nextafter(e, math.Inf(-1))
		}
		return math.Nextafter(e, math.Inf(1))
	case p < 0.50: // inside a bin
		if n == 0 {
			return s + fr*z
		}
		return s + (float64(r.Pick(n))+fr)*z
	case p < 0.62: // underflow, near
		return s - (float64(r.Pick(4))+fr)*z
	case p < 0.74: // overflow, near
		return s + (float64(n+r.Pick(4))+fr)*z
	case p < 0.82: // far outside, relative to the grid: |x-start|/size around 2^52..2^64 and beyond
		k := []int{40, 52, 53, 62, 63, 64, 65, 100, 300, 900}[r.Pick(10)]
		x := s + math.Ldexp(z, k)
		if r.Chance(0.4) {
			x = s - math.Ldexp(z, k)
		}
		return x
	case p < 0.88: // far outside, absolute
		x := math.Ldexp(float64(1+r.Pick(7)), 30+r.Pick(900))
		if r.Chance(0.4) {
			x = -x
		}
		return x
	case p < 0.92:
		return 0
	case p < 0.96:
		return -float64(1 + r.Pick(50))
	}
	return float64(r.Pick(4001)-2000) / 16
}

// positions are re-drawn (a few times) until the index computation is exact for them, so that one
// element does not throw the whole case out of the property's domain
var c20Redrawn = 0

func (r *Rng) c20PosExact(a c20Axis) float64 {
	for i := 0; i < 8; i++ {
		x := r.c20Pos(a)
		if finite(x) && indexExact(a, x) == "" {
			return x
		}
		c20Redrawn++
	}
	return a.Start.F()
}

func (r *Rng) c20Val() c20Num {
	switch p := r.Float64(); {
	case p < 0.40:
		return c20I(1)
	case p < 0.55:
		return c20I(r.Pick(21))
	case p < 0.65:
		return c20I(-r.Pick(10))
	case p < 0.72:
		return c20F(0)
	case p < 0.75:
		return c20F(math.Copysign(0, -1))
	case p < 0.90:
		return c20F(float64(r.Pick(161)-40) / 8)
	case p < 0.95:
		return c20F(math.Ldexp(float64(1+r.Pick(9)), 20+r.Pick(10)))
	}
	return c20F(-float64(r.Pick(1000)) / 4)
}

func c20Pack(x float64, r *Rng) c20Num {
	if x == math.Floor(x) && math.Abs(x) < 1<<31 && r.Chance(0.4) && !(x == 0 && math.Signbit(x)) {
		return c20I(int(x))
	}
	return c20F(x)
}

// all ways of cutting n elements into k consecutive (possibly empty) parts
func compositions(n, k int) [][]int {
	if k == 1 {
		return [][]int{{n}}
	}
	var res [][]int
	for first := 0; first <= n; first++ {
		for _, rest := range compositions(n-first, k-1) {
			res = append(res, append([]int{first}, rest...))
		}
	}
	return res
}

func (r *Rng) c20Splits(n int, exhaustive bool, few int) [][]int {
	if exhaustive {
		var all [][]int
		for k := 1; k <= 4; k++ {
			all = append(all, compositions(n, k)...)
		}
		return all
	}
	res := [][]int{{n}}
	for i := 0; i < few; i++ {
		k := 2 + r.Pick(3)
		cuts := make([]int, k-1)
		for j := range cuts {
			cuts[j] = r.Pick(n + 1)
		}
		sort.Ints(cuts)
		sp := make([]int, k)
		prev := 0
		for j, c := range cuts {
			sp[j] = c - prev
			prev = c
		}
		sp[k-1] = n - prev
		res = append(res, sp)
	}
	return res
}

var c20Reprs = []string{"eager", "eager", "lazy-map", "lazy-accept"}

func (r *Rng) c20Len() int {
	switch p := r.Float64(); {
	case p < 0.05:
		return 0
	case p < 0.45:
		return 1 + r.Pick(4)
	case p < 0.85:
		return 5 + r.Pick(10)
	}
	return 15 + r.Pick(26)
}

func (r *Rng) c20Gen1() *c20Case {
	a := r.c20Axis(64)
	n := r.c20Len()
	c := &c20Case{Kind: "1d", X: a, Repr: c20Reprs[r.Pick(len(c20Reprs))]}
	for i := 0; i < n; i++ {
		c.Elems = append(c.Elems, c20Elem{X: c20Pack(r.c20PosExact(a), r), Y: c20I(0), V: r.c20Val()})
	}
	// guarantee the shapes the property names in a good share of the cases
	if n >= 3 && r.Chance(0.5) {
		c.Elems[0].X = c20Pack(a.Start.F()+float64(r.Pick(a.Count+1))*a.Size.F(), r)
		c.Elems[1].X = c20Pack(a.Start.F()-a.Size.F()*float64(1+r.Pick(3)), r)
		c.Elems[2].X = c20Pack(a.Start.F()+a.Size.F()*float64(a.Count+1+r.Pick(3)), r)
	}
	exhaustive := a.Count <= 8 && (n <= 3 || (n <= 5 && r.Chance(0.3)))
	few := 5
	if a.Count > 16 {
		few = 2
	}
	c.Splits = r.c20Splits(n, exhaustive, few)
	return c
}

func (r *Rng) c20Gen2() *c20Case {
	var ax, ay c20Axis
	switch p := r.Float64(); {
	case p < 0.8:
		ax, ay = r.c20Axis(6), r.c20Axis(6)
	case p < 0.9:
		ax, ay = r.c20Axis(64), r.c20Axis(2)
	default:
		ax, ay = r.c20Axis(2), r.c20Axis(64)
	}
	n := r.c20Len()
	if n > 24 {
		n = 24
	}
	c := &c20Case{Kind: "2d", X: ax, Y: ay, Repr: c20Reprs[r.Pick(len(c20Reprs))]}
	for i := 0; i < n; i++ {
		c.Elems = append(c.Elems, c20Elem{X: c20Pack(r.c20PosExact(ax), r), Y: c20Pack(r.c20PosExact(ay), r), V: r.c20Val()})
	}
	if n >= 3 && r.Chance(0.5) {
		c.Elems[0].X = c20Pack(ax.Start.F()+float64(r.Pick(ax.Count+1))*ax.Size.F(), r)
		c.Elems[1].X = c20Pack(ax.Start.F()-ax.Size.F()*float64(1+r.Pick(3)), r)
		c.Elems[2].X = c20Pack(ax.Start.F()+ax.Size.F()*float64(ax.Count+1+r.Pick(3)), r)
		c.Elems[0].Y = c20Pack(ay.Start.F()-ay.Size.F()*float64(1+r.Pick(3)), r)
		c.Elems[1].Y = c20Pack(ay.Start.F()+ay.Size.F()*float64(ay.Count+1+r.Pick(3)), r)
		c.Elems[2].Y = c20Pack(ay.Start.F()+float64(r.Pick(ay.Count+1))*ay.Size.F(), r)
	}
	cells := (ax.Count + 2) * (ay.Count + 2)
	exhaustive := cells <= 25 && n <= 2
	few := 3
	if cells > 60 {
		few = 1
	}
	c.Splits = r.c20Splits(n, exhaustive, few)
	return c
}

// parts binned on different grids: collectBinning sums them when the counts agree, else it is an error
func (r *Rng) c20GenMixed() *c20Case {
	c := &c20Case{Kind: "mixed", Repr: "eager"}
	k := 1 + r.Pick(4)
	base := r.c20Axis(12)
	for i := 0; i < k; i++ {
		a := r.c20Axis(12)
		if r.Chance(0.65) {
			a.Count = base.Count
		}
		if r.Chance(0.1) { // non-positive sizes: outside the property, the model still follows the code
			a.Size = c20F([]float64{0, -1, -0.5, -3}[r.Pick(4)])
		}
		p := c20Part{Axis: a}
		n := r.Pick(6)
		for j := 0; j < n; j++ {
			p.Elems = append(p.Elems, c20Elem{X: c20Pack(r.c20PosExact(a), r), Y: c20I(0), V: r.c20Val()})
		}
		c.Parts = append(c.Parts, p)
	}
	return c
}

// fixed corpus, run first: inputs that failed before (or are the named corner cases)
func c20Corpus() []*c20Case {
	ax := func(s, z float64, n int) c20Axis { return c20Axis{Start: c20F(s), Size: c20F(z), Count: n} }
	el := func(x, v float64) c20Elem { return c20Elem{X: c20F(x), Y: c20I(0), V: c20F(v)} }
	el2 := func(x, y, v float64) c20Elem { return c20Elem{X: c20F(x), Y: c20F(y), V: c20F(v)} }
	two63 := math.Ldexp(1, 63)
	return []*c20Case{
		// found by this check at 4bb752f..c062336: far above the range was counted in the underflow bin
		{Kind: "1d", X: ax(0, 1, 4), Repr: "eager", Note: "1e19 (>= 2^63*size above start) landed in the underflow bin before the repair",
			Elems: []c20Elem{el(1e19, 1), el(-1e19, 1), el(2, 1), el(4, 1)}, Splits: [][]int{{4}, {1, 3}, {2, 2}, {0, 4, 0}, {1, 1, 1, 1}}},
		{Kind: "1d", X: ax(0, 1, 3), Repr: "eager", Note: "exactly 2^63 and the largest float below it",
			Elems: []c20Elem{el(two63, 1), el(math.Nextafter(two63, 0), 2), el(-two63, 4), el(1e300, 8), el(-1e300, 16)}, Splits: [][]int{{5}, {2, 3}, {1, 1, 3}}},
		{Kind: "1d", X: ax(5, math.Ldexp(1, -20), 8), Repr: "lazy-map", Note: "2^63*size above start with a small size",
			Elems: []c20Elem{el(5+math.Ldexp(1, 43), 1), el(5, 1), el(5-math.Ldexp(1, 43), 1)}, Splits: [][]int{{3}, {1, 2}, {1, 1, 1}}},
		{Kind: "2d", X: ax(0, 1, 2), Y: ax(0, 2, 1), Repr: "eager", Note: "far outside in x, in y and in both",
			Elems: []c20Elem{el2(1e19, 1, 1), el2(1, 1e19, 2), el2(1e19, 1e19, 4), el2(-1e19, -1e19, 8), el2(1, 1, 16)}, Splits: [][]int{{5}, {2, 3}, {1, 2, 2}}},
		// corner cases of the statement
		{Kind: "1d", X: ax(0, 10, 0), Repr: "eager", Note: "count=0: only the two outer bins",
			Elems: []c20Elem{el(-1, 1), el(0, 2), el(5, 4), el(10, 8)}, Splits: [][]int{{4}, {2, 2}, {0, 0, 4}}},
		{Kind: "1d", X: ax(-3, 0.5, 64), Repr: "lazy-accept", Note: "count=64, every edge",
			Elems: func() []c20Elem {
				var es []c20Elem
				for k := 0; k <= 64; k++ {
					es = append(es, el(-3+0.5*float64(k), 1))
				}
				return append(es, el(-3.5, 1), el(100, 1))
			}(), Splits: [][]int{{67}, {30, 37}, {1, 1, 65}}},
		{Kind: "1d", X: ax(0, 1, 4), Repr: "eager", Note: "empty list", Splits: [][]int{{0}, {0, 0}, {0, 0, 0, 0}}},
		{Kind: "2d", X: ax(0, 10, 1), Y: ax(10, 1, 1), Repr: "eager", Note: "the repository's own 2-d test",
			Elems: []c20Elem{el2(-100, 1, 1), el2(1, 10.5, 1), el2(100, 13, 1)}, Splits: [][]int{{3}, {1, 2}, {1, 1, 1}}},
		{Kind: "2d", X: ax(0, 1, 0), Y: ax(0, 1, 0), Repr: "eager", Note: "2-d, count=0 on both axes",
			Elems: []c20Elem{el2(0, 0, 1), el2(-1, 0, 2), el2(0, -1, 4), el2(-1, -1, 8)}, Splits: [][]int{{4}, {2, 2}}},
		// seeded C20-e: collectBinning summed into the first partial result; visible only when the same partial
		// results are inspected or collected again
		{Kind: "hist1", X: ax(-2, 0.5, 6), Repr: "eager", Note: "three parts binned once, collected four times (orders 012, 012, 120, 201)",
			Parts: []c20Part{
				{Elems: []c20Elem{el(-100, 1), el(-2, 2), el(-1.5, 4), el(0, 8), el(1, -16)}},
				{Elems: []c20Elem{el(-2.25, 32), el(0.25, 64), el(0.5, 0), el(1e300, 128)}},
				{Elems: []c20Elem{el(0.75, 256), el(-1.75, -512), el(1, 1024), el(0, 2048)}}},
			Steps: [][]int{{0, 1, 2}, {0, 1, 2}, {1, 2, 0}, {2, 0, 1}}},
		{Kind: "hist2", X: ax(0, 1, 2), Y: ax(0, 2, 1), Repr: "eager", Note: "2-d history: two collects and a sub-multiset",
			Parts: []c20Part{
				{Elems: []c20Elem{el2(1, 1, 1), el2(-1, 5, 2)}},
				{Elems: []c20Elem{el2(2, 0, 4), el2(1e19, -1, 8)}}},
			Steps: [][]int{{0, 1}, {1, 0}, {0, 0, 1}}},
		// seeded C20-f: isAvail("min") was true on the underflow bin (bin.Get returns Float(0),false)
		{Kind: "descr", X: ax(-2, 0.5, 6), Source: "descr", Repr: "eager", Note: "observers on descr"},
		{Kind: "descr", X: ax(0, 1, 0), Source: "descr", Repr: "eager", Note: "observers on descr, count=0: only the two outer bins"},
		{Kind: "descr", X: ax(-100, 25, 64), Source: "xd", Repr: "eager", Note: "observers on xd"},
		{Kind: "descr", X: ax(1, 0.25, 3), Source: "yDescr", Repr: "eager", Note: "observers on yDescr"},
		{Kind: "mixed", Repr: "eager", Note: "different counts: an error",
			Parts: []c20Part{{Axis: ax(0, 1, 2), Elems: []c20Elem{el(1, 1)}}, {Axis: ax(0, 1, 3), Elems: []c20Elem{el(1, 1)}}}},
		{Kind: "mixed", Repr: "eager", Note: "size 0 and negative size: outside the property, the model follows the code",
			Parts: []c20Part{{Axis: ax(0, 0, 3), Elems: []c20Elem{el(1, 1), el(0, 2), el(-1, 4)}}, {Axis: ax(0, -1, 3), Elems: []c20Elem{el(-1, 1), el(0, 2), el(1, 4), el(2, 8), el(3, 16)}}}},
	}
}

func cmdC20(seed int64, tier, outDir string) {
	n1, n2, nm := 600, 300, 60
	nh1, nh2, nd := 120, 50, 80 // histories on the same partial results (1-d, 2-d), description observers
	if tier == "thorough" {
		n1, n2, nm = 18000, 9000, 1800
		nh1, nh2, nd = 3600, 1500, 2400
	}
	perShard := 77 // 16 shards in the quick tier: one per worker of tools/check.py
	if tier == "thorough" {
		perShard = 400
	}
	r := NewRng(seed)
	sum := NewSummary("C20", seed, tier)
	sum.Rule = "lists of records {x,y,v} (ints and floats, exactly representable; positions on bin edges, next float beside an edge, inside bins, near and far (up to 2^900*size) outside, zero, negative) binned by list.binning / list.binning2d through Generate on start/size/count grids (count 0..64; sizes powers of two, small integers, dyadic fractions) and re-combined by collectBinning over splittings into <= 4 consecutive parts (all splittings for short lists, sampled otherwise); plus HISTORIES on the same objects (2-4 parts binned once, then 2-4 collectBinning calls over permutations / sub-multisets / repetitions of the same partial results, 1-d and 2-d; after every call the collected result and every partial result are read again) and ALL MAP OBSERVERS (isAvail, get, member access, ~, list(), size(), string(), =) on the bin descriptions in descr, xd and yDescr incl. both outer bins; cases in which a float operation of the code would round are skipped and counted; non-trivial = at least one element exactly on an edge and at least one in each outer bin (every history, and every observer case with count >= 1, counts as well); distinct by hash of the input"
	cw := NewCaseWriter(outDir, "From Coq Require Import QArith.\nFrom P2 Require Import Base.Prelude Lib.Binning Run.C20Run.", "c20_case", "c20_id", "c20_im", "c20_is", perShard)
	finish := func() {
		sum.Extra["positions_redrawn_because_inexact"] = c20Redrawn
		cw.Flush()
		sum.CaseFiles = cw.files
		sort.SliceStable(sum.GoViolations, func(i, j int) bool {
			return len(fmt.Sprint(sum.GoViolations[i].Human["input"])) < len(fmt.Sprint(sum.GoViolations[j].Human["input"]))
		})
		sum.Write(outDir)
	}
	if optReplay != "" {
		var c c20Case
		if err := json.Unmarshal(loadReplayCase(), &c); err != nil {
			fatal("replay case: %v", err)
		}
		c20Run(&c, 1, sum, cw)
		finish()
		return
	}
	n1, n2, nm = n1*optBoost, n2*optBoost, nm*optBoost
	nh1, nh2, nd = nh1*optBoost, nh2*optBoost, nd*optBoost
	id := 0
	for _, c := range c20Corpus() {
		id++
		c20Run(c, id, sum, cw)
	}
	for i := 0; i < n1; i++ {
		id++
		c20Run(r.c20Gen1(), id, sum, cw)
	}
	for i := 0; i < n2; i++ {
		id++
		c20Run(r.c20Gen2(), id, sum, cw)
	}
	for i := 0; i < nm; i++ {
		id++
		c20Run(r.c20GenMixed(), id, sum, cw)
	}
	for i := 0; i < nh1; i++ {
		id++
		c20Run(r.c20GenHistory(false), id, sum, cw)
	}
	for i := 0; i < nh2; i++ {
		id++
		c20Run(r.c20GenHistory(true), id, sum, cw)
	}
	for i := 0; i < nd; i++ {
		id++
		c20Run(r.c20GenDescr(), id, sum, cw)
	}
	finish()
}
