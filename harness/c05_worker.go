package main

// C05 worker: evaluates programs of the value language in an isolated process, so that a Go panic on a
// goroutine without recover or a Go stack exhaustion kills only this process. The parent (c05.go)
// re-executes the harness binary as `p2h c05-worker` with the batch of cases on stdin and GOMAXPROCS in
// the environment, and reads one JSON line per finished case from stdout.

import (
	"bufio"
	"encoding/json"
	"errors"
	"fmt"
	"github.com/hneemann/parser2/funcGen"
	"github.com/hneemann/parser2/value"
	"io"
	"log"
	"os"
	"runtime"
	"runtime/debug"
	"strconv"
	"strings"
	"sync"
	"time"
)

func init() { register("c05-worker", cmdC05Worker) }

// one program to evaluate: Prog over the argument names a, b, c; ArgTexts are evaluated first (each a
// closed expression of the value language) and handed to Eval as values, so that nothing is folded at
// Generate time
type c05Job struct {
	ID       int      `json:"id"`
	Prog     string   `json:"prog"`
	ArgTexts []string `json:"args"`
}

type c05Result struct {
	ID        int    `json:"id"`
	Class     string `json:"class"` // val | err | generr | argerr
	Catch     bool   `json:"catch"` // the value is the catch marker 4242
	MarksMain int    `json:"marks_main"`
	MarksOff  int    `json:"marks_off"`
	SlowGids  int    `json:"slow_gids"` // distinct goroutines seen by the slow host function
	Detail    string `json:"detail"`
	Forced    bool   `json:"forced"` // the error arose when the lazy list the program returned was evaluated afterwards
}

func c05Goid() int {
	var buf [64]byte
	n := runtime.Stack(buf[:], false)
	f := strings.Fields(string(buf[:n]))
	if len(f) >= 2 {
		if id, err := strconv.Atoi(f[1]); err == nil {
			return id
		}
	}
	return -1
}

type c05Probe struct {
	mu       sync.Mutex
	mainGid  int
	main     int
	off      int
	slowGids map[int]bool
}

// the function generator of the worker: value.New() plus the host functions the cases use
func c05Generator(p *c05Probe) *value.FunctionGenerator {
	fg := value.New()
	fg.AddStaticFunction("hostPanic", funcGen.Function[value.Value]{
		Func: func(st funcGen.Stack[value.Value], cs []value.Value) (value.Value, error) {
			panic("host function panics")
		}, Args: 1, IsPure: false})
	fg.AddStaticFunction("hostNil", funcGen.Function[value.Value]{
		Func: func(st funcGen.Stack[value.Value], cs []value.Value) (value.Value, error) {
			var m map[string]int
			m["a"] = 1 // runtime error: assignment to entry in nil map
			return value.Int(0), nil
		}, Args: 1, IsPure: false})
	fg.AddStaticFunction("hostErr", funcGen.Function[value.Value]{
		Func: func(st funcGen.Stack[value.Value], cs []value.Value) (value.Value, error) {
			return nil, errors.New("host function returns an error")
		}, Args: 1, IsPure: false})
	// sleeps 300 us so that MapAuto/FilterAuto switch to parallel mode; records the goroutine
	fg.AddStaticFunction("slow", funcGen.Function[value.Value]{
		Func: func(st funcGen.Stack[value.Value], cs []value.Value) (value.Value, error) {
			g := c05Goid()
			p.mu.Lock()
			p.slowGids[g] = true
			p.mu.Unlock()
			time.Sleep(300 * time.Microsecond)
			return st.Get(0), nil
		}, Args: 1, IsPure: false})
	// records on which goroutine the closure holding the fault source runs
	fg.AddStaticFunction("mark", funcGen.Function[value.Value]{
		Func: func(st funcGen.Stack[value.Value], cs []value.Value) (value.Value, error) {
			g := c05Goid()
			p.mu.Lock()
			if g == p.mainGid {
				p.main++
			} else {
				p.off++
			}
			p.mu.Unlock()
			return st.Get(0), nil
		}, Args: 1, IsPure: false})
	return fg
}

func c05RunJob(j c05Job) c05Result {
	p := &c05Probe{mainGid: c05Goid(), slowGids: map[int]bool{}}
	fg := c05Generator(p)
	res := c05Result{ID: j.ID}
	names := []string{"a", "b", "c"}[:len(j.ArgTexts)]
	args := make([]value.Value, len(j.ArgTexts))
	for i, t := range j.ArgTexts {
		f, _, err := fg.Generate(t)
		if err != nil {
			res.Class, res.Detail = "argerr", err.Error()
			return res
		}
		v, err := f.Eval()
		if err != nil {
			res.Class, res.Detail = "argerr", err.Error()
			return res
		}
		args[i] = v
	}
	f, _, err := fg.Generate(j.Prog, names...)
	if err != nil {
		res.Class, res.Detail = "generr", err.Error()
		return res
	}
	p.main, p.off = 0, 0
	v, err := f.Eval(args...)
	if err == nil {
		// results may hold lazy lists at any depth: evaluate them on this goroutine, every list through the
		// same protected entry (a generated function)
		if ferr := c05DeepForce(fg, v, 0); ferr != nil {
			err = ferr
			res.Forced = true
		}
	}
	p.mu.Lock()
	res.MarksMain, res.MarksOff, res.SlowGids = p.main, p.off, len(p.slowGids)
	p.mu.Unlock()
	if err != nil {
		res.Class = "err"
		res.Detail = err.Error()
		if len(res.Detail) > 200 {
			res.Detail = res.Detail[:200]
		}
		return res
	}
	res.Class = "val"
	if i, ok := v.(value.Int); ok && i == 4242 {
		res.Catch = true
	}
	s := fmt.Sprint(v)
	if len(s) > 80 {
		s = s[:80]
	}
	res.Detail = s
	return res
}

// c05DeepForce evaluates every list reachable from v (elements of lists, values of maps)
func c05DeepForce(fg *value.FunctionGenerator, v value.Value, depth int) error {
	if depth > 8 {
		return nil
	}
	switch x := v.(type) {
	case *value.List:
		ff, _, gerr := fg.Generate("l.eval().size()", "l")
		if gerr != nil {
			return nil
		}
		if _, err := ff.Eval(x); err != nil {
			return err
		}
		sl, err := x.ToSlice(funcGen.NewEmptyStack[value.Value]())
		if err != nil {
			return err
		}
		if len(sl) > 64 {
			sl = sl[:64]
		}
		for _, e := range sl {
			if err := c05DeepForce(fg, e, depth+1); err != nil {
				return err
			}
		}
	case value.Map:
		var inner error
		x.Iter(func(k string, e value.Value) bool {
			inner = c05DeepForce(fg, e, depth+1)
			return inner == nil
		})
		return inner
	}
	return nil
}

func cmdC05Worker(seed int64, tier, outDir string) {
	// only the Go runtime writes to stderr: the generated function logs every recovered panic
	log.SetOutput(io.Discard)
	// Go stack exhaustion is observed at a reduced limit (the depth bound D of the model is a parameter)
	if s := os.Getenv("C05_MAXSTACK"); s != "" {
		if n, err := strconv.Atoi(s); err == nil {
			debug.SetMaxStack(n)
		}
	}
	in, err := io.ReadAll(os.Stdin)
	if err != nil {
		fatal("c05-worker: %v", err)
	}
	var jobs []c05Job
	if err := json.Unmarshal(in, &jobs); err != nil {
		fatal("c05-worker: %v", err)
	}
	w := bufio.NewWriter(os.Stdout)
	for _, j := range jobs {
		r := c05RunJob(j)
		bs, _ := json.Marshal(r)
		w.Write(bs)
		w.WriteString("\n")
		w.Flush()
	}
}
