package main

import "strings"

// c18Sweep: position sweep. A character that needs escaping (or a multi-byte rune) at EVERY offset of a long string, in
// all three sinks of the XML writer (character data, attribute value, entry key) and in the data strings of ToHtml. A writer
// that collects its output in chunks of a fixed size behaves differently near the chunk boundaries (seeded/C17-h showed the
// class on the JSON exporter: a 64-byte scratch array truncated a six-byte escape); the strings of the random generators
// are short, so without this family every escape would be tested at small offsets only.
func c18Sweep(tier string, id *int, sum *Summary, cw *CaseWriter) {
	specials := []rune{'<', '&', '"', '\'', '\r', '\n', 0xe9, 0x1F600}
	one := func(off int, sp []rune, html bool) {
		var texts, attrs []any
		items := []*XT{}
		for i, c := range sp {
			s := strings.Repeat("a", off) + string(c) + "1;t"
			items = append(items, xs(s))
			attrs = append(attrs, "k"+string(rune('a'+i)), xs(s))
		}
		_ = texts
		items = append(items, xm(attrs...))
		if off <= 160 {
			items = append(items, xs(strings.Repeat("<&", off/2+1)), xm(strings.Repeat("k", off)+"<\"", xl(xs("v"))))
		}
		*id++
		sum.Count("family", "position sweep xml")
		c18XMLCase(xl(items...), *id, sum, cw)
		if html {
			*id++
			sum.Count("family", "position sweep html")
			h := []*XT{}
			for _, c := range sp {
				h = append(h, xs(strings.Repeat("a", off)+string(c)+"1;t"))
			}
			h = append(h, xlink(strings.Repeat("l", off)+"\"&", xs("x")), xfmt(xs(strings.Repeat("s", off)+"\"<"), xs("y")))
			c18HTMLCase(&htmlCase{Tree: xl(h...), MaxList: len(h) + 1, Inline: true}, *id, sum, cw)
		}
	}
	cw.Flush()
	for off := 0; off <= 136; off++ {
		one(off, specials, off%2 == 0)
		if off%8 == 7 {
			cw.Flush() // shards of their own: long strings are slow to read for coqc
		}
	}
	cw.Flush()
	sizes, lo := []int{256, 512, 1024}, 3
	if tier == "thorough" {
		sizes, lo = []int{256, 512, 1024, 2048, 4096, 8192}, 12
	}
	for _, size := range sizes {
		for off := size - lo; off <= size+1; off++ {
			one(off, []rune{'<', '"', 0x1F600}, true)
		}
		cw.Flush()
	}
}
