package main

// C20, description observers: every bin description is a map in the language. All map observers are
// applied to it through Generate (isAvail for min/max/str/an absent key and for two keys, get, member
// access, ~, list(), size(), string(), =) and compared with the description the statement gives the bin:
// the underflow bin has only max, the overflow bin only min, the inner bins both, every bin a str.

import (
	"fmt"
	"github.com/hneemann/parser2/listMap"
	"github.com/hneemann/parser2/value"
	"strings"
)

const c20ObsExpr = `[d.isAvail("min"), d.isAvail("max"), d.isAvail("str"), d.isAvail("nokey"), d.isAvail("str","min"), d.isAvail("str","max"),
 try d.get("min") catch "absent", try d.get("max") catch "absent", try d.min catch "absent", try d.max catch "absent",
 "min"~d, "max"~d, "str"~d, "nokey"~d, d.list().map(e->e.key), d.list().map(e->e.value), d.size(), d.string(), d=d, d=s]`

type dObs struct {
	Avail      []bool // min max str nokey (str,min) (str,max)
	Get, Mem   [2]*float64
	Cont       []bool // min max str nokey
	Keys       []int
	Vals       [2]*float64
	Size       int
	Str        [2]bool
	EqSelf, Eq bool
}

func optF(v value.Value) *float64 {
	if f, ok := v.(value.Float); ok {
		x := float64(f)
		return &x
	}
	return nil
}

func mustBool(v value.Value, id int) bool {
	b, ok := v.(value.Bool)
	if !ok {
		fatal("case %d: observer did not return a bool: %v", id, value.TypeName(v))
	}
	return bool(b)
}

func observeBin(d value.Value, spec value.Value, id int) dObs {
	v, err := evalExpr(c20ObsExpr, []string{"d", "s"}, d, spec)
	if err != nil {
		fatal("case %d: observers of a bin description failed: %v", id, err)
	}
	l, _ := v.ToList()
	sl, err := l.ToSlice(emptySt)
	if err != nil || len(sl) != 20 {
		fatal("case %d: observers of a bin description: %v", id, err)
	}
	var o dObs
	for k := 0; k < 6; k++ {
		o.Avail = append(o.Avail, mustBool(sl[k], id))
	}
	o.Get = [2]*float64{optF(sl[6]), optF(sl[7])}
	o.Mem = [2]*float64{optF(sl[8]), optF(sl[9])}
	for k := 10; k < 14; k++ {
		o.Cont = append(o.Cont, mustBool(sl[k], id))
	}
	kl, _ := sl[14].ToList()
	keys, err := kl.ToSlice(emptySt)
	if err != nil {
		fatal("case %d: list() keys: %v", id, err)
	}
	vl, _ := sl[15].ToList()
	vals, err := vl.ToSlice(emptySt)
	if err != nil || len(vals) != len(keys) {
		fatal("case %d: list() values: %v", id, err)
	}
	for k, kv := range keys {
		ks, _ := kv.(value.String)
		switch string(ks) {
		case "str":
			o.Keys = append(o.Keys, 0)
		case "min":
			o.Keys = append(o.Keys, 1)
			if o.Vals[0] == nil {
				o.Vals[0] = optF(vals[k])
			}
		case "max":
			o.Keys = append(o.Keys, 2)
			if o.Vals[1] == nil {
				o.Vals[1] = optF(vals[k])
			}
		default:
			o.Keys = append(o.Keys, 3)
		}
	}
	sz, ok := sl[16].(value.Int)
	if !ok {
		fatal("case %d: size() is not an int", id)
	}
	o.Size = int(sz)
	str, _ := sl[17].(value.String)
	o.Str = [2]bool{strings.Contains(string(str), "min:"), strings.Contains(string(str), "max:")}
	o.EqSelf = mustBool(sl[18], id)
	o.Eq = mustBool(sl[19], id)
	return o
}

func coqOptF(p *float64) string {
	if p == nil {
		return "None"
	}
	return "Some " + coqQ(*p)
}

func coqBools(bs []bool) string {
	items := make([]string, len(bs))
	for i, b := range bs {
		items[i] = CoqBool(b)
	}
	return CoqList(items)
}

func (o dObs) Coq() string {
	return fmt.Sprintf("Dobs %s (%s,%s) (%s,%s) %s %s (%s,%s) %d (%s,%s) (%s,%s)", coqBools(o.Avail),
		coqOptF(o.Get[0]), coqOptF(o.Get[1]), coqOptF(o.Mem[0]), coqOptF(o.Mem[1]), coqBools(o.Cont), coqInts(o.Keys),
		coqOptF(o.Vals[0]), coqOptF(o.Vals[1]), o.Size, CoqBool(o.Str[0]), CoqBool(o.Str[1]), CoqBool(o.EqSelf), CoqBool(o.Eq))
}

// the first observer that disagrees with the description the statement gives bin i ("" = none)
func (o dObs) against(hasMin, hasMax bool, mn, mx float64) string {
	eqF := func(p *float64, has bool, want float64) bool {
		if !has {
			return p == nil
		}
		return p != nil && *p == want
	}
	wantAvail := []bool{hasMin, hasMax, true, false, hasMin, hasMax}
	names := []string{`isAvail("min")`, `isAvail("max")`, `isAvail("str")`, `isAvail("nokey")`, `isAvail("str","min")`, `isAvail("str","max")`}
	for k := range wantAvail {
		if o.Avail[k] != wantAvail[k] {
			return names[k]
		}
	}
	switch {
	case !eqF(o.Get[0], hasMin, mn):
		return `get("min")`
	case !eqF(o.Get[1], hasMax, mx):
		return `get("max")`
	case !eqF(o.Mem[0], hasMin, mn):
		return ".min"
	case !eqF(o.Mem[1], hasMax, mx):
		return ".max"
	case o.Cont[0] != hasMin:
		return `"min"~d`
	case o.Cont[1] != hasMax:
		return `"max"~d`
	case !o.Cont[2]:
		return `"str"~d`
	case o.Cont[3]:
		return `"nokey"~d`
	}
	wantKeys := []int{0}
	if hasMin {
		wantKeys = append(wantKeys, 1)
	}
	if hasMax {
		wantKeys = append(wantKeys, 2)
	}
	if fmt.Sprint(o.Keys) != fmt.Sprint(wantKeys) {
		return "list() keys"
	}
	switch {
	case !eqF(o.Vals[0], hasMin, mn) || !eqF(o.Vals[1], hasMax, mx):
		return "list() values"
	case o.Size != len(wantKeys):
		return "size()"
	case o.Str[0] != hasMin || o.Str[1] != hasMax:
		return "string()"
	case !o.EqSelf:
		return "d=d"
	case !o.Eq:
		return "d={the specified entries}"
	}
	return ""
}

func c20RunDescr(c *c20Case, id int, sum *Summary, cw *CaseWriter, human map[string]any, violate func(*lawFail, string)) {
	a := c.X
	unit := c20Axis{Start: c20I(0), Size: c20I(1), Count: 0}
	empty := c20List(nil, "eager")
	var ds []value.Value
	slice := func(v value.Value) []value.Value {
		l, ok := v.ToList()
		if !ok {
			fatal("case %d: %s is not a list", id, c.Source)
		}
		sl, err := l.ToSlice(emptySt)
		if err != nil {
			fatal("case %d: %v", id, err)
		}
		return sl
	}
	names2 := []string{"l", "s", "z", "c", "t", "w", "d"}
	switch c.Source {
	case "descr":
		v, err := evalExpr(c20Expr1, []string{"l", "s", "z", "c"}, append([]value.Value{empty}, axisArgs(a)...)...)
		if err != nil {
			fatal("case %d: binning: %v", id, err)
		}
		m, _ := v.ToMap()
		d, _ := m.Get("descr")
		ds = slice(d)
	case "xd":
		v, err := evalExpr(c20Expr2, names2, append([]value.Value{empty}, append(axisArgs(a), axisArgs(unit)...)...)...)
		if err != nil {
			fatal("case %d: binning2d: %v", id, err)
		}
		m, _ := v.ToMap()
		vals, _ := m.Get("values")
		for _, e := range slice(vals) {
			em, _ := e.ToMap()
			xd, _ := em.Get("xd")
			ds = append(ds, xd)
		}
	case "yDescr":
		v, err := evalExpr(c20Expr2, names2, append([]value.Value{empty}, append(axisArgs(unit), axisArgs(a)...)...)...)
		if err != nil {
			fatal("case %d: binning2d: %v", id, err)
		}
		m, _ := v.ToMap()
		d, _ := m.Get("yDescr")
		ds = slice(d)
	default:
		fatal("case %d: unknown description source %q", id, c.Source)
	}
	last := len(ds) - 1
	if last != a.Count+1 {
		violate(&lawFail{"description", "grid", fmt.Sprintf("%d descriptions for count %d", len(ds), a.Count), fmt.Sprint(a.Count + 2), fmt.Sprint(len(ds))}, c.Source)
	}
	pick := map[int]bool{}
	if last <= 9 {
		for i := 0; i <= last; i++ {
			pick[i] = true
		}
	} else {
		for _, i := range []int{0, 1, 2, last / 2, last - 2, last - 1, last} {
			pick[i] = true
		}
	}
	s, z := rat(a.Start.F()), rat(a.Size.F())
	var items []string
	var fail *lawFail
	for i := 0; i <= last; i++ {
		if !pick[i] {
			continue
		}
		hasMin, hasMax := i > 0, i < last
		mn, _ := nearest(rAdd(s, rMul(rInt(i-1), z)))
		mx, _ := nearest(rAdd(s, rMul(rInt(i), z)))
		dm, ok := ds[i].ToMap()
		if !ok {
			fatal("case %d: description %d is not a map", id, i)
		}
		str, _ := dm.Get("str")
		if str == nil {
			str = value.String("")
		}
		lm := listMap.New[value.Value](3).Append("str", str)
		if hasMin {
			lm = lm.Append("min", value.Float(mn))
		}
		if hasMax {
			lm = lm.Append("max", value.Float(mx))
		}
		o := observeBin(ds[i], value.NewMap(lm), id)
		items = append(items, fmt.Sprintf("(%d, %s)", i, o.Coq()))
		where := "inner-bin"
		if i == 0 {
			where = "underflow-bin"
		} else if i == last {
			where = "overflow-bin"
		}
		sum.Count("observed_descriptions", where)
		if w := o.against(hasMin, hasMax, mn, mx); w != "" && fail == nil && a.Size.F() > 0 {
			fail = &lawFail{"description", where + ":" + w, fmt.Sprintf("%s[%d]: the observer %s contradicts the description of the bin (min present: %v, max present: %v)", c.Source, i, w, hasMin, hasMax),
				fmt.Sprintf("min=%v(%v) max=%v(%v)", mn, hasMin, mx, hasMax), o.Coq()}
		}
	}
	if fail != nil {
		violate(fail, c.Source)
	}
	human["values"] = fmt.Sprintf("%d descriptions observed", len(items))
	cw.Add(fmt.Sprintf("CD %d %s %s %d %s", id, coqQ(a.Start.F()), coqQ(a.Size.F()), a.Count, CoqList(items)))
	sum.Count("descr_source", c.Source)
	sum.Count("count", countBucket(a.Count))
	sum.Count("size_kind", sizeKind(a.Size.F()))
	if a.Count >= 1 {
		sum.Nontriv(c20Key(c))
	}
}

func (r *Rng) c20GenDescr() *c20Case {
	return &c20Case{Kind: "descr", Repr: "eager", X: r.c20Axis(64), Source: []string{"descr", "descr", "xd", "yDescr"}[r.Pick(4)]}
}
