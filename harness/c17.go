package main

import (
	"encoding/json"
	"fmt"
	"github.com/hneemann/parser2/funcGen"
	"github.com/hneemann/parser2/value"
	"github.com/hneemann/parser2/value/export"
	"reflect"
	"sort"
)

func init() { register("c17", cmdC17) }

func exportJSON(v value.Value) ([]byte, error) {
	ex := export.JSON()
	err := export.Export(funcGen.NewEmptyStack[value.Value](), v, ex)
	return ex.Result(), err
}

// expected decoding of the exported document, in encoding/json's generic representation
func (t *Tree) expectJSON(built value.Value) any {
	switch t.Kind {
	case "list":
		sl, _ := built.(*value.List).ToSlice(funcGen.NewEmptyStack[value.Value]())
		xs := make([]any, len(t.Items))
		for i, it := range t.Items {
			xs[i] = it.expectJSON(sl[i])
		}
		return xs
	case "map":
		m := map[string]any{}
		mv := built.(value.Map)
		for i, k := range t.Keys {
			v, _ := mv.Get(k)
			m[k] = t.Items[i].expectJSON(v)
		}
		return m
	}
	return scalarString(built)
}

func c17Signature(t *Tree) string {
	// which rune classes needing an escape occur, and where
	cls := map[string]bool{}
	t.Walk(func(x *Tree) {
		if x.Kind == "str" {
			for _, c := range x.S {
				if c == '\\' || c < 0x20 {
					cls["value:"+runeClass(c)] = true
				}
			}
		}
		for _, k := range x.Keys {
			for _, c := range k {
				if c == '\\' || c < 0x20 {
					cls["key:"+runeClass(c)] = true
				}
			}
		}
	})
	ks := sortedKeys(cls)
	return fmt.Sprint(ks)
}

func c17Case(t *Tree, id int, sum *Summary, cw *CaseWriter) {
	built := t.Build()
	out, err := exportJSON(built)
	if err != nil {
		sum.Skipped["export-error"]++
		return
	}
	sum.Evaluations++
	special := 0
	t.Walk(func(x *Tree) {
		sum.Count("node_kinds", x.Kind)
		if x.Kind == "list" || x.Kind == "map" {
			sum.Count("representations", x.Kind+":"+x.Repr)
		}
		strs := append([]string{}, x.Keys...)
		if x.Kind == "str" {
			strs = append(strs, x.S)
		}
		for _, s := range strs {
			for _, c := range s {
				sum.Count("rune_classes", runeClass(c))
				if c == '"' || c == '\\' || c < 0x20 || c >= 0x7f {
					special++
				}
			}
		}
	})
	sum.Count("depth", fmt.Sprint(t.Depth()))
	sum.Count("output_len", bucket(len(out)))
	if special > 0 {
		sum.Nontriv(string(out))
	}
	human := map[string]any{"value": t.Human(), "exported": string(out), "repro": t, "signature": c17Signature(t)}
	sum.Cases[fmt.Sprint(id)] = human
	sum.Sample(human)
	cw.Add(fmt.Sprintf("(%d, %s, %s)", id, t.CoqXV(built), CoqBytesAsRunes(out)))

	// specification side in Go: a standard JSON parser must accept and give back the structure
	var dec any
	exp := t.expectJSON(built)
	expS, _ := json.Marshal(exp)
	if err := json.Unmarshal(out, &dec); err != nil {
		sum.GoViolations = append(sum.GoViolations, GoViolation{CaseID: id, What: "encoding/json rejects the exported document: " + err.Error(),
			Sig: c17Signature(t), Human: human, Expected: string(expS), Observed: string(out)})
		return
	}
	if !reflect.DeepEqual(dec, exp) {
		decS, _ := json.Marshal(dec)
		sum.GoViolations = append(sum.GoViolations, GoViolation{CaseID: id, What: "exported document decodes to a different structure/text",
			Sig: c17Signature(t), Human: human, Expected: string(expS), Observed: string(decS)})
	}
}

func cmdC17(seed int64, tier, outDir string) {
	n := 500
	if tier == "thorough" {
		n = 20000
	}
	r := NewRng(seed)
	sum := NewSummary("C17", seed, tier)
	sum.Rule = "value trees (depth<=5, lists and maps in every representation the expression language builds, scalars of all kinds, strings/keys from a stratified Unicode generator incl. quote, backslash, C0 controls, U+2028/9, astral) exported through the real JSON exporter; non-trivial = the tree contains at least one character outside printable ASCII or a quote/backslash; distinct by exported bytes"
	cw := NewCaseWriter(outDir, "From P2 Require Import Base.Prelude Exp.Json Run.C17Run.", "c17_case", "c17_id", "c17_im", "c17_is", 250)
	id := 0
	if optReplay != "" {
		var t Tree
		if err := json.Unmarshal(loadReplayCase(), &t); err != nil {
			fatal("replay case: %v", err)
		}
		c17Case(&t, 1, sum, cw)
		cw.Flush()
		sum.CaseFiles = cw.files
		sum.Write(outDir)
		return
	}
	n *= optBoost
	// witnesses computed by the model when the table obligation is broken
	for _, c := range extraRunes() {
		id++
		c17Case(&Tree{Kind: "list", Repr: "eager", Items: []*Tree{{Kind: "str", S: string(c)}}}, id, sum, cw)
	}
	// corpus first: one-rune strings of every class that has ever mattered, in both sinks
	for _, c := range []rune{'\\', '"', 0, 1, 8, 9, 10, 12, 13, 0x1f, 0x7f, 0x2028, 0x2029, 0xfffd, 0x10ffff, '/'} {
		s := string(c)
		id++
		c17Case(&Tree{Kind: "list", Repr: "eager", Items: []*Tree{{Kind: "str", S: "a" + s + "b"}}}, id, sum, cw)
		id++
		c17Case(&Tree{Kind: "map", Repr: "listmap", Keys: []string{"k" + s}, Items: []*Tree{{Kind: "int", I: 1}}}, id, sum, cw)
	}
	for i := 0; i < n; i++ {
		id++
		t := r.GenTree(1+r.Pick(5), r.Chance(0.85), 12)
		c17Case(t, id, sum, cw)
	}
	cw.Flush()
	sum.CaseFiles = cw.files
	sort.Slice(sum.GoViolations, func(i, j int) bool { return len(sum.GoViolations[i].Observed) < len(sum.GoViolations[j].Observed) })
	sum.Write(outDir)
}
