package main

import (
	"encoding/json"
	"fmt"
	"github.com/hneemann/parser2/funcGen"
	"github.com/hneemann/parser2/value"
	"github.com/hneemann/parser2/value/export"
	"reflect"
	"sort"
)

func init() { register("c17", cmdC17) }

func exportJSON(v value.Value) ([]byte, error) {
	ex := export.JSON()
	err := export.Export(funcGen.NewEmptyStack[value.Value](), v, ex)
	return ex.Result(), err
}

// expected decoding of the exported document, in encoding/json's generic representation
func (t *Tree) expectJSON(built value.Value) any {
	// Format / Link wrappers are transparent for JSON: the expectation is that of the unwrapped tree
	built = t.unwrapBuilt(built)
	switch t.Kind {
	case "list":
		sl, _ := built.(*value.List).ToSlice(funcGen.NewEmptyStack[value.Value]())
		xs := make([]any, len(t.Items))
		for i, it := range t.Items {
			xs[i] = it.expectJSON(sl[i])
		}
		return xs
	case "map":
		m := map[string]any{}
		mv := built.(value.Map)
		for i, k := range t.Keys {
			v, _ := mv.Get(k)
			m[k] = t.Items[i].expectJSON(v)
		}
		return m
	}
	return scalarString(built)
}

func c17Signature(t *Tree) string {
	// which rune classes needing an escape occur, and where
	cls := map[string]bool{}
	t.Walk(func(x *Tree) {
		if x.Kind == "str" {
			for _, c := range x.S {
				if c == '\\' || c < 0x20 {
					cls["value:"+runeClass(c)] = true
				}
			}
		}
		for _, k := range x.Keys {
			for _, c := range k {
				if c == '\\' || c < 0x20 {
					cls["key:"+runeClass(c)] = true
				}
			}
		}
	})
	t.Walk(func(x *Tree) {
		if (x.Kind == "list" || x.Kind == "map") && len(x.Wrap) > 0 {
			if len(x.Wrap) == 1 {
				cls["container-under-1-wrapper"] = true
			} else {
				cls["container-under-wrapper-stack"] = true
			}
		}
	})
	ks := sortedKeys(cls)
	return fmt.Sprint(ks)
}

func wrapShape(ws []TreeWrap) string {
	s := ""
	for _, w := range ws {
		switch {
		case w.Kind == "link":
			s += "L"
		case w.Cell:
			s += "C"
		default:
			s += "F"
		}
	}
	return s
}

func (r *Rng) genWrap() TreeWrap {
	if r.Chance(0.45) {
		return TreeWrap{Kind: "link", Link: []string{"u", "http://x/?a=1&b=\"2\"", ""}[r.Pick(3)]}
	}
	return TreeWrap{Kind: "format", Style: []string{"nil", "str", "map", "closure"}[r.Pick(4)], Cell: r.Chance(0.3), ColSpan: r.Pick(4)}
}

// addWraps puts Format/Link wrapper stacks of depth 1-4 around values at every level of the tree
func (r *Rng) addWraps(t *Tree, p float64) {
	t.Walk(func(x *Tree) {
		if !r.Chance(p) {
			return
		}
		d := 1
		switch k := r.Pick(20); {
		case k < 7:
			d = 1
		case k < 14:
			d = 2
		case k < 18:
			d = 3
		default:
			d = 4
		}
		for i := 0; i < d; i++ {
			x.Wrap = append(x.Wrap, r.genWrap())
		}
	})
}

func wrapped(t *Tree, shape string) *Tree {
	c := *t
	for _, ch := range shape {
		switch ch {
		case 'L':
			c.Wrap = append(c.Wrap, TreeWrap{Kind: "link", Link: "u"})
		case 'C':
			c.Wrap = append(c.Wrap, TreeWrap{Kind: "format", Style: "str", Cell: true, ColSpan: 2})
		case 'M':
			c.Wrap = append(c.Wrap, TreeWrap{Kind: "format", Style: "map"})
		case 'X':
			c.Wrap = append(c.Wrap, TreeWrap{Kind: "format", Style: "closure"})
		default:
			c.Wrap = append(c.Wrap, TreeWrap{Kind: "format", Style: "str"})
		}
	}
	return &c
}

func c17Case(t *Tree, id int, sum *Summary, cw *CaseWriter) {
	built := t.Build()
	out, err := exportJSON(built)
	if err != nil {
		sum.Skipped["export-error"]++
		return
	}
	sum.Evaluations++
	special := 0
	t.Walk(func(x *Tree) {
		sum.Count("node_kinds", x.Kind)
		if x.Kind == "list" || x.Kind == "map" {
			sum.Count("representations", x.Kind+":"+x.Repr)
		}
		if len(x.Wrap) > 0 {
			what := "scalar"
			if x.Kind == "list" || x.Kind == "map" {
				what = x.Kind
				if len(x.Wrap) >= 2 {
					special++
				}
			}
			sum.Count("wrapper_stacks", wrapShape(x.Wrap)+"@"+what)
			sum.Count("wrapper_depth", fmt.Sprint(len(x.Wrap)))
		} else {
			sum.Count("wrapper_depth", "0")
		}
		strs := append([]string{}, x.Keys...)
		if x.Kind == "str" {
			strs = append(strs, x.S)
		}
		for _, s := range strs {
			for _, c := range s {
				sum.Count("rune_classes", runeClass(c))
				if c == '"' || c == '\\' || c < 0x20 || c >= 0x7f {
					special++
				}
			}
		}
	})
	sum.Count("depth", fmt.Sprint(t.Depth()))
	sum.Count("output_len", bucket(len(out)))
	if special > 0 {
		shapes := ""
		t.Walk(func(x *Tree) { shapes += wrapShape(x.Wrap) + "," })
		sum.Nontriv(string(out) + "\x00" + shapes)
	}
	human := map[string]any{"value": t.Human(), "exported": string(out), "repro": t, "signature": c17Signature(t)}
	sum.Cases[fmt.Sprint(id)] = human
	sum.Sample(human)
	cw.Add(fmt.Sprintf("(%d, %s, %s)", id, t.CoqXV(built), CoqBytesAsRunes(out)))

	// specification side in Go: a standard JSON parser must accept and give back the structure
	var dec any
	exp := t.expectJSON(built)
	expS, _ := json.Marshal(exp)
	what, obs := "", ""
	if err := json.Unmarshal(out, &dec); err != nil {
		what, obs = "encoding/json rejects the exported document: "+err.Error(), string(out)
	} else if !reflect.DeepEqual(dec, exp) {
		decS, _ := json.Marshal(dec)
		what, obs = "exported document decodes to a different structure/text", string(decS)
	}
	if what != "" {
		sig := c17Signature(t)
		// the same tree without its Format/Link wrappers: if that is exported correctly the wrappers are the cause
		if bare := stripWraps(t); hasWraps(t) && c17GoOK(bare) {
			sig = "wrappers:" + wrapSignature(t)
			what += " (the same tree without its style/link wrappers is exported correctly)"
		}
		human["signature"] = sig
		sum.GoViolations = append(sum.GoViolations, GoViolation{CaseID: id, What: what, Sig: sig, Human: human, Expected: string(expS), Observed: obs})
	}
}

func hasWraps(t *Tree) bool {
	any := false
	t.Walk(func(x *Tree) { any = any || len(x.Wrap) > 0 })
	return any
}

func stripWraps(t *Tree) *Tree {
	c := *t
	c.Wrap = nil
	c.Items = nil
	for _, it := range t.Items {
		c.Items = append(c.Items, stripWraps(it))
	}
	return &c
}

// keepOnly copies the tree keeping the wrappers of the n-th node (walk order) only
func keepOnly(t *Tree, n int) *Tree {
	i := 0
	var cp func(x *Tree) *Tree
	cp = func(x *Tree) *Tree {
		c := *x
		if i != n {
			c.Wrap = nil
		}
		i++
		c.Items = nil
		for _, it := range x.Items {
			c.Items = append(c.Items, cp(it))
		}
		return &c
	}
	return cp(t)
}

// the first wrapped node whose wrappers alone make the export wrong: kind of value and depth of its stack
func wrapSignature(t *Tree) string {
	var nodes []*Tree
	t.Walk(func(x *Tree) { nodes = append(nodes, x) })
	class := func(x *Tree) string {
		what := "scalar"
		if x.Kind == "list" || x.Kind == "map" {
			what = "container"
		}
		if len(x.Wrap) == 1 {
			return what + "-under-1-wrapper"
		}
		return what + "-under-wrapper-stack"
	}
	for i, x := range nodes {
		if len(x.Wrap) > 0 && !c17GoOK(keepOnly(t, i)) {
			return class(x)
		}
	}
	return "combination"
}

// the Go-side oracle alone, without recording anything
func c17GoOK(t *Tree) bool {
	built := t.Build()
	out, err := exportJSON(built)
	if err != nil {
		return false
	}
	var dec any
	if json.Unmarshal(out, &dec) != nil {
		return false
	}
	return reflect.DeepEqual(dec, t.expectJSON(built))
}

func cmdC17(seed int64, tier, outDir string) {
	n := 500
	if tier == "thorough" {
		n = 20000
	}
	r := NewRng(seed)
	sum := NewSummary("C17", seed, tier)
	sum.Rule = "value trees (depth<=5, lists and maps in every representation the expression language builds, scalars of all kinds, strings/keys from a stratified Unicode generator incl. quote, backslash, C0 controls, U+2028/9, astral) exported through the real JSON exporter; Format/Link wrapper stacks of depth 0-4 (every order; Format with nil/string/map/closure style, Cell, ColSpan) around scalars, lists, maps, list elements and map values at every level; non-trivial = the tree contains at least one character outside printable ASCII or a quote/backslash, or a list/map under a wrapper stack of depth >= 2; distinct by exported bytes and wrapper shapes"
	cw := NewCaseWriter(outDir, "From P2 Require Import Base.Prelude Exp.Json Run.C17Run.", "c17_case", "c17_id", "c17_im", "c17_is", 250)
	id := 0
	if optReplay != "" {
		var t Tree
		if err := json.Unmarshal(loadReplayCase(), &t); err != nil {
			fatal("replay case: %v", err)
		}
		c17Case(&t, 1, sum, cw)
		cw.Flush()
		sum.CaseFiles = cw.files
		sum.Write(outDir)
		return
	}
	n *= optBoost
	// witnesses computed by the model when the table obligation is broken
	for _, c := range extraRunes() {
		id++
		c17Case(&Tree{Kind: "list", Repr: "eager", Items: []*Tree{{Kind: "str", S: string(c)}}}, id, sum, cw)
	}
	// corpus first: one-rune strings of every class that has ever mattered, in both sinks
	for _, c := range []rune{'\\', '"', 0, 1, 8, 9, 10, 12, 13, 0x1f, 0x7f, 0x2028, 0x2029, 0xfffd, 0x10ffff, '/'} {
		s := string(c)
		id++
		c17Case(&Tree{Kind: "list", Repr: "eager", Items: []*Tree{{Kind: "str", S: "a" + s + "b"}}}, id, sum, cw)
		id++
		c17Case(&Tree{Kind: "map", Repr: "listmap", Keys: []string{"k" + s}, Items: []*Tree{{Kind: "int", I: 1}}}, id, sum, cw)
	}
	// wrapper stacks: every order of depth 2, deeper stacks, at the root, as list element and as map value
	lst := &Tree{Kind: "list", Repr: "eager", Items: []*Tree{{Kind: "int", I: 1}, {Kind: "int", I: 2}}}
	mp := &Tree{Kind: "map", Repr: "listmap", Keys: []string{"k"}, Items: []*Tree{{Kind: "str", S: "v"}}}
	for _, shape := range []string{"F", "L", "C", "M", "X", "FF", "FL", "LF", "LL", "CF", "FC", "LC", "XM", "FLF", "LFL", "LLL", "FFF", "CLM", "LFLF", "FFLL", "XLCM"} {
		for _, inner := range []*Tree{lst, mp, {Kind: "str", S: "a\"b"}} {
			w := wrapped(inner, shape)
			id++
			c17Case(w, id, sum, cw)
			id++
			c17Case(&Tree{Kind: "list", Repr: "lazy-map", Items: []*Tree{{Kind: "int", I: 0}, w}}, id, sum, cw)
			id++
			c17Case(&Tree{Kind: "map", Repr: "real", Keys: []string{"a", "b"}, Items: []*Tree{w, {Kind: "bool", B: true}}}, id, sum, cw)
		}
	}
	for i := 0; i < n; i++ {
		id++
		t := r.GenTree(1+r.Pick(5), r.Chance(0.85), 12)
		if i%5 != 0 {
			r.addWraps(t, []float64{0.1, 0.25, 0.5}[r.Pick(3)])
		}
		c17Case(t, id, sum, cw)
	}
	cw.Flush()
	sum.CaseFiles = cw.files
	sort.Slice(sum.GoViolations, func(i, j int) bool { return len(sum.GoViolations[i].Observed) < len(sum.GoViolations[j].Observed) })
	sum.Write(outDir)
}
