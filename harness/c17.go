package main

import (
	"bytes"
	"encoding/json"
	"fmt"
	"github.com/hneemann/parser2/funcGen"
	"github.com/hneemann/parser2/value"
	"github.com/hneemann/parser2/value/export"
	"reflect"
	"sort"
	"strings"
	"sync"
)

func init() { register("c17", cmdC17) }

func exportJSON(v value.Value) ([]byte, error) {
	ex := export.JSON()
	err := export.Export(funcGen.NewEmptyStack[value.Value](), v, ex)
	return ex.Result(), err
}

// expected decoding of the exported document, in encoding/json's generic representation
func (t *Tree) expectJSON(built value.Value) any {
	// Format / Link wrappers are transparent for JSON: the expectation is that of the unwrapped tree
	built = t.unwrapBuilt(built)
	switch t.Kind {
	case "list":
		sl, _ := built.(*value.List).ToSlice(funcGen.NewEmptyStack[value.Value]())
		xs := make([]any, len(t.Items))
		for i, it := range t.Items {
			xs[i] = it.expectJSON(sl[i])
		}
		return xs
	case "map":
		m := map[string]any{}
		mv := built.(value.Map)
		for i, k := range t.Keys {
			v, _ := mv.Get(k)
			m[k] = t.Items[i].expectJSON(v)
		}
		return m
	}
	return scalarString(built)
}

func c17Signature(t *Tree) string {
	// which rune classes needing an escape occur, and where
	cls := map[string]bool{}
	t.Walk(func(x *Tree) {
		if x.Kind == "str" {
			for _, c := range x.S {
				if c == '\\' || c < 0x20 {
					cls["value:"+runeClass(c)] = true
				}
			}
		}
		for _, k := range x.Keys {
			for _, c := range k {
				if c == '\\' || c < 0x20 {
					cls["key:"+runeClass(c)] = true
				}
			}
		}
	})
	t.Walk(func(x *Tree) {
		if (x.Kind == "list" || x.Kind == "map") && len(x.Wrap) > 0 {
			if len(x.Wrap) == 1 {
				cls["container-under-1-wrapper"] = true
			} else {
				cls["container-under-wrapper-stack"] = true
			}
		}
	})
	ks := sortedKeys(cls)
	return fmt.Sprint(ks)
}

func wrapShape(ws []TreeWrap) string {
	s := ""
	for _, w := range ws {
		switch {
		case w.Kind == "link":
			s += "L"
		case w.Cell:
			s += "C"
		default:
			s += "F"
		}
	}
	return s
}

func (r *Rng) genWrap() TreeWrap {
	if r.Chance(0.45) {
		return TreeWrap{Kind: "link", Link: []string{"u", "http://x/?a=1&b=\"2\"", ""}[r.Pick(3)]}
	}
	return TreeWrap{Kind: "format", Style: []string{"nil", "str", "map", "closure"}[r.Pick(4)], Cell: r.Chance(0.3), ColSpan: r.Pick(4)}
}

// addWraps puts Format/Link wrapper stacks of depth 1-4 around values at every level of the tree
func (r *Rng) addWraps(t *Tree, p float64) {
	t.Walk(func(x *Tree) {
		if !r.Chance(p) {
			return
		}
		d := 1
		switch k := r.Pick(20); {
		case k < 7:
			d = 1
		case k < 14:
			d = 2
		case k < 18:
			d = 3
		default:
			d = 4
		}
		for i := 0; i < d; i++ {
			x.Wrap = append(x.Wrap, r.genWrap())
		}
	})
}

func wrapped(t *Tree, shape string) *Tree {
	c := *t
	for _, ch := range shape {
		switch ch {
		case 'L':
			c.Wrap = append(c.Wrap, TreeWrap{Kind: "link", Link: "u"})
		case 'C':
			c.Wrap = append(c.Wrap, TreeWrap{Kind: "format", Style: "str", Cell: true, ColSpan: 2})
		case 'M':
			c.Wrap = append(c.Wrap, TreeWrap{Kind: "format", Style: "map"})
		case 'X':
			c.Wrap = append(c.Wrap, TreeWrap{Kind: "format", Style: "closure"})
		default:
			c.Wrap = append(c.Wrap, TreeWrap{Kind: "format", Style: "str"})
		}
	}
	return &c
}

func c17Case(t *Tree, id int, sum *Summary, cw *CaseWriter) {
	built := t.Build()
	out, err := exportJSON(built)
	c17Check(t, built, out, err, nil, id, sum, cw)
}

// c17Hist describes the position of a document in a history of exports: the document is looked at only after
// the whole history has run; Snap is a copy of the bytes taken when the exporter returned them
type c17Hist struct {
	Seq        []*Tree
	Pos        int
	Concurrent int
	Snap       []byte
}

type c17Repro struct {
	History    []*Tree
	Concurrent int
}

func c17Check(t *Tree, built value.Value, out []byte, err error, hist *c17Hist, id int, sum *Summary, cw *CaseWriter) {
	if err != nil {
		sum.Skipped["export-error"]++
		return
	}
	sum.Evaluations++
	special := 0
	t.Walk(func(x *Tree) {
		sum.Count("node_kinds", x.Kind)
		if x.Kind == "list" || x.Kind == "map" {
			sum.Count("representations", x.Kind+":"+x.Repr)
		}
		if len(x.Wrap) > 0 {
			what := "scalar"
			if x.Kind == "list" || x.Kind == "map" {
				what = x.Kind
				if len(x.Wrap) >= 2 {
					special++
				}
			}
			sum.Count("wrapper_stacks", wrapShape(x.Wrap)+"@"+what)
			sum.Count("wrapper_depth", fmt.Sprint(len(x.Wrap)))
		} else {
			sum.Count("wrapper_depth", "0")
		}
		strs := append([]string{}, x.Keys...)
		if x.Kind == "str" {
			strs = append(strs, x.S)
		}
		for _, s := range strs {
			for _, c := range s {
				sum.Count("rune_classes", runeClass(c))
				if c == '"' || c == '\\' || c < 0x20 || c >= 0x7f {
					special++
				}
			}
		}
	})
	sum.Count("depth", fmt.Sprint(t.Depth()))
	sum.Count("output_len", bucket(len(out)))
	if special > 0 {
		shapes := ""
		t.Walk(func(x *Tree) { shapes += wrapShape(x.Wrap) + "," })
		sum.Nontriv(string(out) + "\x00" + shapes)
	}
	human := map[string]any{"value": t.Human(), "exported": string(out), "repro": t, "signature": c17Signature(t)}
	if hist != nil {
		human["repro"] = c17Repro{History: hist.Seq, Concurrent: hist.Concurrent}
		human["history"] = fmt.Sprintf("document %d of a history of %d exports (%d goroutines), looked at after the last export", hist.Pos+1, len(hist.Seq), max(1, hist.Concurrent))
		human["signature"] = "history:" + c17Signature(t)
		sum.Count("history_position", fmt.Sprintf("%d/%d", hist.Pos+1, len(hist.Seq)))
	}
	sum.Cases[fmt.Sprint(id)] = human
	sum.Sample(human)
	cw.Add(fmt.Sprintf("(%d, %s, %s)", id, t.CoqXV(built), CoqBytesAsRunes(out)))
	if hist != nil && !bytes.Equal(out, hist.Snap) {
		sig := "history:returned-document-changed-by-later-export"
		human["signature"] = sig
		human["exported_when_returned"] = string(hist.Snap)
		sum.GoViolations = append(sum.GoViolations, GoViolation{CaseID: id, What: "the document an earlier export returned was changed by a later export", Sig: sig, Human: human,
			Expected: string(hist.Snap), Observed: string(out)})
		return
	}

	// specification side in Go: a standard JSON parser must accept and give back the structure
	var dec any
	exp := t.expectJSON(built)
	expS, _ := json.Marshal(exp)
	what, obs := "", ""
	if err := json.Unmarshal(out, &dec); err != nil {
		what, obs = "encoding/json rejects the exported document: "+err.Error(), string(out)
	} else if !reflect.DeepEqual(dec, exp) {
		decS, _ := json.Marshal(dec)
		what, obs = "exported document decodes to a different structure/text", string(decS)
	}
	if what != "" {
		sig := c17Signature(t)
		// the same tree without its Format/Link wrappers: if that is exported correctly the wrappers are the cause
		if bare := stripWraps(t); hasWraps(t) && c17GoOK(bare) {
			sig = "wrappers:" + wrapSignature(t)
			what += " (the same tree without its style/link wrappers is exported correctly)"
		}
		human["signature"] = sig
		sum.GoViolations = append(sum.GoViolations, GoViolation{CaseID: id, What: what, Sig: sig, Human: human, Expected: string(expS), Observed: obs})
	}
}

func hasWraps(t *Tree) bool {
	any := false
	t.Walk(func(x *Tree) { any = any || len(x.Wrap) > 0 })
	return any
}

func stripWraps(t *Tree) *Tree {
	c := *t
	c.Wrap = nil
	c.Items = nil
	for _, it := range t.Items {
		c.Items = append(c.Items, stripWraps(it))
	}
	return &c
}

// keepOnly copies the tree keeping the wrappers of the n-th node (walk order) only
func keepOnly(t *Tree, n int) *Tree {
	i := 0
	var cp func(x *Tree) *Tree
	cp = func(x *Tree) *Tree {
		c := *x
		if i != n {
			c.Wrap = nil
		}
		i++
		c.Items = nil
		for _, it := range x.Items {
			c.Items = append(c.Items, cp(it))
		}
		return &c
	}
	return cp(t)
}

// the first wrapped node whose wrappers alone make the export wrong: kind of value and depth of its stack
func wrapSignature(t *Tree) string {
	var nodes []*Tree
	t.Walk(func(x *Tree) { nodes = append(nodes, x) })
	class := func(x *Tree) string {
		what := "scalar"
		if x.Kind == "list" || x.Kind == "map" {
			what = "container"
		}
		if len(x.Wrap) == 1 {
			return what + "-under-1-wrapper"
		}
		return what + "-under-wrapper-stack"
	}
	for i, x := range nodes {
		if len(x.Wrap) > 0 && !c17GoOK(keepOnly(t, i)) {
			return class(x)
		}
	}
	return "combination"
}

// the Go-side oracle alone, without recording anything
func c17GoOK(t *Tree) bool {
	built := t.Build()
	out, err := exportJSON(built)
	if err != nil {
		return false
	}
	var dec any
	if json.Unmarshal(out, &dec) != nil {
		return false
	}
	return reflect.DeepEqual(dec, t.expectJSON(built))
}

// runHistory exports the trees one after the other (or spread over goroutines), keeps every returned document
// as it was handed out (no copy) and checks all of them only after the last export
func c17RunHistory(seq []*Tree, concurrent int, id *int, sum *Summary, cw *CaseWriter) {
	n := len(seq)
	built := make([]value.Value, n)
	for i, t := range seq {
		built[i] = t.Build()
	}
	outs := make([][]byte, n)
	snaps := make([][]byte, n)
	errs := make([]error, n)
	one := func(i int) {
		outs[i], errs[i] = exportJSON(built[i])
		snaps[i] = append([]byte(nil), outs[i]...)
	}
	if concurrent <= 1 {
		for i := range seq {
			one(i)
		}
	} else {
		var wg sync.WaitGroup
		for g := 0; g < concurrent; g++ {
			wg.Add(1)
			go func(g int) {
				defer wg.Done()
				for i := g; i < n; i += concurrent {
					one(i)
				}
			}(g)
		}
		wg.Wait()
	}
	kind := "sequential"
	if concurrent > 1 {
		kind = "concurrent"
	}
	sum.Count("histories", fmt.Sprintf("%s:%d", kind, n))
	for i, t := range seq {
		*id++
		c17Check(t, built[i], outs[i], errs[i], &c17Hist{Seq: seq, Pos: i, Concurrent: concurrent, Snap: snaps[i]}, *id, sum, cw)
	}
}

// histories with document sizes decreasing, increasing, equal or in random order
func (r *Rng) genExportHistory(pattern int) []*Tree {
	k := 2 + r.Pick(5)
	var seq []*Tree
	if pattern == 2 {
		t := r.GenTree(1+r.Pick(4), true, 8)
		for i := 0; i < k; i++ {
			seq = append(seq, t)
		}
		return seq
	}
	for i := 0; i < k; i++ {
		t := r.GenTree(1+r.Pick(4), true, 8)
		if r.Chance(0.3) {
			r.addWraps(t, 0.2)
		}
		seq = append(seq, t)
	}
	if pattern < 2 {
		size := func(t *Tree) int { out, _ := exportJSON(t.Build()); return len(out) }
		sort.SliceStable(seq, func(i, j int) bool {
			if pattern == 0 {
				return size(seq[i]) > size(seq[j])
			}
			return size(seq[i]) < size(seq[j])
		})
	}
	return seq
}

func cmdC17(seed int64, tier, outDir string) {
	n := 420
	if tier == "thorough" {
		n = 20000
	}
	r := NewRng(seed)
	sum := NewSummary("C17", seed, tier)
	sum.Rule = "value trees (depth<=5, lists and maps in every representation the expression language builds, scalars of all kinds, strings/keys from a stratified Unicode generator incl. quote, backslash, C0 controls, U+2028/9, astral) exported through the real JSON exporter; Format/Link wrapper stacks of depth 0-4 (every order; Format with nil/string/map/closure style, Cell, ColSpan) around scalars, lists, maps, list elements and map values at every level; non-trivial = the tree contains at least one character outside printable ASCII or a quote/backslash, or a list/map under a wrapper stack of depth >= 2; distinct by exported bytes and wrapper shapes; history mode: sequences of 2-6 exports on one goroutine (sizes decreasing, increasing, equal, random) and some spread over 2-4 goroutines, every returned document kept without copying and checked only after the last export (byte-identical to what was returned, plus all checks above)"
	cw := NewCaseWriter(outDir, "From P2 Require Import Base.Prelude Exp.Json Run.C17Run.", "c17_case", "c17_id", "c17_im", "c17_is", 250)
	id := 0
	if optReplay != "" {
		var rp c17Repro
		if err := json.Unmarshal(loadReplayCase(), &rp); err == nil && len(rp.History) > 0 {
			hid := 0
			c17RunHistory(rp.History, rp.Concurrent, &hid, sum, cw)
		} else {
			var t Tree
			if err := json.Unmarshal(loadReplayCase(), &t); err != nil {
				fatal("replay case: %v", err)
			}
			c17Case(&t, 1, sum, cw)
		}
		cw.Flush()
		sum.CaseFiles = cw.files
		sum.Write(outDir)
		return
	}
	n *= optBoost
	// witnesses computed by the model when the table obligation is broken
	for _, c := range extraRunes() {
		id++
		c17Case(&Tree{Kind: "list", Repr: "eager", Items: []*Tree{{Kind: "str", S: string(c)}}}, id, sum, cw)
	}
	// corpus first: one-rune strings of every class that has ever mattered, in both sinks
	for _, c := range []rune{'\\', '"', 0, 1, 8, 9, 10, 12, 13, 0x1f, 0x7f, 0x2028, 0x2029, 0xfffd, 0x10ffff, '/'} {
		s := string(c)
		id++
		c17Case(&Tree{Kind: "list", Repr: "eager", Items: []*Tree{{Kind: "str", S: "a" + s + "b"}}}, id, sum, cw)
		id++
		c17Case(&Tree{Kind: "map", Repr: "listmap", Keys: []string{"k" + s}, Items: []*Tree{{Kind: "int", I: 1}}}, id, sum, cw)
	}
	// position sweep: a character that needs an escape (or a multi-byte rune) at EVERY offset of a long string / key, followed
	// by a hex digit; and strings that consist of such characters only. An exporter that collects its output in chunks
	// of a fixed size behaves differently near the chunk boundaries (seeded/C17-h: a 64-byte scratch array truncated the
	// six-byte \u00XX escape when 59 or 60 bytes were pending); the strings of GenTree are at most 12 runes long.
	sweepSpecials := []rune{1, 0x1f, '"', '\\', '\n', 0x7f, 0xe9, 0x2028, 0x1F600}
	sweepCase := func(off int, specials []rune) {
		t := &Tree{Kind: "list", Repr: "eager"}
		for _, c := range specials {
			t.Items = append(t.Items, &Tree{Kind: "str", S: strings.Repeat("a", off) + string(c) + "1t"})
		}
		if off <= 160 {
			t.Items = append(t.Items, &Tree{Kind: "str", S: strings.Repeat("\x01", off)},
				&Tree{Kind: "str", S: strings.Repeat("\"\x02\u00e9", off/3+1)},
				&Tree{Kind: "map", Repr: "listmap", Keys: []string{strings.Repeat("k", off) + "\x02" + "0"}, Items: []*Tree{{Kind: "str", S: strings.Repeat("b", off) + "\x03"}}})
		}
		id++
		sum.Count("family", "position sweep")
		c17Case(t, id, sum, cw)
	}
	cw.Flush()
	for off := 0; off <= 136; off++ {
		sweepCase(off, sweepSpecials)
		if off%28 == 27 {
			cw.Flush() // shards of their own: long strings are slow to read for coqc
		}
	}
	cw.Flush()
	sizes, lo := []int{256, 512, 1024}, 3
	if tier == "thorough" {
		sizes, lo = []int{256, 512, 1024, 2048, 4096, 8192}, 12
	}
	for _, size := range sizes {
		for off := size - lo; off <= size+1; off++ {
			sweepCase(off, []rune{1, '"', 0x1F600})
		}
		cw.Flush()
	}
	// wrapper stacks: every order of depth 2, deeper stacks, at the root, as list element and as map value
	lst := &Tree{Kind: "list", Repr: "eager", Items: []*Tree{{Kind: "int", I: 1}, {Kind: "int", I: 2}}}
	mp := &Tree{Kind: "map", Repr: "listmap", Keys: []string{"k"}, Items: []*Tree{{Kind: "str", S: "v"}}}
	for _, shape := range []string{"F", "L", "C", "M", "X", "FF", "FL", "LF", "LL", "CF", "FC", "LC", "XM", "FLF", "LFL", "LLL", "FFF", "CLM", "LFLF", "FFLL", "XLCM"} {
		for _, inner := range []*Tree{lst, mp, {Kind: "str", S: "a\"b"}} {
			w := wrapped(inner, shape)
			id++
			c17Case(w, id, sum, cw)
			id++
			c17Case(&Tree{Kind: "list", Repr: "lazy-map", Items: []*Tree{{Kind: "int", I: 0}, w}}, id, sum, cw)
			id++
			c17Case(&Tree{Kind: "map", Repr: "real", Keys: []string{"a", "b"}, Items: []*Tree{w, {Kind: "bool", B: true}}}, id, sum, cw)
		}
	}
	for i := 0; i < n; i++ {
		id++
		t := r.GenTree(1+r.Pick(5), r.Chance(0.85), 12)
		if i%5 != 0 {
			r.addWraps(t, []float64{0.1, 0.25, 0.5}[r.Pick(3)])
		}
		c17Case(t, id, sum, cw)
	}
	// history mode: several exports on one goroutine (and a few concurrent ones); every returned document is kept
	// and looked at only after the whole history
	strs := func(ss ...string) *Tree {
		t := &Tree{Kind: "list", Repr: "eager"}
		for _, x := range ss {
			t.Items = append(t.Items, &Tree{Kind: "str", S: x})
		}
		return t
	}
	big, small := strs("aaaaaaaa", "bbbbbbbb", "cccccccc", "dddddddd"), strs("x")
	for _, seq := range [][]*Tree{{big, small}, {small, big}, {big, big, big}, {big, small, strs("yy", "z")}, {strs("a\"b"), strs("c"), strs("")}} {
		c17RunHistory(seq, 0, &id, sum, cw)
	}
	nh := 40
	if tier == "thorough" {
		nh = 1500
	}
	nh *= optBoost
	for h := 0; h < nh; h++ {
		conc := 0
		if h%8 == 7 {
			conc = 2 + r.Pick(3)
		}
		c17RunHistory(r.genExportHistory(h%4), conc, &id, sum, cw)
	}
	cw.Flush()
	sum.CaseFiles = cw.files
	sort.Slice(sum.GoViolations, func(i, j int) bool { return len(sum.GoViolations[i].Observed) < len(sum.GoViolations[j].Observed) })
	sum.Write(outDir)
}
