package main

import (
	"encoding/json"
	"fmt"
	"github.com/hneemann/parser2/funcGen"
	"github.com/hneemann/parser2/listMap"
	"github.com/hneemann/parser2/value"
	"github.com/hneemann/parser2/value/export"
	"math"
	"sort"
	"strings"
)

// Tree is a generated value tree; Build turns it into a parser2 value in a chosen representation.
type Tree struct {
	Kind  string // int float bool str list map
	I     int
	F     float64 `json:"-"`
	FBits uint64  // F as IEEE bits, so that NaN/Inf survive JSON
	B     bool
	S     string
	Items []*Tree
	Keys  []string
	Repr  string
	Wrap  []TreeWrap `json:",omitempty"` // export.Format / export.Link wrappers around the value, outermost first
}

// TreeWrap is one style/link wrapper (value/export Format, Link) around a value of the tree
type TreeWrap struct {
	Kind    string // format | link
	Style   string // format: nil | str | map | closure
	Cell    bool
	ColSpan int
	Link    string
}

func (w TreeWrap) apply(v value.Value) value.Value {
	if w.Kind == "link" {
		return export.Link{Link: w.Link, Value: v}
	}
	f := export.Format{Value: v, Cell: w.Cell, ColSpan: w.ColSpan}
	switch w.Style {
	case "str":
		f.Format = value.String("color:red")
	case "map":
		f.Format = value.NewMap(listMap.New[value.Value](1).Append("color", value.String("red")))
	case "closure":
		f.Format = mustEval("x->x", nil)
	}
	return f
}

// unwrapBuilt removes the wrappers of t from the value Build returned
func (t *Tree) unwrapBuilt(built value.Value) value.Value {
	for _, w := range t.Wrap {
		if w.Kind == "link" {
			built = built.(export.Link).Value
		} else {
			built = built.(export.Format).Value
		}
	}
	return built
}

func (t *Tree) Build() value.Value {
	v := t.buildBare()
	for i := len(t.Wrap) - 1; i >= 0; i-- {
		v = t.Wrap[i].apply(v)
	}
	return v
}

type treeAlias Tree

func (t Tree) MarshalJSON() ([]byte, error) {
	a := treeAlias(t)
	a.FBits = math.Float64bits(t.F)
	return json.Marshal(a)
}

func (t *Tree) UnmarshalJSON(bs []byte) error {
	var a treeAlias
	if err := json.Unmarshal(bs, &a); err != nil {
		return err
	}
	*t = Tree(a)
	t.F = math.Float64frombits(a.FBits)
	return nil
}

var theFG *value.FunctionGenerator
var fnCache = map[string]funcGen.Func[value.Value]{}

func FG() *value.FunctionGenerator {
	if theFG == nil {
		theFG = value.New()
	}
	return theFG
}

func evalExpr(exp string, names []string, args ...value.Value) (value.Value, error) {
	key := exp + "\x00" + strings.Join(names, ",")
	f, ok := fnCache[key]
	if !ok {
		var err error
		f, _, err = FG().Generate(exp, names...)
		if err != nil {
			return nil, fmt.Errorf("generate %q: %w", exp, err)
		}
		fnCache[key] = f
	}
	return f.Eval(args...)
}

func mustEval(exp string, names []string, args ...value.Value) value.Value {
	v, err := evalExpr(exp, names, args...)
	if err != nil {
		fatal("evaluating %q: %v", exp, err)
	}
	return v
}

var listReprs = []string{"eager", "lazy-map", "lazy-accept", "append", "concat"}
var mapReprs = []string{"listmap", "real", "put", "merge", "replace", "eval", "map-method", "funcmap", "funcmap-absent", "tomap"}

func (t *Tree) buildBare() value.Value {
	switch t.Kind {
	case "int":
		return value.Int(t.I)
	case "float":
		return value.Float(t.F)
	case "bool":
		return value.Bool(t.B)
	case "str":
		return value.String(t.S)
	case "list":
		items := make([]value.Value, len(t.Items))
		for i, it := range t.Items {
			items[i] = it.Build()
		}
		base := value.NewList(items...)
		switch t.Repr {
		case "lazy-map":
			return mustEval("l.map(e->e)", []string{"l"}, base)
		case "lazy-accept":
			return mustEval("l.accept(e->true)", []string{"l"}, base)
		case "append":
			if len(items) == 0 {
				return base
			}
			return mustEval("l.append(x)", []string{"l", "x"}, value.NewList(items[:len(items)-1]...), items[len(items)-1])
		case "concat":
			k := len(items) / 2
			return mustEval("a+b", []string{"a", "b"}, value.NewList(items[:k]...), value.NewList(items[k:]...))
		}
		return base
	case "map":
		vals := make([]value.Value, len(t.Items))
		for i, it := range t.Items {
			vals[i] = it.Build()
		}
		mk := func(lo, hi int) value.Map {
			lm := listMap.New[value.Value](hi - lo)
			for i := lo; i < hi; i++ {
				lm = lm.Append(t.Keys[i], vals[i])
			}
			return value.NewMap(lm)
		}
		n := len(t.Keys)
		switch t.Repr {
		case "real":
			rm := value.RealMap{}
			for i, k := range t.Keys {
				rm[k] = vals[i]
			}
			return value.NewMap(rm)
		case "put":
			if n == 0 {
				return mk(0, 0)
			}
			return mustEval("m.put(k,v)", []string{"m", "k", "v"}, mk(0, n-1), value.String(t.Keys[n-1]), vals[n-1])
		case "merge":
			return mustEval("a+b", []string{"a", "b"}, mk(0, n/2), mk(n/2, n))
		case "replace":
			if n == 0 {
				return mk(0, 0)
			}
			// original holds a dummy for the last key, the replacement map the real value
			lm := listMap.New[value.Value](n)
			for i := 0; i < n; i++ {
				if i == n-1 {
					lm = lm.Append(t.Keys[i], value.String("dummy"))
				} else {
					lm = lm.Append(t.Keys[i], vals[i])
				}
			}
			return mustEval("m.replace(o->r)", []string{"m", "r"}, value.NewMap(lm), mk(n-1, n))
		case "eval":
			return mustEval("(a+b).eval()", []string{"a", "b"}, mk(0, n/2), mk(n/2, n))
		case "map-method":
			return mustEval("m.map((k,v)->v)", []string{"m"}, mk(0, n))
		case "funcmap", "funcmap-absent":
			// a function-backed map; "-absent" declares extra keys the function declines
			table := map[string]value.Value{}
			keys := append([]string{}, t.Keys...)
			for i, k := range t.Keys {
				table[k] = vals[i]
			}
			if t.Repr == "funcmap-absent" {
				keys = append([]string{"\x00absent1"}, keys...)
				keys = append(keys, "\x00absent2")
			}
			fac := value.NewFuncMapFactory(func(tb value.Map, key string) (value.Value, bool) {
				v, ok := table[key]
				return v, ok
			}, keys...)
			return fac.Create(value.EmptyMap)
		case "tomap":
			tm := value.NewToMap[int]()
			for i, k := range t.Keys {
				v := vals[i]
				tm.Attr(k, func(int) value.Value { return v })
			}
			m, err := tm.Create(0)
			if err != nil {
				fatal("NewToMap: %v", err)
			}
			return m
		}
		return mk(0, n)
	}
	panic("bad tree kind " + t.Kind)
}

// scalar string form exactly as the exporters obtain it
func scalarString(v value.Value) string {
	s, err := v.ToString(funcGen.NewEmptyStack[value.Value]())
	if err != nil {
		fatal("ToString: %v", err)
	}
	return s
}

// Coq term of type Exp.Json.xv; map entries in the iteration order of the built value
func (t *Tree) CoqXV(built value.Value) string {
	if len(t.Wrap) > 0 {
		bare := *t
		bare.Wrap = nil
		term := bare.CoqXV(t.unwrapBuilt(built))
		for i := len(t.Wrap) - 1; i >= 0; i-- {
			term = "XW " + CoqBool(t.Wrap[i].Kind != "link") + " (" + term + ")"
		}
		return term
	}
	switch t.Kind {
	case "list":
		l := built.(*value.List)
		sl, err := l.ToSlice(funcGen.NewEmptyStack[value.Value]())
		if err != nil {
			fatal("ToSlice: %v", err)
		}
		parts := make([]string, len(t.Items))
		for i, it := range t.Items {
			parts[i] = it.CoqXV(sl[i])
		}
		return "XL " + CoqList(parts)
	case "map":
		m := built.(value.Map)
		idx := map[string]int{}
		for i, k := range t.Keys {
			idx[k] = i
		}
		var parts []string
		m.Iter(func(k string, v value.Value) bool {
			parts = append(parts, "("+CoqStr(k)+", "+t.Items[idx[k]].CoqXV(v)+")")
			return true
		})
		return "XM " + CoqList(parts)
	}
	return "XS " + CoqStr(scalarString(built))
}

func (t *Tree) Human() any {
	if len(t.Wrap) > 0 {
		bare := *t
		bare.Wrap = nil
		ws := make([]string, len(t.Wrap))
		for i, w := range t.Wrap {
			ws[i] = w.Kind
			if w.Kind == "format" {
				ws[i] = fmt.Sprintf("format(%s,cell=%v,colspan=%d)", w.Style, w.Cell, w.ColSpan)
			}
		}
		return map[string]any{"#wrap": ws, "value": bare.Human()}
	}
	switch t.Kind {
	case "int":
		return t.I
	case "float":
		if math.IsNaN(t.F) || math.IsInf(t.F, 0) {
			return fmt.Sprint(t.F)
		}
		return t.F
	case "bool":
		return t.B
	case "str":
		return fmt.Sprintf("%q", t.S)
	case "list":
		xs := []any{t.Repr}
		for _, it := range t.Items {
			xs = append(xs, it.Human())
		}
		return xs
	}
	m := map[string]any{"#repr": t.Repr}
	for i, k := range t.Keys {
		m[fmt.Sprintf("%q", k)] = t.Items[i].Human()
	}
	return m
}

func (t *Tree) Depth() int {
	d := 0
	for _, it := range t.Items {
		if x := it.Depth(); x > d {
			d = x
		}
	}
	return d + 1
}

func (t *Tree) Walk(f func(*Tree)) {
	f(t)
	for _, it := range t.Items {
		it.Walk(f)
	}
}

var floatPool = []float64{0, 1.5, -2.25, 1e21, 1e-7, 3.141592653589793, math.Inf(1), math.Inf(-1), 0.1, 123456789.125}
var intPool = []int{0, 1, -1, 7, 63, 64, 1 << 31, 1<<53 - 1, 1 << 53, math.MinInt64, math.MaxInt64}

// GenTree generates a value tree; container=true forces a list or map at the root
func (r *Rng) GenTree(depth int, container bool, maxStr int) *Tree {
	k := r.Pick(10)
	if depth <= 1 && !container {
		k = r.Pick(6)
	}
	if container && k < 6 {
		k = 6 + r.Pick(4)
	}
	switch {
	case k == 0:
		if r.Chance(0.5) {
			return &Tree{Kind: "int", I: intPool[r.Pick(len(intPool))]}
		}
		return &Tree{Kind: "int", I: r.Pick(2001) - 1000}
	case k == 1:
		return &Tree{Kind: "float", F: floatPool[r.Pick(len(floatPool))]}
	case k == 2:
		return &Tree{Kind: "bool", B: r.Chance(0.5)}
	case k <= 5:
		return &Tree{Kind: "str", S: r.validStr(maxStr)}
	case k <= 7:
		n := r.Pick(5)
		t := &Tree{Kind: "list", Repr: listReprs[r.Pick(len(listReprs))]}
		for i := 0; i < n; i++ {
			t.Items = append(t.Items, r.GenTree(depth-1, false, maxStr))
		}
		return t
	default:
		n := r.Pick(5)
		t := &Tree{Kind: "map", Repr: mapReprs[r.Pick(len(mapReprs))]}
		seen := map[string]bool{}
		for i := 0; i < n; i++ {
			key := r.validStr(6)
			if r.Chance(0.3) {
				key = []string{"a", "b", "", "key", "a b", "x=\"1\"", "<k>", "ä"}[r.Pick(8)]
			}
			if seen[key] {
				continue
			}
			seen[key] = true
			t.Keys = append(t.Keys, key)
			t.Items = append(t.Items, r.GenTree(depth-1, false, maxStr))
		}
		return t
	}
}

// strings for values: valid UTF-8 without NUL restrictions (NUL allowed)
func (r *Rng) validStr(maxLen int) string { return r.Str(maxLen) }

func sortedCopy(xs []string) []string {
	ys := append([]string(nil), xs...)
	sort.Strings(ys)
	return ys
}
