package main

// Stratified Unicode string generator (Appendix B of DESIGN.md).

var specialRunes = []rune{'"', '\\', '/', '\'', '<', '>', '&', '=', ' ', '\t', '\n', '\r',
	0x01, 0x08, 0x0c, 0x1f, 0x7f, 0x80, 0x9f, 0xa0, 0x2028, 0x2029, 0xd7ff, 0xe000, 0xfffd, 0xfffe, 0xffff,
	0x10000, 0x1f600, 0x10ffff, '•', '×', '÷', '–', 'ˆ', ']', '[', '{', '}', ':', ',', 'u', 'n', '*', '-'}

func (r *Rng) Rune(allowNul bool) rune {
	for {
		var c rune
		switch r.Pick(10) {
		case 0, 1, 2:
			c = rune(32 + r.Pick(95)) // printable ASCII
		case 3:
			c = rune(r.Pick(32)) // C0 controls
		case 4:
			c = specialRunes[r.Pick(len(specialRunes))]
		case 5:
			c = rune(0x80 + r.Pick(0x180)) // Latin-1 / Latin extended
		case 6:
			c = rune(0x100 + r.Pick(0xd700)) // BMP below surrogates
		case 7:
			c = rune(0xe000 + r.Pick(0x2000)) // BMP above surrogates
		case 8:
			c = rune(0x10000 + r.Pick(0x100000)) // astral
		default:
			c = specialRunes[r.Pick(len(specialRunes))]
		}
		if c == 0 && !allowNul {
			continue
		}
		if c >= 0xd800 && c <= 0xdfff {
			continue
		}
		return c
	}
}

func (r *Rng) Str(maxLen int) string {
	n := 0
	switch r.Pick(6) {
	case 0:
		n = 0
	case 1:
		n = 1
	default:
		n = r.Pick(maxLen + 1)
	}
	rs := make([]rune, n)
	for i := range rs {
		rs[i] = r.Rune(true)
	}
	return string(rs)
}

func runeClass(c rune) string {
	switch {
	case c == '"':
		return "quote"
	case c == '\\':
		return "backslash"
	case c < 0x20:
		return "C0-control"
	case c == 0x7f || (c >= 0x80 && c <= 0x9f):
		return "DEL/C1"
	case c < 0x80:
		return "ascii"
	case c == 0x2028 || c == 0x2029:
		return "U+2028/9"
	case c < 0x10000:
		return "bmp"
	}
	return "astral"
}
