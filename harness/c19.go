package main

// C19 - the generic generator funcGen.New[V] is correct for any value type (bounded-exhaustive).
//
// The two example configurations (example/bool.go, example/minimal.go; read through verif hooks) are copied
// with the keywords let/if/then/else added, once with the optimizer and once with SetOptimizer(nil), and
// for the bool table once per setting of the commutative flags (all 16 are sound for ^ = | &).
// Enumerated tiers: EVERY expression with up to n operator nodes over a fixed alphabet, by an unranking
// function that exists twice - here and in coq/Run/C19Run.v - so that a block of the enumeration travels as
// (size, first index, observed results) and Coq recomputes the expressions, renders them itself
// (Syn/Render.v pp / flatten), runs the model of parser + optimizer + generator on its own tokens (c19_im)
// and the specification [denote] (c19_is).  Explicit cases (let/if forms, sampled larger expressions, the
// float extras, the corpus) carry the tokens of the REAL tokenizer and the source tree.
// Go-side oracle, independent of Coq: a direct evaluation of the source tree (bool: Go's own operators;
// float: exact rational arithmetic with a representability check at every node, so only inputs on which
// all arithmetic is exact are compared), optimizer on = optimizer off, all flag settings agree.

import (
	"encoding/json"
	"fmt"
	"math"
	"math/big"
	"os"
	"path/filepath"
	"regexp"
	"runtime"
	"runtime/debug"
	"sort"
	"strings"
	"sync"
	"time"

	"github.com/hneemann/parser2/example"
	"github.com/hneemann/parser2/funcGen"
)

func init() {
	register("c19", cmdC19)
	registerTables(c19Tables)
}

var c19Keywords = []string{"let", "if", "then", "else"}

// ---------------------------------------------------------------- tables

func c19CoqFl(f float64) string {
	switch {
	case math.IsNaN(f):
		return "FNaN"
	case math.IsInf(f, 1):
		return "(FInf false)"
	case math.IsInf(f, -1):
		return "(FInf true)"
	case f == 0 && math.Signbit(f):
		return "FNegZero"
	case f == 0:
		return "(FFin 0 0)"
	}
	bits := math.Float64bits(f)
	neg := bits>>63 == 1
	exp := int((bits >> 52) & 0x7ff)
	man := bits & (1<<52 - 1)
	e := exp - 1075
	if exp == 0 {
		e = -1074
	} else {
		man |= 1 << 52
	}
	for man&1 == 0 {
		man >>= 1
		e++
	}
	m := fmt.Sprint(man)
	if neg {
		m = "(-" + m + ")"
	}
	es := fmt.Sprint(e)
	if e < 0 {
		es = "(" + es + ")"
	}
	return "(FFin " + m + " " + es + ")"
}

// mantissa and exponent as Coq integers (see the coding in floatExpr)
func c19FlME(f float64) (string, string) {
	switch {
	case math.IsNaN(f):
		return "0", "100002"
	case math.IsInf(f, 1):
		return "1", "100001"
	case math.IsInf(f, -1):
		return "-1", "100001"
	case f == 0 && math.Signbit(f):
		return "0", "1"
	case f == 0:
		return "0", "0"
	}
	bits := math.Float64bits(f)
	exp := int((bits >> 52) & 0x7ff)
	man := bits & (1<<52 - 1)
	e := exp - 1075
	if exp == 0 {
		e = -1074
	} else {
		man |= 1 << 52
	}
	for man&1 == 0 {
		man >>= 1
		e++
	}
	m := fmt.Sprint(man)
	if bits>>63 == 1 {
		m = "-" + m
	}
	return m, fmt.Sprint(e)
}

func c19CoqOptBool(v bool, err error) string {
	if err != nil {
		return "None"
	}
	return "(Some " + CoqBool(v) + ")"
}

func c19CoqOptFl(v float64, err error) string {
	if err != nil {
		return "None"
	}
	return "(Some " + c19CoqFl(v) + ")"
}

var c19ConstRe = regexp.MustCompile(`AddConstant\("([^"]+)"`)

// names given to AddConstant in a source file of the example package (the values come from the real generator)
func c19ConstNames(file string) []string {
	repo := os.Getenv("VERIF_REPO_DIR")
	if repo == "" {
		repo = c19RepoDir()
	}
	bs, err := os.ReadFile(filepath.Join(repo, "example", file))
	if err != nil {
		fatal("c19: cannot read example/%s: %v", file, err)
	}
	var names []string
	for _, m := range c19ConstRe.FindAllStringSubmatch(string(bs), -1) {
		names = append(names, m[1])
	}
	return names
}

// the repository the harness is linked against: directory of the example package as recorded by the compiler
func c19RepoDir() string {
	_, file, _, _ := runtime.Caller(0)
	// harness/c19.go -> verif root
	root := filepath.Dir(filepath.Dir(file))
	if bs, err := os.ReadFile(filepath.Join(root, ".verif_repo")); err == nil {
		return strings.TrimSpace(string(bs))
	}
	if r := os.Getenv("VERIF_REPO"); r != "" {
		return r
	}
	return "/repo"
}

var c19FloatSamples = []float64{0, 1, -1, 2, 3, -3, 0.5, -1.5, 4, 0.25, 10, math.Copysign(0, -1)}

func c19Tables(outDir string) {
	var b strings.Builder
	b.WriteString("(* GENERATED from /repo on every run by `p2h tables` - do not edit. *)\nFrom P2 Require Import Base.Prelude Sem.Num.\nLocal Open Scope N_scope.\n\n")
	b.WriteString("(* example/bool.go through the hook example.VerifBoolParser: operators in priority order (lowest first) with\n   IsPure, IsCommutative and the table of Impl.Calc on (false,false) (false,true) (true,false) (true,true); None = error *)\n")
	bg := example.VerifBoolParser()
	bools := []bool{false, true}
	b.WriteString("Definition ex_bool_ops : list (str * bool * bool * list (option bool)) := [")
	for i, op := range bg.VerifGenericOperators() {
		if i > 0 {
			b.WriteString(";")
		}
		var tbl []string
		for _, x := range bools {
			for _, y := range bools {
				v, err := op.Impl.Calc(funcGen.NewEmptyStack[bool](), x, y)
				tbl = append(tbl, c19CoqOptBool(v, err))
			}
		}
		fmt.Fprintf(&b, "\n  (%s, %s, %s, %s)", CoqStr(op.Operator), CoqBool(op.IsPure), CoqBool(op.IsCommutative), CoqList(tbl))
	}
	b.WriteString("].\n")
	b.WriteString("Definition ex_bool_unary : list (str * list (option bool)) := [")
	for i, u := range bg.VerifUnary() {
		if i > 0 {
			b.WriteString(";")
		}
		var tbl []string
		for _, x := range bools {
			v, err := u.Impl.Calc(x)
			tbl = append(tbl, c19CoqOptBool(v, err))
		}
		fmt.Fprintf(&b, "\n  (%s, %s)", CoqStr(u.Operator), CoqList(tbl))
	}
	b.WriteString("].\n")
	b.WriteString("Definition ex_bool_consts : list (str * bool) := [")
	n := 0
	for _, name := range c19ConstNames("bool.go") {
		if id, ok := bg.Identifier()(name); ok && id.IsConst && !id.IsFunc {
			if n > 0 {
				b.WriteString("; ")
			}
			n++
			fmt.Fprintf(&b, "(%s, %s)", CoqStr(name), CoqBool(id.Const))
		}
	}
	b.WriteString("].\n")
	c19WriteCommon(&b, "ex_bool", bg.VerifStaticArities(), func(name string) bool { f, _ := bg.VerifStatic(name); return f.IsPure })
	comfort, kws, handlers := bg.VerifConfig()
	c19WriteConfig(&b, "ex_bool", comfort, kws, handlers)
	// ToBool on false, true: Some b / None (not a bool)
	b.WriteString("Definition ex_bool_tobool_tbl : list (option bool) := [")
	if handlers["toBool"] {
		g := bg.VerifClone().SetKeyWords(c19Keywords...)
		for i, x := range bools {
			if i > 0 {
				b.WriteString("; ")
			}
			// observed through the generated code of an if: the ToBool function itself is unexported
			f, _, err := g.Generate("if x then true else false", "x")
			if err != nil {
				fatal("c19 tables: %v", err)
			}
			v, err := f.Eval(x)
			b.WriteString(c19CoqOptBool(v, err))
		}
	}
	b.WriteString("].\n\n")

	b.WriteString("(* example/minimal.go through the hook example.VerifMinimal: operators with IsPure, IsCommutative *)\n")
	fg := example.VerifMinimal()
	b.WriteString("Definition ex_float_ops : list (str * bool * bool) := [")
	for i, op := range fg.VerifGenericOperators() {
		if i > 0 {
			b.WriteString("; ")
		}
		fmt.Fprintf(&b, "(%s, %s, %s)", CoqStr(op.Operator), CoqBool(op.IsPure), CoqBool(op.IsCommutative))
	}
	b.WriteString("].\n")
	b.WriteString("Definition ex_float_unary : list str := [")
	for i, u := range fg.VerifUnary() {
		if i > 0 {
			b.WriteString("; ")
		}
		b.WriteString(CoqStr(u.Operator))
	}
	b.WriteString("].\n")
	b.WriteString("Definition ex_float_consts : list (str * fl) := [")
	n = 0
	for _, name := range c19ConstNames("minimal.go") {
		if id, ok := fg.Identifier()(name); ok && id.IsConst && !id.IsFunc {
			if n > 0 {
				b.WriteString("; ")
			}
			n++
			fmt.Fprintf(&b, "(%s, %s)", CoqStr(name), c19CoqFl(id.Const))
		}
	}
	b.WriteString("].\n")
	c19WriteCommon(&b, "ex_float", fg.VerifStaticArities(), func(name string) bool { f, _ := fg.VerifStatic(name); return f.IsPure })
	comfort, kws, handlers = fg.VerifConfig()
	c19WriteConfig(&b, "ex_float", comfort, kws, handlers)
	// samples of the real operator implementations: (operator, a, b, result); the model must agree wherever it is defined
	b.WriteString("Definition ex_float_op_samples : list (str * fl * fl * option fl) := [")
	n = 0
	for _, op := range fg.VerifGenericOperators() {
		for _, x := range c19FloatSamples {
			for _, y := range c19FloatSamples {
				v, err := op.Impl.Calc(funcGen.NewEmptyStack[float64](), x, y)
				if n > 0 {
					b.WriteString(";")
				}
				n++
				fmt.Fprintf(&b, "\n  (%s, %s, %s, %s)", CoqStr(op.Operator), c19CoqFl(x), c19CoqFl(y), c19CoqOptFl(v, err))
			}
		}
	}
	b.WriteString("].\n")
	b.WriteString("Definition ex_float_un_samples : list (str * fl * option fl) := [")
	n = 0
	for _, u := range fg.VerifUnary() {
		for _, x := range c19FloatSamples {
			v, err := u.Impl.Calc(x)
			if n > 0 {
				b.WriteString(";")
			}
			n++
			fmt.Fprintf(&b, "\n  (%s, %s, %s)", CoqStr(u.Operator), c19CoqFl(x), c19CoqOptFl(v, err))
		}
	}
	b.WriteString("].\n")
	// ToBool observed through an if
	b.WriteString("Definition ex_float_tobool_samples : list (fl * option bool) := [")
	if handlers["toBool"] {
		g := fg.VerifClone().SetKeyWords(c19Keywords...)
		f, _, err := g.Generate("if x then 1 else 0", "x")
		if err != nil {
			fatal("c19 tables: %v", err)
		}
		for i, x := range append(append([]float64{}, c19FloatSamples...), math.Inf(1), math.NaN()) {
			if i > 0 {
				b.WriteString("; ")
			}
			v, err := f.Eval(x)
			fmt.Fprintf(&b, "(%s, %s)", c19CoqFl(x), c19CoqOptBool(v == 1, err))
		}
	}
	b.WriteString("].\n")
	// the binary position the real parser stores for every prefix operator (Parser.Parse, unaryEntry.opPos; -1 = none):
	// the two examples and the prefix-operator variants of the float table the run uses
	b.WriteString("Definition ex_prefix_tables : list (list str * list (str * Z)) := [")
	row := func(first bool, ops []string, pos map[string]int) {
		if !first {
			b.WriteString(";")
		}
		var os, us []string
		for _, o := range ops {
			os = append(os, CoqStr(o))
		}
		for _, u := range sortedKeys(pos) {
			us = append(us, fmt.Sprintf("(%s, (%d)%%Z)", CoqStr(u), pos[u]))
		}
		fmt.Fprintf(&b, "\n  (%s, %s)", CoqList(os), CoqList(us))
	}
	opNames := func(ops []funcGen.Operator[float64]) []string {
		var r []string
		for _, o := range ops {
			r = append(r, o.Operator)
		}
		return r
	}
	var bops []string
	for _, o := range bg.VerifGenericOperators() {
		bops = append(bops, o.Operator)
	}
	row(true, bops, bg.VerifClone().GetParser().VerifUnaryOpPos())
	row(false, opNames(fg.VerifGenericOperators()), fg.VerifClone().GetParser().VerifUnaryOpPos())
	for _, spec := range c19Variants {
		g := c19VariantGen(spec, false)
		row(false, opNames(g.VerifGenericOperators()), g.GetParser().VerifUnaryOpPos())
	}
	b.WriteString("].\n")
	// the static functions of the table variants (harness c19AddFunctions on a copy of the float example): name,
	// Args (-1 = variadic), IsPure as registered through AddGoFunction / AddStaticFunction / AddSimpleFunction
	vg := c19VariantGen(c19Variants[0], false)
	c19WriteCommon(&b, "ex_var", vg.VerifStaticArities(), func(name string) bool { f, _ := vg.VerifStatic(name); return f.IsPure })
	writeIfChanged(filepath.Join(outDir, "ExampleCfg.v"), b.String())
}

func c19WriteCommon(b *strings.Builder, prefix string, arities map[string]int, pure func(string) bool) {
	fmt.Fprintf(b, "Definition %s_funcs : list (str * Z * bool) := [", prefix)
	for i, name := range sortedKeys(arities) {
		if i > 0 {
			b.WriteString("; ")
		}
		a := fmt.Sprint(arities[name])
		if arities[name] < 0 {
			a = "(" + a + ")"
		}
		fmt.Fprintf(b, "(%s, %s%%Z, %s)", CoqStr(name), a, CoqBool(pure(name)))
	}
	b.WriteString("].\n")
}

func c19WriteConfig(b *strings.Builder, prefix string, comfort bool, kws []string, handlers map[string]bool) {
	fmt.Fprintf(b, "Definition %s_comfort : bool := %s.\n", prefix, CoqBool(comfort))
	var ks []string
	for _, k := range kws {
		ks = append(ks, CoqStr(k))
	}
	fmt.Fprintf(b, "Definition %s_keywords : list str := %s.\n", prefix, CoqList(ks))
	fmt.Fprintf(b, "Definition %s_has_tobool : bool := %s.\n", prefix, CoqBool(handlers["toBool"]))
	fmt.Fprintf(b, "Definition %s_has_number : bool := %s.\n", prefix, CoqBool(handlers["number"]))
	// optional handlers that must be absent for the fragment the model covers
	var present []string
	for _, h := range []string{"list", "map", "closure", "custom", "string", "isEqual"} {
		if handlers[h] {
			present = append(present, CoqStr(h))
		}
	}
	fmt.Fprintf(b, "Definition %s_other_handlers : list str := %s.\n", prefix, CoqList(present))
}

// ---------------------------------------------------------------- source expressions

type c19E struct {
	K    string  `json:"k"`              // num name un bin call let if
	S    string  `json:"s,omitempty"`    // image / name / operator / function / bound name
	Kids []*c19E `json:"kids,omitempty"` // un: [e]; bin: [a,b]; call: args; let: [v,i]; if: [c,t,e]
}

func c19Num(s string) *c19E      { return &c19E{K: "num", S: s} }
func c19Name(s string) *c19E     { return &c19E{K: "name", S: s} }
func c19Un(op string, e *c19E) *c19E { return &c19E{K: "un", S: op, Kids: []*c19E{e}} }
func c19Bin(op string, a, b *c19E) *c19E {
	return &c19E{K: "bin", S: op, Kids: []*c19E{a, b}}
}
func c19Call(f string, args ...*c19E) *c19E { return &c19E{K: "call", S: f, Kids: args} }
func c19Let(x string, v, i *c19E) *c19E     { return &c19E{K: "let", S: x, Kids: []*c19E{v, i}} }
func c19If(c, t, e *c19E) *c19E             { return &c19E{K: "if", Kids: []*c19E{c, t, e}} }

func (e *c19E) coq() string {
	switch e.K {
	case "num":
		return "(SNum " + CoqStr(e.S) + ")"
	case "name":
		return "(SName " + CoqStr(e.S) + ")"
	case "un":
		return "(SUn " + CoqStr(e.S) + " " + e.Kids[0].coq() + ")"
	case "bin":
		return "(SBin " + CoqStr(e.S) + " " + e.Kids[0].coq() + " " + e.Kids[1].coq() + ")"
	case "call":
		var as []string
		for _, a := range e.Kids {
			as = append(as, a.coq())
		}
		return "(SCall " + CoqStr(e.S) + " " + CoqList(as) + ")"
	case "let":
		return "(SLet " + CoqStr(e.S) + " " + e.Kids[0].coq() + " " + e.Kids[1].coq() + ")"
	case "if":
		return "(SIf " + e.Kids[0].coq() + " " + e.Kids[1].coq() + " " + e.Kids[2].coq() + ")"
	}
	panic("c19: bad node " + e.K)
}

func (e *c19E) nodes() int {
	n := 0
	if e.K != "num" && e.K != "name" {
		n = 1
	}
	for _, k := range e.Kids {
		n += k.nodes()
	}
	return n
}

func (e *c19E) walk(f func(*c19E)) {
	f(e)
	for _, k := range e.Kids {
		k.walk(f)
	}
}

// ---------------------------------------------------------------- an instance: table + renderer + oracle

type c19Inst struct {
	Name  string
	Ops   []string // binary operators, lowest priority first
	Unary []string
	Args  []string
}

func (t *c19Inst) level(op string) int {
	for i, o := range t.Ops {
		if o == op {
			return i
		}
	}
	return -1
}

// level of a rendered node as Syn/Render.v lvl: binary j, prefix n, everything else n+1
func (t *c19Inst) lvl(e *c19E, paren bool) int {
	n := len(t.Ops)
	if paren {
		return n + 1
	}
	switch e.K {
	case "bin":
		return t.level(e.S)
	case "un":
		return n
	case "let", "if":
		return -1 // never without parentheses as an operand (if: the else branch would swallow what follows)
	}
	return n + 1
}

type c19R struct {
	text  string
	lvl   int // level of the rendering
	ab    int // follow bound (Syn/Render.v ab)
	atomy bool
}

func c19Wordy(s string) bool {
	for _, c := range s {
		if !(c == '_' || c >= '0' && c <= '9' || c >= 'a' && c <= 'z' || c >= 'A' && c <= 'Z') {
			return false
		}
	}
	return true
}

// text of e; full = parentheses around every non-atomic operand
func (t *c19Inst) render(e *c19E, full bool) c19R {
	n := len(t.Ops)
	par := func(r c19R) c19R { return c19R{text: "(" + r.text + ")", lvl: n + 1, ab: n} }
	need := func(ok bool, r c19R) c19R {
		if ok && !(full && r.lvl <= n) {
			return r
		}
		return par(r)
	}
	switch e.K {
	case "num", "name":
		return c19R{text: e.S, lvl: n + 1, ab: n}
	case "bin":
		j := t.level(e.S)
		l := t.render(e.Kids[0], full)
		r := t.render(e.Kids[1], full)
		l = need(l.lvl >= j && j < l.ab, l)
		r = need(r.lvl >= j+1, r)
		return c19R{text: l.text + " " + e.S + " " + r.text, lvl: j, ab: r.ab}
	case "un":
		x := t.render(e.Kids[0], full)
		p := t.level(e.S)
		ab := n
		if p >= 0 {
			x = need(x.lvl >= p+1, x)
			ab = p + 1
			if x.ab < ab {
				ab = x.ab
			}
		} else {
			x = need(x.lvl == n+1, x)
		}
		sep := ""
		if len(x.text) > 0 && !c19Wordy(x.text[:1]) && x.text[0] != '(' {
			sep = " " // stacked prefix operators are written apart (- -a), so that no longer operator is read
		}
		return c19R{text: e.S + sep + x.text, lvl: n, ab: ab}
	case "call":
		var as []string
		for _, a := range e.Kids {
			as = append(as, t.render(a, full).text)
		}
		return c19R{text: e.S + "(" + strings.Join(as, ", ") + ")", lvl: n + 1, ab: n}
	case "let":
		v := t.render(e.Kids[0], full)
		i := t.render(e.Kids[1], full)
		return c19R{text: "let " + e.S + " = " + v.text + "; " + i.text, lvl: -1, ab: -1}
	case "if":
		c := t.render(e.Kids[0], full)
		th := t.render(e.Kids[1], full)
		el := t.render(e.Kids[2], full)
		return c19R{text: "if " + c.text + " then " + th.text + " else " + el.text, lvl: -1, ab: -1}
	}
	panic("c19 render")
}

// ---------------------------------------------------------------- enumeration (mirrored in coq/Run/C19Run.v)

type c19Alpha struct {
	Leaves []*c19E
	Unary  []func(*c19E) *c19E
	Bin    []string
	Bin2   []func(a, b *c19E) *c19E // further two-operand forms (calls with two arguments), after Bin
	counts []uint64
}

func (a *c19Alpha) count(n int) uint64 {
	for len(a.counts) <= n {
		k := len(a.counts)
		if k == 0 {
			a.counts = append(a.counts, uint64(len(a.Leaves)))
			continue
		}
		c := uint64(len(a.Unary)) * a.counts[k-1]
		for l := 0; l < k; l++ {
			c += uint64(len(a.Bin)+len(a.Bin2)) * a.counts[l] * a.counts[k-1-l]
		}
		a.counts = append(a.counts, c)
	}
	return a.counts[n]
}

// the i-th expression with exactly n operator nodes
func (a *c19Alpha) unrank(n int, i uint64) *c19E {
	if n == 0 {
		return a.Leaves[i]
	}
	cu := a.count(n - 1)
	if i < uint64(len(a.Unary))*cu {
		return a.Unary[i/cu](a.unrank(n-1, i%cu))
	}
	i -= uint64(len(a.Unary)) * cu
	for l := 0; l < n; l++ {
		cl, cr := a.count(l), a.count(n-1-l)
		blk := uint64(len(a.Bin)+len(a.Bin2)) * cl * cr
		if i < blk {
			k := int(i / (cl * cr))
			rest := i % (cl * cr)
			x, y := a.unrank(l, rest/cr), a.unrank(n-1-l, rest%cr)
			if k < len(a.Bin) {
				return c19Bin(a.Bin[k], x, y)
			}
			return a.Bin2[k-len(a.Bin)](x, y)
		}
		i -= blk
	}
	panic("c19 unrank: index out of range")
}

// ---------------------------------------------------------------- the implementation under test

type c19Gens[V any] struct {
	on  []*funcGen.FunctionGenerator[V] // per flag setting, optimizer on
	off *funcGen.FunctionGenerator[V]   // SetOptimizer(nil) before first use
}

type c19Obs[V any] struct {
	genErr bool
	vals   []V
	errs   []bool
}

func c19Run[V any](g *funcGen.FunctionGenerator[V], text string, args []string, assigns [][]V) (o c19Obs[V]) {
	defer func() {
		if r := recover(); r != nil {
			o = c19Obs[V]{genErr: true}
		}
	}()
	f, _, err := g.Generate(text, args...)
	if err != nil {
		return c19Obs[V]{genErr: true}
	}
	o.vals = make([]V, len(assigns))
	o.errs = make([]bool, len(assigns))
	for i, as := range assigns {
		v, err := f.Eval(as...)
		o.vals[i] = v
		o.errs[i] = err != nil
	}
	return o
}

// ---------------------------------------------------------------- bool instance

var c19BoolAssigns = func() [][]bool {
	var r [][]bool
	for i := 0; i < 8; i++ {
		r = append(r, []bool{i&4 != 0, i&2 != 0, i&1 != 0})
	}
	return r
}()

type c19Bool struct {
	inst   c19Inst
	gens   c19Gens[bool]
	flags  [][]bool // flag settings, index 0 = the table as it is in the repository
	alpha  c19Alpha
	consts map[string]bool
	impl   map[string]funcGen.OperatorImpl[bool]
	uimpl  map[string]funcGen.UnaryOperatorImpl[bool]
}

func c19NewBool() *c19Bool {
	base := example.VerifBoolParser()
	b := &c19Bool{consts: map[string]bool{}, impl: map[string]funcGen.OperatorImpl[bool]{}, uimpl: map[string]funcGen.UnaryOperatorImpl[bool]{}}
	b.inst = c19Inst{Name: "bool", Args: []string{"a", "b", "c"}}
	var orig []bool
	for _, op := range base.VerifGenericOperators() {
		b.inst.Ops = append(b.inst.Ops, op.Operator)
		b.impl[op.Operator] = op.Impl
		orig = append(orig, op.IsCommutative)
	}
	for _, u := range base.VerifUnary() {
		b.inst.Unary = append(b.inst.Unary, u.Operator)
		b.uimpl[u.Operator] = u.Impl
	}
	for _, name := range c19ConstNames("bool.go") {
		if id, ok := base.Identifier()(name); ok && id.IsConst && !id.IsFunc {
			b.consts[name] = id.Const
		}
	}
	// flag settings: the repository's first, then every other combination
	nops := len(b.inst.Ops)
	b.flags = append(b.flags, orig)
	for m := 0; m < 1<<nops; m++ {
		fl := make([]bool, nops)
		same := true
		for i := range fl {
			fl[i] = m&(1<<i) != 0
			same = same && fl[i] == orig[i]
		}
		if !same {
			b.flags = append(b.flags, fl)
		}
	}
	for _, fl := range b.flags {
		g := base.VerifClone().SetKeyWords(c19Keywords...)
		for i, op := range b.inst.Ops {
			g.VerifSetCommutative(op, fl[i])
		}
		b.gens.on = append(b.gens.on, g)
	}
	b.gens.off = base.VerifClone().SetKeyWords(c19Keywords...).SetOptimizer(nil)
	b.alpha = c19Alpha{Bin: b.inst.Ops}
	for _, l := range []string{"a", "b", "c", "true", "false"} {
		b.alpha.Leaves = append(b.alpha.Leaves, c19Name(l))
	}
	for _, u := range b.inst.Unary {
		u := u
		b.alpha.Unary = append(b.alpha.Unary, func(e *c19E) *c19E { return c19Un(u, e) })
	}
	return b
}

// independent evaluation of the source tree with the operators' own implementations; ok=false: an error
func (b *c19Bool) eval(e *c19E, env map[string]bool) (bool, bool) {
	switch e.K {
	case "name":
		if v, ok := env[e.S]; ok {
			return v, true
		}
		v, ok := b.consts[e.S]
		return v, ok
	case "un":
		x, ok := b.eval(e.Kids[0], env)
		if !ok {
			return false, false
		}
		v, err := b.uimpl[e.S].Calc(x)
		return v, err == nil
	case "bin":
		x, ok := b.eval(e.Kids[0], env)
		if !ok {
			return false, false
		}
		y, ok := b.eval(e.Kids[1], env)
		if !ok {
			return false, false
		}
		v, err := b.impl[e.S].Calc(funcGen.NewEmptyStack[bool](), x, y)
		return v, err == nil
	case "let":
		x, ok := b.eval(e.Kids[0], env)
		if !ok {
			return false, false
		}
		old, had := env[e.S]
		env[e.S] = x
		v, ok := b.eval(e.Kids[1], env)
		if had {
			env[e.S] = old
		} else {
			delete(env, e.S)
		}
		return v, ok
	case "if":
		c, ok := b.eval(e.Kids[0], env)
		if !ok {
			return false, false
		}
		if c {
			return b.eval(e.Kids[1], env)
		}
		return b.eval(e.Kids[2], env)
	}
	return false, false
}

// truth vector (bit i = assignment i) and error mask
func (b *c19Bool) vecOracle(e *c19E) (vec, errs int) {
	for i, as := range c19BoolAssigns {
		env := map[string]bool{"a": as[0], "b": as[1], "c": as[2]}
		v, ok := b.eval(e, env)
		if !ok {
			errs |= 1 << i
		} else if v {
			vec |= 1 << i
		}
	}
	return
}

func c19BoolVec(o c19Obs[bool]) (vec, errs int) {
	if o.genErr {
		return 0, 0x1ff // bit 8: Generate failed
	}
	for i := range o.vals {
		if o.errs[i] {
			errs |= 1 << i
		} else if o.vals[i] {
			vec |= 1 << i
		}
	}
	return
}

// ---------------------------------------------------------------- float instance

var c19FloatAssigns = func() [][]float64 {
	var r [][]float64
	for _, a := range []float64{0, 2, -1.5} {
		for _, b := range []float64{2, 0.5, -3} {
			r = append(r, []float64{a, b})
		}
	}
	return r
}()

type c19Float struct {
	inst   c19Inst
	gens   c19Gens[float64]
	flags  [][]bool
	alpha  c19Alpha
	consts map[string]float64
	// a prefix-operator variant of the table: the example's binary operators with another set of prefix
	// operators (Var = "" and VarUnary = nil: the table of example/minimal.go itself)
	Var      string
	VarUnary []string
	Strict   bool // ToBool accepts only 0 and 1
}

func (f *c19Float) instName() string {
	if f.Var == "" {
		return "float"
	}
	return "float/" + f.Var
}

func (f *c19Float) coqVar() string {
	var s []string
	for _, u := range f.VarUnary {
		s = append(s, CoqStr(u))
	}
	return CoqList(s) + " " + CoqBool(f.Strict)
}

// prefix operators the harness adds to copies of the float example (mirrored in coq/Gen/Instances.v float_unimpl):
// - negation, + identity, ! and = "is zero" (1/0), ^ square, ~ successor, * double
var c19PrefixImpl = map[string]func(float64) (float64, error){
	"-": func(a float64) (float64, error) { return -a, nil },
	"+": func(a float64) (float64, error) { return a, nil },
	"!": func(a float64) (float64, error) { if a == 0 { return 1, nil }; return 0, nil },
	"=": func(a float64) (float64, error) { if a == 0 { return 1, nil }; return 0, nil },
	"^": func(a float64) (float64, error) { return a * a, nil },
	"~": func(a float64) (float64, error) { return a + 1, nil },
	"*": func(a float64) (float64, error) { return a * 2, nil },
}

type c19VariantSpec struct {
	Name   string
	Unary  []string // registration order
	Strict bool     // ToBool accepts only 0 and 1 (ok=false for every other value)
}

// 0, 1, 2, 3 prefix operators that are also binary (at the first, a middle and the last priority position),
// with and without prefix-only operators
var c19Variants = []c19VariantSpec{
	{"no-twin", []string{"!"}, false},
	{"one-twin", []string{"-", "!"}, false},
	{"two-twins", []string{"-", "+"}, false},
	{"twins-first-middle-last", []string{"^", "-", "=", "~"}, false},
	{"twins-middle-last", []string{"+", "^"}, false},
	{"three-twins-middle", []string{"*", "-", "+"}, false},
	{"strict-tobool", []string{"-"}, true},
	{"strict-tobool-two-twins", []string{"-", "+"}, true},
}

// Every registration API for static functions, with implementations that look at ALL the arguments they are
// given (mirrored in coq/Gen/Instances.v float_fnimpl; arities and purity are regenerated: ex_var_funcs):
//   sum   AddGoFunction, variadic      sum of all arguments
//   max   AddGoFunction, variadic      greatest argument, an error without arguments
//   sum3  AddGoFunction, 3 arguments   sum of all arguments it receives
//   cnt   AddStaticFunction, variadic  the number of arguments (Stack.Size)
//   avg2  AddStaticFunction, 2         (st.Get(0) + st.Get(1)) / 2
//   half  AddSimpleFunction            x / 2
func c19AddFunctions(g *funcGen.FunctionGenerator[float64]) *funcGen.FunctionGenerator[float64] {
	sum := func(a ...float64) (float64, error) {
		s := 0.0
		for _, x := range a {
			s += x
		}
		return s, nil
	}
	return g.
		AddGoFunction("sum", -1, sum).
		AddGoFunction("max", -1, func(a ...float64) (float64, error) {
			if len(a) == 0 {
				return 0, fmt.Errorf("max needs an argument")
			}
			m := a[0]
			for _, x := range a[1:] {
				if x > m {
					m = x
				}
			}
			return m, nil
		}).
		AddGoFunction("sum3", 3, sum).
		AddStaticFunction("cnt", funcGen.Function[float64]{
			Func:   func(st funcGen.Stack[float64], cs []float64) (float64, error) { return float64(st.Size()), nil },
			Args:   -1,
			IsPure: true,
		}).
		AddStaticFunction("avg2", funcGen.Function[float64]{
			Func:   func(st funcGen.Stack[float64], cs []float64) (float64, error) { return (st.Get(0) + st.Get(1)) / 2, nil },
			Args:   2,
			IsPure: true,
		}).
		AddSimpleFunction("half", func(x float64) float64 { return x / 2 })
}

func c19VariantGen(spec c19VariantSpec, optimizer bool) *funcGen.FunctionGenerator[float64] {
	g := example.VerifMinimal().VerifClone().VerifClearUnary().SetKeyWords(c19Keywords...)
	for _, u := range spec.Unary {
		g.AddUnaryFunc(u, c19PrefixImpl[u])
	}
	c19AddFunctions(g)
	if spec.Strict {
		g.SetToBool(func(c float64) (bool, bool) { return c == 1, c == 0 || c == 1 })
	}
	if !optimizer {
		g.SetOptimizer(nil)
	}
	return g
}

func c19NewVariant(base *c19Float, spec c19VariantSpec) *c19Float {
	f := &c19Float{consts: base.consts, Var: spec.Name, VarUnary: spec.Unary, Strict: spec.Strict}
	f.inst = c19Inst{Name: "float/" + spec.Name, Args: base.inst.Args, Ops: base.inst.Ops, Unary: spec.Unary}
	f.flags = base.flags[:1]
	f.gens.on = []*funcGen.FunctionGenerator[float64]{c19VariantGen(spec, true)}
	f.gens.off = c19VariantGen(spec, false)
	f.alpha = c19Alpha{Bin: []string{"=", "+", "-", "*", "^"}}
	f.alpha.Leaves = []*c19E{c19Name("a"), c19Name("b"), c19Num("2")}
	for _, u := range spec.Unary {
		u := u
		f.alpha.Unary = append(f.alpha.Unary, func(e *c19E) *c19E { return c19Un(u, e) })
	}
	// calls at every operand position: one-argument and two-argument forms of every registration API
	f.alpha.Unary = append(f.alpha.Unary,
		func(e *c19E) *c19E { return c19Call("sum", e) },
		func(e *c19E) *c19E { return c19Call("half", e) })
	f.alpha.Bin2 = []func(a, b *c19E) *c19E{
		func(a, b *c19E) *c19E { return c19Call("sum", a, b) },
		func(a, b *c19E) *c19E { return c19Call("max", a, b) },
		func(a, b *c19E) *c19E { return c19Call("sum3", a, b, c19Num("2")) },
		func(a, b *c19E) *c19E { return c19Call("cnt", a, b) },
		func(a, b *c19E) *c19E { return c19Call("avg2", a, b) },
	}
	return f
}

func c19NewFloat() *c19Float {
	base := example.VerifMinimal()
	f := &c19Float{consts: map[string]float64{}}
	f.inst = c19Inst{Name: "float", Args: []string{"a", "b"}}
	var orig []bool
	for _, op := range base.VerifGenericOperators() {
		f.inst.Ops = append(f.inst.Ops, op.Operator)
		orig = append(orig, op.IsCommutative)
	}
	for _, u := range base.VerifUnary() {
		f.inst.Unary = append(f.inst.Unary, u.Operator)
	}
	for _, name := range c19ConstNames("minimal.go") {
		if id, ok := base.Identifier()(name); ok && id.IsConst && !id.IsFunc {
			f.consts[name] = id.Const
		}
	}
	// sound flag settings: + and * may be flagged or not (exact on the grid); everything else stays as it is
	f.flags = append(f.flags, orig)
	for m := 0; m < 4; m++ {
		fl := append([]bool{}, orig...)
		same := true
		for i, op := range f.inst.Ops {
			if op == "+" {
				fl[i] = m&1 != 0
			}
			if op == "*" {
				fl[i] = m&2 != 0
			}
			same = same && fl[i] == orig[i]
		}
		if !same {
			f.flags = append(f.flags, fl)
		}
	}
	for _, fl := range f.flags {
		g := base.VerifClone().SetKeyWords(c19Keywords...)
		for i, op := range f.inst.Ops {
			g.VerifSetCommutative(op, fl[i])
		}
		f.gens.on = append(f.gens.on, g)
	}
	f.gens.off = base.VerifClone().SetKeyWords(c19Keywords...).SetOptimizer(nil)
	f.alpha = c19Alpha{Bin: []string{"=", "<", "+", "-", "*"}}
	f.alpha.Leaves = []*c19E{c19Name("a"), c19Name("b"), c19Num("2"), c19Num("0.5")}
	f.alpha.Unary = []func(*c19E) *c19E{
		func(e *c19E) *c19E { return c19Un("-", e) },
		func(e *c19E) *c19E { return c19Bin("/", e, c19Num("2")) },
	}
	return f
}

// exact evaluation: every intermediate result must be a binary64 value, else status 2 (outside the property).
// A value is a rational plus the sign of zero (IEEE: -0 is a value of its own).
type c19Q struct {
	r  *big.Rat
	nz bool // r = 0 and the value is -0
}

func c19Exact(r *big.Rat) bool {
	_, exact := r.Float64()
	return exact
}

func (q c19Q) neg() bool { return q.r.Sign() < 0 || q.nz }

func (q c19Q) float() float64 {
	v, _ := q.r.Float64()
	if q.nz {
		return math.Copysign(0, -1)
	}
	return v
}

func c19QOf(v float64) (c19Q, bool) {
	if math.IsNaN(v) || math.IsInf(v, 0) {
		return c19Q{}, false
	}
	r := new(big.Rat)
	r.SetFloat64(v)
	return c19Q{r: r, nz: v == 0 && math.Signbit(v)}, true
}

func c19QBool(b bool) c19Q {
	if b {
		return c19Q{r: big.NewRat(1, 1)}
	}
	return c19Q{r: new(big.Rat)}
}

func c19QMul(x, y c19Q) c19Q {
	r := new(big.Rat).Mul(x.r, y.r)
	return c19Q{r: r, nz: r.Sign() == 0 && x.neg() != y.neg()}
}

// status: 0 ok, 1 error (property: an error), 2 inexact / outside the exact model
func (f *c19Float) eval(e *c19E, env map[string]c19Q) (c19Q, int) {
	bad := c19Q{}
	switch e.K {
	case "num":
		r, ok := new(big.Rat).SetString(e.S)
		if !ok || !c19Exact(r) {
			return bad, 2
		}
		return c19Q{r: r}, 0
	case "name":
		if v, ok := env[e.S]; ok {
			return v, 0
		}
		if v, ok := f.consts[e.S]; ok {
			q, ok := c19QOf(v)
			if !ok {
				return bad, 2
			}
			return q, 0
		}
		return bad, 1
	case "un":
		x, st := f.eval(e.Kids[0], env)
		if st != 0 {
			return bad, st
		}
		switch e.S {
		case "-":
			if x.r.Sign() == 0 {
				return c19Q{r: x.r, nz: !x.nz}, 0
			}
			return c19Q{r: new(big.Rat).Neg(x.r)}, 0
		case "+":
			return x, 0
		case "!", "=":
			return c19QBool(x.r.Sign() == 0), 0
		case "^", "*", "~":
			var q c19Q
			switch e.S {
			case "^":
				q = c19QMul(x, x)
			case "*":
				q = c19QMul(x, c19Q{r: big.NewRat(2, 1)})
			default:
				q = c19Q{r: new(big.Rat).Add(x.r, big.NewRat(1, 1))}
			}
			if !c19Exact(q.r) {
				return bad, 2
			}
			return q, 0
		}
		return bad, 2
	case "bin":
		x, st := f.eval(e.Kids[0], env)
		if st != 0 {
			return bad, st
		}
		y, st := f.eval(e.Kids[1], env)
		if st != 0 {
			return bad, st
		}
		var q c19Q
		switch e.S {
		case "=":
			q = c19QBool(x.r.Cmp(y.r) == 0)
		case "<":
			q = c19QBool(x.r.Cmp(y.r) < 0)
		case ">":
			q = c19QBool(x.r.Cmp(y.r) > 0)
		case "+", "-":
			if e.S == "-" {
				if y.r.Sign() == 0 {
					y = c19Q{r: y.r, nz: !y.nz}
				} else {
					y = c19Q{r: new(big.Rat).Neg(y.r)}
				}
			}
			r := new(big.Rat).Add(x.r, y.r)
			q = c19Q{r: r, nz: x.r.Sign() == 0 && y.r.Sign() == 0 && x.nz && y.nz}
		case "*":
			q = c19QMul(x, y)
		case "/":
			if y.r.Sign() == 0 {
				return bad, 2
			}
			r := new(big.Rat).Quo(x.r, y.r)
			q = c19Q{r: r, nz: r.Sign() == 0 && x.neg() != y.neg()}
		case "^":
			if !y.r.IsInt() || y.r.Sign() < 0 || y.r.Num().Int64() > 3 || y.nz {
				return bad, 2
			}
			q = c19Q{r: big.NewRat(1, 1)}
			for i := int64(0); i < y.r.Num().Int64(); i++ {
				q = c19QMul(q, x)
				if !c19Exact(q.r) {
					return bad, 2
				}
			}
		default:
			return bad, 2
		}
		if !c19Exact(q.r) {
			return bad, 2
		}
		return q, 0
	case "call":
		if _, shadow := env[e.S]; shadow {
			return bad, 1
		}
		if e.S == "sqr" && len(e.Kids) == 1 {
			x, st := f.eval(e.Kids[0], env)
			if st != 0 {
				return bad, st
			}
			q := c19QMul(x, x)
			if !c19Exact(q.r) {
				return bad, 2
			}
			return q, 0
		}
		if ar, ok := map[string]int{"sum": -1, "max": -1, "sum3": 3, "cnt": -1, "avg2": 2, "half": 1}[e.S]; ok && f.Var != "" {
			if ar >= 0 && ar != len(e.Kids) {
				return bad, 1 // Generate refuses the arity
			}
			var xs []c19Q
			for _, k := range e.Kids {
				x, st := f.eval(k, env)
				if st != 0 {
					return bad, st
				}
				xs = append(xs, x)
			}
			add := func(x, y c19Q) c19Q {
				return c19Q{r: new(big.Rat).Add(x.r, y.r), nz: x.r.Sign() == 0 && y.r.Sign() == 0 && x.nz && y.nz}
			}
			half := func(x c19Q) c19Q {
				r := new(big.Rat).Quo(x.r, big.NewRat(2, 1))
				return c19Q{r: r, nz: r.Sign() == 0 && x.neg()}
			}
			var q c19Q
			switch e.S {
			case "sum", "sum3":
				q = c19Q{r: new(big.Rat)}
				for _, x := range xs {
					q = add(q, x)
					if !c19Exact(q.r) {
						return bad, 2
					}
				}
			case "max":
				if len(xs) == 0 {
					return bad, 1
				}
				q = xs[0]
				for _, x := range xs[1:] {
					if x.r.Cmp(q.r) > 0 {
						q = x
					}
				}
			case "cnt":
				q = c19Q{r: big.NewRat(int64(len(xs)), 1)}
			case "avg2":
				q = add(xs[0], xs[1])
				if !c19Exact(q.r) {
					return bad, 2
				}
				q = half(q)
			case "half":
				q = half(xs[0])
			}
			if !c19Exact(q.r) {
				return bad, 2
			}
			return q, 0
		}
		return bad, 2
	case "let":
		x, st := f.eval(e.Kids[0], env)
		if st != 0 {
			return bad, st
		}
		old, had := env[e.S]
		env[e.S] = x
		v, st := f.eval(e.Kids[1], env)
		if had {
			env[e.S] = old
		} else {
			delete(env, e.S)
		}
		return v, st
	case "if":
		c, st := f.eval(e.Kids[0], env)
		if st != 0 {
			return bad, st
		}
		if f.Strict && c.r.Sign() != 0 && c.r.Cmp(big.NewRat(1, 1)) != 0 {
			return bad, 1 // not a boolean: an error
		}
		if c.r.Sign() != 0 {
			return f.eval(e.Kids[1], env)
		}
		return f.eval(e.Kids[2], env)
	}
	return bad, 2
}

// ---------------------------------------------------------------- cases

// compact prefix form of a source tree (for replay files): #img $name u<op> b<op> c<n>:<f> l:<x> i
func (e *c19E) enc(b *strings.Builder) {
	switch e.K {
	case "num":
		b.WriteString("#" + e.S)
	case "name":
		b.WriteString("$" + e.S)
	case "un":
		b.WriteString("u" + e.S)
	case "bin":
		b.WriteString("b" + e.S)
	case "call":
		fmt.Fprintf(b, "c%d:%s", len(e.Kids), e.S)
	case "let":
		b.WriteString("l:" + e.S)
	case "if":
		b.WriteString("i")
	}
	for _, k := range e.Kids {
		b.WriteString(" ")
		k.enc(b)
	}
}

func (e *c19E) Enc() string {
	var b strings.Builder
	e.enc(&b)
	return b.String()
}

func c19Dec(toks *[]string) *c19E {
	if len(*toks) == 0 {
		fatal("c19: truncated tree in replay case")
	}
	t := (*toks)[0]
	*toks = (*toks)[1:]
	kids := func(n int) []*c19E {
		var ks []*c19E
		for i := 0; i < n; i++ {
			ks = append(ks, c19Dec(toks))
		}
		return ks
	}
	switch t[0] {
	case '#':
		return c19Num(t[1:])
	case '$':
		return c19Name(t[1:])
	case 'u':
		return &c19E{K: "un", S: t[1:], Kids: kids(1)}
	case 'b':
		return &c19E{K: "bin", S: t[1:], Kids: kids(2)}
	case 'c':
		var n int
		var f string
		i := strings.Index(t, ":")
		fmt.Sscanf(t[1:i], "%d", &n)
		f = t[i+1:]
		return &c19E{K: "call", S: f, Kids: kids(n)}
	case 'l':
		return &c19E{K: "let", S: t[2:], Kids: kids(2)}
	case 'i':
		return &c19E{K: "if", Kids: kids(3)}
	}
	fatal("c19: bad tree token %q", t)
	return nil
}

type c19Repro struct {
	Inst  string `json:"inst"`
	Var   string `json:"var,omitempty"` // prefix-operator variant of the float table
	Flags int    `json:"flags"` // index of the flag setting
	Text  string `json:"text,omitempty"`
	Tree  string `json:"tree,omitempty"` // source tree, compact prefix form
	Expr  *c19E  `json:"-"`
	EnumN int    `json:"enum_n,omitempty"` // enumerated block: size, first index, count
	Start uint64 `json:"start,omitempty"`
	Count int    `json:"count,omitempty"`
}

type c19Term struct {
	term   string
	weight int
}

type c19Ctx struct {
	sum    *Summary
	terms  []c19Term
	outDir string
	id     int
	mu     sync.Mutex
	b      *c19Bool
	f      *c19Float
	vars   []*c19Float // prefix-operator variants of the float table
	viols  []GoViolation
	nviol  map[string]int
	coqMax int
}

func (cx *c19Ctx) nextID() int { cx.id++; return cx.id }

func (cx *c19Ctx) add(term string, weight int) { cx.terms = append(cx.terms, c19Term{term, weight}) }

// Every coqc start costs seconds (loading the standard library), so the cases go into at most 14 files of
// about equal cost (longest processing time first).
func (cx *c19Ctx) writeShards() []string {
	const imports = "From P2 Require Import Base.Prelude Sem.Num Gen.Generic Run.C19Run."
	old, _ := filepath.Glob(filepath.Join(cx.outDir, "s*", "Cases_*"))
	for _, f := range old {
		os.Remove(f)
	}
	k := 14
	if len(cx.terms) < 200 {
		k = 1
	}
	sort.SliceStable(cx.terms, func(i, j int) bool { return cx.terms[i].weight > cx.terms[j].weight })
	load := make([]int, k)
	shard := make([][]string, k)
	for _, t := range cx.terms {
		m := 0
		for i := range load {
			if load[i] < load[m] {
				m = i
			}
		}
		load[m] += t.weight
		shard[m] = append(shard[m], t.term)
	}
	var files []string
	for i, terms := range shard {
		if len(terms) == 0 {
			continue
		}
		w := NewCaseWriter(filepath.Join(cx.outDir, fmt.Sprintf("s%02d", i)), imports, "c19_case", "c19_id", "c19_im", "c19_is", 1<<30)
		for _, t := range terms {
			w.Add(t)
		}
		w.Flush()
		files = append(files, w.files...)
	}
	return files
}

func c19Sig(inst string, e *c19E, kind string) string {
	root := e.K
	if e.K == "bin" || e.K == "un" || e.K == "call" {
		root = e.S
	}
	child := ""
	for _, k := range e.Kids {
		if k.K == "bin" || k.K == "un" || k.K == "call" {
			child = k.S
			break
		}
		if k.K == "let" || k.K == "if" {
			child = k.K
			break
		}
	}
	return inst + " | " + kind + " | " + root + " over " + child
}

func (cx *c19Ctx) violation(inst string, e *c19E, text, kind, what, expected, observed string, repro c19Repro) {
	sigInst := inst
	if strings.HasPrefix(inst, "float/") {
		sigInst = "float table variant" // one finding per rewrite / operator pair, not per variant
	}
	sig := c19Sig(sigInst, e, kind)
	cx.mu.Lock()
	defer cx.mu.Unlock()
	cx.nviol[sig]++
	if cx.nviol[sig] > 3 {
		return
	}
	id := cx.nextID()
	human := map[string]any{"instance": inst, "expression": text, "repro": repro, "signature": sig}
	cx.sum.Cases[fmt.Sprint(id)] = human
	cx.viols = append(cx.viols, GoViolation{CaseID: id, What: what, Sig: sig, Human: human, Expected: expected, Observed: observed})
}

func c19FlagsCoq(fl []bool) string {
	var s []string
	for _, f := range fl {
		s = append(s, CoqBool(f))
	}
	return CoqList(s)
}

func c19CoqToks[V any](g *funcGen.FunctionGenerator[V], text string) string {
	toks := g.GetParser().VerifParseTokens(text)
	var s []string
	for _, t := range toks {
		s = append(s, fmt.Sprintf("(%d,%s)", t.Typ, CoqStr(t.Image)))
	}
	return CoqList(s)
}

// one bool expression: all flag settings, optimizer on/off, two layouts; returns the packed observation of
// flag setting fi in layout lay (vecOn + 256*vecOff, + 65536 if anything but plain values was observed)
func (cx *c19Ctx) boolExpr(e *c19E, fi, lay int, repro c19Repro, allFlags bool) int {
	b := cx.b
	want, wantErr := b.vecOracle(e)
	packed := 0
	for l := 0; l < 2; l++ {
		text := b.inst.render(e, l == 1).text
		repro.Text = text
		if l != lay && !allFlags {
			// the other layout differs only in parentheses: one Generate shows that it denotes the same tree
			on := c19Run(b.gens.on[0], text, b.inst.Args, c19BoolAssigns)
			if vOn, eOn := c19BoolVec(on); vOn != want || eOn != wantErr {
				cx.violation("bool", e, text, "value", "optimizer on: the generated function differs from the operators' own definitions",
					fmt.Sprintf("truth vector %08b errors %09b", want, wantErr), fmt.Sprintf("truth vector %08b errors %09b", vOn, eOn), repro)
			}
			continue
		}
		off := c19Run(b.gens.off, text, b.inst.Args, c19BoolAssigns)
		vOff, eOff := c19BoolVec(off)
		if vOff != want || eOff != wantErr {
			cx.violation("bool", e, text, "value", "optimizer off: the generated function differs from the operators' own definitions",
				fmt.Sprintf("truth vector %08b errors %09b", want, wantErr), fmt.Sprintf("truth vector %08b errors %09b", vOff, eOff), repro)
		}
		for k := range b.flags {
			if !allFlags && k != fi && k != 0 {
				continue
			}
			if l != lay && k != fi && k != 0 {
				continue
			}
			on := c19Run(b.gens.on[k], text, b.inst.Args, c19BoolAssigns)
			vOn, eOn := c19BoolVec(on)
			if vOn != want || eOn != wantErr {
				r := repro
				r.Flags = k
				kind := "value"
				if vOff == want && eOff == wantErr {
					kind = "optimizer"
				}
				cx.violation("bool", e, text, kind, fmt.Sprintf("optimizer on (commutative flags %v): the generated function differs from the operators' own definitions", b.flags[k]),
					fmt.Sprintf("truth vector %08b errors %09b", want, wantErr), fmt.Sprintf("truth vector %08b errors %09b", vOn, eOn), r)
			}
			if k == fi && l == lay {
				packed = vOn + 256*vOff
				if eOn != 0 || eOff != 0 {
					packed += 65536
				}
			}
		}
	}
	return packed
}

// enumerated bool tier: blocks of the enumeration; Coq recomputes the expressions
func (cx *c19Ctx) boolEnum(n int, coqEvery int, allFlags bool) {
	b := cx.b
	total := b.alpha.count(n)
	const blk = 2048
	nblocks := int((total + blk - 1) / blk)
	type res struct {
		idx    int
		count  int
		h1, h2 uint64
		errs   bool
		fi     int
	}
	out := make([]res, nblocks)
	var wg sync.WaitGroup
	work := make(chan int, nblocks)
	for w := 0; w < runtime.NumCPU(); w++ {
		wg.Add(1)
		go func() {
			defer wg.Done()
			for bi := range work {
				start := uint64(bi) * blk
				cnt := blk
				if start+uint64(cnt) > total {
					cnt = int(total - start)
				}
				fi := bi % len(b.flags)
				r := res{idx: bi, fi: fi}
				for k := 0; k < cnt; k++ {
					idx := start + uint64(k)
					e := b.alpha.unrank(n, idx)
					repro := c19Repro{Inst: "bool", Flags: fi, Expr: e, Tree: e.Enc()}
					p := cx.boolExpr(e, fi, int(idx%2), repro, allFlags)
					// the observations travel as two running checksums over the packed values (truth vector with the
					// optimizer + 256 * truth vector without), computed the same way in coq/Run/C19Run.v
					v := uint64(p & 0xffff)
					r.errs = r.errs || p >= 65536
					r.h1 = (r.h1*65599 + v + 1) % 2147483647
					r.h2 = (r.h2*31337 + v + 7) % 2147483647
					r.count++
				}
				out[bi] = r
			}
		}()
	}
	for bi := 0; bi < nblocks; bi++ {
		work <- bi
	}
	close(work)
	wg.Wait()
	for bi, r := range out {
		cx.sum.Evaluations += r.count
		cx.sum.Count("bool_enumerated_by_operator_nodes", fmt.Sprint(n))
		if coqEvery > 1 && bi%coqEvery != 0 {
			continue
		}
		id := cx.nextID()
		start := uint64(bi) * blk
		first := b.alpha.unrank(n, start)
		cx.sum.Cases[fmt.Sprint(id)] = map[string]any{"instance": "bool", "block": fmt.Sprintf("expressions %d..%d of the enumeration with %d operator nodes", start, start+uint64(r.count)-1, n),
			"first_expression": b.inst.render(first, false).text, "flags": b.flags[r.fi],
			"repro": c19Repro{Inst: "bool", Flags: r.fi, EnumN: n, Start: start, Count: r.count}, "signature": "bool | block"}
		cx.add(fmt.Sprintf("(%d, CBoolEnum %s %d %d %d %s %d %d)", id, c19FlagsCoq(b.flags[r.fi]), n, start, r.count, CoqBool(r.errs), r.h1, r.h2), 5+r.count/3)
	}
}

// explicit bool case: tokens of the real tokenizer + source tree + observations
func (cx *c19Ctx) boolExplicit(e *c19E, text string, fi int, kind string) {
	cx.boolExplicitT(e, text, fi, kind, true)
}

// withToks=false: the text is the harness's minimal rendering of a let/if form over expression fragments, which
// the model renders itself ([flat]); otherwise the tokens of the real tokenizer travel with the case
func (cx *c19Ctx) boolExplicitT(e *c19E, text string, fi int, kind string, withToks bool) {
	b := cx.b
	repro := c19Repro{Inst: "bool", Flags: fi, Text: text, Expr: e, Tree: e.Enc()}
	want, wantErr := b.vecOracle(e)
	off := c19Run(b.gens.off, text, b.inst.Args, c19BoolAssigns)
	on := c19Run(b.gens.on[fi], text, b.inst.Args, c19BoolAssigns)
	vOff, eOff := c19BoolVec(off)
	vOn, eOn := c19BoolVec(on)
	cx.mu.Lock()
	cx.sum.Evaluations++
	cx.sum.Count("bool_explicit_kind", kind)
	cx.sum.Count("bool_explicit_operator_nodes", bucket(e.nodes()))
	if wantErr != 0 {
		cx.sum.Count("bool_explicit_outcome", "error")
	} else {
		cx.sum.Count("bool_explicit_outcome", "value")
	}
	cx.sum.Nontriv("bx:" + text)
	id := cx.nextID()
	human := map[string]any{"instance": "bool", "expression": text, "flags": b.flags[fi], "repro": repro, "signature": c19Sig("bool", e, "value")}
	cx.sum.Cases[fmt.Sprint(id)] = human
	cx.sum.Sample(human)
	cx.mu.Unlock()
	if vOff != want || eOff != wantErr {
		cx.violation("bool", e, text, "value", "optimizer off: the generated function differs from the operators' own definitions",
			fmt.Sprintf("truth vector %08b errors %09b", want, wantErr), fmt.Sprintf("truth vector %08b errors %09b", vOff, eOff), repro)
	}
	if vOn != want || eOn != wantErr {
		k := "value"
		if vOff == want && eOff == wantErr {
			k = "optimizer"
		}
		cx.violation("bool", e, text, k, "optimizer on: the generated function differs from the operators' own definitions",
			fmt.Sprintf("truth vector %08b errors %09b", want, wantErr), fmt.Sprintf("truth vector %08b errors %09b", vOn, eOn), repro)
	}
	// 0 = Parse/Generate failed; else 1 + 2*(truth vector + 256*error mask)
	obs := func(o c19Obs[bool]) string {
		if o.genErr {
			return "0"
		}
		v, er := c19BoolVec(o)
		return fmt.Sprint(1 + 2*(v+256*er))
	}
	toks := "None"
	if withToks {
		toks = "(Some " + c19CoqToks(b.gens.off, text) + ")"
	}
	cx.mu.Lock()
	cx.add(fmt.Sprintf("(%d, CBoolExpl %s %s %s %s %s)", id, c19FlagsCoq(b.flags[fi]), toks, e.coq(), obs(on), obs(off)), 3+e.nodes()/2)
	cx.mu.Unlock()
}

// float: one expression on all assignments; returns observation strings for Coq (nil if outside the exact model)
func (cx *c19Ctx) floatExpr(f *c19Float, e *c19E, text string, fi int, allFlags bool, repro c19Repro) (onS, offS string, exactAll bool) {
	type exp struct {
		v  float64
		st int
	}
	want := make([]exp, len(c19FloatAssigns))
	exactAll = true
	for i, as := range c19FloatAssigns {
		env := map[string]c19Q{}
		for j, n := range f.inst.Args {
			env[n], _ = c19QOf(as[j])
		}
		q, st := f.eval(e, env)
		want[i].st = st
		if st == 0 {
			want[i].v = q.float()
		}
		if st == 2 {
			exactAll = false
		}
	}
	off := c19Run(f.gens.off, text, f.inst.Args, c19FloatAssigns)
	check := func(o c19Obs[float64], kind, what string, r c19Repro) {
		for i := range want {
			if want[i].st == 2 {
				continue
			}
			gotErr := o.genErr || o.errs[i]
			switch {
			case want[i].st == 1 && !gotErr:
				cx.violation(f.instName(), e, text, kind, what+": a value where the definitions give an error", "error", fmt.Sprintf("%v at a=%v b=%v", o.vals[i], c19FloatAssigns[i][0], c19FloatAssigns[i][1]), r)
				return
			case want[i].st == 0 && gotErr:
				cx.violation(f.instName(), e, text, kind, what+": an error where the definitions give a value", fmt.Sprintf("%v at a=%v b=%v", want[i].v, c19FloatAssigns[i][0], c19FloatAssigns[i][1]), "error", r)
				return
			case want[i].st == 0 && math.Float64bits(o.vals[i]) != math.Float64bits(want[i].v):
				cx.violation(f.instName(), e, text, kind, what+": the generated function differs from the operators' own definitions",
					fmt.Sprintf("%v at a=%v b=%v", want[i].v, c19FloatAssigns[i][0], c19FloatAssigns[i][1]), fmt.Sprintf("%v", o.vals[i]), r)
				return
			}
		}
	}
	check(off, "value", "optimizer off", repro)
	offOK := true
	for i := range want {
		if want[i].st == 0 && (off.genErr || off.errs[i] || math.Float64bits(off.vals[i]) != math.Float64bits(want[i].v)) {
			offOK = false
		}
	}
	var onFi c19Obs[float64]
	for k := range f.flags {
		if !allFlags && k != fi && k != 0 {
			continue
		}
		on := c19Run(f.gens.on[k], text, f.inst.Args, c19FloatAssigns)
		r := repro
		r.Flags = k
		kind := "value"
		if offOK {
			kind = "optimizer"
		}
		check(on, kind, fmt.Sprintf("optimizer on (commutative flags %v)", f.flags[k]), r)
		if k == fi {
			onFi = on
		}
	}
	// flat list of integers, two per assignment: mantissa and exponent of the value m*2^e (m odd or 0);
	// (0,1) = -0, (+-1,100001) = +-Inf, (0,100002) = NaN, (0,100003) = an error; [] = Parse/Generate failed
	obs := func(o c19Obs[float64]) string {
		if o.genErr {
			return "[]"
		}
		var s []string
		for i := range o.vals {
			if o.errs[i] {
				s = append(s, "0", "100003")
			} else {
				m, e := c19FlME(o.vals[i])
				s = append(s, m, e)
			}
		}
		return "[" + strings.Join(s, ";") + "]%Z"
	}
	return obs(onFi), obs(off), exactAll
}

func (cx *c19Ctx) floatEnum(f *c19Float, n int, coqEvery int, goEvery int, allFlags bool) {
	total := f.alpha.count(n)
	type res struct {
		on, off string
		exact   bool
	}
	out := make([]res, total)
	var wg sync.WaitGroup
	work := make(chan uint64, 1024)
	for w := 0; w < runtime.NumCPU(); w++ {
		wg.Add(1)
		go func() {
			defer wg.Done()
			for idx := range work {
				e := f.alpha.unrank(n, idx)
				text := f.inst.render(e, idx%2 == 1).text
				fi := int(idx/7) % len(f.flags)
				on, off, exact := cx.floatExpr(f, e, text, fi, allFlags, c19Repro{Inst: "float", Var: f.Var, Flags: fi, Text: text, Expr: e, Tree: e.Enc()})
				if coqEvery > 1 && idx%uint64(coqEvery) != 0 {
					on, off = "", ""
				}
				out[idx] = res{on, off, exact}
			}
		}()
	}
	for idx := uint64(0); idx < total; idx++ {
		if goEvery > 1 && idx%uint64(goEvery) != 0 {
			continue
		}
		work <- idx
	}
	close(work)
	wg.Wait()
	for idx := uint64(0); idx < total; idx++ {
		if goEvery > 1 && idx%uint64(goEvery) != 0 {
			continue
		}
		cx.sum.Evaluations++
		if f.Var == "" {
			cx.sum.Count("float_enumerated_by_operator_nodes", fmt.Sprint(n))
		} else {
			cx.sum.Count("float_prefix_variant_enumerated", f.Var+" n="+fmt.Sprint(n))
		}
		if !out[idx].exact {
			cx.sum.Skipped["float: some intermediate result is not exactly representable (or a signed zero / division by zero) on some assignment: those assignments are not compared"]++
		}
		if coqEvery > 1 && idx%uint64(coqEvery) != 0 {
			continue
		}
		fi := int(idx/7) % len(f.flags)
		id := cx.nextID()
		e := f.alpha.unrank(n, idx)
		text := f.inst.render(e, idx%2 == 1).text
		cx.sum.Cases[fmt.Sprint(id)] = map[string]any{"instance": f.instName(), "expression": text, "flags": f.flags[fi], "prefix_operators": f.inst.Unary,
			"repro": c19Repro{Inst: "float", Var: f.Var, Flags: fi, Text: text, Expr: e, Tree: e.Enc()}, "signature": c19Sig(f.instName(), e, "value")}
		if f.Var == "" {
			cx.add(fmt.Sprintf("(%d, CFloatEnum %s %d %d %s %s)", id, c19FlagsCoq(f.flags[fi]), n, idx, out[idx].on, out[idx].off), 5)
		} else {
			cx.add(fmt.Sprintf("(%d, CFloatVarEnum %s %s %d %d %s %s)", id, f.coqVar(), c19FlagsCoq(f.flags[fi]), n, idx, out[idx].on, out[idx].off), 5)
		}
	}
}

func (cx *c19Ctx) floatExplicit(f *c19Float, e *c19E, text string, fi int, kind string) {
	repro := c19Repro{Inst: "float", Var: f.Var, Flags: fi, Text: text, Expr: e, Tree: e.Enc()}
	on, off, exact := cx.floatExpr(f, e, text, fi, false, repro)
	cx.mu.Lock()
	defer cx.mu.Unlock()
	cx.sum.Evaluations++
	cx.sum.Count("float_explicit_kind", kind)
	cx.sum.Count("float_explicit_operator_nodes", bucket(e.nodes()))
	if !exact {
		cx.sum.Skipped["float: some intermediate result is not exactly representable (or a signed zero / division by zero) on some assignment: those assignments are not compared"]++
	}
	cx.sum.Nontriv("fx:" + text)
	id := cx.nextID()
	human := map[string]any{"instance": f.instName(), "expression": text, "flags": f.flags[fi], "prefix_operators": f.inst.Unary, "repro": repro, "signature": c19Sig(f.instName(), e, "value")}
	cx.sum.Cases[fmt.Sprint(id)] = human
	cx.sum.Sample(human)
	if f.Var == "" {
		// the source text travels too (ASCII texts; no text operators in example/minimal.go): the tokenizer model reads it
		ops, to, kw, cm, cf := f.gens.off.GetParser().VerifTokenizerConfig()
		ascii := len(to) == 0
		for _, ch := range text {
			ascii = ascii && ch < 128
		}
		if ascii {
			cx.sum.Count("float_explicit_text", "text and tokenizer configuration sent to the tokenizer model")
			cx.add(fmt.Sprintf("(%d, CFloatText %s %s %s %s %s %s %s %s %s %s)", id, c19FlagsCoq(f.flags[fi]), CoqStr(text), c03CoqStrs(ops), c03CoqStrs(kw),
				CoqBool(cm), CoqBool(cf), c19CoqToks(f.gens.off, text), e.coq(), on, off), 7+e.nodes()/2)
		} else {
			cx.sum.Count("float_explicit_text", "tokens only")
			cx.add(fmt.Sprintf("(%d, CFloatExpl %s (Some %s) %s %s %s)", id, c19FlagsCoq(f.flags[fi]), c19CoqToks(f.gens.off, text), e.coq(), on, off), 6+e.nodes()/2)
		}
	} else {
		cx.add(fmt.Sprintf("(%d, CFloatVarExpl %s %s (Some %s) %s %s %s)", id, f.coqVar(), c19FlagsCoq(f.flags[fi]), c19CoqToks(f.gens.off, text), e.coq(), on, off), 6+e.nodes()/2)
	}
}

// ---------------------------------------------------------------- generators of explicit cases

type c19Gen struct {
	r      *Rng
	leaves []*c19E
	bin    []string
	un     []string
	fresh  int
}

func (g *c19Gen) leaf(bound []string) *c19E {
	if len(bound) > 0 && g.r.Chance(0.45) {
		return c19Name(bound[g.r.Pick(len(bound))])
	}
	return g.leaves[g.r.Pick(len(g.leaves))]
}

// expression fragment without let/if
func (g *c19Gen) expr(d int, bound []string) *c19E {
	if d <= 0 || g.r.Chance(0.25) {
		return g.leaf(bound)
	}
	if len(g.un) > 0 && g.r.Chance(0.2) {
		return c19Un(g.un[g.r.Pick(len(g.un))], g.expr(d-1, bound))
	}
	return c19Bin(g.bin[g.r.Pick(len(g.bin))], g.expr(d-1, bound), g.expr(d-1, bound))
}

// statement level: let / if forms over expression fragments (the shapes [flat] of the model renders)
func (g *c19Gen) stmt(d int, bound []string) *c19E {
	switch {
	case d <= 0 || g.r.Chance(0.2):
		return g.expr(2, bound)
	case g.r.Chance(0.55):
		g.fresh++
		x := fmt.Sprintf("x%d", g.fresh)
		var v *c19E
		switch g.r.Pick(4) {
		case 0: // a value the optimizer folds to a constant
			cg := *g
			cg.leaves = g.leaves[len(g.leaves)-2:]
			v = cg.expr(2, nil)
		case 1:
			v = g.ifForm(d-1, bound)
		default:
			v = g.expr(2, bound)
		}
		return c19Let(x, v, g.stmt(d-1, append(append([]string{}, bound...), x)))
	default:
		return g.ifForm(d, bound)
	}
}

func (g *c19Gen) ifForm(d int, bound []string) *c19E {
	return c19If(g.expr(2, bound), g.stmt(d-1, bound), g.stmt(d-1, bound))
}

// ---------------------------------------------------------------- driver

func cmdC19(seed int64, tier, outDir string) {
	sum := NewSummary("C19", seed, tier)
	sum.Rule = "bool: every expression with <= N operator nodes over {a,b,c,true,false} and the table's operators, on all 8 assignments, optimizer on/off, every setting of the commutative flags, minimal and full parentheses; plus let/if forms and sampled larger expressions; float: every expression with <= M operator nodes over {a,b,2,0.5}, {= < + - *}, unary minus and division by 2 on a 3x3 grid of assignments, plus extras (functions, ^, >, pi, implicit multiplication, let/if). Non-trivial = the expression has at least one operator node; distinct by (instance, expression text); enumerated tiers count every enumerated expression once"
	cx := &c19Ctx{sum: sum, outDir: outDir, b: c19NewBool(), f: c19NewFloat(), nviol: map[string]int{}}
	for _, spec := range c19Variants {
		cx.vars = append(cx.vars, c19NewVariant(cx.f, spec))
	}
	r := NewRng(seed)
	debug.SetGCPercent(400)
	t0 := time.Now()
	phase := func(name string) {
		sum.Extra["harness_seconds_"+name] = math.Round(time.Since(t0).Seconds()*10) / 10
	}

	finish := func() {
		sum.CaseFiles = cx.writeShards()
		sort.Slice(cx.viols, func(i, j int) bool { return len(cx.viols[i].Human["expression"].(string)) < len(cx.viols[j].Human["expression"].(string)) })
		sum.GoViolations = cx.viols
		sum.Write(outDir)
	}

	if optReplay != "" {
		var rp c19Repro
		if err := json.Unmarshal(loadReplayCase(), &rp); err != nil {
			fatal("replay case: %v", err)
		}
		cx.replay(rp)
		finish()
		return
	}

	// ---- corpus: known-bad inputs first
	bt, ft := &cx.b.inst, &cx.f.inst
	for _, e := range c19FloatCorpus() {
		cx.floatExplicit(cx.f, e.e, e.text(ft), 0, "corpus")
	}
	for _, e := range c19BoolCorpus() {
		cx.boolExplicit(e.e, e.text(bt), 0, "corpus")
	}

	// ---- enumerated tiers
	boolN, floatN := 3, 2
	floatGoN := 3
	if tier == "thorough" {
		boolN, floatN, floatGoN = 4, 3, 4
	}
	enumTotal := 0
	for n := 0; n <= boolN; n++ {
		every := 1
		if n >= 4 {
			every = 200 // Go checks everything; Coq a sample of the blocks
		}
		cx.boolEnum(n, every, n <= 2 || (tier == "thorough" && n <= 3))
		enumTotal += int(cx.b.alpha.count(n))
	}
	for n := 0; n <= floatGoN; n++ {
		every := 1
		if n > floatN {
			every = 197
			if n >= 4 {
				every = 2003
			}
		}
		cx.floatEnum(cx.f, n, every, 1, n <= 2 || (tier == "thorough" && n <= 3))
		enumTotal += int(cx.f.alpha.count(n))
	}
	// ---- prefix-operator variants of the float table: 0..3 prefix operators that are also binary (first, middle,
	// last priority position) and prefix-only operators; prefix operators at every operand position
	for _, v := range cx.vars {
		// the parser's own table first: the binary position stored for every prefix operator
		pos := v.gens.off.GetParser().VerifUnaryOpPos()
		for _, u := range v.inst.Unary {
			want := v.inst.level(u)
			if pos[u] != want {
				e := c19Un(u, c19Bin("^", c19Name("a"), c19Num("2")))
				cx.violation(v.instName(), e, v.inst.render(e, false).text, "prefix-priority",
					fmt.Sprintf("the parser does not give the prefix operator %q the priority of its binary twin", u),
					fmt.Sprintf("binary position %d", want), fmt.Sprintf("binary position %d", pos[u]),
					c19Repro{Inst: "float", Var: v.Var, Text: v.inst.render(e, false).text, Expr: e, Tree: e.Enc()})
			}
		}
		for _, c := range c19VariantCorpus(v) {
			cx.floatExplicit(v, c.e, c.text(&v.inst), 0, "prefix corpus "+v.Var)
		}
		if v.Strict {
			// if E then b else a for every condition E with <= 1 operator node over {a, b, 0, 1, 2, 0.5}
			conds := c19Alpha{Leaves: []*c19E{c19Name("a"), c19Name("b"), c19Num("0"), c19Num("1"), c19Num("2"), c19Num("0.5")},
				Unary: v.alpha.Unary[:1], Bin: []string{"=", "<", "+", "-", "*"}}
			for n := 0; n <= 1; n++ {
				for i := uint64(0); i < conds.count(n); i++ {
					e := c19If(conds.unrank(n, i), c19Name("b"), c19Name("a"))
					cx.floatExplicit(v, e, v.inst.render(e, i%2 == 1).text, 0, "strict if-form")
				}
			}
		}
		varN, varGoN := 1, 3
		if tier == "thorough" {
			varN = 2
		}
		for n := 0; n <= varGoN; n++ {
			every, goEvery := 1, 1
			if n > varN {
				every = 41
			}
			if n >= 3 {
				every, goEvery = 2100, 50
				if tier == "thorough" {
					every, goEvery = 101, 1
				}
			}
			cx.floatEnum(v, n, every, goEvery, false)
			enumTotal += int(v.alpha.count(n)) / goEvery
		}
	}
	phase("after_enumeration")
	// the enumerated expressions are pairwise different by construction
	sum.Nontrivial = 0
	sum.distinct = map[string]bool{}
	// (explicit cases below register themselves; the enumerated ones are added at the end)

	// ---- let / if forms, bounded-exhaustive: let x = E1; E2 and if E1 then E2 else E3
	small := c19Alpha{Leaves: cx.b.alpha.Leaves, Unary: cx.b.alpha.Unary, Bin: cx.b.alpha.Bin}
	inner := c19Alpha{Leaves: []*c19E{c19Name("x"), c19Name("a")}, Unary: cx.b.alpha.Unary, Bin: cx.b.alpha.Bin}
	var jobs []func()
	for n1 := 0; n1 <= 1; n1++ {
		for i := uint64(0); i < small.count(n1); i++ {
			e1 := small.unrank(n1, i)
			for n2 := 0; n2 <= 1; n2++ {
				for j := uint64(0); j < inner.count(n2); j++ {
					e := c19Let("x", e1, inner.unrank(n2, j))
					fi := int(i+j) % len(cx.b.flags)
					jobs = append(jobs, func() { cx.boolExplicitT(e, bt.render(e, false).text, fi, "let-form", false) })
				}
			}
			for _, t := range cx.b.alpha.Leaves[1:4] {
				for _, el := range cx.b.alpha.Leaves[:3] {
					e := c19If(e1, t, el)
					fi := int(i) % len(cx.b.flags)
					jobs = append(jobs, func() { cx.boolExplicitT(e, bt.render(e, false).text, fi, "if-form", false) })
				}
			}
		}
	}
	// ---- sampled: nested let/if programs and larger expressions
	nRand := 1200 * optBoost
	if tier == "thorough" {
		nRand = 30000
	}
	bg := &c19Gen{r: r, leaves: cx.b.alpha.Leaves, bin: cx.b.inst.Ops, un: cx.b.inst.Unary}
	for i := 0; i < nRand; i++ {
		var e *c19E
		kind := "nested let/if"
		if i%3 == 0 {
			e = bg.expr(3+r.Pick(3), nil)
			kind = "larger expression"
		} else {
			e = bg.stmt(1+r.Pick(3), nil)
		}
		fi := r.Pick(len(cx.b.flags))
		full := r.Chance(0.3)
		jobs = append(jobs, func() { cx.boolExplicit(e, bt.render(e, full).text, fi, kind) })
	}
	fg := &c19Gen{r: r, leaves: []*c19E{c19Name("a"), c19Name("b"), c19Num("3"), c19Num("0.25"), c19Num("1"), c19Num("2")}, bin: []string{"=", "<", ">", "+", "-", "*", "+", "*"}, un: []string{"-"}}
	for i := 0; i < nRand/2; i++ {
		var e *c19E
		kind := "nested let/if"
		switch i % 4 {
		case 0:
			e = fg.expr(3+r.Pick(2), nil)
			kind = "larger expression"
		case 1:
			e = c19Call("sqr", fg.stmt(1, nil))
			if r.Chance(0.5) {
				e = c19Bin("+", e, fg.expr(1, nil))
			}
			kind = "static function with let/if argument"
		default:
			e = fg.stmt(1+r.Pick(3), nil)
		}
		fi := r.Pick(len(cx.f.flags))
		full := r.Chance(0.3)
		jobs = append(jobs, func() { cx.floatExplicit(cx.f, e, ft.render(e, full).text, fi, kind) })
	}
	// ---- comfort mode (example/minimal.go: SetComfort(true)): programs rich in products, written with multiplication
	// signs LEFT OUT where the scanner puts them back (2a, 2 a, a b, 2(a), a (b), (a+1)(1-a)) and lexemes tight or
	// spaced; the source tree has the explicit products: the text must evaluate exactly like them
	fc := &c19Gen{r: r, leaves: []*c19E{c19Name("a"), c19Name("b"), c19Num("3"), c19Num("0.25"), c19Num("2")}, bin: []string{"*", "*", "*", "+", "-", "<"}, un: []string{"-"}}
	comfortParser := cx.f.gens.off.GetParser()
	for i := 0; i < nRand/5; i++ {
		var e *c19E
		if i%3 == 2 {
			e = fc.stmt(1+r.Pick(2), nil)
		} else {
			e = fc.expr(2+r.Pick(3), nil)
		}
		fi := r.Pick(len(cx.f.flags))
		explicit := ft.render(e, r.Chance(0.3)).text
		var ctoks []c03Tok
		for _, k := range comfortParser.VerifParseTokens(explicit) {
			ctoks = append(ctoks, c03Tok{Typ: k.Typ, Img: k.Image})
		}
		text, omitted, tight, adm := r.c03ComfortText(&c03Table{Alias: map[string]string{}}, ctoks, []float64{1, 0.6}[r.Pick(2)])
		if !adm || omitted == 0 {
			sum.Count("float_comfort_text", "no sign could be left out")
			continue
		}
		sum.Count("float_comfort_text", "signs left out")
		sum.Count("float_comfort_signs_left_out", bucket(omitted))
		sum.Count("float_comfort_tight_products", bucket(tight))
		jobs = append(jobs, func() { cx.floatExplicit(cx.f, e, text, fi, "comfort: multiplication signs left out") })
	}
	// explicit cases keep their order (ids are assigned under the lock, in job order)
	for _, j := range jobs {
		j()
	}
	phase("after_explicit")
	sum.Nontrivial += enumTotal - len(cx.b.alpha.Leaves) - len(cx.f.alpha.Leaves)
	sum.Extra["exhaustive"] = true
	sum.Extra["enumerated"] = map[string]any{
		"bool_max_operator_nodes": boolN, "bool_expressions": c19Total(&cx.b.alpha, boolN), "bool_assignments": 8, "bool_flag_settings": len(cx.b.flags),
		"float_max_operator_nodes_go": floatGoN, "float_max_operator_nodes_coq_all": floatN, "float_expressions": c19Total(&cx.f.alpha, floatGoN), "float_assignments": len(c19FloatAssigns), "float_flag_settings": len(cx.f.flags),
		"layouts": "minimal and full parentheses",
	}
	finish()
}

func c19Total(a *c19Alpha, n int) uint64 {
	var t uint64
	for i := 0; i <= n; i++ {
		t += a.count(i)
	}
	return t
}

// ---------------------------------------------------------------- corpus

type c19CorpusEntry struct {
	e   *c19E
	src string // explicit source text ("" = rendered)
}

func (c c19CorpusEntry) text(t *c19Inst) string {
	if c.src != "" {
		return c.src
	}
	return t.render(c.e, false).text
}

func c19FloatCorpus() []c19CorpusEntry {
	a, b := c19Name("a"), c19Name("b")
	n := c19Num
	return []c19CorpusEntry{
		// the regrouping of '=' (flagged commutative in example/minimal.go before the repair): 1 without, 0 with the optimizer at a=2
		{e: c19Bin("=", c19Bin("=", n("2"), a), n("1"))},
		{e: c19Bin("=", c19Bin("=", a, n("2")), n("1"))},
		{e: c19Bin("=", c19Bin("=", n("0"), a), n("0"))},
		// pinned source texts: the reading under the priorities example/minimal.go declares (= < > + - * / ^ ascending)
		{e: c19Bin("+", a, c19Bin("*", b, n("2"))), src: "a + b * 2"},
		{e: c19Bin("+", c19Bin("*", a, b), n("2")), src: "a * b + 2"},
		{e: c19Bin("<", a, c19Bin("+", b, n("1"))), src: "a < b + 1"},
		{e: c19Bin("=", c19Bin("<", a, b), n("1")), src: "a < b = 1"},
		{e: c19Bin("-", c19Bin("-", a, b), n("2")), src: "a - b - 2"},
		{e: c19Bin("-", a, c19Bin("/", b, n("2"))), src: "a - b / 2"},
		{e: c19Bin("/", c19Bin("*", a, b), n("2")), src: "a * b / 2"},
		{e: c19Un("-", c19Bin("*", a, b)), src: "-a * b"},
		{e: c19Bin("+", c19Un("-", a), b), src: "-a + b"},
		{e: c19Bin("*", n("2"), c19Bin("^", a, n("2"))), src: "2 * a ^ 2"},
		// regrouping of + and * with constants on either side
		{e: c19Bin("+", c19Bin("+", n("2"), a), n("2"))},
		{e: c19Bin("+", c19Bin("+", a, n("2")), n("2"))},
		{e: c19Bin("*", c19Bin("*", n("2"), a), n("0.5"))},
		{e: c19Bin("*", c19Bin("*", a, n("2")), n("2"))},
		{e: c19Bin("-", c19Bin("-", a, n("2")), n("2"))},
		{e: c19Bin("-", c19Bin("-", n("2"), n("2")), a)},
		{e: c19Bin("/", c19Bin("/", n("8"), n("2")), n("2"))},
		// unary minus is also the binary operator of level 4: its operand is the product
		{e: c19Un("-", c19Bin("*", a, b))},
		{e: c19Bin("*", c19Un("-", a), b)},
		{e: c19Bin("+", c19Un("-", a), b)},
		{e: c19Bin("-", a, c19Un("-", b))},
		{e: c19Un("-", c19Bin("^", n("2"), n("2")))},
		{e: c19Bin("^", c19Un("-", n("2")), n("2"))},
		{e: c19Bin("^", a, n("2"))},
		{e: c19Bin(">", a, b)},
		// implicit multiplication (comfort mode of the tokenizer)
		{e: c19Bin("*", n("2"), a), src: "2a"},
		{e: c19Bin("*", n("2"), a), src: "2 a"},
		{e: c19Bin("*", c19Bin("+", a, n("1")), c19Bin("-", n("1"), a)), src: "(a+1)(1-a)"},
		{e: c19Bin("*", a, c19Bin("+", a, n("1"))), src: "a (a+1)"},
		{e: c19Bin("+", c19Bin("-", c19Bin("*", n("2"), c19Bin("^", a, n("2"))), c19Bin("*", n("2"), a)), n("1")), src: "2a^2-2a+1"},
		// static functions: folded on constants, called with pushed arguments otherwise
		{e: c19Call("sqr", n("3"))},
		{e: c19Call("sqr", a)},
		{e: c19Bin("+", c19Call("sqr", c19Bin("+", a, n("1"))), c19Call("sqr", b))},
		{e: c19Call("sqr", c19Let("y", c19Bin("+", a, n("1")), c19Name("y")))},
		{e: c19Bin("+", a, c19Call("sqr", c19Let("y", b, c19Bin("*", c19Name("y"), a))))},
		{e: c19Call("sin", n("0"))},
		{e: c19Name("pi")},
		// constant if, constant let, let over a variable
		{e: c19If(n("1"), a, b)},
		{e: c19If(n("0"), a, b)},
		{e: c19If(c19Bin("<", a, b), c19Bin("+", a, n("1")), c19Bin("*", b, n("2")))},
		{e: c19Let("x", n("2"), c19Bin("*", c19Name("x"), a))},
		{e: c19Let("x", c19Bin("+", n("1"), n("1")), c19Bin("*", c19Name("x"), a))},
		{e: c19Let("x", c19Bin("+", a, n("1")), c19Let("y", c19Bin("*", c19Name("x"), n("2")), c19Bin("-", c19Name("y"), c19Name("x"))))},
		{e: c19Let("x", c19If(a, n("1"), n("2")), c19Bin("+", c19Name("x"), b))},
	}
}

// pinned source texts for a prefix-operator variant: every prefix operator in front of a higher-priority
// operator, stacked prefix operators, a prefix operator behind a binary one
func c19VariantCorpus(v *c19Float) []c19CorpusEntry {
	a, b := c19Name("a"), c19Name("b")
	two := c19Num("2")
	has := map[string]bool{}
	for _, u := range v.inst.Unary {
		has[u] = true
	}
	var cs []c19CorpusEntry
	// reading of "u a OP 2" under the declared priorities: u takes everything of higher priority than its twin
	read := func(u string, op string) *c19E {
		p := v.inst.level(u)
		if p >= 0 && v.inst.level(op) > p {
			return c19Un(u, c19Bin(op, a, two))
		}
		return c19Bin(op, c19Un(u, a), two)
	}
	for _, u := range v.inst.Unary {
		for _, op := range []string{"^", "*", "+", "="} {
			cs = append(cs, c19CorpusEntry{e: read(u, op), src: u + "a " + op + " 2"})
		}
		cs = append(cs, c19CorpusEntry{e: c19Un(u, c19Un(u, a))}) // u u a
		cs = append(cs, c19CorpusEntry{e: c19Bin("-", b, read(u, "^")), src: "b - " + u + "a ^ 2"})
	}
	if has["-"] {
		cs = append(cs,
			c19CorpusEntry{e: c19Un("-", c19Bin("^", a, two)), src: "-a^2"},
			c19CorpusEntry{e: c19Un("-", c19Bin("^", a, two)), src: "-a²"},
			c19CorpusEntry{e: c19Un("-", c19Bin("^", two, two)), src: "-2^2"},
			c19CorpusEntry{e: c19Un("-", c19Un("-", a)), src: "- -a"},
			c19CorpusEntry{e: c19Bin("-", b, c19Un("-", c19Bin("^", a, two))), src: "b - -a^2"},
			c19CorpusEntry{e: c19Let("s", c19Un("-", c19Bin("^", a, two)), c19Bin("-", c19Name("s"), c19Un("-", c19Bin("^", c19Name("s"), two)))), src: "let s = -a^2; s - -s^2"})
	}
	// static functions registered through every API, looking at all their arguments: nested and sequenced calls
	// leave dead slots on the stack behind the frame of a later call
	sum := func(xs ...*c19E) *c19E { return c19Call("sum", xs...) }
	one, three := c19Num("1"), c19Num("3")
	cs = append(cs,
		c19CorpusEntry{e: sum(a, sum(b, two)), src: "sum(a,sum(b,2))"},
		c19CorpusEntry{e: c19Bin("-", sum(a, b), sum(two)), src: "sum(a,b)-sum(2)"},
		c19CorpusEntry{e: c19Bin("-", sum(one, two, three), sum(a)), src: "sum(1,2,3)-sum(a)"},
		c19CorpusEntry{e: c19Bin("+", c19Call("half", sum(a, b, two)), sum(two)), src: "half(sum(a,b,2))+sum(2)"},
		c19CorpusEntry{e: c19Call("max", a, c19Bin("-", c19Num("0"), c19Call("max", b, two)))},
		c19CorpusEntry{e: c19Bin("+", c19Call("cnt", a, b, two, a), c19Call("cnt")), src: "cnt(a,b,2,a)+cnt()"},
		c19CorpusEntry{e: c19Bin("+", c19Call("cnt", sum(a, b, two)), c19Call("cnt", a)), src: "cnt(sum(a,b,2))+cnt(a)"},
		c19CorpusEntry{e: c19Bin("+", c19Call("sum3", a, b, two), c19Call("sum3", one, two, three))},
		c19CorpusEntry{e: c19Bin("*", c19Call("avg2", a, b), c19Call("sum3", a, c19Call("avg2", b, two), two))},
		c19CorpusEntry{e: sum(), src: "sum()"},
		c19CorpusEntry{e: c19Call("max"), src: "max()"},
		c19CorpusEntry{e: c19Call("sum3", a, b), src: "sum3(a,b)"},
		c19CorpusEntry{e: c19Let("y", sum(a, b), c19Bin("+", sum(c19Name("y")), c19Call("cnt", c19Name("y"), c19Name("y"), c19Name("y")))), src: "let y = sum(a,b); sum(y)+cnt(y,y,y)"},
		c19CorpusEntry{e: sum(a, c19Let("y", b, c19Bin("*", c19Name("y"), two)), c19Call("max", b, a)), src: "sum(a, let y = b; y*2, max(b,a))"},
		c19CorpusEntry{e: c19If(sum(a), c19Call("cnt", a, b), sum(b, two, two))})
	// conditions that are booleans, and conditions that are not (an error under a strict ToBool), constant and not
	k := c19Name("k")
	cs = append(cs,
		c19CorpusEntry{e: c19If(two, b, a), src: "if 2 then b else a"},
		c19CorpusEntry{e: c19If(c19Bin("+", one, one), b, a), src: "if 1+1 then b else a"},
		c19CorpusEntry{e: c19If(c19Num("0.5"), b, a)},
		c19CorpusEntry{e: c19If(one, b, a)}, c19CorpusEntry{e: c19If(c19Num("0"), b, a)},
		c19CorpusEntry{e: c19If(c19Bin("-", two, one), b, a)},
		c19CorpusEntry{e: c19If(a, b, two)}, c19CorpusEntry{e: c19If(c19Bin("=", a, b), b, two)},
		c19CorpusEntry{e: c19Let("k", three, c19If(k, b, c19Bin("*", a, k))), src: "let k=3; if k then b else a*k"},
		c19CorpusEntry{e: c19Let("k", one, c19If(k, b, c19Bin("*", a, k)))},
		c19CorpusEntry{e: c19Bin("+", a, c19If(c19Bin("=", a, c19Num("0")), b, c19If(c19Num("0.5"), one, b))), src: "a + if a=0 then b else if 0.5 then 1 else b"},
		c19CorpusEntry{e: c19If(c19Call("cnt", a, b), b, a)}, c19CorpusEntry{e: c19If(c19Call("cnt", a), b, a)})
	if has["-"] {
		cs = append(cs, c19CorpusEntry{e: c19If(c19Un("-", one), b, a), src: "if -1 then b else a"})
	}
	if has["-"] && has["+"] {
		cs = append(cs,
			c19CorpusEntry{e: c19Un("+", c19Bin("*", a, b)), src: "+a*b"},
			c19CorpusEntry{e: c19Un("-", c19Un("+", c19Bin("^", a, two))), src: "- +a^2"},
			c19CorpusEntry{e: c19Un("+", c19Un("-", c19Bin("^", a, two))), src: "+ -a^2"})
	}
	return cs
}

func c19BoolCorpus() []c19CorpusEntry {
	a, b, c := c19Name("a"), c19Name("b"), c19Name("c")
	t, f := c19Name("true"), c19Name("false")
	return []c19CorpusEntry{
		// pinned source texts: the reading under the priorities example/bool.go declares (^ lowest, then =, |, & highest)
		{e: c19Bin("|", a, c19Bin("&", b, c)), src: "a | b & c"},
		{e: c19Bin("|", c19Bin("&", a, b), c), src: "a & b | c"},
		{e: c19Bin("^", a, c19Bin("=", b, c)), src: "a ^ b = c"},
		{e: c19Bin("^", c19Bin("=", a, b), c), src: "a = b ^ c"},
		{e: c19Bin("=", a, c19Bin("|", b, c)), src: "a = b | c"},
		{e: c19Bin("=", c19Bin("|", a, b), c), src: "a | b = c"},
		{e: c19Bin("^", c19Bin("^", a, b), c), src: "a ^ b ^ c"},
		{e: c19Bin("&", c19Un("!", a), b), src: "!a & b"},
		{e: c19Bin("|", c19Un("!", c19Bin("&", a, b)), c), src: "!(a & b) | c"},
		// the six expressions of example/bool_test.go
		{e: c19Bin("&", a, b)}, {e: c19Bin("|", a, b)}, {e: c19Bin("^", a, b)}, {e: c19Bin("=", a, b)},
		{e: c19Un("!", a)}, {e: c19Bin("|", c19Bin("&", a, b), c)},
		// regrouping in both positions for every operator
		{e: c19Bin("=", c19Bin("=", f, a), f)}, {e: c19Bin("=", c19Bin("=", a, f), f)},
		{e: c19Bin("^", c19Bin("^", t, a), t)}, {e: c19Bin("^", c19Bin("^", a, t), t)},
		{e: c19Bin("|", c19Bin("|", f, a), t)}, {e: c19Bin("&", c19Bin("&", a, t), f)},
		// priorities: ^ lowest, then =, |, & highest; ! takes a postfix expression
		{e: c19Bin("^", a, c19Bin("=", b, c))}, {e: c19Bin("=", c19Bin("^", a, b), c)},
		{e: c19Bin("&", c19Bin("|", a, b), c)}, {e: c19Un("!", c19Bin("&", a, b))}, {e: c19Bin("&", c19Un("!", a), b)},
		// let / if
		{e: c19If(t, a, b)}, {e: c19If(f, a, b)}, {e: c19If(c19Bin("&", t, t), a, b)},
		{e: c19Let("x", t, c19Bin("&", c19Name("x"), a))},
		{e: c19Let("x", c19Bin("&", t, t), c19Bin("&", c19Name("x"), a))},
		{e: c19Let("x", a, c19Let("y", c19Bin("&", c19Name("x"), b), c19Bin("|", c19Name("y"), c19Name("x"))))},
		{e: c19Let("x", c19Bin("|", a, b), c19If(c19Name("x"), c19Let("y", c, c19Bin("^", c19Name("y"), c19Name("x"))), c19Name("x")))},
		{e: c19Let("x", c19If(a, b, c), c19Bin("=", c19Name("x"), a))},
		// a constant let followed by a let of the same name: the first one is gone when the second is compiled
		{e: c19Let("x", c19Bin("&", t, t), c19Let("y", a, c19Bin("&", c19Name("x"), c19Name("y"))))},
		// shadowing a predefined constant
		{e: c19Let("true", a, c19Bin("&", c19Name("true"), b))},
	}
}

// ---------------------------------------------------------------- replay

func (cx *c19Ctx) replay(rp c19Repro) {
	if rp.Tree != "" {
		toks := strings.Fields(rp.Tree)
		rp.Expr = c19Dec(&toks)
	}
	switch {
	case rp.EnumN > 0 || rp.Count > 0:
		for k := 0; k < rp.Count; k++ {
			if rp.Inst == "bool" {
				e := cx.b.alpha.unrank(rp.EnumN, rp.Start+uint64(k))
				cx.boolExplicit(e, cx.b.inst.render(e, (rp.Start+uint64(k))%2 == 1).text, rp.Flags, "replay")
			}
		}
	case rp.Inst == "bool":
		cx.boolExplicit(rp.Expr, rp.Text, rp.Flags, "replay")
	default:
		f := cx.f
		for _, v := range cx.vars {
			if v.Var == rp.Var {
				f = v
			}
		}
		if rp.Flags >= len(f.flags) {
			rp.Flags = 0
		}
		cx.floatExplicit(f, rp.Expr, rp.Text, rp.Flags, "replay")
	}
}
