package main

// C06, the lazy family: pipelines of map / accept / number stages behind forced-parallel stages (slow host function) in
// front of a SHORT-CIRCUIT consumer (first, top(n), present, indexWhere, single).  Compared: the library under
// GOMAXPROCS 1/2/4/16 (-race), the library's sequential path (taskset), a lazy Go reference (below), the Coq
// specification side lazy_seq and the protocol model lazy_model under a seeded schedule (Conc/LazyPipe.v, Run/C06Run.v).
// A failing element is placed inside the demanded prefix (evaluation must fail), just behind the decisive element
// (read-ahead window: the collector's sticky error may or may not surface - pipeline_par_early_stop_eq_seq allows
// exactly "the sequential result, or fails") or far behind it.

import (
	"fmt"
)

var c6LazyCons = []string{"lzFirst", "lzTop", "lzPresent", "lzIndexWhere", "lzSingle"}

func c6IsLazyCons(kind string) bool {
	for _, k := range c6LazyCons {
		if k == kind {
			return true
		}
	}
	return false
}

func (s C6Stage) renderLazyCons(prev string) string {
	switch s.Kind {
	case "lzFirst":
		return prev + ".first()"
	case "lzTop":
		return prev + fmt.Sprintf(".top(%d)", s.K)
	case "lzPresent":
		return prev + fmt.Sprintf(".present(x->x=%d)", s.J)
	case "lzIndexWhere":
		return prev + fmt.Sprintf(".indexWhere(x->x=%d)", s.J)
	case "lzSingle":
		return prev + ".single()"
	}
	panic("unknown lazy consumer " + s.Kind)
}

type lzItem struct {
	v   int64
	err bool
}

// the h-input of stage s for the element v at (error-free) index i
func (s C6Stage) lazyArg(i, v int64) int64 {
	if s.Kind == "number" {
		return l2(s.A, s.B, i, v)
	}
	return l1(s.A, s.B, v)
}

// strictly sequential element sequence behind stage s, errors in place (iterator.Map / iterator.Filter / list.go Number)
func (s C6Stage) lazySeq(in []lzItem) []lzItem {
	out := make([]lzItem, 0, len(in))
	n := int64(0)
	for _, it := range in {
		if it.err {
			out = append(out, it)
			continue
		}
		u := s.lazyArg(n, it.v)
		n++
		if u == s.Fail {
			out = append(out, lzItem{err: true})
			continue
		}
		switch s.Kind {
		case "accept":
			if u%s.K != 0 {
				out = append(out, it)
			}
		default:
			out = append(out, lzItem{v: u})
		}
	}
	return out
}

func (c *C6Case) lazyStream() []lzItem {
	cur := make([]lzItem, c.N)
	for i := range cur {
		cur[i] = lzItem{v: int64(i)}
	}
	for _, s := range c.Stages {
		cur = s.lazySeq(cur)
	}
	return cur
}

// what the consumer concludes from the sequential stream: observation, ok, number of elements it consumed
func (c *C6Case) lazyRef() (obs []int64, ok bool, consumed int, streamHasErr bool) {
	st := c.lazyStream()
	for _, it := range st {
		if it.err {
			streamHasErr = true
		}
	}
	seen := []int64{}
	for i, it := range st {
		if it.err {
			return nil, false, i + 1, streamHasErr
		}
		seen = append(seen, it.v)
		switch c.Term.Kind {
		case "lzFirst":
			return []int64{it.v}, true, i + 1, streamHasErr
		case "lzTop":
			if int64(len(seen)) >= c.Term.K {
				return seen, true, i + 1, streamHasErr
			}
		case "lzPresent":
			if it.v == c.Term.J {
				return []int64{1}, true, i + 1, streamHasErr
			}
		case "lzIndexWhere":
			if it.v == c.Term.J {
				return []int64{int64(i)}, true, i + 1, streamHasErr
			}
		case "lzSingle":
			if len(seen) >= 2 {
				return nil, false, i + 1, streamHasErr
			}
		}
	}
	switch c.Term.Kind {
	case "lzTop":
		return seen, true, len(st), streamHasErr
	case "lzPresent":
		return []int64{0}, true, len(st), streamHasErr
	case "lzIndexWhere":
		return []int64{-1}, true, len(st), streamHasErr
	case "lzSingle":
		if len(seen) == 1 {
			return seen, true, len(st), streamHasErr
		}
	}
	return nil, false, len(st), streamHasErr
}

var c6LazyShapes = [][]string{
	{"map"}, {"accept"}, {"map", "number"}, {"number", "map"}, {"map", "number", "map"}, {"map", "accept"},
	{"accept", "number", "map"}, {"map", "number", "accept"}, {"number", "accept", "number"}, {"map", "map"},
}

// placement of the failing element relative to the decisive one
var c6LazyFailModes = []string{"none", "none", "inside", "window", "window", "far"}

func (r *Rng) c6GenLazy(id int, k int) *C6Case {
	c := &C6Case{ID: id, Seed: int64(r.Intn(1 << 30)), Lazy: true}
	c.N = int64(30 + r.Pick(110))
	hid := 0
	for _, kind := range c6LazyShapes[k%len(c6LazyShapes)] {
		s := r.c6Stage(kind, &hid)
		if c6IsPar(kind) {
			s.Cost = "front" // the first 13 calls are slow: the switch is forced, the rest of the stage runs at full speed
			if r.Chance(0.15) {
				s.Cost = "all"
			}
			if r.Chance(0.1) {
				s.Cost = "none"
			}
		} else {
			s.Cost = "none"
		}
		c.Stages = append(c.Stages, s)
	}
	hid += 2
	// first and single are decided by the first two elements (handled on the caller before any switch): few of them
	cons := []string{"lzTop", "lzIndexWhere", "lzPresent", "lzTop", "lzIndexWhere", "lzPresent", "lzTop", "lzFirst", "lzTop", "lzPresent", "lzIndexWhere", "lzSingle"}
	c.Term = C6Stage{Kind: cons[(k/len(c6LazyShapes)+k)%len(cons)], ID: hid, ID2: hid + 1, Fail: -1, Cost: "none", Cost2: "none"}
	st := c.lazyStream() // no failing element yet
	if len(st) == 0 {
		c.Term.Kind = "lzFirst"
		return c
	}
	// the decisive element: mostly behind the switch (position >= 13)
	d := r.Pick(len(st))
	if len(st) > 20 && r.Chance(0.8) {
		d = 13 + r.Pick(len(st)-13)
	}
	if r.Chance(0.07) {
		d = len(st) + 5 // never decided: the consumer needs the end of the stream
	}
	switch c.Term.Kind {
	case "lzTop":
		c.Term.K = int64(d + 1)
	case "lzPresent", "lzIndexWhere":
		if d < len(st) {
			c.Term.J = st[d].v
		} else {
			c.Term.J = 5000
		}
	}
	_, _, consumed, _ := c.lazyRef()
	// the failing element, by position in the h-inputs of one stage
	mode := c6LazyFailModes[r.Pick(len(c6LazyFailModes))]
	if mode != "none" {
		si := r.Pick(len(c.Stages))
		// h-inputs of stage si in the error-free run
		cur := make([]lzItem, c.N)
		for i := range cur {
			cur[i] = lzItem{v: int64(i)}
		}
		for _, s := range c.Stages[:si] {
			cur = s.lazySeq(cur)
		}
		if len(cur) > 0 {
			// positions of this stage's input roughly proportional to positions of the final stream
			scale := func(p int) int {
				q := p * len(cur) / (len(st) + 1)
				if q >= len(cur) {
					q = len(cur) - 1
				}
				if q < 0 {
					q = 0
				}
				return q
			}
			var pos int
			switch mode {
			case "inside":
				pos = scale(r.Pick(consumed + 1))
			case "window":
				pos = scale(consumed) + 1 + r.Pick(4)
			default:
				pos = scale(consumed) + 20 + r.Pick(40)
			}
			if pos >= len(cur) {
				pos = len(cur) - 1
			}
			c.Stages[si].Fail = c.Stages[si].lazyArg(int64(pos), cur[pos].v)
		}
	}
	return c
}

func (c *C6Case) coqLazy(id int, ncpu int, switched map[int]bool, obs []int64, ok bool) string {
	var st []string
	for _, s := range c.Stages {
		sp := s.coqSP(switched[s.ID], c.Seed+int64(s.ID))
		switch s.Kind {
		case "map":
			st = append(st, "(LMap "+sp+")")
		case "accept":
			st = append(st, "(LAccept "+sp+")")
		default: // number: a closure stage on the calling goroutine, list.go's Number as a step function
			st = append(st, "(LScan [0%Z] (number_step "+sp+"))")
		}
	}
	cons := ""
	switch c.Term.Kind {
	case "lzFirst":
		cons = "LCFirst"
	case "lzTop":
		cons = "(LCTop " + c06CoqZ(c.Term.K) + ")"
	case "lzPresent":
		cons = "(LCPresent " + c06CoqZ(c.Term.J) + ")"
	case "lzIndexWhere":
		cons = "(LCIndexWhere " + c06CoqZ(c.Term.J) + ")"
	case "lzSingle":
		cons = "LCSingle"
	}
	return fmt.Sprintf("(%d%%N, (%d%%N, %s, %s, %s), %s)", id, ncpu, c06CoqZ(c.N), CoqList(st), cons, c06CoqObs(obs, ok))
}

// fixed shapes first: the nested one of the work package (two forced-parallel maps with a closure stage between them)
func c6LazyCorpus() []*C6Case {
	mk := func(n int64, term C6Stage, stages ...C6Stage) *C6Case {
		c := &C6Case{N: n, Lazy: true, Seed: 4711}
		for i := range stages {
			stages[i].ID, stages[i].ID2 = 2*i+2, 2*i+3
			if stages[i].Fail == 0 {
				stages[i].Fail = -1
			}
			if stages[i].Cost == "" {
				stages[i].Cost = "none"
			}
			stages[i].Cost2 = "none"
		}
		term.ID, term.ID2, term.Fail, term.Cost, term.Cost2 = 2*len(stages)+2, 2*len(stages)+3, -1, "none", "none"
		c.Stages, c.Term = stages, term
		return c
	}
	m1 := C6Stage{Kind: "map", A: 3, B: 1, Cost: "front"}
	nb := C6Stage{Kind: "number", A: 2, B: 5}
	m2 := C6Stage{Kind: "map", A: 1, B: 7, Cost: "front"}
	m2late := m2
	m2late.Fail = m2.lazyArg(0, nb.lazyArg(16, m1.lazyArg(0, 16))) // element 16: just behind the decisive one of top(15)
	m1in := m1
	m1in.Fail = m1.lazyArg(0, 9) // element 9: inside the demanded prefix
	ac := C6Stage{Kind: "accept", A: 1, B: 0, K: 3, Cost: "front"}
	return []*C6Case{
		mk(60, C6Stage{Kind: "lzTop", K: 15}, m1, nb, m2),
		mk(60, C6Stage{Kind: "lzTop", K: 15}, m1, nb, m2late),
		mk(60, C6Stage{Kind: "lzTop", K: 15}, m1in, nb, m2),
		mk(80, C6Stage{Kind: "lzIndexWhere", J: 40}, ac, nb, m2),
		mk(80, C6Stage{Kind: "lzFirst"}, ac, m2),
		mk(50, C6Stage{Kind: "lzSingle"}, m1, ac),
	}
}
