package main

// C15 - token layout, comments and literal escapes do not change meaning (plus the tokenizer half of C04).
//
// Every case is one input text together with the layout the generator had in mind: lexemes (text + the
// tokens they denote) alternating with separator runs.  Observed on the implementation: the token stream
// (type, image, line) through the hook verif_hooks_tokens.go.  Compared in Coq (Run/C15Run.v):
//   c15_im  model tokenize = observed stream; and the position-carrying parser model (Syn/ParsePos.v) on the observed
//           tokens = outcome kind of Parser.Parse and, for an error, the line stored in it (every layout case and
//           every case of the malformed stream, value configuration),
//   c15_is  observed stream = the tokens the layout denotes, each on line 1 + number of LF before it.
// Independent oracle in Go: a layout variant and the canonical layout (ASCII spellings, explicit '*',
// single blanks) give the same token list and - for the value parser - the same AST; string literals
// evaluate to the string they spell; a stray token is reported on its own line.

import (
	"encoding/json"
	"fmt"
	"github.com/hneemann/parser2"
	"github.com/hneemann/parser2/funcGen"
	"github.com/hneemann/parser2/value"
	"io"
	"log"
	"sort"
	"strings"
	"time"
	"unicode"
	"unicode/utf8"
)

func init() { register("c15", cmdC15) }

// ---------------------------------------------------------------- configurations

type tokCfg struct {
	Name     string
	Ops      []string
	TextOps  map[string]string
	Keywords []string
	Comments bool
	Comfort  bool
	parser   *parser2.Parser[value.Value] // nil for the custom configuration
}

var customOps = []string{"+", "-", "*", "/", "^", "=", "->", "<", "<=", ">", ">=", "<<", "!=", "&", "|", "+-", "!", "~", "%"}
var customTextOps = map[string]string{"and": "&", "or": "|", "mod": "%"}
var customKeywords = []string{"if", "then", "else", "let"}

func makeCfg(name string, comments, comfort bool) *tokCfg {
	if name == "custom" {
		return &tokCfg{Name: name, Ops: customOps, TextOps: customTextOps, Keywords: customKeywords, Comments: comments, Comfort: comfort}
	}
	p := value.New().GetParser()
	if comments {
		p.AllowComments()
	}
	p.Comfort(comfort)
	ops, to, kw, c, cf := p.VerifTokenizerConfig()
	return &tokCfg{Name: name, Ops: ops, TextOps: to, Keywords: kw, Comments: c, Comfort: cf, parser: p}
}

var cfgCache = map[string]*tokCfg{}

func getCfg(name string, comments, comfort bool) *tokCfg {
	k := fmt.Sprint(name, comments, comfort)
	if c, ok := cfgCache[k]; ok {
		return c
	}
	c := makeCfg(name, comments, comfort)
	cfgCache[k] = c
	return c
}

type obsTok struct {
	Typ  int
	Img  string
	Line int
}

// tokens runs the real tokenizer; ok=false if it did not come back within the watchdog time
func (c *tokCfg) tokens(text string) ([]obsTok, bool) {
	ch := make(chan []parser2.VerifToken, 1)
	go func() {
		if c.parser != nil {
			ch <- c.parser.VerifTokens(text)
		} else {
			ch <- parser2.VerifTokenize(text, c.Ops, c.TextOps, c.Keywords, c.Comments, c.Comfort)
		}
	}()
	select {
	case ts := <-ch:
		res := make([]obsTok, len(ts))
		for i, t := range ts {
			res[i] = obsTok{t.Typ, t.Image, t.Line}
		}
		return res, true
	case <-time.After(10 * time.Second):
		return nil, false
	}
}

func anyIdent(name string) (parser2.Identifier[value.Value], bool) {
	return parser2.Identifier[value.Value]{Name: name}, true
}

// parse returns the printed AST or the error
func (c *tokCfg) parse(text string) (ast string, line int, err error) {
	defer func() {
		if r := recover(); r != nil {
			err = parsePanic{r}
		}
	}()
	a, e := c.parser.Parse(text, anyIdent)
	if e != nil {
		return "", parser2.VerifLine(e), e
	}
	return a.String(), 0, nil
}

// parsePanic is the error parse returns when Parser.Parse panicked
type parsePanic struct{ v any }

func (p parsePanic) Error() string { return fmt.Sprintf("panic: %v", p.v) }

// parObs observes Parser.Parse on the input for the comparison with the position-carrying parser model
// (Run/C15Run.v par15_model): the Coq term of type c15_par - outcome kind (0 AST, 1 error, 2 panic, 3 not observed),
// the line stored in the error + 1 (VerifLine reads errorWithLine.line; -1 = built from TokenEof -> 0),
// the number images of the input the number parser rejects, the parser tables.
func (c *tokCfg) parObs(input string, obs []obsTok, sum *Summary) string {
	if c.parser == nil || len(obs) > 400 {
		sum.Count("parser_model_compared", "not compared (no parser / long input)")
		return "no_parse"
	}
	_, line, err := c.parse(input)
	pk, ln := 0, 0
	switch e := err.(type) {
	case nil:
		sum.Count("parser_model_compared", "AST")
	case parsePanic:
		_ = e
		pk = 2
		sum.Count("parser_model_compared", "panic")
	default:
		pk, ln = 1, line+1
		if line < 0 {
			sum.Count("parser_model_compared", "error built from TokenEof (no line)")
		} else if line > 1 {
			sum.Count("parser_model_compared", "error with a line > 1")
		} else {
			sum.Count("parser_model_compared", "error with line 1")
		}
	}
	var bad []string
	seen := map[string]bool{}
	for _, t := range obs {
		if t.Typ == tNumber && !seen[t.Img] {
			seen[t.Img] = true
			if _, _, e := c.parse(t.Img); e != nil {
				bad = append(bad, CoqStr(t.Img))
			}
		}
	}
	return fmt.Sprintf("(%d, %d, %s, p_value)", pk, ln, CoqList(bad))
}

// coqParTables: the tables of the value parser the parser model needs (written once per case file)
func coqParTables() string {
	p := getCfg("value", false, false)
	ops, unary, _, _ := p.parser.VerifParseConfig()
	co := func(l []string) string {
		items := make([]string, len(l))
		for i, o := range l {
			items[i] = CoqStr(o)
		}
		return CoqList(items)
	}
	_, _, e := p.parse("\"s\"")
	return fmt.Sprintf("Definition p_value : c15_ptab := (%s, %s, %s).\n", co(ops), co(unary), CoqBool(e == nil))
}

func decodeRunes(s string) []rune {
	var rs []rune
	for len(s) > 0 {
		r, n := utf8.DecodeRuneInString(s)
		rs = append(rs, r)
		s = s[n:]
	}
	return rs
}

func (c *tokCfg) coq(input string) string {
	seen := map[rune]bool{}
	var letters, numbers []rune
	for _, r := range decodeRunes(input) {
		if seen[r] {
			continue
		}
		seen[r] = true
		if unicode.IsLetter(r) {
			letters = append(letters, r)
		}
		if unicode.IsNumber(r) {
			numbers = append(numbers, r)
		}
	}
	return fmt.Sprintf("(mkc k_%s %s %s %s %s)", c.Name, CoqBool(c.Comments), CoqBool(c.Comfort), CoqRunes(letters), CoqRunes(numbers))
}

// coqTables: operators, text operators, keywords of a configuration (written once per case file)
func (c *tokCfg) coqTables() string {
	ops := make([]string, len(c.Ops))
	for i, o := range c.Ops {
		ops[i] = CoqStr(o)
	}
	var tos []string
	for _, k := range sortedKeys(c.TextOps) {
		tos = append(tos, "("+CoqStr(k)+","+CoqStr(c.TextOps[k])+")")
	}
	kws := make([]string, len(c.Keywords))
	for i, o := range c.Keywords {
		kws[i] = CoqStr(o)
	}
	return fmt.Sprintf("Definition k_%s : list str * list (str * str) * list str := (%s,%s,%s).\n", c.Name, CoqList(ops), CoqList(tos), CoqList(kws))
}

// ---------------------------------------------------------------- layouts

type PTok struct {
	Typ int
	Img string
}

// Sep is one separator; Kind: blank tab cr lf linec blockc lineE blockE
type Sep struct {
	Kind string
	Body string
	Term string // linec: "\n" or "\r"
}

func (s Sep) Text() string {
	switch s.Kind {
	case "blank":
		return " "
	case "tab":
		return "\t"
	case "cr":
		return "\r"
	case "lf":
		return "\n"
	case "linec":
		return "//" + s.Body + s.Term
	case "blockc":
		return "/*" + s.Body + "*/"
	case "lineE":
		return "//" + s.Body
	case "blockE":
		return "/*" + s.Body
	}
	panic("sep kind " + s.Kind)
}

func (s Sep) Coq() string {
	switch s.Kind {
	case "blank":
		return "SBlank"
	case "tab":
		return "STab"
	case "cr":
		return "SCR"
	case "lf":
		return "SLF"
	case "linec":
		return fmt.Sprintf("SLineC %s %d", CoqStr(s.Body), s.Term[0])
	case "blockc":
		return "SBlockC " + CoqStr(s.Body)
	case "lineE":
		return "SLineE " + CoqStr(s.Body)
	case "blockE":
		return "SBlockE " + CoqStr(s.Body)
	}
	panic("sep kind " + s.Kind)
}

// Item is a lexeme (Seps == nil) or a separator run
type Item struct {
	IsSep bool
	Seps  []Sep  `json:",omitempty"`
	Text  string `json:",omitempty"` // as written
	Canon string `json:",omitempty"` // canonical spelling used by the Go oracle
	Toks  []PTok `json:",omitempty"`
	Kind  int    `json:",omitempty"` // 0 plain, 1 string literal, 2 quoted identifier
	Class string `json:",omitempty"`
	Glue  bool   `json:",omitempty"` // no separator may follow (comfort: call parenthesis, omitted '*')
	Mark  bool   `json:",omitempty"` // error-line family: the token the parser must stop at
}

func (it Item) text() string {
	if it.IsSep {
		var b strings.Builder
		for _, s := range it.Seps {
			b.WriteString(s.Text())
		}
		return b.String()
	}
	return it.Text
}

func (it Item) coq() string {
	if it.IsSep {
		xs := make([]string, len(it.Seps))
		for i, s := range it.Seps {
			xs[i] = s.Coq()
		}
		return "RSep " + CoqList(xs)
	}
	ts := make([]string, len(it.Toks))
	for i, t := range it.Toks {
		ts[i] = fmt.Sprintf("(%d,%s)", t.Typ, CoqStr(t.Img))
	}
	return fmt.Sprintf("RLex %d %s %s", it.Kind, CoqStr(it.Text), CoqList(ts))
}

func (it Item) shape() string {
	if len(it.Seps) == 0 {
		return "tight"
	}
	ks := make([]string, len(it.Seps))
	for i, s := range it.Seps {
		ks[i] = s.Kind
		if (s.Kind == "blockc" || s.Kind == "blockE") && strings.Contains(s.Body, "\n") {
			ks[i] += "+lf"
		}
	}
	return strings.Join(ks, ",")
}

// C15Case is what a replay file carries
type C15Case struct {
	Cfg      string
	Comments bool
	Comfort  bool
	Items    []Item `json:",omitempty"`
	Raw      string `json:",omitempty"` // malformed stream: the input itself (as Go string, may be invalid UTF-8 -> RawHex)
	RawHex   string `json:",omitempty"`
	Stray    bool   `json:",omitempty"` // error-line case: the last lexeme is a stray token
	Offend   int    `json:",omitempty"` // error-line case: 1 + index of the item the parser must stop at
	MustOK   bool   `json:",omitempty"` // the program must parse (quoted identifiers that spell keywords ...)
	Note     string `json:",omitempty"`
}

// ---------------------------------------------------------------- program generator (lexeme lists)

const (
	tIdent        = 0
	tKeyWord      = 1
	tOpen         = 2
	tClose        = 3
	tOpenBracket  = 4
	tCloseBracket = 5
	tOpenCurly    = 6
	tCloseCurly   = 7
	tDot          = 8
	tComma        = 9
	tColon        = 10
	tSemicolon    = 11
	tNumber       = 12
	tString       = 13
	tOperate      = 14
	tInvalid      = 16
)

type pgen struct {
	r   *Rng
	cfg *tokCfg
	out []Item
}

func (g *pgen) lex(text, canon string, class string, toks ...PTok) {
	g.out = append(g.out, Item{Text: text, Canon: canon, Toks: toks, Class: class})
}
func (g *pgen) punct(text string, typ int, class string) {
	g.lex(text, text, class, PTok{typ, text})
}
func (g *pgen) kw(k string) { g.lex(k, k, "keyword", PTok{tKeyWord, k}) }
func (g *pgen) glue()       { g.out[len(g.out)-1].Glue = true }

var identPool = []string{"a", "b", "x1", "foo_bar", "e", "ünï", "pi", "_t", "E2", "λ", "a5b", "then2"}
var numberPool = []string{"0", "1", "42", "1.5", "2e3", "1e-5", "7e+2", "3.25", "10", "1e5", "٣", "2."}
var aliasOf = map[string][]string{"*": {"•", "×"}, "/": {"÷"}, "-": {"–"}, "^": {"ˆ"}}
var superDigits = []rune("⁰¹²³⁴⁵⁶⁷⁸⁹")

func escapeLit(s string) string {
	var b strings.Builder
	b.WriteByte('"')
	for _, c := range s {
		switch c {
		case '\\':
			b.WriteString("\\\\")
		case '"':
			b.WriteString("\\\"")
		case '\n':
			b.WriteString("\\n")
		case '\r':
			b.WriteString("\\r")
		case '\t':
			b.WriteString("\\t")
		default:
			b.WriteRune(c)
		}
	}
	b.WriteByte('"')
	return b.String()
}

func (r *Rng) strNoNul(maxLen int) string {
	n := r.Pick(maxLen + 1)
	rs := make([]rune, n)
	for i := range rs {
		rs[i] = r.Rune(false)
	}
	return string(rs)
}

func (g *pgen) strLit(s string) {
	t := escapeLit(s)
	g.out = append(g.out, Item{Text: t, Canon: t, Toks: []PTok{{tString, s}}, Kind: 1, Class: "string"})
}

func (g *pgen) quoted(s string) {
	t := "'" + s + "'"
	g.out = append(g.out, Item{Text: t, Canon: t, Toks: []PTok{{tIdent, s}}, Kind: 2, Class: "quoted"})
}

// quotedPool: contents of quoted identifiers that meet another feature of the scanner when (wrongly) looked up or
// rescanned: every keyword and text operator of the configuration, numbers, alias runes, comment openers, operators
func quotedPool(cfg *tokCfg) []string {
	pool := []string{"a b", "x•y", "k//c", "1", "42", "1.5", "2e3", "•", "×", "÷", "–", "ˆ", "²", "//", "/*", "*/", "/*x*/", "//x",
		"+", "->", "=", "(", ")", "\"", " ", "\\", "a.b", "-1", "if then", "x y z"}
	if cfg != nil {
		pool = append(pool, cfg.Keywords...)
		pool = append(pool, sortedKeys(cfg.TextOps)...)
		pool = append(pool, cfg.Ops...)
	}
	return pool
}

func (g *pgen) quotedName() string {
	if g.r.Chance(0.6) {
		pool := quotedPool(g.cfg)
		return pool[g.r.Pick(len(pool))]
	}
	var rs []rune
	for i := g.r.Pick(6); i >= 0; i-- {
		c := g.r.Rune(false)
		if c == '\'' || c == '\n' {
			c = 'q'
		}
		rs = append(rs, c)
	}
	return string(rs)
}

func (g *pgen) ident() {
	if g.r.Chance(0.12) {
		g.quoted(g.quotedName())
		return
	}
	n := identPool[g.r.Pick(len(identPool))]
	g.lex(n, n, "ident", PTok{tIdent, n})
}

func (g *pgen) number() {
	n := numberPool[g.r.Pick(len(numberPool))]
	g.lex(n, n, "number", PTok{tNumber, n})
}

func (g *pgen) op(o string) {
	text := o
	if al, ok := aliasOf[o]; ok && g.r.Chance(0.3) {
		text = al[g.r.Pick(len(al))]
	}
	g.lex(text, o, "op", PTok{tOperate, o})
}

var valueBinOps = []string{"|", "&", "=", "!=", "~", "<", ">", "<=", ">=", "+", "-", "<<", ">>", "*", "%", "/", "^", "*", "*", "+", "-", "/", "^"}

func (g *pgen) binop() {
	if g.cfg.Name == "custom" {
		if g.r.Chance(0.2) {
			ks := sortedKeys(customTextOps)
			k := ks[g.r.Pick(len(ks))]
			g.lex(k, k, "textop", PTok{tOperate, customTextOps[k]})
			return
		}
		bo := []string{"+", "-", "*", "/", "^", "=", "<", "<=", ">", ">=", "<<", "!=", "&", "|", "+-", "%", "*", "*"}
		g.op(bo[g.r.Pick(len(bo))])
		return
	}
	g.op(valueBinOps[g.r.Pick(len(valueBinOps))])
}

func (g *pgen) lastClass() string {
	if len(g.out) == 0 {
		return ""
	}
	return g.out[len(g.out)-1].Class
}

func (g *pgen) atom() {
	switch g.r.Pick(8) {
	case 0, 1, 2:
		g.ident()
	case 3, 4:
		g.number()
	case 5:
		g.strLit(g.r.strNoNul(8))
	case 6:
		g.ident()
		g.super()
	default:
		g.number()
	}
}

func (g *pgen) super() {
	d := g.r.Pick(10)
	g.lex(string(superDigits[d]), fmt.Sprintf("^ %d", d), "super", PTok{tOperate, "^"}, PTok{tNumber, fmt.Sprint(d)})
}

func (g *pgen) args(d int) {
	n := g.r.Pick(3)
	for i := 0; i < n; i++ {
		if i > 0 {
			g.punct(",", tComma, "punct")
		}
		if g.r.Chance(0.2) {
			g.ident()
			g.op("->")
			g.expr(d - 1)
		} else {
			g.expr(d - 1)
		}
	}
}

func (g *pgen) call(d int) {
	n := identPool[g.r.Pick(len(identPool))]
	g.lex(n, n, "ident", PTok{tIdent, n})
	if g.cfg.Comfort {
		g.glue() // a blank before '(' means multiplication in comfort mode
	}
	g.punct("(", tOpen, "open")
	g.args(d)
	g.punct(")", tClose, "close")
}

func (g *pgen) expr(d int) {
	if d <= 0 {
		g.atom()
		return
	}
	switch g.r.Pick(16) {
	case 0, 1:
		g.atom()
	case 2, 3, 4, 5:
		g.expr(d - 1)
		g.binop()
		g.expr(d - 1)
	case 6:
		g.punct("(", tOpen, "open")
		g.expr(d - 1)
		g.punct(")", tClose, "close")
		if g.r.Chance(0.2) {
			g.super()
		}
	case 7:
		if g.r.Chance(0.7) {
			g.op("-")
		} else {
			g.op("!")
		}
		g.atom()
	case 8, 9:
		g.call(d)
	case 10:
		g.punct("[", tOpenBracket, "bracket")
		n := g.r.Pick(4)
		for i := 0; i < n; i++ {
			if i > 0 {
				g.punct(",", tComma, "punct")
			}
			g.expr(d - 1)
		}
		g.punct("]", tCloseBracket, "bracket")
	case 11:
		g.kw("if")
		g.expr(d - 1)
		g.kw("then")
		g.expr(d - 1)
		g.kw("else")
		g.expr(d - 1)
	case 12:
		g.ident()
		g.punct(".", tDot, "punct")
		g.call(d)
	case 13:
		g.ident()
		g.punct("[", tOpenBracket, "bracket")
		g.expr(d - 1)
		g.punct("]", tCloseBracket, "bracket")
	case 14:
		g.punct("{", tOpenCurly, "bracket")
		n := g.r.Pick(3)
		for i := 0; i < n; i++ {
			if i > 0 {
				g.punct(",", tComma, "punct")
			}
			g.ident()
			g.punct(":", tColon, "punct")
			g.expr(d - 1)
		}
		g.punct("}", tCloseCurly, "bracket")
	default:
		g.atom()
	}
}

func (g *pgen) program(d int) {
	for i := g.r.Pick(3); i > 0; i-- {
		if g.cfg.Name != "custom" && g.r.Chance(0.3) {
			g.kw("func")
			n := identPool[g.r.Pick(len(identPool))]
			g.lex(n, n, "ident", PTok{tIdent, n})
			if g.cfg.Comfort {
				g.glue()
			}
			g.punct("(", tOpen, "open")
			g.lex("q", "q", "ident", PTok{tIdent, "q"})
			g.punct(")", tClose, "close")
			if g.cfg.Comfort {
				// ')' followed by an operand would be a product in comfort mode: keep the body in a keyword form
				g.kw("if")
				g.expr(0)
				g.kw("then")
				g.expr(0)
				g.kw("else")
				g.expr(0)
			} else {
				g.expr(d - 1)
			}
		} else {
			g.kw("let")
			g.ident()
			g.op("=")
			g.expr(d - 1)
		}
		g.punct(";", tSemicolon, "punct")
	}
	g.expr(d)
}

func operandEnd(class string) bool {
	return class == "number" || class == "ident" || class == "quoted" || class == "close"
}
func operandStart(class string) bool {
	return class == "number" || class == "ident" || class == "quoted" || class == "open"
}

// comfort mode: omit some multiplication signs between number/identifier/')' and number/identifier/'('
func (g *pgen) omitStars() {
	for i := 1; i+1 < len(g.out); i++ {
		it := &g.out[i]
		if it.Class == "op" && it.Canon == "*" && operandEnd(g.out[i-1].Class) && operandStart(g.out[i+1].Class) && !g.out[i-1].Glue && g.r.Chance(0.6) {
			it.Text = ""
			it.Class = "implicit"
			it.Glue = true
		}
	}
}

// ---------------------------------------------------------------- separators

func firstRune(s string) rune { r, _ := utf8.DecodeRuneInString(s); return r }
func lastRune(s string) rune  { r, _ := utf8.DecodeLastRuneInString(s); return r }

func aliasRune(r rune) rune {
	switch r {
	case '•', '×':
		return '*'
	case '÷':
		return '/'
	case '–':
		return '-'
	case 'ˆ':
		return '^'
	}
	return r
}

func isSuper(r rune) bool { return strings.ContainsRune("⁰¹²³⁴⁵⁶⁷⁸⁹", r) }

// canTight: may the two lexemes be written without anything between them (conservative lexical rule)
func (c *tokCfg) canTight(left, right Item) bool {
	if right.Text == "" || left.Text == "" {
		return false
	}
	f := aliasRune(firstRune(right.Text))
	switch left.Class {
	case "ident", "keyword", "textop":
		if unicode.IsLetter(f) || f == '_' || (unicode.IsNumber(f) && !isSuper(f)) {
			return false
		}
	case "number":
		l := lastRune(left.Text)
		if (unicode.IsNumber(f) && !isSuper(f)) || f == '.' || f == 'e' || (l == 'e' && (f == '-' || f == '+')) {
			return false
		}
	case "op":
		pre := left.Canon + string(f)
		for _, o := range c.Ops {
			if strings.HasPrefix(o, pre) {
				return false
			}
		}
		if c.Comments && lastRune(left.Text) == '/' && (firstRune(right.Text) == '/' || firstRune(right.Text) == '*') {
			return false
		}
	}
	return true
}

var lineBodies = []string{"", "c", " c ", "*", "/", "\"", "'", "/*", "*/", "//", "a\"b'c", "\t•", "x = 1", "\\"}
var blockBodies = []string{"", "c", " c ", "*", "/", "\"", "'", "\n", "**", "/*", "//", "\n\n*\n", " a\nb ", "/", "*\n", "\r\n", "•×"}

func (g *pgen) randSep(comments bool) Sep {
	k := g.r.Pick(10)
	if !comments && k >= 6 {
		k = g.r.Pick(6)
	}
	switch k {
	case 0, 1:
		return Sep{Kind: "blank"}
	case 2:
		return Sep{Kind: "tab"}
	case 3:
		return Sep{Kind: "cr"}
	case 4, 5:
		return Sep{Kind: "lf"}
	case 6, 7:
		b := lineBodies[g.r.Pick(len(lineBodies))]
		if g.r.Chance(0.2) {
			b = strings.Map(func(c rune) rune {
				if c == '\n' || c == '\r' {
					return ' '
				}
				return c
			}, g.r.strNoNul(6))
		}
		t := "\n"
		if g.r.Chance(0.2) {
			t = "\r"
		}
		return Sep{Kind: "linec", Body: b, Term: t}
	default:
		b := blockBodies[g.r.Pick(len(blockBodies))]
		if g.r.Chance(0.2) {
			b = strings.ReplaceAll(g.r.strNoNul(6), "*/", "* /")
		}
		return Sep{Kind: "blockc", Body: b}
	}
}

// layout inserts separator runs between the lexemes; mode: "random", "canon" (one blank everywhere), "min" (nothing where possible)
func (g *pgen) layout(lexemes []Item, mode string) []Item {
	var res []Item
	comments := g.cfg.Comments
	sepRun := func(n int, prevText string) Item {
		var seps []Sep
		for i := 0; i < n; i++ {
			s := g.randSep(comments)
			// a comment cannot be written tight against a preceding '/' (it would read as '//' or '/*')
			if i == 0 && (s.Kind == "linec" || s.Kind == "blockc") && strings.HasSuffix(prevText, "/") {
				seps = append(seps, Sep{Kind: "blank"})
			}
			seps = append(seps, s)
		}
		return Item{IsSep: true, Seps: seps}
	}
	if mode == "random" && g.r.Chance(0.3) {
		res = append(res, sepRun(1+g.r.Pick(2), ""))
	}
	for i, lx := range lexemes {
		res = append(res, lx)
		if i+1 == len(lexemes) {
			break
		}
		if lx.Glue {
			continue
		}
		// the next lexeme with text decides whether nothing may stand between
		nx := lexemes[i+1]
		if nx.Text == "" && i+2 < len(lexemes) {
			nx = lexemes[i+2]
		}
		tight := g.cfg.canTight(lx, nx)
		if g.cfg.Comfort && lexemes[i+1].Class == "implicit" {
			// juxtaposition: identifier followed by '(' needs a blank; otherwise only the lexical rule
			if nx.Class == "open" && (lx.Class == "ident" || lx.Class == "quoted") {
				tight = false
			}
		}
		switch mode {
		case "canon":
			res = append(res, Item{IsSep: true, Seps: []Sep{{Kind: "blank"}}})
		case "min":
			if !tight {
				res = append(res, Item{IsSep: true, Seps: []Sep{{Kind: "blank"}}})
			}
		default:
			n := g.r.Pick(4)
			if n == 0 && !tight {
				n = 1
			}
			if n > 0 {
				res = append(res, sepRun(n, lx.Text))
			}
		}
	}
	if mode == "random" && g.r.Chance(0.3) {
		last := lexemes[len(lexemes)-1].Text
		it := sepRun(g.r.Pick(3), last)
		if comments && g.r.Chance(0.5) {
			if len(it.Seps) == 0 && strings.HasSuffix(last, "/") {
				it.Seps = append(it.Seps, Sep{Kind: "blank"})
			}
			// comment at the end of the input, terminated by the end of the input
			switch g.r.Pick(3) {
			case 0:
				it.Seps = append(it.Seps, Sep{Kind: "lineE", Body: lineBodies[g.r.Pick(len(lineBodies))]})
			case 1:
				it.Seps = append(it.Seps, Sep{Kind: "blockc", Body: blockBodies[g.r.Pick(len(blockBodies))]})
			default:
				b := blockBodies[g.r.Pick(len(blockBodies))]
				it.Seps = append(it.Seps, Sep{Kind: "blockE", Body: b})
			}
		}
		if len(it.Seps) > 0 {
			res = append(res, it)
		}
	}
	return res
}

func itemsText(items []Item) string {
	var b strings.Builder
	for _, it := range items {
		b.WriteString(it.text())
	}
	return b.String()
}

// canonical text: canonical spellings separated by single blanks (nothing after a glued lexeme with text)
func canonText(items []Item) string {
	var b strings.Builder
	for _, it := range items {
		if it.IsSep {
			continue
		}
		b.WriteString(it.Canon)
		if !(it.Glue && it.Text != "") {
			b.WriteString(" ")
		}
	}
	return b.String()
}

type expTok struct {
	PTok
	Line int
	Item int // index of the lexeme item
}

func expected(items []Item) []expTok {
	var res []expTok
	line := 1
	for i, it := range items {
		if !it.IsSep {
			for _, t := range it.Toks {
				res = append(res, expTok{t, line, i})
			}
		}
		line += strings.Count(it.text(), "\n")
	}
	return res
}

func showToks(ts []obsTok, lines bool) string {
	var b strings.Builder
	for i, t := range ts {
		if i > 0 {
			b.WriteString(" ")
		}
		if lines {
			fmt.Fprintf(&b, "%d:%q@%d", t.Typ, t.Img, t.Line)
		} else {
			fmt.Fprintf(&b, "%d:%q", t.Typ, t.Img)
		}
	}
	return b.String()
}

func coqObs(ts []obsTok) string {
	xs := make([]string, len(ts))
	for i, t := range ts {
		xs[i] = fmt.Sprintf("(%d,%s,%d)", t.Typ, CoqStr(t.Img), t.Line)
	}
	return CoqList(xs)
}

// boundary signature around lexeme item i: left class, separator shape, right class
func boundarySig(items []Item, i int) string {
	left, shape := "start", "tight"
	for j := i - 1; j >= 0; j-- {
		if items[j].IsSep {
			shape = items[j].shape()
			continue
		}
		if items[j].Text == "" {
			continue
		}
		left = items[j].Class
		break
	}
	return fmt.Sprintf("%s|%s|%s", left, shape, items[i].Class)
}

// sepKinds: the kinds of separators standing between the previous lexeme and lexeme item i
func sepKinds(items []Item, i int) string {
	ks := map[string]bool{}
	for j := i - 1; j >= 0; j-- {
		if !items[j].IsSep {
			if items[j].Text == "" {
				continue
			}
			break
		}
		for _, k := range strings.Split(items[j].shape(), ",") {
			ks[k] = true
		}
	}
	return strings.Join(sortedKeys(ks), ",")
}

func literalSig(it Item) string {
	cls := map[string]bool{}
	for _, c := range it.Toks[0].Img {
		switch {
		case aliasRune(c) != c:
			cls["alias-rune"] = true
		case c == '"' || c == '\\' || c == '\'':
			cls[runeClass(c)] = true
		case c < 0x20:
			cls["C0-control"] = true
		}
	}
	return fmt.Sprintf("%s-literal|%v", it.Class, sortedKeys(cls))
}

type c15run struct {
	sum *Summary
	cw  *CaseWriter
	id  int
}

// runLayout runs one layout case; returns false if a violation was recorded
func (x *c15run) runLayout(cs C15Case, source string) {
	cfg := getCfg(cs.Cfg, cs.Comments, cs.Comfort)
	x.id++
	id := x.id
	sum := x.sum
	input := itemsText(cs.Items)
	obs, ok := cfg.tokens(input)
	human := map[string]any{"input": input, "config": fmt.Sprintf("%s comments=%v comfort=%v", cs.Cfg, cs.Comments, cs.Comfort), "repro": cs, "source": source}
	if !ok {
		human["signature"] = "hang"
		sum.Cases[fmt.Sprint(id)] = human
		sum.GoViolations = append(sum.GoViolations, GoViolation{CaseID: id, What: "tokenizer did not return within 10 s", Sig: "hang", Human: human})
		return
	}
	sum.Evaluations++
	exp := expected(cs.Items)
	human["tokens"] = showToks(obs, true)
	// distribution
	sum.Count("config", fmt.Sprintf("%s comments=%v comfort=%v", cs.Cfg, cs.Comments, cs.Comfort))
	sum.Count("source", source)
	sum.Count("input_runes", bucket(utf8.RuneCountInString(input)))
	sum.Count("tokens", bucket(len(obs)))
	nsep := 0
	for i, it := range cs.Items {
		if it.IsSep {
			nsep++
			for _, s := range it.Seps {
				sum.Count("separator_kinds", s.Kind)
			}
			continue
		}
		sum.Count("lexeme_classes", it.Class)
		if it.Text != "" || it.Class == "implicit" {
			b := boundarySig(cs.Items, i)
			sum.Nontriv(fmt.Sprintf("%s|cm=%v|cf=%v", b, cs.Comments, cs.Comfort))
		}
	}
	// oracle 1 (Go): expected tokens and lines
	sig := ""
	what := ""
	for i := 0; i < len(exp) || i < len(obs); i++ {
		if i >= len(exp) || i >= len(obs) || exp[i].Typ != obs[i].Typ || exp[i].Img != obs[i].Img {
			k := len(cs.Items) - 1
			if i < len(exp) {
				k = exp[i].Item
			}
			for k > 0 && cs.Items[k].IsSep {
				k--
			}
			if cs.Items[k].Kind != 0 && i < len(obs) && i < len(exp) && exp[i].Typ == obs[i].Typ {
				// literal kind and the class of the first rune that is not reproduced
				er, or := []rune(exp[i].Img), []rune(obs[i].Img)
				j := 0
				for j < len(er) && j < len(or) && er[j] == or[j] {
					j++
				}
				cls := "end"
				if j < len(er) {
					cls = runeClass(er[j])
					if aliasRune(er[j]) != er[j] {
						cls = "alias-rune"
					}
				}
				sig = fmt.Sprintf("%s-literal|%s", cs.Items[k].Class, cls)
			} else if cs.Items[k].Kind != 0 && i < len(obs) && i < len(exp) && exp[i].Img == obs[i].Img {
				// the literal's content is right but it is not the literal's token type (keyword lookup on a quoted identifier ...)
				sig = fmt.Sprintf("%s-literal|token-type", cs.Items[k].Class)
			} else {
				sig = boundarySig(cs.Items, k)
			}
			what = fmt.Sprintf("token %d differs from the token the layout denotes", i)
			break
		}
		if exp[i].Line != obs[i].Line {
			sig = "line|" + sepKinds(cs.Items, exp[i].Item)
			what = fmt.Sprintf("token %d is reported on line %d, it starts on line %d", i, obs[i].Line, exp[i].Line)
			break
		}
	}
	var expObs []obsTok
	for _, e := range exp {
		expObs = append(expObs, obsTok{e.Typ, e.Img, e.Line})
	}
	// oracle 2 (Go): canonical layout of the same lexemes gives the same token list / the same AST
	if sig == "" && !cs.Stray {
		canon := canonText(cs.Items)
		cobs, cok := cfg.tokens(canon)
		if !cok || showToks(cobs, false) != showToks(obs, false) {
			sig = "canonical-differs"
			what = "layout variant and canonical layout give different token lists: canonical " + fmt.Sprintf("%q", canon) + " -> " + showToks(cobs, false)
		} else if cfg.parser != nil {
			a1, _, e1 := cfg.parse(input)
			a2, _, e2 := cfg.parse(canon)
			if (e1 == nil) != (e2 == nil) || a1 != a2 {
				sig = "ast-differs"
				what = fmt.Sprintf("layout variant and canonical layout parse differently: %q / %v vs %q / %v", a1, e1, a2, e2)
			}
			if e1 == nil {
				sum.Count("parse", "ok")
			} else {
				sum.Count("parse", "error")
			}
		}
	}
	// oracle 3 (Go): a stray token at the end is reported on its own line
	if sig == "" && cs.Stray && cfg.parser != nil {
		_, line, err := cfg.parse(input)
		want := exp[len(exp)-1].Line
		if err == nil {
			sig, what = "stray-accepted", "input with a stray token parses"
		} else if !strings.Contains(err.Error(), "§") {
			// an earlier error (unparsable number, ...) - the stray token was not reached
			sum.Count("parse", "stray-not-reached")
		} else if line != want {
			sig = "error-line|" + boundarySig(cs.Items, exp[len(exp)-1].Item)
			what = fmt.Sprintf("syntax error reported in line %d, the offending token starts on line %d (%v)", line, want, err)
		}
		sum.Count("parse", "stray")
	}
	// oracle 3a (Go): error-line family - the parser stops at the marked token and reports the line it starts on
	if sig == "" && cs.Offend > 0 && cfg.parser != nil {
		want := 1
		for _, it := range cs.Items[:cs.Offend-1] {
			want += strings.Count(it.text(), "\n")
		}
		_, line, err := cfg.parse(input)
		if err == nil {
			sig, what = "error-line|"+cs.Note+"|accepted", "input with an injected syntax error parses"
		} else if line != want {
			sig = "error-line|" + cs.Note
			what = fmt.Sprintf("syntax error reported in line %d, the offending token %q starts on line %d (%v)", line, cs.Items[cs.Offend-1].Text, want, err)
		}
		sum.Count("parse", "error-line")
		if want > 1 {
			sum.Count("error_line_position", "offending token behind a line break")
		} else {
			sum.Count("error_line_position", "offending token on line 1")
		}
	}
	// oracle 3b (Go): programs that only use quoted identifiers in name positions must parse
	if sig == "" && cs.MustOK && cfg.parser != nil {
		if _, _, err := cfg.parse(input); err != nil {
			sig, what = "quoted-literal|must-parse", "a program whose names are quoted identifiers does not parse: "+err.Error()
		}
	}
	// oracle 4 (Go): a lone string literal evaluates to the string it spells
	if sig == "" && len(cs.Items) == 1 && cs.Items[0].Kind == 1 {
		f, _, err := FG().Generate(input)
		if err != nil {
			sig, what = literalSig(cs.Items[0]), "string literal does not compile: "+err.Error()
		} else if v, err := f.Eval(); err != nil {
			sig, what = literalSig(cs.Items[0]), "string literal does not evaluate: "+err.Error()
		} else if s, ok := v.(value.String); !ok || string(s) != cs.Items[0].Toks[0].Img {
			sig, what = literalSig(cs.Items[0]), fmt.Sprintf("string literal evaluates to %q", v)
		}
		sum.Count("parse", "literal-evaluated")
	}
	if sig == "" {
		// signature used if only the Coq side objects
		sig = "coq-spec-only"
	} else {
		sum.GoViolations = append(sum.GoViolations, GoViolation{CaseID: id, What: what, Sig: sig, Human: human,
			Expected: showToks(expObs, true), Observed: showToks(obs, true)})
	}
	human["signature"] = sig
	sum.Cases[fmt.Sprint(id)] = human
	sum.Sample(map[string]any{"input": input, "tokens": showToks(obs, true), "config": human["config"]})
	its := make([]string, len(cs.Items))
	for i, it := range cs.Items {
		its[i] = it.coq()
	}
	x.cw.Add(fmt.Sprintf("(%d, %s, %s, [], %s, %s)", id, cfg.coq(input), CoqList(its), coqObs(obs), cfg.parObs(input, obs, sum)))
}

// runRaw: malformed stream - only model = implementation and termination
func (x *c15run) runRaw(cs C15Case, source string) {
	cfg := getCfg(cs.Cfg, cs.Comments, cs.Comfort)
	x.id++
	id := x.id
	input := cs.Raw
	if cs.RawHex != "" {
		fmt.Sscanf(cs.RawHex, "%x", &input)
	}
	human := map[string]any{"input": fmt.Sprintf("%q", input), "config": fmt.Sprintf("%s comments=%v comfort=%v", cs.Cfg, cs.Comments, cs.Comfort), "repro": cs, "source": source, "signature": "raw"}
	obs, ok := cfg.tokens(input)
	x.sum.Cases[fmt.Sprint(id)] = human
	if !ok {
		human["signature"] = "hang"
		x.sum.GoViolations = append(x.sum.GoViolations, GoViolation{CaseID: id, What: "tokenizer did not return within 10 s (C04: scanning is total)", Sig: "hang", Human: human})
		return
	}
	x.sum.Evaluations++
	human["tokens"] = showToks(obs, true)
	x.sum.Count("source", source)
	x.sum.Count("config", human["config"].(string))
	x.sum.Count("input_runes", bucket(utf8.RuneCountInString(input)))
	x.sum.Count("tokens", bucket(len(obs)))
	invalid := 0
	for _, t := range obs {
		if t.Typ == tInvalid {
			invalid++
		}
	}
	x.sum.Count("raw_invalid_tokens", bucket(invalid))
	x.cw.Add(fmt.Sprintf("(%d, %s, [], %s, %s, %s)", id, cfg.coq(input), CoqRunes(decodeRunes(input)), coqObs(obs), cfg.parObs(input, obs, x.sum)))
}

func rawCase(cfg *tokCfg, s string) C15Case {
	cs := C15Case{Cfg: cfg.Name, Comments: cfg.Comments, Comfort: cfg.Comfort}
	if utf8.ValidString(s) {
		cs.Raw = s
		if s == "" {
			cs.Note = "empty"
		}
	} else {
		cs.RawHex = fmt.Sprintf("%x", s)
	}
	return cs
}

func plain(text, class string, toks ...PTok) Item {
	return Item{Text: text, Canon: text, Class: class, Toks: toks}
}
func sepItem(ss ...Sep) Item { return Item{IsSep: true, Seps: ss} }

// corpus: inputs that failed at the pinned commit, and the token_test.go comment cases
func (x *c15run) corpus() {
	id := func(n string) Item { return plain(n, "ident", PTok{tIdent, n}) }
	num := func(n string) Item { return plain(n, "number", PTok{tNumber, n}) }
	op := func(n string) Item { return plain(n, "op", PTok{tOperate, n}) }
	kw := func(n string) Item { return plain(n, "keyword", PTok{tKeyWord, n}) }
	bc := func(b string) Sep { return Sep{Kind: "blockc", Body: b} }
	lc := func(b string) Sep { return Sep{Kind: "linec", Body: b, Term: "\n"} }
	bl := Sep{Kind: "blank"}
	lf := Sep{Kind: "lf"}
	str := func(s string) Item {
		t := escapeLit(s)
		return Item{Text: t, Canon: t, Toks: []PTok{{tString, s}}, Kind: 1, Class: "string"}
	}
	q := func(s string) Item {
		t := "'" + s + "'"
		return Item{Text: t, Canon: t, Toks: []PTok{{tIdent, s}}, Kind: 2, Class: "quoted"}
	}
	layouts := [][]Item{
		{id("x"), op("+"), sepItem(bc("c")), num("1")}, // x+/*c*/1
		{kw("if"), sepItem(bl), id("a"), sepItem(bl), kw("then"), sepItem(bc("c")), num("1"), sepItem(bl), kw("else"), sepItem(bl), num("2")}, // then/*c*/1
		{id("x"), sepItem(bl, bc("a"), bc("b"), bl), op("+"), num("1")},                                                                       // adjacent comments
		{sepItem(bc("a"), bc("b")), id("x")},
		{str("a•b×c÷d–eˆf")},
		{q("a•b")},
		{id("abc"), sepItem(bc("\n"), bl), op("+"), num("1")}, // identifier + block comment with LF
		{num("1"), sepItem(bc("c")), op("+"), num("2")},
		{num("12"), sepItem(bc("\n\n")), op("-"), sepItem(bc("\n")), num("2")},
		{id("a"), op("+"), sepItem(lc("c")), num("1")},
		{id("a"), sepItem(lc("ss"), lc("ss"), lf), id("a")},          // token_test "comment 10" shape (two idents)
		{id("a"), sepItem(lf, bc("\n***\n"), lf), op("+"), num("1")}, // "ml comment 4"
		{id("a"), sepItem(bc("***")), op("+"), num("1")},             // "ml comment 2"
		{id("a"), sepItem(lf, Sep{Kind: "blockE", Body: " *"})},      // "ml comment 7"
		{id("a"), sepItem(Sep{Kind: "lineE", Body: ""})},             // "comment 8"
		{id("a"), op("/"), sepItem(bl, bc("c")), id("b")},
		{id("a"), op("*"), sepItem(bc("c")), id("b")},
		{id("a"), plain("÷", "op", PTok{tOperate, "/"}), sepItem(bc("c")), id("b")},
	}
	for _, l := range layouts {
		for _, name := range []string{"value", "custom"} {
			x.runLayout(C15Case{Cfg: name, Comments: true, Items: l}, "corpus")
		}
	}
	// literals without comments as well
	for _, cm := range []bool{false, true} {
		x.runLayout(C15Case{Cfg: "value", Comments: cm, Items: []Item{str("a•b×c÷d–eˆf")}}, "corpus")
		x.runLayout(C15Case{Cfg: "value", Comments: cm, Items: []Item{q("a•b//c/*d*/")}}, "corpus")
		x.runLayout(C15Case{Cfg: "value", Comments: cm, Items: []Item{str("//x /*y*/ \\ \" \n \r \t z")}}, "corpus")
	}
}

// all comfort juxtaposition patterns x separator shapes
func (x *c15run) comfortPatterns() {
	lefts := []Item{plain("2", "number", PTok{tNumber, "2"}), plain("a", "ident", PTok{tIdent, "a"}), {Text: "'q r'", Canon: "'q r'", Kind: 2, Class: "quoted", Toks: []PTok{{tIdent, "q r"}}}}
	closeGroup := []Item{plain("(", "open", PTok{tOpen, "("}), plain("b", "ident", PTok{tIdent, "b"}), plain(")", "close", PTok{tClose, ")"})}
	rights := []Item{plain("3", "number", PTok{tNumber, "3"}), plain("c", "ident", PTok{tIdent, "c"}), {Text: "'s t'", Canon: "'s t'", Kind: 2, Class: "quoted", Toks: []PTok{{tIdent, "s t"}}}}
	openGroup := []Item{plain("(", "open", PTok{tOpen, "("}), plain("d", "ident", PTok{tIdent, "d"}), plain(")", "close", PTok{tClose, ")"})}
	star := Item{Text: "", Canon: "*", Class: "implicit", Glue: true, Toks: []PTok{{tOperate, "*"}}}
	sepChoices := [][]Sep{nil, {{Kind: "blank"}}, {{Kind: "tab"}}, {{Kind: "lf"}}, {{Kind: "cr"}}, {{Kind: "blank"}, {Kind: "blank"}},
		{{Kind: "blockc", Body: "c"}}, {{Kind: "linec", Body: "c", Term: "\n"}}, {{Kind: "blank"}, {Kind: "blockc", Body: "\n"}, {Kind: "blank"}}}
	for _, cm := range []bool{false, true} {
		cfg := getCfg("value", cm, true)
		for li := 0; li < 4; li++ {
			for ri := 0; ri < 4; ri++ {
				for _, seps := range sepChoices {
					var l, r []Item
					if li < 3 {
						l = []Item{lefts[li]}
					} else {
						l = closeGroup
					}
					if ri < 3 {
						r = []Item{rights[ri]}
					} else {
						r = openGroup
					}
					hasComment := false
					for _, s := range seps {
						if s.Kind == "blockc" || s.Kind == "linec" {
							hasComment = true
						}
					}
					if hasComment && !cm {
						continue
					}
					lastL := l[len(l)-1]
					if len(seps) == 0 {
						if !cfg.canTight(lastL, r[0]) {
							continue
						}
						if ri == 3 && (lastL.Class == "ident" || lastL.Class == "quoted") {
							// tight identifier + '(' is a call, not a product
							items := append(append([]Item{}, l...), r...)
							items[len(l)-1].Glue = true
							x.runLayout(C15Case{Cfg: "value", Comments: cm, Comfort: true, Items: items, Note: "call"}, "comfort-pattern")
							continue
						}
					}
					items := append([]Item{}, l...)
					if len(seps) > 0 {
						items = append(items, sepItem(seps...))
					}
					items = append(items, star)
					items = append(items, r...)
					x.runLayout(C15Case{Cfg: "value", Comments: cm, Comfort: true, Items: items}, "comfort-pattern")
				}
			}
		}
	}
}

// quoted identifiers take their content literally: every pool content alone, and every keyword as a let name,
// map key and map-access key (these programs must parse)
func (x *c15run) quotedPoolCases() {
	q := func(s string) Item {
		t := "'" + s + "'"
		return Item{Text: t, Canon: t, Toks: []PTok{{tIdent, s}}, Kind: 2, Class: "quoted"}
	}
	bl := sepItem(Sep{Kind: "blank"})
	kw := func(n string) Item { return plain(n, "keyword", PTok{tKeyWord, n}) }
	op := func(n string) Item { return plain(n, "op", PTok{tOperate, n}) }
	num := func(n string) Item { return plain(n, "number", PTok{tNumber, n}) }
	for _, name := range []string{"value", "custom"} {
		cfg := getCfg(name, true, false)
		for _, c := range quotedPool(cfg) {
			if strings.ContainsAny(c, "'\n") {
				continue
			}
			x.sum.Nontriv("quoted-pool|" + name + "|" + c)
			x.runLayout(C15Case{Cfg: name, Comments: true, Items: []Item{q(c)}}, "quoted-pool")
			x.runLayout(C15Case{Cfg: name, Comments: false, Comfort: true, Items: []Item{num("2"), bl, plain("", "implicit", PTok{tOperate, "*"}), q(c)}}, "quoted-pool")
		}
	}
	cfg := getCfg("value", true, false)
	for _, k := range cfg.Keywords {
		// let 'k' = 1; 'k'+1
		x.runLayout(C15Case{Cfg: "value", Comments: true, MustOK: true, Items: []Item{kw("let"), bl, q(k), bl, op("="), bl, num("1"),
			plain(";", "punct", PTok{tSemicolon, ";"}), bl, q(k), op("+"), num("1")}}, "quoted-keyword")
		// {'k':1}.'k'
		x.runLayout(C15Case{Cfg: "value", Comments: true, MustOK: true, Items: []Item{plain("{", "bracket", PTok{tOpenCurly, "{"}), q(k),
			plain(":", "punct", PTok{tColon, ":"}), num("1"), plain("}", "bracket", PTok{tCloseCurly, "}"}), plain(".", "punct", PTok{tDot, "."}), q(k)}}, "quoted-keyword")
	}
}

func (x *c15run) literalCases(r *Rng, n int) {
	g := &pgen{r: r}
	for i := 0; i < n; i++ {
		cm := r.Chance(0.5)
		g.cfg = getCfg("value", cm, r.Chance(0.3))
		g.out = nil
		s := r.strNoNul(10)
		if r.Chance(0.3) {
			// make sure the runes the property names occur
			extra := []rune{'•', '×', '÷', '–', 'ˆ', '\\', '"', '\n', '\r', '\t', '/', '*', '\'', 0x1f600}
			rs := []rune(s)
			for k := 1 + r.Pick(3); k > 0; k-- {
				rs = append(rs, extra[r.Pick(len(extra))])
			}
			s = string(rs)
		}
		if i%2 == 0 {
			g.strLit(s)
			for _, c := range s {
				x.sum.Count("literal_rune_classes", runeClass(c))
			}
			x.sum.Nontriv("string|" + literalSig(g.out[0]))
		} else {
			s = strings.Map(func(c rune) rune {
				if c == '\'' || c == '\n' {
					return '_'
				}
				return c
			}, s)
			if r.Chance(0.4) {
				s = g.quotedName()
			}
			g.quoted(s)
			x.sum.Nontriv("quoted|" + literalSig(g.out[0]))
		}
		x.runLayout(C15Case{Cfg: "value", Comments: g.cfg.Comments, Comfort: g.cfg.Comfort, Items: g.out}, "literal")
	}
}

// ---------------------------------------------------------------- error-line family
// A valid skeleton with generated sub-expressions in which one token is dropped, replaced or inserted so that the
// parser must stop at a token known by construction (Mark); the layout around it has line breaks of every kind.
// Oracle: Parse fails and the line it reports is the line on which the marked token starts.

var safeNumbers = []string{"0", "1", "42", "1.5", "2e3", "7", "3.25", "10"}

// safeExpr emits a generated expression that parses on its own (so that no earlier error hides the injected one)
func (g *pgen) safeExpr(d int) {
	for try := 0; try < 6; try++ {
		h := &pgen{r: g.r, cfg: g.cfg}
		h.expr(d)
		ok := true
		for _, it := range h.out {
			if it.Class == "number" && !strings.Contains(" "+strings.Join(safeNumbers, " ")+" ", " "+it.Text+" ") {
				ok = false
			}
		}
		if ok {
			if _, _, err := g.cfg.parse(canonText(h.out)); err == nil {
				g.out = append(g.out, h.out...)
				return
			}
		}
	}
	g.lex("x1", "x1", "ident", PTok{tIdent, "x1"})
}

// offAtom emits the marked token: something that can never continue a complete expression
func (g *pgen) offAtom() {
	switch g.r.Pick(4) {
	case 0:
		n := safeNumbers[g.r.Pick(len(safeNumbers))]
		g.lex(n, n, "number", PTok{tNumber, n})
	case 1:
		g.strLit("s")
	default:
		n := identPool[g.r.Pick(len(identPool))]
		g.lex(n, n, "ident", PTok{tIdent, n})
	}
	g.mark()
}
func (g *pgen) mark() { g.out[len(g.out)-1].Mark = true }
func (g *pgen) name() {
	n := identPool[g.r.Pick(len(identPool))]
	g.lex(n, n, "ident", PTok{tIdent, n})
}
func (g *pgen) num() {
	n := safeNumbers[g.r.Pick(len(safeNumbers))]
	g.lex(n, n, "number", PTok{tNumber, n})
}

type errKind struct {
	name  string
	build func(g *pgen)
}

var errKinds = []errKind{
	{"map-missing-comma", func(g *pgen) {
		ks := g.r.Perm(len(identPool)) // distinct keys: a repeated key is an error of its own
		key := func(i int) {
			n := identPool[ks[i]]
			g.lex(n, n, "ident", PTok{tIdent, n})
		}
		g.punct("{", tOpenCurly, "bracket")
		key(0)
		g.punct(":", tColon, "punct")
		g.safeExpr(1)
		if g.r.Chance(0.5) {
			g.punct(",", tComma, "punct")
			key(1)
			g.punct(":", tColon, "punct")
			g.safeExpr(1)
		}
		key(2)
		g.mark()
		g.punct(":", tColon, "punct")
		g.safeExpr(0)
		g.punct("}", tCloseCurly, "bracket")
	}},
	{"map-value-then-atom", func(g *pgen) {
		g.punct("{", tOpenCurly, "bracket")
		g.name()
		g.punct(":", tColon, "punct")
		g.safeExpr(1)
		g.offAtom()
		g.punct("}", tCloseCurly, "bracket")
	}},
	{"map-wrong-closer", func(g *pgen) {
		g.punct("{", tOpenCurly, "bracket")
		g.name()
		g.punct(":", tColon, "punct")
		g.safeExpr(1)
		g.punct(")", tClose, "close")
		g.mark()
	}},
	{"map-missing-colon", func(g *pgen) {
		g.punct("{", tOpenCurly, "bracket")
		g.name()
		g.op("=")
		g.mark()
		g.safeExpr(0)
		g.punct("}", tCloseCurly, "bracket")
	}},
	{"list-missing-comma", func(g *pgen) {
		g.punct("[", tOpenBracket, "bracket")
		g.safeExpr(1)
		if g.r.Chance(0.5) {
			g.punct(",", tComma, "punct")
			g.safeExpr(1)
		}
		g.offAtom()
		g.punct("]", tCloseBracket, "bracket")
	}},
	{"list-wrong-closer", func(g *pgen) {
		g.punct("[", tOpenBracket, "bracket")
		g.safeExpr(1)
		g.punct(")", tClose, "close")
		g.mark()
	}},
	{"args-missing-comma", func(g *pgen) {
		g.name()
		g.punct("(", tOpen, "open")
		g.safeExpr(1)
		g.offAtom()
		g.punct(")", tClose, "close")
	}},
	{"method-args-missing-comma", func(g *pgen) {
		g.name()
		g.punct(".", tDot, "punct")
		g.name()
		g.punct("(", tOpen, "open")
		g.safeExpr(1)
		g.punct(",", tComma, "punct")
		g.safeExpr(0)
		g.offAtom()
		g.punct(")", tClose, "close")
	}},
	{"paren-wrong-closer", func(g *pgen) {
		g.punct("(", tOpen, "open")
		g.safeExpr(1)
		g.punct("]", tCloseBracket, "bracket")
		g.mark()
	}},
	{"index-wrong-closer", func(g *pgen) {
		g.name()
		g.punct("[", tOpenBracket, "bracket")
		g.safeExpr(1)
		g.punct(")", tClose, "close")
		g.mark()
	}},
	{"if-missing-then", func(g *pgen) {
		g.kw("if")
		g.safeExpr(1)
		g.offAtom()
		g.kw("else")
		g.safeExpr(0)
	}},
	{"if-missing-else", func(g *pgen) {
		g.kw("if")
		g.safeExpr(1)
		g.kw("then")
		g.safeExpr(1)
		g.offAtom()
	}},
	{"let-no-name", func(g *pgen) {
		g.kw("let")
		g.num()
		g.mark()
		g.op("=")
		g.safeExpr(0)
		g.punct(";", tSemicolon, "punct")
		g.safeExpr(0)
	}},
	{"let-no-assign", func(g *pgen) {
		g.kw("let")
		g.name()
		g.offAtom()
		g.punct(";", tSemicolon, "punct")
		g.safeExpr(0)
	}},
	{"let-no-semicolon", func(g *pgen) {
		g.kw("let")
		g.name()
		g.op("=")
		g.safeExpr(1)
		g.offAtom()
	}},
	{"func-no-name", func(g *pgen) {
		g.kw("func")
		g.num()
		g.mark()
		g.punct("(", tOpen, "open")
		g.name()
		g.punct(")", tClose, "close")
		g.safeExpr(0)
		g.punct(";", tSemicolon, "punct")
		g.safeExpr(0)
	}},
	{"func-no-paren", func(g *pgen) {
		g.kw("func")
		g.name()
		g.punct("[", tOpenBracket, "bracket")
		g.mark()
		g.name()
		g.punct(")", tClose, "close")
		g.safeExpr(0)
	}},
	{"func-params-missing-comma", func(g *pgen) {
		g.kw("func")
		g.name()
		g.punct("(", tOpen, "open")
		g.lex("q", "q", "ident", PTok{tIdent, "q"})
		g.num()
		g.mark()
		g.punct(")", tClose, "close")
		g.safeExpr(0)
		g.punct(";", tSemicolon, "punct")
		g.safeExpr(0)
	}},
	{"try-no-catch", func(g *pgen) {
		g.kw("try")
		g.safeExpr(1)
		g.offAtom()
	}},
	{"switch-case-no-colon", func(g *pgen) {
		g.kw("switch")
		g.safeExpr(0)
		g.kw("case")
		g.num()
		g.offAtom()
		g.kw("default")
		g.safeExpr(0)
	}},
	{"dot-no-name", func(g *pgen) {
		g.name()
		g.punct(".", tDot, "punct")
		g.num()
		g.mark()
	}},
	{"trailing-closer", func(g *pgen) {
		g.safeExpr(2)
		g.punct(")", tClose, "close")
		g.mark()
	}},
	{"trailing-atom", func(g *pgen) {
		g.safeExpr(2)
		g.offAtom()
	}},
	{"stray-inside", func(g *pgen) {
		g.punct("[", tOpenBracket, "bracket")
		g.safeExpr(1)
		g.punct(",", tComma, "punct")
		g.lex("§", "§", "stray", PTok{tInvalid, "§"})
		g.mark()
		g.punct("]", tCloseBracket, "bracket")
	}},
}

func (x *c15run) errorLineCases(r *Rng, n int) {
	for i := 0; i < n; i++ {
		k := errKinds[i%len(errKinds)]
		cfg := getCfg("value", r.Chance(0.7), false)
		g := &pgen{r: r, cfg: cfg}
		// some valid let/func headers in front, so that the broken construct is not on the first lines
		for j := r.Pick(3); j > 0; j-- {
			g.kw("let")
			g.name()
			g.op("=")
			g.safeExpr(1)
			g.punct(";", tSemicolon, "punct")
		}
		k.build(g)
		items := g.layout(g.out, "random")
		off := 0
		for j, it := range items {
			if it.Mark {
				off = j + 1
			}
		}
		// drop a comment running to the end of input if it would swallow the marked token (cannot: it is last) - keep as is
		x.sum.Count("error_kinds", k.name)
		x.sum.Nontriv("error-line|" + k.name + "|" + sepKinds(items, off-1))
		x.runLayout(C15Case{Cfg: "value", Comments: cfg.Comments, Items: items, Offend: off, Note: k.name}, "error-line")
	}
}

func (x *c15run) programCases(r *Rng, n int) {
	for i := 0; i < n; i++ {
		name := "value"
		if r.Chance(0.25) {
			name = "custom"
		}
		cfg := getCfg(name, r.Chance(0.6), r.Chance(0.35))
		g := &pgen{r: r, cfg: cfg}
		g.program(1 + r.Pick(3))
		if cfg.Comfort {
			g.omitStars()
		}
		mode := "random"
		switch r.Pick(8) {
		case 0:
			mode = "min"
		case 1:
			mode = "canon"
		}
		items := g.layout(g.out, mode)
		cs := C15Case{Cfg: name, Comments: cfg.Comments, Comfort: cfg.Comfort, Items: items}
		if name == "value" && r.Chance(0.15) {
			// error-line case: cut the layout behind a random lexeme and append a stray token
			k := r.Pick(len(items))
			items = append([]Item{}, items[:k+1]...)
			for len(items) > 0 && (items[len(items)-1].Glue || items[len(items)-1].Text == "") && !items[len(items)-1].IsSep {
				items = items[:len(items)-1]
			}
			if len(items) > 0 && items[len(items)-1].IsSep {
				// a comment running to the end of the input would swallow the stray token
				it := items[len(items)-1]
				var keep []Sep
				for _, s := range it.Seps {
					if s.Kind != "lineE" && s.Kind != "blockE" {
						keep = append(keep, s)
					}
				}
				items[len(items)-1] = Item{IsSep: true, Seps: append(keep, Sep{Kind: "blank"})}
			}
			if len(items) > 0 && !items[len(items)-1].IsSep {
				items = append(items, sepItem(Sep{Kind: "blank"}))
			}
			items = append(items, plain("§", "stray", PTok{tInvalid, "§"}))
			cs.Items = items
			cs.Stray = true
			x.runLayout(cs, "program+stray")
			continue
		}
		x.runLayout(cs, "program/"+mode)
	}
}

var soup = []string{"a", "b1", "12", "1.5e-3", " ", " ", "\n", "\t", "\r", "(", ")", "[", "]", "{", "}", ".", ",", ":", ";", "+", "-", "*", "/", "//", "/*", "*/", "\"", "'", "\\", "\\\"", "->", "=", "<=", "<<", "!", "•", "×", "÷", "–", "ˆ", "²", "⁹", "\x00", "\xff", "\xc3", "é", "λ", "٣", "½", "_", "e", "if", "then", "let", "and", "§", "\U0001f600", "//c\n", "/*c*/", "/**/", "\"s\"", "'q'"}

func (x *c15run) malformed(r *Rng, n int) {
	fixed := []string{"", "\x00", "a\x00b", "\"abc", "\"abc\n x", "'abc", "'ab\nc' d", "/*", "/* *", "/* */", "//", "a//", "a/*", "a/* x *", "/", "a/", "\"\\", "\"\\\x00\"", "\xff\xfe", "a\xffb", "+\xff", "1e", "1e+", "1e+-", "1..2", "x²³", "²", "((((((((((", "\"a\\qb\"", "a÷*b*/", "a÷/b\nc", "/*a*//*b*/", "1/*c*/2", "*/", "a */ b", "\r\n\r\n", "'", "\"", "'\x00'", "\"\n\"", "//\x00\nb", "/*\x00*/b", "–>", "<\xc3=", "a b", "\ufeffa"}
	cfgs := []*tokCfg{}
	for _, name := range []string{"value", "custom"} {
		for _, cm := range []bool{false, true} {
			for _, cf := range []bool{false, true} {
				cfgs = append(cfgs, getCfg(name, cm, cf))
			}
		}
	}
	for _, s := range fixed {
		for _, cm := range []bool{false, true} {
			x.runRaw(rawCase(getCfg("value", cm, false), s), "malformed/fixed")
		}
	}
	for i := 0; i < n; i++ {
		cfg := cfgs[r.Pick(len(cfgs))]
		var s string
		src := ""
		switch r.Pick(4) {
		case 0:
			src = "malformed/random-bytes"
			bs := make([]byte, r.Pick(40))
			for j := range bs {
				if r.Chance(0.5) {
					bs[j] = byte(r.Pick(256))
				} else {
					bs[j] = " \n\"'/*\\+-()1ae.•"[r.Pick(17)]
				}
			}
			s = string(bs)
		case 1:
			src = "malformed/token-soup"
			var b strings.Builder
			for j := r.Pick(25); j > 0; j-- {
				b.WriteString(soup[r.Pick(len(soup))])
			}
			s = b.String()
		default:
			src = "malformed/mutated-program"
			g := &pgen{r: r, cfg: cfg}
			g.program(1 + r.Pick(2))
			bs := []byte(itemsText(g.layout(g.out, "random")))
			for k := 1 + r.Pick(3); k > 0 && len(bs) > 0; k-- {
				p := r.Pick(len(bs))
				switch r.Pick(5) {
				case 0:
					bs = append(bs[:p], bs[p+1:]...)
				case 1:
					ins := soup[r.Pick(len(soup))]
					bs = append(bs[:p], append([]byte(ins), bs[p:]...)...)
				case 2:
					bs = append(bs[:p], append([]byte{bs[p]}, bs[p:]...)...)
				case 3:
					q := r.Pick(len(bs))
					bs[p], bs[q] = bs[q], bs[p]
				default:
					bs = bs[:p]
				}
			}
			s = string(bs)
		}
		x.runRaw(rawCase(cfg, s), src)
	}
}

func cmdC15(seed int64, tier, outDir string) {
	nProg, nLit, nMal, nErr := 550, 250, 250, 240
	if tier == "thorough" {
		nProg, nLit, nMal, nErr = 40000, 10000, 12000, 12000
	}
	r := NewRng(seed)
	sum := NewSummary("C15", seed, tier)
	sum.Rule = "layouts = lexeme lists of generated programs (value.New() grammar and a custom operator/text-operator table) x separator runs of up to 3 separators (none where the lexical rule allows, blank, tab, CR, LF, // and /* */ comments tight or set off, bodies with quotes, stars, slashes, LF; comment at end of input) x {comments on/off, comfort on/off}; string literals and quoted identifiers from the stratified Unicode generator; all comfort juxtaposition patterns; malformed stream (random bytes, token soup, mutated programs, unterminated literals/comments, NUL, invalid UTF-8). Non-trivial = a token boundary; distinct by (left token class, separator shape, right token class, comments, comfort) and by (literal kind, special rune classes)"
	cw := NewCaseWriter(outDir, "From P2 Require Import Base.Prelude Lex.Token Lex.Tok Run.C15Run.", "c15_case", "c15_id", "c15_im", "c15_is", 300)
	cw.prelude = getCfg("value", false, false).coqTables() + getCfg("custom", false, false).coqTables() + coqParTables()
	log.SetOutput(io.Discard) // the parser logs recovered optimizer panics (1/0 ...)
	x := &c15run{sum: sum, cw: cw}
	finish := func() {
		cw.Flush()
		sum.CaseFiles = cw.files
		sort.SliceStable(sum.GoViolations, func(i, j int) bool {
			return len(fmt.Sprint(sum.GoViolations[i].Human["input"])) < len(fmt.Sprint(sum.GoViolations[j].Human["input"]))
		})
		sum.Write(outDir)
	}
	if optReplay != "" {
		var cs C15Case
		if err := json.Unmarshal(loadReplayCase(), &cs); err != nil {
			fatal("replay case: %v", err)
		}
		if len(cs.Items) > 0 {
			x.runLayout(cs, "replay")
		} else {
			x.runRaw(cs, "replay")
		}
		finish()
		return
	}
	nProg, nLit, nMal, nErr = nProg*optBoost, nLit*optBoost, nMal*optBoost, nErr*optBoost
	x.corpus()
	x.comfortPatterns()
	x.quotedPoolCases()
	x.literalCases(r, nLit)
	x.errorLineCases(NewRng(seed+7), nErr)
	x.programCases(r, nProg)
	x.malformed(r, nMal)
	finish()
}

var _ = funcGen.NewEmptyStack[value.Value]
