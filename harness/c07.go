package main

// C07 - built-in list, map, string and numeric library against its documented model.
// A case is a pipeline: a source value (or a static call) followed by up to 4 method calls with
// values and callbacks from a closed expression language.  The real code runs the pipeline through
// value.New().Generate; coq/Run/C07Run.v runs the same pipeline through the implementation models
// (c07_im) and through the documented models and verified checkers (c07_is); an independent eager Go
// reference (oracle) judges the most used list built-ins on int/string data.

import (
	"encoding/json"
	"errors"
	"fmt"
	"math"
	"math/bits"
	"runtime"
	"sort"
	"strings"

	"github.com/hneemann/parser2/funcGen"
	"github.com/hneemann/parser2/value"
)

func init() {
	register("c07", cmdC07)
	registerTables(writeMethodTables)
}

// ---------- method tables -> coq/Generated/ValueMethods.v ----------

func writeMethodTables(outDir string) {
	fg := value.New()
	var b strings.Builder
	b.WriteString(genHeader)
	b.WriteString("Local Open Scope Z_scope.\n")
	b.WriteString("(* value.New(): methods per type id (1 int, 2 float, 3 string, 4 bool, 5 list, 6 map, 7 closure, ...)\n   as (name, number of arguments at the call site; -1 = variable) *)\n")
	b.WriteString("Definition value_methods : list (N * list (list N * Z)) := [")
	tbl := value.VerifMethodArities(fg)
	var ids []int
	for id := range tbl {
		ids = append(ids, id)
	}
	sort.Ints(ids)
	for i, id := range ids {
		if i > 0 {
			b.WriteString(";")
		}
		fmt.Fprintf(&b, "\n  (%d%%N, [", id)
		names := sortedKeys(tbl[id])
		for j, n := range names {
			if j > 0 {
				b.WriteString(";")
			}
			fmt.Fprintf(&b, "\n    (%s%%N, %s)", CoqStr(n), coqZ(int64(tbl[id][n])))
		}
		b.WriteString("])")
	}
	b.WriteString("].\n\n(* static functions (name, number of arguments; -1 = variable) *)\n")
	b.WriteString("Definition value_statics : list (list N * Z) := [")
	st := fg.VerifStaticArities()
	for j, n := range sortedKeys(st) {
		if j > 0 {
			b.WriteString(";")
		}
		fmt.Fprintf(&b, "\n  (%s%%N, %s)", CoqStr(n), coqZ(int64(st[n])))
	}
	b.WriteString("].\n")
	writeIfChanged(outDir+"/ValueMethods.v", b.String())
}

func coqZ(z int64) string {
	if z < 0 {
		return fmt.Sprintf("(%d)", z)
	}
	return fmt.Sprint(z)
}

// ---------- values ----------

func coqFloat(f float64) string {
	switch {
	case math.IsNaN(f):
		return "FNaN"
	case math.IsInf(f, 1):
		return "(FInf false)"
	case math.IsInf(f, -1):
		return "(FInf true)"
	case f == 0 && math.Signbit(f):
		return "FNegZero"
	case f == 0:
		return "(FFin 0 0)"
	}
	b := math.Float64bits(f)
	exp := int64((b >> 52) & 0x7ff)
	man := int64(b & (1<<52 - 1))
	if exp == 0 {
		exp = 1
	} else {
		man |= 1 << 52
	}
	e := exp - 1075
	tz := bits.TrailingZeros64(uint64(man))
	man >>= uint(tz)
	e += int64(tz)
	if b>>63 == 1 {
		man = -man
	}
	return fmt.Sprintf("(FFin %s %s)", coqZ(man), coqZ(e))
}

// Coq term (Sem.Syntax.value) of a generated tree
func (t *Tree) CoqVal() string {
	switch t.Kind {
	case "int":
		return "VInt " + coqZ(int64(t.I))
	case "float":
		return "VFloat " + coqFloat(t.F)
	case "bool":
		return "VBool " + CoqBool(t.B)
	case "str":
		return "VStr " + CoqStr(t.S)
	case "list":
		parts := make([]string, len(t.Items))
		for i, it := range t.Items {
			parts[i] = it.CoqVal()
		}
		return "VList " + CoqList(parts)
	}
	parts := make([]string, len(t.Items))
	for i, it := range t.Items {
		parts[i] = "(" + CoqStr(t.Keys[i]) + ", " + it.CoqVal() + ")"
	}
	return "VMap " + CoqList(parts)
}

var errUnrepresentable = errors.New("unrepresentable")

// deep evaluation of what the implementation returned, as a Coq term; lazy lists are evaluated here
func coqObserved(v value.Value) (string, error) {
	st := funcGen.NewEmptyStack[value.Value]()
	switch x := v.(type) {
	case value.Int:
		return "VInt " + coqZ(int64(x)), nil
	case value.Float:
		return "VFloat " + coqFloat(float64(x)), nil
	case value.Bool:
		return "VBool " + CoqBool(bool(x)), nil
	case value.String:
		if !validUTF8(string(x)) {
			return "", errUnrepresentable
		}
		return "VStr " + CoqStr(string(x)), nil
	case *value.List:
		sl, err := x.ToSlice(st)
		if err != nil {
			return "", err
		}
		parts := make([]string, len(sl))
		for i, it := range sl {
			p, err := coqObserved(it)
			if err != nil {
				return "", err
			}
			parts[i] = p
		}
		return "VList " + CoqList(parts), nil
	case value.Map:
		var parts []string
		var ierr error
		x.Iter(func(k string, v value.Value) bool {
			p, err := coqObserved(v)
			if err != nil {
				ierr = err
				return false
			}
			parts = append(parts, "("+CoqStr(k)+", "+p+")")
			return true
		})
		if ierr != nil {
			return "", ierr
		}
		return "VMap " + CoqList(parts), nil
	}
	return "", errUnrepresentable
}

// ---------- callbacks ----------

// CExp mirrors Run/C07Run.v cexp
type CExp struct {
	K   string  `json:"k"` // arg lit op if throw list size sum index member goto
	I   int     `json:"i,omitempty"`
	V   *Tree   `json:"v,omitempty"`
	Op  string  `json:"op,omitempty"`
	A   *CExp   `json:"a,omitempty"`
	B   *CExp   `json:"b,omitempty"`
	C   *CExp   `json:"c,omitempty"`
	L   []*CExp `json:"l,omitempty"`
	Key string  `json:"key,omitempty"`
}

var opCoq = map[string]string{"+": "op_add", "-": "op_sub", "*": "op_mul", "%": "op_mod", "/": "op_div",
	"=": "op_eq", "!=": "op_ne", "<": "op_lt", ">": "op_gt", "<=": "op_le", ">=": "op_ge"}

var paramNames = []string{"a", "b", "c"}

func litText(t *Tree) string {
	switch t.Kind {
	case "int":
		if t.I < 0 {
			return fmt.Sprintf("(0-%d)", -t.I)
		}
		return fmt.Sprint(t.I)
	case "str":
		return "\"" + t.S + "\"" // plain ASCII letters only (generator)
	case "bool":
		if t.B {
			return "true"
		}
		return "false"
	case "float":
		return fmt.Sprintf("(%d/2)", int(t.F*2)) // halves only (generator)
	}
	panic("literal kind " + t.Kind)
}

func (e *CExp) Text(top bool) string {
	switch e.K {
	case "arg":
		return paramNames[e.I]
	case "lit":
		return litText(e.V)
	case "op":
		return "(" + e.A.Text(false) + e.Op + e.B.Text(false) + ")"
	case "if":
		s := "if " + e.A.Text(false) + " then " + e.B.Text(true) + " else " + e.C.Text(true)
		if top {
			return s
		}
		return "(" + s + ")"
	case "throw":
		return "throw(\"e\")"
	case "list":
		parts := make([]string, len(e.L))
		for i, x := range e.L {
			parts[i] = x.Text(true)
		}
		return "[" + strings.Join(parts, ",") + "]"
	case "size":
		return e.A.Text(false) + ".size()"
	case "sum":
		return e.A.Text(false) + ".sum()"
	case "index":
		return e.A.Text(false) + "[" + e.B.Text(true) + "]"
	case "member":
		return e.A.Text(false) + "." + e.Key
	case "goto":
		return "goto(" + e.A.Text(true) + ")"
	}
	panic("cexp kind " + e.K)
}

func (e *CExp) Coq() string {
	switch e.K {
	case "arg":
		return fmt.Sprintf("CArg %d", e.I)
	case "lit":
		return "CLit (" + e.V.CoqVal() + ")"
	case "op":
		return "COp " + opCoq[e.Op] + " (" + e.A.Coq() + ") (" + e.B.Coq() + ")"
	case "if":
		return "CIf (" + e.A.Coq() + ") (" + e.B.Coq() + ") (" + e.C.Coq() + ")"
	case "throw":
		return "CThrow"
	case "list":
		parts := make([]string, len(e.L))
		for i, x := range e.L {
			parts[i] = x.Coq()
		}
		return "CList " + CoqList(parts)
	case "size":
		return "CSize (" + e.A.Coq() + ")"
	case "sum":
		return "CSum (" + e.A.Coq() + ")"
	case "index":
		return "CIndex (" + e.A.Coq() + ") (" + e.B.Coq() + ")"
	case "member":
		return "CMember (" + e.A.Coq() + ") " + CoqStr(e.Key) + "%N"
	case "goto":
		return "CGoto (" + e.A.Coq() + ")"
	}
	panic("cexp kind " + e.K)
}

func cArg(i int) *CExp                { return &CExp{K: "arg", I: i} }
func cInt(i int) *CExp                { return &CExp{K: "lit", V: &Tree{Kind: "int", I: i}} }
func cStr(s string) *CExp             { return &CExp{K: "lit", V: &Tree{Kind: "str", S: s}} }
func cBool(b bool) *CExp              { return &CExp{K: "lit", V: &Tree{Kind: "bool", B: b}} }
func cOp(op string, a, b *CExp) *CExp { return &CExp{K: "op", Op: op, A: a, B: b} }
func cIf(c, t, e *CExp) *CExp         { return &CExp{K: "if", A: c, B: t, C: e} }
func cThrow() *CExp                   { return &CExp{K: "throw"} }

// ---------- pipelines ----------

type Arg struct {
	V    *Tree `json:"v,omitempty"`
	N    int   `json:"n,omitempty"` // arity of the callback
	Body *CExp `json:"body,omitempty"`
}

type Step struct {
	M    string `json:"m"`
	Args []Arg  `json:"args"`
}

type C07Case struct {
	Src       *Tree   `json:"src,omitempty"`
	Static    string  `json:"static,omitempty"`
	StArgs    []*Tree `json:"stargs,omitempty"`
	Steps     []Step  `json:"steps"`
	Unordered bool    `json:"unordered"`
	Origin    string  `json:"origin"` // corpus / generated / misuse
}

var modelledMeths = map[string]bool{}

func init() {
	for _, n := range strings.Fields(`accept map reduce sum mapReduce mean min max minMax combine combine3 combineN indexWhere
 groupByString groupByInt groupByEqual uniqueString uniqueInt compact cross merge order orderRev orderLess reverse append
 iir iirCombine visit fsm top skip number present set size first single last eval movingWindow movingWindowRemove
 len string trim toLower toUpper contains indexOf split cut replace toInt get put isAvail list`) {
		modelledMeths[n] = true
	}
}

func coqMeth(n string) string {
	if modelledMeths[n] {
		return "M_" + n
	}
	return "M_other " + CoqStr(n) + "%N"
}

// program text, argument names and argument values of a case
func (c *C07Case) Program() (string, []string, []value.Value) {
	var names []string
	var vals []value.Value
	addVal := func(t *Tree) string {
		n := fmt.Sprintf("v%d", len(names))
		names = append(names, n)
		vals = append(vals, t.Build())
		return n
	}
	var b strings.Builder
	if c.Static != "" {
		parts := make([]string, len(c.StArgs))
		for i, a := range c.StArgs {
			parts[i] = addVal(a)
		}
		b.WriteString(c.Static + "(" + strings.Join(parts, ",") + ")")
	} else {
		b.WriteString(addVal(c.Src))
	}
	for _, s := range c.Steps {
		parts := make([]string, len(s.Args))
		for i, a := range s.Args {
			if a.Body != nil {
				ps := strings.Join(paramNames[:a.N], ",")
				if a.N != 1 {
					ps = "(" + ps + ")"
				}
				parts[i] = ps + "->" + a.Body.Text(true)
			} else {
				parts[i] = addVal(a.V)
			}
		}
		b.WriteString("." + s.M + "(" + strings.Join(parts, ",") + ")")
	}
	return b.String(), names, vals
}

func (c *C07Case) Coq(id int, obs string) string {
	var src string
	if c.Static != "" {
		parts := make([]string, len(c.StArgs))
		for i, a := range c.StArgs {
			parts[i] = a.CoqVal()
		}
		src = "SrcStatic " + CoqStr(c.Static) + "%N " + CoqList(parts)
	} else {
		src = "SrcV (" + c.Src.CoqVal() + ")"
	}
	steps := make([]string, len(c.Steps))
	for i, s := range c.Steps {
		args := make([]string, len(s.Args))
		for j, a := range s.Args {
			if a.Body != nil {
				args[j] = fmt.Sprintf("AF %d (%s)", a.N, a.Body.Coq())
			} else {
				args[j] = "AV (" + a.V.CoqVal() + ")"
			}
		}
		steps[i] = "(" + coqMeth(s.M) + ", " + CoqList(args) + ")"
	}
	return fmt.Sprintf("(%d, %s, %s, %s, %s)", id, src, CoqList(steps), CoqBool(c.Unordered), obs)
}

// ---------- running the real code ----------

type c07Obs struct {
	Kind string // ok fail panic
	Coq  string
	Val  value.Value
	Err  string
}

func isRuntimePanic(err error) bool {
	var re runtime.Error
	return errors.As(err, &re)
}

func runReal(text string, names []string, vals []value.Value) (o c07Obs) {
	defer func() {
		if r := recover(); r != nil {
			o = c07Obs{Kind: "panic", Err: fmt.Sprint(r)}
		}
	}()
	f, _, err := value.New().Generate(text, names...)
	if err != nil {
		if isRuntimePanic(err) {
			return c07Obs{Kind: "panic", Err: err.Error()}
		}
		return c07Obs{Kind: "fail", Err: "generate: " + err.Error()}
	}
	v, err := f.Eval(vals...)
	if err != nil {
		if isRuntimePanic(err) {
			return c07Obs{Kind: "panic", Err: err.Error()}
		}
		return c07Obs{Kind: "fail", Err: err.Error()}
	}
	if v == nil {
		return c07Obs{Kind: "unrepresentable", Err: "nil value"}
	}
	term, err := coqObserved(v)
	if err == errUnrepresentable {
		return c07Obs{Kind: "unrepresentable", Err: "closure or invalid string in the result"}
	}
	if err != nil {
		if isRuntimePanic(err) {
			return c07Obs{Kind: "panic", Err: err.Error()}
		}
		return c07Obs{Kind: "fail", Err: err.Error()}
	}
	return c07Obs{Kind: "ok", Coq: term, Val: v}
}

// ---------- independent eager Go reference (oracle) ----------
// values: int64 string bool []any ; anything else (floats, maps) makes the oracle abstain

var errAbstain = errors.New("abstain")
var errExpected = errors.New("error expected")

func oracleVal(t *Tree) (any, error) {
	switch t.Kind {
	case "int":
		return int64(t.I), nil
	case "str":
		return t.S, nil
	case "bool":
		return t.B, nil
	case "list":
		xs := make([]any, len(t.Items))
		for i, it := range t.Items {
			x, err := oracleVal(it)
			if err != nil {
				return nil, err
			}
			xs[i] = x
		}
		return xs, nil
	}
	return nil, errAbstain
}

func oracleOp(op string, a, b any) (any, error) {
	x, xi := a.(int64)
	y, yi := b.(int64)
	if xi && yi {
		switch op {
		case "+":
			return x + y, nil
		case "-":
			return x - y, nil
		case "*":
			return x * y, nil
		case "%":
			if y == 0 {
				return nil, errExpected
			}
			return x % y, nil
		case "=":
			return x == y, nil
		case "!=":
			return x != y, nil
		case "<":
			return x < y, nil
		case ">":
			return x > y, nil
		case "<=":
			return x <= y, nil
		case ">=":
			return x >= y, nil
		}
		return nil, errAbstain
	}
	s, si := a.(string)
	u, ui := b.(string)
	if si && ui {
		switch op {
		case "+":
			return s + u, nil
		case "=":
			return s == u, nil
		case "!=":
			return s != u, nil
		case "<":
			return s < u, nil
		case ">":
			return s > u, nil
		}
	}
	return nil, errAbstain
}

func (e *CExp) oracle(args []any) (any, error) {
	switch e.K {
	case "arg":
		return args[e.I], nil
	case "lit":
		return oracleVal(e.V)
	case "op":
		a, err := e.A.oracle(args)
		if err != nil {
			return nil, err
		}
		b, err := e.B.oracle(args)
		if err != nil {
			return nil, err
		}
		return oracleOp(e.Op, a, b)
	case "if":
		c, err := e.A.oracle(args)
		if err != nil {
			return nil, err
		}
		cb, ok := c.(bool)
		if !ok {
			return nil, errExpected
		}
		if cb {
			return e.B.oracle(args)
		}
		return e.C.oracle(args)
	case "throw":
		return nil, errExpected
	case "list":
		xs := make([]any, len(e.L))
		for i, x := range e.L {
			v, err := x.oracle(args)
			if err != nil {
				return nil, err
			}
			xs[i] = v
		}
		return xs, nil
	case "size":
		a, err := e.A.oracle(args)
		if err != nil {
			return nil, err
		}
		if l, ok := a.([]any); ok {
			return int64(len(l)), nil
		}
	}
	return nil, errAbstain
}

func oracleFunc(a Arg, n int) (func(...any) (any, error), error) {
	if a.Body == nil || a.N != n {
		return nil, errExpected
	}
	return func(args ...any) (any, error) { return a.Body.oracle(args) }, nil
}

// eager and strict; abstains (errAbstain) on anything it does not cover, and on errors raised by a
// callback of a lazy stage (whether they surface depends on demand)
func oracleStep(recv any, s Step) (any, error) {
	l, isList := recv.([]any)
	if !isList {
		return nil, errAbstain
	}
	argInt := func(i int) (int64, error) {
		if i >= len(s.Args) || s.Args[i].V == nil {
			return 0, errAbstain
		}
		v, err := oracleVal(s.Args[i].V)
		if err != nil {
			return 0, err
		}
		n, ok := v.(int64)
		if !ok {
			return 0, errExpected
		}
		return n, nil
	}
	lazy := func(err error) error {
		if err == errExpected {
			return errAbstain
		}
		return err
	}
	switch s.M {
	case "size":
		if len(s.Args) != 0 {
			return nil, errExpected
		}
		return int64(len(l)), nil
	case "first":
		if len(s.Args) != 0 || len(l) == 0 {
			return nil, errExpected
		}
		return l[0], nil
	case "last":
		if len(s.Args) != 0 || len(l) == 0 {
			return nil, errExpected
		}
		return l[len(l)-1], nil
	case "reverse":
		if len(s.Args) != 0 {
			return nil, errExpected
		}
		out := make([]any, len(l))
		for i, x := range l {
			out[len(l)-1-i] = x
		}
		return out, nil
	case "top", "skip":
		if len(s.Args) != 1 {
			return nil, errExpected
		}
		n, err := argInt(0)
		if err != nil {
			return nil, err
		}
		if n < 0 {
			return nil, errAbstain // the description does not say
		}
		if n > int64(len(l)) {
			n = int64(len(l))
		}
		if s.M == "top" {
			return append([]any{}, l[:n]...), nil
		}
		return append([]any{}, l[n:]...), nil
	case "map", "accept", "indexWhere", "present":
		if len(s.Args) != 1 {
			return nil, errExpected
		}
		f, err := oracleFunc(s.Args[0], 1)
		if err != nil {
			return nil, err
		}
		var out []any = []any{}
		for i, x := range l {
			y, err := f(x)
			if err != nil {
				if s.M == "map" || s.M == "accept" {
					return nil, lazy(err)
				}
				return nil, err
			}
			if s.M == "map" {
				out = append(out, y)
				continue
			}
			b, ok := y.(bool)
			if !ok {
				if s.M == "accept" {
					return nil, errAbstain
				}
				return nil, errExpected
			}
			if s.M == "accept" && b {
				out = append(out, x)
			}
			if s.M == "indexWhere" && b {
				return int64(i), nil
			}
			if s.M == "present" && b {
				return true, nil
			}
		}
		if s.M == "indexWhere" {
			return int64(-1), nil
		}
		if s.M == "present" {
			return false, nil
		}
		return out, nil
	case "reduce", "sum":
		var f func(...any) (any, error)
		if s.M == "sum" {
			if len(s.Args) != 0 {
				return nil, errExpected
			}
			f = func(a ...any) (any, error) {
				if _, ok := a[0].(int64); !ok {
					return nil, errAbstain
				}
				return oracleOp("+", a[0], a[1])
			}
		} else {
			if len(s.Args) != 1 {
				return nil, errExpected
			}
			var err error
			f, err = oracleFunc(s.Args[0], 2)
			if err != nil {
				return nil, err
			}
		}
		if len(l) == 0 {
			return nil, errExpected
		}
		acc := l[0]
		for _, x := range l[1:] {
			var err error
			acc, err = f(acc, x)
			if err != nil {
				return nil, err
			}
		}
		return acc, nil
	case "combine", "number":
		if len(s.Args) != 1 {
			return nil, errExpected
		}
		f, err := oracleFunc(s.Args[0], 2)
		if err != nil {
			return nil, err
		}
		out := []any{}
		for i, x := range l {
			var y any
			if s.M == "number" {
				y, err = f(int64(i), x)
			} else if i+1 < len(l) {
				y, err = f(x, l[i+1])
			} else {
				break
			}
			if err != nil {
				return nil, lazy(err)
			}
			out = append(out, y)
		}
		return out, nil
	case "combineN":
		if len(s.Args) != 2 {
			return nil, errExpected
		}
		n, err := argInt(0)
		if err != nil {
			return nil, err
		}
		if n < 1 {
			return nil, errExpected
		}
		f, err := oracleFunc(s.Args[1], 1)
		if err != nil {
			return nil, err
		}
		out := []any{}
		for i := 0; int64(i)+n <= int64(len(l)); i++ {
			y, err := f(append([]any{}, l[i:int64(i)+n]...))
			if err != nil {
				return nil, lazy(err)
			}
			out = append(out, y)
		}
		return out, nil
	case "append":
		if len(s.Args) != 1 || s.Args[0].V == nil {
			return nil, errAbstain
		}
		v, err := oracleVal(s.Args[0].V)
		if err != nil {
			return nil, err
		}
		return append(append([]any{}, l...), v), nil
	}
	return nil, errAbstain
}

func oracleCoq(v any) string {
	switch x := v.(type) {
	case int64:
		return "VInt " + coqZ(x)
	case string:
		return "VStr " + CoqStr(x)
	case bool:
		return "VBool " + CoqBool(x)
	case []any:
		parts := make([]string, len(x))
		for i, it := range x {
			parts[i] = oracleCoq(it)
		}
		return "VList " + CoqList(parts)
	}
	return "?"
}

// verdict of the oracle on a case: "" = agrees or abstains
func (c *C07Case) oracleVerdict(o c07Obs) (string, string) {
	if c.Static != "" || c.Src == nil {
		return "", ""
	}
	v, err := oracleVal(c.Src)
	if err != nil {
		return "", ""
	}
	for _, s := range c.Steps {
		v, err = oracleStep(v, s)
		if err != nil {
			break
		}
	}
	if err == errAbstain {
		return "", ""
	}
	if err == errExpected {
		if o.Kind == "ok" {
			return "the eager Go reference requires an error, the implementation returned a value", "error"
		}
		return "", ""
	}
	want := oracleCoq(v)
	if o.Kind != "ok" {
		return "the eager Go reference computes a value, the implementation reported " + o.Kind + ": " + o.Err, want
	}
	if o.Coq != want {
		return "the eager Go reference computes a different value", want
	}
	return "", ""
}

// ---------- signatures ----------

func intClass(n, size int) string {
	switch {
	case n < 0:
		return "negative"
	case n == 0:
		return "zero"
	case n >= size:
		return "beyond-size"
	}
	return "inside"
}

func (c *C07Case) Signature() string {
	if len(c.Steps) == 0 {
		return "static:" + c.Static
	}
	last := c.Steps[len(c.Steps)-1]
	cls := []string{}
	size := -1
	if len(c.Steps) == 1 && c.Src != nil {
		switch c.Src.Kind {
		case "list", "map":
			size = len(c.Src.Items)
		case "str":
			size = len([]rune(c.Src.S))
		}
		switch {
		case size == 0:
			cls = append(cls, "receiver-empty")
		case size == 1:
			cls = append(cls, "receiver-single")
		}
	}
	for _, a := range last.Args {
		if a.V != nil && a.V.Kind == "int" {
			cls = append(cls, "int-"+intClass(a.V.I, size))
		}
	}
	return last.M + " " + strings.Join(cls, ",")
}

// ---------- generators ----------

func tInt(i int) *Tree       { return &Tree{Kind: "int", I: i} }
func tStr(s string) *Tree    { return &Tree{Kind: "str", S: s} }
func tFloat(f float64) *Tree { return &Tree{Kind: "float", F: f} }
func tList(items ...*Tree) *Tree {
	return &Tree{Kind: "list", Repr: "eager", Items: items}
}
func tMap(keys []string, items ...*Tree) *Tree {
	return &Tree{Kind: "map", Repr: "listmap", Keys: keys, Items: items}
}
func tInts(xs ...int) *Tree {
	t := tList()
	for _, x := range xs {
		t.Items = append(t.Items, tInt(x))
	}
	return t
}

var c07Strings = []string{"", "a", "ab", "aba", "abab", "a,b,,c", " a b ", "\t x\n", "häb", "日本語", "a😀b", "ÄÖ", "12", "-7", "+5", "007", "1x", "9223372036854775807", "9223372036854775808", "-9223372036854775808", "Hello World", ",", "aa"}

func (r *Rng) c07Int() *Tree {
	if r.Chance(0.08) {
		return tInt([]int{1 << 31, 1<<53 + 1, math.MaxInt64, math.MinInt64, -1 << 40}[r.Pick(5)])
	}
	return tInt(r.Pick(12) - 3)
}

func (r *Rng) c07Elem(kind string) *Tree {
	switch kind {
	case "int":
		return r.c07Int()
	case "num":
		if r.Chance(0.4) {
			return tFloat(float64(r.Pick(17)-6) / 2)
		}
		return r.c07Int()
	case "str":
		return tStr(c07Strings[r.Pick(len(c07Strings))])
	case "list":
		n := r.Pick(4)
		xs := make([]int, n)
		for i := range xs {
			xs[i] = r.Pick(6)
		}
		return tInts(xs...)
	case "map":
		return tMap([]string{"k", "w"}, tInt(r.Pick(4)), tStr(c07Strings[r.Pick(6)]))
	}
	// mixed
	return r.c07Elem([]string{"int", "num", "str", "list", "int"}[r.Pick(5)])
}

// receivers: empty, singleton, duplicates, sorted, reversed, mixed int/float, nested, strings
func (r *Rng) c07List() (*Tree, string) {
	shapes := []string{"empty", "single", "dups", "dups", "dups", "sorted", "sorted", "sorted", "reversed", "reversed", "random", "random", "random", "random", "random", "random", "numeric-mixed", "numeric-mixed", "nested-lists", "nested-maps", "strings", "heterogeneous"}
	shape := shapes[r.Pick(len(shapes))]
	t := tList()
	n := 2 + r.Pick(7)
	switch shape {
	case "empty":
	case "single":
		t.Items = []*Tree{r.c07Elem("int")}
	case "dups":
		for i := 0; i < n; i++ {
			t.Items = append(t.Items, tInt(r.Pick(3)))
		}
	case "sorted", "reversed":
		x := r.Pick(5) - 3
		for i := 0; i < n; i++ {
			t.Items = append(t.Items, tInt(x))
			x += r.Pick(3)
		}
		if shape == "reversed" {
			for i, j := 0, len(t.Items)-1; i < j; i, j = i+1, j-1 {
				t.Items[i], t.Items[j] = t.Items[j], t.Items[i]
			}
		}
	case "random":
		for i := 0; i < n; i++ {
			t.Items = append(t.Items, r.c07Elem("int"))
		}
	case "numeric-mixed":
		for i := 0; i < n; i++ {
			t.Items = append(t.Items, r.c07Elem("num"))
		}
	case "nested-lists":
		for i := 0; i < n; i++ {
			t.Items = append(t.Items, r.c07Elem("list"))
		}
	case "nested-maps":
		for i := 0; i < n; i++ {
			t.Items = append(t.Items, r.c07Elem("map"))
		}
	case "strings":
		for i := 0; i < n; i++ {
			t.Items = append(t.Items, r.c07Elem("str"))
		}
	default:
		for i := 0; i < n; i++ {
			t.Items = append(t.Items, r.c07Elem("mixed"))
		}
	}
	if r.Chance(0.3) {
		t.Repr = "lazy-map"
	}
	return t, shape
}

func (r *Rng) c07Map() *Tree {
	keys := []string{"a", "b", "k", "", "ä", "state", "x y"}
	n := r.Pick(5)
	t := tMap(nil)
	perm := r.Perm(len(keys))
	for i := 0; i < n; i++ {
		t.Keys = append(t.Keys, keys[perm[i]])
		t.Items = append(t.Items, r.c07Elem([]string{"int", "str", "num"}[r.Pick(3)]))
	}
	return t
}

// callback pool; k = number of parameters
func (r *Rng) cb1(want string) *CExp {
	k := 1 + r.Pick(4)
	c := r.Pick(7) - 2
	switch want {
	case "bool":
		switch r.Pick(5) {
		case 0:
			return cOp("=", cOp("%", cArg(0), cInt(1+r.Pick(3))), cInt(r.Pick(2)))
		case 1:
			return cOp("<", cArg(0), cInt(c))
		case 2:
			return cOp(">=", cArg(0), cInt(c))
		case 3:
			return cBool(r.Chance(0.5))
		}
		return cOp("=", cArg(0), cInt(c))
	case "key":
		switch r.Pick(4) {
		case 0:
			return cOp("%", cArg(0), cInt(1+r.Pick(3)))
		case 1:
			return cArg(0)
		case 2:
			return cOp("*", cArg(0), cInt(-1))
		}
		return cOp("+", cOp("*", cArg(0), cInt(0)), cInt(c))
	case "listsize":
		switch r.Pick(3) {
		case 0:
			return &CExp{K: "size", A: cArg(0)}
		case 1:
			return &CExp{K: "sum", A: cArg(0)}
		}
		return cOp("-", cOp("*", &CExp{K: "index", A: cArg(0), B: cInt(0)}, cInt(10)), &CExp{K: "index", A: cArg(0), B: cInt(r.Pick(3))})
	case "listbool":
		switch r.Pick(3) {
		case 0:
			return cOp(">", &CExp{K: "size", A: cArg(0)}, cInt(1+r.Pick(3)))
		case 1:
			return cOp(">", &CExp{K: "sum", A: cArg(0)}, cInt(r.Pick(12)))
		}
		return cBool(r.Chance(0.5))
	}
	switch r.Pick(7) {
	case 0, 1:
		return cOp("+", cOp("*", cArg(0), cInt(k)), cInt(c))
	case 2:
		return cArg(0)
	case 3:
		return cStr("s")
	case 4:
		return &CExp{K: "list", L: []*CExp{cArg(0), cInt(c)}}
	case 5:
		return cOp("/", cArg(0), cInt(2))
	}
	return cOp("-", cArg(0), cInt(k))
}

func (r *Rng) cb2(want string) *CExp {
	switch want {
	case "bool":
		switch r.Pick(5) {
		case 0:
			return cOp("<", cArg(0), cArg(1))
		case 1:
			return cOp("=", cArg(0), cArg(1))
		case 2:
			return cOp(">", cArg(0), cArg(1))
		case 3:
			return cOp("<=", cArg(0), cArg(1))
		}
		return cBool(r.Chance(0.5))
	case "less":
		if r.Chance(0.7) {
			return cOp("<", cArg(0), cArg(1))
		}
		return cOp(">", cArg(0), cArg(1))
	case "state":
		return &CExp{K: "goto", A: cOp("+", &CExp{K: "member", A: cArg(0), Key: "state"}, cArg(1))}
	}
	switch r.Pick(6) {
	case 0, 1:
		return cOp("+", cArg(0), cArg(1))
	case 2:
		return cOp("-", cOp("*", cArg(0), cArg(1)), cArg(1))
	case 3:
		return &CExp{K: "list", L: []*CExp{cArg(0), cArg(1)}}
	case 4:
		return cOp("-", cArg(0), cArg(1))
	}
	return cArg(1)
}

func (r *Rng) cb3() *CExp {
	switch r.Pick(3) {
	case 0:
		return cOp("+", cOp("+", cArg(0), cArg(1)), cArg(2))
	case 1:
		return cOp("-", cOp("*", cArg(0), cInt(100)), cOp("+", cOp("*", cArg(1), cInt(10)), cArg(2)))
	}
	return cArg(1)
}

// spoil a callback: fails at one element, or returns the wrong type
func (r *Rng) spoil(body *CExp) *CExp {
	switch r.Pick(3) {
	case 0:
		return cIf(cOp("=", cArg(0), cInt(r.Pick(5))), cThrow(), body)
	case 1:
		return cStr("s")
	}
	return cIf(cOp("=", cArg(0), cInt(r.Pick(5))), cStr("s"), body)
}

func fn(n int, body *CExp) Arg { return Arg{N: n, Body: body} }
func val(t *Tree) Arg          { return Arg{V: t} }

type methSpec struct {
	recv string // list str map any
	out  string // list str map num bool any
	gen  func(r *Rng) []Arg
}

func (r *Rng) nArg() *Tree {
	return tInt([]int{0, 1, 2, 3, -1, 5, 100, -7, 1}[r.Pick(9)])
}

var c07Meths map[string]methSpec
var c07ListNames, c07StrNames, c07MapNames []string

func init() {
	f1 := func(w string) func(r *Rng) []Arg { return func(r *Rng) []Arg { return []Arg{fn(1, r.cb1(w))} } }
	f2 := func(w string) func(r *Rng) []Arg { return func(r *Rng) []Arg { return []Arg{fn(2, r.cb2(w))} } }
	none := func(r *Rng) []Arg { return nil }
	nOnly := func(r *Rng) []Arg { return []Arg{val(r.nArg())} }
	strArg := func(r *Rng) []Arg {
		return []Arg{val(tStr([]string{"", "a", "b", "ab", ",", " ", "ä", "😀", "aa", "1"}[r.Pick(10)]))}
	}
	c07Meths = map[string]methSpec{
		"accept":        {"list", "list", f1("bool")},
		"map":           {"list", "list", f1("")},
		"reduce":        {"list", "any", f2("")},
		"sum":           {"list", "any", none},
		"mapReduce":     {"list", "any", func(r *Rng) []Arg { return []Arg{val(r.c07Int()), fn(2, r.cb2(""))} }},
		"visit":         {"list", "any", func(r *Rng) []Arg { return []Arg{val(r.c07Int()), fn(2, r.cb2(""))} }},
		"mean":          {"list", "num", none},
		"min":           {"list", "any", none},
		"max":           {"list", "any", none},
		"minMax":        {"list", "map", f1("key")},
		"combine":       {"list", "list", f2("")},
		"combine3":      {"list", "list", func(r *Rng) []Arg { return []Arg{fn(3, r.cb3())} }},
		"combineN":      {"list", "list", func(r *Rng) []Arg { return []Arg{val(r.nArg()), fn(1, r.cb1("listsize"))} }},
		"indexWhere":    {"list", "num", f1("bool")},
		"present":       {"list", "bool", f1("bool")},
		"groupByString": {"list", "ulist", f1("key")},
		"groupByInt":    {"list", "ulist", f1("key")},
		"groupByEqual":  {"list", "list", f1("key")},
		"uniqueString":  {"list", "ulist", f1("key")},
		"uniqueInt":     {"list", "ulist", f1("key")},
		"compact":       {"list", "list", f2("bool")},
		"cross": {"list", "list", func(r *Rng) []Arg {
			o, _ := r.c07List()
			if len(o.Items) > 4 {
				o.Items = o.Items[:4]
			}
			return []Arg{val(o), fn(2, r.cb2(""))}
		}},
		"merge": {"first", "list", func(r *Rng) []Arg {
			o, _ := r.c07List()
			return []Arg{val(o), fn(2, r.cb2("less"))}
		}},
		"order":              {"list", "list", f1("key")},
		"orderRev":           {"list", "list", f1("key")},
		"orderLess":          {"list", "list", f2("less")},
		"reverse":            {"list", "list", none},
		"append":             {"list", "list", func(r *Rng) []Arg { return []Arg{val(r.c07Elem("mixed"))} }},
		"iir":                {"list", "list", func(r *Rng) []Arg { return []Arg{fn(1, r.cb1("")), fn(2, r.cb2(""))} }},
		"iirCombine":         {"list", "list", func(r *Rng) []Arg { return []Arg{fn(1, r.cb1("")), fn(3, r.cb3())} }},
		"fsm":                {"list", "list", f2("state")},
		"top":                {"list", "list", nOnly},
		"skip":               {"list", "list", nOnly},
		"number":             {"list", "list", f2("")},
		"set":                {"list", "list", func(r *Rng) []Arg { return []Arg{val(r.nArg()), val(r.c07Elem("mixed"))} }},
		"size":               {"list", "num", none},
		"first":              {"list", "any", none},
		"single":             {"list", "any", none},
		"last":               {"list", "any", none},
		"eval":               {"list", "list", none},
		"movingWindow":       {"list", "list", f1("key")},
		"movingWindowRemove": {"list", "list", f1("listbool")},
		// strings
		"len":      {"str", "num", none},
		"string":   {"any", "str", none},
		"trim":     {"str", "str", none},
		"toLower":  {"str", "str", none},
		"toUpper":  {"str", "str", none},
		"contains": {"str", "bool", strArg},
		"indexOf":  {"str", "num", strArg},
		"split":    {"str", "list", strArg},
		"cut":      {"str", "str", func(r *Rng) []Arg { return []Arg{val(r.nArg()), val(r.nArg())} }},
		"replace": {"str", "str", func(r *Rng) []Arg {
			s := []string{"", "a", "b", "ab", ",", "ä", "xy"}
			return []Arg{val(tStr(s[r.Pick(len(s))])), val(tStr(s[r.Pick(len(s))]))}
		}},
		"toInt": {"str", "num", none},
		// maps
		"get": {"map", "any", func(r *Rng) []Arg { return []Arg{val(tStr([]string{"a", "b", "k", "", "zz"}[r.Pick(5)]))} }},
		"put": {"map", "map", func(r *Rng) []Arg {
			return []Arg{val(tStr([]string{"a", "new", "", "zz"}[r.Pick(4)])), val(r.c07Elem("int"))}
		}},
		"isAvail": {"map", "bool", func(r *Rng) []Arg {
			n := r.Pick(3)
			var as []Arg
			for i := 0; i < n; i++ {
				as = append(as, val(tStr([]string{"a", "b", "k", "zz"}[r.Pick(4)])))
			}
			return as
		}},
		"list": {"map", "list", none},
	}
	for n, m := range c07Meths {
		switch m.recv {
		case "list":
			c07ListNames = append(c07ListNames, n)
		case "str":
			c07StrNames = append(c07StrNames, n)
		case "map":
			c07MapNames = append(c07MapNames, n)
		}
	}
	sort.Strings(c07ListNames)
	sort.Strings(c07StrNames)
	sort.Strings(c07MapNames)
	c07MapNames = append(c07MapNames, "size", "eval")
}

// map methods that share a name with list methods
func (r *Rng) mapStep() Step {
	switch r.Pick(9) {
	case 0:
		return Step{M: "accept", Args: []Arg{fn(2, cOp([]string{"<", "=", "!="}[r.Pick(3)], cArg(0), cStr("b")))}}
	case 1:
		return Step{M: "map", Args: []Arg{fn(2, r.cb2(""))}}
	case 2:
		o := r.c07Map()
		return Step{M: "combine", Args: []Arg{val(o), fn(2, r.cb2(""))}}
	}
	n := c07MapNames[r.Pick(len(c07MapNames))]
	if m, ok := c07Meths[n]; ok && m.recv == "map" {
		return Step{M: n, Args: m.gen(r)}
	}
	return Step{M: n}
}

func (r *Rng) misuse(s Step, kind string) (Step, string) {
	switch r.Pick(6) {
	case 0: // wrong arity of the call
		if r.Chance(0.5) && len(s.Args) > 0 {
			s.Args = s.Args[:len(s.Args)-1]
		} else {
			s.Args = append(append([]Arg{}, s.Args...), val(tInt(1)))
		}
		return s, "call-arity"
	case 1: // wrong argument type
		if len(s.Args) > 0 {
			i := r.Pick(len(s.Args))
			as := append([]Arg{}, s.Args...)
			if as[i].Body != nil {
				as[i] = val(tInt(3))
			} else if as[i].V.Kind == "int" {
				as[i] = val(tStr("x"))
			} else {
				as[i] = val(tInt(3))
			}
			s.Args = as
			return s, "argument-type"
		}
	case 2: // callback with the wrong number of parameters
		for i, a := range s.Args {
			if a.Body != nil {
				as := append([]Arg{}, s.Args...)
				n := a.N%3 + 1
				as[i] = fn(n, cArg(0))
				s.Args = as
				return s, "callback-arity"
			}
		}
	case 3, 4: // callback failing at an element / returning the wrong type
		for i, a := range s.Args {
			if a.Body != nil {
				as := append([]Arg{}, s.Args...)
				as[i] = fn(a.N, r.spoil(a.Body))
				s.Args = as
				return s, "callback-result"
			}
		}
	case 5: // method of another type
		other := map[string][]string{"list": {"len", "get", "cut"}, "str": {"map", "size", "get"}, "map": {"top", "len", "first"}, "num": {"size", "len"}, "bool": {"size"}, "any": {"nosuch"}, "ulist": {"len"}}
		ns := other[kind]
		if len(ns) > 0 {
			return Step{M: ns[r.Pick(len(ns))]}, "foreign-method"
		}
	}
	return s, ""
}

func (r *Rng) genCase() *C07Case {
	c := &C07Case{Origin: "generated"}
	kind := "list"
	switch r.Pick(10) {
	case 0, 1:
		kind = "str"
		c.Src = tStr(c07Strings[r.Pick(len(c07Strings))])
	case 2:
		kind = "map"
		c.Src = r.c07Map()
	case 3:
		// static functions of Sem/Lib.v
		st := []string{"abs", "sign", "sqr", "int", "float", "min", "max", "binAnd", "binOr", "isInt", "isFloat", "string", "numbers"}[r.Pick(13)]
		c.Static = st
		n := 1
		switch st {
		case "min", "max":
			n = 1 + r.Pick(3)
		case "binAnd", "binOr":
			n = 2
		}
		if r.Chance(0.08) {
			n++
		}
		for i := 0; i < n; i++ {
			k := "num"
			if st == "numbers" || st == "binAnd" || st == "binOr" {
				k = "int"
			}
			if r.Chance(0.1) {
				k = "str"
			}
			c.StArgs = append(c.StArgs, r.c07Elem(k))
		}
		if st == "numbers" {
			c.StArgs = []*Tree{tInt(r.Pick(8))}
			kind = "list"
		} else {
			kind = "num"
		}
	default:
		c.Src, _ = r.c07List()
	}
	hashed := false
	nsteps := []int{1, 1, 1, 2, 2, 3, 4}[r.Pick(7)]
	if c.Static != "" && kind != "list" {
		nsteps = r.Pick(2)
	}
	for i := 0; i < nsteps; i++ {
		var s Step
		switch kind {
		case "list":
			for {
				n := c07ListNames[r.Pick(len(c07ListNames))]
				if n == "merge" {
					continue
				}
				s = Step{M: n, Args: c07Meths[n].gen(r)}
				break
			}
			if i == 0 && c.Static == "" && c.Src.Repr == "eager" && r.Chance(0.06) {
				s = Step{M: "merge", Args: c07Meths["merge"].gen(r)}
			}
		case "ulist":
			s = Step{M: "size"}
		case "str":
			n := c07StrNames[r.Pick(len(c07StrNames))]
			s = Step{M: n, Args: c07Meths[n].gen(r)}
		case "map":
			s = r.mapStep()
		default:
			s = Step{M: "string"}
		}
		// keep the share of plain successes up: fit the receiver to methods that need a special one
		if i == 0 && c.Static == "" {
			switch {
			case s.M == "toInt" && r.Chance(0.6):
				c.Src = tStr([]string{"12", "-7", "+5", "007", "0", "9223372036854775807", "-9223372036854775808", "42"}[r.Pick(8)])
			case s.M == "single" && c.Src.Kind == "list" && len(c.Src.Items) > 1 && r.Chance(0.6):
				c.Src.Items = c.Src.Items[:1]
			case s.M == "set" && c.Src.Kind == "list" && len(c.Src.Items) > 0 && r.Chance(0.7):
				s.Args[0] = val(tInt(r.Pick(len(c.Src.Items))))
			}
		}
		if r.Chance(0.07) {
			var what string
			s, what = r.misuse(s, kind)
			if what != "" {
				c.Origin = "misuse:" + what
			}
		}
		c.Steps = append(c.Steps, s)
		out := "any"
		if m, ok := c07Meths[s.M]; ok {
			out = m.out
			if kind == "map" {
				switch s.M {
				case "accept", "map", "combine", "put", "eval":
					out = "map"
				case "size":
					out = "num"
				}
			}
		}
		if kind == "ulist" {
			out = "num"
		}
		if kind == "map" && s.M == "eval" {
			hashed = true // a Go map from here on: iteration order is not specified
		}
		if kind == "map" && s.M == "list" && hashed {
			out = "ulist"
		}
		kind = out
		if kind == "any" {
			break
		}
	}
	c.Unordered = kind == "ulist"
	return c
}

// corpus: inputs that have failed in the past (or are boundary cases of the known defects)
func c07Corpus() []*C07Case {
	l := func(xs ...int) *Tree { return tInts(xs...) }
	mk := func(src *Tree, steps ...Step) *C07Case { return &C07Case{Src: src, Steps: steps, Origin: "corpus"} }
	s := func(m string, args ...Arg) Step { return Step{M: m, Args: args} }
	window := cOp("-", cOp("*", &CExp{K: "index", A: cArg(0), B: cInt(0)}, cInt(10)), &CExp{K: "index", A: cArg(0), B: cInt(1)})
	return []*C07Case{
		mk(tStr(""), s("cut", val(tInt(0)), val(tInt(1)))),
		mk(tStr(""), s("cut", val(tInt(0)), val(tInt(0)))),
		mk(tStr(""), s("cut", val(tInt(-3)), val(tInt(-1)))),
		mk(tStr("a"), s("cut", val(tInt(1)), val(tInt(1)))),
		mk(tStr("häb"), s("cut", val(tInt(1)), val(tInt(-1)))),
		mk(l(1, 2), s("combineN", val(tInt(0)), fn(1, &CExp{K: "size", A: cArg(0)}))),
		mk(l(), s("combineN", val(tInt(0)), fn(1, &CExp{K: "size", A: cArg(0)}))),
		mk(l(), s("combineN", val(tInt(-1)), fn(1, &CExp{K: "size", A: cArg(0)}))),
		mk(l(1, 2, 3), s("combineN", val(tInt(-1)), fn(1, cArg(0)))),
		mk(l(1, 2, 3, 4, 5), s("combineN", val(tInt(3)), fn(1, cArg(0)))),
		mk(l(1, 2, 3, 4, 5), s("combineN", val(tInt(2)), fn(1, window))),
		mk(l(1, 2, 3, 4, 5), s("combineN", val(tInt(6)), fn(1, cArg(0)))),
		mk(l(2, 1, 3), s("orderLess", fn(2, cStr("s")))),
		mk(l(2, 1, 3), s("orderLess", fn(2, cThrow()))),
		mk(l(2, 1, 3), s("orderLess", fn(2, cOp("<", cArg(0), cArg(1))))),
		mk(l(2, 1, 3), s("order", fn(1, cThrow()))),
		mk(tList(tStr("a")), s("order", fn(1, cThrow()))),
		mk(tList(tInt(2), tStr("a"), tInt(3)), s("order", fn(1, cArg(0)))),
		mk(l(1, 2, 3), Step{M: "iirApply", Args: []Arg{val(tMap([]string{"x"}, tInt(1)))}}),
		mk(l(1, 2, 3), s("top", val(tInt(-1)))),
		mk(l(1, 2, 3), s("skip", val(tInt(-1)))),
		mk(l(1, 2, 3), s("top", val(tInt(0)))),
		mk(l(1, 2, 3), s("skip", val(tInt(5)))),
		mk(l(1, 2, 3), s("map", fn(1, cThrow())), s("top", val(tInt(0)))),
		mk(l(1, 2, 3), s("map", fn(1, cIf(cOp("=", cArg(0), cInt(1)), cThrow(), cArg(0)))), s("skip", val(tInt(1)))),
		mk(l(), s("sum")), mk(l(), s("mean")), mk(l(), s("min")), mk(l(), s("max")), mk(l(), s("first")), mk(l(), s("last")),
		mk(l(), s("reduce", fn(2, cOp("+", cArg(0), cArg(1))))),
		mk(l(1, 2, 3), s("single")), mk(l(7), s("single")), mk(l(), s("single")),
		mk(l(), s("minMax", fn(1, cArg(0)))),
		mk(l(3, 1, 2), s("minMax", fn(1, cArg(0)))),
		mk(l(1, 2, 3), s("set", val(tInt(3)), val(tInt(9)))),
		mk(l(1, 2, 3), s("set", val(tInt(-1)), val(tInt(9)))),
		mk(tStr("häb"), s("indexOf", val(tStr("b")))),
		mk(tStr("häb"), s("len")),
		mk(tStr("ab"), s("replace", val(tStr("")), val(tStr("-")))),
		mk(tStr(""), s("split", val(tStr("")))),
		mk(tStr(""), s("split", val(tStr(",")))),
		mk(tMap([]string{"a"}, tInt(1)), s("put", val(tStr("a")), val(tInt(2)))),
		mk(tMap([]string{"a"}, tInt(1)), s("isAvail", val(tStr("zz")), val(tInt(5)))),
	}
}

// ---------- the run ----------

func c07Run(c *C07Case, id int, sum *Summary, cw *CaseWriter) {
	text, names, vals := c.Program()
	o := runReal(text, names, vals)
	sum.Evaluations++
	sum.Count("origin", strings.SplitN(c.Origin, ":", 2)[0])
	if strings.HasPrefix(c.Origin, "misuse:") {
		sum.Count("misuse_kind", strings.TrimPrefix(c.Origin, "misuse:"))
	}
	sum.Count("outcome", o.Kind)
	sum.Count("steps", fmt.Sprint(len(c.Steps)))
	for _, s := range c.Steps {
		sum.Count("builtin", s.M)
	}
	if c.Static != "" {
		sum.Count("builtin", "static:"+c.Static)
	}
	if c.Src != nil {
		k := c.Src.Kind
		if k == "list" {
			k = "list:" + bucket(len(c.Src.Items)) + ":" + c.Src.Repr
		}
		sum.Count("receiver", k)
	}
	if o.Kind == "unrepresentable" {
		sum.Skipped["result not representable ("+o.Err+")"]++
		return
	}
	var obs string
	switch o.Kind {
	case "ok":
		obs = "OOk (" + o.Coq + ")"
	case "fail":
		obs = "OFail"
	default:
		obs = "OPanic"
	}
	sig := c.Signature()
	shown := o.Coq
	if o.Kind != "ok" {
		shown = o.Kind + ": " + o.Err
	}
	human := map[string]any{"program": text, "arguments": humanArgs(c), "observed": shown, "repro": c, "signature": sig}
	sum.Cases[fmt.Sprint(id)] = human
	// non-trivial: at least one built-in was really applied to a non-empty receiver or took the error path on purpose
	sum.Nontriv(text + "|" + strings.Join(humanArgs(c), "|"))
	if id%97 == 0 {
		sum.Sample(human)
	}
	cw.Add(c.Coq(id, obs))
	if what, want := c.oracleVerdict(o); what != "" {
		sum.GoViolations = append(sum.GoViolations, GoViolation{CaseID: id, What: what, Sig: sig, Human: human, Expected: want, Observed: shown})
	} else if o.Kind == "panic" {
		sum.GoViolations = append(sum.GoViolations, GoViolation{CaseID: id, What: "a built-in panicked instead of returning an error", Sig: sig, Human: human, Expected: "an error value", Observed: shown})
	}
}

func humanArgs(c *C07Case) []string {
	var out []string
	add := func(t *Tree) {
		bs, _ := json.Marshal(t.Human())
		out = append(out, string(bs))
	}
	if c.Src != nil {
		add(c.Src)
	}
	for _, a := range c.StArgs {
		add(a)
	}
	for _, s := range c.Steps {
		for _, a := range s.Args {
			if a.V != nil {
				add(a.V)
			}
		}
	}
	return out
}

func cmdC07(seed int64, tier, outDir string) {
	n := 1400
	if tier == "thorough" {
		n = 60000
	}
	r := NewRng(seed)
	sum := NewSummary("C07", seed, tier)
	sum.Rule = "pipelines source(.method(args)){0..4} run through value.New().Generate; sources: lists (empty, singleton, duplicates, sorted, reversed, random ints incl. extremes, mixed int/float, nested lists/maps, strings, heterogeneous; eager or behind a lazy map stage), unicode strings, maps, static calls; callbacks from a closed pool with Coq twins; 7% of the steps are misuse on purpose (call arity, argument type, callback arity, callback failing at an element or returning the wrong type, method of another type). Every case applies at least one built-in; distinct by program text and argument values"
	cw := NewCaseWriter(outDir, "From P2 Require Import Base.Prelude Sem.Num Sem.Syntax Sem.Ops Lib.Names Lib.Builtins Run.C07Run.", "c07_case", "c07_id", "c07_im", "c07_is", 450)
	id := 0
	if optReplay != "" {
		var c C07Case
		if err := json.Unmarshal(loadReplayCase(), &c); err != nil {
			fatal("replay case: %v", err)
		}
		c07Run(&c, 1, sum, cw)
		cw.Flush()
		sum.CaseFiles = cw.files
		sum.Write(outDir)
		return
	}
	n *= optBoost
	for _, c := range c07Corpus() {
		id++
		c07Run(c, id, sum, cw)
	}
	for i := 0; i < n; i++ {
		id++
		c07Run(r.genCase(), id, sum, cw)
	}
	cw.Flush()
	sum.CaseFiles = cw.files
	if sum.Evaluations > 0 {
		share := float64(sum.Distribution["outcome"]["fail"]+sum.Distribution["outcome"]["panic"]) / float64(sum.Evaluations)
		sum.Extra["error_share"] = math.Round(share*1000) / 1000
		sum.Extra["degraded"] = share > 0.30
	}
	sort.SliceStable(sum.GoViolations, func(i, j int) bool {
		return len(fmt.Sprint(sum.GoViolations[i].Human["program"])) < len(fmt.Sprint(sum.GoViolations[j].Human["program"]))
	})
	sum.Write(outDir)
}
