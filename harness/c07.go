package main

// C07 - built-in list, map, string and numeric library against its documented model.
// A case is a pipeline: a source value (or a static call) followed by up to 4 method calls with
// values and callbacks from a closed expression language.  The real code runs the pipeline through
// value.New().Generate; coq/Run/C07Run.v runs the same pipeline through the implementation models
// (c07_im) and through the documented models and verified checkers (c07_is); an independent eager Go
// reference (oracle) judges the most used list built-ins on int/string data.

import (
	"encoding/json"
	"errors"
	"fmt"
	"math"
	"math/bits"
	"runtime"
	"sort"
	"strings"

	"github.com/hneemann/parser2/funcGen"
	"github.com/hneemann/parser2/value"
)

func init() {
	register("c07", cmdC07)
	registerTables(c07WriteMethodTables)
}

// ---------- method tables -> coq/Generated/ValueMethods.v ----------

func c07WriteMethodTables(outDir string) {
	fg := value.New()
	var b strings.Builder
	b.WriteString(genHeader)
	b.WriteString("Local Open Scope Z_scope.\n")
	b.WriteString("(* value.New(): methods per type id (1 int, 2 float, 3 string, 4 bool, 5 list, 6 map, 7 closure, ...)\n   as (name, number of arguments at the call site; -1 = variable) *)\n")
	b.WriteString("Definition value_methods : list (N * list (list N * Z)) := [")
	tbl := value.VerifMethodArities(fg)
	var ids []int
	for id := range tbl {
		ids = append(ids, id)
	}
	sort.Ints(ids)
	for i, id := range ids {
		if i > 0 {
			b.WriteString(";")
		}
		fmt.Fprintf(&b, "\n  (%d%%N, [", id)
		names := sortedKeys(tbl[id])
		for j, n := range names {
			if j > 0 {
				b.WriteString(";")
			}
			fmt.Fprintf(&b, "\n    (%s%%N, %s)", CoqStr(n), c07CoqZ(int64(tbl[id][n])))
		}
		b.WriteString("])")
	}
	b.WriteString("].\n\n(* static functions (name, number of arguments; -1 = variable) *)\n")
	b.WriteString("Definition value_statics : list (list N * Z) := [")
	st := fg.VerifStaticArities()
	for j, n := range sortedKeys(st) {
		if j > 0 {
			b.WriteString(";")
		}
		fmt.Fprintf(&b, "\n  (%s%%N, %s)", CoqStr(n), c07CoqZ(int64(st[n])))
	}
	b.WriteString("].\n")
	writeIfChanged(outDir+"/ValueMethods.v", b.String())
}

func c07CoqZ(z int64) string {
	if z < 0 {
		return fmt.Sprintf("(%d)", z)
	}
	return fmt.Sprint(z)
}

// ---------- values ----------

func c07CoqFloat(f float64) string {
	switch {
	case math.IsNaN(f):
		return "FNaN"
	case math.IsInf(f, 1):
		return "(FInf false)"
	case math.IsInf(f, -1):
		return "(FInf true)"
	case f == 0 && math.Signbit(f):
		return "FNegZero"
	case f == 0:
		return "(FFin 0 0)"
	}
	b := math.Float64bits(f)
	exp := int64((b >> 52) & 0x7ff)
	man := int64(b & (1<<52 - 1))
	if exp == 0 {
		exp = 1
	} else {
		man |= 1 << 52
	}
	e := exp - 1075
	tz := bits.TrailingZeros64(uint64(man))
	man >>= uint(tz)
	e += int64(tz)
	if b>>63 == 1 {
		man = -man
	}
	return fmt.Sprintf("(FFin %s %s)", c07CoqZ(man), c07CoqZ(e))
}

// Coq term (Sem.Syntax.value) of a generated tree
func (t *Tree) c07CoqVal() string {
	switch t.Kind {
	case "int":
		return "VInt " + c07CoqZ(int64(t.I))
	case "float":
		return "VFloat " + c07CoqFloat(t.F)
	case "bool":
		return "VBool " + CoqBool(t.B)
	case "str":
		return "VStr " + CoqStr(t.S)
	case "list":
		parts := make([]string, len(t.Items))
		for i, it := range t.Items {
			parts[i] = it.c07CoqVal()
		}
		return "VList " + CoqList(parts)
	}
	parts := make([]string, len(t.Items))
	for i, it := range t.Items {
		parts[i] = "(" + CoqStr(t.Keys[i]) + ", " + it.c07CoqVal() + ")"
	}
	return "VMap " + CoqList(parts)
}

var c07ErrUnrepresentable = errors.New("unrepresentable")

// deep evaluation of what the implementation returned, as a Coq term; lazy lists are evaluated here
func c07CoqObserved(v value.Value) (string, error) {
	st := funcGen.NewEmptyStack[value.Value]()
	switch x := v.(type) {
	case value.Int:
		return "VInt " + c07CoqZ(int64(x)), nil
	case value.Float:
		return "VFloat " + c07CoqFloat(float64(x)), nil
	case value.Bool:
		return "VBool " + CoqBool(bool(x)), nil
	case value.String:
		if !validUTF8(string(x)) {
			return "", c07ErrUnrepresentable
		}
		return "VStr " + CoqStr(string(x)), nil
	case *value.List:
		sl, err := x.ToSlice(st)
		if err != nil {
			return "", err
		}
		parts := make([]string, len(sl))
		for i, it := range sl {
			p, err := c07CoqObserved(it)
			if err != nil {
				return "", err
			}
			parts[i] = p
		}
		return "VList " + CoqList(parts), nil
	case value.Map:
		var parts []string
		var ierr error
		x.Iter(func(k string, v value.Value) bool {
			p, err := c07CoqObserved(v)
			if err != nil {
				ierr = err
				return false
			}
			parts = append(parts, "("+CoqStr(k)+", "+p+")")
			return true
		})
		if ierr != nil {
			return "", ierr
		}
		return "VMap " + CoqList(parts), nil
	}
	return "", c07ErrUnrepresentable
}

// ---------- callbacks ----------

// c07CExp mirrors Run/C07Run.v cexp
type c07CExp struct {
	K   string     `json:"k"` // arg lit op if throw list size sum index member goto
	I   int        `json:"i,omitempty"`
	V   *Tree      `json:"v,omitempty"`
	Op  string     `json:"op,omitempty"`
	A   *c07CExp   `json:"a,omitempty"`
	B   *c07CExp   `json:"b,omitempty"`
	C   *c07CExp   `json:"c,omitempty"`
	L   []*c07CExp `json:"l,omitempty"`
	Key string     `json:"key,omitempty"`
	MK  []string   `json:"mk,omitempty"` // keys of a map literal, values in L
}

var c07OpCoq = map[string]string{"+": "op_add", "-": "op_sub", "*": "op_mul", "%": "op_mod", "/": "op_div",
	"=": "op_eq", "!=": "op_ne", "<": "op_lt", ">": "op_gt", "<=": "op_le", ">=": "op_ge"}

var c07ParamNames = []string{"a", "b", "c"}

func c07LitText(t *Tree) string {
	switch t.Kind {
	case "int":
		if t.I < 0 {
			return fmt.Sprintf("(0-%d)", -t.I)
		}
		return fmt.Sprint(t.I)
	case "str":
		return "\"" + t.S + "\"" // plain ASCII letters only (generator)
	case "bool":
		if t.B {
			return "true"
		}
		return "false"
	case "float":
		return fmt.Sprintf("(%d/2)", int(t.F*2)) // halves only (generator)
	}
	panic("literal kind " + t.Kind)
}

func (e *c07CExp) Text(top bool) string {
	switch e.K {
	case "arg":
		return c07ParamNames[e.I]
	case "lit":
		return c07LitText(e.V)
	case "op":
		return "(" + e.A.Text(false) + e.Op + e.B.Text(false) + ")"
	case "if":
		s := "if " + e.A.Text(false) + " then " + e.B.Text(true) + " else " + e.C.Text(true)
		if top {
			return s
		}
		return "(" + s + ")"
	case "throw":
		return "throw(\"e\")"
	case "list":
		parts := make([]string, len(e.L))
		for i, x := range e.L {
			parts[i] = x.Text(true)
		}
		return "[" + strings.Join(parts, ",") + "]"
	case "size":
		return e.A.Text(false) + ".size()"
	case "sum":
		return e.A.Text(false) + ".sum()"
	case "index":
		return e.A.Text(false) + "[" + e.B.Text(true) + "]"
	case "member":
		return e.A.Text(false) + "." + e.Key
	case "goto":
		return "goto(" + e.A.Text(true) + ")"
	case "append":
		return e.A.Text(false) + ".append(" + e.B.Text(true) + ")"
	case "set":
		return e.A.Text(false) + ".set(" + e.B.Text(true) + "," + e.C.Text(true) + ")"
	case "reverse":
		return e.A.Text(false) + ".reverse()"
	case "map":
		parts := make([]string, len(e.L))
		for i, x := range e.L {
			parts[i] = e.MK[i] + ":" + x.Text(true)
		}
		return "{" + strings.Join(parts, ",") + "}"
	case "mapmul":
		return e.A.Text(false) + ".map(x->x*" + c07LitText(c07TInt(e.I)) + ")"
	case "topn":
		return fmt.Sprintf("%s.top(%d)", e.A.Text(false), e.I)
	case "skipn":
		return fmt.Sprintf("%s.skip(%d)", e.A.Text(false), e.I)
	case "acceptgt":
		return e.A.Text(false) + ".accept(x->x>" + c07LitText(c07TInt(e.I)) + ")"
	case "combineadd":
		return e.A.Text(false) + ".combine((x,y)->x+y)"
	}
	panic("cexp kind " + e.K)
}

func (e *c07CExp) Coq() string {
	switch e.K {
	case "arg":
		return fmt.Sprintf("CArg %d", e.I)
	case "lit":
		return "CLit (" + e.V.c07CoqVal() + ")"
	case "op":
		return "COp " + c07OpCoq[e.Op] + " (" + e.A.Coq() + ") (" + e.B.Coq() + ")"
	case "if":
		return "CIf (" + e.A.Coq() + ") (" + e.B.Coq() + ") (" + e.C.Coq() + ")"
	case "throw":
		return "CThrow"
	case "list":
		parts := make([]string, len(e.L))
		for i, x := range e.L {
			parts[i] = x.Coq()
		}
		return "CList " + CoqList(parts)
	case "size":
		return "CSize (" + e.A.Coq() + ")"
	case "sum":
		return "CSum (" + e.A.Coq() + ")"
	case "index":
		return "CIndex (" + e.A.Coq() + ") (" + e.B.Coq() + ")"
	case "member":
		return "CMember (" + e.A.Coq() + ") " + CoqStr(e.Key) + "%N"
	case "goto":
		return "CGoto (" + e.A.Coq() + ")"
	case "append":
		return "CAppend (" + e.A.Coq() + ") (" + e.B.Coq() + ")"
	case "set":
		return "CSet (" + e.A.Coq() + ") (" + e.B.Coq() + ") (" + e.C.Coq() + ")"
	case "reverse":
		return "CReverse (" + e.A.Coq() + ")"
	case "map":
		parts := make([]string, len(e.L))
		for i, x := range e.L {
			parts[i] = "(" + CoqStr(e.MK[i]) + ", " + x.Coq() + ")"
		}
		return "CMap " + CoqList(parts)
	case "mapmul":
		return "CMapMul (" + e.A.Coq() + ") " + c07CoqZ(int64(e.I))
	case "topn":
		return "CTopN (" + e.A.Coq() + ") " + c07CoqZ(int64(e.I))
	case "skipn":
		return "CSkipN (" + e.A.Coq() + ") " + c07CoqZ(int64(e.I))
	case "acceptgt":
		return "CAcceptGt (" + e.A.Coq() + ") " + c07CoqZ(int64(e.I))
	case "combineadd":
		return "CCombineAdd (" + e.A.Coq() + ")"
	}
	panic("cexp kind " + e.K)
}

func c07CArg(i int) *c07CExp                   { return &c07CExp{K: "arg", I: i} }
func c07CInt(i int) *c07CExp                   { return &c07CExp{K: "lit", V: &Tree{Kind: "int", I: i}} }
func c07CStr(s string) *c07CExp                { return &c07CExp{K: "lit", V: &Tree{Kind: "str", S: s}} }
func c07CBool(b bool) *c07CExp                 { return &c07CExp{K: "lit", V: &Tree{Kind: "bool", B: b}} }
func c07COp(op string, a, b *c07CExp) *c07CExp { return &c07CExp{K: "op", Op: op, A: a, B: b} }
func c07CIf(c, t, e *c07CExp) *c07CExp         { return &c07CExp{K: "if", A: c, B: t, C: e} }
func c07CThrow() *c07CExp                      { return &c07CExp{K: "throw"} }

// ---------- pipelines ----------

type c07Arg struct {
	V    *Tree      `json:"v,omitempty"`
	N    int        `json:"n,omitempty"` // arity of the callback
	Body *c07CExp   `json:"body,omitempty"`
	FM   []c07FMEnt `json:"fm,omitempty"` // a map literal of one-parameter functions
}

type c07FMEnt struct {
	Key  string   `json:"key"`
	Body *c07CExp `json:"body"`
}

type c07Step struct {
	M    string   `json:"m"`
	Args []c07Arg `json:"args"`
}

type C07Case struct {
	Src       *Tree     `json:"src,omitempty"`
	Static    string    `json:"static,omitempty"`
	StArgs    []*Tree   `json:"stargs,omitempty"`
	Steps     []c07Step `json:"steps"`
	Unordered bool      `json:"unordered"`
	MapModel  string    `json:"mapmodel,omitempty"` // verdict of the Go finite-map model for observer cases: ok fail abstain
	Origin    string    `json:"origin"`             // corpus / generated / misuse
}

var c07ModelledMeths = map[string]bool{}

func init() {
	for _, n := range strings.Fields(`accept map reduce sum mapReduce mean min max minMax combine combine3 combineN indexWhere
 groupByString groupByInt groupByEqual uniqueString uniqueInt compact cross merge order orderRev orderLess reverse append
 iir iirCombine visit fsm top skip number present set size first single last eval movingWindow movingWindowRemove replaceList
 len string trim toLower toUpper contains indexOf split cut replace toInt toFloat get put isAvail list multiUse replaceMap`) {
		c07ModelledMeths[n] = true
	}
}

func c07CoqMeth(n string) string {
	switch n {
	case "#fork":
		return "M_fork"
	case "+":
		return "M_plus"
	case "#observe":
		return "M_observe"
	}
	if c07ModelledMeths[n] {
		return "M_" + n
	}
	return "M_other " + CoqStr(n) + "%N"
}

// program text, argument names and argument values of a case
func (c *C07Case) Program() (string, []string, []value.Value) {
	var names []string
	var vals []value.Value
	addVal := func(t *Tree) string {
		n := fmt.Sprintf("v%d", len(names))
		names = append(names, n)
		vals = append(vals, t.Build())
		return n
	}
	argText := func(a c07Arg) string {
		if a.FM != nil {
			parts := make([]string, len(a.FM))
			for i, e := range a.FM {
				parts[i] = e.Key + ":a->" + e.Body.Text(true)
			}
			return "{" + strings.Join(parts, ",") + "}"
		}
		if a.Body != nil {
			ps := strings.Join(c07ParamNames[:a.N], ",")
			if a.N != 1 {
				ps = "(" + ps + ")"
			}
			return ps + "->" + a.Body.Text(true)
		}
		return addVal(a.V)
	}
	// chain renders recv.step1.step2...; an observer bundle (last step only) needs a let and is returned separately
	chain := func(recv string, steps []c07Step) (string, *c07Step) {
		for i := range steps {
			st := steps[i]
			switch st.M {
			case "+":
				recv = "(" + recv + "+" + argText(st.Args[0]) + ")"
			case "#observe":
				return recv, &steps[i]
			default:
				parts := make([]string, len(st.Args))
				for k, a := range st.Args {
					parts[k] = argText(a)
				}
				recv += "." + st.M + "(" + strings.Join(parts, ",") + ")"
			}
		}
		return recv, nil
	}
	var src string
	if c.Static != "" {
		parts := make([]string, len(c.StArgs))
		for i, a := range c.StArgs {
			parts[i] = addVal(a)
		}
		src = c.Static + "(" + strings.Join(parts, ",") + ")"
	} else {
		src = addVal(c.Src)
	}
	// split at the fork markers
	var pre []c07Step
	var branches [][]c07Step
	cur := &pre
	for _, st := range c.Steps {
		if st.M == "#fork" {
			branches = append(branches, nil)
			cur = &branches[len(branches)-1]
			continue
		}
		*cur = append(*cur, st)
	}
	var b strings.Builder
	if len(branches) > 0 {
		e, _ := chain(src, pre)
		b.WriteString("let w=" + e + "; [")
		for _, br := range branches {
			be, _ := chain("w", br)
			b.WriteString(be + ", ")
		}
		b.WriteString("w, " + src + "]")
	} else {
		e, obs := chain(src, pre)
		if obs == nil {
			b.WriteString(e)
		} else {
			b.WriteString("let m=" + e + "; [m.size(), m.list().size(), m.list(), [")
			other := argText(obs.Args[0])
			for k, a := range obs.Args[1:] {
				kv := argText(a)
				if k > 0 {
					b.WriteString(", ")
				}
				b.WriteString("[m.isAvail(" + kv + "), try m.get(" + kv + ") catch -1, try m.put(" + kv + ",0).size() catch -1]")
			}
			b.WriteString("], string(m), [m=" + other + ", " + other + "=m]]")
		}
	}
	return b.String(), names, vals
}

func (c *C07Case) Coq(id int, obs string) string {
	var src string
	if c.Static != "" {
		parts := make([]string, len(c.StArgs))
		for i, a := range c.StArgs {
			parts[i] = a.c07CoqVal()
		}
		src = "SrcStatic " + CoqStr(c.Static) + "%N " + CoqList(parts)
	} else {
		src = "SrcV (" + c.Src.c07CoqVal() + ")"
	}
	steps := make([]string, len(c.Steps))
	for i, s := range c.Steps {
		args := make([]string, len(s.Args))
		for j, a := range s.Args {
			if a.FM != nil {
				parts := make([]string, len(a.FM))
				for k, e := range a.FM {
					parts[k] = "(" + CoqStr(e.Key) + ", " + e.Body.Coq() + ")"
				}
				args[j] = "AFM " + CoqList(parts)
			} else if a.Body != nil {
				args[j] = fmt.Sprintf("AF %d (%s)", a.N, a.Body.Coq())
			} else {
				args[j] = "AV (" + a.V.c07CoqVal() + ")"
			}
		}
		steps[i] = "(" + c07CoqMeth(s.M) + ", " + CoqList(args) + ")"
	}
	return fmt.Sprintf("(%d, %s, %s, %s, %s)", id, src, CoqList(steps), CoqBool(c.Unordered), obs)
}

// ---------- running the real code ----------

type c07Obs struct {
	Kind string // ok fail panic
	Coq  string
	Val  value.Value
	Err  string
}

func c07IsRuntimePanic(err error) bool {
	var re runtime.Error
	return errors.As(err, &re)
}

func c07RunReal(text string, names []string, vals []value.Value) (o c07Obs) {
	defer func() {
		if r := recover(); r != nil {
			o = c07Obs{Kind: "panic", Err: fmt.Sprint(r)}
		}
	}()
	f, _, err := value.New().Generate(text, names...)
	if err != nil {
		if c07IsRuntimePanic(err) {
			return c07Obs{Kind: "panic", Err: err.Error()}
		}
		return c07Obs{Kind: "fail", Err: "generate: " + err.Error()}
	}
	v, err := f.Eval(vals...)
	if err != nil {
		if c07IsRuntimePanic(err) {
			return c07Obs{Kind: "panic", Err: err.Error()}
		}
		return c07Obs{Kind: "fail", Err: err.Error()}
	}
	if v == nil {
		return c07Obs{Kind: "unrepresentable", Err: "nil value"}
	}
	term, err := c07CoqObserved(v)
	if err == c07ErrUnrepresentable {
		return c07Obs{Kind: "unrepresentable", Err: "closure or invalid string in the result"}
	}
	if err != nil {
		if c07IsRuntimePanic(err) {
			return c07Obs{Kind: "panic", Err: err.Error()}
		}
		return c07Obs{Kind: "fail", Err: err.Error()}
	}
	return c07Obs{Kind: "ok", Coq: term, Val: v}
}

// ---------- independent eager Go reference (oracle) ----------
// values: int64 string bool []any ; anything else (floats, maps) makes the oracle abstain

var c07ErrAbstain = errors.New("abstain")
var c07ErrExpected = errors.New("error expected")

func c07OracleVal(t *Tree) (any, error) {
	switch t.Kind {
	case "int":
		return int64(t.I), nil
	case "str":
		return t.S, nil
	case "bool":
		return t.B, nil
	case "list":
		xs := make([]any, len(t.Items))
		for i, it := range t.Items {
			x, err := c07OracleVal(it)
			if err != nil {
				return nil, err
			}
			xs[i] = x
		}
		return xs, nil
	}
	return nil, c07ErrAbstain
}

func c07OracleOp(op string, a, b any) (any, error) {
	x, xi := a.(int64)
	y, yi := b.(int64)
	if xi && yi {
		switch op {
		case "+":
			return x + y, nil
		case "-":
			return x - y, nil
		case "*":
			return x * y, nil
		case "%":
			if y == 0 {
				return nil, c07ErrExpected
			}
			return x % y, nil
		case "=":
			return x == y, nil
		case "!=":
			return x != y, nil
		case "<":
			return x < y, nil
		case ">":
			return x > y, nil
		case "<=":
			return x <= y, nil
		case ">=":
			return x >= y, nil
		}
		return nil, c07ErrAbstain
	}
	s, si := a.(string)
	u, ui := b.(string)
	if si && ui {
		switch op {
		case "+":
			return s + u, nil
		case "=":
			return s == u, nil
		case "!=":
			return s != u, nil
		case "<":
			return s < u, nil
		case ">":
			return s > u, nil
		}
	}
	return nil, c07ErrAbstain
}

func (e *c07CExp) c07Oracle(args []any) (any, error) {
	switch e.K {
	case "arg":
		return args[e.I], nil
	case "lit":
		return c07OracleVal(e.V)
	case "op":
		a, err := e.A.c07Oracle(args)
		if err != nil {
			return nil, err
		}
		b, err := e.B.c07Oracle(args)
		if err != nil {
			return nil, err
		}
		return c07OracleOp(e.Op, a, b)
	case "if":
		c, err := e.A.c07Oracle(args)
		if err != nil {
			return nil, err
		}
		cb, ok := c.(bool)
		if !ok {
			return nil, c07ErrExpected
		}
		if cb {
			return e.B.c07Oracle(args)
		}
		return e.C.c07Oracle(args)
	case "throw":
		return nil, c07ErrExpected
	case "list":
		xs := make([]any, len(e.L))
		for i, x := range e.L {
			v, err := x.c07Oracle(args)
			if err != nil {
				return nil, err
			}
			xs[i] = v
		}
		return xs, nil
	case "size":
		a, err := e.A.c07Oracle(args)
		if err != nil {
			return nil, err
		}
		if l, ok := a.([]any); ok {
			return int64(len(l)), nil
		}
	}
	return nil, c07ErrAbstain
}

func c07OracleFunc(a c07Arg, n int) (func(...any) (any, error), error) {
	if a.Body == nil || a.N != n {
		return nil, c07ErrExpected
	}
	return func(args ...any) (any, error) { return a.Body.c07Oracle(args) }, nil
}

// eager and strict; abstains (c07ErrAbstain) on anything it does not cover, and on errors raised by a
// callback of a lazy stage (whether they surface depends on demand)
func c07OracleStep(recv any, s c07Step) (any, error) {
	l, isList := recv.([]any)
	if !isList {
		return nil, c07ErrAbstain
	}
	argInt := func(i int) (int64, error) {
		if i >= len(s.Args) || s.Args[i].V == nil {
			return 0, c07ErrAbstain
		}
		v, err := c07OracleVal(s.Args[i].V)
		if err != nil {
			return 0, err
		}
		n, ok := v.(int64)
		if !ok {
			return 0, c07ErrExpected
		}
		return n, nil
	}
	lazy := func(err error) error {
		if err == c07ErrExpected {
			return c07ErrAbstain
		}
		return err
	}
	switch s.M {
	case "size":
		if len(s.Args) != 0 {
			return nil, c07ErrExpected
		}
		return int64(len(l)), nil
	case "first":
		if len(s.Args) != 0 || len(l) == 0 {
			return nil, c07ErrExpected
		}
		return l[0], nil
	case "last":
		if len(s.Args) != 0 || len(l) == 0 {
			return nil, c07ErrExpected
		}
		return l[len(l)-1], nil
	case "reverse":
		if len(s.Args) != 0 {
			return nil, c07ErrExpected
		}
		out := make([]any, len(l))
		for i, x := range l {
			out[len(l)-1-i] = x
		}
		return out, nil
	case "top", "skip":
		if len(s.Args) != 1 {
			return nil, c07ErrExpected
		}
		n, err := argInt(0)
		if err != nil {
			return nil, err
		}
		if n < 0 {
			return nil, c07ErrAbstain // the description does not say
		}
		if n > int64(len(l)) {
			n = int64(len(l))
		}
		if s.M == "top" {
			return append([]any{}, l[:n]...), nil
		}
		return append([]any{}, l[n:]...), nil
	case "map", "accept", "indexWhere", "present":
		if len(s.Args) != 1 {
			return nil, c07ErrExpected
		}
		f, err := c07OracleFunc(s.Args[0], 1)
		if err != nil {
			return nil, err
		}
		var out []any = []any{}
		for i, x := range l {
			y, err := f(x)
			if err != nil {
				if s.M == "map" || s.M == "accept" {
					return nil, lazy(err)
				}
				return nil, err
			}
			if s.M == "map" {
				out = append(out, y)
				continue
			}
			b, ok := y.(bool)
			if !ok {
				if s.M == "accept" {
					return nil, c07ErrAbstain
				}
				return nil, c07ErrExpected
			}
			if s.M == "accept" && b {
				out = append(out, x)
			}
			if s.M == "indexWhere" && b {
				return int64(i), nil
			}
			if s.M == "present" && b {
				return true, nil
			}
		}
		if s.M == "indexWhere" {
			return int64(-1), nil
		}
		if s.M == "present" {
			return false, nil
		}
		return out, nil
	case "reduce", "sum":
		var f func(...any) (any, error)
		if s.M == "sum" {
			if len(s.Args) != 0 {
				return nil, c07ErrExpected
			}
			f = func(a ...any) (any, error) {
				if _, ok := a[0].(int64); !ok {
					return nil, c07ErrAbstain
				}
				return c07OracleOp("+", a[0], a[1])
			}
		} else {
			if len(s.Args) != 1 {
				return nil, c07ErrExpected
			}
			var err error
			f, err = c07OracleFunc(s.Args[0], 2)
			if err != nil {
				return nil, err
			}
		}
		if len(l) == 0 {
			return nil, c07ErrExpected
		}
		acc := l[0]
		for _, x := range l[1:] {
			var err error
			acc, err = f(acc, x)
			if err != nil {
				return nil, err
			}
		}
		return acc, nil
	case "combine", "number":
		if len(s.Args) != 1 {
			return nil, c07ErrExpected
		}
		f, err := c07OracleFunc(s.Args[0], 2)
		if err != nil {
			return nil, err
		}
		out := []any{}
		for i, x := range l {
			var y any
			if s.M == "number" {
				y, err = f(int64(i), x)
			} else if i+1 < len(l) {
				y, err = f(x, l[i+1])
			} else {
				break
			}
			if err != nil {
				return nil, lazy(err)
			}
			out = append(out, y)
		}
		return out, nil
	case "combineN":
		if len(s.Args) != 2 {
			return nil, c07ErrExpected
		}
		n, err := argInt(0)
		if err != nil {
			return nil, err
		}
		if n < 1 {
			return nil, c07ErrExpected
		}
		f, err := c07OracleFunc(s.Args[1], 1)
		if err != nil {
			return nil, err
		}
		out := []any{}
		for i := 0; int64(i)+n <= int64(len(l)); i++ {
			y, err := f(append([]any{}, l[i:int64(i)+n]...))
			if err != nil {
				return nil, lazy(err)
			}
			out = append(out, y)
		}
		return out, nil
	case "append":
		if len(s.Args) != 1 || s.Args[0].V == nil {
			return nil, c07ErrAbstain
		}
		v, err := c07OracleVal(s.Args[0].V)
		if err != nil {
			return nil, err
		}
		return append(append([]any{}, l...), v), nil
	}
	return nil, c07ErrAbstain
}

func c07OracleCoq(v any) string {
	switch x := v.(type) {
	case int64:
		return "VInt " + c07CoqZ(x)
	case string:
		return "VStr " + CoqStr(x)
	case bool:
		return "VBool " + CoqBool(x)
	case []any:
		parts := make([]string, len(x))
		for i, it := range x {
			parts[i] = c07OracleCoq(it)
		}
		return "VList " + CoqList(parts)
	}
	return "?"
}

// verdict of the oracle on a case: "" = agrees or abstains
func (c *C07Case) c07OracleVerdict(o c07Obs) (string, string) {
	if c.Static != "" || c.Src == nil {
		return "", ""
	}
	v, err := c07OracleVal(c.Src)
	if err != nil {
		return "", ""
	}
	for _, s := range c.Steps {
		v, err = c07OracleStep(v, s)
		if err != nil {
			break
		}
	}
	if err == c07ErrAbstain {
		return "", ""
	}
	if err == c07ErrExpected {
		if o.Kind == "ok" {
			return "the eager Go reference requires an error, the implementation returned a value", "error"
		}
		return "", ""
	}
	want := c07OracleCoq(v)
	if o.Kind != "ok" {
		return "the eager Go reference computes a value, the implementation reported " + o.Kind + ": " + o.Err, want
	}
	if o.Coq != want {
		return "the eager Go reference computes a different value", want
	}
	return "", ""
}

// ---------- signatures ----------

func c07IntClass(n, size int) string {
	switch {
	case n < 0:
		return "negative"
	case n == 0:
		return "zero"
	case n >= size:
		return "beyond-size"
	}
	return "inside"
}

func (c *C07Case) Signature() string {
	if len(c.Steps) == 0 {
		return "static:" + c.Static
	}
	last := c.Steps[len(c.Steps)-1]
	if last.M == "#observe" {
		ops := map[string]bool{}
		for _, s := range c.Steps[:len(c.Steps)-1] {
			ops[s.M] = true
		}
		return "map-observers after " + strings.Join(sortedKeys(ops), ",")
	}
	for i, s := range c.Steps {
		if s.M == "#fork" {
			prod := "source"
			if i > 0 {
				prod = c.Steps[i-1].M
			}
			return "sibling/source observed after modifying a result of " + prod
		}
	}
	cls := []string{}
	size := -1
	if len(c.Steps) == 1 && c.Src != nil {
		switch c.Src.Kind {
		case "list", "map":
			size = len(c.Src.Items)
		case "str":
			size = len([]rune(c.Src.S))
		}
		switch {
		case size == 0:
			cls = append(cls, "receiver-empty")
		case size == 1:
			cls = append(cls, "receiver-single")
		}
	}
	for _, a := range last.Args {
		if a.V != nil && a.V.Kind == "int" {
			cls = append(cls, "int-"+c07IntClass(a.V.I, size))
		}
	}
	return last.M + " " + strings.Join(cls, ",")
}

// ---------- generators ----------

func c07TInt(i int) *Tree       { return &Tree{Kind: "int", I: i} }
func c07TStr(s string) *Tree    { return &Tree{Kind: "str", S: s} }
func c07TFloat(f float64) *Tree { return &Tree{Kind: "float", F: f} }
func c07TList(items ...*Tree) *Tree {
	return &Tree{Kind: "list", Repr: "eager", Items: items}
}
func c07TMap(keys []string, items ...*Tree) *Tree {
	return &Tree{Kind: "map", Repr: "listmap", Keys: keys, Items: items}
}
func c07TInts(xs ...int) *Tree {
	t := c07TList()
	for _, x := range xs {
		t.Items = append(t.Items, c07TInt(x))
	}
	return t
}

var c07Strings = []string{"", "a", "ab", "aba", "abab", "a,b,,c", " a b ", "\t x\n", "häb", "日本語", "a😀b", "ÄÖ", "12", "-7", "+5", "007", "1x", "9223372036854775807", "9223372036854775808", "-9223372036854775808", "Hello World", ",", "aa"}

func (r *Rng) c07Int() *Tree {
	if r.Chance(0.08) {
		return c07TInt([]int{1 << 31, 1<<53 + 1, math.MaxInt64, math.MinInt64, -1 << 40}[r.Pick(5)])
	}
	return c07TInt(r.Pick(12) - 3)
}

func (r *Rng) c07Elem(kind string) *Tree {
	switch kind {
	case "int":
		return r.c07Int()
	case "num":
		if r.Chance(0.4) {
			return c07TFloat(float64(r.Pick(17)-6) / 2)
		}
		return r.c07Int()
	case "str":
		return c07TStr(c07Strings[r.Pick(len(c07Strings))])
	case "list":
		n := r.Pick(4)
		xs := make([]int, n)
		for i := range xs {
			xs[i] = r.Pick(6)
		}
		return c07TInts(xs...)
	case "map":
		return c07TMap([]string{"k", "w"}, c07TInt(r.Pick(4)), c07TStr(c07Strings[r.Pick(6)]))
	}
	// mixed
	return r.c07Elem([]string{"int", "num", "str", "list", "int"}[r.Pick(5)])
}

// receivers: empty, singleton, duplicates, sorted, reversed, mixed int/float, nested, strings
func (r *Rng) c07List() (*Tree, string) {
	shapes := []string{"empty", "single", "dups", "dups", "dups", "sorted", "sorted", "sorted", "reversed", "reversed", "random", "random", "random", "random", "random", "random", "numeric-mixed", "numeric-mixed", "nested-lists", "nested-maps", "strings", "heterogeneous"}
	shape := shapes[r.Pick(len(shapes))]
	t := c07TList()
	n := 2 + r.Pick(7)
	switch shape {
	case "empty":
	case "single":
		t.Items = []*Tree{r.c07Elem("int")}
	case "dups":
		for i := 0; i < n; i++ {
			t.Items = append(t.Items, c07TInt(r.Pick(3)))
		}
	case "sorted", "reversed":
		x := r.Pick(5) - 3
		for i := 0; i < n; i++ {
			t.Items = append(t.Items, c07TInt(x))
			x += r.Pick(3)
		}
		if shape == "reversed" {
			for i, j := 0, len(t.Items)-1; i < j; i, j = i+1, j-1 {
				t.Items[i], t.Items[j] = t.Items[j], t.Items[i]
			}
		}
	case "random":
		for i := 0; i < n; i++ {
			t.Items = append(t.Items, r.c07Elem("int"))
		}
	case "numeric-mixed":
		for i := 0; i < n; i++ {
			t.Items = append(t.Items, r.c07Elem("num"))
		}
	case "nested-lists":
		for i := 0; i < n; i++ {
			t.Items = append(t.Items, r.c07Elem("list"))
		}
	case "nested-maps":
		for i := 0; i < n; i++ {
			t.Items = append(t.Items, r.c07Elem("map"))
		}
	case "strings":
		for i := 0; i < n; i++ {
			t.Items = append(t.Items, r.c07Elem("str"))
		}
	default:
		for i := 0; i < n; i++ {
			t.Items = append(t.Items, r.c07Elem("mixed"))
		}
	}
	if r.Chance(0.3) {
		t.Repr = "lazy-map"
	}
	return t, shape
}

func (r *Rng) c07Map() *Tree {
	keys := []string{"a", "b", "k", "", "ä", "state", "x y"}
	n := r.Pick(5)
	t := c07TMap(nil)
	perm := r.Perm(len(keys))
	for i := 0; i < n; i++ {
		t.Keys = append(t.Keys, keys[perm[i]])
		t.Items = append(t.Items, r.c07Elem([]string{"int", "str", "num"}[r.Pick(3)]))
	}
	return t
}

// callback pool; k = number of parameters
func (r *Rng) c07Cb1(want string) *c07CExp {
	k := 1 + r.Pick(4)
	c := r.Pick(7) - 2
	switch want {
	case "bool":
		switch r.Pick(5) {
		case 0:
			return c07COp("=", c07COp("%", c07CArg(0), c07CInt(1+r.Pick(3))), c07CInt(r.Pick(2)))
		case 1:
			return c07COp("<", c07CArg(0), c07CInt(c))
		case 2:
			return c07COp(">=", c07CArg(0), c07CInt(c))
		case 3:
			return c07CBool(r.Chance(0.5))
		}
		return c07COp("=", c07CArg(0), c07CInt(c))
	case "key":
		switch r.Pick(4) {
		case 0:
			return c07COp("%", c07CArg(0), c07CInt(1+r.Pick(3)))
		case 1:
			return c07CArg(0)
		case 2:
			return c07COp("*", c07CArg(0), c07CInt(-1))
		}
		return c07COp("+", c07COp("*", c07CArg(0), c07CInt(0)), c07CInt(c))
	case "listsize":
		switch r.Pick(3) {
		case 0:
			return &c07CExp{K: "size", A: c07CArg(0)}
		case 1:
			return &c07CExp{K: "sum", A: c07CArg(0)}
		}
		return c07COp("-", c07COp("*", &c07CExp{K: "index", A: c07CArg(0), B: c07CInt(0)}, c07CInt(10)), &c07CExp{K: "index", A: c07CArg(0), B: c07CInt(r.Pick(3))})
	case "listbool":
		switch r.Pick(3) {
		case 0:
			return c07COp(">", &c07CExp{K: "size", A: c07CArg(0)}, c07CInt(1+r.Pick(3)))
		case 1:
			return c07COp(">", &c07CExp{K: "sum", A: c07CArg(0)}, c07CInt(r.Pick(12)))
		}
		return c07CBool(r.Chance(0.5))
	}
	switch r.Pick(7) {
	case 0, 1:
		return c07COp("+", c07COp("*", c07CArg(0), c07CInt(k)), c07CInt(c))
	case 2:
		return c07CArg(0)
	case 3:
		return c07CStr("s")
	case 4:
		return &c07CExp{K: "list", L: []*c07CExp{c07CArg(0), c07CInt(c)}}
	case 5:
		return c07COp("/", c07CArg(0), c07CInt(2))
	}
	return c07COp("-", c07CArg(0), c07CInt(k))
}

func (r *Rng) c07Cb2(want string) *c07CExp {
	switch want {
	case "bool":
		switch r.Pick(5) {
		case 0:
			return c07COp("<", c07CArg(0), c07CArg(1))
		case 1:
			return c07COp("=", c07CArg(0), c07CArg(1))
		case 2:
			return c07COp(">", c07CArg(0), c07CArg(1))
		case 3:
			return c07COp("<=", c07CArg(0), c07CArg(1))
		}
		return c07CBool(r.Chance(0.5))
	case "less":
		if r.Chance(0.7) {
			return c07COp("<", c07CArg(0), c07CArg(1))
		}
		return c07COp(">", c07CArg(0), c07CArg(1))
	case "state":
		return &c07CExp{K: "goto", A: c07COp("+", &c07CExp{K: "member", A: c07CArg(0), Key: "state"}, c07CArg(1))}
	}
	switch r.Pick(6) {
	case 0, 1:
		return c07COp("+", c07CArg(0), c07CArg(1))
	case 2:
		return c07COp("-", c07COp("*", c07CArg(0), c07CArg(1)), c07CArg(1))
	case 3:
		return &c07CExp{K: "list", L: []*c07CExp{c07CArg(0), c07CArg(1)}}
	case 4:
		return c07COp("-", c07CArg(0), c07CArg(1))
	}
	return c07CArg(1)
}

func (r *Rng) c07Cb3() *c07CExp {
	switch r.Pick(3) {
	case 0:
		return c07COp("+", c07COp("+", c07CArg(0), c07CArg(1)), c07CArg(2))
	case 1:
		return c07COp("-", c07COp("*", c07CArg(0), c07CInt(100)), c07COp("+", c07COp("*", c07CArg(1), c07CInt(10)), c07CArg(2)))
	}
	return c07CArg(1)
}

// spoil a callback: fails at one element, or returns the wrong type
func (r *Rng) c07Spoil(body *c07CExp) *c07CExp {
	switch r.Pick(3) {
	case 0:
		return c07CIf(c07COp("=", c07CArg(0), c07CInt(r.Pick(5))), c07CThrow(), body)
	case 1:
		return c07CStr("s")
	}
	return c07CIf(c07COp("=", c07CArg(0), c07CInt(r.Pick(5))), c07CStr("s"), body)
}

func c07Fn(n int, body *c07CExp) c07Arg { return c07Arg{N: n, Body: body} }
func c07Val(t *Tree) c07Arg             { return c07Arg{V: t} }

type c07MethSpec struct {
	recv string // list str map any
	out  string // list str map num bool any
	gen  func(r *Rng) []c07Arg
}

func (r *Rng) c07NArg() *Tree {
	return c07TInt([]int{0, 1, 2, 3, -1, 5, 100, -7, 1}[r.Pick(9)])
}

var c07Meths map[string]c07MethSpec
var c07ListNames, c07StrNames, c07MapNames []string

func init() {
	f1 := func(w string) func(r *Rng) []c07Arg {
		return func(r *Rng) []c07Arg { return []c07Arg{c07Fn(1, r.c07Cb1(w))} }
	}
	f2 := func(w string) func(r *Rng) []c07Arg {
		return func(r *Rng) []c07Arg { return []c07Arg{c07Fn(2, r.c07Cb2(w))} }
	}
	none := func(r *Rng) []c07Arg { return nil }
	nOnly := func(r *Rng) []c07Arg { return []c07Arg{c07Val(r.c07NArg())} }
	strArg := func(r *Rng) []c07Arg {
		return []c07Arg{c07Val(c07TStr([]string{"", "a", "b", "ab", ",", " ", "ä", "😀", "aa", "1"}[r.Pick(10)]))}
	}
	c07Meths = map[string]c07MethSpec{
		"accept":        {"list", "list", f1("bool")},
		"map":           {"list", "list", f1("")},
		"reduce":        {"list", "any", f2("")},
		"sum":           {"list", "any", none},
		"mapReduce":     {"list", "any", func(r *Rng) []c07Arg { return []c07Arg{c07Val(r.c07Int()), c07Fn(2, r.c07Cb2(""))} }},
		"visit":         {"list", "any", func(r *Rng) []c07Arg { return []c07Arg{c07Val(r.c07Int()), c07Fn(2, r.c07Cb2(""))} }},
		"mean":          {"list", "num", none},
		"min":           {"list", "any", none},
		"max":           {"list", "any", none},
		"minMax":        {"list", "map", f1("key")},
		"combine":       {"list", "list", f2("")},
		"combine3":      {"list", "list", func(r *Rng) []c07Arg { return []c07Arg{c07Fn(3, r.c07Cb3())} }},
		"combineN":      {"list", "list", func(r *Rng) []c07Arg { return []c07Arg{c07Val(r.c07NArg()), c07Fn(1, r.c07Cb1("listsize"))} }},
		"indexWhere":    {"list", "num", f1("bool")},
		"present":       {"list", "bool", f1("bool")},
		"groupByString": {"list", "ulist", f1("key")},
		"groupByInt":    {"list", "ulist", f1("key")},
		"groupByEqual":  {"list", "list", f1("key")},
		"uniqueString":  {"list", "ulist", f1("key")},
		"uniqueInt":     {"list", "ulist", f1("key")},
		"compact":       {"list", "list", f2("bool")},
		"cross": {"list", "list", func(r *Rng) []c07Arg {
			o, _ := r.c07List()
			if len(o.Items) > 4 {
				o.Items = o.Items[:4]
			}
			return []c07Arg{c07Val(o), c07Fn(2, r.c07Cb2(""))}
		}},
		"merge": {"first", "list", func(r *Rng) []c07Arg {
			o, _ := r.c07List()
			return []c07Arg{c07Val(o), c07Fn(2, r.c07Cb2("less"))}
		}},
		"order":              {"list", "list", f1("key")},
		"orderRev":           {"list", "list", f1("key")},
		"orderLess":          {"list", "list", f2("less")},
		"reverse":            {"list", "list", none},
		"append":             {"list", "list", func(r *Rng) []c07Arg { return []c07Arg{c07Val(r.c07Elem("mixed"))} }},
		"iir":                {"list", "list", func(r *Rng) []c07Arg { return []c07Arg{c07Fn(1, r.c07Cb1("")), c07Fn(2, r.c07Cb2(""))} }},
		"iirCombine":         {"list", "list", func(r *Rng) []c07Arg { return []c07Arg{c07Fn(1, r.c07Cb1("")), c07Fn(3, r.c07Cb3())} }},
		"fsm":                {"list", "list", f2("state")},
		"top":                {"list", "list", nOnly},
		"skip":               {"list", "list", nOnly},
		"number":             {"list", "list", f2("")},
		"set":                {"list", "list", func(r *Rng) []c07Arg { return []c07Arg{c07Val(r.c07NArg()), c07Val(r.c07Elem("mixed"))} }},
		"size":               {"list", "num", none},
		"first":              {"list", "any", none},
		"single":             {"list", "any", none},
		"last":               {"list", "any", none},
		"eval":               {"list", "list", none},
		"movingWindow":       {"list", "list", f1("key")},
		"movingWindowRemove": {"list", "list", f1("listbool")},
		"replaceList":        {"list", "any", f1("listsize")},
		// strings
		"len":      {"str", "num", none},
		"string":   {"any", "str", none},
		"trim":     {"str", "str", none},
		"toLower":  {"str", "str", none},
		"toUpper":  {"str", "str", none},
		"contains": {"str", "bool", strArg},
		"indexOf":  {"str", "num", strArg},
		"split":    {"str", "list", strArg},
		"cut":      {"str", "str", func(r *Rng) []c07Arg { return []c07Arg{c07Val(r.c07NArg()), c07Val(r.c07NArg())} }},
		"replace": {"str", "str", func(r *Rng) []c07Arg {
			s := []string{"", "a", "b", "ab", ",", "ä", "xy"}
			return []c07Arg{c07Val(c07TStr(s[r.Pick(len(s))])), c07Val(c07TStr(s[r.Pick(len(s))]))}
		}},
		"toInt": {"str", "num", none},
		"toFloat": {"str", "num", none},
		// maps
		"get": {"map", "any", func(r *Rng) []c07Arg { return []c07Arg{c07Val(c07TStr([]string{"a", "b", "k", "", "zz"}[r.Pick(5)]))} }},
		"put": {"map", "map", func(r *Rng) []c07Arg {
			return []c07Arg{c07Val(c07TStr([]string{"a", "new", "", "zz"}[r.Pick(4)])), c07Val(r.c07Elem("int"))}
		}},
		"isAvail": {"map", "bool", func(r *Rng) []c07Arg {
			n := r.Pick(3)
			var as []c07Arg
			for i := 0; i < n; i++ {
				as = append(as, c07Val(c07TStr([]string{"a", "b", "k", "zz"}[r.Pick(4)])))
			}
			return as
		}},
		"list": {"map", "list", none},
		"replaceMap": {"map", "any", func(r *Rng) []c07Arg {
			mem := func() *c07CExp {
				return &c07CExp{K: "member", A: c07CArg(0), Key: []string{"a", "b", "k", "state", "zz"}[r.Pick(5)]}
			}
			switch r.Pick(4) {
			case 0:
				return []c07Arg{c07Fn(1, c07CInt(r.Pick(9)))}
			case 1:
				return []c07Arg{c07Fn(1, c07COp("+", mem(), mem()))}
			case 2:
				return []c07Arg{c07Fn(1, &c07CExp{K: "list", L: []*c07CExp{mem(), c07CInt(1)}})}
			}
			return []c07Arg{c07Fn(1, mem())}
		}},
	}
	for n, m := range c07Meths {
		switch m.recv {
		case "list":
			c07ListNames = append(c07ListNames, n)
		case "str":
			c07StrNames = append(c07StrNames, n)
		case "map":
			c07MapNames = append(c07MapNames, n)
		}
	}
	sort.Strings(c07ListNames)
	sort.Strings(c07StrNames)
	sort.Strings(c07MapNames)
	c07MapNames = append(c07MapNames, "size", "eval")
}

// map methods that share a name with list methods
func (r *Rng) c07MapStep() c07Step {
	switch r.Pick(9) {
	case 0:
		return c07Step{M: "accept", Args: []c07Arg{c07Fn(2, c07COp([]string{"<", "=", "!="}[r.Pick(3)], c07CArg(0), c07CStr("b")))}}
	case 1:
		return c07Step{M: "map", Args: []c07Arg{c07Fn(2, r.c07Cb2(""))}}
	case 2:
		o := r.c07Map()
		return c07Step{M: "combine", Args: []c07Arg{c07Val(o), c07Fn(2, r.c07Cb2(""))}}
	}
	n := c07MapNames[r.Pick(len(c07MapNames))]
	if m, ok := c07Meths[n]; ok && m.recv == "map" {
		return c07Step{M: n, Args: m.gen(r)}
	}
	return c07Step{M: n}
}

func (r *Rng) c07Misuse(s c07Step, kind string) (c07Step, string) {
	switch r.Pick(6) {
	case 0: // wrong arity of the call
		if r.Chance(0.5) && len(s.Args) > 0 {
			s.Args = s.Args[:len(s.Args)-1]
		} else {
			s.Args = append(append([]c07Arg{}, s.Args...), c07Val(c07TInt(1)))
		}
		return s, "call-arity"
	case 1: // wrong argument type
		if len(s.Args) > 0 {
			i := r.Pick(len(s.Args))
			as := append([]c07Arg{}, s.Args...)
			if as[i].Body != nil {
				as[i] = c07Val(c07TInt(3))
			} else if as[i].V.Kind == "int" {
				as[i] = c07Val(c07TStr("x"))
			} else {
				as[i] = c07Val(c07TInt(3))
			}
			s.Args = as
			return s, "argument-type"
		}
	case 2: // callback with the wrong number of parameters
		for i, a := range s.Args {
			if a.Body != nil {
				as := append([]c07Arg{}, s.Args...)
				n := a.N%3 + 1
				as[i] = c07Fn(n, c07CArg(0))
				s.Args = as
				return s, "callback-arity"
			}
		}
	case 3, 4: // callback failing at an element / returning the wrong type
		for i, a := range s.Args {
			if a.Body != nil {
				as := append([]c07Arg{}, s.Args...)
				as[i] = c07Fn(a.N, r.c07Spoil(a.Body))
				s.Args = as
				return s, "callback-result"
			}
		}
	case 5: // method of another type
		other := map[string][]string{"list": {"len", "get", "cut"}, "str": {"map", "size", "get"}, "map": {"top", "len", "first"}, "num": {"size", "len"}, "bool": {"size"}, "any": {"nosuch"}, "ulist": {"len"}}
		ns := other[kind]
		if len(ns) > 0 {
			return c07Step{M: ns[r.Pick(len(ns))]}, "foreign-method"
		}
	}
	return s, ""
}

func (r *Rng) c07GenCase() *C07Case {
	c := &C07Case{Origin: "generated"}
	kind := "list"
	switch r.Pick(10) {
	case 0, 1:
		kind = "str"
		c.Src = c07TStr(c07Strings[r.Pick(len(c07Strings))])
	case 2:
		kind = "map"
		c.Src = r.c07Map()
	case 3:
		// static functions of Sem/Lib.v
		st := []string{"abs", "sign", "sqr", "int", "float", "min", "max", "binAnd", "binOr", "isInt", "isFloat", "string", "numbers"}[r.Pick(13)]
		c.Static = st
		n := 1
		switch st {
		case "min", "max":
			n = 1 + r.Pick(3)
		case "binAnd", "binOr":
			n = 2
		}
		if r.Chance(0.08) {
			n++
		}
		for i := 0; i < n; i++ {
			k := "num"
			if st == "numbers" || st == "binAnd" || st == "binOr" {
				k = "int"
			}
			if r.Chance(0.1) {
				k = "str"
			}
			c.StArgs = append(c.StArgs, r.c07Elem(k))
		}
		if st == "numbers" {
			c.StArgs = []*Tree{c07TInt(r.Pick(8))}
			kind = "list"
		} else {
			kind = "num"
		}
	default:
		c.Src, _ = r.c07List()
	}
	hashed := false
	nsteps := []int{1, 1, 1, 2, 2, 3, 4}[r.Pick(7)]
	if c.Static != "" && kind != "list" {
		nsteps = r.Pick(2)
	}
	for i := 0; i < nsteps; i++ {
		var s c07Step
		switch kind {
		case "list":
			for {
				n := c07ListNames[r.Pick(len(c07ListNames))]
				if n == "merge" {
					continue
				}
				s = c07Step{M: n, Args: c07Meths[n].gen(r)}
				break
			}
			if i == 0 && c.Static == "" && c.Src.Repr == "eager" && r.Chance(0.06) {
				s = c07Step{M: "merge", Args: c07Meths["merge"].gen(r)}
			}
		case "ulist":
			s = c07Step{M: "size"}
		case "str":
			n := c07StrNames[r.Pick(len(c07StrNames))]
			s = c07Step{M: n, Args: c07Meths[n].gen(r)}
		case "map":
			s = r.c07MapStep()
		default:
			s = c07Step{M: "string"}
		}
		// keep the share of plain successes up: fit the receiver to methods that need a special one
		if i == 0 && c.Static == "" {
			switch {
			case s.M == "toFloat" && r.Chance(0.7):
				c.Src = c07TStr(r.c07Numeral(true))
			case s.M == "toInt" && r.Chance(0.6):
				c.Src = c07TStr([]string{"12", "-7", "+5", "007", "0", "9223372036854775807", "-9223372036854775808", "42"}[r.Pick(8)])
			case s.M == "single" && c.Src.Kind == "list" && len(c.Src.Items) > 1 && r.Chance(0.6):
				c.Src.Items = c.Src.Items[:1]
			case s.M == "set" && c.Src.Kind == "list" && len(c.Src.Items) > 0 && r.Chance(0.7):
				s.Args[0] = c07Val(c07TInt(r.Pick(len(c.Src.Items))))
			}
		}
		if r.Chance(0.07) {
			var what string
			s, what = r.c07Misuse(s, kind)
			if what != "" {
				c.Origin = "misuse:" + what
			}
		}
		c.Steps = append(c.Steps, s)
		out := "any"
		if m, ok := c07Meths[s.M]; ok {
			out = m.out
			if kind == "map" {
				switch s.M {
				case "accept", "map", "combine", "put", "eval":
					out = "map"
				case "size":
					out = "num"
				}
			}
		}
		if kind == "ulist" {
			out = "num"
		}
		if kind == "map" && s.M == "eval" {
			hashed = true // a Go map from here on: iteration order is not specified
		}
		if kind == "map" && s.M == "list" && hashed {
			out = "ulist"
		}
		kind = out
		if kind == "any" {
			break
		}
	}
	c.Unordered = kind == "ulist"
	return c
}

// corpus: inputs that have failed in the past (or are boundary cases of the known defects)
func c07Corpus() []*C07Case {
	l := func(xs ...int) *Tree { return c07TInts(xs...) }
	mk := func(src *Tree, steps ...c07Step) *C07Case { return &C07Case{Src: src, Steps: steps, Origin: "corpus"} }
	s := func(m string, args ...c07Arg) c07Step { return c07Step{M: m, Args: args} }
	window := c07COp("-", c07COp("*", &c07CExp{K: "index", A: c07CArg(0), B: c07CInt(0)}, c07CInt(10)), &c07CExp{K: "index", A: c07CArg(0), B: c07CInt(1)})
	return []*C07Case{
		mk(c07TStr(""), s("cut", c07Val(c07TInt(0)), c07Val(c07TInt(1)))),
		mk(c07TStr(""), s("cut", c07Val(c07TInt(0)), c07Val(c07TInt(0)))),
		mk(c07TStr(""), s("cut", c07Val(c07TInt(-3)), c07Val(c07TInt(-1)))),
		mk(c07TStr("a"), s("cut", c07Val(c07TInt(1)), c07Val(c07TInt(1)))),
		mk(c07TStr("häb"), s("cut", c07Val(c07TInt(1)), c07Val(c07TInt(-1)))),
		mk(l(1, 2), s("combineN", c07Val(c07TInt(0)), c07Fn(1, &c07CExp{K: "size", A: c07CArg(0)}))),
		mk(l(), s("combineN", c07Val(c07TInt(0)), c07Fn(1, &c07CExp{K: "size", A: c07CArg(0)}))),
		mk(l(), s("combineN", c07Val(c07TInt(-1)), c07Fn(1, &c07CExp{K: "size", A: c07CArg(0)}))),
		mk(l(1, 2, 3), s("combineN", c07Val(c07TInt(-1)), c07Fn(1, c07CArg(0)))),
		mk(l(1, 2, 3, 4, 5), s("combineN", c07Val(c07TInt(3)), c07Fn(1, c07CArg(0)))),
		mk(l(1, 2, 3, 4, 5), s("combineN", c07Val(c07TInt(2)), c07Fn(1, window))),
		mk(l(1, 2, 3, 4, 5), s("combineN", c07Val(c07TInt(6)), c07Fn(1, c07CArg(0)))),
		mk(l(2, 1, 3), s("orderLess", c07Fn(2, c07CStr("s")))),
		mk(l(2, 1, 3), s("orderLess", c07Fn(2, c07CThrow()))),
		mk(l(2, 1, 3), s("orderLess", c07Fn(2, c07COp("<", c07CArg(0), c07CArg(1))))),
		mk(l(2, 1, 3), s("order", c07Fn(1, c07CThrow()))),
		mk(c07TList(c07TStr("a")), s("order", c07Fn(1, c07CThrow()))),
		mk(c07TList(c07TInt(2), c07TStr("a"), c07TInt(3)), s("order", c07Fn(1, c07CArg(0)))),
		mk(l(1, 2, 3), c07Step{M: "iirApply", Args: []c07Arg{c07Val(c07TMap([]string{"x"}, c07TInt(1)))}}),
		mk(l(1, 2, 3), s("top", c07Val(c07TInt(-1)))),
		mk(l(1, 2, 3), s("skip", c07Val(c07TInt(-1)))),
		mk(l(1, 2, 3), s("top", c07Val(c07TInt(0)))),
		mk(l(1, 2, 3), s("skip", c07Val(c07TInt(5)))),
		mk(l(1, 2, 3), s("map", c07Fn(1, c07CThrow())), s("top", c07Val(c07TInt(0)))),
		mk(l(1, 2, 3), s("map", c07Fn(1, c07CIf(c07COp("=", c07CArg(0), c07CInt(1)), c07CThrow(), c07CArg(0)))), s("skip", c07Val(c07TInt(1)))),
		mk(l(), s("sum")), mk(l(), s("mean")), mk(l(), s("min")), mk(l(), s("max")), mk(l(), s("first")), mk(l(), s("last")),
		mk(l(), s("reduce", c07Fn(2, c07COp("+", c07CArg(0), c07CArg(1))))),
		mk(l(1, 2, 3), s("single")), mk(l(7), s("single")), mk(l(), s("single")),
		mk(l(), s("minMax", c07Fn(1, c07CArg(0)))),
		mk(l(3, 1, 2), s("minMax", c07Fn(1, c07CArg(0)))),
		mk(l(1, 2, 3), s("set", c07Val(c07TInt(3)), c07Val(c07TInt(9)))),
		mk(l(1, 2, 3), s("set", c07Val(c07TInt(-1)), c07Val(c07TInt(9)))),
		mk(c07TStr("häb"), s("indexOf", c07Val(c07TStr("b")))),
		mk(c07TStr("häb"), s("len")),
		mk(c07TStr("ab"), s("replace", c07Val(c07TStr("")), c07Val(c07TStr("-")))),
		mk(c07TStr(""), s("split", c07Val(c07TStr("")))),
		mk(c07TStr(""), s("split", c07Val(c07TStr(",")))),
		mk(c07TMap([]string{"a"}, c07TInt(1)), s("put", c07Val(c07TStr("a")), c07Val(c07TInt(2)))),
		mk(c07TMap([]string{"a"}, c07TInt(1)), s("isAvail", c07Val(c07TStr("zz")), c07Val(c07TInt(5)))),
		// a window of movingWindow that shares the source's spare capacity: append writes into the neighbours
		mk(l(1, 2, 3, 4), s("movingWindow", c07Fn(1, c07CArg(0))), s("#fork"), s("map", c07Fn(1, &c07CExp{K: "append", A: c07CArg(0), B: c07CInt(0)}))),
		mk(l(1, 2, 3, 4), s("movingWindowRemove", c07Fn(1, c07COp(">", &c07CExp{K: "size", A: c07CArg(0)}, c07CInt(2)))), s("#fork"), s("map", c07Fn(1, &c07CExp{K: "append", A: c07CArg(0), B: c07CInt(0)}))),
		mk(l(1, 2, 3, 4), s("combineN", c07Val(c07TInt(2)), c07Fn(1, c07CArg(0))), s("#fork"), s("map", c07Fn(1, &c07CExp{K: "append", A: c07CArg(0), B: c07CInt(0)}))),
		mk(l(1, 2, 3, 4), s("top", c07Val(c07TInt(2))), s("#fork"), s("append", c07Val(c07TInt(7))), s("#fork"), s("append", c07Val(c07TInt(8)))),
		// a replacement map with a key the original does not have must not add that key for any observer
		mk(c07TMap([]string{"a", "b"}, c07TInt(1), c07TInt(2)),
			s("replace", c07Fn(1, &c07CExp{K: "map", MK: []string{"b", "c"}, L: []*c07CExp{c07COp("+", &c07CExp{K: "member", A: c07CArg(0), Key: "b"}, c07CInt(5)), c07CInt(30)}})),
			s("#observe", c07Val(c07TStr("a")), c07Val(c07TStr("b")), c07Val(c07TStr("c")), c07Val(c07TStr("zz")))),
		mk(c07TMap([]string{"a", "b"}, c07TInt(1), c07TInt(2)),
			s("replace", c07Fn(1, &c07CExp{K: "map", MK: []string{"c"}, L: []*c07CExp{c07CInt(30)}})),
			s("replace", c07Fn(1, &c07CExp{K: "map", MK: []string{"a"}, L: []*c07CExp{c07CInt(9)}})),
			s("put", c07Val(c07TStr("d")), c07Val(c07TInt(4))),
			s("#observe", c07Val(c07TStr("a")), c07Val(c07TStr("c")), c07Val(c07TStr("d")))),
		mk(l(1, 2, 3, 4), c07Step{M: "multiUse", Args: []c07Arg{{FM: []c07FMEnt{{Key: "r", Body: &c07CExp{K: "map", MK: []string{"n", "m"},
			L: []*c07CExp{c07CInt(1), &c07CExp{K: "mapmul", A: c07CArg(0), I: 2}}}}}}}}),
		mk(c07TList(c07TInt(1), c07TFloat(1)), s("groupByEqual", c07Fn(1, c07CArg(0)))),
		mk(c07TList(c07TFloat(2), c07TInt(2), c07TInt(3), c07TFloat(3)), s("groupByEqual", c07Fn(1, c07CArg(0)))),
		mk(c07TList(c07TInt(1), c07TStr("a")), s("groupByEqual", c07Fn(1, c07CArg(0)))),
		mk(c07TList(c07TList(c07TInt(1)), c07TList(c07TFloat(1))), s("groupByEqual", c07Fn(1, c07CArg(0)))),
		mk(&Tree{Kind: "map", Repr: "funcmap-absent", Keys: []string{"a", "b"}, Items: []*Tree{c07TInt(1), c07TInt(2)}},
			s("#observe", c07Val(c07TStr("a")), c07Val(c07TStr("b")), c07Val(c07TStr("zz")))),
		mk(&Tree{Kind: "map", Repr: "funcmap-absent", Keys: []string{"a"}, Items: []*Tree{c07TInt(1)}},
			s("put", c07Val(c07TStr("n")), c07Val(c07TInt(5))), s("#observe", c07Val(c07TStr("a")), c07Val(c07TStr("n")))),
		mk(&Tree{Kind: "map", Repr: "funcmap-absent"}, s("#observe", c07Val(c07TStr("a")))),
		mk(&Tree{Kind: "map", Repr: "tomap", Keys: []string{"a", "b"}, Items: []*Tree{c07TInt(1), c07TInt(2)}},
			s("#observe", c07Val(c07TStr("a")), c07Val(c07TStr("zz")))),
		c07BigReplaceWitness(25, 11), c07BigReplaceWitness(21, 12), c07BigReplaceWitness(20, 11), c07BigReplaceWitness(30, 23),
	}
}

// ---------- the run ----------

var c07Timeouts int

func c07Run(c *C07Case, id int, sum *Summary, cw *CaseWriter) {
	c.c07Finish()
	if c.Origin == "multiUse" && c07Timeouts >= 2 {
		// every further miss would cost the 5 s timeout of the copied iterator again
		sum.Skipped["multiUse case not run after two iterator timeouts"]++
		return
	}
	text, names, vals := c.Program()
	o := c07RunReal(text, names, vals)
	sum.Evaluations++
	sum.Count("origin", strings.SplitN(c.Origin, ":", 2)[0])
	if strings.HasPrefix(c.Origin, "misuse:") {
		sum.Count("misuse_kind", strings.TrimPrefix(c.Origin, "misuse:"))
	}
	sum.Count("outcome", o.Kind)
	sum.Count("steps", fmt.Sprint(len(c.Steps)))
	for _, s := range c.Steps {
		sum.Count("builtin", s.M)
	}
	if c.Static != "" {
		sum.Count("builtin", "static:"+c.Static)
	}
	if c.Src != nil {
		k := c.Src.Kind
		if k == "list" {
			k = "list:" + bucket(len(c.Src.Items)) + ":" + c.Src.Repr
		}
		sum.Count("receiver", k)
	}
	if o.Kind == "unrepresentable" {
		sum.Skipped["result not representable ("+o.Err+")"]++
		return
	}
	var obs string
	switch o.Kind {
	case "ok":
		obs = "OOk (" + o.Coq + ")"
	case "fail":
		obs = "OFail"
	default:
		obs = "OPanic"
	}
	sig := c.Signature()
	shown := o.Coq
	if o.Kind != "ok" {
		shown = o.Kind + ": " + o.Err
	}
	human := map[string]any{"program": text, "arguments": c07HumanArgs(c), "observed": shown, "repro": c, "signature": sig}
	sum.Cases[fmt.Sprint(id)] = human
	// non-trivial: at least one built-in was really applied to a non-empty receiver or took the error path on purpose
	sum.Nontriv(text + "|" + strings.Join(c07HumanArgs(c), "|"))
	if id%97 == 0 {
		sum.Sample(human)
	}
	cw.Add(c.Coq(id, obs))
	if o.Kind == "fail" && strings.Contains(o.Err, "iterator timed out") {
		c07Timeouts++
	}
	if what, want := c.c07DirectVerdict(o); what != "" {
		sum.GoViolations = append(sum.GoViolations, GoViolation{CaseID: id, What: what, Sig: sig, Human: human, Expected: want, Observed: shown})
	} else if what, want := c.c07MapVerdict(o); what != "" {
		sum.GoViolations = append(sum.GoViolations, GoViolation{CaseID: id, What: what, Sig: sig, Human: human, Expected: want, Observed: shown})
	} else if what, want := c.c07NumeralVerdict(o); what != "" {
		sum.GoViolations = append(sum.GoViolations, GoViolation{CaseID: id, What: what, Sig: sig, Human: human, Expected: want, Observed: shown})
	} else if what, want := c.c07NumStaticVerdict(o); what != "" {
		sum.GoViolations = append(sum.GoViolations, GoViolation{CaseID: id, What: what, Sig: sig, Human: human, Expected: want, Observed: shown})
	} else if what, want := c.c07OracleVerdict(o); what != "" {
		sum.GoViolations = append(sum.GoViolations, GoViolation{CaseID: id, What: what, Sig: sig, Human: human, Expected: want, Observed: shown})
	} else if o.Kind == "panic" {
		sum.GoViolations = append(sum.GoViolations, GoViolation{CaseID: id, What: "a built-in panicked instead of returning an error", Sig: sig, Human: human, Expected: "an error value", Observed: shown})
	}
}

func c07HumanArgs(c *C07Case) []string {
	var out []string
	add := func(t *Tree) {
		bs, _ := json.Marshal(t.Human())
		out = append(out, string(bs))
	}
	if c.Src != nil {
		add(c.Src)
	}
	for _, a := range c.StArgs {
		add(a)
	}
	for _, s := range c.Steps {
		for _, a := range s.Args {
			if a.V != nil {
				add(a.V)
			}
		}
	}
	return out
}

func cmdC07(seed int64, tier, outDir string) {
	n := 1300
	if tier == "thorough" {
		n = 60000
	}
	r := NewRng(seed)
	sum := NewSummary("C07", seed, tier)
	sum.Rule = "pipelines source(.method(args)){0..4} run through value.New().Generate; sources: lists (empty, singleton, duplicates, sorted, reversed, random ints incl. extremes, mixed int/float, nested lists/maps, strings, heterogeneous; eager or behind a lazy map stage), unicode strings, maps, static calls; callbacks from a closed pool with Coq twins; 7% of the steps are misuse on purpose; every 7th case is a sibling/source observation (let w = source.producer; [w.modified..., w, source] with append/set/reverse/+ on lists produced by movingWindow*, combineN, groupByEqual, top, skip, cross, map) every 14th is groupByEqual on mixed key pools (ints and floats of equal value, strings, lists, maps, bools, incomparable mixes), every 28th multiUse with functions returning lists, maps holding lazy lists at every position and nestings (also compared with the direct application on the real code), every 14th sorts 13..40 items with order/orderRev/orderLess as the last step (judged by the verified sorted-permutation checker alone) and every 7th a map pipeline (literal/put/merge/replace chains up to 12) followed by the observer bundle size, list, isAvail, get, put, string for original, replacement-only and absent keys (call arity, argument type, callback arity, callback failing at an element or returning the wrong type, method of another type). Every case applies at least one built-in; distinct by program text and argument values"
	cw := NewCaseWriter(outDir, "From P2 Require Import Base.Prelude Sem.Num Sem.Syntax Sem.Ops Lib.Names Lib.Builtins Run.C07Run.", "c07_case", "c07_id", "c07_im", "c07_is", 300)
	id := 0
	if optReplay != "" {
		var c C07Case
		if err := json.Unmarshal(loadReplayCase(), &c); err != nil {
			fatal("replay case: %v", err)
		}
		c07Run(&c, 1, sum, cw)
		cw.Flush()
		sum.CaseFiles = cw.files
		sum.Write(outDir)
		return
	}
	n *= optBoost
	for _, c := range c07Corpus() {
		id++
		c07Run(c, id, sum, cw)
	}
	for i := 0; i < n; i++ {
		id++
		switch {
		case i%7 == 3:
			c07Run(r.c07ForkCase(), id, sum, cw)
		case i%7 == 5:
			c07Run(r.c07MapObserveCase(), id, sum, cw)
		case i%14 == 1:
			c07Run(r.c07LongSortCase(), id, sum, cw)
		case i%28 == 8:
			c07Run(r.c07MultiUseCase(), id, sum, cw)
		case i%14 == 2:
			c07Run(r.c07GroupEqCase(), id, sum, cw)
		case i%14 == 9:
			c07Run(r.c07ParseCase(), id, sum, cw)
		case i%28 == 6 || i%28 == 0:
			c07Run(r.c07NumStaticCase(), id, sum, cw)
		default:
			c07Run(r.c07GenCase(), id, sum, cw)
		}
	}
	cw.Flush()
	sum.CaseFiles = cw.files
	if sum.Evaluations > 0 {
		share := float64(sum.Distribution["outcome"]["fail"]+sum.Distribution["outcome"]["panic"]) / float64(sum.Evaluations)
		sum.Extra["error_share"] = math.Round(share*1000) / 1000
		sum.Extra["degraded"] = share > 0.30
	}
	sort.SliceStable(sum.GoViolations, func(i, j int) bool {
		return len(fmt.Sprint(sum.GoViolations[i].Human["program"])) < len(fmt.Sprint(sum.GoViolations[j].Human["program"]))
	})
	sum.Write(outDir)
}

// ---------- compositions that observe siblings and sources (aliasing), and map observer bundles ----------

func c07Step1(m string, args ...c07Arg) c07Step { return c07Step{M: m, Args: args} }

// let w = src.producer; [w.branch..., w, src]: a list PRODUCED by a built-in is extended or modified
// and the result, the produced list and the source are all observed
func (r *Rng) c07ForkCase() *C07Case {
	c := &C07Case{Origin: "fork"}
	n := 2 + r.Pick(7)
	c.Src = c07TList()
	x := r.Pick(4)
	for i := 0; i < n; i++ {
		c.Src.Items = append(c.Src.Items, c07TInt(x))
		if r.Chance(0.8) {
			x += r.Pick(3)
		} else {
			x -= r.Pick(2)
		}
	}
	if r.Chance(0.3) {
		c.Src.Repr = "lazy-map"
	}
	elem := "scalar" // what the items of w are: scalar, list, group
	switch r.Pick(10) {
	case 0, 1:
		c.Steps = append(c.Steps, c07Step1("movingWindow", c07Fn(1, []*c07CExp{c07CArg(0), c07COp("/", c07CArg(0), c07CInt(2))}[r.Pick(2)])))
		elem = "list"
	case 2:
		c.Steps = append(c.Steps, c07Step1("movingWindowRemove", c07Fn(1, c07COp(">", &c07CExp{K: "size", A: c07CArg(0)}, c07CInt(1+r.Pick(3))))))
		elem = "list"
	case 3:
		c.Steps = append(c.Steps, c07Step1("combineN", c07Val(c07TInt(1+r.Pick(3))), c07Fn(1, c07CArg(0))))
		elem = "list"
	case 4:
		c.Steps = append(c.Steps, c07Step1("groupByEqual", c07Fn(1, c07COp("%", c07CArg(0), c07CInt(2+r.Pick(2))))))
		elem = "group"
	case 5:
		c.Steps = append(c.Steps, c07Step1("top", c07Val(c07TInt(r.Pick(n+2)))))
	case 6:
		c.Steps = append(c.Steps, c07Step1("skip", c07Val(c07TInt(r.Pick(n+1)))))
	case 7:
		c.Steps = append(c.Steps, c07Step1("cross", c07Val(c07TInts(1, 2)), c07Fn(2, &c07CExp{K: "list", L: []*c07CExp{c07CArg(0), c07CArg(1)}})))
		elem = "list"
	case 8:
		c.Steps = append(c.Steps, c07Step1("map", c07Fn(1, &c07CExp{K: "list", L: []*c07CExp{c07CArg(0), c07CInt(r.Pick(5))}})))
		elem = "list"
	default: // the source itself, or a reversed / appended copy of it
		if r.Chance(0.5) {
			c.Steps = append(c.Steps, c07Step1([]string{"reverse", "eval"}[r.Pick(2)]))
		}
	}
	modElem := func(target *c07CExp) *c07CExp {
		switch r.Pick(5) {
		case 0:
			return &c07CExp{K: "append", A: target, B: c07CInt(0)}
		case 1:
			return &c07CExp{K: "append", A: &c07CExp{K: "append", A: target, B: c07CInt(0)}, B: c07CInt(1)}
		case 2:
			return &c07CExp{K: "set", A: target, B: c07CInt(0), C: c07CInt(9)}
		case 3:
			return &c07CExp{K: "reverse", A: target}
		}
		return c07COp("+", target, &c07CExp{K: "list", L: []*c07CExp{c07CInt(7)}})
	}
	nb := 1 + r.Pick(2)
	for b := 0; b < nb; b++ {
		c.Steps = append(c.Steps, c07Step1("#fork"))
		whole := elem == "scalar" || r.Chance(0.25)
		if whole {
			switch r.Pick(5) {
			case 0:
				c.Steps = append(c.Steps, c07Step1("append", c07Val(c07TInt(70+b))))
			case 1:
				c.Steps = append(c.Steps, c07Step1("append", c07Val(c07TInt(70+b))), c07Step1("append", c07Val(c07TInt(80+b))))
			case 2:
				c.Steps = append(c.Steps, c07Step1("set", c07Val(c07TInt(0)), c07Val(c07TInt(90+b))))
			case 3:
				c.Steps = append(c.Steps, c07Step1("reverse"))
			default:
				c.Steps = append(c.Steps, c07Step1("+", c07Val(c07TInts(7, 8))))
			}
			continue
		}
		target := c07CArg(0)
		if elem == "group" {
			target = &c07CExp{K: "member", A: c07CArg(0), Key: "values"}
		}
		c.Steps = append(c.Steps, c07Step1("map", c07Fn(1, modElem(target))))
	}
	return c
}

// literal / put / merge / replace chains on a map, then every keyed and iteration observer at once
func (r *Rng) c07MapObserveCase() *C07Case {
	if r.Chance(0.22) {
		return r.c07BigMapCase()
	}
	c := &C07Case{Origin: "map-observe"}
	pool := []string{"a", "b", "c", "k", "zz"}
	odd := []string{"", "ä", "x y"}
	c.Src = c07TMap(nil)
	have := map[string]bool{}
	perm := r.Perm(len(pool))
	for i := 0; i < r.Pick(4); i++ {
		k := pool[perm[i]]
		have[k] = true
		c.Src.Keys = append(c.Src.Keys, k)
		c.Src.Items = append(c.Src.Items, c07TInt(r.Pick(9)))
	}
	if r.Chance(0.2) {
		k := odd[r.Pick(len(odd))]
		have[k] = true
		c.Src.Keys = append(c.Src.Keys, k)
		c.Src.Items = append(c.Src.Items, c07TStr("s"))
	}
	if r.Chance(0.3) {
		c.Src.Repr = []string{"merge", "replace", "map-method"}[r.Pick(3)] // representations that iterate in key order of the tree
	} else if r.Chance(0.5) {
		// host-made receivers: function maps (all / some / no declared keys available), struct wrappers, Go maps
		c.Src.Repr = []string{"funcmap", "funcmap-absent", "funcmap-absent", "tomap", "real"}[r.Pick(5)]
	}
	nops := []int{0, 1, 1, 2, 2, 3, 5, 8, 12}[r.Pick(9)]
	onlyReplace := r.Chance(0.4)
	for i := 0; i < nops; i++ {
		op := r.Pick(4)
		if onlyReplace {
			op = 2
		} else if r.Chance(0.15) {
			op = 4 + r.Pick(3)
		}
		switch op {
		case 4: // the map built-ins map / accept / combine on top of whatever representation is below
			c.Steps = append(c.Steps, c07Step1("map", c07Fn(2, []*c07CExp{c07CArg(1), c07COp("+", c07CArg(0), c07CStr("!")), c07CInt(7)}[r.Pick(3)])))
		case 5:
			c.Steps = append(c.Steps, c07Step1("accept", c07Fn(2, c07COp([]string{"<", "!=", ">="}[r.Pick(3)], c07CArg(0), c07CStr("b")))))
		case 6:
			o := c07TMap(nil)
			for k := range have {
				if r.Chance(0.9) {
					o.Keys = append(o.Keys, k)
				}
			}
			sort.Strings(o.Keys)
			for range o.Keys {
				o.Items = append(o.Items, c07TInt(r.Pick(5)))
			}
			c.Steps = append(c.Steps, c07Step1("combine", c07Val(o), c07Fn(2, c07COp("+", c07CArg(0), c07CArg(1)))))
		case 0: // put, mostly a new key
			k := append(append([]string{}, pool...), odd...)[r.Pick(len(pool)+len(odd))]
			if have[k] && r.Chance(0.93) {
				k = fmt.Sprintf("n%d", i)
			}
			have[k] = true
			c.Steps = append(c.Steps, c07Step1("put", c07Val(c07TStr(k)), c07Val(c07TInt(10+i))))
		case 1: // merge with a (mostly) disjoint map
			o := c07TMap(nil)
			for j := 0; j < 1+r.Pick(2); j++ {
				k := fmt.Sprintf("m%d_%d", i, j)
				if r.Chance(0.05) {
					k = pool[r.Pick(len(pool))]
				}
				dup := false
				for _, ok := range o.Keys {
					dup = dup || ok == k
				}
				if dup {
					continue
				}
				have[k] = true
				o.Keys = append(o.Keys, k)
				o.Items = append(o.Items, c07TInt(20+i))
			}
			c.Steps = append(c.Steps, c07Step1("+", c07Val(o)))
		default: // replace: keys inside and outside the key set
			lit := &c07CExp{K: "map"}
			perm := r.Perm(len(pool))
			for j := 0; j < 1+r.Pick(3); j++ {
				k := pool[perm[j]]
				var v *c07CExp = c07CInt(30 + i*3 + j)
				if have[k] && r.Chance(0.3) {
					v = c07COp("+", &c07CExp{K: "member", A: c07CArg(0), Key: k}, c07CInt(5))
				} else if r.Chance(0.02) {
					v = &c07CExp{K: "member", A: c07CArg(0), Key: "nokey"}
				}
				lit.MK = append(lit.MK, k)
				lit.L = append(lit.L, v)
			}
			var body *c07CExp = lit
			if r.Chance(0.02) {
				body = c07CInt(3) // not a map
			}
			c.Steps = append(c.Steps, c07Step1("replace", c07Fn(1, body)))
		}
	}
	obs := c07Step1("#observe")
	keys := append([]string{}, pool...)
	keys = append(keys, "nokey")
	if r.Chance(0.5) {
		keys = append(keys, odd[r.Pick(len(odd))])
	}
	for k := range have {
		if strings.HasPrefix(k, "n") || strings.HasPrefix(k, "m") {
			keys = append(keys, k)
			break
		}
	}
	sort.Strings(keys)
	for _, k := range keys {
		obs.Args = append(obs.Args, c07Val(c07TStr(k)))
	}
	c.Steps = append(c.Steps, obs)
	return c
}

// long wrapper chains (replace / put / merge, depth 10..40) over big bases (20..60 keys): replacement
// keys are drawn from present and from absent keys; after 11 nested replaces the implementation
// flattens the chain (into a Go map above 20 keys), which must not change any observer
func (r *Rng) c07BigMapCase() *C07Case {
	c := &C07Case{Origin: "map-observe"}
	n := 19 + r.Pick(8) // around the 20-key threshold of createFlat
	if r.Chance(0.25) {
		n = 27 + r.Pick(34)
	}
	c.Src = c07TMap(nil)
	for i := 0; i < n; i++ {
		c.Src.Keys = append(c.Src.Keys, fmt.Sprintf("k%d", i))
		c.Src.Items = append(c.Src.Items, c07TInt(i))
	}
	absent := []string{"zz", "x1", "k999", "extra"}
	depth := 10 + r.Pick(17)
	if r.Chance(0.2) {
		depth = 27 + r.Pick(14)
	}
	added := []string{}
	for i := 0; i < depth; i++ {
		switch x := r.Pick(100); {
		case x < 5:
			k := fmt.Sprintf("p%d", i)
			added = append(added, k)
			c.Steps = append(c.Steps, c07Step1("put", c07Val(c07TStr(k)), c07Val(c07TInt(100+i))))
		case x < 9:
			k := fmt.Sprintf("g%d", i)
			added = append(added, k)
			c.Steps = append(c.Steps, c07Step1("+", c07Val(c07TMap([]string{k}, c07TInt(200+i)))))
		default:
			lit := &c07CExp{K: "map"}
			seen := map[string]bool{}
			for j := 0; j < 1+r.Pick(3); j++ {
				k := fmt.Sprintf("k%d", r.Pick(n))
				if seen[k] {
					continue
				}
				seen[k] = true
				var v *c07CExp = c07CInt(1000 + i*10 + j)
				if r.Chance(0.4) {
					v = c07COp("+", &c07CExp{K: "member", A: c07CArg(0), Key: k}, c07CInt(1))
				}
				lit.MK = append(lit.MK, k)
				lit.L = append(lit.L, v)
			}
			if r.Chance(0.5) {
				k := absent[r.Pick(len(absent))]
				if r.Chance(0.3) {
					k = fmt.Sprintf("e%d", i)
				}
				lit.MK = append(lit.MK, k)
				lit.L = append(lit.L, c07CInt(7000+i))
			}
			c.Steps = append(c.Steps, c07Step1("replace", c07Fn(1, lit)))
		}
	}
	obs := c07Step1("#observe")
	keys := []string{"k0", fmt.Sprintf("k%d", n-1), fmt.Sprintf("k%d", r.Pick(n)), fmt.Sprintf("k%d", n), "nokey"}
	keys = append(keys, absent...)
	keys = append(keys, fmt.Sprintf("e%d", depth-1), fmt.Sprintf("e%d", 10))
	if len(added) > 0 {
		keys = append(keys, added[r.Pick(len(added))])
	}
	for _, k := range keys {
		obs.Args = append(obs.Args, c07Val(c07TStr(k)))
	}
	c.Steps = append(c.Steps, obs)
	return c
}

// ---------- Go-side finite-map model of put / + / replace chains (int values) ----------

type c07FM struct {
	keys []string
	vals map[string]*Tree
}

func (m *c07FM) put(k string, v *Tree) {
	if _, ok := m.vals[k]; !ok {
		m.keys = append(m.keys, k)
	}
	m.vals[k] = v
}

func (m *c07FM) tree() *Tree {
	t := c07TMap(nil)
	for _, k := range m.keys {
		t.Keys = append(t.Keys, k)
		t.Items = append(t.Items, m.vals[k])
	}
	return t
}

// evaluates the steps before the observer bundle: "ok" with the resulting map, "fail" if the chain must
// report an error, "abstain" if it uses something this model does not cover
func (c *C07Case) c07MapModelRun() (*c07FM, string) {
	if c.Src == nil || c.Src.Kind != "map" {
		return nil, "abstain"
	}
	m := &c07FM{vals: map[string]*Tree{}}
	for i, k := range c.Src.Keys {
		m.put(k, c.Src.Items[i])
	}
	for _, st := range c.Steps[:len(c.Steps)-1] {
		switch st.M {
		case "put":
			if len(st.Args) != 2 || st.Args[0].V == nil || st.Args[1].V == nil || st.Args[0].V.Kind != "str" {
				return nil, "abstain"
			}
			if _, ok := m.vals[st.Args[0].V.S]; ok {
				return nil, "fail"
			}
			m.put(st.Args[0].V.S, st.Args[1].V)
		case "+":
			o := st.Args[0].V
			if o == nil || o.Kind != "map" {
				return nil, "abstain"
			}
			for _, k := range o.Keys {
				if _, ok := m.vals[k]; ok {
					return nil, "fail"
				}
			}
			for i, k := range o.Keys {
				m.put(k, o.Items[i])
			}
		case "replace":
			if len(st.Args) != 1 || st.Args[0].Body == nil || st.Args[0].N != 1 {
				return nil, "abstain"
			}
			body := st.Args[0].Body
			if body.K != "map" {
				if body.K == "lit" {
					return nil, "fail"
				}
				return nil, "abstain"
			}
			rep := map[string]*Tree{}
			for i, k := range body.MK {
				e := body.L[i]
				switch {
				case e.K == "lit":
					rep[k] = e.V
				case e.K == "member" && e.A.K == "arg":
					v, ok := m.vals[e.Key]
					if !ok {
						return nil, "fail"
					}
					rep[k] = v
				case e.K == "op" && e.Op == "+" && e.A.K == "member" && e.A.A.K == "arg" && e.B.K == "lit" && e.B.V.Kind == "int":
					v, ok := m.vals[e.A.Key]
					if !ok {
						return nil, "fail"
					}
					if v.Kind != "int" {
						return nil, "abstain"
					}
					rep[k] = c07TInt(v.I + e.B.V.I)
				default:
					return nil, "abstain"
				}
			}
			// only keys the map HAS are replaced
			for _, k := range m.keys {
				if v, ok := rep[k]; ok {
					m.vals[k] = v
				}
			}
		default:
			return nil, "abstain"
		}
	}
	return m, "ok"
}

// hands the map the model expects to the observer bundle (for m = expected and expected = m)
func (c *C07Case) c07Finish() {
	if len(c.Steps) == 0 {
		return
	}
	last := &c.Steps[len(c.Steps)-1]
	if last.M != "#observe" || (len(last.Args) > 0 && last.Args[0].V != nil && last.Args[0].V.Kind == "map") {
		return
	}
	m, verdict := c.c07MapModelRun()
	c.MapModel = verdict
	exp := c.Src
	if verdict == "ok" {
		exp = m.tree()
		if len(exp.Keys) > 20 || len(c.Src.Keys) > 20 {
			c.Unordered = true // flattened into a Go map: iteration order is not specified
		}
	}
	switch c.Src.Repr {
	case "real", "eval", "tomap", "put", "funcmap", "funcmap-absent":
		c.Unordered = true // host-made or hashed receivers: the iteration order is theirs
	}
	if exp == nil || exp.Kind != "map" {
		exp = c07TMap(nil)
	}
	last.Args = append([]c07Arg{c07Val(exp)}, last.Args...)
}

// the Go model's verdict on the observers that do not depend on order: size, isAvail, equality
func (c *C07Case) c07MapVerdict(o c07Obs) (string, string) {
	if c.MapModel != "ok" && c.MapModel != "fail" {
		return "", ""
	}
	if c.MapModel == "fail" {
		if o.Kind == "ok" {
			return "the Go finite-map model requires an error, the implementation returned a value", "error"
		}
		return "", ""
	}
	if o.Kind != "ok" {
		return "the Go finite-map model computes a map, the implementation reported " + o.Kind + ": " + o.Err, "a value"
	}
	last := c.Steps[len(c.Steps)-1]
	exp := last.Args[0].V
	has := map[string]bool{}
	for _, k := range exp.Keys {
		has[k] = true
	}
	st := funcGen.NewEmptyStack[value.Value]()
	l, ok := o.Val.(*value.List)
	if !ok {
		return "observer bundle is not a list", ""
	}
	items, err := l.ToSlice(st)
	if err != nil || len(items) != 6 {
		return "observer bundle malformed", ""
	}
	if sz, ok := items[0].(value.Int); !ok || int(sz) != len(exp.Keys) {
		return fmt.Sprintf("size() is %v, the finite-map model has %d keys", items[0], len(exp.Keys)), fmt.Sprint(len(exp.Keys))
	}
	if ls, ok := items[1].(value.Int); !ok || int(ls) != len(exp.Keys) {
		return fmt.Sprintf("list().size() is %v, the finite-map model has %d keys", items[1], len(exp.Keys)), fmt.Sprint(len(exp.Keys))
	}
	if eq, ok := items[5].(*value.List); ok {
		es, _ := eq.ToSlice(st)
		for i, e := range es {
			if b, ok := e.(value.Bool); !ok || !bool(b) {
				return fmt.Sprintf("the result is not equal (=, direction %d) to the map of the finite-map model", i), "true"
			}
		}
	}
	if per, ok := items[3].(*value.List); ok {
		ps, _ := per.ToSlice(st)
		for i, p := range ps {
			k := last.Args[1+i].V.S
			tl, ok := p.(*value.List)
			if !ok {
				continue
			}
			ts, _ := tl.ToSlice(st)
			if len(ts) == 3 {
				if b, ok := ts[0].(value.Bool); ok && bool(b) != has[k] {
					return fmt.Sprintf("isAvail(%q) is %v, the finite-map model says %v", k, bool(b), has[k]), fmt.Sprint(has[k])
				}
			}
		}
	}
	return "", ""
}

// n keys k0..k(n-1), depth times replace(m->{k1:m.k1+1, zz:7}): the key zz must never appear
// (flattening of the 11th nested replace of a map with more than 20 keys once copied it in)
func c07BigReplaceWitness(n, depth int) *C07Case {
	c := &C07Case{Origin: "corpus", Src: c07TMap(nil)}
	for i := 0; i < n; i++ {
		c.Src.Keys = append(c.Src.Keys, fmt.Sprintf("k%d", i))
		c.Src.Items = append(c.Src.Items, c07TInt(i))
	}
	for i := 0; i < depth; i++ {
		c.Steps = append(c.Steps, c07Step1("replace", c07Fn(1, &c07CExp{K: "map", MK: []string{"k1", "zz"},
			L: []*c07CExp{c07COp("+", &c07CExp{K: "member", A: c07CArg(0), Key: "k1"}, c07CInt(1)), c07CInt(7)}})))
	}
	c.Steps = append(c.Steps, c07Step1("#observe", c07Val(c07TStr("k0")), c07Val(c07TStr("k1")), c07Val(c07TStr("zz")), c07Val(c07TStr("nokey"))))
	return c
}

// order / orderRev / orderLess as the last step on more than 12 items (pdqsort proper): judged by the
// verified checker alone (sorted permutation), no model of the algorithm
func (r *Rng) c07LongSortCase() *C07Case {
	c := &C07Case{Origin: "long-sort"}
	n := 13 + r.Pick(28)
	c.Src = c07TList()
	switch r.Pick(6) {
	case 0: // many duplicates
		for i := 0; i < n; i++ {
			c.Src.Items = append(c.Src.Items, c07TInt(r.Pick(4)))
		}
	case 1: // already sorted / reversed
		for i := 0; i < n; i++ {
			c.Src.Items = append(c.Src.Items, c07TInt(i/2))
		}
		if r.Chance(0.5) {
			for i, j := 0, n-1; i < j; i, j = i+1, j-1 {
				c.Src.Items[i], c.Src.Items[j] = c.Src.Items[j], c.Src.Items[i]
			}
		}
	case 2: // ints and exact floats
		for i := 0; i < n; i++ {
			c.Src.Items = append(c.Src.Items, r.c07Elem("num"))
		}
	case 3: // strings
		for i := 0; i < n; i++ {
			c.Src.Items = append(c.Src.Items, c07TStr(c07Strings[r.Pick(len(c07Strings))]))
		}
	default:
		for i := 0; i < n; i++ {
			c.Src.Items = append(c.Src.Items, c07TInt(r.Pick(60)-20))
		}
	}
	if r.Chance(0.03) { // one item of another kind: some comparisons fail
		c.Src.Items[r.Pick(n)] = c07TStr("x")
	}
	if r.Chance(0.3) {
		c.Src.Repr = "lazy-map"
	}
	if r.Chance(0.25) {
		c.Steps = append(c.Steps, c07Step1("reverse"))
	}
	var key *c07CExp = c07CArg(0)
	if c.Src.Items[0].Kind != "str" {
		switch r.Pick(4) {
		case 0:
			key = c07COp("%", c07CArg(0), c07CInt(2+r.Pick(4))) // ties
		case 1:
			key = c07COp("*", c07CArg(0), c07CInt(-1))
		}
	}
	switch r.Pick(4) {
	case 0:
		c.Steps = append(c.Steps, c07Step1("orderRev", c07Fn(1, key)))
	case 1:
		cmp := []string{"<", ">", "<="}[r.Pick(3)] // <= is not asymmetric: still has to give a permutation ... judged by the checker
		if cmp == "<=" {
			cmp = "<"
		}
		c.Steps = append(c.Steps, c07Step1("orderLess", c07Fn(2, c07COp(cmp, c07CArg(0), c07CArg(1)))))
	default:
		c.Steps = append(c.Steps, c07Step1("order", c07Fn(1, key)))
	}
	if r.Chance(0.04) {
		last := &c.Steps[len(c.Steps)-1]
		last.Args[0] = c07Fn(last.Args[0].N, c07CStr("s")) // fails on every pair
	}
	return c
}

// ---------- multiUse against direct application ----------

// functions for multiUse: each uses its argument exactly once; results are lists, maps holding lazy
// lists at every position, and nestings of both
func (r *Rng) c07MultiFn() *c07CExp {
	lazy := func() *c07CExp {
		switch r.Pick(6) {
		case 0:
			return &c07CExp{K: "mapmul", A: c07CArg(0), I: 2 + r.Pick(3)}
		case 1:
			return &c07CExp{K: "topn", A: c07CArg(0), I: 1 + r.Pick(3)} // top(0) never reads its copy of the iterator: multiUse times out (C08 finding in the dependency)
		case 2:
			return &c07CExp{K: "skipn", A: c07CArg(0), I: r.Pick(3)}
		case 3:
			return &c07CExp{K: "acceptgt", A: c07CArg(0), I: r.Pick(4)}
		case 4:
			return &c07CExp{K: "combineadd", A: &c07CExp{K: "skipn", A: c07CArg(0), I: 1}}
		}
		return &c07CExp{K: "mapmul", A: &c07CExp{K: "acceptgt", A: c07CArg(0), I: 1}, I: 3}
	}
	keys := []string{"n", "m", "k", "z"}
	mapWith := func(inner *c07CExp, pos, n int) *c07CExp {
		m := &c07CExp{K: "map"}
		for i := 0; i < n; i++ {
			m.MK = append(m.MK, keys[i])
			if i == pos {
				m.L = append(m.L, inner)
			} else {
				m.L = append(m.L, []*c07CExp{c07CInt(i + 1), c07CStr("k")}[r.Pick(2)])
			}
		}
		return m
	}
	switch r.Pick(9) {
	case 0:
		return lazy()
	case 1:
		return &c07CExp{K: "sum", A: c07CArg(0)}
	case 2:
		return &c07CExp{K: "size", A: lazy()}
	case 3, 4: // a map with a lazy list at any position
		n := 1 + r.Pick(4)
		return mapWith(lazy(), r.Pick(n), n)
	case 5: // nested: map in a map
		n := 2 + r.Pick(2)
		return mapWith(mapWith(lazy(), r.Pick(n), n), r.Pick(n), n)
	case 6: // map in a list
		n := 2 + r.Pick(2)
		return &c07CExp{K: "list", L: []*c07CExp{c07CInt(0), mapWith(lazy(), r.Pick(n), n)}}
	case 7: // list in a list
		return &c07CExp{K: "list", L: []*c07CExp{lazy(), c07CInt(5)}}
	}
	return &c07CExp{K: "reverse", A: c07CArg(0)}
}

func (r *Rng) c07MultiUseCase() *C07Case {
	c := &C07Case{Origin: "multiUse"}
	n := r.Pick(7)
	c.Src = c07TList()
	for i := 0; i < n; i++ {
		c.Src.Items = append(c.Src.Items, c07TInt(r.Pick(9)-2))
	}
	if r.Chance(0.4) {
		c.Src.Repr = "lazy-map"
	}
	arg := c07Arg{FM: []c07FMEnt{}}
	for i := 0; i < 1+r.Pick(3); i++ {
		arg.FM = append(arg.FM, c07FMEnt{Key: []string{"r", "s", "t"}[i], Body: r.c07MultiFn()})
	}
	c.Steps = []c07Step{{M: "multiUse", Args: []c07Arg{arg}}}
	return c
}

// the same functions applied directly: let a=v0; {k: body, ...}
func (c *C07Case) c07DirectVerdict(o c07Obs) (string, string) {
	if len(c.Steps) != 1 || c.Steps[0].M != "multiUse" || len(c.Steps[0].Args) != 1 || len(c.Steps[0].Args[0].FM) == 0 || c.Src == nil {
		return "", ""
	}
	parts := []string{}
	for _, e := range c.Steps[0].Args[0].FM {
		parts = append(parts, e.Key+":"+e.Body.Text(true))
	}
	d := c07RunReal("let a=v0; {"+strings.Join(parts, ",")+"}", []string{"v0"}, []value.Value{c.Src.Build()})
	if d.Kind == "unrepresentable" || o.Kind == "unrepresentable" {
		return "", ""
	}
	if d.Kind != o.Kind {
		return "multiUse reported " + o.Kind + " (" + o.Err + "), the direct application of the same functions " + d.Kind, d.Kind + " " + d.Coq
	}
	if d.Kind == "ok" && d.Coq != o.Coq {
		return "multiUse and the direct application of the same functions give different values", d.Coq
	}
	return "", ""
}

// ---------- groupByEqual on mixed key pools: the group relation is exactly = ----------

func (r *Rng) c07GroupEqCase() *C07Case {
	c := &C07Case{Origin: "group-equal"}
	num := func() *Tree {
		v := r.Pick(4)
		if r.Chance(0.5) {
			return c07TFloat(float64(v))
		}
		if r.Chance(0.15) {
			return c07TFloat(float64(v) + 0.5)
		}
		return c07TInt(v)
	}
	pools := map[string]func() *Tree{
		"numbers": num,
		"strings": func() *Tree { return c07TStr([]string{"a", "b", "1", ""}[r.Pick(4)]) },
		"lists":   func() *Tree { return c07TList(num()) },
		"maps":    func() *Tree { return c07TMap([]string{"k"}, num()) },
		"bools":   func() *Tree { return &Tree{Kind: "bool", B: r.Chance(0.5)} },
		"pairs":   func() *Tree { return c07TList(num(), c07TStr([]string{"a", "b"}[r.Pick(2)])) },
	}
	names := sortedKeys(pools)
	kind := names[r.Pick(len(names))]
	if r.Chance(0.35) {
		kind = "numbers"
	}
	mixed := r.Chance(0.25) // incomparable mix: an error is expected exactly when = fails on a compared pair
	n := 2 + r.Pick(6)
	c.Src = c07TList()
	for i := 0; i < n; i++ {
		k := kind
		if mixed && r.Chance(0.35) {
			k = names[r.Pick(len(names))]
		}
		c.Src.Items = append(c.Src.Items, pools[k]())
	}
	if r.Chance(0.3) {
		c.Src.Repr = "lazy-map"
	}
	var key *c07CExp = c07CArg(0)
	switch r.Pick(5) {
	case 0:
		key = &c07CExp{K: "list", L: []*c07CExp{c07CArg(0)}}
	case 1:
		if kind == "numbers" && !mixed {
			key = c07COp("/", c07CArg(0), c07CInt(1)) // always a float, next to ints in the other cases
		}
	}
	c.Steps = []c07Step{c07Step1("groupByEqual", c07Fn(1, key))}
	if r.Chance(0.2) {
		c.Steps = append(c.Steps, c07Step1("size"))
	}
	return c
}
