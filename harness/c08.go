package main

// C08 - laziness: short-circuit consumers demand only the prefix they need.
// Pipelines source -> lazy stages -> consumer are evaluated through value.New().Generate with impure
// host functions tick(id,x) / tick2(id,a,b) / tick2b(id,a,b) inside every stage closure.  Observed:
// the outcome (ok value / error / unconsumed list), the tick log in order of occurrence, whether the
// call returned within 2 s.  Compared with the Coq model (event by event) and the Coq specification
// side through the case files, and with an independent eager oracle written here (need = least
// source prefix that decides the result; every closure may run at most need+1 times).

import (
	"encoding/json"
	"fmt"
	"os"
	"os/exec"
	"path/filepath"
	"runtime"
	"sort"
	"strconv"
	"strings"
	"sync"
	"time"

	"github.com/hneemann/parser2/funcGen"
	"github.com/hneemann/parser2/value"
)

func init() { register("c08", cmdC08); register("c08child", cmdC08Child) }

const c08Big = 100000000000

// ---------------------------------------------------------------- case description

type C8Fn1 struct {
	Fail *int `json:"fail,omitempty"`
	A, B int
	// Pure: the closure calls only pure functions (the counting host function ptick is registered IsPure:true,
	// the failure is the data dependent 12%(x-F)), so the optimizer flags it IsPure
	Pure bool `json:",omitempty"`
}
type C8Pr1 struct {
	Fail    *int   `json:"fail,omitempty"`
	Kind    string // gt eq mod
	T, M, R int
}
type C8Fn2 struct {
	Fail    *int `json:"fail,omitempty"`
	Sel     bool // failure test looks at the second argument
	P, Q, C int
}
type C8Pr2 struct {
	Fail *int `json:"fail,omitempty"`
	Sel  bool
	D    int // D > 0: same bucket of width D;  D == 0: a<b (the order closure of merge)
}
type C8Stage struct {
	Kind string // map accept combine number iir compact skip top
	ID   int
	ID0  int    `json:",omitempty"`
	F1   *C8Fn1 `json:",omitempty"`
	P1   *C8Pr1 `json:",omitempty"`
	F2   *C8Fn2 `json:",omitempty"`
	P2   *C8Pr2 `json:",omitempty"`
	N    int
}
type C8Pipe struct {
	Kind string // numbers list stage app cross merge through
	N    int
	L    []int    `json:",omitempty"`
	S    *C8Stage `json:",omitempty"`
	P    *C8Pipe  `json:",omitempty"`
	Q    *C8Pipe  `json:",omitempty"` // second operand of + / cross / merge: a pipeline of its own
	// list: how the stored list comes about: "" a literal of constants, "arg" a host list (value.NewList) passed as
	// argument, "argreverse" arg.reverse(), "argeval" arg.eval(), "argappend" arg.append(last), "litargs" a
	// list literal of int arguments - all of them lists with stored items (itemsPresent)
	Stored string `json:",omitempty"`
	Ctx  int      `json:",omitempty"` // through: the construct the list P passes through (c8CtxNames)
	ID   int      `json:",omitempty"` // closure of cross / merge
	F2   *C8Fn2   `json:",omitempty"` // cross: g(a,b)
	P2   *C8Pr2   `json:",omitempty"` // merge: less(a,b)
}
type C8Term struct {
	Kind string // none first single size present indexWhere contains containsAll reduce
	ID   int
	P1   *C8Pr1 `json:",omitempty"`
	F2   *C8Fn2 `json:",omitempty"`
	X    int
	XS   []int `json:",omitempty"` // containsAll: the list needle of  [a,b] ~ pipeline  (List.containsAllItems; Go oracle only)
	NF   int   `json:",omitempty"` // containsAll with an EMPTY needle: how the needle is written (0 the literal [], 1.. lists that are empty only after evaluation)
}
type C8Case struct {
	Pipe  *C8Pipe
	Term  *C8Term
	Multi *C8Term `json:",omitempty"` // second consumer: PIPE.multiUse({a: l->l.Term, b: l->l.Multi}).a  (Go oracle only)
	Note  string  `json:",omitempty"`
}

// ---------- expression text (what the implementation evaluates)

func failWrap(fail *int, tickCall, body string) (string, bool) {
	if fail == nil {
		return "", false
	}
	return fmt.Sprintf("if %s=%d then throw(\"boom\") else %s", tickCall, *fail, body), true
}

func (f *C8Fn1) Expr(id int) string {
	if f.Pure {
		t := fmt.Sprintf("ptick(%d,x)", id)
		if f.Fail != nil {
			// same meaning as the impure form: fails exactly for x = F, x*A+B otherwise
			return fmt.Sprintf("x->%s*%d+%d+0*(12%%(x-%d))", t, f.A, f.B, *f.Fail)
		}
		return fmt.Sprintf("x->%s*%d+%d", t, f.A, f.B)
	}
	t := fmt.Sprintf("tick(%d,x)", id)
	if s, ok := failWrap(f.Fail, t, fmt.Sprintf("x*%d+%d", f.A, f.B)); ok {
		return "x->" + s
	}
	return fmt.Sprintf("x->%s*%d+%d", t, f.A, f.B)
}

func (p *C8Pr1) body(x string) string {
	switch p.Kind {
	case "gt":
		return fmt.Sprintf("%s>%d", x, p.T)
	case "eq":
		return fmt.Sprintf("%s=%d", x, p.T)
	case "lt":
		return fmt.Sprintf("%s<%d", x, p.T)
	}
	return fmt.Sprintf("%s%%%d=%d", x, p.M, p.R)
}

func (p *C8Pr1) Expr(id int) string {
	t := fmt.Sprintf("tick(%d,x)", id)
	if s, ok := failWrap(p.Fail, t, p.body("x")); ok {
		return "x->" + s
	}
	return "x->" + p.body(t)
}

func tick2Name(sel bool) string {
	if sel {
		return "tick2b"
	}
	return "tick2"
}

func (f *C8Fn2) Expr(id int) string {
	t := fmt.Sprintf("%s(%d,a,b)", tick2Name(f.Sel), id)
	if s, ok := failWrap(f.Fail, t, fmt.Sprintf("a*%d+b*%d+%d", f.P, f.Q, f.C)); ok {
		return "(a,b)->" + s
	}
	if f.Sel {
		return fmt.Sprintf("(a,b)->a*%d+%s*%d+%d", f.P, t, f.Q, f.C)
	}
	return fmt.Sprintf("(a,b)->%s*%d+b*%d+%d", t, f.P, f.Q, f.C)
}

func (p *C8Pr2) Expr(id int) string {
	t := fmt.Sprintf("%s(%d,a,b)", tick2Name(p.Sel), id)
	if p.D == 0 {
		if s, ok := failWrap(p.Fail, t, "a<b"); ok {
			return "(a,b)->" + s
		}
		if p.Sel {
			return fmt.Sprintf("(a,b)->a<%s", t)
		}
		return fmt.Sprintf("(a,b)->%s<b", t)
	}
	if s, ok := failWrap(p.Fail, t, fmt.Sprintf("(a-a%%%d)=(b-b%%%d)", p.D, p.D)); ok {
		return "(a,b)->" + s
	}
	if p.Sel {
		return fmt.Sprintf("(a,b)->(a-a%%%d)=(%s-b%%%d)", p.D, t, p.D)
	}
	return fmt.Sprintf("(a,b)->(%s-a%%%d)=(b-b%%%d)", t, p.D, p.D)
}

func (s *C8Stage) Expr() string {
	switch s.Kind {
	case "map":
		return ".map(" + s.F1.Expr(s.ID) + ")"
	case "accept":
		return ".accept(" + s.P1.Expr(s.ID) + ")"
	case "combine":
		return ".combine(" + s.F2.Expr(s.ID) + ")"
	case "number":
		return ".number(" + s.F2.Expr(s.ID) + ")"
	case "iir":
		return ".iir(" + s.F1.Expr(s.ID0) + "," + s.F2.Expr(s.ID) + ")"
	case "compact":
		return ".compact(" + s.P2.Expr(s.ID) + ")"
	case "skip":
		return fmt.Sprintf(".skip(%d)", s.N)
	case "top":
		return fmt.Sprintf(".top(%d)", s.N)
	}
	panic("stage kind " + s.Kind)
}

// constructs of the language a lazy list may pass through without being consumed
var c8CtxNames = []string{"", "try", "let", "if", "switch", "closure", "func", "mapfield", "listelem", "hostarg", "closure-let"}

func (p *C8Pipe) Expr() string { return p.expr(nil) }

// arguments of the generated function (host values handed in by the harness)
type c8Arg struct {
	Name   string
	IsList bool
	L      []int
	V      int
}

var c8ArgSink *[]c8Arg // collects the arguments while an expression is rendered (Case.ExprArgs)

func c8NewArg(a c8Arg) string {
	a.Name = fmt.Sprintf("a%d", len(*c8ArgSink)+1)
	*c8ArgSink = append(*c8ArgSink, a)
	return a.Name
}

// expr renders the pipeline; let bindings and func declarations of pass-through constructs are hoisted to the
// top level of the expression (h), where the grammar accepts them
func (p *C8Pipe) expr(h *[]string) string {
	switch p.Kind {
	case "var":
		return "l"
	case "numbers":
		return fmt.Sprintf("numbers(%d)", p.N)
	case "list":
		if p.Stored != "" && c8ArgSink != nil && (len(p.L) > 0 || p.Stored == "arg" || p.Stored == "argeval") {
			switch p.Stored {
			case "arg":
				return c8NewArg(c8Arg{IsList: true, L: p.L})
			case "argeval":
				return c8NewArg(c8Arg{IsList: true, L: p.L}) + ".eval()"
			case "argreverse":
				rev := make([]int, len(p.L))
				for i, v := range p.L {
					rev[len(p.L)-1-i] = v
				}
				return c8NewArg(c8Arg{IsList: true, L: rev}) + ".reverse()"
			case "argappend":
				return c8NewArg(c8Arg{IsList: true, L: p.L[:len(p.L)-1]}) + fmt.Sprintf(".append(%d)", p.L[len(p.L)-1])
			case "litargs":
				xs := make([]string, len(p.L))
				for i, v := range p.L {
					xs[i] = c8NewArg(c8Arg{V: v})
				}
				return "[" + strings.Join(xs, ",") + "]"
			}
		}
		xs := make([]string, len(p.L))
		for i, v := range p.L {
			xs[i] = strconv.Itoa(v)
		}
		return "[" + strings.Join(xs, ",") + "]"
	case "stage":
		return p.P.expr(h) + p.S.Expr()
	case "app":
		return "(" + p.P.expr(h) + "+" + p.Q.expr(h) + ")"
	case "cross":
		return p.P.expr(h) + ".cross(" + p.Q.expr(h) + "," + p.F2.Expr(p.ID) + ")"
	case "merge":
		return p.P.expr(h) + ".merge(" + p.Q.expr(h) + "," + p.P2.Expr(p.ID) + ")"
	case "through":
		inner := p.P.expr(h)
		ctx := p.Ctx
		if h == nil && (ctx == 2 || ctx == 6) {
			ctx = 10
		}
		switch ctx {
		case 1:
			return "(try " + inner + " catch [])"
		case 2:
			name := fmt.Sprintf("v%d", len(*h)+1)
			*h = append(*h, "let "+name+"="+inner+";")
			return name
		case 3:
			return "(if 1<2 then " + inner + " else [])"
		case 4:
			return "(switch 1 case 1:" + inner + " default [])"
		case 5:
			return "(x->x)(" + inner + ")"
		case 6:
			name := fmt.Sprintf("f%d", len(*h)+1)
			*h = append(*h, "func "+name+"(x) x;")
			return name + "(" + inner + ")"
		case 7:
			return "{l:" + inner + "}.l"
		case 8:
			return "[" + inner + "][0]"
		case 9:
			return "pass(" + inner + ")"
		case 10:
			return "(y->let v=y; v)(" + inner + ")"
		}
	}
	panic("pipe kind " + p.Kind)
}
func (c *C8Case) Expr() string { e, _ := c.ExprArgs(); return e }

// ExprArgs: the expression and the arguments it is generated with and called on
func (c *C8Case) ExprArgs() (string, []c8Arg) {
	var h []string
	var args []c8Arg
	c8ArgSink = &args
	pe := c.Pipe.expr(&h)
	c8ArgSink = nil
	return strings.Join(h, " ") + c.exprWith(pe), args
}

// c8Wire: expression plus arguments as one string for the evaluating child process
func c8Wire(exp string, args []c8Arg) string {
	if len(args) == 0 {
		return exp
	}
	bs, _ := json.Marshal(args)
	return "ARGS" + string(bs) + "\n" + exp
}

func (c *C8Case) exprWith(pe string) string {
	if c.Multi != nil {
		a := (&C8Case{Term: c.Term}).exprWith("l")
		b := (&C8Case{Term: c.Multi}).exprWith("l")
		return fmt.Sprintf("%s.multiUse({a:l->%s, b:l->%s}).a", pe, a, b)
	}
	switch c.Term.Kind {
	case "none":
		return pe
	case "first", "single", "size":
		return pe + "." + c.Term.Kind + "()"
	case "present", "indexWhere":
		return pe + "." + c.Term.Kind + "(" + c.Term.P1.Expr(c.Term.ID) + ")"
	case "contains":
		return fmt.Sprintf("%d ~ %s", c.Term.X, pe)
	case "containsAll":
		xs := make([]string, len(c.Term.XS))
		for i, v := range c.Term.XS {
			xs[i] = strconv.Itoa(v)
		}
		if len(xs) == 0 && c.Term.NF > 0 {
			// a needle whose emptiness is known only after it was evaluated (seeded/C08-h: an "all found" test that runs
			// only after a match never fires for such a needle, the haystack is consumed completely)
			return []string{"[]", "[1,2].accept(x->x>5)", "[1,2].top(0)", "[1].skip(3)", "([]+[])", "[7].map(x->x+1).accept(x->x<0)"}[c.Term.NF%6] + " ~ " + pe
		}
		return "[" + strings.Join(xs, ",") + "] ~ " + pe
	case "reduce":
		return pe + ".reduce(" + c.Term.F2.Expr(c.Term.ID) + ")"
	}
	panic("term kind " + c.Term.Kind)
}

// ---------- Coq terms (the same case for the model and the specification side)

func coqZ(v int) string {
	if v < 0 {
		return fmt.Sprintf("(%d)", v)
	}
	return strconv.Itoa(v)
}
func coqOptZ(v *int) string {
	if v == nil {
		return "None"
	}
	return "(Some " + coqZ(*v) + ")"
}
func coqZs(vs []int) string {
	xs := make([]string, len(vs))
	for i, v := range vs {
		xs[i] = coqZ(v)
	}
	return "[" + strings.Join(xs, ";") + "]"
}
func (f *C8Fn1) Coq() string { return fmt.Sprintf("(Dfn1 %s %s %s)", coqOptZ(f.Fail), coqZ(f.A), coqZ(f.B)) }
func (p *C8Pr1) Coq() string {
	k := ""
	switch p.Kind {
	case "gt":
		k = "(DGt " + coqZ(p.T) + ")"
	case "eq":
		k = "(DEq " + coqZ(p.T) + ")"
	case "lt":
		k = "(DLt " + coqZ(p.T) + ")"
	default:
		k = "(DMod " + coqZ(p.M) + " " + coqZ(p.R) + ")"
	}
	return fmt.Sprintf("(Dpr1 %s %s)", coqOptZ(p.Fail), k)
}
func (f *C8Fn2) Coq() string {
	return fmt.Sprintf("(Dfn2 %s %s %s %s %s)", coqOptZ(f.Fail), CoqBool(f.Sel), coqZ(f.P), coqZ(f.Q), coqZ(f.C))
}
func (p *C8Pr2) Coq() string {
	return fmt.Sprintf("(Dpr2 %s %s %s)", coqOptZ(p.Fail), CoqBool(p.Sel), coqZ(p.D))
}
func (s *C8Stage) Coq() string {
	switch s.Kind {
	case "map":
		return fmt.Sprintf("(DMap %d%%N %s)", s.ID, s.F1.Coq())
	case "accept":
		return fmt.Sprintf("(DAccept %d%%N %s)", s.ID, s.P1.Coq())
	case "combine":
		return fmt.Sprintf("(DCombine %d%%N %s)", s.ID, s.F2.Coq())
	case "number":
		return fmt.Sprintf("(DNumber %d%%N %s)", s.ID, s.F2.Coq())
	case "iir":
		return fmt.Sprintf("(DIir %d%%N %s %d%%N %s)", s.ID0, s.F1.Coq(), s.ID, s.F2.Coq())
	case "compact":
		return fmt.Sprintf("(DCompact %d%%N %s)", s.ID, s.P2.Coq())
	case "skip":
		return "(DSkip " + coqZ(s.N) + ")"
	case "top":
		return "(DTop " + coqZ(s.N) + ")"
	}
	panic("stage kind")
}
func (p *C8Pipe) Coq() string {
	switch p.Kind {
	case "numbers":
		return "(DNumbers " + coqZ(p.N) + ")"
	case "list":
		return "(DList " + coqZs(p.L) + ")"
	case "stage":
		return "(DStage " + p.S.Coq() + " " + p.P.Coq() + ")"
	case "cross":
		return fmt.Sprintf("(DCross %d%%N %s %s %s)", p.ID, p.F2.Coq(), p.P.Coq(), p.Q.Coq())
	case "merge":
		return fmt.Sprintf("(DMerge %d%%N %s %s %s)", p.ID, p.P2.Coq(), p.P.Coq(), p.Q.Coq())
	case "through":
		return fmt.Sprintf("(DThrough %d%%N %s)", p.Ctx, p.P.Coq())
	}
	return "(DApp " + p.P.Coq() + " " + p.Q.Coq() + ")"
}
func (t *C8Term) Coq() string {
	switch t.Kind {
	case "none":
		return "DTNone"
	case "first":
		return "DTFirst"
	case "single":
		return "DTSingle"
	case "size":
		return "DTSize"
	case "present":
		return fmt.Sprintf("(DTPresent %d%%N %s)", t.ID, t.P1.Coq())
	case "indexWhere":
		return fmt.Sprintf("(DTIndexWhere %d%%N %s)", t.ID, t.P1.Coq())
	case "contains":
		return "(DTContains " + coqZ(t.X) + ")"
	}
	return fmt.Sprintf("(DTReduce %d%%N %s)", t.ID, t.F2.Coq())
}

// ---------------------------------------------------------------- observation of the implementation

type c8Event struct {
	ID   int
	Args []int
}

type c8Obs struct {
	Kind     string // int bool err list timeout generr
	V        int
	B        bool
	Err      string
	Log      []c8Event
	Parallel bool // some tick ran on another goroutine than the evaluating one: a stage switched to parallel mode
	Micros   int64
	Retries  int
	NumCPU   int
}

var c8Settle bool
var c8mu sync.Mutex
var c8log []c8Event
var c8gid uint64
var c8par bool
var c8fg *value.FunctionGenerator
var c8fn = map[string]funcGen.Func[value.Value]{}

func c08CurGid() uint64 {
	var buf [64]byte
	n := runtime.Stack(buf[:], false)
	f := strings.Fields(string(buf[:n]))
	if len(f) < 2 {
		return 0
	}
	g, _ := strconv.ParseUint(f[1], 10, 64)
	return g
}

func c8Tick(nargs int, ret int) funcGen.Function[value.Value] {
	return funcGen.Function[value.Value]{
		Func: func(st funcGen.Stack[value.Value], cs []value.Value) (value.Value, error) {
			id, _ := st.Get(0).(value.Int)
			ev := c8Event{ID: int(id)}
			for i := 1; i <= nargs; i++ {
				if v, ok := st.Get(i).(value.Int); ok {
					ev.Args = append(ev.Args, int(v))
				} else {
					ev.Args = append(ev.Args, -999999)
				}
			}
			g := c08CurGid()
			c8mu.Lock()
			c8log = append(c8log, ev)
			if g != c8gid {
				c8par = true
			}
			c8mu.Unlock()
			return st.Get(ret), nil
		},
		Args:   nargs + 1,
		IsPure: false,
	}
}

func c8FG() *value.FunctionGenerator {
	if c8fg == nil {
		c8fg = value.New()
		c8fg.AddStaticFunction("tick", c8Tick(1, 1))
		c8fg.AddStaticFunction("tick2", c8Tick(2, 1))
		c8fg.AddStaticFunction("tick2b", c8Tick(2, 2))
		// the same counter registered as a PURE function: a closure that calls only it is flagged IsPure by the
		// optimizer, so demand can be counted on code paths reserved for pure functions
		pt := c8Tick(1, 1)
		pt.IsPure = true
		c8fg.AddStaticFunction("ptick", pt)
		// a host function that hands its argument on (a list passes through it unconsumed)
		c8fg.AddStaticFunction("pass", funcGen.Function[value.Value]{
			Func:   func(st funcGen.Stack[value.Value], cs []value.Value) (value.Value, error) { return st.Get(0), nil },
			Args:   1,
			IsPure: false,
		})
	}
	return c8fg
}

// c8Eval evaluates the expression on the real implementation; false = did not return within the limit
func c8Eval(wire string, limit time.Duration) c8Obs {
	exp := wire
	var args []c8Arg
	if strings.HasPrefix(wire, "ARGS") {
		i := strings.Index(wire, "\n")
		if err := json.Unmarshal([]byte(wire[4:i]), &args); err != nil {
			return c8Obs{Kind: "generr", Err: "arguments: " + err.Error()}
		}
		exp = wire[i+1:]
	}
	names := make([]string, len(args))
	vals := make([]value.Value, len(args))
	for i, a := range args {
		names[i] = a.Name
		if a.IsList {
			items := make([]value.Value, len(a.L))
			for k, v := range a.L {
				items[k] = value.Int(v)
			}
			vals[i] = value.NewList(items...)
		} else {
			vals[i] = value.Int(a.V)
		}
	}
	f, ok := c8fn[exp]
	if !ok {
		c8mu.Lock()
		c8log = nil
		c8mu.Unlock()
		var err error
		f, _, err = c8FG().Generate(exp, names...)
		if err != nil {
			return c8Obs{Kind: "generr", Err: err.Error()}
		}
		c8mu.Lock()
		n := len(c8log)
		c8mu.Unlock()
		if n > 0 {
			return c8Obs{Kind: "generr", Err: "closures were evaluated while generating", Log: append([]c8Event{}, c8log...)}
		}
		c8fn[exp] = f
	}
	done := make(chan c8Obs, 1)
	c8mu.Lock()
	c8log = nil
	c8par = false
	c8mu.Unlock()
	t0 := time.Now()
	g0 := runtime.NumGoroutine()
	go func() {
		c8mu.Lock()
		c8gid = c08CurGid()
		c8mu.Unlock()
		var o c8Obs
		func() {
			defer func() {
				if r := recover(); r != nil {
					o = c8Obs{Kind: "err", Err: fmt.Sprint("panic: ", r)}
				}
			}()
			v, err := f(funcGen.NewStack[value.Value](vals...))
			switch {
			case err != nil:
				o = c8Obs{Kind: "err", Err: err.Error()}
			default:
				switch x := v.(type) {
				case value.Int:
					o = c8Obs{Kind: "int", V: int(x)}
				case value.Bool:
					o = c8Obs{Kind: "bool", B: bool(x)}
				case *value.List:
					o = c8Obs{Kind: "list"}
				default:
					o = c8Obs{Kind: "err", Err: fmt.Sprintf("unexpected result type %T", v)}
				}
			}
		}()
		done <- o
	}()
	select {
	case o := <-done:
		if c8Settle {
			// goroutines of multiUse/merge may still finish the element they are working on
			last := -1
			for i := 0; i < 25; i++ {
				c8mu.Lock()
				n := len(c8log)
				c8mu.Unlock()
				if n == last {
					break
				}
				last = n
				time.Sleep(2 * time.Millisecond)
			}
		}
		c8mu.Lock()
		o.Log = append([]c8Event{}, c8log...)
		o.Parallel = c8par
		c8mu.Unlock()
		if runtime.NumGoroutine() > g0+1 {
			// the library started goroutines during this evaluation (a stage switched to parallel mode at the very
			// element the result was decided by: its workers have not ticked yet, the feeder has read ahead)
			o.Parallel = true
		}
		o.Micros = time.Since(t0).Microseconds()
		return o
	case <-time.After(limit):
		c8mu.Lock()
		l := append([]c8Event{}, c8log...)
		c8mu.Unlock()
		if len(l) > 200 {
			l = l[:200]
		}
		return c8Obs{Kind: "timeout", Log: l, Micros: time.Since(t0).Microseconds()}
	}
}

func (o c8Obs) CoqOutcome() string {
	switch o.Kind {
	case "int":
		return "(OInt " + coqZ(o.V) + ")"
	case "bool":
		return "(OBool " + CoqBool(o.B) + ")"
	case "list":
		return "OList"
	}
	return "(OErr 0%N)"
}

func coqLog(l []c8Event) string {
	xs := make([]string, len(l))
	for i, e := range l {
		xs[i] = fmt.Sprintf("Ev %d%%N %s", e.ID, coqZs(e.Args))
	}
	return "[" + strings.Join(xs, ";") + "]"
}

func (o c8Obs) Short() string {
	switch o.Kind {
	case "int":
		return fmt.Sprint(o.V)
	case "bool":
		return fmt.Sprint(o.B)
	case "err":
		return "error"
	}
	return o.Kind
}

// ---------------------------------------------------------------- independent oracle (eager, on source prefixes)

type c8Partial struct {
	items  []int
	status int // 0 open, 1 closed, 2 failed
}

type c8Calls map[int][][]int // id -> argument tuples in call order (generator uses it to place failures)

func hit(fail *int, v int) bool { return fail != nil && *fail == v }

func (f *C8Fn1) apply(id int, x int, calls c8Calls) (int, bool) {
	calls[id] = append(calls[id], []int{x})
	if hit(f.Fail, x) {
		return 0, false
	}
	return x*f.A + f.B, true
}
func (p *C8Pr1) apply(id int, x int, calls c8Calls) (bool, bool) {
	calls[id] = append(calls[id], []int{x})
	if hit(p.Fail, x) {
		return false, false
	}
	switch p.Kind {
	case "gt":
		return x > p.T, true
	case "eq":
		return x == p.T, true
	case "lt":
		return x < p.T, true
	}
	return x%p.M == p.R, true
}
func (f *C8Fn2) apply(id int, a, b int, calls c8Calls) (int, bool) {
	calls[id] = append(calls[id], []int{a, b})
	s := a
	if f.Sel {
		s = b
	}
	if hit(f.Fail, s) {
		return 0, false
	}
	return a*f.P + b*f.Q + f.C, true
}
func (p *C8Pr2) apply(id int, a, b int, calls c8Calls) (bool, bool) {
	calls[id] = append(calls[id], []int{a, b})
	s := a
	if p.Sel {
		s = b
	}
	if hit(p.Fail, s) {
		return false, false
	}
	if p.D == 0 {
		return a < b, true
	}
	return a-a%p.D == b-b%p.D, true
}

func (s *C8Stage) eager(in c8Partial, calls c8Calls) c8Partial {
	out := c8Partial{status: in.status}
	fail := func() c8Partial { out.status = 2; return out }
	switch s.Kind {
	case "map":
		for _, x := range in.items {
			y, ok := s.F1.apply(s.ID, x, calls)
			if !ok {
				return fail()
			}
			out.items = append(out.items, y)
		}
	case "accept":
		for _, x := range in.items {
			b, ok := s.P1.apply(s.ID, x, calls)
			if !ok {
				return fail()
			}
			if b {
				out.items = append(out.items, x)
			}
		}
	case "combine":
		for i := 1; i < len(in.items); i++ {
			y, ok := s.F2.apply(s.ID, in.items[i-1], in.items[i], calls)
			if !ok {
				return fail()
			}
			out.items = append(out.items, y)
		}
	case "number":
		for i, x := range in.items {
			y, ok := s.F2.apply(s.ID, i, x, calls)
			if !ok {
				return fail()
			}
			out.items = append(out.items, y)
		}
	case "iir":
		last := 0
		for i, x := range in.items {
			var ok bool
			if i == 0 {
				last, ok = s.F1.apply(s.ID0, x, calls)
			} else {
				last, ok = s.F2.apply(s.ID, x, last, calls)
			}
			if !ok {
				return fail()
			}
			out.items = append(out.items, last)
		}
	case "compact":
		for i, x := range in.items {
			if i == 0 {
				out.items = append(out.items, x)
				continue
			}
			eq, ok := s.P2.apply(s.ID, out.items[len(out.items)-1], x, calls)
			if !ok {
				return fail()
			}
			if !eq {
				out.items = append(out.items, x)
			}
		}
	case "skip":
		if s.N < len(in.items) {
			if s.N > 0 {
				out.items = in.items[s.N:]
			} else {
				out.items = in.items
			}
		}
	case "top":
		if s.N >= 0 && len(in.items) >= s.N {
			return c8Partial{items: in.items[:s.N], status: 1}
		}
		out.items = in.items
	}
	return out
}

func (p *C8Pipe) eager(n int, calls c8Calls) c8Partial {
	switch p.Kind {
	case "numbers":
		if n < p.N {
			r := c8Partial{}
			for i := 0; i < n; i++ {
				r.items = append(r.items, i)
			}
			return r
		}
		r := c8Partial{status: 1}
		for i := 0; i < p.N; i++ {
			r.items = append(r.items, i)
		}
		return r
	case "list":
		if n < len(p.L) {
			return c8Partial{items: p.L[:n]}
		}
		return c8Partial{items: p.L, status: 1}
	case "stage":
		return p.S.eager(p.P.eager(n, calls), calls)
	case "through":
		return p.P.eager(n, calls) // the construct hands the list on: nothing may be evaluated
	case "cross":
		// row by row; the second list is iterated anew for every row; while it may go on only the first row is known
		a := p.P.eager(n, calls)
		out := c8Partial{}
		for _, av := range a.items {
			b := p.Q.eager(n, calls)
			for _, bv := range b.items {
				y, ok := p.F2.apply(p.ID, av, bv, calls)
				if !ok {
					out.status = 2
					return out
				}
				out.items = append(out.items, y)
			}
			if b.status != 1 {
				out.status = b.status
				return out
			}
		}
		out.status = a.status
		return out
	case "merge":
		a, b := p.P.eager(n, calls), p.Q.eager(n, calls)
		out := c8Partial{}
		i, j := 0, 0
		for {
			switch {
			case i < len(a.items) && j < len(b.items):
				lt, ok := p.P2.apply(p.ID, a.items[i], b.items[j], calls)
				if !ok {
					out.status = 2
					return out
				}
				if lt {
					out.items = append(out.items, a.items[i])
					i++
				} else {
					out.items = append(out.items, b.items[j])
					j++
				}
			case i >= len(a.items):
				if a.status == 1 {
					out.items = append(out.items, b.items[j:]...)
					out.status = b.status
				} else {
					out.status = a.status
				}
				return out
			default:
				if b.status == 1 {
					out.items = append(out.items, a.items[i:]...)
					out.status = a.status
				} else {
					out.status = b.status
				}
				return out
			}
		}
	}
	a := p.P.eager(n, calls)
	if a.status != 1 {
		return a
	}
	b := p.Q.eager(n, calls)
	return c8Partial{items: append(append([]int{}, a.items...), b.items...), status: b.status}
}

// decided result for every continuation of the partial list ("" = not decided yet)
func (t *C8Term) decide(pl c8Partial, calls c8Calls) string {
	atEnd := func(v string) string {
		switch pl.status {
		case 1:
			return v
		case 2:
			return "error"
		}
		return ""
	}
	switch t.Kind {
	case "none":
		return "list"
	case "first":
		if len(pl.items) > 0 {
			return fmt.Sprint(pl.items[0])
		}
		return atEnd("error")
	case "single":
		switch len(pl.items) {
		case 0:
			return atEnd("error")
		case 1:
			return atEnd(fmt.Sprint(pl.items[0]))
		}
		return "error"
	case "size":
		return atEnd(fmt.Sprint(len(pl.items)))
	case "present", "indexWhere":
		for i, x := range pl.items {
			b, ok := t.P1.apply(t.ID, x, calls)
			if !ok {
				return "error"
			}
			if b {
				if t.Kind == "present" {
					return "true"
				}
				return fmt.Sprint(i)
			}
		}
		if t.Kind == "present" {
			return atEnd("false")
		}
		return atEnd("-1")
	case "contains":
		for _, x := range pl.items {
			if x == t.X {
				return "true"
			}
		}
		return atEnd("false")
	case "containsAll":
		// every element of the needle is found (each item of the haystack serves one needle element)
		rest := append([]int{}, t.XS...)
		for _, x := range pl.items {
			for i, lf := range rest {
				if lf == x {
					rest = append(rest[:i], rest[i+1:]...)
					break
				}
			}
			if len(rest) == 0 {
				return "true"
			}
		}
		return atEnd("false")
	case "reduce":
		if len(pl.items) == 0 {
			return atEnd("error")
		}
		acc := pl.items[0]
		for _, x := range pl.items[1:] {
			var ok bool
			acc, ok = t.F2.apply(t.ID, acc, x, calls)
			if !ok {
				return "error"
			}
		}
		return atEnd(fmt.Sprint(acc))
	}
	return ""
}

const c8Cap = 300 // the oracle gives up beyond this prefix: such a case is not run on the implementation

// need = least prefix length that decides the result; calls = closure invocations of the eager evaluation at that prefix
func (c *C8Case) oracle() (need int, result string, calls c8Calls, ok bool) {
	for n := 0; n <= c8Cap; n++ {
		calls = c8Calls{}
		r := c.Term.decide(c.Pipe.eager(n, calls), calls)
		if r != "" {
			return n, r, calls, true
		}
	}
	return 0, "", nil, false
}

func (p *C8Pipe) ids(out *[]int) {
	switch p.Kind {
	case "stage":
		if p.S.Kind == "iir" {
			*out = append(*out, p.S.ID0)
		}
		if p.S.Kind != "skip" && p.S.Kind != "top" {
			*out = append(*out, p.S.ID)
		}
		p.P.ids(out)
	case "app":
		p.P.ids(out)
		p.Q.ids(out)
	case "cross", "merge":
		*out = append(*out, p.ID)
		p.P.ids(out)
		p.Q.ids(out)
	case "through":
		p.P.ids(out)
	}
}

func (p *C8Pipe) has(kind string) bool {
	found := false
	p.walk(func(x *C8Pipe) {
		if x.Kind == kind {
			found = true
		}
	})
	return found
}

func (p *C8Pipe) shape() string {
	switch p.Kind {
	case "numbers":
		if p.N >= 1000000 {
			return "numbers(big)"
		}
		return "numbers(n)"
	case "list":
		if p.Stored != "" {
			return "stored(" + p.Stored + ")"
		}
		return "list"
	case "stage":
		return p.P.shape() + "." + p.S.Kind
	case "cross", "merge":
		return p.P.shape() + "." + p.Kind + "(" + p.Q.shape() + ")"
	case "through":
		return "<" + c8CtxNames[p.Ctx] + " " + p.P.shape() + ">"
	}
	return "(" + p.P.shape() + "+" + p.Q.shape() + ")"
}

func (p *C8Pipe) stages() int {
	switch p.Kind {
	case "stage":
		return 1 + p.P.stages()
	case "app", "cross", "merge":
		return 1 + p.P.stages() + p.Q.stages()
	case "through":
		return p.P.stages()
	}
	return 0
}

func (p *C8Pipe) walk(f func(*C8Pipe)) {
	f(p)
	if p.P != nil {
		p.P.walk(f)
	}
	if p.Q != nil {
		p.Q.walk(f)
	}
}

// ---------------------------------------------------------------- one case

type c8Job struct {
	c         *C8Case
	need      int
	want      string
	needCalls c8Calls
	exp       string
	wire      string // exp with the arguments the child process has to pass
	obs       c8Obs
	have      bool
	first     string // what happened in the default configuration when the case had to be repeated on one CPU
}

type c8Run struct {
	canPin  bool
	jobs    []*c8Job
	sum     *Summary
	cw      *CaseWriter
	id      int
	aborted bool
	maxUs   int64
}

func c8Sig(c *C8Case, symptom string) string {
	if c.Multi != nil {
		// the read-ahead of the multiUse pass is one element of ITS input: what matters is whether a stage
		// that drops elements sits between the source and multiUse
		class := "no dropping stage upstream"
		c.Pipe.walk(func(p *C8Pipe) {
			if p.Kind == "stage" && (p.S.Kind == "accept" || p.S.Kind == "compact") {
				class = "behind a dropping stage (accept/compact)"
			}
		})
		return "multiUse | " + class + " | " + symptom
	}
	if symptom == "excess-demand" && c.Pipe.has("merge") {
		// each operand of merge is read by a goroutine that is one element OF THE OPERAND ahead
		drops := false
		c.Pipe.walk(func(p *C8Pipe) {
			if p.Kind == "merge" {
				for _, o := range []*C8Pipe{p.P, p.Q} {
					o.walk(func(x *C8Pipe) {
						if x.Kind == "stage" && (x.S.Kind == "accept" || x.S.Kind == "compact") {
							drops = true
						}
					})
				}
			}
		})
		if drops {
			return "merge | operand behind a dropping stage (accept/compact) | excess-demand"
		}
	}
	return c.Term.Kind + " | " + c.Pipe.shape() + " | " + symptom
}

// conc: the library runs part of the evaluation on goroutines of its own whatever the load (multiUse: one per
// consumer; merge: one per operand, iterator.ToChan, each one element ahead): the order of ticks is not
// deterministic, the counts are; such cases are observed on one CPU and judged by the Go oracle only
func (c *C8Case) conc() bool { return c.Multi != nil || c.Pipe.has("merge") }

func (r *c8Run) run(c *C8Case) {
	need, want, needCalls, ok := c.oracle()
	if ok && c.Multi != nil {
		// both consumers run concurrently over one pass of the source (iterator.CopyProducer): the pass must
		// cover the larger of the two needs; the value looked at is consumer a's
		nb, wb, cb, okb := (&C8Case{Pipe: c.Pipe, Term: c.Multi}).oracle()
		if !okb || want == "error" || wb == "error" {
			r.sum.Skipped["multiUse-consumer-error-or-undecided"]++
			return
		}
		if nb > need {
			// closures of the pipeline: the larger prefix; consumer a's own closure keeps its count
			own := needCalls[c.Term.ID]
			need, needCalls = nb, cb
			needCalls[c.Term.ID] = own
		} else {
			needCalls[c.Multi.ID] = cb[c.Multi.ID]
		}
	}
	if !ok {
		// the result needs more than c8Cap source elements: not a short-circuit case, would not terminate on numbers(10^11)
		r.sum.Skipped["oracle-undecided-within-cap"]++
		return
	}
	exp, args := c.ExprArgs()
	r.jobs = append(r.jobs, &c8Job{c: c, need: need, want: want, needCalls: needCalls, exp: exp, wire: c8Wire(exp, args)})
}

// c8Observe: one observation of the implementation, preferring the sequential mode
func c8Observe(exp string, multi bool) c8Obs {
	// If MapAuto/FilterAuto measured more than 200 us per element (a loaded machine: the closures here take about
	// 2 us) a stage has moved to worker goroutines; those may still tick after the call has returned, so the
	// child process is replaced after such an observation (cmdC08Child) and the case is repeated on one CPU.
	limit := 2 * time.Second
	if os.Getenv("C08_PINNED") != "" {
		limit = 5 * time.Second // one CPU shared with whatever else the machine runs
	}
	c8Settle = multi
	obs := c8Eval(exp, limit)
	if multi {
		obs.Parallel = false // the consumers of multiUse run on goroutines by design
	}
	return obs
}

// ---- evaluation in child processes: a panic on a library goroutine (possible after a load-induced switch to
// parallel mode: the stages then share one stack, C05/C06) kills the process and must not kill the check

type c8ChildIn struct {
	Exprs []string
	Multi []bool
	Fresh []bool // continue in a fresh process after this evaluation
	// ticks seen while generating the first expression are final (the process is fresh: they cannot come from
	// goroutines of an earlier evaluation)
	FirstFinal bool
}
type c8ChildOut struct {
	I   int
	Obs c8Obs
}

func cmdC08Child(seed int64, tier, dir string) {
	bs, err := os.ReadFile(filepath.Join(dir, "child_in.json"))
	if err != nil {
		fatal("c08child: %v", err)
	}
	var in c8ChildIn
	if err := json.Unmarshal(bs, &in); err != nil {
		fatal("c08child: %v", err)
	}
	out, err := os.Create(filepath.Join(dir, "child_out.jsonl"))
	if err != nil {
		fatal("c08child: %v", err)
	}
	for i, e := range in.Exprs {
		obs := c8Observe(e, in.Multi[i])
		obs.NumCPU = runtime.NumCPU()
		if obs.Kind == "generr" && strings.Contains(obs.Err, "closures were evaluated while generating") && !(i == 0 && in.FirstFinal) {
			// possibly ticks of goroutines an earlier evaluation left behind: look again in a fresh process
			out.Close()
			os.Exit(6)
		}
		line, _ := json.Marshal(c8ChildOut{I: i, Obs: obs})
		out.Write(append(line, '\n'))
		if obs.Kind == "timeout" {
			// the evaluation is still running on its goroutine (and may allocate without bound)
			out.Close()
			os.Exit(3)
		}
		if obs.Parallel || in.Fresh[i] {
			// goroutines of this evaluation may still be ticking: continue in a fresh process
			out.Close()
			os.Exit(4)
		}
	}
	out.Close()
}

// runChildren evaluates the given jobs in child processes (restarted after a crash); pinned: under taskset -c 0,
// where runtime.NumCPU() == 1 and MapAuto/FilterAuto are plain Map/Filter
func (r *c8Run) runChildren(jobs []*c8Job, pinned bool, dir string) {
	self, err := os.Executable()
	if err != nil {
		fatal("c08: %v", err)
	}
	os.MkdirAll(dir, 0o755)
	firstFinal := true
	for restarts := 0; len(jobs) > 0 && !r.aborted; restarts++ {
		in := c8ChildIn{FirstFinal: firstFinal}
		firstFinal = true
		for _, j := range jobs {
			in.Exprs = append(in.Exprs, j.wire)
			in.Multi = append(in.Multi, j.c.conc())
			// merge reads its operands on goroutines which go on evaluating closures after the call has returned
			// until their list yields again (never, behind a filter that lets nothing more through)
			in.Fresh = append(in.Fresh, j.c.Pipe.has("merge"))
		}
		bs, _ := json.Marshal(in)
		os.WriteFile(filepath.Join(dir, "child_in.json"), bs, 0o644)
		os.Remove(filepath.Join(dir, "child_out.jsonl"))
		args := []string{self, "c08child", "--out", dir}
		if pinned {
			args = append([]string{"taskset", "-c", "0"}, args...)
		}
		cmd := exec.Command(args[0], args[1:]...)
		if pinned {
			cmd.Env = append(os.Environ(), "C08_PINNED=1")
		}
		var stderr strings.Builder
		cmd.Stderr = &stderr
		cmd.Stdout = &stderr
		runErr := cmd.Run()
		done := 0
		if bs, err := os.ReadFile(filepath.Join(dir, "child_out.jsonl")); err == nil {
			for _, line := range strings.Split(string(bs), "\n") {
				var o c8ChildOut
				if line == "" || json.Unmarshal([]byte(line), &o) != nil || o.I != done || done >= len(jobs) {
					continue
				}
				jobs[done].obs, jobs[done].have = o.Obs, true
				done++
				if o.Obs.Kind == "timeout" && (pinned || !r.canPin) {
					// (a timeout in the default configuration is first repeated on one CPU: after a switch to
					// parallel mode the stages share one stack and may hang or crash, which is C05/C06's business)
					r.aborted = true
				}
			}
		}
		if runErr == nil || r.aborted {
			if done < len(jobs) && !r.aborted {
				fatal("c08: child finished without evaluating all cases")
			}
			return
		}
		if ee, ok := runErr.(*exec.ExitError); ok && ee.ExitCode() == 6 && done > 0 {
			jobs = jobs[done:]
			restarts--
			continue // jobs[0] is now first in a fresh process
		}
		if ee, ok := runErr.(*exec.ExitError); ok && (ee.ExitCode() == 4 || ee.ExitCode() == 3) && done > 0 {
			// the child stopped on purpose after an observation in parallel mode
			jobs = jobs[done:]
			restarts--
			continue
		}
		// the child died while evaluating jobs[done]
		if done < len(jobs) {
			msg := stderr.String()
			if len(msg) > 600 {
				msg = msg[:600]
			}
			jobs[done].obs, jobs[done].have = c8Obs{Kind: "crash", Err: msg}, true
			c8mu.Lock()
			r.sum.Count("child_process_crashes", map[bool]string{true: "pinned", false: "unpinned"}[pinned])
			c8mu.Unlock()
			done++
		}
		jobs = jobs[done:]
		if restarts > 20 {
			fatal("c08: child processes keep crashing: %s", stderr.String())
		}
	}
}

func (r *c8Run) evaluate(dir string) {
	_, tsErr := exec.LookPath("taskset")
	r.canPin = tsErr == nil
	// 0. multiUse: consumers on goroutines; the hand-over per element makes MapAuto's timing (200 us per element)
	//    depend on the scheduler, so these cases are observed on one CPU only (NumCPU()==1: plain Map/Filter)
	var multi, plain []*c8Job
	for _, j := range r.jobs {
		if j.c.conc() && tsErr == nil {
			multi = append(multi, j)
		} else {
			plain = append(plain, j)
		}
	}
	// 1. the default configuration: MapAuto/FilterAuto with their timing-based switch (the multiUse cases
	//    run beside it, in their own child pinned to CPU 0)
	var wg sync.WaitGroup
	if len(multi) > 0 {
		wg.Add(1)
		go func() {
			defer wg.Done()
			r.runChildren(multi, true, filepath.Join(dir, "child-multi"))
			for _, j := range multi {
				j.first = "multiUse"
			}
		}()
	}
	r.runChildren(plain, false, filepath.Join(dir, "child"))
	wg.Wait()
	// 2. whatever ran in parallel mode in every attempt, or crashed there, again on one CPU
	var again []*c8Job
	for _, j := range plain {
		if j.have && (j.obs.Parallel || j.obs.Kind == "crash" || j.obs.Kind == "timeout") {
			j.first = j.obs.Kind
			if j.obs.Parallel {
				j.first = "parallel"
			}
			again = append(again, j)
			if r.canPin {
				j.have = false // judged only if it can be observed again on one CPU
			}
		}
	}
	if len(again) > 0 && !r.aborted {
		if tsErr == nil {
			r.runChildren(again, true, filepath.Join(dir, "child"))
		}
	}
	for _, j := range r.jobs {
		if !j.have {
			r.sum.Skipped["not-run-after-timeout"]++
			continue
		}
		r.judge(j)
	}
}

func (r *c8Run) judge(j *c8Job) {
	c, need, want, needCalls, exp, obs := j.c, j.need, j.want, j.needCalls, j.exp, j.obs
	if obs.Retries > 0 {
		r.sum.Count("parallel_switch_retries", fmt.Sprint(obs.Retries))
	}
	switch {
	case j.first == "multiUse":
		r.sum.Count("evaluated", "multiUse and merge cases: on one CPU (taskset -c 0)")
	case j.first != "":
		r.sum.Count("evaluated", "on one CPU (taskset -c 0: Map/Filter instead of MapAuto/FilterAuto) after "+j.first+" in the default configuration")
	default:
		r.sum.Count("evaluated", "default configuration (MapAuto/FilterAuto, sequential branch)")
	}
	if obs.Kind == "generr" && !strings.Contains(obs.Err, "closures were evaluated while generating") {
		fatal("C08: expression does not generate: %s: %s", exp, obs.Err)
	}
	r.id++
	id := r.id
	r.sum.Evaluations++
	if obs.Micros > r.maxUs {
		r.maxUs = obs.Micros
	}
	counts := map[int]int{}
	for _, e := range obs.Log {
		counts[e.ID]++
	}
	var ids []int
	c.Pipe.ids(&ids)
	if c.Term.Kind == "present" || c.Term.Kind == "indexWhere" || c.Term.Kind == "reduce" {
		ids = append(ids, c.Term.ID)
	}
	maxc := 0
	for _, n := range counts {
		if n > maxc {
			maxc = n
		}
	}
	human := map[string]any{"expression": exp, "observed": obs.Short(), "observed_ticks_per_stage": fmt.Sprint(counts),
		"oracle_need": need, "oracle_result": want, "repro": c, "note": c.Note}
	// distribution
	if c.Multi != nil {
		r.sum.Count("consumer", "multiUse("+c.Term.Kind+","+c.Multi.Kind+")")
	} else {
		r.sum.Count("consumer", c.Term.Kind)
	}
	r.sum.Count("source", strings.SplitN(c.Pipe.shape(), ".", 2)[0])
	c.Pipe.walk(func(p *C8Pipe) {
		if p.Kind == "through" {
			r.sum.Count("pass_through_construct", c8CtxNames[p.Ctx])
		}
	})
	r.sum.Count("stages", fmt.Sprint(c.Pipe.stages()))
	c.Pipe.walk(func(p *C8Pipe) {
		if p.Kind == "stage" {
			r.sum.Count("stage_kinds", p.S.Kind)
		}
	})
	r.sum.Count("need(decisive prefix)", bucket(need))
	r.sum.Count("outcome", obs.Kind)
	r.sum.Count("failing_element", c.failClass())
	r.sum.Count("excess(max ticks - need)", fmt.Sprint(maxc-need))
	if c.Pipe.stages() >= 2 && need >= 1 {
		r.sum.Nontriv(fmt.Sprintf("%s|%s|%d", c.Term.Kind, c.Pipe.shape(), need))
	}

	// ---- oracle verdicts (property judged in Go on the implementation's own behaviour)
	symptom, what := "", ""
	switch {
	case obs.Kind == "crash":
		symptom, what = "process-crash", "the process evaluating the expression died: "+obs.Err
	case obs.Kind == "generr":
		symptom, what = "generate-evaluates-closures", fmt.Sprintf("Generate evaluated %d closure calls", len(obs.Log))
	case obs.Kind == "timeout":
		symptom, what = "no-prompt-termination", fmt.Sprintf("the call did not return within 2 s (5 s when repeated on one CPU) (ticks so far: %d, needed prefix %d)", len(obs.Log), need)
	case c.Term.Kind == "none" && (obs.Kind != "list" || len(obs.Log) > 0):
		symptom, what = "build-evaluates-closures", fmt.Sprintf("building the pipeline evaluated %d closure calls / returned %s", len(obs.Log), obs.Kind)
	case obs.Parallel && obs.Kind == "err" && c.failClass() != "none":
		// parallel mode in every attempt: a failing element inside the workers' read-ahead window may surface
		// (allowed by the property: demand is bounded by the worker count there); only counted
		r.sum.Count("parallel_mode", "read-ahead error surfaced")
	case obs.Short() != want:
		symptom = "wrong-outcome"
		if obs.Kind == "err" && want != "error" {
			symptom = "late-error-surfaced"
		}
		what = fmt.Sprintf("outcome %s, but the first %d source elements already decide %s", obs.Short(), need, want)
	default:
		for _, i := range c08SortedIntKeys(counts) {
			slack := 1
			if c.Pipe.has("merge") {
				slack = 2 // iterator.ToChan: each operand one element ahead
			}
			if obs.Parallel {
				slack = 1 + 3*runtime.NumCPU() // feeder, workers and the reorder buffer of iterator.initParallel
			}
			if counts[i] > len(needCalls[i])+slack {
				symptom, what = "excess-demand", fmt.Sprintf("closure %d ran %d times; the first %d elements of every source decide the result and an eager evaluation of that prefix calls it %d times (+1 read-ahead allowed)", i, counts[i], need, len(needCalls[i]))
				break
			}
		}
	}
	sig := c8Sig(c, symptom)
	if symptom == "" {
		sig = c8Sig(c, "model-disagrees")
	}
	human["signature"] = sig
	r.sum.Cases[fmt.Sprint(id)] = human
	r.sum.Sample(human)
	if symptom != "" {
		r.sum.GoViolations = append(r.sum.GoViolations, GoViolation{CaseID: id, What: what, Sig: sig, Human: human,
			Expected: fmt.Sprintf("%s with at most one evaluation more per closure than %v", want, callCounts(needCalls)),
			Observed: fmt.Sprintf("%s with %v evaluations per stage closure", obs.Short(), counts)})
	}
	if obs.Kind == "timeout" {
		// the evaluation is still running on its goroutine (and may allocate without bound): stop here
		r.aborted = true
		r.sum.Extra["aborted_after_timeout"] = exp
		return
	}
	if obs.Kind == "crash" || obs.Kind == "generr" {
		return
	}
	if c.Multi != nil {
		// goroutines: the interleaving of ticks is not deterministic, no sequential model; counts and outcome judged above
		r.sum.Skipped["multiUse-judged-by-go-oracle-only"]++
		return
	}
	if c.Term.Kind == "containsAll" || (c.Multi != nil && c.Multi.Kind == "containsAll") {
		// List.containsAllItems has no counterpart in the Coq model: outcome and counts judged by the Go oracle above
		r.sum.Skipped["list-needle-~-judged-by-go-oracle-only"]++
		return
	}
	if c.conc() {
		r.sum.Skipped["merge-judged-by-go-oracle-only(each operand is read one element ahead by a goroutine)"]++
		return
	}
	if obs.Parallel {
		// a stage switched to parallel mode in all attempts: order and read-ahead depend on the schedule; bound checked above only
		r.sum.Skipped["parallel-mode-not-compared-with-sequential-model"]++
		return
	}
	r.cw.Add(fmt.Sprintf("(%d%%N, %s, %s, %s, %s)", id, c.Pipe.Coq(), c.Term.Coq(), obs.CoqOutcome(), coqLog(obs.Log)))
}

func callCounts(c c8Calls) map[int]int {
	m := map[int]int{}
	for k, v := range c {
		m[k] = len(v)
	}
	return m
}

func c08SortedIntKeys(m map[int]int) []int {
	var ks []int
	for k := range m {
		ks = append(ks, k)
	}
	sort.Ints(ks)
	return ks
}

func (c *C8Case) failClass() string {
	n := 0
	c.Pipe.walk(func(p *C8Pipe) {
		if (p.F2 != nil && p.F2.Fail != nil) || (p.P2 != nil && p.P2.Fail != nil) {
			n++
		}
		if p.Kind == "stage" {
			s := p.S
			if (s.F1 != nil && s.F1.Fail != nil) || (s.P1 != nil && s.P1.Fail != nil) || (s.F2 != nil && s.F2.Fail != nil) || (s.P2 != nil && s.P2.Fail != nil) {
				n++
			}
		}
	})
	if (c.Term.P1 != nil && c.Term.P1.Fail != nil) || (c.Term.F2 != nil && c.Term.F2.Fail != nil) {
		n++
	}
	if n == 0 {
		return "none"
	}
	if c.Note != "" {
		return c.Note
	}
	return "placed"
}

// ---------------------------------------------------------------- generators

func ip(v int) *int { return &v }

func c8Src(kind string, n int) *C8Pipe {
	switch kind {
	case "big":
		return &C8Pipe{Kind: "numbers", N: c08Big}
	case "numbers":
		return &C8Pipe{Kind: "numbers", N: n}
	}
	l := make([]int, n)
	for i := range l {
		l[i] = (i*7 + 3) % 50
	}
	return &C8Pipe{Kind: "list", L: l}
}

func c8St(p *C8Pipe, s *C8Stage) *C8Pipe { return &C8Pipe{Kind: "stage", S: s, P: p} }

func stMap(id, a, b int) *C8Stage    { return &C8Stage{Kind: "map", ID: id, F1: &C8Fn1{A: a, B: b}} }
func stAccept(id int, p C8Pr1) *C8Stage { return &C8Stage{Kind: "accept", ID: id, P1: &p} }
func stCombine(id int) *C8Stage      { return &C8Stage{Kind: "combine", ID: id, F2: &C8Fn2{P: 1, Q: 1}} }
func stNumber(id int) *C8Stage       { return &C8Stage{Kind: "number", ID: id, F2: &C8Fn2{P: 2, Q: 1, C: 1}} }
func stIir(id0, id int) *C8Stage {
	return &C8Stage{Kind: "iir", ID0: id0, ID: id, F1: &C8Fn1{A: 1, B: 1}, F2: &C8Fn2{P: 1, Q: 1}}
}
func stCompact(id, d int) *C8Stage { return &C8Stage{Kind: "compact", ID: id, P2: &C8Pr2{D: d}} }
func stSkip(n int) *C8Stage        { return &C8Stage{Kind: "skip", N: n} }
func stTop(n int) *C8Stage         { return &C8Stage{Kind: "top", N: n} }

// a template builds the lazy part; the consumer is aimed at output position j afterwards
type c8Template struct {
	name  string
	build func(j int) *C8Pipe
}

func c8Templates() []c8Template {
	big := func() *C8Pipe { return c8St(c8Src("big", 0), stMap(1, 1, 0)) }
	return []c8Template{
		{"map", func(j int) *C8Pipe { return big() }},
		{"map.map", func(j int) *C8Pipe { return c8St(big(), stMap(2, 2, 1)) }},
		{"map.accept", func(j int) *C8Pipe { return c8St(big(), stAccept(2, C8Pr1{Kind: "mod", M: 3, R: 1})) }},
		{"map.combine", func(j int) *C8Pipe { return c8St(big(), stCombine(2)) }},
		{"map.skip", func(j int) *C8Pipe { return c8St(big(), stSkip(j%7)) }},
		{"map.skip(j)", func(j int) *C8Pipe { return c8St(big(), stSkip(j)) }},
		{"map.number", func(j int) *C8Pipe { return c8St(big(), stNumber(2)) }},
		{"map.iir", func(j int) *C8Pipe { return c8St(big(), stIir(2, 3)) }},
		{"map.compact", func(j int) *C8Pipe { return c8St(big(), stCompact(2, 3)) }},
		{"map.top", func(j int) *C8Pipe { return c8St(big(), stTop(j+2)) }},
		{"map.accept.combine.map", func(j int) *C8Pipe {
			return c8St(c8St(c8St(big(), stAccept(2, C8Pr1{Kind: "mod", M: 2, R: 0})), stCombine(3)), stMap(4, 1, 2))
		}},
		{"map.skip.accept.number", func(j int) *C8Pipe {
			return c8St(c8St(c8St(big(), stSkip(3)), stAccept(2, C8Pr1{Kind: "gt", T: 5})), stNumber(3))
		}},
		{"map.iir.compact.skip", func(j int) *C8Pipe {
			return c8St(c8St(c8St(big(), stIir(2, 3)), stCompact(4, 4)), stSkip(2))
		}},
		{"(numbers(4).map+big.map).map", func(j int) *C8Pipe {
			l := c8St(c8Src("numbers", 4), stMap(5, 1, 0))
			return c8St(&C8Pipe{Kind: "app", P: l, Q: big()}, stMap(2, 1, 1))
		}},
		{"(list.map.top+big.map.skip)", func(j int) *C8Pipe {
			l := c8St(c8St(c8Src("list", 6), stMap(5, 1, 100)), stTop(3))
			return &C8Pipe{Kind: "app", P: l, Q: c8St(big(), stSkip(2))}
		}},
		{"map.top.map.combine", func(j int) *C8Pipe {
			return c8St(c8St(c8St(big(), stTop(j+3)), stMap(2, 1, 0)), stCombine(3))
		}},
		// ---- binary stages whose SECOND operand is an instrumented lazy pipeline (index 16 and up)
		{"list.map.cross(long.map)", func(j int) *C8Pipe {
			return c8Cross(c8St(c8Src("list", 4), stMap(5, 1, 0)), long(6))
		}},
		{"big.map.cross(numbers(3).map)", func(j int) *C8Pipe {
			return c8Cross(big(), c8St(c8Src("numbers", 3), stMap(6, 1, 0)))
		}},
		{"numbers(5).map.cross(long.map.accept).map", func(j int) *C8Pipe {
			return c8St(c8Cross(c8St(c8Src("numbers", 5), stMap(5, 1, 0)), c8St(long(6), stAccept(4, C8Pr1{Kind: "mod", M: 3, R: 1}))), stMap(2, 1, 1))
		}},
		{"list.map.cross(long.map.skip.combine)", func(j int) *C8Pipe {
			return c8Cross(c8St(c8Src("list", 3), stMap(5, 2, 0)), c8St(c8St(long(6), stSkip(2)), stCombine(4)))
		}},
		{"big.map.accept.cross(list.map.top)", func(j int) *C8Pipe {
			return c8Cross(c8St(big(), stAccept(2, C8Pr1{Kind: "mod", M: 2, R: 1})), c8St(c8St(c8Src("list", 5), stMap(6, 1, 0)), stTop(2)))
		}},
		{"(numbers(2).map+long.map).cross(long.map)", func(j int) *C8Pipe {
			l := &C8Pipe{Kind: "app", P: c8St(c8Src("numbers", 2), stMap(5, 1, 0)), Q: long(1)}
			return c8Cross(l, long(6))
		}},
		{"big.map.merge(big.map)", func(j int) *C8Pipe {
			return c8Merge(c8St(c8Src("big", 0), stMap(1, 2, 0)), c8St(c8Src("big", 0), stMap(6, 3, 1)))
		}},
		{"list.map.merge(long.map.accept)", func(j int) *C8Pipe {
			return c8Merge(c8St(c8Src("numbers", 6), stMap(5, 7, 0)), c8St(long(6), stAccept(4, C8Pr1{Kind: "mod", M: 2, R: 0})))
		}},
	}
}

// a long (not endless) instrumented list: a second operand that must not be evaluated beyond what is asked for
func long(id int) *C8Pipe { return c8St(c8Src("numbers", 5000), stMap(id, 1, 0)) }

func c8Cross(p, q *C8Pipe) *C8Pipe {
	return &C8Pipe{Kind: "cross", ID: 7, F2: &C8Fn2{P: 100, Q: 1}, P: p, Q: q}
}
func c8Merge(p, q *C8Pipe) *C8Pipe {
	return &C8Pipe{Kind: "merge", ID: 7, P2: &C8Pr2{D: 0}, P: p, Q: q}
}

// the items the lazy part would produce from a generous prefix, without failures (to aim the consumer)
func c8Items(p *C8Pipe, n int) []int {
	return p.eager(n, c8Calls{}).items
}

// consumers aimed at output position j
func c8Consumers(p *C8Pipe, j int) []*C8Term {
	items := c8Items(p, j*4+30)
	var ts []*C8Term
	if j < len(items) {
		v := items[j]
		ts = append(ts,
			&C8Term{Kind: "present", ID: 20, P1: &C8Pr1{Kind: "eq", T: v}},
			&C8Term{Kind: "indexWhere", ID: 20, P1: &C8Pr1{Kind: "eq", T: v}},
			&C8Term{Kind: "contains", X: v},
			&C8Term{Kind: "present", ID: 20, P1: &C8Pr1{Kind: "gt", T: v - 1}})
		// the list-needle form of ~ : its last element found at position j, another one earlier
		needle := []int{v}
		if j > 0 {
			needle = []int{v, items[j/2]}
		}
		ts = append(ts, &C8Term{Kind: "containsAll", XS: needle})
	}
	return ts
}

// lazy part closed by top(j) for the consumers that need the end of the list
func c8Closed(p *C8Pipe, j int) (*C8Pipe, []*C8Term) {
	q := c8St(p, stTop(j))
	return q, []*C8Term{{Kind: "size"}, {Kind: "reduce", ID: 20, F2: &C8Fn2{P: 1, Q: 1}}, {Kind: "single"}, {Kind: "first"}}
}

func clonePipe(p *C8Pipe) *C8Pipe {
	bs, _ := json.Marshal(p)
	var q C8Pipe
	json.Unmarshal(bs, &q)
	return &q
}
func cloneTerm(t *C8Term) *C8Term {
	bs, _ := json.Marshal(t)
	var q C8Term
	json.Unmarshal(bs, &q)
	return &q
}

// closures of a case by id: where a failure can be placed
func (c *C8Case) setFail(id int, v int, sel bool) bool {
	okk := false
	c.Pipe.walk(func(p *C8Pipe) {
		if okk {
			return
		}
		if (p.Kind == "cross" || p.Kind == "merge") && p.ID == id {
			if p.F2 != nil {
				p.F2.Fail, p.F2.Sel = ip(v), sel
			} else {
				p.P2.Fail, p.P2.Sel = ip(v), sel
			}
			okk = true
			return
		}
		if p.Kind != "stage" {
			return
		}
		s := p.S
		switch {
		case s.Kind == "iir" && s.ID0 == id:
			s.F1.Fail = ip(v)
			okk = true
		case s.ID == id && s.F1 != nil && s.Kind != "iir":
			s.F1.Fail = ip(v)
			okk = true
		case s.ID == id && s.P1 != nil:
			s.P1.Fail = ip(v)
			okk = true
		case s.ID == id && s.F2 != nil:
			s.F2.Fail, s.F2.Sel = ip(v), sel
			okk = true
		case s.ID == id && s.P2 != nil:
			s.P2.Fail, s.P2.Sel = ip(v), sel
			okk = true
		}
	})
	if !okk && c.Term.ID == id {
		if c.Term.P1 != nil {
			c.Term.P1.Fail = ip(v)
			okk = true
		} else if c.Term.F2 != nil {
			c.Term.F2.Fail, c.Term.F2.Sel = ip(v), sel
			okk = true
		}
	}
	return okk
}

// variants of a failure-free case with a failing element at offsets -3..+3 around the last call of
// closure `id` in the failure-free run (the decisive call of that stage), looking `ahead` elements further
func c8FailVariants(base *C8Case, id int, sel bool) []*C8Case {
	need, _, _, ok := base.oracle()
	if !ok {
		return nil
	}
	// argument values of the closure on a longer prefix than needed
	calls := c8Calls{}
	pl := base.Pipe.eager(need+6, calls)
	base.Term.decideAll(pl, calls)
	callsAtNeed := c8Calls{}
	base.Term.decide(base.Pipe.eager(need, callsAtNeed), callsAtNeed)
	k := len(callsAtNeed[id]) - 1 // index of the decisive call of this closure
	var out []*C8Case
	for off := -3; off <= 3; off++ {
		i := k + off
		if i < 0 || i >= len(calls[id]) {
			continue
		}
		args := calls[id][i]
		v := args[0]
		if sel && len(args) > 1 {
			v = args[1]
		}
		c := &C8Case{Pipe: clonePipe(base.Pipe), Term: cloneTerm(base.Term), Note: fmt.Sprintf("a closure fails at its decisive call %+d", off)}
		if c.setFail(id, v, sel) {
			out = append(out, c)
		}
	}
	return out
}

// decideAll evaluates the consumer's closure on every item (to learn argument values behind the decisive one)
func (t *C8Term) decideAll(pl c8Partial, calls c8Calls) {
	switch t.Kind {
	case "present", "indexWhere":
		for _, x := range pl.items {
			t.P1.apply(t.ID, x, calls)
		}
	case "reduce":
		if len(pl.items) > 0 {
			acc := pl.items[0]
			for _, x := range pl.items[1:] {
				acc, _ = t.F2.apply(t.ID, acc, x, calls)
			}
		}
	}
}

func (c *C8Case) allIds() []int {
	var ids []int
	c.Pipe.ids(&ids)
	if c.Term.P1 != nil || c.Term.F2 != nil {
		ids = append(ids, c.Term.ID)
	}
	if c.Multi != nil && (c.Multi.P1 != nil || c.Multi.F2 != nil) {
		ids = append(ids, c.Multi.ID)
	}
	return ids
}

var c8StoredKinds = []string{"arg", "argreverse", "argeval", "argappend", "litargs"}

func seqInts(n int) []int {
	l := make([]int, n)
	for i := range l {
		l[i] = i
	}
	return l
}

// c8Stored replaces the source of the main chain by a list with STORED items (0..n-1, so that it agrees with
// numbers(n) on what the stages see) and, if pure, makes the map closures pure functions
func c8Stored(p *C8Pipe, kind string, n int, pure bool) *C8Pipe {
	q := clonePipe(p)
	leaf := q
	for leaf.P != nil {
		leaf = leaf.P
	}
	if kind == "litargs" && n > 8 {
		n = 8
	}
	*leaf = C8Pipe{Kind: "list", L: seqInts(n), Stored: kind}
	if pure {
		q.walk(func(x *C8Pipe) {
			if x.Kind == "stage" && x.S.Kind == "map" {
				x.S.F1.Pure = true
			}
		})
	}
	return q
}

// c8Wrap puts the pass-through construct ctx around the k-th sub-pipeline (counted over all prefixes and operands)
func c8Wrap(p *C8Pipe, k int, ctx int) *C8Pipe {
	q := clonePipe(p)
	var nodes []*C8Pipe
	q.walk(func(x *C8Pipe) {
		if x.Kind != "var" {
			nodes = append(nodes, x)
		}
	})
	n := nodes[k%len(nodes)]
	inner := *n
	*n = C8Pipe{Kind: "through", Ctx: ctx, P: &inner}
	return q
}

// random pipelines
func (r *Rng) c8Random() *C8Case {
	var p *C8Pipe
	switch r.Pick(10) {
	case 0:
		p = c8Src("numbers", r.Pick(12))
	case 1:
		p = c8Src("list", r.Pick(8))
	default:
		p = c8Src("big", 0)
	}
	id := 1
	p = c8St(p, stMap(id, 1, 0))
	ns := r.Pick(4)
	for i := 0; i < ns; i++ {
		id++
		switch r.Pick(9) {
		case 0:
			p = c8St(p, stMap(id, 1+r.Pick(3), r.Pick(4)))
		case 1:
			p = c8St(p, stAccept(id, r.c8Pred()))
		case 2:
			p = c8St(p, stCombine(id))
		case 3:
			p = c8St(p, stNumber(id))
		case 4:
			id++
			p = c8St(p, stIir(id-1, id))
		case 5:
			p = c8St(p, stCompact(id, 1+r.Pick(4)))
		case 6:
			p = c8St(p, stSkip(r.Pick(9)-1))
		case 7:
			p = c8St(p, stTop(r.Pick(30)-1))
		case 8:
			if r.Chance(0.5) {
				// cross / merge with an instrumented lazy pipeline as the other operand
				id += 3
				var q *C8Pipe
				switch r.Pick(3) {
				case 0:
					q = c8St(c8Src("numbers", 5000), stMap(id-2, 1, r.Pick(3)))
				case 1:
					q = c8St(c8St(c8Src("numbers", 1+r.Pick(6)), stMap(id-2, 1, 0)), stTop(r.Pick(4)))
				default:
					q = c8St(c8St(c8Src("big", 0), stMap(id-2, 1, 0)), stAccept(id-1, r.c8Pred()))
				}
				kind := "cross"
				if r.Chance(0.3) {
					kind = "merge"
				}
				a, b := p, q
				if r.Chance(0.3) {
					a, b = q, p
				}
				if kind == "cross" {
					p = &C8Pipe{Kind: "cross", ID: id, F2: &C8Fn2{P: 1 + r.Pick(3), Q: 1}, P: a, Q: b}
				} else {
					p = &C8Pipe{Kind: "merge", ID: id, P2: &C8Pr2{D: 0}, P: a, Q: b}
				}
				break
			}
			id++
			l := c8St(c8Src([]string{"numbers", "list"}[r.Pick(2)], r.Pick(6)), stMap(id, 1, 50))
			if r.Chance(0.5) {
				p = &C8Pipe{Kind: "app", P: l, Q: p}
			} else if r.Chance(0.5) {
				p = &C8Pipe{Kind: "app", P: c8St(p, stTop(r.Pick(6))), Q: l}
			} else {
				p = &C8Pipe{Kind: "app", P: p, Q: l}
			}
		}
	}
	var t *C8Term
	switch r.Pick(9) {
	case 0:
		t = &C8Term{Kind: "first"}
	case 1:
		t = &C8Term{Kind: "single"}
	case 2:
		t = &C8Term{Kind: "size"}
	case 3, 4:
		pr := r.c8Pred()
		t = &C8Term{Kind: "present", ID: 20, P1: &pr}
	case 5:
		pr := r.c8Pred()
		t = &C8Term{Kind: "indexWhere", ID: 20, P1: &pr}
	case 6:
		t = &C8Term{Kind: "contains", X: r.Pick(60)}
	case 7:
		t = &C8Term{Kind: "reduce", ID: 20, F2: &C8Fn2{P: 1, Q: 1}}
	default:
		t = &C8Term{Kind: "none"}
	}
	for r.Chance(0.3) {
		p = c8Wrap(p, r.Pick(12), 1+r.Pick(10))
	}
	c := &C8Case{Pipe: p, Term: t}
	if r.Chance(0.5) {
		ids := c.allIds()
		if len(ids) > 0 {
			c.setFail(ids[r.Pick(len(ids))], r.Pick(40), r.Chance(0.5))
			c.Note = "random failing value"
		}
	}
	return c
}

func (r *Rng) c8Pred() C8Pr1 {
	switch r.Pick(3) {
	case 0:
		return C8Pr1{Kind: "gt", T: r.Pick(45)}
	case 1:
		return C8Pr1{Kind: "eq", T: r.Pick(45)}
	}
	m := 2 + r.Pick(4)
	return C8Pr1{Kind: "mod", M: m, R: r.Pick(m)}
}

// known-bad / historically interesting inputs first (DESIGN.md C08 "probed" list and the read-ahead corners)
func c8Corpus() []*C8Case {
	big := func() *C8Pipe { return c8St(c8Src("big", 0), stMap(1, 1, 0)) }
	failAt := func(p *C8Pipe, v int) *C8Pipe { p.S.F1.Fail = ip(v); return p }
	return []*C8Case{
		{Pipe: big(), Term: &C8Term{Kind: "first"}},
		{Pipe: c8St(big(), stTop(3)), Term: &C8Term{Kind: "size"}},
		{Pipe: big(), Term: &C8Term{Kind: "present", ID: 2, P1: &C8Pr1{Kind: "eq", T: 5}}},
		{Pipe: big(), Term: &C8Term{Kind: "indexWhere", ID: 2, P1: &C8Pr1{Kind: "eq", T: 5}}},
		{Pipe: big(), Term: &C8Term{Kind: "contains", X: 5}},
		{Pipe: c8St(big(), stAccept(2, C8Pr1{Kind: "gt", T: 5})), Term: &C8Term{Kind: "first"}},
		{Pipe: c8St(big(), stCombine(2)), Term: &C8Term{Kind: "first"}},
		{Pipe: c8St(big(), stSkip(5)), Term: &C8Term{Kind: "first"}},
		// an error on the read-ahead element of top, and one element behind it, must not surface
		{Pipe: c8St(failAt(big(), 1), stTop(1)), Term: &C8Term{Kind: "size"}, Note: "failure on the read-ahead element of top(1)"},
		{Pipe: c8St(failAt(big(), 2), stTop(1)), Term: &C8Term{Kind: "single"}, Note: "failure behind the read-ahead element of top(1)"},
		{Pipe: c8St(failAt(big(), 0), stTop(0)), Term: &C8Term{Kind: "size"}, Note: "top(0): failure on the only element pulled"},
		{Pipe: c8St(failAt(big(), 3), stSkip(5)), Term: &C8Term{Kind: "first"}, Note: "failure inside the skipped region surfaces (it is in front of the decisive element)"},
		{Pipe: failAt(big(), 6), Term: &C8Term{Kind: "present", ID: 2, P1: &C8Pr1{Kind: "eq", T: 5}}, Note: "failure right behind the decisive element"},
		{Pipe: failAt(big(), 1), Term: &C8Term{Kind: "first"}, Note: "failure right behind the decisive element"},
		// built only: nothing may be evaluated
		{Pipe: c8St(c8St(c8St(big(), stAccept(2, C8Pr1{Kind: "gt", T: 1})), stSkip(1)), stTop(4)), Term: &C8Term{Kind: "none"}},
		{Pipe: &C8Pipe{Kind: "app", P: big(), Q: c8St(c8Src("list", 3), stMap(2, 1, 0))}, Term: &C8Term{Kind: "none"}},
		// boundaries of the library: top/skip with negative and zero counts, empty sources
		{Pipe: c8St(c8St(c8Src("numbers", 5), stMap(1, 1, 0)), stTop(-1)), Term: &C8Term{Kind: "size"}},
		{Pipe: c8St(c8St(c8Src("numbers", 5), stMap(1, 1, 0)), stSkip(-1)), Term: &C8Term{Kind: "size"}},
		{Pipe: c8St(c8Src("numbers", 0), stMap(1, 1, 0)), Term: &C8Term{Kind: "first"}},
		{Pipe: c8St(c8Src("list", 0), stMap(1, 1, 0)), Term: &C8Term{Kind: "single"}},
		{Pipe: c8Src("list", 3), Term: &C8Term{Kind: "first"}},
		{Pipe: c8Src("list", 3), Term: &C8Term{Kind: "single"}},
		// cross: column j of the second list is evaluated only when a row reaches column j
		// (a cross that stores its second list first evaluates all 5000 elements here)
		{Pipe: c8Cross(c8St(c8Src("list", 3), stMap(5, 1, 0)), long(6)), Term: &C8Term{Kind: "first"}},
		{Pipe: c8St(c8Cross(c8St(c8Src("list", 3), stMap(5, 1, 0)), long(6)), stTop(3)), Term: &C8Term{Kind: "size"}},
		{Pipe: c8Cross(c8St(c8Src("list", 3), stMap(5, 1, 0)), long(6)), Term: &C8Term{Kind: "present", ID: 20, P1: &C8Pr1{Kind: "eq", T: 304}}},
		{Pipe: c8Cross(c8St(c8Src("list", 3), stMap(5, 1, 0)), long(6)), Term: &C8Term{Kind: "contains", X: 302}},
		{Pipe: c8Cross(c8St(c8Src("list", 3), stMap(5, 1, 0)), long(6)), Term: &C8Term{Kind: "none"}},
		{Pipe: c8Cross(big(), c8St(failAt(c8St(c8Src("numbers", 50), stMap(6, 1, 0)), 4), stTop(2))), Term: &C8Term{Kind: "indexWhere", ID: 20, P1: &C8Pr1{Kind: "eq", T: 301}},
			Note: "cross: failure in the second list behind the columns the rows reach"},
		{Pipe: c8Cross(c8St(c8Src("numbers", 3), stMap(5, 1, 0)), c8St(c8Src("numbers", 2), stMap(6, 1, 0))), Term: &C8Term{Kind: "size"}},
		{Pipe: c8Cross(c8St(c8Src("numbers", 3), stMap(5, 1, 0)), c8St(c8Src("numbers", 0), stMap(6, 1, 0))), Term: &C8Term{Kind: "first"}},
		{Pipe: c8Cross(c8St(c8Src("numbers", 0), stMap(5, 1, 0)), long(6)), Term: &C8Term{Kind: "size"}},
		// stored items (host list argument, list literal of arguments, eval/reverse/append results) under a PURE
		// map closure: still lazy - no closure call for a list that is only built, nothing behind the decisive element
		{Pipe: c8Stored(failAt(big(), 7), "arg", 60, true), Term: &C8Term{Kind: "first"}, Note: "pure closure, stored items: failure behind the decisive element"},
		{Pipe: c8St(c8Stored(failAt(big(), 7), "arg", 60, true), stTop(3)), Term: &C8Term{Kind: "size"}, Note: "pure closure, stored items: failure behind the decisive element"},
		{Pipe: c8Stored(failAt(big(), 5), "arg", 60, true), Term: &C8Term{Kind: "none"}, Note: "pure closure, stored items: built only"},
		{Pipe: c8Stored(big(), "arg", 2000, true), Term: &C8Term{Kind: "first"}},
		{Pipe: c8Stored(big(), "arg", 2000, true), Term: &C8Term{Kind: "none"}},
		{Pipe: c8Stored(failAt(big(), 6), "litargs", 8, true), Term: &C8Term{Kind: "present", ID: 20, P1: &C8Pr1{Kind: "eq", T: 2}}, Note: "pure closure, stored items: failure behind the decisive element"},
		{Pipe: c8Stored(failAt(big(), 9), "argreverse", 60, true), Term: &C8Term{Kind: "indexWhere", ID: 20, P1: &C8Pr1{Kind: "eq", T: 3}}, Note: "pure closure, stored items: failure behind the decisive element"},
		{Pipe: c8Stored(failAt(big(), 9), "argeval", 60, true), Term: &C8Term{Kind: "contains", X: 4}, Note: "pure closure, stored items: failure behind the decisive element"},
		{Pipe: c8Stored(failAt(big(), 9), "argappend", 60, true), Term: &C8Term{Kind: "containsAll", XS: []int{4, 1}}, Note: "pure closure, stored items: failure behind the decisive element"},
		{Pipe: c8Stored(failAt(big(), 2), "arg", 60, true), Term: &C8Term{Kind: "first"}, Note: "pure closure, stored items: failure behind the decisive element"},
		{Pipe: c8Stored(failAt(big(), 0), "arg", 60, true), Term: &C8Term{Kind: "first"}, Note: "pure closure, stored items: failure AT the decisive element"},
		// an empty list needle in every spelling: nothing of the haystack is needed
		{Pipe: big(), Term: &C8Term{Kind: "containsAll", XS: []int{}}},
		{Pipe: big(), Term: &C8Term{Kind: "containsAll", XS: []int{}, NF: 1}},
		{Pipe: big(), Term: &C8Term{Kind: "containsAll", XS: []int{}, NF: 2}},
		{Pipe: failAt(big(), 3), Term: &C8Term{Kind: "containsAll", XS: []int{}, NF: 3}, Note: "empty needle: a failure at element 3 must stay invisible"},
		{Pipe: failAt(big(), 2), Term: &C8Term{Kind: "containsAll", XS: []int{}, NF: 4}, Note: "empty needle: a failure at element 2 must stay invisible"},
		{Pipe: c8St(c8St(c8Src("numbers", 20000), stMap(1, 1, 0)), stAccept(2, C8Pr1{Kind: "lt", T: 4})), Term: &C8Term{Kind: "containsAll", XS: []int{}, NF: 5}},
		{Pipe: c8St(c8St(c8Src("numbers", 20000), stMap(1, 1, 0)), stAccept(2, C8Pr1{Kind: "lt", T: 4})), Term: &C8Term{Kind: "containsAll", XS: []int{}, NF: 1}},
		// list needle ~ behind a stage that lets nothing more through after the decisive element
		// (a containsAllItems that notices "all found" only with the next element evaluates the whole source)
		{Pipe: c8St(c8St(c8Src("numbers", 20000), stMap(1, 1, 0)), stAccept(2, C8Pr1{Kind: "lt", T: 4})), Term: &C8Term{Kind: "containsAll", XS: []int{3, 1}}},
		{Pipe: c8St(c8St(c8Src("numbers", 20000), stMap(1, 1, 0)), stAccept(2, C8Pr1{Kind: "lt", T: 6})), Term: &C8Term{Kind: "containsAll", XS: []int{0, 5}}},
		{Pipe: c8St(c8St(c8Src("numbers", 20000), stMap(1, 0, 7)), stCompact(2, 3)), Term: &C8Term{Kind: "containsAll", XS: []int{7}}},
		{Pipe: c8St(c8St(c8St(c8Src("numbers", 20000), stMap(1, 1, 0)), stAccept(2, C8Pr1{Kind: "lt", T: 9})), stCompact(3, 4)), Term: &C8Term{Kind: "containsAll", XS: []int{8, 0, 4}}},
		{Pipe: c8St(c8St(c8Src("numbers", 20000), stMap(1, 1, 0)), stAccept(2, C8Pr1{Kind: "lt", T: 4})), Term: &C8Term{Kind: "containsAll", XS: []int{3, 7}}, Note: "needle not contained: the whole list is needed"},
		{Pipe: big(), Term: &C8Term{Kind: "containsAll", XS: []int{5, 2}}},
		// a try expression whose value is a lazy list must not evaluate it (and a failing element behind the
		// decisive one must not switch to the catch value)
		{Pipe: c8Wrap(big(), 0, 1), Term: &C8Term{Kind: "first"}},
		{Pipe: c8Wrap(big(), 0, 1), Term: &C8Term{Kind: "none"}},
		{Pipe: c8Wrap(c8St(c8Src("numbers", 1000), stMap(1, 1, 0)), 0, 1), Term: &C8Term{Kind: "present", ID: 20, P1: &C8Pr1{Kind: "eq", T: 5}}},
		{Pipe: c8Wrap(failAt(c8St(c8Src("numbers", 1000), stMap(1, 1, 0)), 999), 0, 1), Term: &C8Term{Kind: "first"}, Note: "try: failure far behind the decisive element"},
		{Pipe: c8St(c8Wrap(failAt(big(), 7), 0, 1), stTop(3)), Term: &C8Term{Kind: "size"}, Note: "try: failure behind the decisive element"},
		// merge: both operands lazy, stopped early
		{Pipe: c8Merge(c8St(c8Src("big", 0), stMap(1, 2, 0)), c8St(c8Src("big", 0), stMap(6, 3, 1))), Term: &C8Term{Kind: "first"}},
		{Pipe: c8St(c8Merge(c8St(c8Src("big", 0), stMap(1, 2, 0)), long(6)), stTop(5)), Term: &C8Term{Kind: "size"}},
		{Pipe: c8Merge(c8St(c8Src("numbers", 3), stMap(5, 2, 0)), long(6)), Term: &C8Term{Kind: "present", ID: 20, P1: &C8Pr1{Kind: "eq", T: 9}}},
	}
}

func cmdC08(seed int64, tier, outDir string) {
	sum := NewSummary("C08", seed, tier)
	sum.Rule = "pipelines source (numbers(10^11), numbers(n), list literal, list+list) -> 1..5 lazy stages (map accept combine number iir compact skip top + cross merge; the other operand of + / cross / merge is an instrumented lazy pipeline of its own, demand counted on both operands) -> consumer (first single size present indexWhere ~ reduce, or none), every closure starting with an impure tick host call; decisive output position swept 0..40 per shape, a failing element placed at offsets -3..+3 around the decisive call of each closure; non-trivial = at least 2 lazy stages and a decisive source prefix >= 1; distinct by (consumer, stage chain shape, decisive prefix length)"
	cw := NewCaseWriter(outDir, "From P2 Require Import Base.Prelude Lib.Stream Run.C08Run.", "c08_case", "c08_id", "c08_im", "c08_is", 320)
	cw.prelude = "Local Open Scope Z_scope.\n"
	run := &c8Run{sum: sum, cw: cw}
	finish := func() {
		run.evaluate(outDir)
		cw.Flush()
		sum.CaseFiles = cw.files
		sum.Extra["max_wall_us_of_one_evaluation"] = run.maxUs
		sum.Extra["num_cpu"] = runtime.NumCPU()
		sort.SliceStable(sum.GoViolations, func(i, j int) bool {
			return len(fmt.Sprint(sum.GoViolations[i].Human["expression"])) < len(fmt.Sprint(sum.GoViolations[j].Human["expression"]))
		})
		sum.Write(outDir)
	}
	if optReplay != "" {
		var c C8Case
		if err := json.Unmarshal(loadReplayCase(), &c); err != nil || c.Pipe == nil || c.Term == nil {
			fatal("replay case: %v", err)
		}
		run.run(&c)
		finish()
		return
	}
	for _, c := range c8Corpus() {
		run.run(c)
	}
	// systematic sweep: shape x decisive position x failure offset
	jmax, jstep := 40, 1
	failEvery := 16 // failure variants for every sixteenth base case in the quick tier, all in thorough
	if tier == "thorough" {
		failEvery = 1
	}
	for ti, tp := range c8Templates() {
		for j := 0; j <= jmax; j += jstep {
			if tier != "thorough" && ti >= 6 && ti < 16 && (j+ti)%3 != 0 {
				continue // quick tier: every position for the six basic shapes, every third one for the others
			}
			if tier != "thorough" && ti >= 16 && ti < 22 && j%4 != ti%4 {
				continue // ... every fourth one for cross
			}
			if tier != "thorough" && ti >= 22 && j%8 != ti%8 {
				continue // ... and every eighth one for merge (each merge case needs a process of its own)
			}
			lazy := tp.build(j)
			var bases []*C8Case
			ts := c8Consumers(lazy, j)
			if tier != "thorough" && len(ts) > 0 {
				// rotate the consumers in the quick tier
				ts = []*C8Term{ts[(j+ti)%len(ts)], ts[(j+ti+1)%len(ts)]}
			}
			for _, t := range ts {
				bases = append(bases, &C8Case{Pipe: clonePipe(lazy), Term: t})
			}
			closed, cts := c8Closed(lazy, j)
			if tier != "thorough" {
				cts = []*C8Term{cts[(j+ti)%len(cts)]}
			}
			for _, t := range cts {
				bases = append(bases, &C8Case{Pipe: clonePipe(closed), Term: t})
			}
			if j == 0 {
				bases = append(bases, &C8Case{Pipe: clonePipe(lazy), Term: &C8Term{Kind: "first"}}, &C8Case{Pipe: clonePipe(lazy), Term: &C8Term{Kind: "none"}})
			}
			for bi, b := range bases {
				run.run(b)
				if (j+bi)%failEvery != 0 {
					continue
				}
				ids := b.allIds()
				if len(ids) == 0 {
					continue
				}
				// one closure per base case in the quick tier (rotating), all closures in thorough
				pick := []int{ids[(j+bi+ti)%len(ids)]}
				if tier == "thorough" {
					pick = ids
				}
				for _, id := range pick {
					for _, v := range c8FailVariants(b, id, (j+bi)%2 == 1) {
						run.run(v)
					}
				}
			}
		}
	}
	// stored-item sources x pure / impure map closures, every shape
	for ti, tp := range c8Templates() {
		for ki, kind := range c8StoredKinds {
			if tier != "thorough" && ki != ti%5 && ki != (ti+2)%5 {
				continue
			}
			for _, pure := range []bool{true, false} {
				j := (ti*5 + ki*7) % 24
				lazy := c8Stored(tp.build(j), kind, 60, pure)
				var t *C8Term
				pipe := lazy
				if ts := c8Consumers(lazy, j); len(ts) > 0 && (ti+ki)%3 != 0 {
					t = ts[(ti+ki)%len(ts)]
				} else {
					closed, cts := c8Closed(lazy, j%7)
					pipe, t = closed, cts[(ti+ki)%len(cts)]
				}
				b := &C8Case{Pipe: pipe, Term: cloneTerm(t)}
				run.run(b)
				if ki == ti%5 {
					run.run(&C8Case{Pipe: clonePipe(pipe), Term: &C8Term{Kind: "none"}})
				}
				if pure {
					for _, v := range c8FailVariants(b, 1, false) {
						if strings.HasSuffix(v.Note, "+1") || strings.HasSuffix(v.Note, "+3") || strings.HasSuffix(v.Note, "-1") || tier == "thorough" {
							run.run(v)
						}
					}
				}
			}
		}
	}
	// pass-through constructs: every construct around a prefix (or an operand) of every shape
	for ti, tp := range c8Templates() {
		for ctx := 1; ctx <= 10; ctx++ {
			if tier != "thorough" && tp.build(0).has("merge") && ctx%3 != ti%3 {
				continue
			}
			j := (ti*7 + ctx*3) % 41
			lazy := tp.build(j)
			var t *C8Term
			pipe := lazy
			if ts := c8Consumers(lazy, j); len(ts) > 0 && (ti+ctx)%3 != 0 {
				t = ts[(ti+ctx)%len(ts)]
			} else {
				closed, cts := c8Closed(lazy, j)
				pipe, t = closed, cts[(ti+ctx)%len(cts)]
			}
			poss := []int{(ti + ctx) % 6}
			if tier == "thorough" || ctx <= 2 {
				poss = []int{0, 1 + (ti+ctx)%5}
			}
			for _, pos := range poss {
				b := &C8Case{Pipe: c8Wrap(pipe, pos, ctx), Term: cloneTerm(t)}
				run.run(b)
				if (pos == 0 && ctx <= 2) || tier == "thorough" {
					// failing element around the decisive call of the closure next to the source
					ids := b.allIds()
					for _, v := range c8FailVariants(b, ids[len(ids)-1-(ti+ctx)%len(ids)], ctx%2 == 1) {
						if strings.HasSuffix(v.Note, "+1") || strings.HasSuffix(v.Note, "+3") || strings.HasSuffix(v.Note, "-1") || tier == "thorough" {
							run.run(v)
						}
					}
				}
			}
		}
	}
	// multiUse: two short-circuit consumers over one pass (decisive positions ja, jb), failing element behind the pass
	for ti, tp := range c8Templates() {
		if ti%2 == 1 && tier != "thorough" {
			continue
		}
		jaStep := 10
		if tier == "thorough" {
			jaStep = 2
		}
		for ja := 0; ja <= 40; ja += jaStep {
			for _, jb := range []int{ja / 2, ja + 3} {
				lazy := tp.build(ja)
				if lazy.has("merge") {
					continue // two kinds of read-ahead on top of each other: not judged
				}
				ta := c8Consumers(lazy, ja)
				tb := c8Consumers(lazy, jb)
				if len(ta) == 0 || len(tb) == 0 {
					continue
				}
				a, b := cloneTerm(ta[(ja+ti)%len(ta)]), cloneTerm(tb[(jb+ti+1)%len(tb)])
				a.ID, b.ID = 20, 21
				base := &C8Case{Pipe: clonePipe(lazy), Term: a, Multi: b}
				run.run(base)
				// the element behind the read-ahead of the pass fails: invisible
				na, _, _, oka := (&C8Case{Pipe: base.Pipe, Term: a}).oracle()
				nb, _, _, okb := (&C8Case{Pipe: base.Pipe, Term: b}).oracle()
				if oka && okb {
					m := na
					if nb > m {
						m = nb
					}
					for off := 1; off <= 3; off += 2 {
						v := &C8Case{Pipe: clonePipe(lazy), Term: cloneTerm(a), Multi: cloneTerm(b), Note: fmt.Sprintf("multiUse: source-side closure fails %d behind the pass", off)}
						if v.setFail(1, m+off, false) {
							run.run(v)
						}
					}
				}
			}
		}
	}
	// random pipelines
	n := 200
	if tier == "thorough" {
		n = 40000
	}
	n *= optBoost
	rng := NewRng(seed)
	for i := 0; i < n; i++ {
		run.run(rng.c8Random())
	}
	// last (a violation here is a timeout, which ends the run): the list needle on the 10^11 source behind a
	// stage that lets nothing more through
	bigSrc := func() *C8Pipe { return c8St(c8Src("big", 0), stMap(1, 1, 0)) }
	run.run(&C8Case{Pipe: c8St(bigSrc(), stAccept(2, C8Pr1{Kind: "lt", T: 4})), Term: &C8Term{Kind: "containsAll", XS: []int{3, 1}}})
	run.run(&C8Case{Pipe: c8St(c8St(bigSrc(), stAccept(2, C8Pr1{Kind: "lt", T: 9})), stCompact(3, 4)), Term: &C8Term{Kind: "containsAll", XS: []int{8, 0}}})
	run.run(&C8Case{Pipe: bigSrc(), Term: &C8Term{Kind: "containsAll", XS: []int{}, NF: 1}})
	run.run(&C8Case{Pipe: c8St(bigSrc(), stAccept(2, C8Pr1{Kind: "lt", T: 4})), Term: &C8Term{Kind: "containsAll", XS: []int{}, NF: 2}})
	finish()
}
