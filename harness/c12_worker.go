package main

// C12 worker: runs Generate / a pipeline repeatedly in a fresh process and counts the goroutines left behind.

import (
	"bufio"
	"encoding/json"
	"errors"
	"fmt"
	"io"
	"log"
	"os"
	"runtime"
	"strings"
	"sync"
	"syscall"
	"time"

	"github.com/hneemann/parser2/funcGen"
	"github.com/hneemann/parser2/value"
)

// C12Pipe is a pipeline with an early-stopping consumer or an error path
type C12Pipe struct {
	Name  string `json:"name"`
	Prog  string `json:"prog"`  // expression over the argument n
	Stage string `json:"stage"` // pmap paccept merge pmap+merge multiuse multiuse+pmap
	Stop  string `json:"stop"`  // early | error | complete
	N     int64  `json:"n"`
}

// C12Job is one unit of work of a worker (what a replay file carries)
type C12Job struct {
	ID    int      `json:"id"`
	Case  *C4Case  `json:"case,omitempty"`
	Pipe  *C12Pipe `json:"pipe,omitempty"`
	Calls int      `json:"calls"`
}

type C12Result struct {
	ID        int            `json:"id"`
	Received  int            `json:"received"`
	Total     int            `json:"total"`
	Calls     int            `json:"calls"`
	Left      int            `json:"left"`
	Kinds     map[string]int `json:"kinds,omitempty"`
	CpuMs     int            `json:"cpu_ms"`
	Switched  bool           `json:"switched"`
	NW        int            `json:"nw"`
	Outcome   string         `json:"outcome"`
	WaitedMs  int            `json:"waited_ms"`
	Panics    int            `json:"panics,omitempty"`
	RunMs     int            `json:"run_ms"`
	ProcCpuMs int            `json:"proc_cpu_ms,omitempty"`
}

// c12Goroutines counts the goroutines (other than the caller) whose stack has a frame of parser2 or iterator
func c12Goroutines() (int, map[string]int) {
	buf := make([]byte, 1<<20)
	for {
		n := runtime.Stack(buf, true)
		if n < len(buf) {
			buf = buf[:n]
			break
		}
		buf = make([]byte, 2*len(buf))
	}
	kinds := map[string]int{}
	cnt := 0
	for i, g := range strings.Split(string(buf), "\n\n") {
		if i == 0 {
			continue // the calling goroutine
		}
		if !strings.Contains(g, "github.com/hneemann/parser2") && !strings.Contains(g, "github.com/hneemann/iterator") {
			continue
		}
		cnt++
		k := "other"
		switch {
		case strings.Contains(g, "parser2.(*Tokenizer).run"):
			k = "tokenizer"
		case strings.Contains(g, "iterator.ToChan"):
			k = "tochan-producer"
		case strings.Contains(g, "iterator.initParallel[...].func1"):
			k = "worker"
		case strings.Contains(g, "iterator.initParallel[...].func2"):
			k = "worker-waiter"
		case strings.Contains(g, "iterator.initParallel[...].func3"):
			k = "collector"
		case strings.Contains(g, "runConsumer"):
			k = "multiuse-consumer"
		}
		kinds[k]++
	}
	return cnt, kinds
}

// c12Settle waits for the goroutines started by the calls to end: at once if none is left, otherwise a grace period
// of 100 ms, doubling up to 2 s while the count still falls
func c12Settle(base int, baseKinds map[string]int) (left int, kinds map[string]int, waited time.Duration) {
	defer func() {
		// report what was added since the base line
		d := map[string]int{}
		for k, n := range kinds {
			if n > baseKinds[k] {
				d[k] = n - baseKinds[k]
			}
		}
		kinds = d
	}()
	runtime.Gosched()
	t0 := time.Now()
	n, k := c12Goroutines()
	for _, d := range []time.Duration{time.Millisecond, 4 * time.Millisecond, 15 * time.Millisecond, 30 * time.Millisecond, 50 * time.Millisecond} {
		if n <= base {
			return 0, k, time.Since(t0)
		}
		time.Sleep(d)
		n, k = c12Goroutines()
	}
	wait := 100 * time.Millisecond
	for n > base && wait <= 2*time.Second {
		time.Sleep(wait)
		m, k2 := c12Goroutines()
		if m >= n {
			n, k = m, k2
			break
		}
		n, k = m, k2
		wait *= 2
	}
	if n < base {
		n = base
	}
	return n - base, k, time.Since(t0)
}

func c12Cpu() time.Duration {
	var ru syscall.Rusage
	syscall.Getrusage(syscall.RUSAGE_SELF, &ru)
	return time.Duration(ru.Utime.Nano() + ru.Stime.Nano())
}

// host functions of the pipelines: slow(x) sleeps (forces the parallel switch of map/accept), fail(x,k) fails on x=k
var c12Gids sync.Map

func c12Host() *value.FunctionGenerator {
	fg := value.New()
	fg.AddStaticFunction("slow", funcGen.Function[value.Value]{Func: func(st funcGen.Stack[value.Value], cs []value.Value) (value.Value, error) {
		c12Gids.Store(curGid(), true)
		time.Sleep(300 * time.Microsecond)
		return st.Get(0), nil
	}, Args: 1, IsPure: false})
	fg.AddStaticFunction("fail", funcGen.Function[value.Value]{Func: func(st funcGen.Stack[value.Value], cs []value.Value) (value.Value, error) {
		c12Gids.Store(curGid(), true)
		time.Sleep(300 * time.Microsecond)
		if i, ok := st.Get(0).(value.Int); ok {
			if k, ok := st.Get(1).(value.Int); ok && i == k {
				return nil, errors.New("forced")
			}
		}
		return st.Get(0), nil
	}, Args: 2, IsPure: false})
	// hpanic(x,k) panics with an error value for x>=k, hnil(x,k) with a runtime error (write to a nil map)
	fg.AddStaticFunction("hpanic", funcGen.Function[value.Value]{Func: func(st funcGen.Stack[value.Value], cs []value.Value) (value.Value, error) {
		c12Gids.Store(curGid(), true)
		if i, ok := st.Get(0).(value.Int); ok {
			if k, ok := st.Get(1).(value.Int); ok && i >= k {
				panic(errors.New("host function panics"))
			}
		}
		return st.Get(0), nil
	}, Args: 2, IsPure: false})
	fg.AddStaticFunction("hnil", funcGen.Function[value.Value]{Func: func(st funcGen.Stack[value.Value], cs []value.Value) (value.Value, error) {
		c12Gids.Store(curGid(), true)
		var m map[string]int
		if i, ok := st.Get(0).(value.Int); ok {
			if k, ok := st.Get(1).(value.Int); ok && i >= k {
				m["a"] = 1
			}
		}
		return st.Get(0), nil
	}, Args: 2, IsPure: false})
	return fg
}

func c12RunTok(job *C12Job) C12Result {
	c := job.Case
	g := c04GetGen(c.Gen)
	g.setup(c.Comments, c.Comfort)
	g.setOpt(!c.NoOpt)
	src := c04Text(c.Segs)
	res := C12Result{ID: job.ID, Calls: job.Calls, NW: runtime.NumCPU()}
	func() {
		defer func() { recover() }()
		res.Received, res.Total, _ = g.received(src)
	}()
	base, baseKinds := c12Goroutines()
	for i := 0; i < job.Calls; i++ {
		func() {
			defer func() {
				if r := recover(); r != nil {
					res.Panics++
				}
			}()
			if err := g.generate(src); err != nil {
				res.Outcome = "error"
			} else {
				res.Outcome = "function"
			}
		}()
	}
	var w time.Duration
	res.Left, res.Kinds, w = c12Settle(base, baseKinds)
	res.WaitedMs = int(w.Milliseconds())
	return res
}

var c12HostGen *value.FunctionGenerator

func c12RunPipe(job *C12Job) C12Result {
	p := job.Pipe
	res := C12Result{ID: job.ID, Calls: job.Calls, NW: runtime.NumCPU()}
	if c12HostGen == nil {
		c12HostGen = c12Host()
	}
	f, _, err := c12HostGen.Generate(p.Prog, "n")
	if err != nil {
		res.Outcome = "generate error: " + err.Error()
		return res
	}
	c12Gids = sync.Map{}
	base, baseKinds := c12Goroutines()
	tRun := time.Now()
	for i := 0; i < job.Calls; i++ {
		func() {
			defer func() {
				if r := recover(); r != nil {
					res.Panics++
				}
			}()
			v, err := f.Eval(value.Int(p.N))
			if err != nil {
				res.Outcome = "error: " + err.Error()
			} else {
				s, _ := v.ToString(funcGen.NewEmptyStack[value.Value]())
				res.Outcome = "value: " + s
			}
		}()
	}
	res.RunMs = int(time.Since(tRun).Milliseconds())
	if len(res.Outcome) > 120 {
		res.Outcome = res.Outcome[:120]
	}
	var w time.Duration
	res.Left, res.Kinds, w = c12Settle(base, baseKinds)
	res.WaitedMs = int(w.Milliseconds())
	gids := 0
	c12Gids.Range(func(k, v any) bool { gids++; return true })
	res.Switched = gids > 1
	if strings.Contains(p.Stage, "merge") {
		runtime.GC() // what the evaluations left for the collector is not background work of the library
		c0 := c12Cpu()
		time.Sleep(300 * time.Millisecond)
		res.CpuMs = int((c12Cpu() - c0).Milliseconds())
		if res.Left == 0 {
			// no goroutine with a frame of the library exists any more: whatever the process consumed in the window
			// (sweeping, other jobs' timers) is not background work of this evaluation
			res.ProcCpuMs, res.CpuMs = res.CpuMs, 0
		}
	}
	return res
}

func cmdC12Worker(seed int64, tier, outDir string) {
	bs, err := os.ReadFile(outDir)
	if err != nil {
		fatal("worker input: %v", err)
	}
	var jobs []C12Job
	if err := json.Unmarshal(bs, &jobs); err != nil {
		fatal("worker input: %v", err)
	}
	log.SetOutput(io.Discard)
	w := bufio.NewWriter(os.Stdout)
	for i := range jobs {
		done := make(chan C12Result, 1)
		go func() {
			if jobs[i].Pipe != nil {
				done <- c12RunPipe(&jobs[i])
			} else {
				done <- c12RunTok(&jobs[i])
			}
		}()
		var r C12Result
		hang := false
		select {
		case r = <-done:
		case <-time.After(120 * time.Second):
			r = C12Result{ID: jobs[i].ID, Outcome: "no result after 120 s", Calls: jobs[i].Calls}
			hang = true
		}
		line, _ := json.Marshal(r)
		w.Write(line)
		w.WriteByte('\n')
		w.Flush()
		if hang {
			os.Exit(3)
		}
		if r.Left > 0 && jobs[i].Pipe != nil && r.CpuMs > 200 {
			// producers of this job are still burning CPU: later jobs would be disturbed
			fmt.Fprintf(os.Stderr, "restart behind job %d\n", r.ID)
			os.Exit(4)
		}
	}
}
