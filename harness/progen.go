package main

// Program generator for the value expression language (properties C01/C02): surface trees (names
// only, no parser annotations), their renderer to program text, and their translation to a Coq
// `ast` term for the specification side (Sem/Ref.v).  Grammar facts: DESIGN.md Appendix B.

import (
	"fmt"
	"math"
	"strconv"
	"strings"
)

// ---------- surface tree ----------

// Node kinds: int float str ident let func if switch try unary op clo list index map member call method
//
//	let:    Name, Kids[value, body]
//	func:   Name, Ps, Kids[funcBody, body]            func Name(Ps) funcBody; body
//	if:     Kids[cond, then, else]
//	switch: Kids[value, c1, r1, ..., cn, rn, default]
//	try:    Kids[try, catch]
//	unary:  Name(op), Kids[a]          op: Name(op), Kids[a, b]
//	clo:    Ps, Kids[body]
//	list:   Kids            map: Keys, Kids          index: Kids[list, index]      member: Name(key), Kids[map]
//	call:   Kids[callee, args...]   (a static function call is a call whose callee is an unbound identifier)
//	method: Name, Kids[receiver, args...]   (also the call of a closure stored in a map field)
type Node struct {
	K     string   `json:"k"`
	Name  string   `json:"n,omitempty"`
	I     int64    `json:"i,omitempty"`
	FBits uint64   `json:"f,omitempty"`
	S     string   `json:"s,omitempty"`
	Ps    []string `json:"ps,omitempty"`
	Keys  []string `json:"keys,omitempty"`
	Kids  []*Node  `json:"kids,omitempty"`
	Tag   string   `json:"tag,omitempty"` // generator's intent for call sites: static closure mapfield method (evidence counters only)
}

func nInt(i int64) *Node {
	if i < 0 {
		return &Node{K: "unary", Name: "-", Kids: []*Node{{K: "int", I: -i}}}
	}
	return &Node{K: "int", I: i}
}
func nFloat(f float64) *Node {
	if f < 0 || (f == 0 && math.Signbit(f)) {
		return &Node{K: "unary", Name: "-", Kids: []*Node{{K: "float", FBits: math.Float64bits(-f)}}}
	}
	return &Node{K: "float", FBits: math.Float64bits(f)}
}
func nStr(s string) *Node               { return &Node{K: "str", S: s} }
func nId(n string) *Node                { return &Node{K: "ident", Name: n} }
func nLet(x string, v, b *Node) *Node   { return &Node{K: "let", Name: x, Kids: []*Node{v, b}} }
func nIf(c, t, e *Node) *Node           { return &Node{K: "if", Kids: []*Node{c, t, e}} }
func nTry(t, c *Node) *Node             { return &Node{K: "try", Kids: []*Node{t, c}} }
func nUn(op string, a *Node) *Node      { return &Node{K: "unary", Name: op, Kids: []*Node{a}} }
func nOp(op string, a, b *Node) *Node   { return &Node{K: "op", Name: op, Kids: []*Node{a, b}} }
func nClo(ps []string, b *Node) *Node   { return &Node{K: "clo", Ps: ps, Kids: []*Node{b}} }
func nList(items ...*Node) *Node        { return &Node{K: "list", Kids: items} }
func nIndex(l, i *Node) *Node           { return &Node{K: "index", Kids: []*Node{l, i}} }
func nMember(m *Node, key string) *Node { return &Node{K: "member", Name: key, Kids: []*Node{m}} }
func nMap(keys []string, vals []*Node) *Node {
	return &Node{K: "map", Keys: keys, Kids: vals}
}
func nFunc(f string, ps []string, fb, b *Node) *Node {
	return &Node{K: "func", Name: f, Ps: ps, Kids: []*Node{fb, b}}
}
func nCall(tag string, f *Node, args ...*Node) *Node {
	return &Node{K: "call", Tag: tag, Kids: append([]*Node{f}, args...)}
}
func nMethod(tag string, recv *Node, name string, args ...*Node) *Node {
	return &Node{K: "method", Tag: tag, Name: name, Kids: append([]*Node{recv}, args...)}
}
func nSwitch(v *Node, cases [][2]*Node, d *Node) *Node {
	kids := []*Node{v}
	for _, c := range cases {
		kids = append(kids, c[0], c[1])
	}
	return &Node{K: "switch", Kids: append(kids, d)}
}

func (n *Node) Count() int {
	c := 1
	for _, k := range n.Kids {
		c += k.Count()
	}
	return c
}

func (n *Node) Walk(f func(*Node)) {
	f(n)
	for _, k := range n.Kids {
		k.Walk(f)
	}
}

func isBinder(n *Node) bool { return n.K == "let" || n.K == "func" }

// ---------- renderer ----------

const (
	posLet     = iota // parseLet is called here: anything goes
	posExpr           // parseExpression: no let/func directly
	posOperand        // operand of an operator / target of a postfix: atoms and parenthesised expressions
)

func paren(s string) string { return "(" + s + ")" }

func fmtFloat(f float64) string {
	s := strconv.FormatFloat(f, 'f', -1, 64)
	if !strings.Contains(s, ".") {
		s += ".0"
	}
	return s
}

// Render gives the program text.  It panics on a tree the grammar cannot express (let/func outside a let position).
func (n *Node) Render(pos int) string {
	switch n.K {
	case "int":
		return strconv.FormatInt(n.I, 10)
	case "float":
		return fmtFloat(math.Float64frombits(n.FBits))
	case "str":
		return "\"" + n.S + "\""
	case "ident":
		return n.Name
	case "let":
		if pos != posLet {
			panic("let outside a let position")
		}
		return "let " + n.Name + " = " + n.Kids[0].Render(posExpr) + "; " + n.Kids[1].Render(posLet)
	case "func":
		if pos != posLet {
			panic("func outside a let position")
		}
		return "func " + n.Name + "(" + strings.Join(n.Ps, ", ") + ") " + n.Kids[0].Render(posLet) + "; " + n.Kids[1].Render(posLet)
	case "if":
		s := "if " + n.Kids[0].Render(posExpr) + " then " + n.Kids[1].Render(posLet) + " else " + n.Kids[2].Render(posLet)
		if pos != posLet {
			return paren(s)
		}
		return s
	case "switch":
		s := "switch " + n.Kids[0].Render(posExpr)
		for i := 1; i+1 < len(n.Kids); i += 2 {
			s += " case " + n.Kids[i].Render(posExpr) + " : " + n.Kids[i+1].Render(posLet)
		}
		s += " default " + n.Kids[len(n.Kids)-1].Render(posLet)
		if pos != posLet {
			return paren(s)
		}
		return s
	case "try":
		s := "try " + n.Kids[0].Render(posLet) + " catch " + n.Kids[1].Render(posLet)
		if pos != posLet {
			return paren(s)
		}
		return s
	case "unary":
		s := n.Name + " " + n.Kids[0].Render(posOperand)
		if pos == posOperand {
			return paren(s)
		}
		return s
	case "op":
		s := n.Kids[0].Render(posOperand) + " " + n.Name + " " + n.Kids[1].Render(posOperand)
		if pos == posOperand {
			return paren(s)
		}
		return s
	case "clo":
		var s string
		if len(n.Ps) == 1 {
			s = n.Ps[0] + " -> " + n.Kids[0].Render(posLet)
		} else {
			s = "(" + strings.Join(n.Ps, ", ") + ") -> " + n.Kids[0].Render(posLet)
		}
		if pos == posOperand {
			return paren(s)
		}
		return s
	case "list":
		var parts []string
		for _, k := range n.Kids {
			parts = append(parts, k.Render(posLet))
		}
		return "[" + strings.Join(parts, ", ") + "]"
	case "map":
		var parts []string
		for i, k := range n.Kids {
			parts = append(parts, n.Keys[i]+": "+k.Render(posLet))
		}
		return "{" + strings.Join(parts, ", ") + "}"
	case "index":
		return n.Kids[0].renderTarget() + "[" + n.Kids[1].Render(posExpr) + "]"
	case "member":
		return n.Kids[0].renderTarget() + "." + n.Name
	case "call":
		return n.Kids[0].renderTarget() + "(" + renderArgs(n.Kids[1:]) + ")"
	case "method":
		return n.Kids[0].renderTarget() + "." + n.Name + "(" + renderArgs(n.Kids[1:]) + ")"
	}
	panic("render: bad node kind " + n.K)
}

func renderArgs(args []*Node) string {
	var parts []string
	for _, a := range args {
		parts = append(parts, a.Render(posLet))
	}
	return strings.Join(parts, ", ")
}

// target of a postfix operation: identifiers, strings, list/map literals and postfix chains stay bare
func (n *Node) renderTarget() string {
	switch n.K {
	case "ident", "str", "list", "map", "index", "member", "call", "method":
		return n.Render(posOperand)
	case "int", "float":
		return paren(n.Render(posExpr))
	}
	return n.Render(posOperand)
}

// ---------- translation to a Coq ast term (specification side: no annotations) ----------

func coqZ(i int64) string {
	if i < 0 {
		return fmt.Sprintf("(%d)%%Z", i)
	}
	return fmt.Sprintf("%d%%Z", i)
}

// exact (mantissa, exponent) of a float64, mantissa odd or zero
func coqFloat(f float64) string {
	switch {
	case math.IsNaN(f):
		return "FNaN"
	case math.IsInf(f, 1):
		return "(FInf false)"
	case math.IsInf(f, -1):
		return "(FInf true)"
	case f == 0 && math.Signbit(f):
		return "FNegZero"
	case f == 0:
		return "(FFin 0%Z 0%Z)"
	}
	bits := math.Float64bits(f)
	exp := int64((bits >> 52) & 0x7ff)
	man := int64(bits & ((1 << 52) - 1))
	if exp == 0 {
		exp = -1074
	} else {
		man |= 1 << 52
		exp -= 1075
	}
	for man&1 == 0 {
		man >>= 1
		exp++
	}
	if bits>>63 != 0 {
		man = -man
	}
	return fmt.Sprintf("(FFin %s %s)", coqZ(man), coqZ(exp))
}

func coqNames(ns []string) string {
	parts := make([]string, len(ns))
	for i, n := range ns {
		parts[i] = CoqStr(n)
	}
	return CoqList(parts)
}

func contains(l []string, s string) bool {
	for _, x := range l {
		if x == s {
			return true
		}
	}
	return false
}

// CoqT: the tree as a Coq `ast` WITHOUT parser annotations.  bound = names of the enclosing binders
// (arguments, let, func, closure parameters): a call whose callee is an identifier that is not bound
// and names a static function is a static call; everything else is left to the reference semantics.
func (n *Node) CoqT(bound []string, statics map[string]bool) string {
	sub := func(k *Node) string { return k.CoqT(bound, statics) }
	list := func(ks []*Node) string {
		parts := make([]string, len(ks))
		for i, k := range ks {
			parts[i] = sub(k)
		}
		return CoqList(parts)
	}
	switch n.K {
	case "int":
		return "(AConst (VInt " + coqZ(n.I) + "))"
	case "float":
		return "(AConst (VFloat " + coqFloat(math.Float64frombits(n.FBits)) + "))"
	case "str":
		return "(AConst (VStr " + CoqStr(n.S) + "))"
	case "ident":
		return "(AIdent " + CoqStr(n.Name) + ")"
	case "let":
		inner := append(append([]string{}, bound...), n.Name)
		return "(ALet " + CoqStr(n.Name) + " " + sub(n.Kids[0]) + " " + n.Kids[1].CoqT(inner, statics) + ")"
	case "func":
		inner := append(append([]string{}, bound...), n.Name)
		fb := append(append([]string{}, inner...), n.Ps...)
		return "(ALet " + CoqStr(n.Name) + " (AClosure " + coqNames(n.Ps) + " " + n.Kids[0].CoqT(fb, statics) + " [] false " + CoqStr(n.Name) + ") " +
			n.Kids[1].CoqT(inner, statics) + ")"
	case "if":
		return "(AIf " + sub(n.Kids[0]) + " " + sub(n.Kids[1]) + " " + sub(n.Kids[2]) + ")"
	case "switch":
		var cs []string
		for i := 1; i+1 < len(n.Kids); i += 2 {
			cs = append(cs, "("+sub(n.Kids[i])+", "+sub(n.Kids[i+1])+")")
		}
		return "(ASwitch " + sub(n.Kids[0]) + " " + CoqList(cs) + " " + sub(n.Kids[len(n.Kids)-1]) + ")"
	case "try":
		return "(ATry " + sub(n.Kids[0]) + " " + sub(n.Kids[1]) + ")"
	case "unary":
		return "(AUnary " + CoqStr(n.Name) + " " + sub(n.Kids[0]) + ")"
	case "op":
		return "(AOp " + CoqStr(n.Name) + " " + sub(n.Kids[0]) + " " + sub(n.Kids[1]) + ")"
	case "clo":
		inner := append(append([]string{}, bound...), n.Ps...)
		return "(AClosure " + coqNames(n.Ps) + " " + n.Kids[0].CoqT(inner, statics) + " [] false [])"
	case "list":
		return "(AList " + list(n.Kids) + ")"
	case "map":
		var es []string
		for i, k := range n.Kids {
			es = append(es, "("+CoqStr(n.Keys[i])+", "+sub(k)+")")
		}
		return "(AMap " + CoqList(es) + ")"
	case "index":
		return "(AIndex " + sub(n.Kids[0]) + " " + sub(n.Kids[1]) + ")"
	case "member":
		return "(AMember " + sub(n.Kids[0]) + " " + CoqStr(n.Name) + ")"
	case "call":
		if f := n.Kids[0]; f.K == "ident" && !contains(bound, f.Name) && statics[f.Name] {
			return "(AStatic " + CoqStr(f.Name) + " " + list(n.Kids[1:]) + ")"
		}
		return "(ACall " + sub(n.Kids[0]) + " " + list(n.Kids[1:]) + ")"
	case "method":
		return "(AMethod " + sub(n.Kids[0]) + " " + CoqStr(n.Name) + " " + list(n.Kids[1:]) + ")"
	}
	panic("CoqT: bad node kind " + n.K)
}

// ---------- structural facts used for the evidence and the exclusions ----------

// redeclares: some let/func declares a name that is already a parameter or a local of the same
// function body on the path to it (the condition under which Generate reports a redeclaration;
// such programs are excluded by the property).  scope = names of the current function body.
func (n *Node) redeclares(scope []string) bool {
	switch n.K {
	case "let":
		if contains(scope, n.Name) || n.Kids[0].redeclares(scope) {
			return true
		}
		return n.Kids[1].redeclares(append(append([]string{}, scope...), n.Name))
	case "func":
		if contains(scope, n.Name) || n.Kids[0].redeclares(append([]string{}, n.Ps...)) {
			return true
		}
		return n.Kids[1].redeclares(append(append([]string{}, scope...), n.Name))
	case "clo":
		return n.Kids[0].redeclares(append([]string{}, n.Ps...))
	}
	for _, k := range n.Kids {
		if k.redeclares(scope) {
			return true
		}
	}
	return false
}

var lazyStages = map[string]bool{"map": true, "accept": true}

// hasLazyStage: a method call that creates a lazy list stage with a callback
func (n *Node) hasLazyStage() bool {
	found := false
	n.Walk(func(x *Node) {
		if x.K == "method" && lazyStages[x.Name] {
			found = true
		}
	})
	return found
}

// binderReachable: a let/func inside n that is not separated from n by a closure boundary;
// returns the kind of construct at the top of n that leads to it
func binderShape(n *Node) string {
	if isBinder(n) {
		return n.K
	}
	var reach func(x *Node) bool
	reach = func(x *Node) bool {
		if isBinder(x) {
			return true
		}
		if x.K == "clo" {
			return false
		}
		for _, k := range x.Kids {
			if reach(k) {
				return true
			}
		}
		return false
	}
	if reach(n) {
		switch n.K {
		case "if", "switch", "try":
			return n.K + "-with-binder"
		}
		return "nested-binder"
	}
	return ""
}

// shadowsCaptured: inside a closure body (not crossing into nested closures) a let declares a name
// that is not a parameter and that its own value expression reads (so the name is captured from
// outside and becomes a local afterwards)
func shadowsCaptured(body *Node, ps []string) bool {
	found := false
	var walk func(x *Node, locals []string)
	walk = func(x *Node, locals []string) {
		if x.K == "clo" {
			return
		}
		if x.K == "let" && !contains(locals, x.Name) {
			x.Kids[0].Walk(func(y *Node) {
				if y.K == "ident" && y.Name == x.Name {
					found = true
				}
			})
			walk(x.Kids[0], locals)
			walk(x.Kids[1], append(append([]string{}, locals...), x.Name))
			return
		}
		for _, k := range x.Kids {
			walk(k, locals)
		}
	}
	walk(body, ps)
	return found
}

func closureDepth(n *Node) int {
	d := 0
	for _, k := range n.Kids {
		if c := closureDepth(k); c > d {
			d = c
		}
	}
	if n.K == "clo" {
		return d + 1
	}
	if n.K == "func" {
		// the function body is one closure level
		if c := closureDepth(n.Kids[0]) + 1; c > d {
			d = c
		}
	}
	return d
}

func callKind(n *Node, statics map[string]bool) string {
	if n.Tag != "" {
		return n.Tag
	}
	if n.K == "method" {
		return "method"
	}
	if n.Kids[0].K == "ident" && statics[n.Kids[0].Name] {
		return "static"
	}
	return "closure"
}

// shapes: the boosted shapes present in a program (keys of the evidence histogram)
func (n *Node) shapes(statics map[string]bool) map[string]bool {
	res := map[string]bool{}
	n.Walk(func(x *Node) {
		switch x.K {
		case "call", "method":
			kind := callKind(x, statics)
			for i, a := range x.Kids[1:] {
				if s := binderShape(a); s != "" {
					if x.K == "method" {
						res[s+" in argument of "+kind+" call"] = true
						res["binder in call argument"] = true
					} else if i >= 1 {
						res[s+" in argument i>=1 of "+kind+" call"] = true
						res["binder in call argument"] = true
					} else {
						res[s+" in argument 0 of "+kind+" call"] = true
					}
				}
				if a.K == "clo" {
					res["closure created inside an argument"] = true
				}
			}
		case "list", "map":
			for _, a := range x.Kids {
				if s := binderShape(a); s != "" {
					res[s+" in "+x.K+" literal element"] = true
					res["binder in literal element"] = true
				}
			}
		case "func":
			rec := false
			x.Kids[0].Walk(func(y *Node) {
				if y.K == "ident" && y.Name == x.Name {
					rec = true
				}
			})
			if rec {
				res["recursive func"] = true
			}
		case "clo":
			if shadowsCaptured(x.Kids[0], x.Ps) {
				res["let hides a name the same closure captured"] = true
			}
		case "try":
			if x.Kids[1].K == "clo" && len(x.Kids[1].Ps) == 1 {
				res["try with catch closure"] = true
			} else {
				res["try with catch value"] = true
			}
		}
	})
	if d := closureDepth(n); d >= 2 {
		res[fmt.Sprintf("closure levels >= %d", min(d, 3))] = true
	}
	return res
}

// ---------- types ----------

type Ty struct {
	K      string // int float str bool list map fun
	Elem   *Ty
	Fields []Field
	Args   []*Ty
	Ret    *Ty
	Rec    bool // a recursive function: its first argument must be a small int (termination)
}
type Field struct {
	Name string
	T    *Ty
}

var tInt, tFloat, tStr, tBool = &Ty{K: "int"}, &Ty{K: "float"}, &Ty{K: "str"}, &Ty{K: "bool"}

func tList(e *Ty) *Ty          { return &Ty{K: "list", Elem: e} }
func tFun(r *Ty, a ...*Ty) *Ty { return &Ty{K: "fun", Args: a, Ret: r} }
func tMap(fs ...Field) *Ty     { return &Ty{K: "map", Fields: fs} }

func tyEq(a, b *Ty) bool {
	if a.K != b.K {
		return false
	}
	switch a.K {
	case "list":
		return tyEq(a.Elem, b.Elem)
	case "map":
		if len(a.Fields) != len(b.Fields) {
			return false
		}
		for i := range a.Fields {
			if a.Fields[i].Name != b.Fields[i].Name || !tyEq(a.Fields[i].T, b.Fields[i].T) {
				return false
			}
		}
		return true
	case "fun":
		if len(a.Args) != len(b.Args) || !tyEq(a.Ret, b.Ret) {
			return false
		}
		for i := range a.Args {
			if !tyEq(a.Args[i], b.Args[i]) {
				return false
			}
		}
		return true
	}
	return true
}

func (t *Ty) String() string {
	switch t.K {
	case "list":
		return "list(" + t.Elem.String() + ")"
	case "map":
		var fs []string
		for _, f := range t.Fields {
			fs = append(fs, f.Name+":"+f.T.String())
		}
		return "{" + strings.Join(fs, ",") + "}"
	case "fun":
		var as []string
		for _, a := range t.Args {
			as = append(as, a.String())
		}
		return "(" + strings.Join(as, ",") + ")->" + t.Ret.String()
	}
	return t.K
}

// ---------- the generator ----------

type gvar struct {
	name  string
	ty    *Ty
	depth int
}

type genv struct {
	vars  []gvar // innermost last
	depth int    // closure nesting level: names of the same level live in one function body
}

func (e *genv) with(name string, ty *Ty) *genv {
	vs := append(append([]gvar{}, e.vars...), gvar{name, ty, e.depth})
	return &genv{vars: vs, depth: e.depth}
}

// a closure body: one level deeper, parameters bound
func (e *genv) enter(ps []string, tys []*Ty) *genv {
	vs := append([]gvar{}, e.vars...)
	for i, p := range ps {
		vs = append(vs, gvar{p, tys[i], e.depth + 1})
	}
	return &genv{vars: vs, depth: e.depth + 1}
}

func (e *genv) lookup(name string) (*Ty, bool) {
	for i := len(e.vars) - 1; i >= 0; i-- {
		if e.vars[i].name == name {
			return e.vars[i].ty, true
		}
	}
	return nil, false
}

// visible variables that satisfy pred (a shadowed variable is not visible)
func (e *genv) visible(pred func(*Ty) bool) []gvar {
	var res []gvar
	seen := map[string]bool{}
	for i := len(e.vars) - 1; i >= 0; i-- {
		v := e.vars[i]
		if seen[v.name] {
			continue
		}
		seen[v.name] = true
		if pred(v.ty) {
			res = append(res, v)
		}
	}
	return res
}

var namePool = []string{"a", "b", "c", "d", "f", "g", "k", "m", "n", "p", "pi", "sqr", "abs", "t", "u"}
var fieldPool = []string{"a", "b", "f", "k", "v"}
var strPool = []string{"a", "b", "ab", "boom", "x1", "", "zz"}

type ProgGen struct {
	r        *Rng
	statics  map[string]bool
	illTyped bool // this program gets deliberate type errors (10 % per node)
	redecl   bool // this program redeclares names on purpose
	maxDepth int
}

func (g *ProgGen) pick(n int) int          { return g.r.Pick(n) }
func (g *ProgGen) chance(p float64) bool   { return g.r.Chance(p) }
func (g *ProgGen) oneOf(l []string) string { return l[g.pick(len(l))] }

// a name for a new binder of the current function body: never one of the same body (unless the
// program redeclares on purpose); names of outer bodies, constants and static functions are welcome
func (g *ProgGen) freshName(e *genv, also []string) string {
	taken := map[string]bool{}
	var same []string
	for _, v := range e.vars {
		if v.depth == e.depth {
			taken[v.name] = true
			same = append(same, v.name)
		}
	}
	for _, a := range also {
		taken[a] = true
	}
	if g.redecl && len(same) > 0 && g.chance(0.5) {
		return same[g.pick(len(same))]
	}
	var outer []string
	for _, v := range e.vars {
		if v.depth < e.depth && !taken[v.name] {
			outer = append(outer, v.name)
		}
	}
	if len(outer) > 0 && g.chance(0.25) {
		return outer[g.pick(len(outer))] // shadow a name of an enclosing function body
	}
	for tries := 0; tries < 50; tries++ {
		n := g.oneOf(namePool)
		if !taken[n] {
			return n
		}
	}
	for i := 0; ; i++ {
		n := fmt.Sprintf("v%d", i)
		if !taken[n] {
			return n
		}
	}
}

func (g *ProgGen) freshNames(e *genv, k int) []string {
	var ns []string
	// parameters start a new body: only they must be pairwise different
	for len(ns) < k {
		n := g.oneOf(namePool)
		if len(e.vars) > 0 && g.chance(0.3) {
			n = e.vars[g.pick(len(e.vars))].name // shadow an outer name
		}
		if !contains(ns, n) {
			ns = append(ns, n)
		}
	}
	return ns
}

func (g *ProgGen) scalarType() *Ty {
	switch g.pick(10) {
	case 0, 1, 2, 3, 4:
		return tInt
	case 5, 6:
		return tFloat
	case 7:
		return tStr
	default:
		return tBool
	}
}

func (g *ProgGen) randomType(depth int) *Ty {
	if depth <= 0 || g.chance(0.6) {
		return g.scalarType()
	}
	switch g.pick(4) {
	case 0:
		return tList(g.randomType(depth - 1))
	case 1:
		return tMap(Field{"a", g.randomType(depth - 1)}, Field{"b", tInt})
	case 2:
		return tFun(g.randomType(depth-1), tInt)
	default:
		return tFun(g.scalarType(), g.scalarType(), tInt)
	}
}

func (g *ProgGen) otherType(t *Ty) *Ty {
	for i := 0; i < 20; i++ {
		o := g.randomType(1)
		if o.K != t.K {
			return o
		}
	}
	return tStr
}

// ---- leaves ----

func (g *ProgGen) intLit() *Node {
	switch g.pick(12) {
	case 0:
		return nInt(0)
	case 1:
		return nInt(-1)
	case 2:
		return nInt(63)
	case 3:
		return nInt(100)
	case 4:
		return nInt(int64(1) << 31)
	case 5:
		return nInt(-int64(g.pick(9)) - 1)
	}
	return nInt(int64(g.pick(10)))
}

var floatLits = []float64{0.5, 1.5, 2.25, 0.25, 8, 3, -0.5, 100.125, 0}

func (g *ProgGen) leaf(t *Ty, e *genv) *Node {
	vars := e.visible(func(x *Ty) bool { return tyEq(x, t) })
	if len(vars) > 0 && g.chance(0.8) {
		return nId(vars[g.pick(len(vars))].name)
	}
	switch t.K {
	case "int":
		return g.intLit()
	case "float":
		if _, bound := e.lookup("pi"); !bound && g.chance(0.1) {
			return nId("pi")
		}
		return nFloat(floatLits[g.pick(len(floatLits))])
	case "str":
		return nStr(g.oneOf(strPool))
	case "bool":
		if g.chance(0.5) {
			return nId("true")
		}
		return nId("false")
	case "list":
		if g.chance(0.5) {
			return nList()
		}
		return nList(g.leaf(t.Elem, e), g.leaf(t.Elem, e))
	case "map":
		var keys []string
		var vals []*Node
		for _, f := range t.Fields {
			keys = append(keys, f.Name)
			vals = append(vals, g.leaf(f.T, e))
		}
		return nMap(keys, vals)
	case "fun":
		ps := g.freshNames(e, len(t.Args))
		return nClo(ps, g.leaf(t.Ret, e.enter(ps, t.Args)))
	}
	panic("leaf: bad type")
}

// ---- expressions ----

// split a budget into k parts (each >= 1)
func (g *ProgGen) split(size, k int) []int {
	parts := make([]int, k)
	for i := range parts {
		parts[i] = 1
	}
	for rest := size - k; rest > 0; rest-- {
		parts[g.pick(k)]++
	}
	return parts
}

// expr generates an expression of type t within a budget of about `size` nodes.  allowLet: the
// position is one where the parser accepts let/func directly.
func (g *ProgGen) expr(t *Ty, e *genv, size int, allowLet bool) *Node {
	if g.illTyped && g.chance(0.1) {
		t = g.otherType(t) // a deliberate type error
	}
	if size <= 1 || e.depth > g.maxDepth+3 {
		return g.leaf(t, e)
	}
	// wrappers that exist for every type
	for tries := 0; tries < 4; tries++ {
		c := g.pick(100)
		switch {
		case c < 12:
			if allowLet && size >= 3 {
				return g.letExpr(t, e, size)
			}
		case c < 16:
			if allowLet && size >= 6 {
				return g.funcExpr(t, e, size)
			}
		case c < 23:
			if size >= 4 {
				p := g.split(size-1, 3)
				return nIf(g.expr(tBool, e, p[0], false), g.expr(t, e, p[1], true), g.expr(t, e, p[2], true))
			}
		case c < 26:
			if size >= 5 {
				return g.switchExpr(t, e, size)
			}
		case c < 31:
			if size >= 4 {
				return g.tryExpr(t, e, size)
			}
		case c < 37:
			if size >= 4 {
				return g.redex(t, e, size)
			}
		case c < 47:
			// call a visible function (or a curried one) that returns t
			if n := g.callVar(t, e, size); n != nil {
				return g.guard(n, t, e, allowLet)
			}
		case c < 52:
			if size >= 4 {
				return g.mapFieldCall(t, e, size)
			}
		case c < 56:
			if size >= 3 {
				// [e1, e2][i]  /  list variable
				l := g.expr(tList(t), e, size-2, false)
				return nIndex(l, nInt(int64(g.pick(2))))
			}
		case c < 60:
			if size >= 3 {
				key := g.oneOf(fieldPool)
				m := g.expr(tMap(Field{key, t}), e, size-1, false)
				return nMember(m, key)
			}
		case c < 63:
			if size >= 3 {
				l := g.expr(tList(t), e, size-1, false)
				return nMethod("method", l, g.oneOf([]string{"first", "last"}))
			}
		default:
			return g.typed(t, e, size, allowLet)
		}
	}
	return g.typed(t, e, size, allowLet)
}

func (g *ProgGen) letExpr(t *Ty, e *genv, size int) *Node {
	vt := g.randomType(1)
	if g.chance(0.5) {
		vt = tInt
	}
	name := g.freshName(e, nil)
	p := g.split(size-1, 2)
	// the new name hides a name of an enclosing function body: use the outer value in the let value
	// (`let y = y + 1; ...` inside a closure: y is captured AND a local from here on)
	if ot, ok := e.lookup(name); ok && g.chance(0.6) {
		switch ot.K {
		case "int", "float":
			v := nOp(g.oneOf([]string{"+", "-", "*"}), nId(name), g.expr(tInt, e, max(p[0]-2, 1), false))
			return nLet(name, v, g.expr(t, e.with(name, ot), p[1], true))
		case "str":
			v := nOp("+", nId(name), g.expr(tStr, e, max(p[0]-2, 1), false))
			return nLet(name, v, g.expr(t, e.with(name, ot), p[1], true))
		}
	}
	v := g.expr(vt, e, p[0], false)
	return nLet(name, v, g.expr(t, e.with(name, vt), p[1], true))
}

// func f(n, ...) body; rest   - recursive with a decreasing int and a base case, or plain
func (g *ProgGen) funcExpr(t *Ty, e *genv, size int) *Node {
	name := g.freshName(e, nil)
	p := g.split(size-1, 2)
	if g.chance(0.6) {
		// recursive: func f(n, acc) if n <= 0 then base else step(f(n-1, ...))
		ret := tInt
		if g.chance(0.3) {
			ret = g.scalarType()
		}
		nargs := 1 + g.pick(2)
		argTys := []*Ty{tInt}
		if nargs == 2 {
			argTys = append(argTys, ret)
		}
		ft := tFun(ret, argTys...)
		ft.Rec = true
		ps := []string{}
		for len(ps) < nargs {
			c := g.oneOf(namePool)
			if !contains(ps, c) && c != name {
				ps = append(ps, c)
			}
		}
		// inside the body the function's own name is visible (one level up), then the parameters
		// (hidden from the generated sub-expressions: only the explicit call below recurs)
		body := e.with(name, &Ty{K: "self"}).enter(ps, argTys)
		q := g.split(max(p[0]-8, 2), 2)
		base := g.expr(ret, body, q[0], true)
		recArgs := []*Node{nOp("-", nId(ps[0]), nInt(1))}
		if nargs == 2 {
			recArgs = append(recArgs, g.expr(ret, body, q[1], true))
		}
		var step *Node = nCall("closure", nId(name), recArgs...)
		if ret.K == "int" && g.chance(0.7) {
			step = nOp(g.oneOf([]string{"+", "*", "-"}), g.leaf(tInt, body), step)
		}
		fb := nIf(nOp("<=", nId(ps[0]), nInt(0)), base, step)
		return nFunc(name, ps, fb, g.exprUsing(t, e.with(name, ft), name, ft, p[1]))
	}
	k := 1 + g.pick(3)
	var argTys []*Ty
	for i := 0; i < k; i++ {
		argTys = append(argTys, g.scalarType())
	}
	ret := g.randomType(1)
	ft := tFun(ret, argTys...)
	ps := g.freshNames(e, k)
	for contains(ps, name) {
		ps = g.freshNames(e, k)
	}
	fb := g.expr(ret, e.with(name, ft).enter(ps, argTys), p[0], true)
	return nFunc(name, ps, fb, g.exprUsing(t, e.with(name, ft), name, ft, p[1]))
}

// an expression of type t that calls the function `name` when the types allow it
func (g *ProgGen) exprUsing(t *Ty, e *genv, name string, ft *Ty, size int) *Node {
	if tyEq(ft.Ret, t) && g.chance(0.8) {
		return g.callOf(nId(name), "closure", ft, e, size)
	}
	if size >= 4 && g.chance(0.6) {
		// let r = f(...); <t>
		p := g.split(size-1, 2)
		r := g.freshName(e, nil)
		return nLet(r, g.callOf(nId(name), "closure", ft, e, p[0]), g.expr(t, e.with(r, ft.Ret), p[1], true))
	}
	return g.expr(t, e, size, true)
}

// small, terminating argument for the decreasing parameter of a recursive function
func (g *ProgGen) smallInt(e *genv) *Node {
	vars := e.visible(func(x *Ty) bool { return x.K == "int" })
	if len(vars) > 0 && g.chance(0.5) {
		return nOp("%", nId(vars[g.pick(len(vars))].name), nInt(int64(2+g.pick(3))))
	}
	return nInt(int64(g.pick(5)))
}

// f(args) for a callee of function type ft; arguments i>=1 are binders with a boosted probability
func (g *ProgGen) callOf(f *Node, tag string, ft *Ty, e *genv, size int) *Node {
	as := g.args(ft.Args, e, size-1, 1)
	if ft.Rec {
		as[0] = g.smallInt(e)
	}
	return nCall(tag, f, as...)
}

func (g *ProgGen) args(tys []*Ty, e *genv, size int, firstBoosted int) []*Node {
	if len(tys) == 0 {
		return nil
	}
	p := g.split(max(size, len(tys)), len(tys))
	var res []*Node
	for i, at := range tys {
		if i >= firstBoosted && p[i] >= 3 && g.chance(0.45) {
			res = append(res, g.binder(at, e, p[i]))
		} else {
			res = append(res, g.expr(at, e, p[i], true))
		}
	}
	return res
}

// a binding construct of type t for an argument / literal element position
func (g *ProgGen) binder(t *Ty, e *genv, size int) *Node {
	c := g.pick(100)
	switch {
	case c < 45 || size < 5:
		return g.letExpr(t, e, size)
	case c < 55 && size >= 6:
		return g.funcExpr(t, e, size)
	case c < 75:
		p := g.split(size-1, 3)
		return nIf(g.expr(tBool, e, p[0], false), g.letExpr(t, e, max(p[1], 3)), g.expr(t, e, p[2], true))
	case c < 85:
		p := g.split(size-2, 3)
		return nSwitch(g.expr(tInt, e, p[0], false), [][2]*Node{{nInt(int64(g.pick(3))), g.letExpr(t, e, max(p[1], 3))}}, g.expr(t, e, p[2], true))
	default:
		p := g.split(size-1, 2)
		return nTry(g.letExpr(t, e, max(p[0], 3)), g.expr(t, e, p[1], true))
	}
}

func (g *ProgGen) switchExpr(t *Ty, e *genv, size int) *Node {
	k := 1 + g.pick(2)
	p := g.split(size-1-k, 2+k)
	var cases [][2]*Node
	st := tInt
	if g.chance(0.2) {
		st = tStr
	}
	for i := 0; i < k; i++ {
		var c *Node
		if st == tInt {
			c = nInt(int64(g.pick(4)))
		} else {
			c = nStr(g.oneOf(strPool))
		}
		cases = append(cases, [2]*Node{c, g.expr(t, e, p[2+i], true)})
	}
	return nSwitch(g.expr(st, e, p[0], false), cases, g.expr(t, e, p[1], true))
}

func (g *ProgGen) tryExpr(t *Ty, e *genv, size int) *Node {
	p := g.split(size-1, 2)
	var body *Node
	c := g.pick(3)
	switch {
	case c == 0 && p[0] >= 5:
		// a throw behind a condition
		q := g.split(p[0]-3, 2)
		body = nIf(g.expr(tBool, e, q[0], false), g.staticCall(t, e, []string{"throw"}, nStr("boom")), g.expr(t, e, q[1], true))
	case c == 1 && p[0] >= 4:
		// a fault: modulo by something that may be zero, index out of range, missing key
		switch {
		case t.K == "int":
			body = nOp("%", g.expr(tInt, e, p[0]-3, false), g.leaf(tInt, e))
		default:
			body = nIndex(nList(g.expr(t, e, p[0]-3, true)), g.leaf(tInt, e))
		}
	default:
		body = g.expr(t, e, p[0], true)
	}
	if g.chance(0.4) && p[1] >= 3 {
		// catch closure: the error text is only used as "lit" ~ e
		en := g.freshNames(e, 1)
		ce := e.enter(en, []*Ty{{K: "err"}})
		if g.chance(0.5) && p[1] >= 6 {
			q := g.split(p[1]-4, 2)
			return nTry(body, nClo(en, nIf(nOp("~", nStr("boom"), nId(en[0])), g.expr(t, ce, q[0], true), g.expr(t, ce, q[1], true))))
		}
		return nTry(body, nClo(en, g.expr(t, ce, p[1]-1, true)))
	}
	if t.K == "fun" && len(t.Args) == 1 {
		// a one-parameter closure in catch position would be called with the error text
		return g.typed(t, e, size, false)
	}
	return nTry(body, g.expr(t, e, p[1], true))
}

// ((a, b) -> body)(args)
func (g *ProgGen) redex(t *Ty, e *genv, size int) *Node {
	k := 1 + g.pick(4)
	var argTys []*Ty
	for i := 0; i < k; i++ {
		argTys = append(argTys, g.randomType(1))
	}
	ft := tFun(t, argTys...)
	p := g.split(size-1, 2)
	ps := g.freshNames(e, k)
	clo := nClo(ps, g.expr(t, e.enter(ps, argTys), p[0], true))
	return g.callOf(clo, "closure", ft, e, p[1])
}

// call of a visible variable of function type returning t (directly, or curried: f(x)(y))
func (g *ProgGen) callVar(t *Ty, e *genv, size int) *Node {
	fs := e.visible(func(x *Ty) bool {
		return x.K == "fun" && (tyEq(x.Ret, t) || (x.Ret.K == "fun" && tyEq(x.Ret.Ret, t)))
	})
	if len(fs) == 0 {
		if size >= 6 && g.chance(0.5) {
			return g.curried(t, e, size)
		}
		return nil
	}
	f := fs[g.pick(len(fs))]
	if tyEq(f.ty.Ret, t) {
		return g.callOf(nId(f.name), "closure", f.ty, e, size)
	}
	p := g.split(size, 2)
	inner := g.callOf(nId(f.name), "closure", f.ty, e, p[0])
	return g.callOf(inner, "closure", f.ty.Ret, e, p[1])
}

// three closure levels capturing an argument, a let and an outer captured value, applied one by one:
//
//	let p = <int>; (a -> b -> c -> <int over a b c p and the outer variables>)(e1)(e2)(e3)
func (g *ProgGen) curried(t *Ty, e *genv, size int) *Node {
	levels := 2 + g.pick(2)
	p := g.split(max(size-2*levels-2, levels+2), levels+2)
	ln := g.freshName(e, nil)
	lt := g.scalarType()
	e1 := e.with(ln, lt)
	var names [][]string
	var tys [][]*Ty
	cur := e1
	for i := 0; i < levels; i++ {
		k := 1
		if g.chance(0.3) {
			k = 2
		}
		ps := g.freshNames(cur, k)
		at := make([]*Ty, k)
		for j := range at {
			at[j] = g.scalarType()
		}
		names = append(names, ps)
		tys = append(tys, at)
		cur = cur.enter(ps, at)
	}
	body := g.expr(t, cur, p[0], true)
	for i := levels - 1; i >= 0; i-- {
		body = nClo(names[i], body)
	}
	// the type of the closure chain, outermost first
	ft := t
	for i := levels - 1; i >= 0; i-- {
		ft = tFun(ft, tys[i]...)
	}
	var call *Node = body
	cft := ft
	for i := 0; i < levels; i++ {
		call = g.callOf(call, "closure", cft, e1, p[2+i])
		cft = cft.Ret
	}
	return nLet(ln, g.expr(lt, e, p[1], false), call)
}

// a let/func node in a position where the grammar does not accept one directly
func (g *ProgGen) guard(n *Node, t *Ty, e *genv, allowLet bool) *Node {
	if allowLet || !isBinder(n) {
		return n
	}
	return nIf(nId("true"), n, g.leaf(t, e))
}

// m.f(args) where the field f of the map m holds a closure
func (g *ProgGen) mapFieldCall(t *Ty, e *genv, size int) *Node {
	k := 1 + g.pick(3)
	var argTys []*Ty
	for i := 0; i < k; i++ {
		argTys = append(argTys, g.scalarType())
	}
	ft := tFun(t, argTys...)
	fname := g.oneOf([]string{"f", "g", "size", "get"}) // a field may carry the name of a method
	mt := tMap(Field{fname, ft}, Field{"v", tInt})
	ms := e.visible(func(x *Ty) bool { return tyEq(x, mt) })
	p := g.split(size-1, 2)
	if len(ms) > 0 && g.chance(0.7) {
		return nMethod("mapfield", nId(ms[g.pick(len(ms))].name), fname, g.args(argTys, e, size-2, 0)...)
	}
	if g.chance(0.5) || size < 7 {
		m := g.expr(mt, e, p[0], false)
		return nMethod("mapfield", m, fname, g.args(argTys, e, p[1], 0)...)
	}
	// let m = {f: closure, v: int}; m.f(args)   - needs a let position; wrap in `if true` otherwise harmless
	mn := g.freshName(e, nil)
	m := g.typed(mt, e, p[0], false)
	call := nMethod("mapfield", nId(mn), fname, g.args(argTys, e.with(mn, mt), p[1], 0)...)
	return nIf(nId("true"), nLet(mn, m, call), g.leaf(t, e))
}

// total arithmetic on ints: the only callbacks handed to lazy list stages
func (g *ProgGen) totalInt(e *genv, param string, size int) *Node {
	if size <= 1 {
		vars := e.visible(func(x *Ty) bool { return x.K == "int" })
		if g.chance(0.5) || len(vars) == 0 {
			if g.chance(0.6) {
				return nId(param)
			}
			return nInt(int64(g.pick(10)))
		}
		return nId(vars[g.pick(len(vars))].name)
	}
	p := g.split(size-1, 2)
	return nOp(g.oneOf([]string{"+", "-", "*"}), g.totalInt(e, param, p[0]), g.totalInt(e, param, p[1]))
}

func (g *ProgGen) cmpOp() string { return g.oneOf([]string{"<", ">", "<=", ">=", "=", "!="}) }

// constructs specific to the type
func (g *ProgGen) typed(t *Ty, e *genv, size int, allowLet bool) *Node {
	if size <= 1 {
		return g.leaf(t, e)
	}
	switch t.K {
	case "int":
		c := g.pick(100)
		switch {
		case c < 40:
			p := g.split(size-1, 2)
			return nOp(g.oneOf([]string{"+", "-", "*", "+", "-", "*", "&", "|"}), g.expr(tInt, e, p[0], false), g.expr(tInt, e, p[1], false))
		case c < 46:
			return nOp("%", g.expr(tInt, e, size-2, false), nInt(int64(2+g.pick(7))))
		case c < 50:
			return nOp(g.oneOf([]string{"<<", ">>"}), g.expr(tInt, e, size-2, false), nInt(int64(g.pick(5))))
		case c < 53:
			return nOp("^", g.leaf(tInt, e), nInt(int64(g.pick(4))))
		case c < 58:
			return nUn("-", g.expr(tInt, e, size-1, false))
		case c < 66:
			return g.staticCall(t, e, []string{"abs", "sign", "sqr"}, g.expr(tInt, e, size-1, true))
		case c < 72:
			return g.staticCall(t, e, []string{"min", "max", "binAnd", "binOr"}, g.args([]*Ty{tInt, tInt}, e, size-1, 1)...)
		case c < 75:
			return g.staticCall(t, e, []string{"int"}, g.expr(tFloat, e, size-1, true))
		case c < 80:
			return nMethod("method", g.expr(tList(g.scalarType()), e, size-1, false), "size")
		case c < 83:
			return nMethod("method", g.expr(tStr, e, size-1, false), "len")
		case c < 87:
			return nMethod("method", g.expr(tList(tInt), e, size-1, false), "sum")
		case c < 93:
			// l.reduce((a,b)->int) / l.mapReduce(init, (acc,x)->int)
			p := g.split(size-2, 3)
			l := g.expr(tList(tInt), e, p[0], false)
			ps := g.freshNames(e, 2)
			cb := nClo(ps, g.expr(tInt, e.enter(ps, []*Ty{tInt, tInt}), p[1], true))
			if g.chance(0.5) {
				return nMethod("method", l, "reduce", cb)
			}
			init := g.expr(tInt, e, p[2], true)
			if p[2] >= 3 && g.chance(0.4) {
				init = g.binder(tInt, e, p[2])
			}
			return nMethod("method", l, "mapReduce", init, cb)
		case c < 97:
			p := g.split(size-2, 2)
			l := g.expr(tList(tInt), e, p[0], false)
			ps := g.freshNames(e, 1)
			cb := nClo(ps, g.expr(tBool, e.enter(ps, []*Ty{tInt}), p[1], true))
			return nMethod("method", l, "indexWhere", cb)
		default:
			return nMethod("method", g.expr(tMap(Field{"a", tInt}, Field{"b", tInt}), e, size-1, false), "size")
		}
	case "float":
		c := g.pick(100)
		switch {
		case c < 40:
			p := g.split(size-1, 2)
			a, b := tFloat, tFloat
			switch g.pick(3) {
			case 0:
				a = tInt
			case 1:
				b = tInt
			}
			return nOp(g.oneOf([]string{"+", "-", "*"}), g.expr(a, e, p[0], false), g.expr(b, e, p[1], false))
		case c < 60:
			a := tFloat
			if g.chance(0.5) {
				a = tInt
			}
			return nOp("/", g.expr(a, e, size-2, false), nInt(int64(1)<<uint(g.pick(4))))
		case c < 68:
			return nUn("-", g.expr(tFloat, e, size-1, false))
		case c < 80:
			return g.staticCall(t, e, []string{"abs", "sign", "sqr"}, g.expr(tFloat, e, size-1, true))
		case c < 90:
			return g.staticCall(t, e, []string{"float"}, g.expr(tInt, e, size-1, true))
		default:
			return g.staticCall(t, e, []string{"min", "max"}, g.args([]*Ty{tFloat, tFloat}, e, size-1, 1)...)
		}
	case "str":
		c := g.pick(100)
		switch {
		case c < 50:
			p := g.split(size-1, 2)
			b := tStr
			switch g.pick(4) {
			case 0:
				b = tInt
			case 1:
				b = tBool
			}
			return nOp("+", g.expr(tStr, e, p[0], false), g.expr(b, e, p[1], false))
		case c < 75:
			a := g.oneOf([]string{"int", "bool", "str"})
			return g.staticCall(t, e, []string{"string"}, g.expr(&Ty{K: a}, e, size-1, true))
		default:
			a := g.oneOf([]string{"int", "bool", "str"})
			return nMethod("method", g.expr(&Ty{K: a}, e, size-1, false), "string")
		}
	case "bool":
		c := g.pick(100)
		switch {
		case c < 35:
			p := g.split(size-1, 2)
			ot := g.oneOf([]string{"int", "int", "int", "float", "str"})
			return nOp(g.cmpOp(), g.expr(&Ty{K: ot}, e, p[0], false), g.expr(&Ty{K: ot}, e, p[1], false))
		case c < 45:
			p := g.split(size-1, 2)
			ot := g.randomType(1)
			if ot.K == "fun" {
				ot = tList(tInt)
			}
			return nOp(g.oneOf([]string{"=", "!="}), g.expr(ot, e, p[0], false), g.expr(ot, e, p[1], false))
		case c < 63:
			p := g.split(size-1, 2)
			return nOp(g.oneOf([]string{"&", "|"}), g.expr(tBool, e, p[0], false), g.expr(tBool, e, p[1], false))
		case c < 70:
			return nUn("!", g.expr(tBool, e, size-1, false))
		case c < 78:
			p := g.split(size-1, 2)
			switch g.pick(3) {
			case 0:
				return nOp("~", g.expr(tStr, e, p[0], false), g.expr(tStr, e, p[1], false))
			case 1:
				return nOp("~", g.expr(tInt, e, p[0], false), g.expr(tList(tInt), e, p[1], false))
			default:
				return nOp("~", nStr(g.oneOf(fieldPool)), g.expr(tMap(Field{"a", tInt}, Field{"b", tInt}), e, p[1], false))
			}
		case c < 86:
			return g.staticCall(t, e, []string{"isInt", "isFloat"}, g.expr(g.scalarType(), e, size-1, true))
		case c < 94:
			p := g.split(size-2, 2)
			l := g.expr(tList(tInt), e, p[0], false)
			ps := g.freshNames(e, 1)
			return nMethod("method", l, "present", nClo(ps, g.expr(tBool, e.enter(ps, []*Ty{tInt}), p[1], true)))
		default:
			m := g.expr(tMap(Field{"a", tInt}, Field{"b", tInt}), e, size-2, false)
			return nMethod("method", m, "isAvail", nStr(g.oneOf(fieldPool)))
		}
	case "list":
		c := g.pick(100)
		switch {
		case c < 40:
			k := g.pick(4)
			if k == 0 {
				return nList()
			}
			p := g.split(max(size-1, k), k)
			var items []*Node
			for i := 0; i < k; i++ {
				if p[i] >= 3 && g.chance(0.3) {
					items = append(items, g.binder(t.Elem, e, p[i]))
				} else {
					items = append(items, g.expr(t.Elem, e, p[i], true))
				}
			}
			return nList(items...)
		case c < 55:
			if t.Elem.K == "int" && !g.illTyped {
				// lazy stages: total callbacks only
				p := g.split(size-2, 2)
				l := g.expr(tList(tInt), e, p[0], false)
				ps := g.freshNames(e, 1)
				be := e.enter(ps, []*Ty{tInt})
				if g.chance(0.6) {
					return nMethod("method", l, "map", nClo(ps, g.totalInt(be, ps[0], p[1])))
				}
				return nMethod("method", l, "accept", nClo(ps, nOp(g.cmpOp(), g.totalInt(be, ps[0], p[1]), nInt(int64(g.pick(10))))))
			}
			return nMethod("method", g.expr(t, e, size-1, false), "reverse")
		case c < 65:
			p := g.split(size-1, 2)
			n := g.expr(tInt, e, p[1], true)
			if p[1] >= 3 && g.chance(0.4) {
				n = g.binder(tInt, e, p[1])
			}
			return nMethod("method", g.expr(t, e, p[0], false), g.oneOf([]string{"top", "skip"}), n)
		case c < 75:
			p := g.split(size-1, 2)
			x := g.expr(t.Elem, e, p[1], true)
			if p[1] >= 3 && g.chance(0.4) {
				x = g.binder(t.Elem, e, p[1])
			}
			return nMethod("method", g.expr(t, e, p[0], false), "append", x)
		case c < 82:
			return nMethod("method", g.expr(t, e, size-1, false), "reverse")
		case c < 92:
			p := g.split(size-1, 2)
			return nOp("+", g.expr(t, e, p[0], false), g.expr(t, e, p[1], false))
		default:
			if t.Elem.K == "int" {
				return g.staticCall(t, e, []string{"numbers"}, nInt(int64(g.pick(5))))
			}
			return g.leaf(t, e)
		}
	case "map":
		c := g.pick(100)
		n := len(t.Fields)
		switch {
		case c < 65 || n == 0:
			p := g.split(max(size-1, n), max(n, 1))
			var keys []string
			var vals []*Node
			for i, f := range t.Fields {
				keys = append(keys, f.Name)
				if p[i] >= 3 && g.chance(0.3) {
					vals = append(vals, g.binder(f.T, e, p[i]))
				} else {
					vals = append(vals, g.expr(f.T, e, p[i], true))
				}
			}
			return nMap(keys, vals)
		case c < 85:
			p := g.split(size-2, 2)
			rest := &Ty{K: "map", Fields: t.Fields[:n-1]}
			v := g.expr(t.Fields[n-1].T, e, p[1], true)
			if p[1] >= 3 && g.chance(0.4) {
				v = g.binder(t.Fields[n-1].T, e, p[1])
			}
			return nMethod("method", g.expr(rest, e, p[0], false), "put", nStr(t.Fields[n-1].Name), v)
		default:
			p := g.split(size-1, 2)
			k := g.pick(n + 1)
			return nOp("+", g.expr(&Ty{K: "map", Fields: t.Fields[:k]}, e, p[0], false), g.expr(&Ty{K: "map", Fields: t.Fields[k:]}, e, p[1], false))
		}
	case "fun":
		ps := g.freshNames(e, len(t.Args))
		return nClo(ps, g.expr(t.Ret, e.enter(ps, t.Args), size-1, true))
	case "err":
		return nStr("boom")
	}
	return g.leaf(t, e)
}

// a call of one of the named static functions that is not hidden by a local binding; a leaf when all are hidden
func (g *ProgGen) staticCall(t *Ty, e *genv, names []string, args ...*Node) *Node {
	var free []string
	for _, n := range names {
		if _, bound := e.lookup(n); !bound {
			free = append(free, n)
		}
	}
	if len(free) == 0 {
		return g.leaf(t, e)
	}
	return nCall("static", nId(free[g.pick(len(free))]), args...)
}

// ---------- argument values ----------

var argIntPool = []int64{0, 1, -1, 2, -2, 7, 63, 64, 1 << 31, 1<<53 - 1, 1 << 53, math.MinInt64, math.MaxInt64}
var argFloatPool = []float64{0.5, -0.5, 1.5, 2.25, 0.25, 100, -3, 0, 1 << 53, 0.125}

func (g *ProgGen) argValue(t *Ty, variant int) *Tree {
	switch t.K {
	case "int":
		if g.chance(0.15) {
			return &Tree{Kind: "int", I: int(argIntPool[g.pick(len(argIntPool))])}
		}
		return &Tree{Kind: "int", I: g.pick(12) - 3 + variant}
	case "float":
		if g.chance(0.05) {
			sp := []float64{math.Inf(1), math.Inf(-1), math.NaN(), math.Copysign(0, -1)}
			return &Tree{Kind: "float", F: sp[g.pick(len(sp))]}
		}
		return &Tree{Kind: "float", F: argFloatPool[g.pick(len(argFloatPool))] + float64(variant)}
	case "str":
		return &Tree{Kind: "str", S: g.oneOf(strPool) + strings.Repeat("q", variant)}
	case "bool":
		return &Tree{Kind: "bool", B: (g.pick(2)+variant)%2 == 0}
	case "list":
		k := g.pick(4) + variant%2
		var items []*Tree
		for i := 0; i < k; i++ {
			items = append(items, g.argValue(t.Elem, i))
		}
		return &Tree{Kind: "list", Items: items, Repr: "eager"}
	case "map":
		var keys []string
		var items []*Tree
		for _, f := range t.Fields {
			keys = append(keys, f.Name)
			items = append(items, g.argValue(f.T, variant))
		}
		return &Tree{Kind: "map", Keys: keys, Items: items, Repr: "listmap"}
	}
	panic("argValue: type " + t.K)
}

// CoqValue: an argument value as a Coq `value`
func (t *Tree) CoqValue() string {
	switch t.Kind {
	case "int":
		return "(VInt " + coqZ(int64(t.I)) + ")"
	case "float":
		return "(VFloat " + coqFloat(t.F) + ")"
	case "str":
		return "(VStr " + CoqStr(t.S) + ")"
	case "bool":
		return "(VBool " + CoqBool(t.B) + ")"
	case "list":
		parts := make([]string, len(t.Items))
		for i, it := range t.Items {
			parts[i] = it.CoqValue()
		}
		return "(VList " + CoqList(parts) + ")"
	case "map":
		parts := make([]string, len(t.Items))
		for i, it := range t.Items {
			parts[i] = "(" + CoqStr(t.Keys[i]) + ", " + it.CoqValue() + ")"
		}
		return "(VMap " + CoqList(parts) + ")"
	}
	panic("CoqValue: kind " + t.Kind)
}

// ---------- one program ----------

type Program struct {
	T        *Node     `json:"tree"`
	ArgNames []string  `json:"arg_names"`
	Tuples   [][]*Tree `json:"tuples"`
	Stream   string    `json:"stream"` // corpus well-typed ill-typed redeclare
}

var argNamePool = []string{"x", "y", "z", "x", "y", "pi", "sqr"}

func GenProgram(r *Rng, statics map[string]bool, maxNodes int) *Program {
	for {
		g := &ProgGen{r: r, statics: statics, maxDepth: 3}
		stream := "well-typed"
		c := r.Pick(100)
		switch {
		case c < 10:
			g.illTyped = true
			stream = "ill-typed"
		case c < 12:
			g.redecl = true
			stream = "redeclare"
		}
		nargs := 1 + r.Pick(3)
		var names []string
		var tys []*Ty
		env := &genv{}
		for len(names) < nargs {
			n := argNamePool[r.Pick(len(argNamePool))]
			if contains(names, n) {
				continue
			}
			var t *Ty
			switch r.Pick(12) {
			case 0, 1, 2, 3, 4, 5:
				t = tInt
			case 6, 7:
				t = tFloat
			case 8:
				t = tStr
			case 9:
				t = tBool
			case 10:
				t = tList(tInt)
			default:
				t = tMap(Field{"a", tInt}, Field{"b", tInt})
			}
			names = append(names, n)
			tys = append(tys, t)
			env = env.with(n, t)
		}
		budget := 6 + r.Pick(maxNodes-6)
		rt := g.randomType(2)
		if r.Chance(0.4) {
			rt = tInt
		}
		var tree *Node
		if r.Chance(0.12) && budget >= 10 {
			tree = g.curried(rt, env, budget)
		} else {
			tree = g.expr(rt, env, budget, true)
		}
		if tree.Count() > maxNodes {
			continue
		}
		// most programs should depend on their arguments (the three tuples are to give different observations)
		usesArg := false
		tree.Walk(func(x *Node) {
			if x.K == "ident" && contains(names, x.Name) {
				usesArg = true
			}
		})
		if !usesArg && r.Chance(0.9) {
			continue
		}
		p := &Program{T: tree, ArgNames: names, Stream: stream}
		for v := 0; v < 3; v++ {
			var tuple []*Tree
			for _, t := range tys {
				tuple = append(tuple, g.argValue(t, v))
			}
			p.Tuples = append(p.Tuples, tuple)
		}
		return p
	}
}
