package main

// pgProgram generator for the value expression language (properties C01/C02): surface trees (names
// only, no parser annotations), their renderer to program text, and their translation to a Coq
// `ast` term for the specification side (Sem/Ref.v).  Grammar facts: DESIGN.md Appendix B.

import (
	"fmt"
	"math"
	"sort"
	"strconv"
	"strings"
)

// ---------- surface tree ----------

// pgNode kinds: int float str ident let func if switch try unary op clo list index map member call method
//
//	let:    Name, Kids[value, body]
//	func:   Name, Ps, Kids[funcBody, body]            func Name(Ps) funcBody; body
//	if:     Kids[cond, then, else]
//	switch: Kids[value, c1, r1, ..., cn, rn, default]
//	try:    Kids[try, catch]
//	unary:  Name(op), Kids[a]          op: Name(op), Kids[a, b]
//	clo:    Ps, Kids[body]
//	list:   Kids            map: Keys, Kids          index: Kids[list, index]      member: Name(key), Kids[map]
//	call:   Kids[callee, args...]   (a static function call is a call whose callee is an unbound identifier)
//	method: Name, Kids[receiver, args...]   (also the call of a closure stored in a map field)
type pgNode struct {
	K     string    `json:"k"`
	Name  string    `json:"n,omitempty"`
	I     int64     `json:"i,omitempty"`
	FBits uint64    `json:"f,omitempty"`
	S     string    `json:"s,omitempty"`
	Ps    []string  `json:"ps,omitempty"`
	Keys  []string  `json:"keys,omitempty"`
	Kids  []*pgNode `json:"kids,omitempty"`
	Tag   string    `json:"tag,omitempty"` // generator's intent for call sites: static closure mapfield method (evidence counters only)
}

func pgNInt(i int64) *pgNode {
	if i < 0 {
		return &pgNode{K: "unary", Name: "-", Kids: []*pgNode{{K: "int", I: -i}}}
	}
	return &pgNode{K: "int", I: i}
}
func pgNFloat(f float64) *pgNode {
	if f < 0 || (f == 0 && math.Signbit(f)) {
		return &pgNode{K: "unary", Name: "-", Kids: []*pgNode{{K: "float", FBits: math.Float64bits(-f)}}}
	}
	return &pgNode{K: "float", FBits: math.Float64bits(f)}
}
func pgNStr(s string) *pgNode               { return &pgNode{K: "str", S: s} }
func pgNId(n string) *pgNode                { return &pgNode{K: "ident", Name: n} }
func pgNLet(x string, v, b *pgNode) *pgNode { return &pgNode{K: "let", Name: x, Kids: []*pgNode{v, b}} }
func pgNIf(c, t, e *pgNode) *pgNode         { return &pgNode{K: "if", Kids: []*pgNode{c, t, e}} }
func pgNTry(t, c *pgNode) *pgNode           { return &pgNode{K: "try", Kids: []*pgNode{t, c}} }
func pgNUn(op string, a *pgNode) *pgNode    { return &pgNode{K: "unary", Name: op, Kids: []*pgNode{a}} }
func pgNOp(op string, a, b *pgNode) *pgNode { return &pgNode{K: "op", Name: op, Kids: []*pgNode{a, b}} }
func pgNClo(ps []string, b *pgNode) *pgNode { return &pgNode{K: "clo", Ps: ps, Kids: []*pgNode{b}} }
func pgNList(items ...*pgNode) *pgNode      { return &pgNode{K: "list", Kids: items} }
func pgNIndex(l, i *pgNode) *pgNode         { return &pgNode{K: "index", Kids: []*pgNode{l, i}} }
func pgNMember(m *pgNode, key string) *pgNode {
	return &pgNode{K: "member", Name: key, Kids: []*pgNode{m}}
}
func pgNMap(keys []string, vals []*pgNode) *pgNode {
	return &pgNode{K: "map", Keys: keys, Kids: vals}
}
func pgNFunc(f string, ps []string, fb, b *pgNode) *pgNode {
	return &pgNode{K: "func", Name: f, Ps: ps, Kids: []*pgNode{fb, b}}
}
func pgNCall(tag string, f *pgNode, args ...*pgNode) *pgNode {
	return &pgNode{K: "call", Tag: tag, Kids: append([]*pgNode{f}, args...)}
}
func pgNMethod(tag string, recv *pgNode, name string, args ...*pgNode) *pgNode {
	return &pgNode{K: "method", Tag: tag, Name: name, Kids: append([]*pgNode{recv}, args...)}
}
func pgNSwitch(v *pgNode, cases [][2]*pgNode, d *pgNode) *pgNode {
	kids := []*pgNode{v}
	for _, c := range cases {
		kids = append(kids, c[0], c[1])
	}
	return &pgNode{K: "switch", Kids: append(kids, d)}
}

func (n *pgNode) Count() int {
	c := 1
	for _, k := range n.Kids {
		c += k.Count()
	}
	return c
}

func (n *pgNode) Walk(f func(*pgNode)) {
	f(n)
	for _, k := range n.Kids {
		k.Walk(f)
	}
}

func pgIsBinder(n *pgNode) bool { return n.K == "let" || n.K == "func" }

// ---------- renderer ----------

const (
	pgPosLet     = iota // parseLet is called here: anything goes
	pgPosExpr           // parseExpression: no let/func directly
	pgPosOperand        // operand of an operator / target of a postfix: atoms and parenthesised expressions
)

func pgParen(s string) string { return "(" + s + ")" }

func pgFmtFloat(f float64) string {
	s := strconv.FormatFloat(f, 'f', -1, 64)
	if !strings.Contains(s, ".") {
		s += ".0"
	}
	return s
}

// Render gives the program text.  It panics on a tree the grammar cannot express (let/func outside a let position).
func (n *pgNode) Render(pos int) string {
	switch n.K {
	case "int":
		return strconv.FormatInt(n.I, 10)
	case "float":
		return pgFmtFloat(math.Float64frombits(n.FBits))
	case "str":
		return "\"" + pgEscapeStr(n.S) + "\""
	case "ident":
		return n.Name
	case "let":
		if pos != pgPosLet {
			panic("let outside a let position")
		}
		return "let " + n.Name + " = " + n.Kids[0].Render(pgPosExpr) + "; " + n.Kids[1].Render(pgPosLet)
	case "func":
		if pos != pgPosLet {
			panic("func outside a let position")
		}
		return "func " + n.Name + "(" + strings.Join(n.Ps, ", ") + ") " + n.Kids[0].Render(pgPosLet) + "; " + n.Kids[1].Render(pgPosLet)
	case "if":
		s := "if " + n.Kids[0].Render(pgPosExpr) + " then " + n.Kids[1].Render(pgPosLet) + " else " + n.Kids[2].Render(pgPosLet)
		if pos != pgPosLet {
			return pgParen(s)
		}
		return s
	case "switch":
		s := "switch " + n.Kids[0].Render(pgPosExpr)
		for i := 1; i+1 < len(n.Kids); i += 2 {
			s += " case " + n.Kids[i].Render(pgPosExpr) + " : " + n.Kids[i+1].Render(pgPosLet)
		}
		s += " default " + n.Kids[len(n.Kids)-1].Render(pgPosLet)
		if pos != pgPosLet {
			return pgParen(s)
		}
		return s
	case "try":
		s := "try " + n.Kids[0].Render(pgPosLet) + " catch " + n.Kids[1].Render(pgPosLet)
		if pos != pgPosLet {
			return pgParen(s)
		}
		return s
	case "unary":
		s := n.Name + " " + n.Kids[0].Render(pgPosOperand)
		if pos == pgPosOperand {
			return pgParen(s)
		}
		return s
	case "op":
		s := n.Kids[0].Render(pgPosOperand) + " " + n.Name + " " + n.Kids[1].Render(pgPosOperand)
		if pos == pgPosOperand {
			return pgParen(s)
		}
		return s
	case "clo":
		var s string
		if len(n.Ps) == 1 {
			s = n.Ps[0] + " -> " + n.Kids[0].Render(pgPosLet)
		} else {
			s = "(" + strings.Join(n.Ps, ", ") + ") -> " + n.Kids[0].Render(pgPosLet)
		}
		if pos == pgPosOperand {
			return pgParen(s)
		}
		return s
	case "list":
		var parts []string
		for _, k := range n.Kids {
			parts = append(parts, k.Render(pgPosLet))
		}
		return "[" + strings.Join(parts, ", ") + "]"
	case "map":
		var parts []string
		for i, k := range n.Kids {
			parts = append(parts, n.Keys[i]+": "+k.Render(pgPosLet))
		}
		return "{" + strings.Join(parts, ", ") + "}"
	case "index":
		return n.Kids[0].renderTarget() + "[" + n.Kids[1].Render(pgPosExpr) + "]"
	case "member":
		return n.Kids[0].renderTarget() + "." + n.Name
	case "call":
		return n.Kids[0].renderTarget() + "(" + pgRenderArgs(n.Kids[1:]) + ")"
	case "method":
		return n.Kids[0].renderTarget() + "." + n.Name + "(" + pgRenderArgs(n.Kids[1:]) + ")"
	}
	panic("render: bad node kind " + n.K)
}

func pgRenderArgs(args []*pgNode) string {
	var parts []string
	for _, a := range args {
		parts = append(parts, a.Render(pgPosLet))
	}
	return strings.Join(parts, ", ")
}

// target of a postfix operation: identifiers, strings, list/map literals and postfix chains stay bare
func (n *pgNode) renderTarget() string {
	switch n.K {
	case "ident", "str", "list", "map", "index", "member", "call", "method":
		return n.Render(pgPosOperand)
	case "int", "float":
		return pgParen(n.Render(pgPosExpr))
	}
	return n.Render(pgPosOperand)
}

// ---------- translation to a Coq ast term (specification side: no annotations) ----------

func pgCoqZ(i int64) string {
	if i < 0 {
		return fmt.Sprintf("(%d)%%Z", i)
	}
	return fmt.Sprintf("%d%%Z", i)
}

// exact (mantissa, exponent) of a float64, mantissa odd or zero
func pgCoqFloat(f float64) string {
	switch {
	case math.IsNaN(f):
		return "FNaN"
	case math.IsInf(f, 1):
		return "(FInf false)"
	case math.IsInf(f, -1):
		return "(FInf true)"
	case f == 0 && math.Signbit(f):
		return "FNegZero"
	case f == 0:
		return "(FFin 0%Z 0%Z)"
	}
	bits := math.Float64bits(f)
	exp := int64((bits >> 52) & 0x7ff)
	man := int64(bits & ((1 << 52) - 1))
	if exp == 0 {
		exp = -1074
	} else {
		man |= 1 << 52
		exp -= 1075
	}
	for man&1 == 0 {
		man >>= 1
		exp++
	}
	if bits>>63 != 0 {
		man = -man
	}
	return fmt.Sprintf("(FFin %s %s)", pgCoqZ(man), pgCoqZ(exp))
}

func pgCoqNames(ns []string) string {
	parts := make([]string, len(ns))
	for i, n := range ns {
		parts[i] = CoqStr(n)
	}
	return CoqList(parts)
}

func pgContains(l []string, s string) bool {
	for _, x := range l {
		if x == s {
			return true
		}
	}
	return false
}

// CoqT: the tree as a Coq `ast` WITHOUT parser annotations.  bound = names of the enclosing binders
// (arguments, let, func, closure parameters): a call whose callee is an identifier that is not bound
// and names a static function is a static call; everything else is left to the reference semantics.
func (n *pgNode) CoqT(bound []string, statics map[string]bool) string {
	sub := func(k *pgNode) string { return k.CoqT(bound, statics) }
	list := func(ks []*pgNode) string {
		parts := make([]string, len(ks))
		for i, k := range ks {
			parts[i] = sub(k)
		}
		return CoqList(parts)
	}
	switch n.K {
	case "int":
		return "(AConst (VInt " + pgCoqZ(n.I) + "))"
	case "float":
		return "(AConst (VFloat " + pgCoqFloat(math.Float64frombits(n.FBits)) + "))"
	case "str":
		return "(AConst (VStr " + CoqStr(n.S) + "))"
	case "ident":
		return "(AIdent " + CoqStr(n.Name) + ")"
	case "let":
		inner := append(append([]string{}, bound...), n.Name)
		return "(ALet " + CoqStr(n.Name) + " " + sub(n.Kids[0]) + " " + n.Kids[1].CoqT(inner, statics) + ")"
	case "func":
		inner := append(append([]string{}, bound...), n.Name)
		fb := append(append([]string{}, inner...), n.Ps...)
		return "(ALet " + CoqStr(n.Name) + " (AClosure " + pgCoqNames(n.Ps) + " " + n.Kids[0].CoqT(fb, statics) + " [] false " + CoqStr(n.Name) + ") " +
			n.Kids[1].CoqT(inner, statics) + ")"
	case "if":
		return "(AIf " + sub(n.Kids[0]) + " " + sub(n.Kids[1]) + " " + sub(n.Kids[2]) + ")"
	case "switch":
		var cs []string
		for i := 1; i+1 < len(n.Kids); i += 2 {
			cs = append(cs, "("+sub(n.Kids[i])+", "+sub(n.Kids[i+1])+")")
		}
		return "(ASwitch " + sub(n.Kids[0]) + " " + CoqList(cs) + " " + sub(n.Kids[len(n.Kids)-1]) + ")"
	case "try":
		return "(ATry " + sub(n.Kids[0]) + " " + sub(n.Kids[1]) + ")"
	case "unary":
		return "(AUnary " + CoqStr(n.Name) + " " + sub(n.Kids[0]) + ")"
	case "op":
		return "(AOp " + CoqStr(n.Name) + " " + sub(n.Kids[0]) + " " + sub(n.Kids[1]) + ")"
	case "clo":
		inner := append(append([]string{}, bound...), n.Ps...)
		return "(AClosure " + pgCoqNames(n.Ps) + " " + n.Kids[0].CoqT(inner, statics) + " [] false [])"
	case "list":
		return "(AList " + list(n.Kids) + ")"
	case "map":
		var es []string
		for i, k := range n.Kids {
			es = append(es, "("+CoqStr(n.Keys[i])+", "+sub(k)+")")
		}
		return "(AMap " + CoqList(es) + ")"
	case "index":
		return "(AIndex " + sub(n.Kids[0]) + " " + sub(n.Kids[1]) + ")"
	case "member":
		return "(AMember " + sub(n.Kids[0]) + " " + CoqStr(n.Name) + ")"
	case "call":
		if f := n.Kids[0]; f.K == "ident" && !pgContains(bound, f.Name) && statics[f.Name] {
			return "(AStatic " + CoqStr(f.Name) + " " + list(n.Kids[1:]) + ")"
		}
		return "(ACall " + sub(n.Kids[0]) + " " + list(n.Kids[1:]) + ")"
	case "method":
		return "(AMethod " + sub(n.Kids[0]) + " " + CoqStr(n.Name) + " " + list(n.Kids[1:]) + ")"
	}
	panic("CoqT: bad node kind " + n.K)
}

// ---------- structural facts used for the evidence and the exclusions ----------

// redeclares: some let/func declares a name that is already a parameter or a local of the same
// function body on the path to it (the condition under which Generate reports a redeclaration;
// such programs are excluded by the property).  scope = names of the current function body.
func (n *pgNode) redeclares(scope []string) bool {
	switch n.K {
	case "let":
		if pgContains(scope, n.Name) || n.Kids[0].redeclares(scope) {
			return true
		}
		return n.Kids[1].redeclares(append(append([]string{}, scope...), n.Name))
	case "func":
		if pgContains(scope, n.Name) || n.Kids[0].redeclares(append([]string{}, n.Ps...)) {
			return true
		}
		return n.Kids[1].redeclares(append(append([]string{}, scope...), n.Name))
	case "clo":
		return n.Kids[0].redeclares(append([]string{}, n.Ps...))
	}
	for _, k := range n.Kids {
		if k.redeclares(scope) {
			return true
		}
	}
	return false
}

var pgLazyStages = map[string]bool{"map": true, "accept": true, "compact": true, "combine": true, "number": true, "iir": true,
	"combine3": true, "combineN": true, "iirCombine": true, "cross": true, "merge": true}

// hasLazyStage: a method call that creates a lazy list stage with a callback
func (n *pgNode) hasLazyStage() bool {
	found := false
	n.Walk(func(x *pgNode) {
		if x.K == "method" && pgLazyStages[x.Name] {
			found = true
		}
	})
	return found
}

// binderReachable: a let/func inside n that is not separated from n by a closure boundary;
// returns the kind of construct at the top of n that leads to it
func pgBinderShape(n *pgNode) string {
	if pgIsBinder(n) {
		return n.K
	}
	var reach func(x *pgNode) bool
	reach = func(x *pgNode) bool {
		if pgIsBinder(x) {
			return true
		}
		if x.K == "clo" {
			return false
		}
		for _, k := range x.Kids {
			if reach(k) {
				return true
			}
		}
		return false
	}
	if reach(n) {
		switch n.K {
		case "if", "switch", "try":
			return n.K + "-with-binder"
		}
		return "nested-binder"
	}
	return ""
}

// pgShadowsCaptured: inside a closure body (not crossing into nested closures) a let declares a name
// that is not a parameter and that its own value expression reads (so the name is captured from
// outside and becomes a local afterwards)
func pgShadowsCaptured(body *pgNode, ps []string) bool {
	found := false
	var walk func(x *pgNode, locals []string)
	walk = func(x *pgNode, locals []string) {
		if x.K == "clo" {
			return
		}
		if x.K == "let" && !pgContains(locals, x.Name) {
			x.Kids[0].Walk(func(y *pgNode) {
				if y.K == "ident" && y.Name == x.Name {
					found = true
				}
			})
			walk(x.Kids[0], locals)
			walk(x.Kids[1], append(append([]string{}, locals...), x.Name))
			return
		}
		for _, k := range x.Kids {
			walk(k, locals)
		}
	}
	walk(body, ps)
	return found
}

// pgCaptureOrder: the names a closure body captures, in the order of their first use in the text
// (the order in which the parser records OuterIdents): identifiers that are in `outside`, not
// parameters and not bound by a let/func/closure parameter between the closure and the use
func pgCaptureOrder(body *pgNode, params []string, outside map[string]bool) []string {
	var order []string
	var walk func(n *pgNode, local []string)
	walk = func(n *pgNode, local []string) {
		switch n.K {
		case "ident":
			if !pgContains(local, n.Name) && outside[n.Name] && !pgContains(order, n.Name) {
				order = append(order, n.Name)
			}
		case "let":
			walk(n.Kids[0], local)
			walk(n.Kids[1], append(append([]string{}, local...), n.Name))
		case "func":
			inner := append(append([]string{}, local...), n.Name)
			walk(n.Kids[0], append(append([]string{}, inner...), n.Ps...))
			walk(n.Kids[1], inner)
		case "clo":
			walk(n.Kids[0], append(append([]string{}, local...), n.Ps...))
		default:
			for _, k := range n.Kids {
				walk(k, local)
			}
		}
	}
	walk(body, params)
	return order
}

// pgCtxPermuted: some closure Y directly nested in a closure X captures at least two names, exactly the
// names X captures, and first uses them in a different order than X's body does (the values reach Y
// through X's context; a context shared between the two would be read in the wrong order)
func pgCtxPermuted(root *pgNode, statics map[string]bool) bool {
	// names that can be captured: every identifier of the program that is a binder somewhere or is
	// neither a constant nor a static function (the arguments of the program are among those)
	outside := map[string]bool{}
	bound := map[string]bool{}
	root.Walk(func(x *pgNode) {
		if x.K == "let" || x.K == "func" {
			bound[x.Name] = true
		}
		if x.K == "clo" || x.K == "func" {
			for _, p := range x.Ps {
				bound[p] = true
			}
		}
	})
	root.Walk(func(x *pgNode) {
		if x.K == "ident" && (bound[x.Name] || !(x.Name == "true" || x.Name == "false" || x.Name == "pi" || statics[x.Name])) {
			outside[x.Name] = true
		}
	})
	found := false
	var nested func(n *pgNode, orderX []string)
	nested = func(n *pgNode, orderX []string) {
		if n.K == "clo" {
			orderY := pgCaptureOrder(n.Kids[0], n.Ps, outside)
			if len(orderY) >= 2 && len(orderY) == len(orderX) && strings.Join(orderY, ",") != strings.Join(orderX, ",") {
				same := true
				for _, y := range orderY {
					if !pgContains(orderX, y) {
						same = false
					}
				}
				if same {
					found = true
				}
			}
			return
		}
		for _, k := range n.Kids {
			nested(k, orderX)
		}
	}
	root.Walk(func(x *pgNode) {
		if x.K == "clo" {
			nested(x.Kids[0], pgCaptureOrder(x.Kids[0], x.Ps, outside))
		} else if x.K == "func" {
			nested(x.Kids[0], pgCaptureOrder(x.Kids[0], append([]string{x.Name}, x.Ps...), outside))
		}
	})
	return found
}

func pgClosureDepth(n *pgNode) int {
	d := 0
	for _, k := range n.Kids {
		if c := pgClosureDepth(k); c > d {
			d = c
		}
	}
	if n.K == "clo" {
		return d + 1
	}
	if n.K == "func" {
		// the function body is one closure level
		if c := pgClosureDepth(n.Kids[0]) + 1; c > d {
			d = c
		}
	}
	return d
}

func pgCallKind(n *pgNode, statics map[string]bool) string {
	if n.Tag != "" {
		return n.Tag
	}
	if n.K == "method" {
		return "method"
	}
	if n.Kids[0].K == "ident" && statics[n.Kids[0].Name] {
		return "static"
	}
	return "closure"
}

// shapes: the boosted shapes present in a program (keys of the evidence histogram)
func (n *pgNode) shapes(statics map[string]bool) map[string]bool {
	res := map[string]bool{}
	n.Walk(func(x *pgNode) {
		switch x.K {
		case "call", "method":
			kind := pgCallKind(x, statics)
			for i, a := range x.Kids[1:] {
				if s := pgBinderShape(a); s != "" {
					if x.K == "method" {
						res[s+" in argument of "+kind+" call"] = true
						res["binder in call argument"] = true
					} else if i >= 1 {
						res[s+" in argument i>=1 of "+kind+" call"] = true
						res["binder in call argument"] = true
					} else {
						res[s+" in argument 0 of "+kind+" call"] = true
					}
				}
				if a.K == "clo" {
					res["closure created inside an argument"] = true
				}
			}
		case "list", "map":
			for _, a := range x.Kids {
				if s := pgBinderShape(a); s != "" {
					res[s+" in "+x.K+" literal element"] = true
					res["binder in literal element"] = true
				}
			}
		case "func":
			rec := false
			x.Kids[0].Walk(func(y *pgNode) {
				if y.K == "ident" && y.Name == x.Name {
					rec = true
				}
			})
			if rec {
				res["recursive func"] = true
			}
		case "clo":
			if pgShadowsCaptured(x.Kids[0], x.Ps) {
				res["let hides a name the same closure captured"] = true
			}
		case "try":
			if x.Kids[1].K == "clo" && len(x.Kids[1].Ps) == 1 {
				res["try with catch closure"] = true
			} else {
				res["try with catch value"] = true
			}
		}
	})
	if pgCtxPermuted(n, statics) {
		res["inner closure reads the enclosing closure's captured names in another order"] = true
	}
	if d := pgClosureDepth(n); d >= 2 {
		res[fmt.Sprintf("closure levels >= %d", min(d, 3))] = true
	}
	return res
}

// ---------- types ----------

type pgTy struct {
	K      string // int float str bool list map fun
	Elem   *pgTy
	Fields []pgField
	Args   []*pgTy
	Ret    *pgTy
	Rec    bool // a recursive function: its first argument must be a small int (termination)
}
type pgField struct {
	Name string
	T    *pgTy
}

var pgTInt, pgTFloat, pgTStr, pgTBool = &pgTy{K: "int"}, &pgTy{K: "float"}, &pgTy{K: "str"}, &pgTy{K: "bool"}

func pgTList(e *pgTy) *pgTy            { return &pgTy{K: "list", Elem: e} }
func pgTFun(r *pgTy, a ...*pgTy) *pgTy { return &pgTy{K: "fun", Args: a, Ret: r} }
func pgTMap(fs ...pgField) *pgTy       { return &pgTy{K: "map", Fields: fs} }

func pgTyEq(a, b *pgTy) bool {
	if a.K != b.K {
		return false
	}
	switch a.K {
	case "list":
		return pgTyEq(a.Elem, b.Elem)
	case "map":
		if len(a.Fields) != len(b.Fields) {
			return false
		}
		for i := range a.Fields {
			if a.Fields[i].Name != b.Fields[i].Name || !pgTyEq(a.Fields[i].T, b.Fields[i].T) {
				return false
			}
		}
		return true
	case "fun":
		if len(a.Args) != len(b.Args) || !pgTyEq(a.Ret, b.Ret) {
			return false
		}
		for i := range a.Args {
			if !pgTyEq(a.Args[i], b.Args[i]) {
				return false
			}
		}
		return true
	}
	return true
}

func (t *pgTy) String() string {
	switch t.K {
	case "list":
		return "list(" + t.Elem.String() + ")"
	case "map":
		var fs []string
		for _, f := range t.Fields {
			fs = append(fs, f.Name+":"+f.T.String())
		}
		return "{" + strings.Join(fs, ",") + "}"
	case "fun":
		var as []string
		for _, a := range t.Args {
			as = append(as, a.String())
		}
		return "(" + strings.Join(as, ",") + ")->" + t.Ret.String()
	}
	return t.K
}

// ---------- the generator ----------

type pgGvar struct {
	name  string
	ty    *pgTy
	depth int
}

type pgGenv struct {
	vars  []pgGvar // innermost last
	depth int      // closure nesting level: names of the same level live in one function body
}

func (e *pgGenv) with(name string, ty *pgTy) *pgGenv {
	vs := append(append([]pgGvar{}, e.vars...), pgGvar{name, ty, e.depth})
	return &pgGenv{vars: vs, depth: e.depth}
}

// a closure body: one level deeper, parameters bound
func (e *pgGenv) enter(ps []string, tys []*pgTy) *pgGenv {
	vs := append([]pgGvar{}, e.vars...)
	for i, p := range ps {
		vs = append(vs, pgGvar{p, tys[i], e.depth + 1})
	}
	return &pgGenv{vars: vs, depth: e.depth + 1}
}

func (e *pgGenv) lookup(name string) (*pgTy, bool) {
	for i := len(e.vars) - 1; i >= 0; i-- {
		if e.vars[i].name == name {
			return e.vars[i].ty, true
		}
	}
	return nil, false
}

// visible variables that satisfy pred (a shadowed variable is not visible)
func (e *pgGenv) visible(pred func(*pgTy) bool) []pgGvar {
	var res []pgGvar
	seen := map[string]bool{}
	for i := len(e.vars) - 1; i >= 0; i-- {
		v := e.vars[i]
		if seen[v.name] {
			continue
		}
		seen[v.name] = true
		if pred(v.ty) {
			res = append(res, v)
		}
	}
	return res
}

var pgNamePool = []string{"a", "b", "c", "d", "f", "g", "k", "m", "n", "p", "pi", "sqr", "abs", "t", "u"}
var pgFieldPool = []string{"a", "b", "f", "k", "v"}
var pgStrPool = []string{"a", "b", "ab", "boom", "x1", "", "zz"}

type pgProgGen struct {
	r        *Rng
	statics  map[string]bool
	illTyped bool // this program gets deliberate type errors (10 % per node)
	redecl   bool // this program redeclares names on purpose
	maxDepth int
	c02      bool // bias for the optimizer check: constant sub-expressions, operator chains with constants, tick/ptick
	tickN    int  // ids handed to tick(k, x)
}

func (g *pgProgGen) pick(n int) int          { return g.r.Pick(n) }
func (g *pgProgGen) chance(p float64) bool   { return g.r.Chance(p) }
func (g *pgProgGen) oneOf(l []string) string { return l[g.pick(len(l))] }

// a name for a new binder of the current function body: never one of the same body (unless the
// program redeclares on purpose); names of outer bodies, constants and static functions are welcome
func (g *pgProgGen) freshName(e *pgGenv, also []string) string {
	taken := map[string]bool{}
	var same []string
	for _, v := range e.vars {
		if v.depth == e.depth {
			taken[v.name] = true
			same = append(same, v.name)
		}
	}
	for _, a := range also {
		taken[a] = true
	}
	if g.redecl && len(same) > 0 && g.chance(0.5) {
		return same[g.pick(len(same))]
	}
	var outer []string
	for _, v := range e.vars {
		if v.depth < e.depth && !taken[v.name] {
			outer = append(outer, v.name)
		}
	}
	if len(outer) > 0 && g.chance(0.25) {
		return outer[g.pick(len(outer))] // shadow a name of an enclosing function body
	}
	for tries := 0; tries < 50; tries++ {
		n := g.oneOf(pgNamePool)
		if !taken[n] {
			return n
		}
	}
	for i := 0; ; i++ {
		n := fmt.Sprintf("v%d", i)
		if !taken[n] {
			return n
		}
	}
}

func (g *pgProgGen) freshNames(e *pgGenv, k int) []string {
	var ns []string
	// parameters start a new body: only they must be pairwise different
	for len(ns) < k {
		n := g.oneOf(pgNamePool)
		if len(e.vars) > 0 && g.chance(0.3) {
			n = e.vars[g.pick(len(e.vars))].name // shadow an outer name
		}
		if !pgContains(ns, n) {
			ns = append(ns, n)
		}
	}
	return ns
}

func (g *pgProgGen) scalarType() *pgTy {
	switch g.pick(10) {
	case 0, 1, 2, 3, 4:
		return pgTInt
	case 5, 6:
		return pgTFloat
	case 7:
		return pgTStr
	default:
		return pgTBool
	}
}

func (g *pgProgGen) randomType(depth int) *pgTy {
	if depth <= 0 || g.chance(0.6) {
		return g.scalarType()
	}
	switch g.pick(4) {
	case 0:
		return pgTList(g.randomType(depth - 1))
	case 1:
		return pgTMap(pgField{"a", g.randomType(depth - 1)}, pgField{"b", pgTInt})
	case 2:
		return pgTFun(g.randomType(depth-1), pgTInt)
	default:
		return pgTFun(g.scalarType(), g.scalarType(), pgTInt)
	}
}

func (g *pgProgGen) otherType(t *pgTy) *pgTy {
	for i := 0; i < 20; i++ {
		o := g.randomType(1)
		if o.K != t.K {
			return o
		}
	}
	return pgTStr
}

// ---- leaves ----

func (g *pgProgGen) intLit() *pgNode {
	switch g.pick(12) {
	case 0:
		return pgNInt(0)
	case 1:
		return pgNInt(-1)
	case 2:
		return pgNInt(63)
	case 3:
		return pgNInt(100)
	case 4:
		return pgNInt(int64(1) << 31)
	case 5:
		return pgNInt(-int64(g.pick(9)) - 1)
	}
	return pgNInt(int64(g.pick(10)))
}

var pgFloatLits = []float64{0.5, 1.5, 2.25, 0.25, 8, 3, -0.5, 100.125, 0}

func (g *pgProgGen) leaf(t *pgTy, e *pgGenv) *pgNode {
	vars := e.visible(func(x *pgTy) bool { return pgTyEq(x, t) })
	pv := 0.8
	if g.c02 {
		pv = 0.45 // more literals: constant sub-expressions for the optimizer
	}
	if len(vars) > 0 && g.chance(pv) {
		return pgNId(vars[g.pick(len(vars))].name)
	}
	switch t.K {
	case "int":
		return g.intLit()
	case "float":
		if _, bound := e.lookup("pi"); !bound && g.chance(0.1) {
			return pgNId("pi")
		}
		return pgNFloat(pgFloatLits[g.pick(len(pgFloatLits))])
	case "str":
		return pgNStr(g.oneOf(pgStrPool))
	case "bool":
		if g.chance(0.5) {
			return pgNId("true")
		}
		return pgNId("false")
	case "list":
		if g.chance(0.12) {
			return pgNList()
		}
		return pgNList(g.leaf(t.Elem, e), g.leaf(t.Elem, e))
	case "map":
		var keys []string
		var vals []*pgNode
		for _, f := range t.Fields {
			keys = append(keys, f.Name)
			vals = append(vals, g.leaf(f.T, e))
		}
		return pgNMap(keys, vals)
	case "fun":
		ps := g.freshNames(e, len(t.Args))
		return pgNClo(ps, g.leaf(t.Ret, e.enter(ps, t.Args)))
	}
	panic("leaf: bad type")
}


// ---- the string methods of coq/Sem/StrLib.v ----

// a string literal of the value language: the tokenizer knows \n \r \t \" \\
func pgEscapeStr(s string) string {
	if !strings.ContainsAny(s, "\\\"\n\r\t") {
		return s
	}
	var b strings.Builder
	for _, c := range s {
		switch c {
		case '\\':
			b.WriteString("\\\\")
		case '"':
			b.WriteString("\\\"")
		case '\n':
			b.WriteString("\\n")
		case '\r':
			b.WriteString("\\r")
		case '\t':
			b.WriteString("\\t")
		default:
			b.WriteRune(c)
		}
	}
	return b.String()
}

// receivers: mostly ASCII (blanks, upper case, separators, lines, numerals), a few non-ASCII strings
// (the model answers unsupported for trim/toLower/toUpper/behind/behindList on them: skipped, not guessed)
var pgStrRecvPool = []string{" ab ", "a,b,,c", "Hello World", "x1\ty ", "k: v1\nk2:  v2 ", "head\n l1 \nl2\n\nl3", "aXbXc", "42", "-7", "+15",
	"12a", "", "aaa", "9223372036854775807", "9223372036854775808", "-9223372036854775808", "\u00e9", "\u00c4b c\u20ac", "a\u00e9a", "zz", "ab"}
var pgStrArgPool = []string{"a", ",", "", "b", "X", "k:", "k2:", "head", " ", "aa", "\u00e9", "l", "ab", "World"}

var pgStrMethodShare = map[string]float64{"int": 0.05, "str": 0.22, "bool": 0.06, "list": 0.30}

var pgStrMethodArgs = map[string]string{"trim": "", "toLower": "", "toUpper": "", "toInt": "", "len": "", "contains": "s", "indexOf": "s",
	"split": "s", "behind": "s", "behindList": "s", "cut": "ii", "replace": "ss"}

func (g *pgProgGen) strRecv(e *pgGenv, size int) *pgNode {
	if size <= 1 || g.chance(0.65) {
		return pgNStr(g.oneOf(pgStrRecvPool))
	}
	return g.expr(pgTStr, e, size, false)
}

// a call of a string method with result type t (int: indexOf toInt len; str: trim toLower toUpper cut
// replace behind; bool: contains; list of str: split behindList); nil for any other type.
// Mostly valid arguments; 10 %: one argument too few / too many / of another type.
func (g *pgProgGen) strMethod(t *pgTy, e *pgGenv, size int) *pgNode {
	var name string
	switch {
	case t.K == "int":
		name = g.oneOf([]string{"indexOf", "indexOf", "toInt", "toInt", "len"})
	case t.K == "str":
		name = g.oneOf([]string{"trim", "toLower", "toUpper", "cut", "cut", "replace", "replace", "behind"})
	case t.K == "bool":
		name = "contains"
	case t.K == "list" && t.Elem != nil && t.Elem.K == "str":
		name = g.oneOf([]string{"split", "split", "behindList"})
	default:
		return nil
	}
	sig := pgStrMethodArgs[name]
	p := g.split(max(size-1, 1+len(sig)), 1+len(sig))
	recv := g.strRecv(e, p[0])
	if name == "toInt" && g.chance(0.5) {
		recv = pgNStr(g.oneOf([]string{"42", "-7", "+15", "0", "007", "12a", "", "-", "9223372036854775807", "9223372036854775808"}))
	}
	if name == "behindList" && g.chance(0.7) {
		recv = pgNStr(g.oneOf([]string{"head\n l1 \nl2\n\nl3", " head \na\n \nb", "x\nhead", "head\n\nz", "a\nb"}))
	}
	var args []*pgNode
	for i, k := range sig {
		if k == 's' {
			if p[1+i] <= 1 || g.chance(0.7) {
				args = append(args, pgNStr(g.oneOf(pgStrArgPool)))
			} else {
				args = append(args, g.expr(pgTStr, e, p[1+i], true))
			}
		} else {
			if p[1+i] <= 1 || g.chance(0.7) {
				args = append(args, pgNInt(int64(g.pick(7)-1)))
			} else {
				args = append(args, g.expr(pgTInt, e, p[1+i], true))
			}
		}
	}
	if g.chance(0.1) {
		switch c := g.pick(3); {
		case c == 0 && len(args) > 0:
			args = args[:len(args)-1]
		case c == 1:
			args = append(args, pgNInt(1))
		case len(args) > 0:
			i := g.pick(len(args))
			args[i] = g.leaf(g.otherType(&pgTy{K: map[rune]string{'s': "str", 'i': "int"}[rune(sig[i])]}), e)
		}
	}
	return pgNMethod("method", recv, name, args...)
}

// pgStrCorpus: fixed programs, a few per string method of the model's pool, argument s (a string)
// and n (an int); run first by C01 and C02.
func pgStrCorpus() []*pgProgram {
	ts := func(s string) *Tree { return &Tree{Kind: "str", S: s} }
	ti := func(i int) *Tree { return &Tree{Kind: "int", I: i} }
	tuples := [][]*Tree{{ts(" a,b,,c "), ti(2)}, {ts("k: v\nhead\n x \ny\n\nz"), ti(-1)}, {ts(""), ti(0)}, {ts("a\u00e9,\u20acb"), ti(1)}, {ts("-12"), ti(40)}}
	s := func() *pgNode { return pgNId("s") }
	n := func() *pgNode { return pgNId("n") }
	m := func(recv *pgNode, name string, args ...*pgNode) *pgNode { return pgNMethod("method", recv, name, args...) }
	mk := func(t *pgNode) *pgProgram {
		return &pgProgram{T: t, ArgNames: []string{"s", "n"}, Tuples: tuples, Stream: "corpus"}
	}
	str := pgNStr
	return []*pgProgram{
		mk(pgNList(m(s(), "trim"), m(str("\t x y\n"), "trim"), m(str(""), "trim"))),
		mk(pgNList(m(s(), "toLower"), m(str("AbC zZ@[`{"), "toLower"), m(s(), "toUpper"), m(str("AbC zZ@[`{"), "toUpper"))),
		mk(pgNList(m(s(), "contains", str(",")), m(s(), "contains", str("")), m(str("abc"), "contains", s()), m(str("abc"), "contains", str("bc")))),
		mk(pgNList(m(s(), "indexOf", str(",")), m(s(), "indexOf", str("")), m(s(), "indexOf", str("b")), m(str("a\u00e9\u20acb"), "indexOf", str("b")), m(str("abcabc"), "indexOf", str("ca")))),
		mk(pgNList(m(s(), "split", str(",")), m(s(), "split", str("")), m(s(), "split", str(",,")), m(str("aXXbXXXc"), "split", str("XX")), m(str(""), "split", str("")))),
		mk(pgNList(m(s(), "cut", pgNInt(1), n()), m(s(), "cut", n(), pgNInt(2)), m(str("abcdef"), "cut", pgNInt(2), pgNInt(3)), m(str("abcdef"), "cut", pgNInt(6), pgNInt(1)),
			m(str("abcdef"), "cut", pgNInt(-3), pgNInt(0)), m(str("a\u00e9\u20acb"), "cut", pgNInt(1), pgNInt(2)), m(str(""), "cut", n(), n()))),
		mk(pgNList(m(s(), "replace", str(","), str(";")), m(s(), "replace", str(""), str("-")), m(str("aaaa"), "replace", str("aa"), str("a")), m(str("abc"), "replace", str("b"), s()),
			m(str(""), "replace", str(""), str("x")))),
		mk(pgNList(m(s(), "behind", str("k:")), m(s(), "behind", str("")), m(s(), "behind", str("nope")), m(str("a: 1\nb:  2  \nb: 3"), "behind", str("b:")))),
		mk(pgNList(m(s(), "behindList", str("head")), m(s(), "behindList", str(" head ")), m(str("h\n a \n\tb\n \nc"), "behindList", str("h")), m(str("x\nh"), "behindList", str("h")),
			m(str("\nq"), "behindList", str("")))),
		mk(pgNList(m(str("42"), "toInt"), m(str("-7"), "toInt"), m(str("+15"), "toInt"), m(str("007"), "toInt"), m(str("9223372036854775807"), "toInt"),
			m(str("-9223372036854775808"), "toInt"), pgNTry(m(s(), "toInt"), n()), pgNTry(m(str("9223372036854775808"), "toInt"), n()),
			pgNTry(m(str("1_0"), "toInt"), n()), pgNTry(m(str("+"), "toInt"), n()), pgNTry(m(str(" 1"), "toInt"), n()), pgNTry(m(str("0x10"), "toInt"), n()))),
		// misuse: wrong argument type, wrong argument count, unknown method (each caught)
		mk(pgNList(pgNTry(m(s(), "contains", n()), pgNInt(-1)), pgNTry(m(s(), "cut", str("1"), n()), pgNInt(-2)), pgNTry(m(s(), "cut", n(), str("1")), pgNInt(-3)),
			pgNTry(m(s(), "replace", str("a")), pgNInt(-4)), pgNTry(m(s(), "trim", n()), pgNInt(-5)), pgNTry(m(s(), "split", pgNList()), pgNInt(-6)),
			pgNTry(m(s(), "replace", str("a"), n()), pgNInt(-7)), pgNTry(m(s(), "indexOf"), pgNInt(-8)), pgNTry(m(n(), "trim"), pgNInt(-9)))),
		// visit / eval / set / closure.args (argument s unused)
		mk(pgNList(m(pgNList(pgNInt(1), n(), pgNInt(3)), "visit", pgNInt(7), pgNClo([]string{"a", "b"}, pgNOp("-", pgNOp("*", pgNId("a"), pgNInt(3)), pgNId("b")))),
			m(pgNList(), "visit", n(), pgNClo([]string{"a", "b"}, pgNId("b"))),
			pgNTry(m(pgNList(pgNInt(1)), "visit", n(), pgNClo([]string{"a"}, pgNId("a"))), pgNInt(-1)),
			pgNTry(m(pgNList(pgNInt(1)), "visit", n(), n()), pgNInt(-2)))),
		mk(pgNList(m(pgNList(pgNInt(1), n(), pgNInt(3)), "set", pgNInt(0), s()), m(pgNList(pgNInt(1), n(), pgNInt(3)), "set", pgNInt(2), pgNInt(9)),
			pgNTry(m(pgNList(pgNInt(1), n()), "set", pgNInt(2), pgNInt(9)), pgNInt(-1)), pgNTry(m(pgNList(pgNInt(1), n()), "set", pgNInt(-1), pgNInt(9)), pgNInt(-2)),
			pgNTry(m(pgNList(pgNInt(1), n()), "set", n(), pgNInt(9)), pgNInt(-3)), pgNTry(m(pgNList(pgNInt(1)), "set", s(), pgNInt(9)), pgNInt(-4)),
			pgNTry(m(pgNList(), "set", pgNInt(0), pgNInt(9)), pgNInt(-5)), m(m(pgNList(pgNInt(1), n()), "map", pgNClo([]string{"e"}, pgNOp("*", pgNId("e"), pgNInt(2)))), "eval"),
			m(pgNList(), "eval"))),
		mk(pgNList(m(pgNClo([]string{"a"}, pgNId("a")), "args"), m(pgNClo([]string{"a", "b", "c"}, n()), "args"),
			m(pgNClo([]string{"a", "b"}, pgNOp("+", pgNId("a"), n())), "args"), pgNTry(m(pgNClo([]string{"a"}, pgNId("a")), "args", n()), pgNInt(-1)))),
		// results flow on: a split list through list methods, indexOf into cut
		mk(m(m(m(s(), "split", str(",")), "map", pgNClo([]string{"p"}, m(m(pgNId("p"), "trim"), "toUpper"))), "reverse")),
		mk(m(s(), "cut", pgNOp("+", m(s(), "indexOf", str(",")), pgNInt(1)), m(m(s(), "split", str(",")), "size"))),
	}
}

// ---- expressions ----

// split a budget into k parts (each >= 1)
func (g *pgProgGen) split(size, k int) []int {
	parts := make([]int, k)
	for i := range parts {
		parts[i] = 1
	}
	for rest := size - k; rest > 0; rest-- {
		parts[g.pick(k)]++
	}
	return parts
}

// expr generates an expression of type t within a budget of about `size` nodes.  allowLet: the
// position is one where the parser accepts let/func directly.
func (g *pgProgGen) expr(t *pgTy, e *pgGenv, size int, allowLet bool) *pgNode {
	if g.illTyped && g.chance(0.1) {
		t = g.otherType(t) // a deliberate type error
	}
	if size <= 1 || e.depth > g.maxDepth+3 {
		return g.leaf(t, e)
	}
	if g.c02 && size >= 3 && t.K != "err" {
		c := g.pick(100)
		switch {
		case c < 6:
			// tick(k, x): an impure host function that counts its calls and returns x
			g.tickN++
			return pgNCall("static", pgNId("tick"), pgNInt(int64(g.tickN)), g.expr(t, e, size-2, true))
		case c < 8:
			return pgNCall("static", pgNId("ptick"), pgNInt(0), g.expr(t, e, size-2, true))
		case c < 16:
			if size >= 5 {
				return g.chain(t, e, size)
			}
		case c < 23:
			// an impure call inside a capturing closure nested in a closure that is a folding candidate
			if size >= 12 && t.K == "int" {
				n := g.impureNested(e)
				if g.chance(0.5) {
					// ... combined with something that depends on the variables
					n = g.guard(n, t, e, false)
					return pgNOp(g.oneOf([]string{"+", "-", "*"}), n, g.expr(pgTInt, e, max(size-n.Count()-1, 1), false))
				}
				return g.guard(n, t, e, allowLet)
			}
		case c < 29:
			// shadowing of an outer (constant) name after its use inside a closure / func body
			if size >= 14 && t.K == "int" {
				if n := g.shadowAfterUse(e); n != nil {
					return g.guard(n, t, e, allowLet)
				}
			}
		case c < 32:
			// a pure built-in failing on constants must stay in the program (the fold is dropped, not replaced)
			if size >= 4 {
				var bad *pgNode
				switch g.pick(4) {
				case 0:
					bad = g.staticCall(t, e, []string{"abs", "sqr", "sign", "int", "float"}, pgConstOf(g.oneOf([]string{"str", "bool", "list"}), g.pick(4)))
				case 1:
					bad = pgNMethod("method", pgNList(), g.oneOf([]string{"first", "last", "sum"}))
				case 2:
					bad = pgNOp(g.oneOf([]string{"%", "<<", "-", "<"}), pgConstOf("int", g.pick(5)), pgConstOf(g.oneOf([]string{"str", "bool", "map"}), g.pick(4)))
				default:
					bad = pgNIndex(pgNList(pgNInt(1)), pgNInt(int64(1+g.pick(3))))
				}
				return pgNTry(bad, g.expr(t, e, size-3, true))
			}
		}
	}
	// wrappers that exist for every type
	for tries := 0; tries < 4; tries++ {
		c := g.pick(100)
		switch {
		case c < 12:
			if allowLet && size >= 3 {
				return g.letExpr(t, e, size)
			}
		case c < 16:
			if allowLet && size >= 6 {
				return g.funcExpr(t, e, size)
			}
		case c < 23:
			if size >= 4 {
				p := g.split(size-1, 3)
				return pgNIf(g.expr(pgTBool, e, p[0], false), g.expr(t, e, p[1], true), g.expr(t, e, p[2], true))
			}
		case c < 26:
			if size >= 5 {
				return g.switchExpr(t, e, size)
			}
		case c < 31:
			if size >= 4 {
				return g.tryExpr(t, e, size)
			}
		case c < 33:
			if size >= 5 && g.chance(0.5) {
				q := g.split(size-3, 2)
				return pgNIf(g.expr(pgTBool, e, q[0], false), g.throwCall(t, e), g.expr(t, e, q[1], true))
			}
		case c < 37:
			if size >= 4 {
				return g.redex(t, e, size)
			}
		case c < 47:
			// call a visible function (or a curried one) that returns t
			if n := g.callVar(t, e, size); n != nil {
				return g.guard(n, t, e, allowLet)
			}
		case c < 52:
			if size >= 4 {
				return g.mapFieldCall(t, e, size)
			}
		case c < 56:
			if size >= 3 {
				// [e1, e2][i]  /  list variable
				l := g.expr(pgTList(t), e, size-2, false)
				return pgNIndex(l, pgNInt(int64(g.pick(2))))
			}
		case c < 60:
			if size >= 3 {
				key := g.oneOf(pgFieldPool)
				m := g.expr(pgTMap(pgField{key, t}), e, size-1, false)
				return pgNMember(m, key)
			}
		case c < 63:
			if size >= 3 {
				l := g.expr(pgTList(t), e, size-1, false)
				return pgNMethod("method", l, g.oneOf([]string{"first", "last"}))
			}
		case c < 66:
			if size >= 9 && t.K != "fun" {
				return g.orderProbe(t, e, size)
			}
		case c < 70:
			if size >= 16 && t.K == "int" {
				if n := g.ctxPermute(e, size); n != nil {
					return g.guard(n, t, e, allowLet)
				}
			}
		default:
			return g.typed(t, e, size, allowLet)
		}
	}
	return g.typed(t, e, size, allowLet)
}

// two sibling sub-expressions that may both throw, with different texts: which text surfaces shows
// the order of evaluation (left to right) of operands, call arguments, list elements and map values
func (g *pgProgGen) orderProbe(t *pgTy, e *pgGenv, size int) *pgNode {
	p := g.split(max(size-8, 4), 4)
	texts := []string{"bang", "zap", "ouch", "boom"}
	i := g.pick(4)
	j := (i + 1 + g.pick(3)) % 4
	mk := func(txt string, cs, vs int) *pgNode {
		c := pgNId("true")
		if g.chance(0.6) {
			c = g.expr(pgTBool, e, cs, false)
		}
		return pgNIf(c, g.staticCall(t, e, []string{"throw"}, pgNStr(txt)), g.expr(t, e, vs, true))
	}
	a, b := mk(texts[i], p[0], p[1]), mk(texts[j], p[2], p[3])
	switch g.pick(4) {
	case 0:
		return pgNIndex(pgNList(a, b), pgNInt(int64(g.pick(2))))
	case 1:
		return pgNMember(pgNMap([]string{"a", "b"}, []*pgNode{a, b}), g.oneOf([]string{"a", "b"}))
	case 2:
		ps := g.freshNames(e, 2)
		return pgNCall("closure", pgNClo(ps, pgNId(ps[g.pick(2)])), a, b)
	}
	switch t.K {
	case "int", "float":
		return pgNOp(g.oneOf([]string{"+", "-", "*"}), a, b)
	case "str":
		return pgNOp("+", a, b)
	case "list":
		return pgNOp("+", a, b)
	}
	return pgNIndex(pgNList(a, b), pgNInt(int64(g.pick(2))))
}

func (g *pgProgGen) letExpr(t *pgTy, e *pgGenv, size int) *pgNode {
	vt := g.randomType(1)
	if g.chance(0.5) {
		vt = pgTInt
	}
	name := g.freshName(e, nil)
	p := g.split(size-1, 2)
	// the new name hides a name of an enclosing function body: use the outer value in the let value
	// (`let y = y + 1; ...` inside a closure: y is captured AND a local from here on)
	if ot, ok := e.lookup(name); ok && g.chance(0.6) {
		switch ot.K {
		case "int", "float":
			v := pgNOp(g.oneOf([]string{"+", "-", "*"}), pgNId(name), g.expr(pgTInt, e, max(p[0]-2, 1), false))
			return pgNLet(name, v, g.expr(t, e.with(name, ot), p[1], true))
		case "str":
			v := pgNOp("+", pgNId(name), g.expr(pgTStr, e, max(p[0]-2, 1), false))
			return pgNLet(name, v, g.expr(t, e.with(name, ot), p[1], true))
		}
	}
	v := g.expr(vt, e, p[0], false)
	return pgNLet(name, v, g.expr(t, e.with(name, vt), p[1], true))
}

// func f(n, ...) body; rest   - recursive with a decreasing int and a base case, or plain
func (g *pgProgGen) funcExpr(t *pgTy, e *pgGenv, size int) *pgNode {
	name := g.freshName(e, nil)
	p := g.split(size-1, 2)
	if g.chance(0.6) {
		// recursive: func f(n, acc) if n <= 0 then base else step(f(n-1, ...))
		ret := pgTInt
		if g.chance(0.3) {
			ret = g.scalarType()
		}
		nargs := 1 + g.pick(2)
		argTys := []*pgTy{pgTInt}
		if nargs == 2 {
			argTys = append(argTys, ret)
		}
		ft := pgTFun(ret, argTys...)
		ft.Rec = true
		ps := []string{}
		for len(ps) < nargs {
			c := g.oneOf(pgNamePool)
			if !pgContains(ps, c) && c != name {
				ps = append(ps, c)
			}
		}
		// inside the body the function's own name is visible (one level up), then the parameters
		// (hidden from the generated sub-expressions: only the explicit call below recurs)
		body := e.with(name, &pgTy{K: "self"}).enter(ps, argTys)
		q := g.split(max(p[0]-8, 2), 2)
		base := g.expr(ret, body, q[0], true)
		recArgs := []*pgNode{pgNOp("-", pgNId(ps[0]), pgNInt(1))}
		if nargs == 2 {
			recArgs = append(recArgs, g.expr(ret, body, q[1], true))
		}
		var step *pgNode = pgNCall("closure", pgNId(name), recArgs...)
		if ret.K == "int" && g.chance(0.7) {
			step = pgNOp(g.oneOf([]string{"+", "*", "-"}), g.leaf(pgTInt, body), step)
		}
		// the recursion stops after at most 6 levels whoever calls the function with whatever value
		// (an accumulator like s + s doubles on every level)
		stop := pgNOp("|", pgNOp("<=", pgNId(ps[0]), pgNInt(0)), pgNOp(">", pgNId(ps[0]), pgNInt(6)))
		if ret.K != "str" && g.chance(0.4) {
			stop = pgNOp("<=", pgNId(ps[0]), pgNInt(0)) // numbers cannot grow beyond 64 bits: the plain test is safe
		}
		fb := pgNIf(stop, base, step)
		return pgNFunc(name, ps, fb, g.exprUsing(t, e.with(name, ft), name, ft, p[1]))
	}
	k := 1 + g.pick(3)
	var argTys []*pgTy
	for i := 0; i < k; i++ {
		argTys = append(argTys, g.scalarType())
	}
	ret := g.randomType(1)
	ft := pgTFun(ret, argTys...)
	ps := g.freshNames(e, k)
	for pgContains(ps, name) {
		ps = g.freshNames(e, k)
	}
	// not recursive: the function's own name is hidden from its body (no base case would be generated)
	fb := g.expr(ret, e.with(name, &pgTy{K: "self"}).enter(ps, argTys), p[0], true)
	return pgNFunc(name, ps, fb, g.exprUsing(t, e.with(name, ft), name, ft, p[1]))
}

// an expression of type t that calls the function `name` when the types allow it
func (g *pgProgGen) exprUsing(t *pgTy, e *pgGenv, name string, ft *pgTy, size int) *pgNode {
	if pgTyEq(ft.Ret, t) && g.chance(0.8) {
		return g.callOf(pgNId(name), "closure", ft, e, size)
	}
	if size >= 4 && g.chance(0.6) {
		// let r = f(...); <t>
		p := g.split(size-1, 2)
		r := g.freshName(e, nil)
		return pgNLet(r, g.callOf(pgNId(name), "closure", ft, e, p[0]), g.expr(t, e.with(r, ft.Ret), p[1], true))
	}
	return g.expr(t, e, size, true)
}

// small, terminating argument for the decreasing parameter of a recursive function
func (g *pgProgGen) smallInt(e *pgGenv) *pgNode {
	vars := e.visible(func(x *pgTy) bool { return x.K == "int" })
	if len(vars) > 0 && g.chance(0.5) {
		return pgNOp("%", pgNId(vars[g.pick(len(vars))].name), pgNInt(int64(2+g.pick(3))))
	}
	return pgNInt(int64(g.pick(5)))
}

// f(args) for a callee of function type ft; arguments i>=1 are binders with a boosted probability
func (g *pgProgGen) callOf(f *pgNode, tag string, ft *pgTy, e *pgGenv, size int) *pgNode {
	as := g.args(ft.Args, e, size-1, 1)
	if ft.Rec {
		as[0] = g.smallInt(e)
	}
	return pgNCall(tag, f, as...)
}

func (g *pgProgGen) args(tys []*pgTy, e *pgGenv, size int, firstBoosted int) []*pgNode {
	if len(tys) == 0 {
		return nil
	}
	p := g.split(max(size, len(tys)), len(tys))
	var res []*pgNode
	for i, at := range tys {
		if i >= firstBoosted && p[i] >= 3 && g.chance(0.45) {
			res = append(res, g.binder(at, e, p[i]))
		} else {
			res = append(res, g.expr(at, e, p[i], true))
		}
	}
	return res
}

// a binding construct of type t for an argument / literal element position
func (g *pgProgGen) binder(t *pgTy, e *pgGenv, size int) *pgNode {
	c := g.pick(100)
	switch {
	case c < 45 || size < 5:
		return g.letExpr(t, e, size)
	case c < 55 && size >= 6:
		return g.funcExpr(t, e, size)
	case c < 75:
		p := g.split(size-1, 3)
		return pgNIf(g.expr(pgTBool, e, p[0], false), g.letExpr(t, e, max(p[1], 3)), g.expr(t, e, p[2], true))
	case c < 85:
		p := g.split(size-2, 3)
		return pgNSwitch(g.expr(pgTInt, e, p[0], false), [][2]*pgNode{{pgNInt(int64(g.pick(3))), g.letExpr(t, e, max(p[1], 3))}}, g.expr(t, e, p[2], true))
	default:
		p := g.split(size-1, 2)
		return pgNTry(g.letExpr(t, e, max(p[0], 3)), g.expr(t, e, p[1], true))
	}
}

func (g *pgProgGen) switchExpr(t *pgTy, e *pgGenv, size int) *pgNode {
	k := 1 + g.pick(2)
	p := g.split(size-1-k, 2+k)
	var cases [][2]*pgNode
	st := pgTInt
	if g.chance(0.2) {
		st = pgTStr
	}
	for i := 0; i < k; i++ {
		var c *pgNode
		if st == pgTInt {
			c = pgNInt(int64(g.pick(4)))
		} else {
			c = pgNStr(g.oneOf(pgStrPool))
		}
		cases = append(cases, [2]*pgNode{c, g.expr(t, e, p[2+i], true)})
	}
	return pgNSwitch(g.expr(st, e, p[0], false), cases, g.expr(t, e, p[1], true))
}

func (g *pgProgGen) tryExpr(t *pgTy, e *pgGenv, size int) *pgNode {
	p := g.split(size-1, 2)
	var body *pgNode
	c := g.pick(3)
	switch {
	case c == 0 && p[0] >= 5:
		// a throw behind a condition
		q := g.split(p[0]-3, 2)
		body = pgNIf(g.expr(pgTBool, e, q[0], false), g.throwCall(t, e), g.expr(t, e, q[1], true))
	case c == 1 && p[0] >= 4:
		// a fault: modulo by something that may be zero, index out of range, missing key
		switch {
		case t.K == "int":
			body = pgNOp("%", g.expr(pgTInt, e, p[0]-3, false), g.leaf(pgTInt, e))
		default:
			body = pgNIndex(pgNList(g.expr(t, e, p[0]-3, true)), g.leaf(pgTInt, e))
		}
	default:
		body = g.expr(t, e, p[0], true)
	}
	if g.chance(0.4) && p[1] >= 3 {
		// catch closure: the error text is only used as "lit" ~ e
		en := g.freshNames(e, 1)
		ce := e.enter(en, []*pgTy{{K: "err"}})
		if g.chance(0.5) && p[1] >= 6 {
			q := g.split(p[1]-4, 2)
			return pgNTry(body, pgNClo(en, pgNIf(pgNOp("~", pgNStr("boom"), pgNId(en[0])), g.expr(t, ce, q[0], true), g.expr(t, ce, q[1], true))))
		}
		return pgNTry(body, pgNClo(en, g.expr(t, ce, p[1]-1, true)))
	}
	if t.K == "fun" && len(t.Args) == 1 {
		// a one-parameter closure in catch position would be called with the error text
		return g.typed(t, e, size, false)
	}
	return pgNTry(body, g.expr(t, e, p[1], true))
}

// throw("text") with one of a few texts, so that WHICH error surfaces (evaluation order) is observable
func (g *pgProgGen) throwCall(t *pgTy, e *pgGenv) *pgNode {
	txt := "boom"
	if g.chance(0.5) {
		txt = g.oneOf([]string{"bang", "zap", "ouch"})
	}
	return g.staticCall(t, e, []string{"throw"}, pgNStr(txt))
}

// ((a, b) -> body)(args)
func (g *pgProgGen) redex(t *pgTy, e *pgGenv, size int) *pgNode {
	k := 1 + g.pick(4)
	var argTys []*pgTy
	for i := 0; i < k; i++ {
		argTys = append(argTys, g.randomType(1))
	}
	ft := pgTFun(t, argTys...)
	p := g.split(size-1, 2)
	ps := g.freshNames(e, k)
	clo := pgNClo(ps, g.expr(t, e.enter(ps, argTys), p[0], true))
	return g.callOf(clo, "closure", ft, e, p[1])
}

// call of a visible variable of function type returning t (directly, or curried: f(x)(y))
func (g *pgProgGen) callVar(t *pgTy, e *pgGenv, size int) *pgNode {
	fs := e.visible(func(x *pgTy) bool {
		return x.K == "fun" && (pgTyEq(x.Ret, t) || (x.Ret.K == "fun" && pgTyEq(x.Ret.Ret, t)))
	})
	if len(fs) == 0 {
		if size >= 6 && g.chance(0.5) {
			return g.curried(t, e, size)
		}
		return nil
	}
	f := fs[g.pick(len(fs))]
	if pgTyEq(f.ty.Ret, t) {
		return g.callOf(pgNId(f.name), "closure", f.ty, e, size)
	}
	p := g.split(size, 2)
	inner := g.callOf(pgNId(f.name), "closure", f.ty, e, p[0])
	return g.callOf(inner, "closure", f.ty.Ret, e, p[1])
}

// three closure levels capturing an argument, a let and an outer captured value, applied one by one:
//
//	let p = <int>; (a -> b -> c -> <int over a b c p and the outer variables>)(e1)(e2)(e3)
func (g *pgProgGen) curried(t *pgTy, e *pgGenv, size int) *pgNode {
	levels := 2 + g.pick(2)
	p := g.split(max(size-2*levels-2, levels+2), levels+2)
	ln := g.freshName(e, nil)
	lt := g.scalarType()
	e1 := e.with(ln, lt)
	var names [][]string
	var tys [][]*pgTy
	cur := e1
	for i := 0; i < levels; i++ {
		k := 1
		if g.chance(0.3) {
			k = 2
		}
		ps := g.freshNames(cur, k)
		at := make([]*pgTy, k)
		for j := range at {
			at[j] = g.scalarType()
		}
		names = append(names, ps)
		tys = append(tys, at)
		cur = cur.enter(ps, at)
	}
	body := g.expr(t, cur, p[0], true)
	for i := levels - 1; i >= 0; i-- {
		body = pgNClo(names[i], body)
	}
	// the type of the closure chain, outermost first
	ft := t
	for i := levels - 1; i >= 0; i-- {
		ft = pgTFun(ft, tys[i]...)
	}
	var call *pgNode = body
	cft := ft
	for i := 0; i < levels; i++ {
		call = g.callOf(call, "closure", cft, e1, p[2+i])
		cft = cft.Ret
	}
	return pgNLet(ln, g.expr(lt, e, p[1], false), call)
}

// a let/func node in a position where the grammar does not accept one directly
func (g *pgProgGen) guard(n *pgNode, t *pgTy, e *pgGenv, allowLet bool) *pgNode {
	if allowLet || !pgIsBinder(n) {
		return n
	}
	return pgNIf(pgNId("true"), n, g.leaf(t, e))
}

// an outer closure whose body first mentions the captured names in one order (b in a condition or a let,
// then a) and returns an inner closure that mentions the same names in another order (a before b) in a
// non-commutative combination, without using the outer closure's parameter; applied level by level:
//
//	(p -> if b > p then (q -> a * q - b) else (q -> q))(e1)(e2)        - optionally a third level around it
func (g *pgProgGen) ctxPermute(e *pgGenv, size int) *pgNode {
	vars := e.visible(func(x *pgTy) bool { return x.K == "int" })
	if len(vars) < 2 {
		return nil
	}
	i := g.pick(len(vars))
	j := (i + 1 + g.pick(len(vars)-1)) % len(vars)
	a, b := vars[i].name, vars[j].name
	fresh := func(n int) []string {
		var ns []string
		for len(ns) < n {
			c := g.oneOf(pgNamePool)
			if c != a && c != b && !pgContains(ns, c) {
				ns = append(ns, c)
			}
		}
		return ns
	}
	ns := fresh(3)
	p, q, r := ns[0], ns[1], ns[2]
	var innerBody *pgNode
	switch g.pick(4) {
	case 0:
		innerBody = pgNOp("-", pgNOp("*", pgNId(a), pgNId(q)), pgNId(b))
	case 1:
		innerBody = pgNOp("-", pgNId(a), pgNOp("+", pgNOp("*", pgNId(b), pgNInt(3)), pgNId(q)))
	case 2:
		innerBody = pgNOp("+", pgNOp("<<", pgNId(a), pgNInt(4)), pgNOp("-", pgNId(b), pgNId(q)))
	default:
		innerBody = pgNOp("-", pgNIndex(pgNList(pgNId(a), pgNId(b)), pgNInt(0)), pgNOp("*", pgNId(b), pgNId(q)))
	}
	inner := pgNClo([]string{q}, innerBody)
	other := pgNClo([]string{q}, pgNId(q))
	var outerBody *pgNode
	switch g.pick(3) {
	case 0:
		outerBody = pgNIf(pgNOp(g.cmpOp(), pgNId(b), pgNId(p)), inner, other)
	case 1:
		t := fresh(1)[0]
		for t == p || t == q {
			t = fresh(1)[0]
		}
		outerBody = pgNLet(t, pgNOp("+", pgNId(b), pgNId(p)), pgNIf(pgNOp(">=", pgNId(t), pgNId(p)), inner, other))
	default:
		outerBody = pgNIf(pgNOp("=", pgNCall("static", pgNId("min"), pgNId(b), pgNId(p)), pgNId(p)), inner, inner)
		if _, bound := e.lookup("min"); bound {
			outerBody = pgNIf(pgNOp("<", pgNId(b), pgNId(p)), inner, inner)
		}
	}
	outer := pgNClo([]string{p}, outerBody)
	sz := g.split(max(size-14, 3), 3)
	arg := func(k int) *pgNode { return g.expr(pgTInt, e, sz[k], true) }
	if g.chance(0.35) {
		// three levels
		outer3 := pgNClo([]string{r}, outer)
		return pgNCall("closure", pgNCall("closure", pgNCall("closure", outer3, arg(0)), arg(1)), arg(2))
	}
	if g.chance(0.5) {
		return pgNCall("closure", pgNCall("closure", outer, arg(0)), arg(1))
	}
	// let f = outer; f(e1)(e2) needs a let position: the caller guards it
	f := g.freshName(e, []string{a, b})
	return pgNLet(f, outer, pgNCall("closure", pgNCall("closure", pgNId(f), arg(0)), arg(1)))
}

// m.f(args) where the field f of the map m holds a closure
func (g *pgProgGen) mapFieldCall(t *pgTy, e *pgGenv, size int) *pgNode {
	k := 1 + g.pick(3)
	var argTys []*pgTy
	for i := 0; i < k; i++ {
		argTys = append(argTys, g.scalarType())
	}
	ft := pgTFun(t, argTys...)
	fname := g.oneOf([]string{"f", "g", "size", "get"}) // a field may carry the name of a method
	mt := pgTMap(pgField{fname, ft}, pgField{"v", pgTInt})
	ms := e.visible(func(x *pgTy) bool { return pgTyEq(x, mt) })
	p := g.split(size-1, 2)
	if len(ms) > 0 && g.chance(0.7) {
		return pgNMethod("mapfield", pgNId(ms[g.pick(len(ms))].name), fname, g.args(argTys, e, size-2, 0)...)
	}
	if g.chance(0.5) || size < 7 {
		m := g.expr(mt, e, p[0], false)
		return pgNMethod("mapfield", m, fname, g.args(argTys, e, p[1], 0)...)
	}
	// let m = {f: closure, v: int}; m.f(args)   - needs a let position; wrap in `if true` otherwise harmless
	mn := g.freshName(e, nil)
	m := g.typed(mt, e, p[0], false)
	call := pgNMethod("mapfield", pgNId(mn), fname, g.args(argTys, e.with(mn, mt), p[1], 0)...)
	return pgNIf(pgNId("true"), pgNLet(mn, m, call), g.leaf(t, e))
}

// total arithmetic on ints: the only callbacks handed to lazy list stages
func (g *pgProgGen) totalInt(e *pgGenv, param string, size int) *pgNode {
	if size <= 1 {
		vars := e.visible(func(x *pgTy) bool { return x.K == "int" })
		if g.chance(0.5) || len(vars) == 0 {
			if g.chance(0.6) {
				return pgNId(param)
			}
			return pgNInt(int64(g.pick(10)))
		}
		return pgNId(vars[g.pick(len(vars))].name)
	}
	p := g.split(size-1, 2)
	return pgNOp(g.oneOf([]string{"+", "-", "*"}), g.totalInt(e, param, p[0]), g.totalInt(e, param, p[1]))
}

// int-valued methods of int lists: min, max, single, minMax(key).min/.max/.minItem/.maxItem
func (g *pgProgGen) listToInt(e *pgGenv, size int) *pgNode {
	p := g.split(size-2, 2)
	l := g.expr(pgTList(pgTInt), e, p[0], false)
	switch g.pick(8) {
	case 0:
		return pgNMethod("method", l, "min")
	case 1:
		return pgNMethod("method", l, "max")
	case 2:
		return pgNMethod("method", l, "single")
	case 3, 4, 5, 6:
		// a list stage consumed at once; the mapReduce fingerprint depends on every item and on the order
		if !g.illTyped {
			st := g.listStage(l, e, p[1])
			switch g.pick(5) {
			case 0:
				return pgNMethod("method", st, "size")
			case 1:
				return pgNMethod("method", st, "sum")
			case 2:
				return pgNMethod("method", st, g.oneOf([]string{"first", "last"}))
			}
			ps := g.freshNames(e, 2)
			return pgNMethod("method", st, "mapReduce", pgNInt(0),
				pgNClo(ps, pgNOp("+", pgNOp("*", pgNId(ps[0]), pgNInt(3)), pgNId(ps[1]))))
		}
	}
	ps := g.freshNames(e, 1)
	be := e.enter(ps, []*pgTy{pgTInt})
	mm := pgNMethod("method", l, "minMax", pgNClo(ps, g.totalInt(be, ps[0], p[1])))
	return pgNMember(mm, g.oneOf([]string{"min", "max", "minItem", "maxItem"}))
}

// list stages with callbacks of two or more parameters (or a second list) on an int list l; the
// callbacks are total arithmetic / comparisons on ints, as for map and accept
func (g *pgProgGen) listStage(l *pgNode, e *pgGenv, size int) *pgNode {
	if g.chance(0.5) {
		// a receiver with enough items (and repeated values) for the stage to show what it does
		k := 3 + g.pick(4)
		items := make([]*pgNode, k)
		for i := range items {
			items[i] = pgNInt(int64(g.pick(4)))
		}
		if g.chance(0.5) {
			l = pgNOp("+", pgNList(items...), l)
		} else {
			l = pgNList(items...)
		}
	}
	ints := func(k int) ([]string, *pgGenv) {
		ps := g.freshNames(e, k)
		ts := make([]*pgTy, k)
		for i := range ts {
			ts[i] = pgTInt
		}
		return ps, e.enter(ps, ts)
	}
	other := func() *pgNode {
		k := g.pick(4)
		items := make([]*pgNode, k)
		for i := range items {
			items[i] = pgNInt(int64(g.pick(10)))
		}
		return pgNList(items...)
	}
	switch g.pick(9) {
	case 0:
		ps, be := ints(2)
		return pgNMethod("method", l, "number", pgNClo(ps, g.totalInt(be, ps[1], size)))
	case 1:
		ps, be := ints(2)
		return pgNMethod("method", l, "compact", pgNClo(ps, pgNOp(g.cmpOp(), g.totalInt(be, ps[0], size), pgNId(ps[1]))))
	case 2:
		ps, be := ints(2)
		return pgNMethod("method", l, "combine", pgNClo(ps, g.totalInt(be, ps[1], size)))
	case 3:
		ps, be := ints(3)
		return pgNMethod("method", l, "combine3", pgNClo(ps, g.totalInt(be, ps[2], size)))
	case 4:
		ps := g.freshNames(e, 1)
		w := pgNId(ps[0])
		body := pgNMethod("method", w, g.oneOf([]string{"sum", "size", "first", "last"}))
		return pgNMethod("method", l, "combineN", pgNInt(int64(1+g.pick(3))), pgNClo(ps, body))
	case 5:
		ps1, be1 := ints(1)
		ps, be := ints(2)
		return pgNMethod("method", l, "iir", pgNClo(ps1, g.totalInt(be1, ps1[0], size/2)), pgNClo(ps, g.totalInt(be, ps[1], size/2)))
	case 6:
		ps1, be1 := ints(1)
		ps, be := ints(3)
		return pgNMethod("method", l, "iirCombine", pgNClo(ps1, g.totalInt(be1, ps1[0], size/2)), pgNClo(ps, g.totalInt(be, ps[2], size/2)))
	case 7:
		ps, be := ints(2)
		return pgNMethod("method", l, "cross", other(), pgNClo(ps, g.totalInt(be, ps[1], size)))
	}
	ps, _ := ints(2)
	return pgNMethod("method", l, "merge", other(), pgNClo(ps, pgNOp(g.oneOf([]string{"<", "<=", ">"}), pgNId(ps[0]), pgNId(ps[1]))))
}

func (g *pgProgGen) cmpOp() string { return g.oneOf([]string{"<", ">", "<=", ">=", "=", "!="}) }

// constructs specific to the type
func (g *pgProgGen) typed(t *pgTy, e *pgGenv, size int, allowLet bool) *pgNode {
	if size <= 1 {
		return g.leaf(t, e)
	}
	if (t.K == "int" || t.K == "str" || t.K == "bool" || (t.K == "list" && t.Elem != nil && t.Elem.K == "str")) && g.chance(pgStrMethodShare[t.K]) {
		if n := g.strMethod(t, e, size); n != nil {
			return n
		}
	}
	switch t.K {
	case "int":
		if !g.illTyped && size >= 4 && g.chance(0.07) {
			return g.listToInt(e, size)
		}
		c := g.pick(100)
		switch {
		case c < 40:
			p := g.split(size-1, 2)
			return pgNOp(g.oneOf([]string{"+", "-", "*", "+", "-", "*", "&", "|"}), g.expr(pgTInt, e, p[0], false), g.expr(pgTInt, e, p[1], false))
		case c < 46:
			return pgNOp("%", g.expr(pgTInt, e, size-2, false), pgNInt(int64(2+g.pick(7))))
		case c < 50:
			return pgNOp(g.oneOf([]string{"<<", ">>"}), g.expr(pgTInt, e, size-2, false), pgNInt(int64(g.pick(5))))
		case c < 53:
			return pgNOp("^", g.leaf(pgTInt, e), pgNInt(int64(g.pick(4))))
		case c < 58:
			return pgNUn("-", g.expr(pgTInt, e, size-1, false))
		case c < 66:
			return g.staticCall(t, e, []string{"abs", "sign", "sqr"}, g.expr(pgTInt, e, size-1, true))
		case c < 72:
			return g.staticCall(t, e, []string{"min", "max", "binAnd", "binOr"}, g.args([]*pgTy{pgTInt, pgTInt}, e, size-1, 1)...)
		case c < 75:
			return g.staticCall(t, e, []string{"int"}, g.expr(pgTFloat, e, size-1, true))
		case c < 80:
			return pgNMethod("method", g.expr(pgTList(g.scalarType()), e, size-1, false), "size")
		case c < 83:
			if g.chance(0.4) {
				k := 1 + g.pick(3)
				at := []*pgTy{pgTInt, pgTInt, pgTInt}[:k]
				return pgNMethod("method", g.expr(pgTFun(pgTInt, at...), e, size-1, false), "args")
			}
			return pgNMethod("method", g.expr(pgTStr, e, size-1, false), "len")
		case c < 87:
			return pgNMethod("method", g.expr(pgTList(pgTInt), e, size-1, false), "sum")
		case c < 93:
			// l.reduce((a,b)->int) / l.mapReduce(init, (acc,x)->int)
			p := g.split(size-2, 3)
			l := g.expr(pgTList(pgTInt), e, p[0], false)
			ps := g.freshNames(e, 2)
			cb := pgNClo(ps, g.expr(pgTInt, e.enter(ps, []*pgTy{pgTInt, pgTInt}), p[1], true))
			if g.chance(0.5) {
				return pgNMethod("method", l, "reduce", cb)
			}
			init := g.expr(pgTInt, e, p[2], true)
			if p[2] >= 3 && g.chance(0.4) {
				init = g.binder(pgTInt, e, p[2])
			}
			if g.chance(0.35) {
				return pgNMethod("method", l, "visit", init, cb) // List.Visit: the loop of mapReduce
			}
			return pgNMethod("method", l, "mapReduce", init, cb)
		case c < 94:
			p := g.split(size-2, 2)
			l := g.expr(pgTList(pgTInt), e, p[0], false)
			ps := g.freshNames(e, 1)
			cb := pgNClo(ps, g.expr(pgTBool, e.enter(ps, []*pgTy{pgTInt}), p[1], true))
			return pgNMethod("method", l, "indexWhere", cb)
		case c < 99:
			return g.listToInt(e, size)
		default:
			return pgNMethod("method", g.expr(pgTMap(pgField{"a", pgTInt}, pgField{"b", pgTInt}), e, size-1, false), "size")
		}
	case "float":
		c := g.pick(100)
		switch {
		case c < 40:
			p := g.split(size-1, 2)
			a, b := pgTFloat, pgTFloat
			switch g.pick(3) {
			case 0:
				a = pgTInt
			case 1:
				b = pgTInt
			}
			return pgNOp(g.oneOf([]string{"+", "-", "*"}), g.expr(a, e, p[0], false), g.expr(b, e, p[1], false))
		case c < 60:
			a := pgTFloat
			if g.chance(0.5) {
				a = pgTInt
			}
			return pgNOp("/", g.expr(a, e, size-2, false), pgNInt(int64(1)<<uint(g.pick(4))))
		case c < 68:
			return pgNUn("-", g.expr(pgTFloat, e, size-1, false))
		case c < 80:
			return g.staticCall(t, e, []string{"abs", "sign", "sqr"}, g.expr(pgTFloat, e, size-1, true))
		case c < 88:
			return g.staticCall(t, e, []string{"float"}, g.expr(pgTInt, e, size-1, true))
		case c < 92:
			// mean of an int list: exact whenever the size is a power of two
			return pgNMethod("method", g.expr(pgTList(pgTInt), e, size-1, false), "mean")
		default:
			return g.staticCall(t, e, []string{"min", "max"}, g.args([]*pgTy{pgTFloat, pgTFloat}, e, size-1, 1)...)
		}
	case "str":
		c := g.pick(100)
		switch {
		case c < 50:
			p := g.split(size-1, 2)
			b := pgTStr
			switch g.pick(4) {
			case 0:
				b = pgTInt
			case 1:
				b = pgTBool
			}
			return pgNOp("+", g.expr(pgTStr, e, p[0], false), g.expr(b, e, p[1], false))
		case c < 75:
			a := g.oneOf([]string{"int", "bool", "str"})
			return g.staticCall(t, e, []string{"string"}, g.expr(&pgTy{K: a}, e, size-1, true))
		default:
			a := g.oneOf([]string{"int", "bool", "str"})
			return pgNMethod("method", g.expr(&pgTy{K: a}, e, size-1, false), "string")
		}
	case "bool":
		c := g.pick(100)
		switch {
		case c < 35:
			p := g.split(size-1, 2)
			ot := g.oneOf([]string{"int", "int", "int", "float", "str"})
			return pgNOp(g.cmpOp(), g.expr(&pgTy{K: ot}, e, p[0], false), g.expr(&pgTy{K: ot}, e, p[1], false))
		case c < 45:
			p := g.split(size-1, 2)
			ot := g.randomType(1)
			if ot.K == "fun" {
				ot = pgTList(pgTInt)
			}
			return pgNOp(g.oneOf([]string{"=", "!="}), g.expr(ot, e, p[0], false), g.expr(ot, e, p[1], false))
		case c < 63:
			p := g.split(size-1, 2)
			return pgNOp(g.oneOf([]string{"&", "|"}), g.expr(pgTBool, e, p[0], false), g.expr(pgTBool, e, p[1], false))
		case c < 70:
			return pgNUn("!", g.expr(pgTBool, e, size-1, false))
		case c < 78:
			p := g.split(size-1, 2)
			switch g.pick(3) {
			case 0:
				return pgNOp("~", g.expr(pgTStr, e, p[0], false), g.expr(pgTStr, e, p[1], false))
			case 1:
				return pgNOp("~", g.expr(pgTInt, e, p[0], false), g.expr(pgTList(pgTInt), e, p[1], false))
			default:
				return pgNOp("~", pgNStr(g.oneOf(pgFieldPool)), g.expr(pgTMap(pgField{"a", pgTInt}, pgField{"b", pgTInt}), e, p[1], false))
			}
		case c < 86:
			return g.staticCall(t, e, []string{"isInt", "isFloat"}, g.expr(g.scalarType(), e, size-1, true))
		case c < 94:
			p := g.split(size-2, 2)
			l := g.expr(pgTList(pgTInt), e, p[0], false)
			ps := g.freshNames(e, 1)
			return pgNMethod("method", l, "present", pgNClo(ps, g.expr(pgTBool, e.enter(ps, []*pgTy{pgTInt}), p[1], true)))
		default:
			m := g.expr(pgTMap(pgField{"a", pgTInt}, pgField{"b", pgTInt}), e, size-2, false)
			return pgNMethod("method", m, "isAvail", pgNStr(g.oneOf(pgFieldPool)))
		}
	case "list":
		c := g.pick(100)
		switch {
		case c < 40:
			k := g.pick(4)
			if k == 0 && g.chance(0.6) {
				k = 2
			}
			if k == 0 {
				return pgNList()
			}
			p := g.split(max(size-1, k), k)
			var items []*pgNode
			for i := 0; i < k; i++ {
				if p[i] >= 3 && g.chance(0.3) {
					items = append(items, g.binder(t.Elem, e, p[i]))
				} else {
					items = append(items, g.expr(t.Elem, e, p[i], true))
				}
			}
			return pgNList(items...)
		case c < 55:
			if t.Elem.K == "int" && !g.illTyped {
				// lazy stages: total callbacks only
				p := g.split(size-2, 2)
				l := g.expr(pgTList(pgTInt), e, p[0], false)
				ps := g.freshNames(e, 1)
				be := e.enter(ps, []*pgTy{pgTInt})
				if g.chance(0.65) {
					return g.listStage(l, e, p[1])
				}
				if g.chance(0.6) {
					return pgNMethod("method", l, "map", pgNClo(ps, g.totalInt(be, ps[0], p[1])))
				}
				return pgNMethod("method", l, "accept", pgNClo(ps, pgNOp(g.cmpOp(), g.totalInt(be, ps[0], p[1]), pgNInt(int64(g.pick(10))))))
			}
			return pgNMethod("method", g.expr(t, e, size-1, false), "reverse")
		case c < 65:
			p := g.split(size-1, 2)
			n := g.expr(pgTInt, e, p[1], true)
			if p[1] >= 3 && g.chance(0.4) {
				n = g.binder(pgTInt, e, p[1])
			}
			return pgNMethod("method", g.expr(t, e, p[0], false), g.oneOf([]string{"top", "skip"}), n)
		case c < 75:
			p := g.split(size-1, 2)
			x := g.expr(t.Elem, e, p[1], true)
			if p[1] >= 3 && g.chance(0.4) {
				x = g.binder(t.Elem, e, p[1])
			}
			if g.chance(0.3) {
				return pgNMethod("method", g.expr(t, e, p[0], false), "set", pgNInt(int64(g.pick(4)-1)), x) // out of range at times
			}
			return pgNMethod("method", g.expr(t, e, p[0], false), "append", x)
		case c < 82:
			return pgNMethod("method", g.expr(t, e, size-1, false), g.oneOf([]string{"reverse", "reverse", "eval"}))
		case c < 92:
			p := g.split(size-1, 2)
			return pgNOp("+", g.expr(t, e, p[0], false), g.expr(t, e, p[1], false))
		default:
			if t.Elem.K == "int" {
				return g.staticCall(t, e, []string{"numbers"}, pgNInt(int64(g.pick(5))))
			}
			return g.leaf(t, e)
		}
	case "map":
		c := g.pick(100)
		n := len(t.Fields)
		switch {
		case c < 65 || n == 0:
			p := g.split(max(size-1, n), max(n, 1))
			var keys []string
			var vals []*pgNode
			for i, f := range t.Fields {
				keys = append(keys, f.Name)
				if p[i] >= 3 && g.chance(0.3) {
					vals = append(vals, g.binder(f.T, e, p[i]))
				} else {
					vals = append(vals, g.expr(f.T, e, p[i], true))
				}
			}
			return pgNMap(keys, vals)
		case c < 85:
			p := g.split(size-2, 2)
			rest := &pgTy{K: "map", Fields: t.Fields[:n-1]}
			v := g.expr(t.Fields[n-1].T, e, p[1], true)
			if p[1] >= 3 && g.chance(0.4) {
				v = g.binder(t.Fields[n-1].T, e, p[1])
			}
			return pgNMethod("method", g.expr(rest, e, p[0], false), "put", pgNStr(t.Fields[n-1].Name), v)
		default:
			p := g.split(size-1, 2)
			k := g.pick(n + 1)
			return pgNOp("+", g.expr(&pgTy{K: "map", Fields: t.Fields[:k]}, e, p[0], false), g.expr(&pgTy{K: "map", Fields: t.Fields[k:]}, e, p[1], false))
		}
	case "fun":
		ps := g.freshNames(e, len(t.Args))
		return pgNClo(ps, g.expr(t.Ret, e.enter(ps, t.Args), size-1, true))
	case "err":
		return pgNStr("boom")
	}
	return g.leaf(t, e)
}

// a call of one of the named static functions that is not hidden by a local binding; a leaf when all are hidden
func (g *pgProgGen) staticCall(t *pgTy, e *pgGenv, names []string, args ...*pgNode) *pgNode {
	var free []string
	for _, n := range names {
		if _, bound := e.lookup(n); !bound {
			free = append(free, n)
		}
	}
	if len(free) == 0 {
		return g.leaf(t, e)
	}
	return pgNCall("static", pgNId(free[g.pick(len(free))]), args...)
}

// ---------- operator chains with constants (C02: folding and regrouping) ----------

var pgAllOps = []string{"|", "&", "=", "!=", "~", "<", ">", "<=", ">=", "+", "-", "<<", ">>", "*", "%", "/", "^"}
var pgConstKinds = []string{"int", "float", "str", "bool", "list", "map"}

// a literal constant of the given kind (what the optimizer sees as a Const node after folding)
func pgConstOf(kind string, variant int) *pgNode {
	switch kind {
	case "int":
		return pgNInt([]int64{2, 3, 0, 7, 1}[variant%5])
	case "float":
		return pgNFloat([]float64{0.5, 2.5, 4, 0.25}[variant%4])
	case "str":
		return pgNStr([]string{"a", "b", "ab", ""}[variant%4])
	case "bool":
		return pgNId([]string{"true", "false"}[variant%2])
	case "list":
		if variant%2 == 0 {
			return pgNList(pgNInt(1), pgNInt(2))
		}
		return pgNList(pgNInt(int64(variant)))
	case "map":
		if variant%2 == 0 {
			return pgNMap([]string{"a"}, []*pgNode{pgNInt(1)})
		}
		return pgNMap([]string{"b"}, []*pgNode{pgNInt(int64(variant))})
	}
	panic("pgConstOf: " + kind)
}

// the three shapes in which two constants and one non-constant operand meet in a left-associative chain
func pgChainShape(shape int, op string, c1, c2, x *pgNode) *pgNode {
	switch shape % 3 {
	case 0:
		return pgNOp(op, pgNOp(op, c1, x), c2) // c op x op c
	case 1:
		return pgNOp(op, pgNOp(op, x, c1), c2) // x op c op c
	}
	return pgNOp(op, pgNOp(op, c1, c2), x) // c op c op x
}

// chain: mostly typed so that it evaluates (int, float, string, bool chains), otherwise any operator
// with any two constant kinds (most of those are errors - with and without the optimizer alike)
func (g *pgProgGen) chain(t *pgTy, e *pgGenv, size int) *pgNode {
	xs := max(size-4, 1)
	v := g.pick(20)
	if g.chance(0.75) {
		switch t.K {
		case "int":
			op := g.oneOf([]string{"+", "-", "*", "*", "&", "|", "%", "<<", "^"})
			return pgChainShape(g.pick(3), op, pgConstOf("int", v), pgConstOf("int", v+1), g.expr(pgTInt, e, xs, false))
		case "float":
			op := g.oneOf([]string{"+", "-", "*", "*", "/"})
			k1, k2 := g.oneOf([]string{"int", "float"}), g.oneOf([]string{"int", "float", "float"})
			xt := pgTFloat
			if g.chance(0.4) && (k1 == "float" || k2 == "float") {
				xt = pgTInt
			}
			if k1 == "int" && k2 == "int" && xt == pgTInt && op != "/" {
				k2 = "float"
			}
			return pgChainShape(g.pick(3), op, pgConstOf(k1, v), pgConstOf(k2, v+1), g.expr(xt, e, xs, false))
		case "str":
			xt := g.oneOf([]string{"str", "int", "bool"})
			k2 := g.oneOf([]string{"str", "int", "bool"})
			return pgChainShape(g.pick(2), "+", pgConstOf("str", v), pgConstOf(k2, v+1), g.expr(&pgTy{K: xt}, e, xs, false))
		case "bool":
			switch g.pick(3) {
			case 0:
				return pgChainShape(g.pick(3), g.oneOf([]string{"&", "|"}), pgConstOf("bool", v), pgConstOf("bool", v+1), g.expr(pgTBool, e, xs, false))
			case 1:
				op := g.oneOf([]string{"=", "!="})
				return pgChainShape(g.pick(3), op, pgConstOf("bool", v), pgConstOf("bool", v+1), g.expr(pgTBool, e, xs, false))
			default:
				// (c1 < x) = c2 : a comparison folded into an equality chain
				return pgNOp("=", pgNOp(g.cmpOp(), pgConstOf("int", v), g.expr(pgTInt, e, xs, false)), pgConstOf("bool", v))
			}
		case "list":
			return pgChainShape(g.pick(3), "+", pgNList(g.leaf(t.Elem, &pgGenv{})), pgNList(), g.expr(t, e, xs, false))
		}
	}
	op := g.oneOf(pgAllOps)
	k1, k2 := g.oneOf(pgConstKinds), g.oneOf(pgConstKinds)
	return pgChainShape(g.pick(3), op, pgConstOf(k1, v), pgConstOf(k2, v+1), g.expr(g.randomType(1), e, xs, false))
}

// pgImpureNested: an outer closure WITHOUT outer references (a folding candidate for the optimizer)
// whose body calls, or hands to a method, an inner closure that captures the outer parameter and
// contains an impure call (tick); the outer closure is applied to constants.  form selects how:
//
//	0 direct   let f = x -> (y -> tick(k, x*10 + y))(2); f(1)
//	1 map      [1, 2].map(x -> (y -> tick(k, x*10 + y))(3)).sum()
//	2 field    {f: x -> (y -> tick(k, x*10 + y))(2)}.f(1)
//	3 curry    (x -> y -> tick(k, x*10 + y))(1)(2)
//	4 depth 3  (x -> (y -> (z -> tick(k, x*100 + y*10 + z))(3))(2))(1)
//	5 method   (x -> [1, 2].mapReduce(0, (acc, y) -> tick(k, acc + x*y)))(3)
//	6 recursive func inside: (a -> func g(n) if n <= 0 then 0 else (y -> tick(k, n*10 + y))(1) + g(n - 1); g(a))(2)
//
// k is the tick id; names are the closure parameters to use (4 pairwise different names)
// number of forms of pgImpureNested (form 6 is the default branch)
const pgImpureForms = 13

func pgImpureNested(form int, k int64, ns []string, c1, c2, c3 int64) *pgNode {
	x, y, z, f := ns[0], ns[1], ns[2], ns[3]
	tick := func(e *pgNode) *pgNode { return pgNCall("static", pgNId("tick"), pgNInt(k), e) }
	xy := func() *pgNode { return pgNOp("+", pgNOp("*", pgNId(x), pgNInt(10)), pgNId(y)) }
	inner := func() *pgNode { return pgNClo([]string{y}, tick(xy())) }
	switch form % pgImpureForms {
	case 0:
		return pgNLet(f, pgNClo([]string{x}, pgNCall("closure", inner(), pgNInt(c2))), pgNCall("closure", pgNId(f), pgNInt(c1)))
	case 1:
		return pgNMethod("method", pgNMethod("method", pgNList(pgNInt(c1), pgNInt(c2)), "map", pgNClo([]string{x}, pgNCall("closure", inner(), pgNInt(c3)))), "sum")
	case 2:
		return pgNMethod("mapfield", pgNMap([]string{"f"}, []*pgNode{pgNClo([]string{x}, pgNCall("closure", inner(), pgNInt(c2)))}), "f", pgNInt(c1))
	case 3:
		return pgNCall("closure", pgNCall("closure", pgNClo([]string{x}, inner()), pgNInt(c1)), pgNInt(c2))
	case 4:
		body := tick(pgNOp("+", pgNOp("+", pgNOp("*", pgNId(x), pgNInt(100)), pgNOp("*", pgNId(y), pgNInt(10))), pgNId(z)))
		return pgNCall("closure", pgNClo([]string{x}, pgNCall("closure", pgNClo([]string{y}, pgNCall("closure", pgNClo([]string{z}, body), pgNInt(c3))), pgNInt(c2))), pgNInt(c1))
	case 5:
		cb := pgNClo([]string{z, y}, tick(pgNOp("+", pgNId(z), pgNOp("*", pgNId(x), pgNId(y)))))
		return pgNCall("closure", pgNClo([]string{x}, pgNMethod("method", pgNList(pgNInt(c1), pgNInt(c2)), "mapReduce", pgNInt(0), cb)), pgNInt(c3))
	case 7: // tick in the try part of a non-capturing closure applied to a constant
		return pgNCall("closure", pgNClo([]string{x}, pgNTry(tick(pgNOp("*", pgNId(x), pgNInt(2))), pgNInt(-1))), pgNInt(c1))
	case 8: // tick in the catch part
		return pgNCall("closure", pgNClo([]string{x}, pgNTry(pgNIndex(pgNList(), pgNId(x)), tick(pgNOp("+", pgNId(x), pgNInt(c2))))), pgNInt(c1))
	case 9: // tick in a catch closure
		return pgNCall("closure", pgNClo([]string{x}, pgNTry(pgNIndex(pgNList(), pgNId(x)), pgNClo([]string{y}, tick(pgNOp("-", pgNId(x), pgNInt(c2)))))), pgNInt(c1))
	case 10: // via a pure method of a constant list
		return pgNMethod("method", pgNMethod("method", pgNList(pgNInt(c1), pgNInt(c2)), "map", pgNClo([]string{x}, pgNTry(tick(pgNOp("+", pgNId(x), pgNInt(c3))), pgNInt(0)))), "sum")
	case 11: // via a map field
		return pgNMethod("mapfield", pgNMap([]string{"f"}, []*pgNode{pgNClo([]string{x}, pgNTry(tick(pgNId(x)), pgNInt(0)))}), "f", pgNInt(c1))
	case 12: // bound by let, try inside a nested capturing closure
		return pgNLet(f, pgNClo([]string{x}, pgNCall("closure", pgNClo([]string{y}, pgNTry(tick(xy()), pgNId(y))), pgNInt(c2))), pgNCall("closure", pgNId(f), pgNInt(c1)))
	}
	rec := pgNIf(pgNOp("<=", pgNId(z), pgNInt(0)), pgNInt(0),
		pgNOp("+", pgNCall("closure", pgNClo([]string{y}, tick(pgNOp("+", pgNOp("*", pgNId(z), pgNInt(10)), pgNId(y)))), pgNInt(c1)),
			pgNCall("closure", pgNId(f), pgNOp("-", pgNId(z), pgNInt(1)))))
	return pgNCall("closure", pgNClo([]string{x}, pgNFunc(f, []string{z}, rec, pgNCall("closure", pgNId(f), pgNId(x)))), pgNInt(2+c2%3))
}

func (g *pgProgGen) impureNested(e *pgGenv) *pgNode {
	var ns []string
	for len(ns) < 4 {
		c := g.oneOf(pgNamePool)
		if !pgContains(ns, c) {
			ns = append(ns, c)
		}
	}
	g.tickN++
	return pgImpureNested(g.pick(pgImpureForms), int64(g.tickN), ns, int64(1+g.pick(4)), int64(1+g.pick(5)), int64(g.pick(4)))
}

// pgSharedConst: a non-capturing closure (folded to a constant by the optimizer) whose body has a
// constant list/map literal as an operand - with the optimizer ONE shared value for all calls and all
// evaluations, without it a fresh one per call - applied several times in one program:
//
//	let f = x -> [1, 3] ~ x; [f(l), f(l), f(l)]
func pgSharedConst(form int, fname, x string, arg *pgNode, c1, c2 int64) *pgNode {
	k := func() *pgNode { return pgNList(pgNInt(c1), pgNInt(c2)) }
	var body *pgNode
	switch form % 7 {
	case 0:
		body = pgNOp("~", k(), pgNId(x))
	case 1:
		body = pgNOp("~", pgNId(x), pgNList(k(), pgNList(pgNInt(c2))))
	case 2:
		body = pgNOp("=", k(), pgNId(x))
	case 3:
		body = pgNOp("+", k(), pgNId(x))
	case 4:
		body = pgNMethod("method", k(), "append", pgNMethod("method", pgNId(x), "size"))
	case 5:
		body = pgNMethod("method", pgNOp("+", pgNMap([]string{"a"}, []*pgNode{pgNInt(c1)}), pgNMap([]string{"b"}, []*pgNode{pgNMethod("method", pgNId(x), "size")})), "size")
	default:
		body = pgNOp("~", pgNList(pgNInt(c2), pgNInt(c1), pgNInt(c2)), pgNOp("+", pgNId(x), k()))
	}
	call := func() *pgNode { return pgNCall("closure", pgNId(fname), arg) }
	return pgNLet(fname, pgNClo([]string{x}, body), pgNList(call(), call(), call()))
}

// pgShadowAfterUse: a closure/func body READS an outer name (bound to a computed constant expression
// such as 2*3, or to a variable expression) and LATER declares a local of the same name and reads it
// again - legal shadowing of an outer name after its use (not a redeclaration):
//
//	let a = 2*3; func f(n) let b = a; let a = n*10; a+b; f(x)
//
// ns = [a, b, f, n, m] pairwise different names; arg an int expression over the variables
func pgShadowAfterUse(form int, ns []string, arg *pgNode, c1, c2 int64) *pgNode {
	a, b, f, n, m := ns[0], ns[1], ns[2], ns[3], ns[4]
	constExpr := pgNOp([]string{"*", "+", "-"}[int(c1)%3], pgNInt(c1), pgNInt(c2))
	inner := func(outerUse *pgNode) *pgNode {
		return pgNLet(b, outerUse, pgNLet(a, pgNOp("*", pgNId(n), pgNInt(10)), pgNOp("+", pgNOp("*", pgNId(a), pgNInt(100)), pgNId(b))))
	}
	switch form % 5 {
	case 0:
		return pgNLet(a, constExpr, pgNFunc(f, []string{n}, inner(pgNId(a)), pgNCall("closure", pgNId(f), arg)))
	case 1:
		return pgNLet(a, constExpr, pgNLet(f, pgNClo([]string{n}, inner(pgNOp("*", pgNId(a), pgNId(n)))), pgNCall("closure", pgNId(f), arg)))
	case 2:
		return pgNLet(a, constExpr, pgNCall("closure", pgNCall("closure", pgNClo([]string{m}, pgNClo([]string{n}, inner(pgNOp("+", pgNId(a), pgNId(m))))), arg), pgNInt(c2)))
	case 3:
		// the outer name is not a constant: captured with and without the optimizer
		return pgNLet(a, pgNOp("*", arg, pgNInt(c1)), pgNFunc(f, []string{n}, inner(pgNId(a)), pgNCall("closure", pgNId(f), pgNInt(c2))))
	}
	// the use is inside a nested closure created before the local is declared
	return pgNLet(a, constExpr, pgNLet(f, pgNClo([]string{n},
		pgNLet(b, pgNCall("closure", pgNClo([]string{m}, pgNOp("+", pgNId(a), pgNId(m))), pgNId(n)), pgNLet(a, pgNOp("-", pgNId(n), pgNInt(c1)), pgNOp("-", pgNOp("*", pgNId(a), pgNInt(100)), pgNId(b))))),
		pgNCall("closure", pgNId(f), arg)))
}

func (g *pgProgGen) shadowAfterUse(e *pgGenv) *pgNode {
	taken := map[string]bool{}
	for _, v := range e.vars {
		if v.depth == e.depth {
			taken[v.name] = true
		}
	}
	var ns []string
	for tries := 0; len(ns) < 5 && tries < 200; tries++ {
		c := g.oneOf(pgNamePool)
		if !pgContains(ns, c) && !taken[c] {
			ns = append(ns, c)
		}
	}
	if len(ns) < 5 {
		return nil
	}
	return pgShadowAfterUse(g.pick(5), ns, g.expr(pgTInt, e, 3, false), int64(2+g.pick(5)), int64(1+g.pick(6)))
}

// pgFieldNamedLikeMethod: a map literal with a closure field named like a built-in map method, called
// with method syntax; cloArity = number of parameters of the closure (1..3), callArity = number of
// (constant) arguments (0..3); nonConst: another field of the map is the variable x
//
//	{size: x -> x * 2, a: 1}.size()        {get: (p, q) -> p, a: 7}.get("a")
func pgFieldNamedLikeMethod(name string, cloArity, callArity int, nonConst bool, bindLet bool) *pgNode {
	ps := []string{"p", "q", "r"}[:cloArity]
	clo := pgNClo(ps, pgNOp("+", pgNStr("field:"), pgNId(ps[0])))
	var other *pgNode = pgNInt(7)
	if nonConst {
		other = pgNId("x")
	}
	m := pgNMap([]string{name, "a"}, []*pgNode{clo, other})
	var args []*pgNode
	for i := 0; i < callArity; i++ {
		args = append(args, pgNStr([]string{"a", "b", "c"}[i]))
	}
	if bindLet {
		return pgNLet("m", m, pgNMethod("mapfield", pgNId("m"), name, args...))
	}
	return pgNMethod("mapfield", m, name, args...)
}

var pgMapMethodNames = []string{"size", "get", "isAvail", "put", "string", "list"}

// pgEraseTicks: the tree with every call tick(k, x) / ptick(k, x) replaced by x (for the specification side)
func pgEraseTicks(n *pgNode) *pgNode {
	if n.K == "call" && len(n.Kids) == 3 && n.Kids[0].K == "ident" && (n.Kids[0].Name == "tick" || n.Kids[0].Name == "ptick") {
		return pgEraseTicks(n.Kids[2])
	}
	c := *n
	c.Kids = make([]*pgNode, len(n.Kids))
	for i, k := range n.Kids {
		c.Kids[i] = pgEraseTicks(k)
	}
	return &c
}

// ---------- argument values ----------

var pgArgIntPool = []int64{0, 1, -1, 2, -2, 7, 63, 64, 1 << 31, 1<<53 - 1, 1 << 53, math.MinInt64, math.MaxInt64}
var pgArgFloatPool = []float64{0.5, -0.5, 1.5, 2.25, 0.25, 100, -3, 0, 1 << 53, 0.125}

func (g *pgProgGen) argValue(t *pgTy, variant int) *Tree {
	switch t.K {
	case "int":
		if g.chance(0.15) {
			return &Tree{Kind: "int", I: int(pgArgIntPool[g.pick(len(pgArgIntPool))])}
		}
		return &Tree{Kind: "int", I: g.pick(12) - 3 + variant}
	case "float":
		if g.chance(0.05) {
			sp := []float64{math.Inf(1), math.Inf(-1), math.NaN(), math.Copysign(0, -1)}
			return &Tree{Kind: "float", F: sp[g.pick(len(sp))]}
		}
		return &Tree{Kind: "float", F: pgArgFloatPool[g.pick(len(pgArgFloatPool))] + float64(variant)}
	case "str":
		return &Tree{Kind: "str", S: g.oneOf(pgStrPool) + strings.Repeat("q", variant)}
	case "bool":
		return &Tree{Kind: "bool", B: (g.pick(2)+variant)%2 == 0}
	case "list":
		k := g.pick(4) + variant%2
		var items []*Tree
		for i := 0; i < k; i++ {
			items = append(items, g.argValue(t.Elem, i))
		}
		return &Tree{Kind: "list", Items: items, Repr: "eager"}
	case "map":
		var keys []string
		var items []*Tree
		for _, f := range t.Fields {
			keys = append(keys, f.Name)
			items = append(items, g.argValue(f.T, variant))
		}
		return &Tree{Kind: "map", Keys: keys, Items: items, Repr: "listmap"}
	}
	panic("argValue: type " + t.K)
}

// CoqValue: an argument value as a Coq `value`
func (t *Tree) CoqValue() string {
	switch t.Kind {
	case "int":
		return "(VInt " + pgCoqZ(int64(t.I)) + ")"
	case "float":
		return "(VFloat " + pgCoqFloat(t.F) + ")"
	case "str":
		return "(VStr " + CoqStr(t.S) + ")"
	case "bool":
		return "(VBool " + CoqBool(t.B) + ")"
	case "list":
		parts := make([]string, len(t.Items))
		for i, it := range t.Items {
			parts[i] = it.CoqValue()
		}
		return "(VList " + CoqList(parts) + ")"
	case "map":
		parts := make([]string, len(t.Items))
		for i, it := range t.Items {
			parts[i] = "(" + CoqStr(t.Keys[i]) + ", " + it.CoqValue() + ")"
		}
		return "(VMap " + CoqList(parts) + ")"
	}
	panic("CoqValue: kind " + t.Kind)
}

// ---------- one program ----------

type pgProgram struct {
	T        *pgNode   `json:"tree"`
	ArgNames []string  `json:"arg_names"`
	Tuples   [][]*Tree `json:"tuples"`
	Stream   string    `json:"stream"` // corpus well-typed ill-typed redeclare
	Oracle   *pgOracle `json:"oracle,omitempty"`
	Host     string    `json:"host,omitempty"` // C02: name of the host configuration (registration API family) the program runs on
}

// pgOracle: a template program whose value the harness can compute itself (an independent Go-side
// evaluation for built-ins the Coq model does not cover): the lazy-stage-then-lets shape
//
//	let c = l.<stage>; let p = n + K1; let q = n * K2; let s = c.<consumer>; [s, p, q]
//
// with the arguments l (list of ints) and n (int)
type pgOracle struct {
	Kind     string `json:"kind,omitempty"` // "" = lazy stage then lets; "twice" = one let-bound list extended twice (pgTwiceProgram)
	Stage    string `json:"stage"`          // compact combine number iir map accept (twice: map accept skip top plus)
	Consumer string `json:"consumer"`       // size sum (twice: the materialisation none size index string)
	Mod      string `json:"mod,omitempty"`  // twice: append plus closure
	K1, K2   int64
	Extra    bool // a third let between creation and consumption
}

// pgTwiceProgram: call-by-value for list values - a let-bound list that came from a lazy stage is
// extended twice (append / + / through a closure that captured it); both results and the list itself
// are observed afterwards:
//
//	let l = a.map(x -> x*2); [let z = l.size();] let p = l.append(n + K1); let q = l.append(n * K2); [p, q, l]
func pgTwiceProgram(stage, mat, mod string, k1, k2 int64, tuples [][]*Tree) *pgProgram {
	a, n := pgNId("a"), pgNId("n")
	var st *pgNode
	switch stage {
	case "map":
		st = pgNMethod("method", a, "map", pgNClo([]string{"x"}, pgNOp("*", pgNId("x"), pgNInt(2))))
	case "accept":
		st = pgNMethod("method", a, "accept", pgNClo([]string{"x"}, pgNOp(">", pgNId("x"), pgNInt(0))))
	case "skip":
		st = pgNMethod("method", a, "skip", pgNInt(1))
	case "top":
		st = pgNMethod("method", a, "top", pgNInt(5))
	default:
		st = pgNOp("+", a, pgNList(n))
	}
	v1, v2 := pgNOp("+", n, pgNInt(k1)), pgNOp("*", n, pgNInt(k2))
	ext := func(v *pgNode) *pgNode {
		if mod == "plus" {
			return pgNOp("+", pgNId("l"), pgNList(v))
		}
		return pgNMethod("method", pgNId("l"), "append", v)
	}
	var body *pgNode
	if mod == "closure" {
		body = pgNLet("f", pgNClo([]string{"k"}, pgNMethod("method", pgNId("l"), "append", pgNId("k"))),
			pgNList(pgNCall("closure", pgNId("f"), v1), pgNCall("closure", pgNId("f"), v2), pgNId("l")))
	} else {
		body = pgNLet("p", ext(v1), pgNLet("q", ext(v2), pgNList(pgNId("p"), pgNId("q"), pgNId("l"))))
	}
	switch mat {
	case "size":
		body = pgNLet("z", pgNMethod("method", pgNId("l"), "size"), body)
	case "index":
		body = pgNLet("z", pgNTry(pgNIndex(pgNId("l"), pgNInt(0)), pgNInt(0)), body)
	case "string":
		body = pgNLet("z", pgNCall("static", pgNId("string"), pgNId("l")), body)
	}
	return &pgProgram{T: pgNLet("l", st, body), ArgNames: []string{"a", "n"}, Tuples: tuples, Stream: "list-extended-twice",
		Oracle: &pgOracle{Kind: "twice", Stage: stage, Consumer: mat, Mod: mod, K1: k1, K2: k2}}
}

func (o *pgOracle) expectedTwice(tuple []*Tree) (string, bool) {
	if len(tuple) != 2 || tuple[0].Kind != "list" || tuple[1].Kind != "int" {
		return "", false
	}
	var a []int
	for _, it := range tuple[0].Items {
		if it.Kind != "int" {
			return "", false
		}
		a = append(a, it.I)
	}
	n := tuple[1].I
	var l []int
	switch o.Stage {
	case "map":
		for _, v := range a {
			l = append(l, v*2)
		}
	case "accept":
		for _, v := range a {
			if v > 0 {
				l = append(l, v)
			}
		}
	case "skip":
		if len(a) > 1 {
			l = append(l, a[1:]...)
		}
	case "top":
		l = append(l, a[:min(len(a), 5)]...)
	default:
		l = append(append(l, a...), n)
	}
	show := func(xs []int) string {
		parts := make([]string, len(xs))
		for i, x := range xs {
			parts[i] = fmt.Sprintf("i%d", x)
		}
		return "[" + strings.Join(parts, ",") + "]"
	}
	p := append(append([]int{}, l...), n+int(o.K1))
	q := append(append([]int{}, l...), n*int(o.K2))
	return "[" + show(p) + "," + show(q) + "," + show(l) + "]", true
}

func (g *pgProgGen) twiceProgram() *pgProgram {
	var tuples [][]*Tree
	for v := 0; v < 3; v++ {
		k := []int{3, 5, 6, 7, 3, 2, 4, 9}[g.pick(8)]
		var items []*Tree
		for i := 0; i < k; i++ {
			items = append(items, &Tree{Kind: "int", I: 1 + g.pick(9)})
		}
		tuples = append(tuples, []*Tree{{Kind: "list", Items: items, Repr: "eager"}, {Kind: "int", I: 10*(v+1) + g.pick(90)}})
	}
	return pgTwiceProgram(g.oneOf([]string{"map", "accept", "skip", "top", "plus"}), g.oneOf([]string{"none", "size", "index", "string"}),
		g.oneOf([]string{"append", "append", "plus", "closure"}), int64(1+g.pick(9)), int64(2+g.pick(5)), tuples)
}

var pgLetStages = []string{"compact", "combine", "number", "iir", "map", "accept"}

func pgLazyLetProgram(stage, consumer string, k1, k2 int64, extra bool, tuples [][]*Tree) *pgProgram {
	l, n := pgNId("l"), pgNId("n")
	ab := []string{"a", "b"}
	var st *pgNode
	switch stage {
	case "compact":
		st = pgNMethod("method", l, "compact", pgNClo(ab, pgNOp("=", pgNId("a"), pgNId("b"))))
	case "combine":
		st = pgNMethod("method", l, "combine", pgNClo(ab, pgNOp("-", pgNOp("*", pgNId("a"), pgNInt(2)), pgNId("b"))))
	case "number":
		st = pgNMethod("method", l, "number", pgNClo(ab, pgNOp("+", pgNOp("*", pgNId("a"), pgNInt(100)), pgNId("b"))))
	case "iir":
		st = pgNMethod("method", l, "iir", pgNClo([]string{"a"}, pgNOp("*", pgNId("a"), pgNInt(3))), pgNClo(ab, pgNOp("-", pgNId("a"), pgNId("b"))))
	case "map":
		st = pgNMethod("method", l, "map", pgNClo([]string{"a"}, pgNOp("-", pgNOp("*", pgNId("a"), pgNInt(2)), pgNInt(1))))
	default:
		st = pgNMethod("method", l, "accept", pgNClo([]string{"a"}, pgNOp(">", pgNId("a"), pgNInt(1))))
	}
	var cons *pgNode
	if consumer == "size" {
		cons = pgNMethod("method", pgNId("c"), "size")
	} else {
		cons = pgNMethod("method", pgNId("c"), "mapReduce", pgNInt(0), pgNClo(ab, pgNOp("+", pgNId("a"), pgNId("b"))))
	}
	res := pgNList(pgNId("s"), pgNId("p"), pgNId("q"))
	body := pgNLet("s", cons, res)
	if extra {
		res.Kids = append(res.Kids, pgNId("r"))
		body = pgNLet("r", pgNOp("-", n, pgNId("p")), body)
	}
	t := pgNLet("c", st, pgNLet("p", pgNOp("+", n, pgNInt(k1)), pgNLet("q", pgNOp("*", n, pgNInt(k2)), body)))
	return &pgProgram{T: t, ArgNames: []string{"l", "n"}, Tuples: tuples, Stream: "lazy-stage-then-lets",
		Oracle: &pgOracle{Stage: stage, Consumer: consumer, K1: k1, K2: k2, Extra: extra}}
}

// the value of the template computed natively (Go int arithmetic wraps like the implementation's)
// pgIterProgram: a recursion (or a fold) that keeps its state in a map / list value for k steps
// (k = 11..40 is an argument), call-by-value all the way:
//
//	replace  func step(m, k) if k = 0 then m else step(m.replace(x -> {a: x.a + 1}), k - 1); step({a: 0, b: n}, k)
//	put      func step(m, k) if k = 0 then m else step(m.put("k" + k, k * n), k - 1); step({z: n}, k)
//	append   func step(l, k) if k = 0 then l else step(l.append(k * n), k - 1); step([n], k)
//	fold     numbers(k).mapReduce({a: 0, b: n}, (m, i) -> m.replace(x -> {a: x.a + i + 1}))
func pgIterProgram(mod string, tuples [][]*Tree) *pgProgram {
	n, k := pgNId("n"), pgNId("k")
	rec := func(state string, next, init *pgNode) *pgNode {
		return pgNFunc("step", []string{state, "k"},
			pgNIf(pgNOp("=", k, pgNInt(0)), pgNId(state), pgNCall("closure", pgNId("step"), next, pgNOp("-", k, pgNInt(1)))),
			pgNCall("closure", pgNId("step"), init, k))
	}
	inc := func(d *pgNode) *pgNode {
		return pgNClo([]string{"x"}, pgNMap([]string{"a"}, []*pgNode{pgNOp("+", pgNMember(pgNId("x"), "a"), d)}))
	}
	var t *pgNode
	switch mod {
	case "replace":
		t = rec("m", pgNMethod("method", pgNId("m"), "replace", inc(pgNInt(1))), pgNMap([]string{"a", "b"}, []*pgNode{pgNInt(0), n}))
	case "put":
		t = rec("m", pgNMethod("method", pgNId("m"), "put", pgNOp("+", pgNStr("k"), k), pgNOp("*", k, n)), pgNMap([]string{"z"}, []*pgNode{n}))
	case "append":
		t = rec("l", pgNMethod("method", pgNId("l"), "append", pgNOp("*", k, n)), pgNList(n))
	default:
		t = pgNMethod("method", pgNCall("static", pgNId("numbers"), k), "mapReduce", pgNMap([]string{"a", "b"}, []*pgNode{pgNInt(0), n}),
			pgNClo([]string{"m", "i"}, pgNMethod("method", pgNId("m"), "replace", inc(pgNOp("+", pgNId("i"), pgNInt(1))))))
	}
	return &pgProgram{T: t, ArgNames: []string{"n", "k"}, Tuples: tuples, Stream: "state-kept-for-many-steps",
		Oracle: &pgOracle{Kind: "iter", Mod: mod}}
}

func (o *pgOracle) expectedIter(tuple []*Tree) (string, bool) {
	if len(tuple) != 2 || tuple[0].Kind != "int" || tuple[1].Kind != "int" || tuple[1].I < 0 || tuple[1].I > 200 {
		return "", false
	}
	n, k := tuple[0].I, tuple[1].I
	switch o.Mod {
	case "replace":
		return fmt.Sprintf("{%q:i%d,%q:i%d}", "a", k, "b", n), true
	case "put":
		keys := []string{"z"}
		vals := map[string]int{"z": n}
		for i := k; i >= 1; i-- {
			key := fmt.Sprintf("k%d", i)
			keys = append(keys, key)
			vals[key] = i * n
		}
		sort.Strings(keys)
		parts := make([]string, len(keys))
		for i, key := range keys {
			parts[i] = fmt.Sprintf("%q:i%d", key, vals[key])
		}
		return "{" + strings.Join(parts, ",") + "}", true
	case "append":
		parts := []string{fmt.Sprintf("i%d", n)}
		for i := k; i >= 1; i-- {
			parts = append(parts, fmt.Sprintf("i%d", i*n))
		}
		return "[" + strings.Join(parts, ",") + "]", true
	}
	return fmt.Sprintf("{%q:i%d,%q:i%d}", "a", k*(k+1)/2, "b", n), true
}

func (g *pgProgGen) iterProgram() *pgProgram {
	var tuples [][]*Tree
	for v := 0; v < 3; v++ {
		tuples = append(tuples, []*Tree{{Kind: "int", I: 1 + g.pick(9)}, {Kind: "int", I: 11 + g.pick(30)}})
	}
	return pgIterProgram(g.oneOf([]string{"replace", "put", "append", "fold"}), tuples)
}

func (o *pgOracle) Expected(tuple []*Tree) (string, bool) {
	if o.Kind == "twice" {
		return o.expectedTwice(tuple)
	}
	if o.Kind == "iter" {
		return o.expectedIter(tuple)
	}
	if len(tuple) != 2 || tuple[0].Kind != "list" || tuple[1].Kind != "int" {
		return "", false
	}
	var l []int
	for _, it := range tuple[0].Items {
		if it.Kind != "int" {
			return "", false
		}
		l = append(l, it.I)
	}
	n := tuple[1].I
	var c []int
	switch o.Stage {
	case "compact":
		for i, v := range l {
			if i == 0 || v != c[len(c)-1] {
				c = append(c, v)
			}
		}
	case "combine":
		for i := 0; i+1 < len(l); i++ {
			c = append(c, l[i]*2-l[i+1])
		}
	case "number":
		for i, v := range l {
			c = append(c, i*100+v)
		}
	case "iir":
		for i, v := range l {
			if i == 0 {
				c = append(c, v*3)
			} else {
				c = append(c, v-c[i-1])
			}
		}
	case "map":
		for _, v := range l {
			c = append(c, v*2-1)
		}
	default:
		for _, v := range l {
			if v > 1 {
				c = append(c, v)
			}
		}
	}
	s := len(c)
	if o.Consumer != "size" {
		s = 0
		for _, v := range c {
			s += v
		}
	}
	p := n + int(o.K1)
	q := n * int(o.K2)
	res := fmt.Sprintf("[i%d,i%d,i%d", s, p, q)
	if o.Extra {
		res += fmt.Sprintf(",i%d", n-p)
	}
	return res + "]", true
}

func (g *pgProgGen) lazyLetProgram() *pgProgram {
	var tuples [][]*Tree
	for v := 0; v < 3; v++ {
		k := 2 + g.pick(4)
		var items []*Tree
		last := g.pick(4)
		for i := 0; i < k; i++ {
			if g.chance(0.5) {
				last = g.pick(5)
			}
			items = append(items, &Tree{Kind: "int", I: last})
		}
		tuples = append(tuples, []*Tree{{Kind: "list", Items: items, Repr: "eager"}, {Kind: "int", I: 10*(v+1) + g.pick(90)}})
	}
	return pgLazyLetProgram(g.oneOf(pgLetStages), g.oneOf([]string{"size", "sum"}), int64(1+g.pick(9)), int64(2+g.pick(5)), g.chance(0.4), tuples)
}

var pgArgNamePool = []string{"x", "y", "z", "x", "y", "pi", "sqr"}

func pgGenProgram(r *Rng, statics map[string]bool, maxNodes int) *pgProgram {
	return pgGenProgramMode(r, statics, maxNodes, false)
}

// c02: the bias for the optimizer check (constants, chains, tick/ptick)
func pgGenProgramMode(r *Rng, statics map[string]bool, maxNodes int, c02 bool) *pgProgram {
	for {
		g := &pgProgGen{r: r, statics: statics, maxDepth: 3, c02: c02}
		stream := "well-typed"
		c := r.Pick(100)
		switch {
		case c < 10:
			g.illTyped = true
			stream = "ill-typed"
		case c < 12:
			g.redecl = true
			stream = "redeclare"
		}
		if !c02 && r.Chance(0.03) {
			return g.lazyLetProgram()
		}
		if !c02 && r.Chance(0.03) {
			return g.twiceProgram()
		}
		if !c02 && r.Chance(0.02) {
			return g.iterProgram()
		}
		nargs := 1 + r.Pick(3)
		var names []string
		var tys []*pgTy
		env := &pgGenv{}
		for len(names) < nargs {
			n := pgArgNamePool[r.Pick(len(pgArgNamePool))]
			if pgContains(names, n) {
				continue
			}
			var t *pgTy
			switch r.Pick(12) {
			case 0, 1, 2, 3, 4, 5:
				t = pgTInt
			case 6, 7:
				t = pgTFloat
			case 8:
				t = pgTStr
			case 9:
				t = pgTBool
			case 10:
				t = pgTList(pgTInt)
			default:
				t = pgTMap(pgField{"a", pgTInt}, pgField{"b", pgTInt})
			}
			names = append(names, n)
			tys = append(tys, t)
			env = env.with(n, t)
		}
		budget := 6 + r.Pick(maxNodes-6)
		rt := g.randomType(2)
		if r.Chance(0.4) {
			rt = pgTInt
		}
		var tree *pgNode
		if !c02 && budget >= 16 && r.Chance(0.06) {
			tree = g.ctxPermute(env, budget)
		}
		if tree != nil {
			// the context-permutation shape at the root
		} else if c02 && budget >= 20 && r.Chance(0.05) {
			tree = g.shadowAfterUse(env)
		} else if c02 && budget >= 24 && r.Chance(0.06) {
			tree = pgNOp("+", g.guard(g.impureNested(env), pgTInt, env, false), g.expr(pgTInt, env, 4, false))
		} else if c02 && r.Chance(0.2) {
			tree = g.chain(g.scalarType(), env, budget)
		} else if r.Chance(0.12) && budget >= 10 {
			tree = g.curried(rt, env, budget)
		} else {
			tree = g.expr(rt, env, budget, true)
		}
		if tree == nil {
			tree = g.expr(rt, env, budget, true)
		}
		if tree.Count() > maxNodes {
			continue
		}
		// most programs should depend on their arguments (the three tuples are to give different observations)
		usesArg := false
		tree.Walk(func(x *pgNode) {
			if x.K == "ident" && pgContains(names, x.Name) {
				usesArg = true
			}
		})
		if !usesArg && r.Chance(0.9) {
			continue
		}
		p := &pgProgram{T: tree, ArgNames: names, Stream: stream}
		for v := 0; v < 3; v++ {
			var tuple []*Tree
			for _, t := range tys {
				tuple = append(tuple, g.argValue(t, v))
			}
			p.Tuples = append(p.Tuples, tuple)
		}
		return p
	}
}
