package main

// C09 - lists and maps are persistent values.
//
// A case is a HISTORY: up to 12 operations over a pool of handles.  Every operation is executed through
// the expression language (one generated function per operation kind, handles passed as arguments, so the
// Go objects persist between the steps).  After EVERY step EVERY live handle is observed
//   lists: string() (iterable view), and - when the verif hook says the items are present - size(), [i]
//          for every i and `=` against a freshly built list (items view); len/cap/present from the hook
//   maps:  string() (Iter view), size(), get(k) for every key
// and compared with (a) a purely functional Go model of the history (the Go-side oracle), (b) the Coq
// model of the implementation (c09_im) and (c) the Coq specification side (c09_is).

import (
	"encoding/json"
	"fmt"
	"github.com/hneemann/parser2/funcGen"
	"github.com/hneemann/parser2/listMap"
	"github.com/hneemann/parser2/value"
	"sort"
	"strconv"
	"strings"
)

func init() { register("c09", cmdC09) }

type c9Op struct {
	K   string `json:"k"`
	A   int    `json:"a,omitempty"`
	B   int    `json:"b,omitempty"`
	N   int    `json:"n,omitempty"`
	X   int    `json:"x,omitempty"`
	Y   int    `json:"y,omitempty"`
	Xs  []int  `json:"xs,omitempty"`
	Key string `json:"key,omitempty"`
	Ks  string `json:"ks,omitempty"` // keys of a map literal, one letter each
}

type c9Hist struct {
	Kind string `json:"kind"` // list | map
	Ops  []c9Op `json:"ops"`
}

func (o c9Op) String() string {
	switch o.K {
	case "lit", "litapp", "litrt":
		return fmt.Sprintf("%s%v", o.K, o.Xs)
	case "numbers":
		return fmt.Sprintf("numbers(%d)", o.N)
	case "append", "constappend":
		return fmt.Sprintf("h%d.%s(%d)", o.A, o.K, o.X)
	case "branch":
		return fmt.Sprintf("[h%d.append(%d),h%d.append(%d)]", o.A, o.X, o.A, o.Y)
	case "set":
		return fmt.Sprintf("h%d.set(%d,%d)", o.A, o.N, o.X)
	case "concat":
		return fmt.Sprintf("h%d+h%d", o.A, o.B)
	case "map", "accept":
		return fmt.Sprintf("h%d.%s(%d)", o.A, o.K, o.X)
	case "top", "skip", "windows":
		return fmt.Sprintf("h%d.%s(%d)", o.A, o.K, o.N)
	case "stage":
		return fmt.Sprintf("stage[%s](h%d,h%d)", o.Key, o.A, o.B)
	case "flakymap":
		return fmt.Sprintf("h%d.map(e->flaky(e))", o.A)
	case "evalfail":
		return fmt.Sprintf("h%d.%s failing after %d elements", o.A, o.Key, o.N)
	case "obs":
		return fmt.Sprintf("observe[%s](h%d,h%d,%d)", o.Key, o.A, o.B, o.X)
	case "constcontains":
		if o.N == 3 {
			return fmt.Sprintf("h%d ~ const h%d", o.B, o.A)
		}
		return fmt.Sprintf("const h%d ~ h%d", o.A, o.B)
	case "mobs":
		return fmt.Sprintf("observe[%s](m%d,m%d,%s,%d)", o.Ks, o.A, o.B, o.Key, o.X)
	case "mminmax":
		return fmt.Sprintf("%v.minMax()", o.Xs)
	case "mlit", "mlitrt":
		return fmt.Sprintf("%s{%s:%v}", o.K, o.Ks, o.Xs)
	case "put", "constput", "replace":
		return fmt.Sprintf("m%d.%s(%s,%d)", o.A, o.K, o.Key, o.X)
	case "mergelit":
		return fmt.Sprintf("m%d+{%s:%d}", o.A, o.Key, o.X)
	case "merge":
		return fmt.Sprintf("m%d+m%d", o.A, o.B)
	case "mapv", "maccept":
		return fmt.Sprintf("m%d.%s(%d)", o.A, o.K, o.X)
	}
	return fmt.Sprintf("h%d.%s()", o.A, o.K)
}

func (h c9Hist) String() string {
	parts := make([]string, len(h.Ops))
	for i, o := range h.Ops {
		parts[i] = o.String()
	}
	return h.Kind + ": " + strings.Join(parts, "; ")
}

// ---------------------------------------------------------------- helpers

func c09CoqZ(x int) string {
	if x < 0 {
		return fmt.Sprintf("(%d)", x)
	}
	return strconv.Itoa(x)
}

func coqZList(xs []int) string {
	parts := make([]string, len(xs))
	for i, x := range xs {
		parts[i] = c09CoqZ(x)
	}
	return "[" + strings.Join(parts, ";") + "]%Z"
}

func intsEq(a, b []int) bool {
	if len(a) != len(b) {
		return false
	}
	for i := range a {
		if a[i] != b[i] {
			return false
		}
	}
	return true
}

func parseIntList(s string) ([]int, bool) {
	if len(s) < 2 || s[0] != '[' || s[len(s)-1] != ']' {
		return nil, false
	}
	s = s[1 : len(s)-1]
	if s == "" {
		return []int{}, true
	}
	var xs []int
	for _, f := range strings.Split(s, ", ") {
		n, err := strconv.Atoi(f)
		if err != nil {
			return nil, false
		}
		xs = append(xs, n)
	}
	return xs, true
}

func intList(xs []int) *value.List {
	vs := make([]value.Value, len(xs))
	for i, x := range xs {
		vs[i] = value.Int(x)
	}
	return value.NewList(vs...)
}

// "[1, 2]" as List.ToString prints it
func litTextSpaced(xs []int) string {
	parts := make([]string, len(xs))
	for i, x := range xs {
		parts[i] = strconv.Itoa(x)
	}
	return "[" + strings.Join(parts, ", ") + "]"
}

func litText(xs []int) string {
	parts := make([]string, len(xs))
	for i, x := range xs {
		parts[i] = strconv.Itoa(x)
	}
	return "[" + strings.Join(parts, ",") + "]"
}

// a function generated for ONE history (constants inside it are objects of that history)
func c9Generate(exp string, names ...string) funcGen.Func[value.Value] {
	f, _, err := FG().Generate(exp, names...)
	if err != nil {
		fatal("generate %q: %v", exp, err)
	}
	return f
}

// ---------------------------------------------------------------- list histories

type c9Obs struct {
	Iter    []int
	Present bool
	Len     int
	Cap     int
	Items   []int
}

func (o c9Obs) coq() string {
	if o.Present && o.Len == len(o.Iter) && intsEq(o.Iter, o.Items) {
		return fmt.Sprintf("HS %s %d", coqZList(o.Iter), o.Cap)
	}
	if !o.Present && o.Len == 0 && o.Cap == 0 {
		return "HL " + coqZList(o.Iter)
	}
	return fmt.Sprintf("HO %s %s %d %d %s", coqZList(o.Iter), CoqBool(o.Present), o.Len, o.Cap, coqZList(o.Items))
}

type c9Handle struct {
	l       *value.List
	litFn   funcGen.Func[value.Value] // for literals: the generated function holding the constant
	creator string
	appends int // derivations by append from this handle
	inplace int // ... of which in place (onto spare capacity)
	derived int
}

type c9Fail struct {
	Step     int
	Sig      string
	What     string
	Expected string
	Observed string
}

type c9Exec struct {
	ranges  [][2]int // per operation of the history: handles [lo,hi) it created
	hs      []*c9Handle
	pure    [][]int
	prev    []string
	steps   []string
	fail    *c9Fail
	sum     *Summary
	nontriv bool
	count   bool
}

func (e *c9Exec) state(i int) (int, int, bool, uintptr) { return value.VerifListState(e.hs[i].l) }

func (e *c9Exec) add(l *value.List, content []int, creator string) {
	e.hs = append(e.hs, &c9Handle{l: l, creator: creator})
	e.pure = append(e.pure, content)
}

func (e *c9Exec) evalList(exp string, names []string, args ...value.Value) (*value.List, bool) {
	v, err := evalExpr(exp, names, args...)
	if err != nil {
		return nil, false
	}
	l, ok := v.(*value.List)
	return l, ok
}

// elements of a list of lists, fetched through the language: c.size(), c[i]
func (e *c9Exec) elements(c *value.List) []*value.List {
	n := int(mustEval("c.size()", []string{"c"}, c).(value.Int))
	var out []*value.List
	for i := 0; i < n; i++ {
		out = append(out, mustEval("c[i]", []string{"c", "i"}, c, value.Int(i)).(*value.List))
	}
	return out
}

func (e *c9Exec) cnt(hist, key string) {
	if e.count {
		e.sum.Count(hist, key)
	}
}

// the model operation of one List.Append, with the capacities the runtime was observed to choose
func (e *c9Exec) appendOp(a int, x int, prePresent bool, preLen, preCap int, child *value.List) string {
	h := e.hs[a]
	pn, _, _, pptr := value.VerifListState(h.l)
	cn, cc, _, cptr := value.VerifListState(child)
	_ = cn
	c1, c2 := 0, cc
	inplace := false
	if prePresent {
		inplace = preLen < preCap
		if inplace {
			e.cnt("append_parent_state", "present,spare")
		} else {
			e.cnt("append_parent_state", "present,full")
		}
	} else {
		inplace = pn > 0 && cptr == pptr
		if inplace {
			c1 = cc
			e.cnt("append_parent_state", "lazy,evaluated-with-spare")
		} else {
			c1 = pn
			e.cnt("append_parent_state", "lazy,evaluated-full")
		}
	}
	h.appends++
	h.derived++
	if inplace {
		h.inplace++
		e.cnt("append_kind", "in-place")
	} else {
		e.cnt("append_kind", "allocating")
	}
	if h.derived >= 2 && h.inplace >= 1 {
		e.nontriv = true
	}
	return fmt.Sprintf("OAppend %d %s %d %d", a, c09CoqZ(x), c1, c2)
}

func sortedInts(xs []int) []int {
	ys := append([]int(nil), xs...)
	sort.Ints(ys)
	return ys
}

func ringWindows(n int, xs []int) [][]int {
	if n <= 0 {
		return nil
	}
	buf := make([]int, n)
	pos, cnt := 0, 0
	var out [][]int
	for _, x := range xs {
		buf[pos] = x
		pos++
		if pos == n {
			pos = 0
		}
		if cnt < n {
			cnt++
		}
		if cnt == n {
			// list order: the oldest item is at pos
			w := append([]int(nil), buf[pos:]...)
			out = append(out, append(w, buf[:pos]...))
		}
	}
	return out
}

func movingWindows(xs []int) [][]int {
	var out [][]int
	s := 0
	for i, v := range xs {
		for abs(v-xs[s]) > 1 {
			s++
		}
		out = append(out, append([]int(nil), xs[s:i+1]...))
	}
	return out
}

func abs(x int) int {
	if x < 0 {
		return -x
	}
	return x
}

// lazy stages with per-pass state (goroutines, ring buffers, flags, counters), as derivations
type c9Stage struct {
	Name   string
	Coq    string
	Exp    string
	Binary bool
	Sem    func(a, b []int) []int
}

func c9RunningSums(a []int) []int {
	out := []int{}
	acc := 0
	for _, x := range a {
		acc += x
		out = append(out, acc)
	}
	return out
}

var c9Stages = []c9Stage{
	{"merge", "StMerge", "l.merge(m,(x,y)->x<y)", true, func(a, b []int) []int {
		out := []int{}
		i, j := 0, 0
		for i < len(a) && j < len(b) {
			if a[i] < b[j] {
				out = append(out, a[i])
				i++
			} else {
				out = append(out, b[j])
				j++
			}
		}
		return append(append(out, a[i:]...), b[j:]...)
	}},
	{"cross", "StCross", "l.cross(m,(x,y)->x+y)", true, func(a, b []int) []int {
		out := []int{}
		for _, x := range a {
			for _, y := range b {
				out = append(out, x+y)
			}
		}
		return out
	}},
	{"combine", "StCombine", "l.combine((x,y)->x+y)", false, func(a, _ []int) []int {
		out := []int{}
		for i := 0; i+1 < len(a); i++ {
			out = append(out, a[i]+a[i+1])
		}
		return out
	}},
	{"combine3", "StCombine3", "l.combine3((x,y,z)->x+y+z)", false, func(a, _ []int) []int {
		out := []int{}
		for i := 0; i+2 < len(a); i++ {
			out = append(out, a[i]+a[i+1]+a[i+2])
		}
		return out
	}},
	{"combineN", "StCombineN", "l.combineN(2,w->w.sum())", false, func(a, _ []int) []int {
		out := []int{}
		for i := 0; i+1 < len(a); i++ {
			out = append(out, a[i]+a[i+1])
		}
		return out
	}},
	{"compact", "StCompact", "l.compact((x,y)->x=y)", false, func(a, _ []int) []int {
		out := []int{}
		for i, x := range a {
			if i == 0 || a[i-1] != x {
				out = append(out, x)
			}
		}
		return out
	}},
	{"number", "StNumber", "l.number((i,e)->i+e)", false, func(a, _ []int) []int {
		out := []int{}
		for i, x := range a {
			out = append(out, i+x)
		}
		return out
	}},
	{"iir", "StIir", "l.iir(e->e,(i,o)->o+i)", false, func(a, _ []int) []int { return c9RunningSums(a) }},
	{"iirCombine", "StIirCombine", "l.iirCombine(e->e,(i0,i1,o)->o+i1)", false, func(a, _ []int) []int { return c9RunningSums(a) }},
}

func c9FindStage(name string) (c9Stage, bool) {
	for _, s := range c9Stages {
		if s.Name == name {
			return s, true
		}
	}
	return c9Stage{}, false
}

// the host function `flaky(x)`: the identity; when armed (countdown n >= 0) its (n+1)th call fails once
var c9FlakyCountdown = -1

func c9InstallFlaky() {
	FG().AddStaticFunction("flaky", funcGen.Function[value.Value]{
		Func: func(st funcGen.Stack[value.Value], cs []value.Value) (value.Value, error) {
			if c9FlakyCountdown == 0 {
				c9FlakyCountdown = -2 // fired
				return nil, fmt.Errorf("transient failure of the host function")
			}
			if c9FlakyCountdown > 0 {
				c9FlakyCountdown--
			}
			return st.Get(0), nil
		},
		Args:   1,
		IsPure: false,
	})
}

// materialising uses that may fail half way and are survived
var c9FailingUses = map[string]string{
	"size":     "l.size()",
	"eval":     "l.eval()",
	"index":    "l[0]",
	"equal":    "l=l",
	"order":    "l.order(e->e)",
	"reverse":  "l.reverse()",
	"try-size": "try l.size() catch -1",
}
var c9FailingUseNames = []string{"size", "eval", "index", "equal", "order", "reverse", "try-size"}

// an observer: an expression over existing handles (l, m lists / a, b maps) whose result is thrown away
type c9Observer struct {
	Name    string
	Exp     string
	Binary  bool
	Methods []string // the methods / operators of value.New() it exercises
}

var c9ListObservers = []c9Observer{
	{"~ list-in-list", "l ~ m", true, []string{"~"}},
	{"~ list-in-itself", "l ~ l", false, []string{"~"}},
	{"~ scalar-in-list", "k ~ l", false, []string{"~"}},
	{"=", "l = m", true, []string{"="}},
	{"!=", "l != m", true, []string{"!="}},
	{"+", "(l+m).string()", true, []string{"+"}},
	{"accept", "l.accept(e->e<k).string()", false, []string{"accept"}},
	{"map", "l.map(e->e+k).string()", false, []string{"map"}},
	{"reduce", "l.reduce((x,y)->x+y)", false, []string{"reduce"}},
	{"sum", "l.sum()", false, []string{"sum"}},
	{"mean", "l.mean()", false, []string{"mean"}},
	{"min", "l.min()", false, []string{"min"}},
	{"max", "l.max()", false, []string{"max"}},
	{"mapReduce", "l.mapReduce(0,(s,e)->s+e)", false, []string{"mapReduce"}},
	{"minMax", "l.minMax(e->e).string()", false, []string{"minMax"}},
	{"replaceList", "l.replaceList(x->x.size())", false, []string{"replaceList"}},
	{"combine", "l.combine((x,y)->x+y).string()", false, []string{"combine"}},
	{"combine3", "l.combine3((x,y,z)->x+y+z).string()", false, []string{"combine3"}},
	{"combineN", "l.combineN(2,w->w.sum()).string()", false, []string{"combineN"}},
	{"multiUse", "l.multiUse({s:x->x.size(),t:x->x.string()}).string()", false, []string{"multiUse"}},
	{"indexWhere", "l.indexWhere(e->e=k)", false, []string{"indexWhere"}},
	{"groupByString", "l.groupByString(e->\"\"+e).string()", false, []string{"groupByString"}},
	{"groupByInt", "l.groupByInt(e->e).string()", false, []string{"groupByInt"}},
	{"groupByEqual", "l.groupByEqual(e->e).string()", false, []string{"groupByEqual"}},
	{"uniqueString", "l.uniqueString(e->\"\"+e).string()", false, []string{"uniqueString"}},
	{"uniqueInt", "l.uniqueInt(e->e).string()", false, []string{"uniqueInt"}},
	{"compact", "l.compact((x,y)->x=y).string()", false, []string{"compact"}},
	{"cross", "l.cross(m,(x,y)->x+y).string()", true, []string{"cross"}},
	{"merge", "l.merge(m,(x,y)->x<y).string()", true, []string{"merge"}},
	{"order", "l.order(e->e).string()", false, []string{"order"}},
	{"orderRev", "l.orderRev(e->e).string()", false, []string{"orderRev"}},
	{"orderLess", "l.orderLess((x,y)->x<y).string()", false, []string{"orderLess"}},
	{"reverse", "l.reverse().string()", false, []string{"reverse"}},
	{"iir", "l.iir(e->e,(i,o)->o+i).string()", false, []string{"iir"}},
	{"iirCombine", "l.iirCombine(e->e,(i0,i1,o)->o+i1).string()", false, []string{"iirCombine"}},
	{"iirApply", "l.iirApply({initial:e->e, filter:(i,li,o)->o+i}).string()", false, []string{"iirApply"}},
	{"visit", "l.visit(0,(s,e)->s+e)", false, []string{"visit"}},
	{"fsm", "l.fsm((s,e)->goto(0)).string()", false, []string{"fsm"}},
	{"top", "l.top(k).string()", false, []string{"top"}},
	{"skip", "l.skip(k).string()", false, []string{"skip"}},
	{"number", "l.number((i,e)->i+e).string()", false, []string{"number"}},
	{"present", "l.present(e->e=k)", false, []string{"present"}},
	{"set", "l.set(0,k).string()", false, []string{"set"}},
	{"size", "l.size()", false, []string{"size"}},
	{"first", "l.first()", false, []string{"first"}},
	{"single", "l.single()", false, []string{"single"}},
	{"last", "l.last()", false, []string{"last"}},
	{"eval", "l.eval().size()", false, []string{"eval"}},
	{"string", "l.string()", false, []string{"string"}},
	{"movingWindow", "l.movingWindow(e->e).string()", false, []string{"movingWindow"}},
	{"movingWindowRemove", "l.movingWindowRemove(w->w.size()>2).string()", false, []string{"movingWindowRemove"}},
	{"createInterpolation", "l.createInterpolation(e->e,e->e*2)(1)", false, []string{"createInterpolation"}},
	{"linearReg", "l.linearReg(e->e,e->e*2).string()", false, []string{"linearReg"}},
	{"binning", "l.binning(0,1,3,e->e,e->1).string()", false, []string{"binning"}},
	{"binning2d", "l.binning2d(0,1,2,0,1,2,e->e,e->e,e->1).string()", false, []string{"binning2d"}},
	{"collectBinning", "l.collectBinning().string()", false, []string{"collectBinning"}},
	{"sprintf", "sprintf(\"%v\",l)", false, nil},
	{"invoke", "((x,y,z)->x+y+z).invoke(l)", false, nil},
	{"index", "l[k]", false, nil},
	{"list-of-lists", "[l,m,l].string()", true, nil},
}

// `append` is the one list method that is NOT an observer (it may write into the spare capacity and caps the
// receiver); it is a derivation of the history language (append, branch, constappend)
var c9ListDerivationsOnly = []string{"append"}

var c9MapObservers = []c9Observer{
	{"~ key-in-map", "k ~ a", false, []string{"~"}},
	{"=", "a = b", true, []string{"="}},
	{"!=", "a != b", true, []string{"!="}},
	{"+", "(a+b).string()", true, []string{"+"}},
	{"accept", "a.accept((k,v)->v<d).string()", false, []string{"accept"}},
	{"map", "a.map((k,v)->v+d).string()", false, []string{"map"}},
	{"replaceMap", "a.replaceMap(x->x.size())", false, []string{"replaceMap"}},
	{"list", "a.list().string()", false, []string{"list"}},
	{"size", "a.size()", false, []string{"size"}},
	{"string", "a.string()", false, []string{"string"}},
	{"isAvail", "a.isAvail(k)", false, []string{"isAvail"}},
	{"get", "a.get(k)", false, []string{"get"}},
	{"put", "a.put(\"zz\",d).string()", false, []string{"put"}},
	{"replace", "a.replace(x->{a:d}).string()", false, []string{"replace"}},
	{"combine", "a.combine(b,(x,y)->x+y).string()", true, []string{"combine"}},
	{"eval", "a.eval().string()", false, []string{"eval"}},
	{"member", "a.a", false, nil},
	{"map-in-list", "[a,b].string()", true, nil},
}

func c9FindObserver(tab []c9Observer, name string) (c9Observer, bool) {
	for _, o := range tab {
		if o.Name == name {
			return o, true
		}
	}
	return c9Observer{}, false
}

// methods of the list and map types of value.New() (read through the verif hook) that no observer and no
// derivation of the history language exercises
func c9UncoveredMethods() map[string][]string {
	ar := value.VerifMethodArities(FG())
	out := map[string][]string{}
	check := func(label string, id int, tab []c9Observer, extra []string) {
		have := map[string]bool{}
		for _, o := range tab {
			for _, m := range o.Methods {
				have[m] = true
			}
		}
		for _, m := range extra {
			have[m] = true
		}
		var miss []string
		for name := range ar[id] {
			if !have[name] {
				miss = append(miss, name)
			}
		}
		sort.Strings(miss)
		out[label] = miss
	}
	check("list", int(value.ListTypeId), c9ListObservers, c9ListDerivationsOnly)
	check("map", int(value.MapTypeId), c9MapObservers, nil)
	return out
}

// is `search` contained in `in` as a multiset (the meaning of list ~ list)
func multisetContains(search, in []int) bool {
	cnt := map[int]int{}
	for _, x := range in {
		cnt[x]++
	}
	for _, x := range search {
		if cnt[x] == 0 {
			return false
		}
		cnt[x]--
	}
	return true
}

// run one operation on the implementation; returns the model operations (Coq terms)
func (e *c9Exec) apply(o c9Op) []string {
	ok := func(i int) bool { return i >= 0 && i < len(e.hs) }
	var ops []string
	switch o.K {
	case "lit", "litapp":
		if o.K == "litapp" && len(o.Xs) == 0 {
			return nil
		}
		txt := litText(o.Xs)
		if o.K == "litapp" {
			txt = litText(o.Xs[:len(o.Xs)-1]) + ".append(" + strconv.Itoa(o.Xs[len(o.Xs)-1]) + ")"
		}
		// ONE generated function per literal: x=-1 returns the constant, x=-2 / x=-3 use the constant as left /
		// right operand of `~` (the constant is shared between evaluations), x>=0 appends to it
		f := c9Generate("let c="+txt+"; if x=-1 then c else if x=-2 then c ~ l else if x=-3 then l ~ c else c.append(x)", "x", "l")
		v, err := f.Eval(value.Int(-1), intList(nil))
		if err != nil {
			fatal("literal: %v", err)
		}
		l := v.(*value.List)
		v2, _ := f.Eval(value.Int(-1), intList(nil))
		if v2.(*value.List) != l {
			fatal("constant list is not shared between evaluations: the harness assumption about constant folding is wrong")
		}
		e.add(l, append([]int{}, o.Xs...), o.K)
		e.hs[len(e.hs)-1].litFn = f
		_, c, _, _ := value.VerifListState(l)
		ops = append(ops, fmt.Sprintf("OLit %s %d", coqZList(o.Xs), c))
	case "litrt":
		names := make([]string, len(o.Xs))
		args := make([]value.Value, len(o.Xs))
		for i, x := range o.Xs {
			names[i] = fmt.Sprintf("v%d", i)
			args[i] = value.Int(x)
		}
		l, good := e.evalList("["+strings.Join(names, ",")+"]", names, args...)
		if !good {
			fatal("run-time literal failed")
		}
		e.add(l, append([]int{}, o.Xs...), o.K)
		_, c, _, _ := value.VerifListState(l)
		ops = append(ops, fmt.Sprintf("OLit %s %d", coqZList(o.Xs), c))
	case "numbers":
		l, good := e.evalList("numbers(n)", []string{"n"}, value.Int(o.N))
		if !good {
			fatal("numbers failed")
		}
		xs := make([]int, o.N)
		for i := range xs {
			xs[i] = i
		}
		e.add(l, xs, o.K)
		ops = append(ops, fmt.Sprintf("ONumbers %d", o.N))
	case "append", "constappend":
		if !ok(o.A) {
			return nil
		}
		h := e.hs[o.A]
		n0, c0, p0, _ := e.state(o.A)
		var l *value.List
		if o.K == "constappend" {
			if h.litFn == nil || o.X < 0 {
				return nil
			}
			v, err := h.litFn.Eval(value.Int(o.X), intList(nil))
			if err != nil {
				fatal("constappend: %v", err)
			}
			l = v.(*value.List)
		} else {
			var good bool
			l, good = e.evalList("l.append(x)", []string{"l", "x"}, h.l, value.Int(o.X))
			if !good {
				fatal("append failed")
			}
		}
		ops = append(ops, e.appendOp(o.A, o.X, p0, n0, c0, l))
		e.add(l, append(append([]int{}, e.pure[o.A]...), o.X), o.K)
	case "branch":
		if !ok(o.A) {
			return nil
		}
		h := e.hs[o.A]
		n0, c0, p0, _ := e.state(o.A)
		r, good := e.evalList("[l.append(x), l.append(y)]", []string{"l", "x", "y"}, h.l, value.Int(o.X), value.Int(o.Y))
		if !good {
			fatal("branch failed")
		}
		el := e.elements(r)
		if len(el) != 2 {
			fatal("branch: expected two lists")
		}
		ops = append(ops, e.appendOp(o.A, o.X, p0, n0, c0, el[0]))
		n1, _, _, _ := e.state(o.A)
		// after the first append the parent is present and full (it was capped or already full)
		ops = append(ops, e.appendOp(o.A, o.Y, true, n1, n1, el[1]))
		e.add(el[0], append(append([]int{}, e.pure[o.A]...), o.X), o.K)
		e.add(el[1], append(append([]int{}, e.pure[o.A]...), o.Y), o.K)
	case "set", "reverse", "order":
		if !ok(o.A) || o.N < 0 {
			return nil
		}
		h := e.hs[o.A]
		var l *value.List
		var good bool
		src := e.pure[o.A]
		var res []int
		resOK := true
		switch o.K {
		case "set":
			l, good = e.evalList("l.set(i,x)", []string{"l", "i", "x"}, h.l, value.Int(o.N), value.Int(o.X))
			resOK = o.N < len(src)
			if o.N < len(src) {
				res = append([]int{}, src...)
				res[o.N] = o.X
			}
		case "reverse":
			l, good = e.evalList("l.reverse()", []string{"l"}, h.l)
			res = make([]int, len(src))
			for i, x := range src {
				res[len(src)-1-i] = x
			}
		case "order":
			l, good = e.evalList("l.order(e->e)", []string{"l"}, h.l)
			res = sortedInts(src)
		}
		_, c1, _, _ := e.state(o.A)
		switch o.K {
		case "set":
			ops = append(ops, fmt.Sprintf("OSet %d %d %s %d", o.A, o.N, c09CoqZ(o.X), c1))
		case "reverse":
			ops = append(ops, fmt.Sprintf("OReverse %d %d", o.A, c1))
		case "order":
			ops = append(ops, fmt.Sprintf("OOrder %d %d", o.A, c1))
		}
		h.derived++
		if good != resOK {
			e.failNow("error-behaviour:"+o.K, fmt.Sprintf("%s: the functional model says ok=%v, the implementation ok=%v", o.K, resOK, good), "", "")
		}
		if good {
			e.add(l, res, o.K)
		}
	case "concat":
		if !ok(o.A) || !ok(o.B) {
			return nil
		}
		l, good := e.evalList("a+b", []string{"a", "b"}, e.hs[o.A].l, e.hs[o.B].l)
		if !good {
			fatal("concat failed")
		}
		e.hs[o.A].derived++
		e.hs[o.B].derived++
		e.add(l, append(append([]int{}, e.pure[o.A]...), e.pure[o.B]...), o.K)
		ops = append(ops, fmt.Sprintf("OConcat %d %d", o.A, o.B))
	case "map", "accept", "top", "skip":
		if !ok(o.A) || o.N < 0 {
			return nil
		}
		h := e.hs[o.A]
		src := e.pure[o.A]
		var l *value.List
		var good bool
		res := []int{}
		switch o.K {
		case "map":
			l, good = e.evalList("l.map(e->e+k)", []string{"l", "k"}, h.l, value.Int(o.X))
			for _, x := range src {
				res = append(res, x+o.X)
			}
			ops = append(ops, fmt.Sprintf("OMap %s %d", c09CoqZ(o.X), o.A))
		case "accept":
			l, good = e.evalList("l.accept(e->e<k)", []string{"l", "k"}, h.l, value.Int(o.X))
			for _, x := range src {
				if x < o.X {
					res = append(res, x)
				}
			}
			ops = append(ops, fmt.Sprintf("OAccept %s %d", c09CoqZ(o.X), o.A))
		case "top":
			l, good = e.evalList("l.top(n)", []string{"l", "n"}, h.l, value.Int(o.N))
			res = append(res, src[:min(o.N, len(src))]...)
			ops = append(ops, fmt.Sprintf("OTop %d %d", o.N, o.A))
		case "skip":
			l, good = e.evalList("l.skip(n)", []string{"l", "n"}, h.l, value.Int(o.N))
			res = append(res, src[min(o.N, len(src)):]...)
			ops = append(ops, fmt.Sprintf("OSkip %d %d", o.N, o.A))
		}
		if !good {
			fatal("%s failed", o.K)
		}
		h.derived++
		e.add(l, res, o.K)
	case "force", "size":
		if !ok(o.A) {
			return nil
		}
		h := e.hs[o.A]
		if o.K == "force" {
			l, good := e.evalList("l.eval()", []string{"l"}, h.l)
			if !good || l != h.l {
				fatal("eval() did not return the list itself")
			}
		} else {
			mustEval("l.size()", []string{"l"}, h.l)
		}
		_, c1, _, _ := e.state(o.A)
		ops = append(ops, fmt.Sprintf("OForce %d %d", o.A, c1))
	case "windows":
		if !ok(o.A) || o.N < 1 {
			return nil
		}
		h := e.hs[o.A]
		c, good := e.evalList("l.combineN(n, w->w)", []string{"l", "n"}, h.l, value.Int(o.N))
		if !good {
			fatal("combineN failed")
		}
		ws := ringWindows(o.N, e.pure[o.A])
		el := e.elements(c)
		if len(el) != len(ws) {
			e.failNow("wrong-at-creation:windows", "combineN produced a different number of windows", fmt.Sprint(len(ws)), fmt.Sprint(len(el)))
			return nil
		}
		for i, w := range el {
			e.add(w, ws[i], o.K)
		}
		h.derived++
		ops = append(ops, fmt.Sprintf("OWindows %d %d", o.N, o.A))
	case "movwin":
		if !ok(o.A) {
			return nil
		}
		h := e.hs[o.A]
		c, good := e.evalList("l.movingWindow(e->e)", []string{"l"}, h.l)
		if !good {
			fatal("movingWindow failed")
		}
		ws := movingWindows(e.pure[o.A])
		el := e.elements(c)
		if len(el) != len(ws) {
			e.failNow("wrong-at-creation:movwin", "movingWindow produced a different number of windows", fmt.Sprint(len(ws)), fmt.Sprint(len(el)))
			return nil
		}
		for i, w := range el {
			e.add(w, ws[i], o.K)
		}
		h.derived++
		_, c1, _, _ := e.state(o.A)
		ops = append(ops, fmt.Sprintf("OMovWin %d %d", o.A, c1))
	case "stage":
		// the other lazy stages of value/list.go: the result is a handle that stays lazy and is traversed again
		// and again by the observations (partially, then completely) before anything materialises it
		st, found := c9FindStage(o.Key)
		if !ok(o.A) || !found {
			return nil
		}
		b := o.A
		if st.Binary {
			if !ok(o.B) {
				return nil
			}
			b = o.B
		}
		if st.Name == "cross" && len(e.pure[o.A])*len(e.pure[b]) > 40 {
			return nil
		}
		l, good := e.evalList(st.Exp, []string{"l", "m"}, e.hs[o.A].l, e.hs[b].l)
		if !good {
			fatal("stage %s failed", st.Name)
		}
		e.hs[o.A].derived++
		e.add(l, st.Sem(e.pure[o.A], e.pure[b]), "stage:"+st.Name)
		e.cnt("list_stages", st.Name)
		ops = append(ops, fmt.Sprintf("OStage %s %d %d", st.Coq, o.A, b))
	case "flakymap":
		// map(e->flaky(e)): the identity, through a host function that fails when the harness arms it
		if !ok(o.A) {
			return nil
		}
		l, good := e.evalList("l.map(e->flaky(e))", []string{"l"}, e.hs[o.A].l)
		if !good {
			fatal("flaky map failed")
		}
		e.hs[o.A].derived++
		e.add(l, append([]int{}, e.pure[o.A]...), o.K)
		ops = append(ops, fmt.Sprintf("OMap 0 %d", o.A))
	case "evalfail":
		// a materialising operation while the host function is armed to fail at its (N+1)th call: if it fails,
		// the caller survives (Go side: the error is dropped; `try`: inside the language) and nothing may have
		// changed; if it does not fail (no flaky closure upstream, or fewer elements) it is an ordinary Eval
		if !ok(o.A) || o.N < 0 {
			return nil
		}
		exp, found := c9FailingUses[o.Key]
		if !found {
			return nil
		}
		pre := make([]bool, len(e.hs))
		for i := range e.hs {
			_, _, pre[i], _ = e.state(i)
		}
		c9FlakyCountdown = o.N
		v, err := evalExpr(exp, []string{"l"}, e.hs[o.A].l)
		failed := err != nil || c9FlakyCountdown == -2
		c9FlakyCountdown = -1
		_ = v
		ops = []string{}
		for i := range e.hs {
			_, c, p, _ := e.state(i)
			if p && !pre[i] {
				ops = append(ops, fmt.Sprintf("OForce %d %d", i, c))
			}
		}
		if failed {
			e.cnt("failed_materialisations", o.Key)
			ops = append(ops, fmt.Sprintf("OEvalFail %d %d", o.A, o.N))
		} else {
			e.cnt("failed_materialisations", "did-not-fail")
		}
	case "obs", "constcontains":
		// observer-style operations: existing handles are operands of a built-in whose result is irrelevant;
		// no handle may change.  In the model: nothing but the materialisation (Eval) of operands, which is
		// read off the hook (OForce for every handle whose itemsPresent flag flipped).
		if !ok(o.A) || (o.B != 0 && !ok(o.B)) {
			return nil
		}
		pre := make([]bool, len(e.hs))
		for i := range e.hs {
			_, _, pre[i], _ = e.state(i)
		}
		if o.K == "constcontains" {
			h := e.hs[o.A]
			if h.litFn == nil || (o.N != 2 && o.N != 3) {
				return nil
			}
			v, err := h.litFn.Eval(value.Int(-o.N), e.hs[o.B].l)
			if err != nil {
				fatal("constcontains: %v", err)
			}
			want := multisetContains(e.pure[o.A], e.pure[o.B])
			if o.N == 3 {
				want = multisetContains(e.pure[o.B], e.pure[o.A])
			}
			if b, isB := v.(value.Bool); !isB || bool(b) != want {
				e.failNow("observer-result:~", fmt.Sprintf("step %s: `~` with the constant list %v of a generated function and %v gives %v", o.String(), e.pure[o.A], e.pure[o.B], v), fmt.Sprint(want), fmt.Sprint(v))
			}
			e.cnt("list_observers", "const~")
		} else {
			ob, found := c9FindObserver(c9ListObservers, o.Key)
			if !found {
				return nil
			}
			b := o.A
			if ob.Binary {
				b = o.B
			}
			_, err := evalExpr(ob.Exp, []string{"l", "m", "k"}, e.hs[o.A].l, e.hs[b].l, value.Int(o.X))
			e.cnt("list_observers", ob.Name)
			if err != nil {
				e.cnt("list_observer_errors", ob.Name)
			}
		}
		ops = []string{}
		for i := range e.hs {
			_, c, p, _ := e.state(i)
			if p && !pre[i] {
				ops = append(ops, fmt.Sprintf("OForce %d %d", i, c))
			}
		}
	default:
		fatal("unknown list operation %q", o.K)
	}
	return ops
}

func (e *c9Exec) failNow(sig, what, exp, obs string) {
	if e.fail == nil {
		e.fail = &c9Fail{Step: len(e.steps), Sig: sig, What: what, Expected: exp, Observed: obs}
	}
}

func (e *c9Exec) observe(i int) c9Obs {
	h := e.hs[i]
	var o c9Obs
	// a list that is still lazy is first consumed PARTIALLY (first(), top(2)), then completely (string()): every
	// pass over a lazy list must yield the bound content, whatever passes came before
	_, _, lazyBefore, _ := value.VerifListState(h.l)
	lazyBefore = !lazyBefore
	var firstV, top2 value.Value
	var firstErr error
	if lazyBefore {
		firstV, firstErr = evalExpr("l.first()", []string{"l"}, h.l)
		top2, _ = evalExpr("l.top(2).string()", []string{"l"}, h.l)
	}
	xs := []int{}
	sv, serr := evalExpr("l.string()", []string{"l"}, h.l)
	if serr != nil {
		e.failNow("observation-fails", fmt.Sprintf("handle %d: string() fails: %v", i, serr), fmt.Sprint(e.pure[i]), "error")
	} else {
		var good bool
		xs, good = parseIntList(string(sv.(value.String)))
		if !good {
			fatal("cannot parse string() of a list: %q", sv)
		}
	}
	if lazyBefore && serr == nil {
		if len(xs) > 0 {
			if iv, isInt := firstV.(value.Int); firstErr != nil || !isInt || int(iv) != xs[0] {
				e.failNow("observation-inconsistent", fmt.Sprintf("handle %d: first() (%v, %v) differs from the first element of string() %v", i, firstV, firstErr, xs), fmt.Sprint(xs[0]), fmt.Sprint(firstV))
			}
		}
		if t2, isS := top2.(value.String); !isS || string(t2) != litTextSpaced(xs[:min(2, len(xs))]) {
			e.failNow("observation-inconsistent", fmt.Sprintf("handle %d: top(2).string() = %v differs from the head of string() %v", i, top2, xs), "", "")
		}
	}
	o.Iter = xs
	o.Len, o.Cap, o.Present, _ = value.VerifListState(h.l)
	o.Items = []int{}
	if o.Present {
		n := int(mustEval("l.size()", []string{"l"}, h.l).(value.Int))
		for j := 0; j < n; j++ {
			v := mustEval("l[i]", []string{"l", "i"}, h.l, value.Int(j))
			iv, isInt := v.(value.Int)
			if !isInt {
				fatal("element is not an int")
			}
			o.Items = append(o.Items, int(iv))
		}
		eq := mustEval("l=m", []string{"l", "m"}, h.l, intList(o.Items))
		if b, isB := eq.(value.Bool); !isB || !bool(b) {
			e.failNow("observation-inconsistent", fmt.Sprintf("handle %d: `=` against its own elements is false", i), "true", "false")
		}
	}
	return o
}

// run a list history on the implementation; returns the Coq term of the case body
func c9RunList(h c9Hist, sum *Summary, count bool) (*c9Exec, string) {
	e := &c9Exec{sum: sum, count: count}
	for si, o := range h.Ops {
		before := len(e.hs)
		ops := e.apply(o)
		e.ranges = append(e.ranges, [2]int{before, len(e.hs)})
		if ops == nil && len(e.hs) == before {
			if e.fail != nil {
				break
			}
			continue
		}
		e.cnt("list_ops", o.K)
		var obs []string
		for i := range e.hs {
			ob := e.observe(i)
			term := ob.coq()
			if !(i < len(e.prev) && e.prev[i] == term) {
				obs = append(obs, fmt.Sprintf("Ch %d (%s)", i, term))
			}
			if i >= len(e.prev) {
				e.prev = append(e.prev, term)
			} else {
				e.prev[i] = term
			}
			// the Go-side oracle: the purely functional model of the history
			want := e.pure[i]
			bad := ""
			if !intsEq(ob.Iter, want) {
				bad = fmt.Sprintf("string() shows %v", ob.Iter)
			} else if ob.Present && !intsEq(ob.Items, want) {
				bad = fmt.Sprintf("size()/[i] show %v", ob.Items)
			}
			if bad != "" {
				sig := "changed-by:" + o.K
				if o.K == "obs" {
					sig += ":" + o.Key
				}
				what := fmt.Sprintf("handle %d (created by %s) was bound to %v; after step %d (%s) %s", i, e.hs[i].creator, want, si+1, o.String(), bad)
				if i >= before {
					sig = "wrong-at-creation:" + o.K
					if o.K == "stage" {
						sig += ":" + o.Key
					}
					what = fmt.Sprintf("handle %d, result of step %d (%s), must be %v by the functional model; %s", i, si+1, o.String(), want, bad)
				}
				e.failNow(sig, what, fmt.Sprint(want), fmt.Sprint(ob.Iter)+" / "+fmt.Sprint(ob.Items))
			}
		}
		e.steps = append(e.steps, fmt.Sprintf("LS %s %d %s", CoqList(ops), len(e.hs), CoqList(obs)))
		if e.fail != nil {
			break // the history is cut at the first failing step: this is the shrunk replay
		}
	}
	return e, "LH " + CoqList(e.steps)
}

// ---------------------------------------------------------------- map histories

type c9MapExec struct {
	ranges  [][2]int
	ms      []value.Map
	litFn   []funcGen.Func[value.Value]
	creator []string
	pure    []map[string]int
	steps   []string
	fail    *c9Fail
	sum     *Summary
	count   bool
}

func coqKey(k string) string { return CoqStr(k) }

func coqEntries(m map[string]int) string {
	ks := sortedKeys(m)
	parts := make([]string, len(ks))
	for i, k := range ks {
		parts[i] = fmt.Sprintf("(%s, %s%%Z)", coqKey(k), c09CoqZ(m[k]))
	}
	return CoqList(parts)
}

func mapLitText(ks string, xs []int, vars bool) (string, []string, []value.Value) {
	var parts, names []string
	var args []value.Value
	for i, k := range ks {
		if i >= len(xs) {
			break
		}
		if vars {
			n := fmt.Sprintf("v%d", i)
			names = append(names, n)
			args = append(args, value.Int(xs[i]))
			parts = append(parts, fmt.Sprintf("%c:%s", k, n))
		} else {
			parts = append(parts, fmt.Sprintf("%c:%d", k, xs[i]))
		}
	}
	return "{" + strings.Join(parts, ",") + "}", names, args
}

func uniqueKeys(ks string) bool {
	seen := map[rune]bool{}
	for _, k := range ks {
		if seen[k] || k < 'a' || k > 'z' {
			return false
		}
		seen[k] = true
	}
	return true
}

func (e *c9MapExec) add(m value.Map, content map[string]int, creator string, f funcGen.Func[value.Value]) {
	e.ms = append(e.ms, m)
	e.pure = append(e.pure, content)
	e.creator = append(e.creator, creator)
	e.litFn = append(e.litFn, f)
}

func copyMap(m map[string]int) map[string]int {
	r := map[string]int{}
	for k, v := range m {
		r[k] = v
	}
	return r
}

func (e *c9MapExec) evalMap(exp string, names []string, args ...value.Value) (value.Map, bool) {
	v, err := evalExpr(exp, names, args...)
	if err != nil {
		return value.Map{}, false
	}
	m, ok := v.(value.Map)
	return m, ok
}

func (e *c9MapExec) apply(o c9Op) []string {
	ok := func(i int) bool { return i >= 0 && i < len(e.ms) }
	okKey := func(k string) bool { return len(k) == 1 && k[0] >= 'a' && k[0] <= 'z' }
	var ops []string
	switch o.K {
	case "mlit", "mlitrt":
		if !uniqueKeys(o.Ks) || len(o.Xs) < len(o.Ks) {
			return nil
		}
		content := map[string]int{}
		var ents []string
		for i, k := range o.Ks {
			content[string(k)] = o.Xs[i]
			ents = append(ents, fmt.Sprintf("(%s, %s%%Z)", coqKey(string(k)), c09CoqZ(o.Xs[i])))
		}
		if o.K == "mlit" {
			txt, _, _ := mapLitText(o.Ks, o.Xs, false)
			f := c9Generate("let c="+txt+"; if x<0 then c else c.put(k,x)", "x", "k")
			v, err := f.Eval(value.Int(-1), value.String("z"))
			if err != nil {
				fatal("map literal: %v", err)
			}
			e.add(v.(value.Map), content, o.K, f)
		} else {
			txt, names, args := mapLitText(o.Ks, o.Xs, true)
			m, good := e.evalMap(txt, names, args...)
			if !good {
				fatal("run-time map literal failed")
			}
			e.add(m, content, o.K, nil)
		}
		ops = append(ops, "MLit "+CoqList(ents))
	case "put", "constput":
		if !ok(o.A) || !okKey(o.Key) {
			return nil
		}
		var m value.Map
		var good bool
		if o.K == "constput" {
			if e.litFn[o.A] == nil || o.X < 0 {
				return nil
			}
			v, err := e.litFn[o.A].Eval(value.Int(o.X), value.String(o.Key))
			if err == nil {
				m, good = v.(value.Map)
			}
		} else {
			m, good = e.evalMap("m.put(k,v)", []string{"m", "k", "v"}, e.ms[o.A], value.String(o.Key), value.Int(o.X))
		}
		ops = append(ops, fmt.Sprintf("MPut %d %s %s", o.A, coqKey(o.Key), c09CoqZ(o.X)))
		_, exists := e.pure[o.A][o.Key]
		if good == exists {
			e.failNow("error-behaviour:put", fmt.Sprintf("put: key present=%v but the implementation ok=%v", exists, good))
		}
		if good {
			c := copyMap(e.pure[o.A])
			c[o.Key] = o.X
			e.add(m, c, o.K, nil)
		}
	case "mergelit":
		// m + {key:x}: a fresh one-entry literal (a handle of its own) merged to the right of an existing map
		if !ok(o.A) || !okKey(o.Key) {
			return nil
		}
		if _, in := e.pure[o.A][o.Key]; in {
			return nil
		}
		lit, good := e.evalMap("{"+o.Key+":v0}", []string{"v0"}, value.Int(o.X))
		if !good {
			fatal("run-time map literal failed")
		}
		e.add(lit, map[string]int{o.Key: o.X}, "mlitrt", nil)
		ops = append(ops, fmt.Sprintf("MLit [(%s, %s%%Z)]", coqKey(o.Key), c09CoqZ(o.X)))
		m, good := e.evalMap("a+b", []string{"a", "b"}, e.ms[o.A], lit)
		if !good {
			e.failNow("error-behaviour:merge", "merge with a fresh key fails")
			return ops
		}
		c := copyMap(e.pure[o.A])
		c[o.Key] = o.X
		e.add(m, c, "merge", nil)
		ops = append(ops, fmt.Sprintf("MMerge %d %d", o.A, len(e.ms)-2))
	case "merge":
		if !ok(o.A) || !ok(o.B) {
			return nil
		}
		m, good := e.evalMap("a+b", []string{"a", "b"}, e.ms[o.A], e.ms[o.B])
		ops = append(ops, fmt.Sprintf("MMerge %d %d", o.A, o.B))
		clash := false
		for k := range e.pure[o.B] {
			if _, in := e.pure[o.A][k]; in {
				clash = true
			}
		}
		if good == clash {
			e.failNow("error-behaviour:merge", fmt.Sprintf("merge: common key=%v but the implementation ok=%v", clash, good))
		}
		if good {
			c := copyMap(e.pure[o.A])
			for k, v := range e.pure[o.B] {
				c[k] = v
			}
			e.add(m, c, o.K, nil)
		}
	case "replace":
		if !ok(o.A) || !okKey(o.Key) {
			return nil
		}
		if _, in := e.pure[o.A][o.Key]; !in {
			return nil // replacing a key that does not exist is C13's business (Iter/Get/Size disagree)
		}
		m, good := e.evalMap("m.replace(o->{"+o.Key+":v})", []string{"m", "v"}, e.ms[o.A], value.Int(o.X))
		if !good {
			fatal("replace failed")
		}
		c := copyMap(e.pure[o.A])
		c[o.Key] = o.X
		e.add(m, c, o.K, nil)
		ops = append(ops, fmt.Sprintf("MReplace %d %s %s", o.A, coqKey(o.Key), c09CoqZ(o.X)))
	case "mapv", "maccept", "meval":
		if !ok(o.A) {
			return nil
		}
		var m value.Map
		var good bool
		c := map[string]int{}
		switch o.K {
		case "mapv":
			m, good = e.evalMap("m.map((k,v)->v+d)", []string{"m", "d"}, e.ms[o.A], value.Int(o.X))
			for k, v := range e.pure[o.A] {
				c[k] = v + o.X
			}
			ops = append(ops, fmt.Sprintf("MMapV %d %s", o.A, c09CoqZ(o.X)))
		case "maccept":
			m, good = e.evalMap("m.accept((k,v)->v<d)", []string{"m", "d"}, e.ms[o.A], value.Int(o.X))
			for k, v := range e.pure[o.A] {
				if v < o.X {
					c[k] = v
				}
			}
			ops = append(ops, fmt.Sprintf("MAccept %d %s", o.A, c09CoqZ(o.X)))
		case "meval":
			m, good = e.evalMap("m.eval()", []string{"m"}, e.ms[o.A])
			c = copyMap(e.pure[o.A])
			ops = append(ops, fmt.Sprintf("MEval %d", o.A))
		}
		if !good {
			// e.g. v+d on the bool entry of a minMax result: an error, no new handle (nothing in the model either)
			if count := e.count; count {
				e.sum.Count("map_ops_failed", o.K)
			}
			return nil
		}
		e.add(m, c, o.K, nil)
	case "mminmax":
		// a map built by a library builder with spare capacity in its ListMap: [..].minMax(e->e)
		if len(o.Xs) == 0 {
			return nil
		}
		m, good := e.evalMap("l.minMax(e->e)", []string{"l"}, intList(o.Xs))
		if !good {
			fatal("minMax failed")
		}
		srt := sortedInts(o.Xs)
		c := map[string]int{"min": srt[0], "max": srt[len(srt)-1], "minItem": srt[0], "maxItem": srt[len(srt)-1], "valid": 1}
		var ents []string
		for _, k := range []string{"min", "max", "minItem", "maxItem", "valid"} {
			ents = append(ents, fmt.Sprintf("(%s, %s%%Z)", coqKey(k), c09CoqZ(c[k])))
		}
		e.add(m, c, o.K, nil)
		ops = append(ops, "MLitN 3 "+CoqList(ents))
	case "mobs":
		// observer-style operations on maps: no handle may change, the model does nothing
		if !ok(o.A) || !ok(o.B) {
			return nil
		}
		ob, found := c9FindObserver(c9MapObservers, o.Ks)
		if !found {
			return nil
		}
		key := o.Key
		if key == "" {
			key = "a"
		}
		b := o.A
		if ob.Binary {
			b = o.B
		}
		_, err := evalExpr(ob.Exp, []string{"a", "b", "k", "d"}, e.ms[o.A], e.ms[b], value.String(key), value.Int(o.X))
		if e.count {
			e.sum.Count("map_observers", ob.Name)
			if err != nil {
				e.sum.Count("map_observer_errors", ob.Name)
			}
		}
		ops = []string{}
	default:
		fatal("unknown map operation %q", o.K)
	}
	return ops
}

func (e *c9MapExec) failNow(sig, what string) {
	if e.fail == nil {
		e.fail = &c9Fail{Step: len(e.steps), Sig: sig, What: what}
	}
}

func parseIntMap(s string) (map[string]int, bool) {
	if len(s) < 2 || s[0] != '{' || s[len(s)-1] != '}' {
		return nil, false
	}
	s = s[1 : len(s)-1]
	m := map[string]int{}
	if s == "" {
		return m, true
	}
	for _, f := range strings.Split(s, ", ") {
		kv := strings.SplitN(f, ":", 2)
		if len(kv) != 2 {
			return nil, false
		}
		n, err := strconv.Atoi(kv[1])
		if kv[1] == "true" {
			n, err = 1, nil
		} else if kv[1] == "false" {
			n, err = 0, nil
		}
		if err != nil {
			return nil, false
		}
		if _, dup := m[kv[0]]; dup {
			return nil, false
		}
		m[kv[0]] = n
	}
	return m, true
}

// map values as observed: ints, booleans as 0/1
func c9MapVal(v value.Value) (int, bool) {
	switch x := v.(type) {
	case value.Int:
		return int(x), true
	case value.Bool:
		if x {
			return 1, true
		}
		return 0, true
	}
	return 0, false
}

func mapsEq(a, b map[string]int) bool {
	if len(a) != len(b) {
		return false
	}
	for k, v := range a {
		if w, ok := b[k]; !ok || w != v {
			return false
		}
	}
	return true
}

func c9RunMap(h c9Hist, sum *Summary, count bool) (*c9MapExec, string) {
	e := &c9MapExec{sum: sum, count: count}
	for si, o := range h.Ops {
		before := len(e.ms)
		ops := e.apply(o)
		e.ranges = append(e.ranges, [2]int{before, len(e.ms)})
		if ops == nil {
			continue
		}
		if count {
			sum.Count("map_ops", o.K)
		}
		obs := make([]string, len(e.ms))
		for i, m := range e.ms {
			sv := mustEval("m.string()", []string{"m"}, m)
			got, good := parseIntMap(string(sv.(value.String)))
			if !good {
				fatal("cannot parse string() of a map: %q", sv)
			}
			size := int(mustEval("m.size()", []string{"m"}, m).(value.Int))
			obs[i] = fmt.Sprintf("MO %s %d", coqEntries(got), size)
			want := e.pure[i]
			bad := ""
			if !mapsEq(got, want) {
				bad = fmt.Sprintf("string() shows %v", got)
			} else {
				for k, v := range want {
					gv, err := evalExpr("m.get(k)", []string{"m", "k"}, m, value.String(k))
					if err != nil {
						bad = fmt.Sprintf("get(%s) fails", k)
					} else if iv, isInt := c9MapVal(gv); !isInt || iv != v {
						bad = fmt.Sprintf("get(%s) = %v", k, gv)
					}
				}
				// Iter at the Go level agrees with string()
				n := 0
				m.Iter(func(k string, v value.Value) bool {
					n++
					if iv, isInt := c9MapVal(v); !isInt || want[k] != iv {
						bad = fmt.Sprintf("Iter yields %s:%v", k, v)
					}
					return true
				})
				if n != len(want) && bad == "" {
					bad = fmt.Sprintf("Iter yields %d entries", n)
				}
			}
			if bad != "" {
				sig := "map-changed-by:" + o.K
				if o.K == "mobs" {
					sig += ":" + o.Ks
				}
				what := fmt.Sprintf("map handle %d (created by %s) was bound to %v; after step %d (%s) %s", i, e.creator[i], want, si+1, o.String(), bad)
				if i >= before {
					sig = "map-wrong-at-creation:" + o.K
					what = fmt.Sprintf("map handle %d, result of step %d (%s), must be %v by the functional model; %s", i, si+1, o.String(), want, bad)
				}
				e.failNow(sig, what)
			}
		}
		e.steps = append(e.steps, fmt.Sprintf("MS %s %s", CoqList(ops), CoqList(obs)))
		if e.fail != nil {
			break
		}
	}
	return e, "MH " + CoqList(e.steps)
}

// the hazard the property names, exercised at the Go level: listMap.ListMap.Append is a builder
// operation (it overwrites / appends in place); value/map.go must never apply it to a storage that is
// already part of a map value.  Measured here for the evidence file; not a verdict.
func c9ListMapAPIFacts() map[string]any {
	a := listMap.New[value.Value](4).Append("k", value.Int(1))
	b := a.Append("k", value.Int(2))
	av, _ := a.Get("k")
	c := a.Append("x", value.Int(3))
	d := a.Append("x", value.Int(4))
	cv, _ := c.Get("x")
	_, _ = b, d
	return map[string]any{
		"listMap.Append overwrites the receiver's value for an existing key":    fmt.Sprint(av) == "2",
		"two listMap.Append on one receiver with spare capacity share the cell": fmt.Sprint(cv) == "4",
	}
}

// ---------------------------------------------------------------- generator

func (r *Rng) c9Val() int { return r.Pick(12) - 2 }

func (r *Rng) c9Ints(n int) []int {
	xs := make([]int, n)
	for i := range xs {
		xs[i] = r.c9Val()
	}
	return xs
}

func (r *Rng) genListHist(maxOps int) c9Hist {
	h := c9Hist{Kind: "list"}
	n := 2 + r.Pick(maxOps-1)
	handles := 0       // number of handles so far (as predicted; windows make this approximate)
	sizes := []int{}   // predicted content sizes
	lits := []int{}    // handles that are constants of a generated function
	flakies := []int{} // handles whose closure calls the host function flaky
	focus := -1
	creator := func() {
		switch k := r.Pick(10); {
		case k < 3:
			xs := r.c9Ints(r.Pick(5))
			h.Ops = append(h.Ops, c9Op{K: "lit", Xs: xs})
			lits = append(lits, handles)
			sizes = append(sizes, len(xs))
		case k < 6:
			xs := r.c9Ints(1 + r.Pick(5))
			h.Ops = append(h.Ops, c9Op{K: "litapp", Xs: xs})
			lits = append(lits, handles)
			sizes = append(sizes, len(xs))
		case k < 8:
			xs := r.c9Ints(r.Pick(5))
			h.Ops = append(h.Ops, c9Op{K: "litrt", Xs: xs})
			sizes = append(sizes, len(xs))
		default:
			m := r.Pick(7)
			h.Ops = append(h.Ops, c9Op{K: "numbers", N: m})
			sizes = append(sizes, m)
		}
		handles++
	}
	creator()
	for len(h.Ops) < n {
		if focus < 0 || focus >= handles || r.Chance(0.25) {
			focus = r.Pick(handles)
		}
		a := focus
		if r.Chance(0.35) {
			a = r.Pick(handles)
		}
		one := func(k string, size int) {
			sizes = append(sizes, size)
			handles++
			_ = k
		}
		if r.Chance(0.17) {
			switch k := r.Pick(10); {
			case k < 5:
				// a lazy stage with per-pass state; its result stays lazy and is traversed by every observation
				st := c9Stages[r.Pick(len(c9Stages))]
				if r.Chance(0.3) {
					st = c9Stages[0] // merge
				}
				b := a
				if st.Binary {
					b = r.Pick(handles)
				}
				sz := sizes[a]
				switch st.Name {
				case "merge":
					sz = sizes[a] + sizes[b]
				case "cross":
					sz = sizes[a] * sizes[b]
					if sz > 40 {
						continue
					}
				case "combine", "combineN":
					sz = max(0, sizes[a]-1)
				case "combine3":
					sz = max(0, sizes[a]-2)
				}
				h.Ops = append(h.Ops, c9Op{K: "stage", Key: st.Name, A: a, B: b})
				one("stage", sz)
			case k < 7:
				h.Ops = append(h.Ops, c9Op{K: "flakymap", A: a})
				flakies = append(flakies, handles)
				one("flakymap", sizes[a])
			default:
				// a materialisation that fails half way, survived; mostly followed by a successful one
				if len(flakies) == 0 || r.Chance(0.3) {
					h.Ops = append(h.Ops, c9Op{K: "flakymap", A: a})
					flakies = append(flakies, handles)
					one("flakymap", sizes[a])
				}
				fi := r.Pick(len(flakies))
				t := flakies[fi]
				nfail := 0
				if sizes[t] > 1 {
					nfail = 1 + r.Pick(sizes[t]-1)
				}
				h.Ops = append(h.Ops, c9Op{K: "evalfail", A: t, N: nfail, Key: c9FailingUseNames[r.Pick(len(c9FailingUseNames))]})
				if r.Chance(0.7) {
					h.Ops = append(h.Ops, c9Op{K: []string{"force", "size"}[r.Pick(2)], A: t})
					flakies = append(flakies[:fi:fi], flakies[fi+1:]...) // materialised: cannot fail any more
				}
			}
			continue
		}
		if r.Chance(0.2) {
			// an observer: handles as operands of a built-in, result thrown away
			if len(lits) > 0 && r.Chance(0.2) {
				h.Ops = append(h.Ops, c9Op{K: "constcontains", A: lits[r.Pick(len(lits))], B: r.Pick(handles), N: 2 + r.Pick(2)})
			} else {
				ob := c9ListObservers[r.Pick(len(c9ListObservers))]
				if r.Chance(0.25) {
					ob = c9ListObservers[r.Pick(3)] // the `~` forms
				}
				h.Ops = append(h.Ops, c9Op{K: "obs", Key: ob.Name, A: a, B: r.Pick(handles), X: r.Pick(4)})
			}
			continue
		}
		switch k := r.Pick(100); {
		case k < 30:
			h.Ops = append(h.Ops, c9Op{K: "append", A: a, X: r.c9Val()})
			one("append", sizes[a]+1)
			if r.Chance(0.5) {
				focus = handles - 1 // build chains, so that spare capacity appears
			}
		case k < 40:
			h.Ops = append(h.Ops, c9Op{K: "branch", A: a, X: r.c9Val(), Y: r.c9Val()})
			one("branch", sizes[a]+1)
			one("branch", sizes[a]+1)
		case k < 46:
			if len(lits) > 0 {
				l := lits[r.Pick(len(lits))]
				h.Ops = append(h.Ops, c9Op{K: "constappend", A: l, X: r.Pick(10)})
				one("constappend", sizes[l]+1)
			}
		case k < 52:
			idx := 0
			if sizes[a] > 0 {
				idx = r.Pick(sizes[a])
			}
			if r.Chance(0.1) {
				idx = sizes[a] + r.Pick(2)
			}
			h.Ops = append(h.Ops, c9Op{K: "set", A: a, N: idx, X: r.c9Val()})
			if idx < sizes[a] {
				one("set", sizes[a])
			}
		case k < 56:
			h.Ops = append(h.Ops, c9Op{K: "reverse", A: a})
			one("reverse", sizes[a])
		case k < 60:
			h.Ops = append(h.Ops, c9Op{K: "order", A: a})
			one("order", sizes[a])
		case k < 66:
			b := r.Pick(handles)
			h.Ops = append(h.Ops, c9Op{K: "concat", A: a, B: b})
			one("concat", sizes[a]+sizes[b])
		case k < 72:
			h.Ops = append(h.Ops, c9Op{K: "map", A: a, X: r.Pick(5) - 2})
			one("map", sizes[a])
		case k < 76:
			h.Ops = append(h.Ops, c9Op{K: "accept", A: a, X: r.c9Val()})
			one("accept", sizes[a]/2) // approximate
		case k < 80:
			m := r.Pick(4)
			h.Ops = append(h.Ops, c9Op{K: "top", A: a, N: m})
			one("top", min(m, sizes[a]))
		case k < 84:
			m := r.Pick(4)
			h.Ops = append(h.Ops, c9Op{K: "skip", A: a, N: m})
			one("skip", max(0, sizes[a]-m))
		case k < 90:
			kind := "force"
			if r.Chance(0.5) {
				kind = "size"
			}
			h.Ops = append(h.Ops, c9Op{K: kind, A: a})
		case k < 94:
			if sizes[a] >= 2 && sizes[a] <= 6 && handles < 20 {
				m := 1 + r.Pick(3)
				h.Ops = append(h.Ops, c9Op{K: "windows", A: a, N: m})
				for i := 0; i < sizes[a]-m+1; i++ {
					one("windows", m)
				}
			}
		case k < 97:
			if sizes[a] >= 1 && sizes[a] <= 5 && handles < 20 {
				h.Ops = append(h.Ops, c9Op{K: "movwin", A: a})
				for i := 0; i < sizes[a]; i++ {
					one("movwin", 1)
				}
			}
		default:
			creator()
		}
	}
	return h
}

func (r *Rng) genMapHist(maxOps int) c9Hist {
	h := c9Hist{Kind: "map"}
	n := 2 + r.Pick(maxOps-1)
	handles := 0
	lits := []int{}
	keys := "abcdefgh"
	creator := func() {
		perm := r.Perm(len(keys))
		m := r.Pick(4)
		ks := ""
		for i := 0; i < m; i++ {
			ks += string(keys[perm[i]])
		}
		k := "mlitrt"
		if r.Chance(0.6) {
			k = "mlit"
			lits = append(lits, handles)
		}
		h.Ops = append(h.Ops, c9Op{K: k, Ks: ks, Xs: r.c9Ints(m)})
		handles++
	}
	creator()
	deep := r.Chance(0.08) // a long replace chain reaches ReplaceMap.createFlat (depth >= 10)
	if deep {
		n = 14
	}
	for len(h.Ops) < n {
		a := r.Pick(handles)
		key := string(keys[r.Pick(len(keys))])
		if deep {
			a = handles - 1
			h.Ops = append(h.Ops, c9Op{K: "replace", A: a, Key: string(h.Ops[0].Ks + "a")[0:1], X: r.c9Val()})
			handles++ // approximate: skipped when the first literal is empty
			continue
		}
		if r.Chance(0.15) {
			ob := c9MapObservers[r.Pick(len(c9MapObservers))]
			h.Ops = append(h.Ops, c9Op{K: "mobs", Ks: ob.Name, A: a, B: r.Pick(handles), Key: key, X: r.c9Val()})
			continue
		}
		switch k := r.Pick(100); {
		case k < 30:
			h.Ops = append(h.Ops, c9Op{K: "put", A: a, Key: key, X: r.c9Val()})
			handles++ // approximate (a put on an existing key fails)
		case k < 38:
			if len(lits) > 0 {
				h.Ops = append(h.Ops, c9Op{K: "constput", A: lits[r.Pick(len(lits))], Key: key, X: r.Pick(9)})
				handles++
			}
		case k < 50:
			h.Ops = append(h.Ops, c9Op{K: "merge", A: a, B: r.Pick(handles)})
			handles++
		case k < 68:
			h.Ops = append(h.Ops, c9Op{K: "replace", A: a, Key: key, X: r.c9Val()})
			handles++
		case k < 76:
			h.Ops = append(h.Ops, c9Op{K: "mapv", A: a, X: r.Pick(5) - 2})
			handles++
		case k < 84:
			h.Ops = append(h.Ops, c9Op{K: "maccept", A: a, X: r.c9Val()})
			handles++
		case k < 92:
			h.Ops = append(h.Ops, c9Op{K: "meval", A: a})
			handles++
		default:
			creator()
		}
		// the predicted handle count may run ahead of the real one; operations on missing handles are skipped
	}
	return h
}

// The shape in which sharing of a ListMap backing array would show: a parent of every size 1..9 built by a
// chain of merges / puts (or by accept that dropped an entry, or by the library builder minMax), then two
// or three derivations (merge, put, replace) branching from that SAME parent; every handle is observed
// after every step, so the first sibling is looked at again after the second was derived.
func (r *Rng) genMapBranchHist() c9Hist {
	h := c9Hist{Kind: "map"}
	perm := r.Perm(26)
	next := 0
	fresh := func() string { k := string(rune('a' + perm[next%26])); next++; return k }
	handles := 0
	parent := 0
	var pkeys []string // keys of the parent
	switch k := r.Pick(10); {
	case k < 2:
		h.Ops = append(h.Ops, c9Op{K: "mminmax", Xs: r.c9Ints(1 + r.Pick(4))})
		handles = 1
	case k < 5:
		// accept that drops entries: a builder with spare capacity
		m := 2 + r.Pick(4)
		ks := ""
		xs := make([]int, m)
		for i := 0; i < m; i++ {
			ks += fresh()
			xs[i] = i
		}
		cut := 1 + r.Pick(m-1)
		h.Ops = append(h.Ops, c9Op{K: "mlit", Ks: ks, Xs: xs}, c9Op{K: "maccept", A: 0, X: cut})
		for i := 0; i < cut; i++ {
			pkeys = append(pkeys, ks[i:i+1])
		}
		handles, parent = 2, 1
	default:
		m := r.Pick(4)
		ks := ""
		for i := 0; i < m; i++ {
			ks += fresh()
			pkeys = append(pkeys, ks[i:i+1])
		}
		kind := "mlit"
		if r.Chance(0.5) {
			kind = "mlitrt"
		}
		h.Ops = append(h.Ops, c9Op{K: kind, Ks: ks, Xs: r.c9Ints(m)})
		handles = 1
	}
	derive := func(from int, allowReplace bool) int {
		switch k := r.Pick(10); {
		case k < 6:
			h.Ops = append(h.Ops, c9Op{K: "mergelit", A: from, Key: fresh(), X: r.c9Val()})
			handles += 2
		case k < 9 || !allowReplace || len(pkeys) == 0:
			h.Ops = append(h.Ops, c9Op{K: "put", A: from, Key: fresh(), X: r.c9Val()})
			handles++
		default:
			h.Ops = append(h.Ops, c9Op{K: "replace", A: from, Key: pkeys[r.Pick(len(pkeys))], X: r.c9Val()})
			handles++
		}
		return handles - 1
	}
	// the chain that builds the parent
	for i, n := 0, r.Pick(5); i < n; i++ {
		key := h.Ops
		_ = key
		before := len(h.Ops)
		parent = derive(parent, false)
		pkeys = append(pkeys, h.Ops[before].Key)
	}
	// the branching
	for i, n := 0, 2+r.Pick(2); i < n; i++ {
		child := derive(parent, true)
		if r.Chance(0.3) {
			derive(child, false) // and a grandchild
		}
		if r.Chance(0.2) {
			ob := c9MapObservers[r.Pick(len(c9MapObservers))]
			h.Ops = append(h.Ops, c9Op{K: "mobs", Ks: ob.Name, A: parent, B: child, Key: "a", X: r.c9Val()})
		}
	}
	return h
}

// known-bad and boundary histories, run first
func c9Corpus() []c9Hist {
	L := func(ops ...c9Op) c9Hist { return c9Hist{Kind: "list", Ops: ops} }
	M := func(ops ...c9Op) c9Hist { return c9Hist{Kind: "map", Ops: ops} }
	hs := []c9Hist{
		// combineN handed the iterator's ring buffer to the callback (pinned commit): the windows changed after creation
		L(c9Op{K: "lit", Xs: []int{1, 2, 3, 4}}, c9Op{K: "windows", A: 0, N: 2}),
		L(c9Op{K: "numbers", N: 5}, c9Op{K: "windows", A: 0, N: 3}, c9Op{K: "append", A: 1, X: 9}, c9Op{K: "append", A: 2, X: 8}),
		// the repository's own test: two appends to a constant-folded list with spare capacity, three evaluations
		L(c9Op{K: "litapp", Xs: []int{1, 2, 3}}, c9Op{K: "branch", A: 0, X: 4, Y: 5}, c9Op{K: "branch", A: 0, X: 4, Y: 5}, c9Op{K: "branch", A: 0, X: 6, Y: 7}),
		L(c9Op{K: "litapp", Xs: []int{1, 2, 3}}, c9Op{K: "constappend", A: 0, X: 4}, c9Op{K: "constappend", A: 0, X: 5}, c9Op{K: "constappend", A: 0, X: 6}),
		// chain to capacity 4 with length 3, then three-way branch, then branch on the first child
		L(c9Op{K: "litrt", Xs: []int{}}, c9Op{K: "append", A: 0, X: 1}, c9Op{K: "append", A: 1, X: 2}, c9Op{K: "append", A: 2, X: 3},
			c9Op{K: "append", A: 3, X: 4}, c9Op{K: "append", A: 3, X: 5}, c9Op{K: "append", A: 3, X: 6}, c9Op{K: "branch", A: 4, X: 7, Y: 8}),
		// lazily produced, materialised by the append itself (3 elements: capacity 4), branch
		L(c9Op{K: "numbers", N: 3}, c9Op{K: "branch", A: 0, X: 7, Y: 8}, c9Op{K: "append", A: 0, X: 9}),
		L(c9Op{K: "lit", Xs: []int{5, 1, 3}}, c9Op{K: "map", A: 0, X: 1}, c9Op{K: "append", A: 1, X: 7}, c9Op{K: "append", A: 1, X: 8}, c9Op{K: "concat", A: 1, B: 2}, c9Op{K: "size", A: 4}, c9Op{K: "branch", A: 4, X: 0, Y: 1}),
		// mutating operations work on copies
		L(c9Op{K: "lit", Xs: []int{3, 1, 2}}, c9Op{K: "set", A: 0, N: 1, X: 9}, c9Op{K: "reverse", A: 0}, c9Op{K: "order", A: 0}, c9Op{K: "set", A: 0, N: 3, X: 9}),
		// movingWindow's capped sub-slices, then appends to a window and to the parent
		L(c9Op{K: "litapp", Xs: []int{1, 2, 4, 5}}, c9Op{K: "movwin", A: 0}, c9Op{K: "append", A: 2, X: 9}, c9Op{K: "append", A: 0, X: 7}, c9Op{K: "append", A: 4, X: 6}),
		M(c9Op{K: "mlit", Ks: "ab", Xs: []int{1, 2}}, c9Op{K: "constput", A: 0, Key: "c", X: 3}, c9Op{K: "constput", A: 0, Key: "c", X: 4}, c9Op{K: "put", A: 1, Key: "d", X: 5}, c9Op{K: "put", A: 1, Key: "d", X: 6}),
		M(c9Op{K: "mlitrt", Ks: "ab", Xs: []int{1, 2}}, c9Op{K: "replace", A: 0, Key: "a", X: 7}, c9Op{K: "replace", A: 0, Key: "a", X: 8}, c9Op{K: "merge", A: 1, B: 2}, c9Op{K: "mapv", A: 1, X: 1}, c9Op{K: "meval", A: 1}, c9Op{K: "maccept", A: 0, X: 2}),
	}
	// observers: a built-in that reads a handle must not write to it.  Witness of a seeded defect
	// (containsAllItems removing found items from the search list's own slice): after `s ~ h` s changed
	hs = append(hs,
		L(c9Op{K: "lit", Xs: []int{1, 2, 3}}, c9Op{K: "litrt", Xs: []int{3, 1, 2, 5}}, c9Op{K: "obs", Key: "~ list-in-list", A: 0, B: 1},
			c9Op{K: "obs", Key: "~ list-in-list", A: 1, B: 0}, c9Op{K: "obs", Key: "~ list-in-itself", A: 1, B: 1}),
		L(c9Op{K: "litrt", Xs: []int{1, 2, 3, 4}}, c9Op{K: "force", A: 0}, c9Op{K: "litrt", Xs: []int{4, 3, 2, 1}}, c9Op{K: "obs", Key: "~ list-in-list", A: 0, B: 1}),
		// the constant list of ONE generated function as left operand of `~`, evaluated three times
		L(c9Op{K: "litapp", Xs: []int{1, 2, 3}}, c9Op{K: "litrt", Xs: []int{3, 1, 2, 5}}, c9Op{K: "constcontains", A: 0, B: 1, N: 2},
			c9Op{K: "constcontains", A: 0, B: 1, N: 2}, c9Op{K: "constcontains", A: 0, B: 1, N: 2}, c9Op{K: "constcontains", A: 0, B: 1, N: 3}),
		// ListMap backing array shared between siblings (seeded defect: a "flat merge" that appends to the left
		// operand's ListMap): parents of 3 entries built by merges, by accept that dropped entries, by minMax
		M(c9Op{K: "mlit", Ks: "a", Xs: []int{1}}, c9Op{K: "mergelit", A: 0, Key: "b", X: 2}, c9Op{K: "mergelit", A: 2, Key: "c", X: 3},
			c9Op{K: "mergelit", A: 4, Key: "x", X: 1}, c9Op{K: "mergelit", A: 4, Key: "y", X: 2}, c9Op{K: "put", A: 4, Key: "z", X: 3}),
		M(c9Op{K: "mlit", Ks: "abcd", Xs: []int{1, 2, 8, 9}}, c9Op{K: "maccept", A: 0, X: 5}, c9Op{K: "mergelit", A: 1, Key: "x", X: 1},
			c9Op{K: "mergelit", A: 1, Key: "y", X: 2}, c9Op{K: "put", A: 1, Key: "z", X: 3}),
		M(c9Op{K: "mminmax", Xs: []int{1, 5, 3}}, c9Op{K: "mergelit", A: 0, Key: "x", X: 1}, c9Op{K: "mergelit", A: 0, Key: "y", X: 2},
			c9Op{K: "put", A: 0, Key: "z", X: 3}, c9Op{K: "mobs", Ks: "combine", A: 0, B: 2}),
	)
	// a materialisation that fails half way (host function armed), survived, then a successful one.  Witness of a
	// seeded defect (List.Eval appending straight into l.items): [10,20,30,4] became [10,20,10,20,30,4]
	hs = append(hs,
		L(c9Op{K: "litrt", Xs: []int{10, 20, 30, 4}}, c9Op{K: "flakymap", A: 0}, c9Op{K: "evalfail", A: 1, N: 2, Key: "size"}, c9Op{K: "size", A: 1},
			c9Op{K: "obs", Key: "=", A: 1, B: 0}),
		L(c9Op{K: "lit", Xs: []int{1, 2, 3}}, c9Op{K: "flakymap", A: 0}, c9Op{K: "map", A: 1, X: 1}, c9Op{K: "evalfail", A: 2, N: 1, Key: "try-size"},
			c9Op{K: "evalfail", A: 2, N: 2, Key: "order"}, c9Op{K: "evalfail", A: 1, N: 1, Key: "index"}, c9Op{K: "force", A: 2}, c9Op{K: "append", A: 1, X: 9}),
		// lazy stage results traversed more than once while still lazy: partial consumption first.  Witness of a
		// seeded defect (merge's `stopped` flag kept in the list value): the second pass yielded nothing
		L(c9Op{K: "litrt", Xs: []int{1, 3, 5}}, c9Op{K: "litrt", Xs: []int{2, 4, 6}}, c9Op{K: "stage", Key: "merge", A: 0, B: 1},
			c9Op{K: "obs", Key: "first", A: 2, B: 2}, c9Op{K: "obs", Key: "sum", A: 2, B: 2}, c9Op{K: "size", A: 2}),
		L(c9Op{K: "litrt", Xs: []int{1, 3}}, c9Op{K: "litrt", Xs: []int{2}}, c9Op{K: "stage", Key: "merge", A: 0, B: 1},
			c9Op{K: "litrt", Xs: []int{10, 20}}, c9Op{K: "stage", Key: "cross", A: 3, B: 2}, c9Op{K: "obs", Key: "~ list-in-list", A: 2, B: 4}),
	)
	allStages := L(c9Op{K: "litrt", Xs: []int{1, 1, 3, 2}}, c9Op{K: "numbers", N: 3})
	for _, st := range c9Stages {
		allStages.Ops = append(allStages.Ops, c9Op{K: "stage", Key: st.Name, A: 0, B: 1})
	}
	allStages.Ops = append(allStages.Ops, c9Op{K: "stage", Key: "merge", A: 2, B: 3}, c9Op{K: "size", A: 2})
	hs = append(hs, allStages)
	// every observer once on a materialised, on a lazy and on a constant list
	allObs := L(c9Op{K: "litapp", Xs: []int{3, 1, 2}}, c9Op{K: "numbers", N: 4}, c9Op{K: "litrt", Xs: []int{2, 2, 1}}, c9Op{K: "append", A: 2, X: 5})
	for i, ob := range c9ListObservers {
		allObs.Ops = append(allObs.Ops, c9Op{K: "obs", Key: ob.Name, A: i % 4, B: (i + 1) % 4, X: 1})
	}
	allMapObs := M(c9Op{K: "mlit", Ks: "ab", Xs: []int{1, 2}}, c9Op{K: "mlitrt", Ks: "cd", Xs: []int{3, 4}}, c9Op{K: "mergelit", A: 0, Key: "e", X: 5})
	for i, ob := range c9MapObservers {
		allMapObs.Ops = append(allMapObs.Ops, c9Op{K: "mobs", Ks: ob.Name, A: i % 4, B: (i + 1) % 4, Key: "a", X: 1})
	}
	hs = append(hs, allObs, allMapObs)
	// a replace chain long enough for createFlat
	deep := M(c9Op{K: "mlit", Ks: "abc", Xs: []int{1, 2, 3}})
	for i := 0; i < 13; i++ {
		deep.Ops = append(deep.Ops, c9Op{K: "replace", A: i, Key: string("abc"[i%3]), X: 10 + i})
	}
	return append(hs, deep)
}

// ---------------------------------------------------------------- driver

func c9Case(h c9Hist, id int, sum *Summary, cw *CaseWriter) {
	var body string
	var fail *c9Fail
	nontriv := false
	executed := 0
	if h.Kind == "map" {
		e, b := c9RunMap(h, sum, true)
		body, fail = b, e.fail
		executed = len(e.steps)
		nontriv = len(e.ms) >= 3
		sum.Count("history_kind", "map")
		sum.Count("map_handles", bucket(len(e.ms)))
	} else {
		e, b := c9RunList(h, sum, true)
		body, fail = b, e.fail
		executed = len(e.steps)
		nontriv = e.nontriv
		sum.Count("history_kind", "list")
		sum.Count("list_handles", bucket(len(e.hs)))
		br := 0
		for _, hd := range e.hs {
			if hd.derived >= 2 {
				br++
			}
		}
		sum.Count("parents_with_two_or_more_derivations", bucket(br))
	}
	sum.Evaluations++
	sum.Count("history_length", fmt.Sprint(executed))
	if nontriv {
		sum.Nontriv(h.String())
	}
	repro := h
	sig := ""
	if fail != nil {
		// cut the history after the failing step
		sig = fail.Sig
	}
	human := map[string]any{"history": h.String(), "repro": repro, "signature": sig}
	sum.Cases[fmt.Sprint(id)] = human
	if nontriv {
		sum.Sample(human)
	}
	cw.Add(fmt.Sprintf("(%d, %s)", id, body))
	if fail != nil {
		sum.GoViolations = append(sum.GoViolations, GoViolation{CaseID: id, What: fail.What, Sig: fail.Sig, Human: human,
			Expected: fail.Expected, Observed: fail.Observed})
	}
}

// shrink a failing history while the same signature is produced: cut the tail, then drop single
// operations (the handles they created disappear, later references are renumbered; an operation whose
// handles are still referenced cannot be dropped)
func c9Shrink(h c9Hist, sig string) c9Hist {
	run := func(x c9Hist) (string, [][2]int) {
		scratch := NewSummary("C09", 0, "shrink")
		if x.Kind == "map" {
			e, _ := c9RunMap(x, scratch, false)
			if e.fail != nil {
				return e.fail.Sig, e.ranges
			}
			return "", e.ranges
		}
		e, _ := c9RunList(x, scratch, false)
		if e.fail != nil {
			return e.fail.Sig, e.ranges
		}
		return "", e.ranges
	}
	for len(h.Ops) > 1 {
		c := c9Hist{Kind: h.Kind, Ops: h.Ops[:len(h.Ops)-1]}
		if s, _ := run(c); s != sig {
			break
		}
		h = c
	}
	usesB := func(k string) bool {
		return k == "concat" || k == "merge" || k == "stage" || k == "obs" || k == "constcontains" || k == "mobs"
	}
	for changed := true; changed; {
		changed = false
		_, ranges := run(h)
		for k := len(h.Ops) - 2; k >= 0 && k < len(ranges); k-- {
			lo, hi := ranges[k][0], ranges[k][1]
			var ops []c9Op
			okDrop := true
			for j, o := range h.Ops {
				if j == k {
					continue
				}
				if j > k {
					refs := []*int{&o.A}
					if usesB(o.K) {
						refs = append(refs, &o.B)
					}
					if o.K == "lit" || o.K == "litapp" || o.K == "litrt" || o.K == "numbers" || o.K == "mlit" || o.K == "mlitrt" || o.K == "mminmax" {
						refs = nil
					}
					for _, r := range refs {
						if *r >= lo && *r < hi {
							okDrop = false
						} else if *r >= hi {
							*r -= hi - lo
						}
					}
				}
				ops = append(ops, o)
			}
			if !okDrop {
				continue
			}
			c := c9Hist{Kind: h.Kind, Ops: ops}
			if s, _ := run(c); s == sig {
				h = c
				changed = true
				break
			}
		}
	}
	return h
}

func cmdC09(seed int64, tier, outDir string) {
	n := 400
	if tier == "thorough" {
		n = 30000
	}
	maxOps := 12
	if tier == "thorough" {
		maxOps = 20
	}
	c9InstallFlaky()
	r := NewRng(seed)
	sum := NewSummary("C09", seed, tier)
	sum.Rule = "histories of <= 12 (thorough: 20) operations over a pool of handles, executed through the expression language, every live handle observed after every step (lists that are still lazy: first(), top(2).string(), then string() - partial passes before the complete one -; materialised lists: string(), size(), [i], =; maps: string(), size(), get(k), Iter); operations are derivations (append, set, +, put, merge, ...) and OBSERVERS (an existing handle as operand of a built-in whose result is thrown away: every list/map method and operator of value.New() except append, taken from the table in harness/c09.go and cross-checked against the verif hook VerifMethodArities; plus `~` with the shared constant list of one generated function as operand), further lazy stages with per-pass state as derivations whose results stay lazy (merge, cross, combine, combine3, combineN, compact, number, iir, iirCombine), and materialisations that FAIL half way and are survived (a host function armed to fail at its n-th call; Go caller going on, or try/catch) followed by successful ones; non-trivial = list history in which one parent has >= 2 derivations of which >= 1 is an append onto spare capacity (in place), or map history with >= 3 handles; distinct by the operation sequence"
	cw := NewCaseWriter(outDir, "From P2 Require Import Base.Prelude Heap.ListHeap Heap.MapHeap Run.C09Run.", "c09_case", "c09_id", "c09_im", "c09_is", map[string]int{"quick": 70, "thorough": 500}[tier])
	if optReplay != "" {
		var h c9Hist
		if err := json.Unmarshal(loadReplayCase(), &h); err != nil {
			fatal("replay case: %v", err)
		}
		c9Case(h, 1, sum, cw)
		cw.Flush()
		sum.CaseFiles = cw.files
		sum.Write(outDir)
		return
	}
	n *= optBoost
	id := 0
	for _, h := range c9Corpus() {
		id++
		c9Case(h, id, sum, cw)
	}
	for i := 0; i < n; i++ {
		id++
		if i%5 == 4 {
			if i%10 == 9 {
				c9Case(r.genMapHist(maxOps), id, sum, cw)
			} else {
				c9Case(r.genMapBranchHist(), id, sum, cw)
			}
		} else {
			c9Case(r.genListHist(maxOps), id, sum, cw)
		}
	}
	cw.Flush()
	sum.CaseFiles = cw.files
	// shrink the reported histories (per signature the shortest one is reported first)
	sort.SliceStable(sum.GoViolations, func(i, j int) bool {
		return len(sum.GoViolations[i].Human["history"].(string)) < len(sum.GoViolations[j].Human["history"].(string))
	})
	seen := map[string]bool{}
	for i := range sum.GoViolations {
		gv := &sum.GoViolations[i]
		if seen[gv.Sig] {
			continue
		}
		seen[gv.Sig] = true
		h := c9Shrink(gv.Human["repro"].(c9Hist), gv.Sig)
		gv.Human["repro"] = h
		gv.Human["history"] = h.String()
		// describe the failure of the shrunk history
		scratch := NewSummary("C09", 0, "shrink")
		var f *c9Fail
		if h.Kind == "map" {
			e, _ := c9RunMap(h, scratch, false)
			f = e.fail
		} else {
			e, _ := c9RunList(h, scratch, false)
			f = e.fail
		}
		if f != nil && f.Sig == gv.Sig {
			gv.What, gv.Expected, gv.Observed = f.What, f.Expected, f.Observed
		}
	}
	sum.Extra["listMap_API_facts"] = c9ListMapAPIFacts()
	sum.Extra["methods_of_value.New()_not_exercised_by_any_operation"] = c9UncoveredMethods()
	sum.Write(outDir)
}
