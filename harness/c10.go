package main

// C10 - a generated function is a pure function of its arguments across evaluations.
//
// `p2h c10` runs SESSIONS on one generator (value.New()): Generate calls and evaluations of the functions
// generated so far, with arguments from a pool, list results dropped / half consumed / fully consumed by the
// host.  Every outcome is compared with
//   - the outcome of a FRESH generator that generates the same program and evaluates it once (Go-side oracle),
//   - the Coq model of the implementation (Heap/FuncState.v scripts over Heap/ListHeap.v) incl. the
//     representation state (itemsPresent/len/cap, hook value.VerifListState) of the function's list constants,
//   - the Coq specification side sp_prog (program, arguments, consumption) -> outcome.
// Programs: a small expression language (lists of integers over constant definitions; c10E) rendered both to
// source text and to a Coq term, plus a closed pool of programs outside that fragment (maps, closures,
// recursion, strings: compared with the Go-side oracle only).  The program type (c10Prog) carries only the
// source text, the argument names and an optional Coq term: programs of another generator can be plugged in.

import (
	"encoding/json"
	"fmt"
	"os"
	"sort"
	"strings"

	"github.com/hneemann/iterator"
	"github.com/hneemann/parser2"
	"github.com/hneemann/parser2/funcGen"
	"github.com/hneemann/parser2/value"
)

func init() { register("c10", cmdC10) }

// ---------------------------------------------------------------- the modelled expression language

type c10E struct {
	Op string  `json:"op"`
	I  int     `json:"i,omitempty"`
	Z  int64   `json:"z,omitempty"`
	Xs []int64 `json:"xs,omitempty"`
	S  string  `json:"s,omitempty"` // stage name (lstage)
	A  *c10E   `json:"a,omitempty"`
	B  *c10E   `json:"b,omitempty"`
	C  *c10E   `json:"c,omitempty"`
	D  *c10E   `json:"d,omitempty"`
}

func c10Z(z int64) string {
	if z < 0 {
		return fmt.Sprintf("(%d)", z)
	}
	return fmt.Sprint(z)
}

func c10ZList(xs []int64) string {
	ss := make([]string, len(xs))
	for i, x := range xs {
		ss[i] = c10Z(x)
	}
	return "[" + strings.Join(ss, ";") + "]%Z"
}

// source text; list constants are c0.., scalar constants n0.., arguments a0..
func (e *c10E) src() string {
	switch e.Op {
	case "sarg":
		return fmt.Sprintf("a%d", e.I)
	case "slit":
		return c10Z(e.Z)
	case "scst":
		return fmt.Sprintf("n%d", e.I)
	case "sadd":
		return "(" + e.A.src() + "+" + e.B.src() + ")"
	case "smul":
		return "(" + e.A.src() + "*" + e.B.src() + ")"
	case "lconst":
		return fmt.Sprintf("c%d", e.I)
	case "llit":
		ss := make([]string, len(e.Xs))
		for i, x := range e.Xs {
			ss[i] = c10Z(x)
		}
		return "[" + strings.Join(ss, ",") + "]"
	case "lsingle":
		return "[" + e.A.src() + "]"
	case "lnumbers":
		return "numbers(" + e.A.src() + ")"
	case "lappend":
		return e.A.src() + ".append(" + e.B.src() + ")"
	case "lmap":
		return e.B.src() + ".map(e->e+" + e.A.src() + ")"
	case "laccept":
		return e.B.src() + ".accept(e->e<" + e.A.src() + ")"
	case "lguard":
		return e.B.src() + ".map(e->e+0%(e-" + e.A.src() + "))"
	case "lstage":
		a := e.A.src()
		switch e.S {
		case "StMerge":
			return a + ".merge(" + e.B.src() + ",(x,y)->x<y)"
		case "StCross":
			return a + ".cross(" + e.B.src() + ",(x,y)->x+y)"
		case "StCombine":
			return a + ".combine((x,y)->x+y)"
		case "StCombine3":
			return a + ".combine3((x,y,z)->x+y+z)"
		case "StCombineN":
			return a + ".combineN(2,w->w.sum())"
		case "StCompact":
			return a + ".compact((x,y)->x=y)"
		case "StNumber":
			return a + ".number((i,e)->i+e)"
		case "StIir":
			return a + ".iir(e->e,(i,o)->o+i)"
		case "StIirCombine":
			return a + ".iirCombine(e->e,(i0,i1,o)->o+i1)"
		}
		panic("c10: unknown stage " + e.S)
	case "lorder":
		return e.A.src() + ".order(e->e)"
	case "zcall":
		return "(y->y*" + e.A.src() + "+" + e.B.src() + ")(" + e.C.src() + ")"
	case "ltop":
		return e.B.src() + ".top(" + e.A.src() + ")"
	case "lskip":
		return e.B.src() + ".skip(" + e.A.src() + ")"
	case "lconcat":
		return "(" + e.A.src() + "+" + e.B.src() + ")"
	case "lreverse":
		return e.A.src() + ".reverse()"
	case "lforce":
		return e.A.src() + ".eval()"
	case "zs":
		return e.A.src()
	case "zadd":
		return "(" + e.A.src() + "+" + e.B.src() + ")"
	case "zmul":
		return "(" + e.A.src() + "*" + e.B.src() + ")"
	case "zindex":
		return e.A.src() + "[" + e.B.src() + "]"
	case "zsize":
		return e.A.src() + ".size()"
	case "zsum":
		return e.A.src() + ".sum()"
	case "zfirst":
		return e.A.src() + ".first()"
	case "zthrow":
		return "throw(\"t\")"
	case "ztry":
		return "(try " + e.A.src() + " catch " + e.B.src() + ")"
	case "zif":
		return "(if " + e.A.src() + "<" + e.B.src() + " then " + e.C.src() + " else " + e.D.src() + ")"
	}
	panic("c10: unknown op " + e.Op)
}

func (e *c10E) coq() string {
	switch e.Op {
	case "sarg":
		return fmt.Sprintf("(SArg %d)", e.I)
	case "slit":
		return "(SLit " + c10Z(e.Z) + ")"
	case "scst":
		return fmt.Sprintf("(SCst %d)", e.I)
	case "sadd":
		return "(SAdd " + e.A.coq() + " " + e.B.coq() + ")"
	case "smul":
		return "(SMul " + e.A.coq() + " " + e.B.coq() + ")"
	case "lconst":
		return fmt.Sprintf("(LConst %d)", e.I)
	case "llit":
		return "(LLit " + c10ZList(e.Xs) + ")"
	case "lsingle":
		return "(LSingle " + e.A.coq() + ")"
	case "lnumbers":
		return "(LNumbers " + e.A.coq() + ")"
	case "lappend":
		return "(LAppend " + e.A.coq() + " " + e.B.coq() + ")"
	case "lmap":
		return "(LMap " + e.A.coq() + " " + e.B.coq() + ")"
	case "laccept":
		return "(LAccept " + e.A.coq() + " " + e.B.coq() + ")"
	case "lguard":
		return "(LGuard " + e.A.coq() + " " + e.B.coq() + ")"
	case "lstage":
		b := e.A
		if e.B != nil {
			b = e.B
		}
		return "(LStage " + e.S + " " + e.A.coq() + " " + b.coq() + ")"
	case "lorder":
		return "(LOrder " + e.A.coq() + ")"
	case "zcall":
		return "(ZCall " + e.A.coq() + " " + e.B.coq() + " " + e.C.coq() + ")"
	case "ltop":
		return "(LTop " + e.A.coq() + " " + e.B.coq() + ")"
	case "lskip":
		return "(LSkip " + e.A.coq() + " " + e.B.coq() + ")"
	case "lconcat":
		return "(LConcat " + e.A.coq() + " " + e.B.coq() + ")"
	case "lreverse":
		return "(LReverse " + e.A.coq() + ")"
	case "lforce":
		return "(LForce " + e.A.coq() + ")"
	case "zs":
		return "(ZS " + e.A.coq() + ")"
	case "zadd":
		return "(ZAdd " + e.A.coq() + " " + e.B.coq() + ")"
	case "zmul":
		return "(ZMul " + e.A.coq() + " " + e.B.coq() + ")"
	case "zindex":
		return "(ZIndex " + e.A.coq() + " " + e.B.coq() + ")"
	case "zsize":
		return "(ZSize " + e.A.coq() + ")"
	case "zsum":
		return "(ZSum " + e.A.coq() + ")"
	case "zfirst":
		return "(ZFirst " + e.A.coq() + ")"
	case "zthrow":
		return "ZThrow"
	case "ztry":
		return "(ZTry " + e.A.coq() + " " + e.B.coq() + ")"
	case "zif":
		return "(ZIfLt " + e.A.coq() + " " + e.B.coq() + " " + e.C.coq() + " " + e.D.coq() + ")"
	}
	panic("c10: unknown op " + e.Op)
}

func (e *c10E) kids() []*c10E {
	var ks []*c10E
	for _, k := range []*c10E{e.A, e.B, e.C, e.D} {
		if k != nil {
			ks = append(ks, k)
		}
	}
	return ks
}

// mirrors Run/C10Run.v *_has_arg: throw counts (it is impure and never folded)
func (e *c10E) hasArg() bool {
	if e.Op == "sarg" || e.Op == "zthrow" {
		return true
	}
	for _, k := range e.kids() {
		if k.hasArg() {
			return true
		}
	}
	return false
}

// some literal element of a closed list expression (the last one of the first literal found), 7 if there is none
func (e *c10E) lastLit() int64 {
	if e.Op == "llit" && len(e.Xs) > 0 {
		return e.Xs[len(e.Xs)-1]
	}
	for _, k := range e.kids() {
		if k.Op[0] == 'l' {
			return k.lastLit()
		}
	}
	return 7
}

func (e *c10E) hasConst() bool {
	if e.Op == "lconst" {
		return true
	}
	for _, k := range e.kids() {
		if k.hasConst() {
			return true
		}
	}
	return false
}

// mirrors Run/C10Run.v *_nofold: no compound subexpression the optimizer would fold at Generate time
func (e *c10E) nofold() bool {
	switch e.Op {
	case "sarg", "slit", "scst", "sadd", "smul", "lconst", "zthrow":
		return true
	case "zs":
		return true
	case "llit":
		return false
	case "ztry":
		return e.A.nofold() && e.B.nofold()
	case "zif":
		return (e.A.hasArg() || e.B.hasArg()) && e.A.nofold() && e.B.nofold() && e.C.nofold() && e.D.nofold()
	case "lnumbers":
		return e.A.hasArg()
	case "lmap", "laccept", "ltop", "lskip", "lguard":
		return e.hasArg() && e.B.nofold()
	}
	if !e.hasArg() {
		return false
	}
	for _, k := range e.kids() {
		if !k.nofold() {
			return false
		}
	}
	return true
}

// number of list objects an evaluation of e creates, and the handle (object number) of its result:
// objects are numbered in creation order, exactly like the object ids of Heap/ListHeap.v
func (e *c10E) alloc(next *int, consts []int) int {
	switch e.Op {
	case "lconst":
		return consts[e.I]
	case "llit", "lnumbers":
		h := *next
		*next++
		return h
	case "lsingle":
		e.A.alloc(next, consts)
		h := *next
		*next++
		return h
	case "lappend":
		e.A.alloc(next, consts)
		e.B.alloc(next, consts)
		h := *next
		*next++
		return h
	case "lmap", "laccept", "ltop", "lskip", "lguard":
		e.B.alloc(next, consts)
		h := *next
		*next++
		return h
	case "lconcat":
		e.A.alloc(next, consts)
		e.B.alloc(next, consts)
		h := *next
		*next++
		return h
	case "lreverse", "lorder":
		e.A.alloc(next, consts)
		h := *next
		*next++
		return h
	case "lstage":
		e.A.alloc(next, consts)
		if e.B != nil {
			e.B.alloc(next, consts)
		}
		h := *next
		*next++
		return h
	case "lforce":
		return e.A.alloc(next, consts)
	}
	// scalar expressions: children in evaluation order (only closed ones occur in definitions)
	for _, k := range e.kids() {
		k.alloc(next, consts)
	}
	return -1
}

// ---------------------------------------------------------------- programs

type c10Def struct {
	Kind string `json:"kind"` // DL | DS
	E    *c10E  `json:"e,omitempty"`
	I    int    `json:"i,omitempty"`
}

// c10Prog is what the runners need of a program: source text, argument names, and (for the modelled
// fragment) the Coq term, the creation-order numbers of its list constants and a class.
type c10Prog struct {
	Name     string   `json:"name"`
	Src      string   `json:"src"`
	Args     []string `json:"args"`
	Coq      string   `json:"coq,omitempty"`      // "" = outside the modelled fragment
	Consts   []int    `json:"consts,omitempty"`   // creation-order number (within this Generate) of the object of every DL definition
	NewObjs  int      `json:"new_objs,omitempty"` // list objects Generate creates
	Class    string   `json:"class"`              // lazy-const | spare-const | plain-const | no-const | opaque:<name>
	ListBody bool     `json:"list_body,omitempty"`
	// ListArg: source of an expression whose value (a list OBJECT, made once per session on the same generator and
	// kept by the harness) is passed as first argument `l` to every evaluation of this program
	ListArg string `json:"list_arg,omitempty"`
	// OracleSrc: programs that traverse ONE list value several times in one evaluation are judged against the
	// "|"-joined outcomes of these programs, each evaluated once on a generator of its own (each traverses the
	// value once, or materialises it first): the specification of a fresh traversal
	OracleSrc []string `json:"oracle_src,omitempty"`
	// ObjPool: the first len(ObjPool) parameters (o0, o1 ...) are OBJECTS from the session's argument pool: parameter
	// i gets the object made (once per session, on the same generator, kept and handed in again and again) by the
	// maker expression ObjPool[i][|a_i| mod len], a_i the i-th integer argument of the evaluation
	ObjPool [][]string `json:"obj_pool,omitempty"`
	// MCoq: the program as a term of the MAP fragment (Heap/MapState.v mprog); its evaluations are also compared
	// with the map model and the association-list specification (integer outcomes)
	MCoq string `json:"mcoq,omitempty"`
	// XCoq: the program as a term of the MIXED fragment (Heap/MixState.v xprog: lists and maps in one state, map
	// literals built per evaluation); its evaluations are also compared with the mixed model and its specification
	XCoq string `json:"xcoq,omitempty"`
}

func (p *c10Prog) modelled() bool { return p.Coq != "" || p.MCoq != "" || p.XCoq != "" }

func (p *c10Prog) objMakers(args []int64) []string {
	var ms []string
	for i, pool := range p.ObjPool {
		n := int64(len(pool))
		ms = append(ms, pool[((args[i%len(args)]%n)+n)%n])
	}
	return ms
}

// deep rendering of an argument object (never materialises more than ToString does)
func c10Render(v value.Value) string {
	s, err := v.ToString(funcGen.NewEmptyStack[value.Value]())
	if err != nil {
		return "error: " + err.Error()
	}
	return s
}

func c10MkProg(name string, defs []c10Def, body *c10E, listBody bool) *c10Prog {
	var src, cq strings.Builder
	var consts []int
	next := 0
	nl, ns := 0, 0
	class := "no-const"
	var ds []string
	rank := map[string]int{"no-const": 0, "plain-const": 1, "spare-const": 2, "lazy-const": 3}
	forced := map[int]bool{}
	kinds := map[int]string{}
	for _, d := range defs {
		if d.Kind == "DL" {
			h := d.E.alloc(&next, consts)
			consts = append(consts, h)
			fmt.Fprintf(&src, "let c%d=%s; ", nl, d.E.src())
			ds = append(ds, "DL "+d.E.coq())
			k := "plain-const"
			switch d.E.Op {
			case "lmap", "laccept", "ltop", "lskip", "lconcat", "lnumbers", "lguard", "lstage":
				k = "lazy-const"
			case "lappend":
				k = "spare-const"
			}
			kinds[nl] = k
			nl++
		} else {
			fmt.Fprintf(&src, "let n%d=c%d.size(); ", ns, d.I)
			ds = append(ds, fmt.Sprintf("DS %d", d.I))
			forced[d.I] = true
			ns++
		}
	}
	for i, k := range kinds {
		if forced[i] && k == "lazy-const" {
			k = "plain-const"
		}
		if rank[k] > rank[class] {
			class = k
		}
	}
	src.WriteString(body.src())
	b := "BZ "
	if listBody {
		b = "BL "
	}
	fmt.Fprintf(&cq, "(mkP [%s] (%s%s))", strings.Join(ds, "; "), b, body.coq())
	return &c10Prog{Name: name, Src: src.String(), Args: []string{"a0", "a1"}, Coq: cq.String(), Consts: consts, NewObjs: next, Class: class, ListBody: listBody}
}

// the MAP fragment: constant maps (literal, put, +, replace folded at Generate time) and put / + / field access /
// size at run time; source text and the mprog term side by side (keys as code point lists)
func c10MapModelledPool() []*c10Prog {
	key := func(k string) string { return CoqStr(k) }
	lit := func(kv ...any) string {
		var es []string
		for i := 0; i < len(kv); i += 2 {
			es = append(es, fmt.Sprintf("(%s, %d%%Z)", key(kv[i].(string)), kv[i+1].(int)))
		}
		return "MLit [" + strings.Join(es, "; ") + "]"
	}
	mk := func(name, src string, defs []string, body string) *c10Prog {
		p := c10Opaque(name, src)
		p.MCoq = "(mkMP [" + strings.Join(defs, "; ") + "] " + body + ")"
		return p
	}
	get := func(m, k string) string { return "(MZGet " + m + " " + key(k) + ")" }
	put := func(m, k, v string) string { return "(MPutX " + m + " " + key(k) + " " + v + ")" }
	add := func(a, b string) string { return "(MZAdd " + a + " " + b + ")" }
	ab := lit("a", 1, "b", 2)
	return []*c10Prog{
		mk("map-modelled-put", "let m0={a:1,b:2}; let m1=m0.put(\"c\",3); m1.put(\"d\",a0).d+m1.size()+m1.a+m0.size()",
			[]string{ab, "MPut 0 " + key("c") + " 3"},
			add(add(add(get(put("(MConst 1)", "d", "(SArg 0)"), "d"), "(MZSize (MConst 1))"), get("(MConst 1)", "a")), "(MZSize (MConst 0))")),
		mk("map-modelled-put-existing", "let m0={a:1,b:2}; let m1=m0.put(\"c\",3); try m1.put(\"c\",a0).size() catch (a1+100)",
			[]string{ab, "MPut 0 " + key("c") + " 3"},
			"(MZTry (MZSize "+put("(MConst 1)", "c", "(SArg 0)")+") (MZS (SAdd (SArg 1) (SLit 100))))"),
		mk("map-modelled-merge", "let m0={a:1,b:2}; let m1={c:3}; (m0.put(\"d\",a0)+m1).size()+(m0.put(\"d\",a1)+m1).d+(m0+m1).c",
			[]string{ab, lit("c", 3)},
			add(add("(MZSize (MMergeX "+put("(MConst 0)", "d", "(SArg 0)")+" (MConst 1)))", get("(MMergeX "+put("(MConst 0)", "d", "(SArg 1)")+" (MConst 1))", "d")), get("(MMergeX (MConst 0) (MConst 1))", "c"))),
		mk("map-modelled-merge-clash", "let m0={a:1,b:2}; let m1=m0.put(\"c\",3); try (m1.put(\"d\",a0)+m0).size() catch (a0-1)",
			[]string{ab, "MPut 0 " + key("c") + " 3"},
			"(MZTry (MZSize (MMergeX "+put("(MConst 1)", "d", "(SArg 0)")+" (MConst 0))) (MZS (SAdd (SArg 0) (SLit (-1)))))"),
		mk("map-modelled-replace", "let m0={a:1,b:2}; let m1=m0.replace(x->{a:7}); m1.a+m1.put(\"z\",a0).z+m0.a+m1.size()",
			[]string{ab, "MReplace 0 " + key("a") + " 7"},
			add(add(add(get("(MConst 1)", "a"), get(put("(MConst 1)", "z", "(SArg 0)"), "z")), get("(MConst 0)", "a")), "(MZSize (MConst 1))")),
		mk("map-modelled-missing-key", "let m0={a:1,b:2}; try m0.put(\"q\",a0).zz catch (a0*2+a1)",
			[]string{ab},
			"(MZTry "+get(put("(MConst 0)", "q", "(SArg 0)"), "zz")+" (MZS (SAdd (SMul (SArg 0) (SLit 2)) (SArg 1))))"),
	}
}

// ---------------------------------------------------------------- the MIXED fragment (Heap/MixState.v)

// an entry value: an integer expression or the list c<L> in scope
type c10XV struct {
	E *c10E `json:"e,omitempty"`
	L int   `json:"l,omitempty"`
}
type c10XEnt struct {
	K string `json:"k"`
	V c10XV  `json:"v"`
}

// a map expression: const (m<I>) | lit | put | merge
type c10XM struct {
	Op string    `json:"op"`
	I  int       `json:"i,omitempty"`
	Es []c10XEnt `json:"es,omitempty"`
	A  *c10XM    `json:"a,omitempty"`
	B  *c10XM    `json:"b,omitempty"`
	K  string    `json:"k,omitempty"`
	V  c10XV     `json:"v,omitempty"`
}

// a run-time let: list (let c<n>=m.k;) | int (let n<n>=m.k;) | size (let n<n>=m.size();) |
// index (let c<n>=o<O>[I];) | osize (let n<n>=o<O>.size();)
type c10XB struct {
	Kind string `json:"kind"`
	M    *c10XM `json:"m,omitempty"`
	K    string `json:"k,omitempty"`
	O    int    `json:"o,omitempty"`
	I    *c10E  `json:"i,omitempty"`
}

func (v c10XV) src() string {
	if v.E != nil {
		return v.E.src()
	}
	return fmt.Sprintf("c%d", v.L)
}
func (v c10XV) coq() string {
	if v.E != nil {
		return "(XVInt " + v.E.coq() + ")"
	}
	return fmt.Sprintf("(XVList %d)", v.L)
}
func (m *c10XM) src() string {
	switch m.Op {
	case "const":
		return fmt.Sprintf("m%d", m.I)
	case "lit":
		var es []string
		for _, e := range m.Es {
			es = append(es, e.K+":"+e.V.src())
		}
		return "{" + strings.Join(es, ",") + "}"
	case "put":
		return m.A.src() + ".put(\"" + m.K + "\"," + m.V.src() + ")"
	case "merge":
		return "(" + m.A.src() + "+" + m.B.src() + ")"
	}
	panic("c10: unknown map op " + m.Op)
}
func (m *c10XM) coq() string {
	switch m.Op {
	case "const":
		return fmt.Sprintf("(XMConst %d)", m.I)
	case "lit":
		var es []string
		for _, e := range m.Es {
			es = append(es, "("+CoqStr(e.K)+", "+e.V.coq()+")")
		}
		return "(XMLit [" + strings.Join(es, "; ") + "])"
	case "put":
		return "(XMPut " + m.A.coq() + " " + CoqStr(m.K) + " " + m.V.coq() + ")"
	case "merge":
		return "(XMMerge " + m.A.coq() + " " + m.B.coq() + ")"
	}
	panic("c10: unknown map op " + m.Op)
}

func xvI(e *c10E) c10XV                        { return c10XV{E: e} }
func xvL(i int) c10XV                          { return c10XV{L: i} }
func xmConst(i int) *c10XM                     { return &c10XM{Op: "const", I: i} }
func xmPut(m *c10XM, k string, v c10XV) *c10XM { return &c10XM{Op: "put", A: m, K: k, V: v} }
func xmMerge(a, b *c10XM) *c10XM               { return &c10XM{Op: "merge", A: a, B: b} }
func xmLit(kv ...any) *c10XM {
	m := &c10XM{Op: "lit"}
	for i := 0; i < len(kv); i += 2 {
		m.Es = append(m.Es, c10XEnt{K: kv[i].(string), V: kv[i+1].(c10XV)})
	}
	return m
}

// source text and xprog term side by side.  The run-time lets continue the numbering of the constants: a list-valued
// let is c<number of list constants + i>, an integer-valued one n<number of scalar constants + i>, so the body
// (LConst / SCst of Heap/FuncState.v) is rendered by the existing printer
func c10MkMixed(name string, defs []c10Def, mdefs []*c10XM, binds []c10XB, body *c10E, listBody bool) *c10Prog {
	return c10MkMixedO(name, defs, nil, mdefs, binds, body, listBody)
}

// a part of a string result: a literal or an integer expression (rendered in decimal by `+`)
type c10SPart struct {
	Lit string
	E   *c10E
}

// a program of the mixed fragment whose result is a STRING: "lit"+e+"lit"+... (the first part is a literal, so every
// `+` has a string on its left)
func c10MkMixedStr(name string, defs []c10Def, odefs [][]int, mdefs []*c10XM, binds []c10XB, parts []c10SPart) *c10Prog {
	var ss, cs []string
	for _, pt := range parts {
		if pt.E != nil {
			ss = append(ss, pt.E.src())
			cs = append(cs, "XSInt "+pt.E.coq())
		} else {
			ss = append(ss, "\""+pt.Lit+"\"")
			cs = append(cs, "XSLit "+CoqStr(pt.Lit))
		}
	}
	return c10MkMixedB(name, defs, odefs, mdefs, binds, strings.Join(ss, "+"), "(XBStr ["+strings.Join(cs, "; ")+"])", false)
}

// odefs: lists of lists `let o<k>=[c_i,c_j,...];`, each given by the numbers of the list constants it holds
func c10MkMixedO(name string, defs []c10Def, odefs [][]int, mdefs []*c10XM, binds []c10XB, body *c10E, listBody bool) *c10Prog {
	bk := "BZ "
	if listBody {
		bk = "BL "
	}
	return c10MkMixedB(name, defs, odefs, mdefs, binds, body.src(), "(XB ("+bk+body.coq()+"))", listBody)
}

func c10MkMixedB(name string, defs []c10Def, odefs [][]int, mdefs []*c10XM, binds []c10XB, bodySrc, bodyCoq string, listBody bool) *c10Prog {
	var src strings.Builder
	var ds, os, ms, bs []string
	nl, ns := 0, 0
	for _, d := range defs {
		if d.Kind == "DL" {
			fmt.Fprintf(&src, "let c%d=%s; ", nl, d.E.src())
			ds = append(ds, "DL "+d.E.coq())
			nl++
		} else {
			fmt.Fprintf(&src, "let n%d=c%d.size(); ", ns, d.I)
			ds = append(ds, fmt.Sprintf("DS %d", d.I))
			ns++
		}
	}
	for k, od := range odefs {
		var cs, ns []string
		for _, i := range od {
			cs = append(cs, fmt.Sprintf("c%d", i))
			ns = append(ns, fmt.Sprintf("%d%%nat", i))
		}
		fmt.Fprintf(&src, "let o%d=[%s]; ", k, strings.Join(cs, ","))
		os = append(os, "["+strings.Join(ns, "; ")+"]")
	}
	for i, m := range mdefs {
		fmt.Fprintf(&src, "let m%d=%s; ", i, m.src())
		ms = append(ms, m.coq())
	}
	for _, b := range binds {
		switch b.Kind {
		case "list":
			fmt.Fprintf(&src, "let c%d=%s.%s; ", nl, b.M.src(), b.K)
			bs = append(bs, "XBList "+b.M.coq()+" "+CoqStr(b.K))
			nl++
		case "int":
			fmt.Fprintf(&src, "let n%d=%s.%s; ", ns, b.M.src(), b.K)
			bs = append(bs, "XBInt "+b.M.coq()+" "+CoqStr(b.K))
			ns++
		case "index":
			fmt.Fprintf(&src, "let c%d=o%d[%s]; ", nl, b.O, b.I.src())
			bs = append(bs, fmt.Sprintf("XBIndex %d %s", b.O, b.I.coq()))
			nl++
		case "osize":
			fmt.Fprintf(&src, "let n%d=o%d.size(); ", ns, b.O)
			bs = append(bs, fmt.Sprintf("XBOSize %d", b.O))
			ns++
		default:
			fmt.Fprintf(&src, "let n%d=%s.size(); ", ns, b.M.src())
			bs = append(bs, "XBSize "+b.M.coq())
			ns++
		}
	}
	src.WriteString(bodySrc)
	p := c10Opaque(name, src.String())
	p.Class = "mixed:" + name
	p.ListBody = listBody
	p.XCoq = fmt.Sprintf("(mkXP [%s] [%s] [%s] [%s] %s)", strings.Join(ds, "; "), strings.Join(os, "; "), strings.Join(ms, "; "), strings.Join(bs, "; "), bodyCoq)
	return p
}

// programs mixing lists and maps: a list constant (lazy / with spare capacity / failing) held by constant maps and by
// map literals built per evaluation, reached through field access and appended to / materialised by the evaluation
func c10MixedModelledPool() []*c10Prog {
	a0, a1 := zS(sArg(0)), zS(sArg(1))
	spare := []c10Def{dL(lLit(1, 2)), dL(lAppend(lConst(0), zS(sLit(3))))}
	lazy := []c10Def{dL(lLit(1, 2, 3)), dL(lMap(sLit(1), lConst(0)))}
	guard := []c10Def{dL(lLit(5, 6, 7, 8)), dL(lGuard(sLit(7), lConst(0)))}
	holder := []*c10XM{xmLit("l", xvL(1), "n", xvI(sLit(1)))}
	perEval := xmLit("a", xvI(sArg(0)), "l", xvL(1))
	return []*c10Prog{
		// the shared object reached through a per-evaluation literal AND through a wrapper of a constant map
		c10MkMixed("mixed-spare-both-paths", spare, holder,
			[]c10XB{{Kind: "list", M: perEval, K: "l"}, {Kind: "list", M: xmPut(xmConst(0), "z", xvI(sArg(1))), K: "l"}},
			zAdd(zMul(zSize(lAppend(lConst(2), a0)), zS(sLit(10))), zIndex(lAppend(lConst(3), a1), zS(sLit(3)))), false),
		c10MkMixed("mixed-spare-list-result", spare, holder,
			[]c10XB{{Kind: "list", M: perEval, K: "l"}},
			lAppend(lConst(2), a0), true),
		// a lazy constant inside maps: the first evaluation materialises it through the map
		c10MkMixed("mixed-lazy-through-literal", lazy, nil,
			[]c10XB{{Kind: "list", M: xmLit("l", xvL(1), "k", xvI(sAdd(sArg(0), sArg(1)))), K: "l"}, {Kind: "int", M: xmLit("l", xvL(1), "k", xvI(sAdd(sArg(0), sArg(1)))), K: "k"}},
			zAdd(zIndex(lConst(2), a0), zAdd(zSize(lAppend(lConst(1), a1)), zS(sAdd(sCst(0), sArg(0))))), false),
		c10MkMixed("mixed-lazy-const-map-chain", lazy, []*c10XM{xmLit("l", xvL(1)), xmPut(xmConst(0), "l2", xvL(0)), xmLit("q", xvI(sLit(9)))},
			[]c10XB{{Kind: "list", M: xmMerge(xmConst(1), xmPut(xmConst(2), "r", xvI(sArg(0)))), K: "l2"}, {Kind: "list", M: xmMerge(xmConst(1), xmPut(xmConst(2), "r", xvI(sArg(0)))), K: "l"},
				{Kind: "size", M: xmMerge(xmConst(1), xmPut(xmConst(2), "r", xvI(sArg(0))))}},
			lConcat(lAppend(lConst(2), a0), lMap(sAdd(sCst(0), sArg(1)), lConst(3))), true),
		// failing lets: missing key, put on an existing key, merge clash - the evaluation fails, nothing is left behind
		c10MkMixed("mixed-missing-key", spare, holder,
			[]c10XB{{Kind: "list", M: xmPut(xmConst(0), "z", xvI(sArg(0))), K: "lx"}},
			zSize(lAppend(lConst(2), a0)), false),
		c10MkMixed("mixed-put-existing", spare, holder,
			[]c10XB{{Kind: "list", M: xmPut(perEval, "a", xvI(sArg(1))), K: "l"}},
			zSize(lAppend(lConst(2), a0)), false),
		c10MkMixed("mixed-merge-clash-some", spare, holder,
			[]c10XB{{Kind: "size", M: xmMerge(xmConst(0), xmLit("a", xvI(sArg(0)), "l2", xvL(0)))}, {Kind: "list", M: xmMerge(xmConst(0), xmLit("a", xvI(sArg(0)), "l2", xvL(0))), K: "l2"}},
			zAdd(zS(sMul(sCst(0), sArg(1))), zTry(zIndex(lAppend(lConst(2), a0), a1), zS(sLit(-5)))), false),
		// a constant whose materialisation fails, held by a map: every evaluation that touches it fails again
		c10MkMixed("mixed-guard-in-map", guard, []*c10XM{xmLit("l", xvL(1), "n", xvI(sLit(4)))},
			[]c10XB{{Kind: "list", M: xmPut(xmConst(0), "z", xvI(sArg(0))), K: "l"}, {Kind: "int", M: xmPut(xmConst(0), "z", xvI(sArg(0))), K: "z"}},
			zTry(zSize(lAppend(lConst(2), a0)), zAdd(zFirst(lTop(sAdd(sArg(1), sLit(1)), lConst(2))), zS(sCst(0)))), false),
		// LISTS OF LISTS: inner lists (lazy / with spare capacity) held by an outer constant, obtained by index, appended to
		c10MkMixedO("mixed-lol-nested-const", []c10Def{dL(lLit(1, 2)), dL(lMap(sLit(1), lConst(0))), dL(lLit(3)), dL(lAppend(lConst(2), zS(sLit(4))))},
			[][]int{{1, 3}}, nil, []c10XB{{Kind: "index", O: 0, I: sArg(0)}},
			lAppend(lConst(4), a1), true),
		c10MkMixedO("mixed-lol-spare-twice", spare, [][]int{{1, 0, 1}}, nil,
			[]c10XB{{Kind: "index", O: 0, I: sArg(0)}, {Kind: "index", O: 0, I: sAdd(sArg(1), sLit(-1))}, {Kind: "osize", O: 0}},
			zAdd(zMul(zIndex(lAppend(lConst(2), a0), zS(sArg(1))), zS(sLit(100))), zAdd(zSize(lAppend(lConst(3), a1)), zS(sMul(sCst(0), sArg(0))))), false),
		c10MkMixedO("mixed-lol-lazy-in-map", lazy, [][]int{{0, 1}, {1}}, []*c10XM{xmLit("l", xvL(1), "n", xvI(sLit(2)))},
			[]c10XB{{Kind: "index", O: 0, I: sArg(0)}, {Kind: "list", M: xmLit("a", xvI(sArg(1)), "l", xvL(2)), K: "l"}, {Kind: "list", M: xmPut(xmConst(0), "z", xvI(sArg(1))), K: "l"}, {Kind: "index", O: 1, I: sLit(0)}},
			zAdd(zAdd(zSum(lMap(sArg(1), lConst(3))), zIndex(lConst(4), a1)), zSize(lAppend(lConst(5), a0))), false),
		c10MkMixedO("mixed-lol-guard-inner", guard, [][]int{{0, 1}}, nil,
			[]c10XB{{Kind: "index", O: 0, I: sArg(0)}},
			zTry(zSize(lAppend(lConst(2), a1)), zAdd(zFirst(lTop(sAdd(sArg(1), sLit(1)), lConst(2))), zS(sArg(1)))), false),
		// STRING results: immutable scalars built from integer lets, arguments and constants
		c10MkMixedStr("mixed-string-plain", nil, nil, nil, nil,
			[]c10SPart{{Lit: "x"}, {E: sArg(0)}, {Lit: "y"}, {E: sArg(1)}}),
		c10MkMixedStr("mixed-string-from-maps", []c10Def{dL(lLit(1, 2, 3)), dS(0)}, [][]int{{0, 0}}, []*c10XM{xmLit("l", xvL(0), "n", xvI(sLit(7)))},
			[]c10XB{{Kind: "int", M: xmPut(xmConst(0), "z", xvI(sArg(0))), K: "z"}, {Kind: "int", M: xmPut(xmConst(0), "z", xvI(sArg(0))), K: "n"}, {Kind: "osize", O: 0}},
			[]c10SPart{{Lit: "z="}, {E: sCst(1)}, {Lit: ";n="}, {E: sCst(2)}, {Lit: ";"}, {E: sMul(sArg(1), sLit(2))}, {Lit: ","}, {E: sAdd(sCst(0), sCst(3))}}),
		// per-evaluation literals only (no constant map), integer fields and size
		c10MkMixed("mixed-literal-ints", nil, nil,
			[]c10XB{{Kind: "int", M: xmPut(xmLit("a", xvI(sArg(0)), "b", xvI(sMul(sArg(1), sLit(3)))), "c", xvI(sAdd(sArg(0), sLit(1)))), K: "c"},
				{Kind: "size", M: xmMerge(xmLit("a", xvI(sArg(0))), xmLit("b", xvI(sArg(1)), "c", xvI(sLit(2))))}},
			zS(sAdd(sMul(sCst(0), sLit(10)), sAdd(sCst(1), sArg(1)))), false),
	}
}

// a random program of the mixed fragment: list constants, map constants that hold them (distinct keys: folding cannot
// fail), run-time lets over literals / put / + (these may fail), and a body of the list language over all of them
func c10RandomMixed(r *Rng, n int) *c10Prog {
	g := &c10Gen{r: r}
	var defs []c10Def
	nd := 1 + r.Pick(3)
	for i := 0; i < nd; i++ {
		e := g.closedL(1 + r.Pick(2))
		if e.Op == "lconst" {
			e = lMap(sLit(int64(1+r.Pick(3))), e)
		}
		defs = append(defs, dL(e))
		g.nl++
	}
	var odefs [][]int
	for i, no := 0, r.Pick(3); i < no; i++ {
		var od []int
		for j, ne := 0, 2+r.Pick(3); j < ne; j++ {
			od = append(od, r.Pick(g.nl))
		}
		odefs = append(odefs, od)
	}
	ikeys := []string{"a", "b", "k", "n", "z"}
	lkeys := []string{"l", "l2", "lx", "lst"}
	entry := func(used map[string]bool, closed bool) (c10XEnt, bool) {
		if r.Chance(0.55) {
			k := lkeys[r.Pick(len(lkeys))]
			if used[k] {
				return c10XEnt{}, false
			}
			used[k] = true
			return c10XEnt{K: k, V: xvL(r.Pick(g.nl))}, true
		}
		k := ikeys[r.Pick(len(ikeys))]
		if used[k] {
			return c10XEnt{}, false
		}
		used[k] = true
		if closed {
			return c10XEnt{K: k, V: xvI(sLit(int64(r.Pick(7))))}, true
		}
		return c10XEnt{K: k, V: xvI(g.sexp(1, true))}, true
	}
	lit := func(used map[string]bool, closed bool) *c10XM {
		m := &c10XM{Op: "lit"}
		for i, ne := 0, 1+r.Pick(3); i < ne; i++ {
			if e, ok := entry(used, closed); ok {
				m.Es = append(m.Es, e)
			}
		}
		return m
	}
	// map constants, with the keys each shows
	var mdefs []*c10XM
	var mkeys []map[string]bool
	for i, nm := 0, r.Pick(3); i < nm; i++ {
		used := map[string]bool{}
		var m *c10XM
		switch {
		case len(mdefs) > 0 && r.Chance(0.3):
			b := r.Pick(len(mdefs))
			for k := range mkeys[b] {
				used[k] = true
			}
			m = xmConst(b)
			if e, ok := entry(used, true); ok {
				m = xmPut(m, e.K, e.V)
			} else {
				m = nil
			}
		default:
			m = lit(used, true)
		}
		if m != nil {
			mdefs = append(mdefs, m)
			mkeys = append(mkeys, used)
		}
	}
	// run-time map expressions with the keys they show; mostly well formed, now and then a clash (the let fails)
	copyKeys := func(m map[string]bool) map[string]bool {
		c := map[string]bool{}
		for k := range m {
			c[k] = true
		}
		return c
	}
	var rmexp func(d int) (*c10XM, map[string]bool)
	rmexp = func(d int) (*c10XM, map[string]bool) {
		if d <= 0 || r.Chance(0.3) {
			if len(mdefs) > 0 && r.Chance(0.5) {
				i := r.Pick(len(mdefs))
				keys := copyKeys(mkeys[i])
				k := ikeys[r.Pick(len(ikeys))]
				if keys[k] && r.Chance(0.85) {
					return xmConst(i), keys
				}
				keys[k] = true
				return xmPut(xmConst(i), k, xvI(sArg(r.Pick(2)))), keys
			}
			used := map[string]bool{}
			return lit(used, false), used
		}
		m, keys := rmexp(d - 1)
		if r.Chance(0.5) {
			used := copyKeys(keys)
			if r.Chance(0.1) {
				used = map[string]bool{}
			}
			if e, ok := entry(used, false); ok {
				keys[e.K] = true
				return xmPut(m, e.K, e.V), keys
			}
			return m, keys
		}
		m2, keys2 := rmexp(d - 1)
		clash := false
		for k := range keys2 {
			clash = clash || keys[k]
		}
		if clash && r.Chance(0.85) {
			return m, keys
		}
		for k := range keys2 {
			keys[k] = true
		}
		return xmMerge(m, m2), keys
	}
	pickKey := func(keys map[string]bool, list bool) (string, bool) {
		var ks []string
		for _, k := range append(append([]string{}, ikeys...), lkeys...) {
			if keys[k] && strings.HasPrefix(k, "l") == list {
				ks = append(ks, k)
			}
		}
		if len(ks) == 0 {
			return "", false
		}
		return ks[r.Pick(len(ks))], true
	}
	var binds []c10XB
	for i, nb := 0, 1+r.Pick(3); i < nb; i++ {
		if len(odefs) > 0 && r.Chance(0.4) {
			o := r.Pick(len(odefs))
			if r.Chance(0.2) {
				binds = append(binds, c10XB{Kind: "osize", O: o})
				g.ns++
			} else {
				ix := sArg(r.Pick(2)) // sometimes out of range: the let fails
				if r.Chance(0.5) {
					ix = sLit(int64(r.Pick(len(odefs[o]))))
				}
				binds = append(binds, c10XB{Kind: "index", O: o, I: ix})
				g.nl++
			}
			continue
		}
		m, keys := rmexp(1 + r.Pick(2))
		kind := r.Pick(5)
		if r.Chance(0.08) {
			keys = map[string]bool{"l": true, "l2": true, "a": true, "n": true} // possibly a missing key
		}
		if k, ok := pickKey(keys, true); ok && kind >= 2 {
			binds = append(binds, c10XB{Kind: "list", M: m, K: k})
			g.nl++
		} else if k, ok := pickKey(keys, false); ok && kind >= 1 {
			binds = append(binds, c10XB{Kind: "int", M: m, K: k})
			g.ns++
		} else {
			binds = append(binds, c10XB{Kind: "size", M: m})
			g.ns++
		}
	}
	if r.Chance(0.15) {
		parts := []c10SPart{{Lit: []string{"x", "n=", "s:", "a b"}[r.Pick(4)]}}
		for i, np := 0, 1+r.Pick(3); i < np; i++ {
			parts = append(parts, c10SPart{E: g.sexp(1, r.Chance(0.7))})
			if r.Chance(0.6) {
				parts = append(parts, c10SPart{Lit: []string{";", "y", " ", "-"}[r.Pick(4)]})
			}
		}
		p := c10MkMixedStr(fmt.Sprintf("random-mixed-%d", n), defs, odefs, mdefs, binds, parts)
		p.Class = "mixed:random-string"
		return p
	}
	listBody := r.Chance(0.3)
	for {
		var body *c10E
		if listBody {
			body = g.lexp(1 + r.Pick(3))
		} else {
			body = g.zexp(1 + r.Pick(3))
		}
		if body.nofold() && body.hasArg() && body.hasConst() {
			p := c10MkMixedO(fmt.Sprintf("random-mixed-%d", n), defs, odefs, mdefs, binds, body, listBody)
			p.Class = "mixed:random"
			return p
		}
	}
}

// constant-folded stateful stage values (Heap/ListHeap.v OStage), traversed - never materialised - by every
// evaluation, completely or partially; and the same stages applied at run time to argument-dependent lists
func c10StageModelledPool() []*c10Prog {
	a0 := zS(sArg(0))
	var ps []*c10Prog
	for _, st := range []string{"StMerge", "StCross", "StCombine", "StCombine3", "StCombineN", "StCompact", "StNumber", "StIir", "StIirCombine"} {
		defs := []c10Def{dL(lLit(1, 1, 2, 3, 3, 1)), dL(lLit(0, 2, 2, 9)), dL(lStage(st, lConst(0), lConst(1)))}
		ps = append(ps,
			c10MkProg("stage-modelled-list-"+st, defs, lMap(sArg(0), lConst(2)), true),
			c10MkProg("stage-modelled-int-"+st, defs, zAdd(zTry(zFirst(lTop(sAdd(sArg(0), sLit(1)), lConst(2))), zS(sLit(-7))), zTry(zSum(lMap(sArg(1), lConst(2))), zS(sLit(-1)))), false),
			c10MkProg("stage-modelled-runtime-"+st, defs, zTry(zSum(lStage(st, lAppend(lConst(0), a0), lConst(1))), zSize(lAppend(lConst(2), a0))), false),
		)
	}
	return ps
}

func c10Opaque(name, src string) *c10Prog {
	return &c10Prog{Name: name, Src: src, Args: []string{"a0", "a1"}, Class: "opaque:" + name}
}

// constructors
func sArg(i int) *c10E       { return &c10E{Op: "sarg", I: i} }
func sLit(z int64) *c10E     { return &c10E{Op: "slit", Z: z} }
func sCst(i int) *c10E       { return &c10E{Op: "scst", I: i} }
func sAdd(a, b *c10E) *c10E  { return &c10E{Op: "sadd", A: a, B: b} }
func sMul(a, b *c10E) *c10E  { return &c10E{Op: "smul", A: a, B: b} }
func lConst(i int) *c10E     { return &c10E{Op: "lconst", I: i} }
func lLit(xs ...int64) *c10E { return &c10E{Op: "llit", Xs: xs} }
func lSingle(z *c10E) *c10E  { return &c10E{Op: "lsingle", A: z} }
func lNumbers(n *c10E) *c10E { return &c10E{Op: "lnumbers", A: n} }
func lAppend(l, x *c10E) *c10E {
	return &c10E{Op: "lappend", A: l, B: x}
}
func lMap(k, l *c10E) *c10E    { return &c10E{Op: "lmap", A: k, B: l} }
func lAccept(k, l *c10E) *c10E { return &c10E{Op: "laccept", A: k, B: l} }
func lGuard(v, l *c10E) *c10E  { return &c10E{Op: "lguard", A: v, B: l} }
func lStage(st string, a, b *c10E) *c10E {
	if st != "StMerge" && st != "StCross" {
		b = nil
	}
	return &c10E{Op: "lstage", S: st, A: a, B: b}
}
func lOrder(l *c10E) *c10E      { return &c10E{Op: "lorder", A: l} }
func zCall(a, b, x *c10E) *c10E { return &c10E{Op: "zcall", A: a, B: b, C: x} }
func lTop(n, l *c10E) *c10E     { return &c10E{Op: "ltop", A: n, B: l} }
func lSkip(n, l *c10E) *c10E    { return &c10E{Op: "lskip", A: n, B: l} }
func lConcat(a, b *c10E) *c10E  { return &c10E{Op: "lconcat", A: a, B: b} }
func lReverse(l *c10E) *c10E    { return &c10E{Op: "lreverse", A: l} }
func lForce(l *c10E) *c10E      { return &c10E{Op: "lforce", A: l} }
func zS(s *c10E) *c10E          { return &c10E{Op: "zs", A: s} }
func zAdd(a, b *c10E) *c10E     { return &c10E{Op: "zadd", A: a, B: b} }
func zMul(a, b *c10E) *c10E     { return &c10E{Op: "zmul", A: a, B: b} }
func zIndex(l, i *c10E) *c10E   { return &c10E{Op: "zindex", A: l, B: i} }
func zSize(l *c10E) *c10E       { return &c10E{Op: "zsize", A: l} }
func zSum(l *c10E) *c10E        { return &c10E{Op: "zsum", A: l} }
func zFirst(l *c10E) *c10E      { return &c10E{Op: "zfirst", A: l} }
func zThrow() *c10E             { return &c10E{Op: "zthrow"} }
func zTry(a, b *c10E) *c10E     { return &c10E{Op: "ztry", A: a, B: b} }
func zIf(a, b, t, e *c10E) *c10E {
	return &c10E{Op: "zif", A: a, B: b, C: t, D: e}
}
func dL(e *c10E) c10Def { return c10Def{Kind: "DL", E: e} }
func dS(i int) c10Def   { return c10Def{Kind: "DS", I: i} }

// the fixed pool: shapes the properties name, known-bad inputs first
func c10Pool() []*c10Prog {
	a0, a1 := zS(sArg(0)), zS(sArg(1))
	lazy := []c10Def{dL(lLit(1, 2, 3)), dL(lMap(sLit(1), lConst(0)))}
	spare := []c10Def{dL(lLit(1, 2)), dL(lAppend(lConst(0), zS(sLit(3))))}
	guard := []c10Def{dL(lLit(5, 6, 7, 8)), dL(lGuard(sLit(7), lConst(0)))}
	return []*c10Prog{
		// the probed C11 example: lazy constant, first c[x] materialises it, append on it
		c10MkProg("lazy-index-append", lazy, zAdd(zIndex(lConst(1), a0), zSize(lAppend(lConst(1), a0))), false),
		// appendable constant with spare capacity: the first append writes into the shared array and caps the constant
		c10MkProg("spare-append-list", spare, lAppend(lConst(1), a0), true),
		c10MkProg("spare-append-twice", spare, zAdd(zIndex(lAppend(lConst(1), a0), zS(sLit(3))), zMul(zS(sLit(10)), zIndex(lAppend(lConst(1), a1), zS(sLit(3))))), false),
		c10MkProg("lazy-append-list", lazy, lAppend(lConst(1), a0), true),
		c10MkProg("lazy-map-result", lazy, lMap(sArg(0), lConst(1)), true),
		c10MkProg("lazy-sum-then-size", lazy, zAdd(zSum(lMap(sArg(0), lConst(1))), zSize(lTop(sArg(1), lConst(1)))), false),
		c10MkProg("lazy-fail-index", lazy, zIndex(lConst(1), a0), false),
		c10MkProg("lazy-try-index", lazy, zTry(zIndex(lConst(1), a0), zAdd(a1, zS(sLit(100)))), false),
		c10MkProg("lazy-neg-index", lazy, zTry(zIndex(lConst(1), zAdd(a0, zS(sLit(-2)))), zSize(lAppend(lConst(1), a1))), false),
		c10MkProg("throw-some", lazy, zIf(a0, zS(sLit(2)), zThrow(), zIndex(lConst(1), a1)), false),
		c10MkProg("forced-at-generate", []c10Def{dL(lLit(4, 5, 6)), dL(lAccept(sLit(6), lConst(0))), dS(1)},
			zAdd(zS(sCst(0)), zFirst(lSkip(sArg(0), lConst(1)))), false),
		c10MkProg("chain-of-lazy", []c10Def{dL(lNumbers(sLit(5))), dL(lMap(sLit(10), lConst(0))), dL(lSkip(sLit(1), lConst(1))), dL(lConcat(lConst(2), lConst(0)))},
			zAdd(zIndex(lConst(3), a0), zSize(lAppend(lConst(2), a1))), false),
		c10MkProg("reverse-const", []c10Def{dL(lLit(3, 1, 2)), dL(lReverse(lConst(0)))}, lAppend(lReverse(lAppend(lConst(1), a0)), a1), true),
		c10MkProg("append-chain", []c10Def{dL(lLit(7)), dL(lAppend(lAppend(lConst(0), zS(sLit(8))), zS(sLit(9))))},
			lAppend(lAppend(lConst(1), a0), a1), true),
		c10MkProg("no-const-arith", nil, zAdd(zMul(a0, a0), zMul(zS(sLit(3)), a1)), false),
		c10MkProg("runtime-lists", nil, zSum(lConcat(lSingle(a0), lNumbers(sAdd(sArg(1), sLit(1))))), false),
		c10MkProg("numbers-lazy-result", nil, lSkip(sLit(1), lMap(sArg(1), lNumbers(sAdd(sArg(0), sLit(2))))), true),
		c10MkProg("eval-const", lazy, lForce(lAccept(sAdd(sArg(0), sLit(3)), lConst(1))), true),
		// lazy constants whose materialisation FAILS at an element k > 0 (the closure e->e+0%(e-7) fails on 7)
		c10MkProg("guard-append", guard, lAppend(lConst(1), a0), true),
		c10MkProg("guard-size-try", guard, zTry(zSize(lAppend(lConst(1), a0)), zAdd(a0, zS(sLit(100)))), false),
		c10MkProg("guard-index", guard, zIndex(lConst(1), a0), false),
		c10MkProg("guard-top", guard, lTop(sAdd(sArg(0), sLit(1)), lConst(1)), true),
		c10MkProg("guard-first-sum", guard, zAdd(zFirst(lTop(sAdd(sArg(0), sLit(1)), lConst(1))), zTry(zSum(lMap(sArg(0), lConst(1))), a1)), false),
		c10MkProg("guard-map-eval", guard, lForce(lMap(sArg(0), lConst(1))), true),
		c10MkProg("guard-reverse-or-top", guard, zTry(zSize(lReverse(lTop(sAdd(sArg(0), sLit(2)), lConst(1)))), zSize(lTop(sArg(0), lConst(1)))), false),
		c10MkProg("guard-never-fails", []c10Def{dL(lLit(5, 6, 7, 8)), dL(lGuard(sLit(99), lConst(0)))}, zAdd(zIndex(lConst(1), a0), zSize(lAppend(lConst(1), a1))), false),
		c10MkProg("guard-at-run-time", lazy, zTry(zSize(lGuard(sArg(0), lConst(1))), zS(sLit(-1))), false),
		c10MkProg("guard-chain", []c10Def{dL(lNumbers(sLit(6))), dL(lGuard(sLit(4), lConst(0))), dL(lMap(sLit(10), lConst(1))), dL(lConcat(lConst(2), lConst(0)))},
			zTry(zIndex(lConst(3), a0), zSize(lTop(sArg(1), lConst(2)))), false),
		// closures capturing ARGUMENTS: created, applied and dropped by one evaluation
		c10MkProg("closure-captures-modelled", nil, zAdd(zCall(sArg(0), sArg(1), zS(sLit(3))), zCall(sArg(0), sArg(1), zS(sLit(4)))), false),
		c10MkProg("closure-captures-over-list", lazy, zCall(sArg(0), sArg(1), zSize(lAppend(lConst(1), a0))), false),
		// order: CopyToSlice (materialises the receiver) + sort
		c10MkProg("order-const-modelled", []c10Def{dL(lLit(3, 1, 2)), dL(lMap(sLit(1), lConst(0))), dL(lOrder(lConst(1)))}, zAdd(zIndex(lConst(2), a0), zSize(lAppend(lConst(1), a1))), false),
		c10MkProg("order-at-run-time", lazy, lOrder(lAppend(lReverse(lAppend(lConst(1), a0)), a1)), true),
		// outside the modelled fragment
		c10Opaque("lazy-mul-example", "let c=[1,2,3].map(e->e*2); c[a0]+c.append(a1).size()"),
		c10Opaque("recursion", "func fib(n) if n<2 then n else fib(n-1)+fib(n-2); fib(a0+3)+a1"),
		c10Opaque("closure-captures", "let f=x->x*a0+a1; f(3)+f(4)"),
		c10Opaque("closure-3-levels", "let h=a->b->c->a+b+c+a0; h(1)(2)(a1)"),
		c10Opaque("map-put", "let m={a:1,b:2}.put(\"c\",3); m.put(\"d\",a0).string()+m.put(\"e\",a1).string()"),
		c10Opaque("map-merge", "let m={a:1,b:2}; let m2=m+{c:3}; (m2+{d:a0}).string()+m.string()"),
		c10Opaque("map-replace", "let m={a:1,b:2}; m.replace(e->{a:e.a+a0}).string()+m.string()"),
		c10Opaque("try-catch-closure", "try (if a0<1 then throw(\"neg\") else a0*2) catch e->\"caught:\"+e+a1"),
		c10Opaque("fails-some", "[10,20,30][a0]+numbers(a1).sum()"),
		c10Opaque("strings", "\"x\"+a0+\"y\"+a1"),
		c10Opaque("list-of-lists", "let c=[1,2,3].map(e->e*2); c.map(e->[e,a0])"),
		c10Opaque("reduce-captures", "numbers(a0+2).reduce((s,e)->s+e*a1)"),
		c10Opaque("append-both", "let c=[1,2].append(3); c.append(a0).string()+c.append(a1).string()"),
		c10Opaque("lazy-accept-const", "let c=numbers(6).map(e->e*e).accept(e->e%2=0); c.top(a0+1).string()+c.size()"),
		c10Opaque("order-const", "let c=[3,1,2].orderLess((a,b)->a<b); c[a0]*10+c.append(a1).size()"),
		c10Opaque("nested-const", "let c=[[1,2].map(e->e+1),[3].append(4)]; c[a0].append(a1).string()"),
	}
}

// stateful lazy stages: (a) a constant-folded stage value shared by all evaluations, iterated (never
// materialised) by each of them completely or partially (string / first / top(2) / reduce, chosen by a1);
// (b) a let-bound stage value traversed twice in ONE evaluation (twice completely, after an early stop, after
// size(), as both operands of cross), judged against single-traversal programs (OracleSrc); (c) constants
// whose sub-results (windows, groups) are handed out: append on a sub-result in one evaluation, read in another;
// (d) results built per evaluation from literals and stages, kept by the host and re-observed at the end
func c10StatefulPool() []*c10Prog {
	stages := [][2]string{
		{"compact", "compact((a,b)->a=b)"}, {"iir", "iir(x->x,(x,acc)->acc+x)"}, {"iirCombine", "iirCombine(x->x,(p,q,acc)->acc+q-p)"},
		{"combine", "combine((p,q)->p*10+q)"}, {"combine3", "combine3((p,q,r)->p*100+q*10+r)"}, {"combineN", "combineN(2,l->l.sum())"},
		{"number", "number((i,e)->i*10+e)"}, {"merge", "merge([0,2,2,9],(p,q)->p<q)"}, {"top", "top(4)"}, {"skip", "skip(2)"},
		{"accept", "accept(e->e<3)"}, {"cross", "cross([1,2],(p,q)->p*q)"}, {"fsm", "fsm((s,i)->goto((3*s.state+i)%7)).map(s->s.state)"},
		{"movingWindow", "movingWindow(x->x).map(w->w.size())"}, {"orderLess", "orderLess((a,b)->a<b)"},
		// groupBy*/unique* iterate Go maps: the order of their results is not promised, they are left out
	}
	modes := "let m=c.map(x->x*(a0+1)); if a1<1 then m.string() else if a1<2 then string(m.first()) else if a1<3 then m.top(2).string() else string(m.reduce((a,b)->a+b))"
	var ps []*c10Prog
	for _, st := range stages {
		ps = append(ps, c10Opaque("stage-const-"+st[0], "let c=[1,1,2,3,3,1]."+st[1]+"; "+modes))
		// the stage value is iterated directly (no map in between), partially then completely in later evaluations
		ps = append(ps, c10Opaque("stage-const-direct-"+st[0], "let c=[1,1,2,3,3,1]."+st[1]+"; if a1<1 then c.string()+a0 else if a1<2 then string(c.first())+a0 else if a1<3 then c.top(a0).string() else (a0 ~ c)+\"\""))
		e := "[a0,1,a0,3,3,a0]." + st[1]
		mk := func(name, a, b string) {
			p := c10Opaque("stage-twice-"+name+"-"+st[0], "let s="+e+"; "+a+"+\"|\"+"+b)
			p.OracleSrc = []string{"let s=" + e + "; " + a, "let s=" + e + "; " + b}
			ps = append(ps, p)
		}
		mk("full-full", "s.string()", "s.string()")
		mk("first-full", "string(s.first())", "s.string()")
		mk("top-full", "s.top(2).string()", "s.string()")
		mk("contains-full", "string(a1 ~ s)", "s.string()")
		mk("full-size", "s.string()", "string(s.size())")
		p := c10Opaque("stage-twice-cross-"+st[0], "let s="+e+"; s.cross(s,(p,q)->p*10+q).string()")
		p.OracleSrc = []string{"let s=" + e + ".eval(); s.cross(s,(p,q)->p*10+q).string()"}
		ps = append(ps, p)
	}
	ps = append(ps,
		// (c) sub-results of constants
		c10Opaque("windows-append-read", "let w=[10,11,12,13].movingWindow(x->x); if a1<1 then w[0].append(a0).string() else w[a0].string()+w.string()"),
		c10Opaque("windows-append-list", "let c=[10,11,12,13]; let w=c.movingWindow(x->x); if a1<2 then w[1].append(a0) else w[2]+c"),
		c10Opaque("windows-append-twice", "let w=[10,11,12,13,14].movingWindow(x->x); w[a1].append(a0).string()+w[a1].append(a0+1).string()+w.string()"),
		c10Opaque("combineN-append-read", "let c=[10,11,12,13].combineN(2,l->l); if a1<1 then c[0].append(a0).string() else c.string()"),
		c10Opaque("top-of-const-append", "let c=[10,11,12,13]; if a1<1 then c.top(2).eval().append(a0).string() else c.string()+c.top(3).string()"),
		// (d) results built per evaluation, kept by the host
		c10Opaque("build-concat", "[1,2]+[a0,a1]"),
		c10Opaque("build-empty-append", "let e=[]; e.append(a0).append(a1)"),
		c10Opaque("build-windows", "[a0,a1,a0+1,7].movingWindow(x->x)"),
		c10Opaque("build-const-windows", "let c=[10,11,12,13]; c.movingWindow(x->x).map(w->w.append(a0))"),
		c10Opaque("build-combine", "[1,2,3].combine((p,q)->p+q+a0)"),
		c10Opaque("build-combineN", "numbers(4).combineN(2,l->l.append(a0))"),
		c10Opaque("build-const-append", "let c=[1,2].append(3); [c.append(a0),c.append(a1)]"),
	)
	return ps
}

// (e) type-polymorphic call sites: the receiver of ONE call site varies across the evaluations of one function
// between list / map without such a field / map with a closure field named like a method / string / number;
// (f) operators and methods between two lists / maps with a constant left operand, the right operand (or both)
// from the session's pool of argument objects, which are handed in again and again
func c10ObjectPool() []*c10Prog {
	recv := []string{"[1,2,3]", "{a:1,b:2}", "{a:1,get:k->k+\"!\"}", "{a:1,isAvail:k->\"mine\"}", "{a:1,map:f->\"mine\"}", "\"abc\""}
	lists := []string{"[1,2,3]", "[2,2]", "[1,2]", "[2,1]", "[3,1,2].map(e->e)", "[1,2].append(3)"}
	maps := []string{"{a:1,b:2}", "{a:1}", "{b:2,a:1}", "{a:1,get:k->k+\"!\"}"}
	mk := func(name, src string, pools ...[]string) *c10Prog {
		p := c10Opaque(name, src)
		p.ObjPool = pools
		p.Args = nil
		for i := range pools {
			p.Args = append(p.Args, fmt.Sprintf("o%d", i))
		}
		p.Args = append(p.Args, "a0", "a1")
		return p
	}
	return []*c10Prog{
		mk("poly-get", "string(o0.get(\"a\"))", recv),
		mk("poly-isAvail", "string(o0.isAvail(\"a\"))", recv),
		mk("poly-size", "string(o0.size())", recv),
		mk("poly-map", "o0.map(x->x).string()", recv),
		mk("poly-string", "o0.string()+a1", recv),
		mk("poly-two-sites", "string(o0.get(\"a\"))+string(o1.get(\"a\"))+string(o0.size())", recv, recv),
		mk("poly-put", "o0.put(\"z\",a1).string()", recv),
		mk("contains-const-left", "string([1,2] ~ o0)", lists),
		mk("contains-let-left", "let c=[3,1,2]; c.orderLess((a,b)->a<b).string()+(c ~ o0)+c.string()", lists),
		mk("contains-both-pooled", "string(o0 ~ o1)", lists, lists),
		mk("equal-const-left", "string([1,2,3] = o0)+string(o0 = [1,2])", lists),
		mk("equal-both-pooled", "string(o0 = o1)+string(o1 = o0)", lists, lists),
		mk("concat-const-left", "([1,2]+o0).string()+([1,2]+o0).append(a1).string()", lists),
		mk("reverse-order-pooled", "o0.reverse().string()+o0.orderLess((a,b)->a<b).string()+o0.string()", lists),
		mk("set-pooled", "o0.set(0,a1).string()+o0.string()", lists),
		mk("append-pooled", "o0.append(a1).string()+o0.append(a0).string()", lists),
		mk("map-equal-const-left", "string({a:1,b:2} = o0)", maps),
		mk("map-merge-const-left", "({z:a1}+o0).string()+o0.string()", maps),
		mk("map-put-pooled", "o0.put(\"q\",a1).string()+o0.string()", maps),
		mk("map-replace-pooled", "o0.replace(m->{a:a1}).string()+o0.string()", maps),
	}
}

func c10FullPool() []*c10Prog { return append(c10FullPool0(), c10FirstUsePool()...) }

func c10FullPool0() []*c10Prog {
	return append(append(append(append(append(append(c10Pool(), c10MapModelledPool()...), c10MixedModelledPool()...), c10StageModelledPool()...), c10FailingPool()...), c10StatefulPool()...), c10ObjectPool()...)
}

// lazy constants whose MATERIALISATION fails at an element k > 0 (List.Eval must leave the object untouched), and
// the same for a lazy list object the harness passes as argument to several evaluations
func c10FailingPool() []*c10Prog {
	kinds := [][2]string{
		{"index", "[0,1,2,3,0].map(i->[10,20,30][i])"},
		{"type", "[1,2,\"x\",4].map(e->e*2)"},
		{"modulo", "[4,2,0,5].map(e->10%e)"},
		{"guard", "[5,6,7,8].map(e->e+0%(e-7)).map(e->e+1)"},
		{"throw-runtime", "[1,2,3,4].map(e->if e=3 then throw(\"t\") else e)"},
	}
	consumers := [][2]string{
		{"size", "%s.size()+a0"}, {"append", "%s.append(a0).string()"}, {"string", "%s.string()+a0"}, {"index", "%s[a0]"},
		{"reduce", "%s.reduce((s,e)->s+e)+a0"}, {"first", "%s.first()+a0"}, {"top", "%s.top(a0).string()"},
	}
	var ps []*c10Prog
	for _, k := range kinds {
		for _, co := range consumers {
			ps = append(ps, c10Opaque("failing-"+k[0]+"-"+co[0], "let c="+k[1]+"; "+fmt.Sprintf(co[1], "c")))
		}
	}
	makers := [][2]string{
		{"failing-index", "numbers(5).map(i->[10,20,30][i])"},
		{"failing-modulo", "[4,2,0,5].map(e->10%e)"},
		{"lazy", "numbers(4).map(e->e*3)"},
		{"spare", "[1,2].append(3)"},
	}
	for _, m := range makers {
		for _, co := range consumers {
			p := c10Opaque("listarg-"+m[0]+"-"+co[0], fmt.Sprintf(co[1], "l"))
			p.Args = []string{"l", "a0", "a1"}
			p.ListArg = m[1]
			ps = append(ps, p)
		}
	}
	return ps
}

// ---------------------------------------------------------------- random programs of the modelled fragment

type c10Gen struct {
	r       *Rng
	nl, ns  int  // list / scalar constants available
	guarded bool // some constant may fail while it is iterated: no skip (iterator.Skip yields the errors of skipped elements), no `let n=c.size();`
}

func (g *c10Gen) sexp(d int, wantArg bool) *c10E {
	if d <= 0 || g.r.Chance(0.5) {
		switch {
		case wantArg || g.r.Chance(0.5):
			return sArg(g.r.Pick(2))
		case g.ns > 0 && g.r.Chance(0.3):
			return sCst(g.r.Pick(g.ns))
		}
		return sLit(int64(g.r.Pick(6)))
	}
	a, b := g.sexp(d-1, wantArg), g.sexp(d-1, false)
	if g.r.Chance(0.5) {
		a, b = b, a
	}
	if g.r.Chance(0.7) {
		return sAdd(a, b)
	}
	return sMul(a, b)
}

// a non-negative count depending on an argument
func (g *c10Gen) count() *c10E {
	if g.r.Chance(0.6) {
		return sArg(g.r.Pick(2))
	}
	return sAdd(sArg(g.r.Pick(2)), sLit(int64(g.r.Pick(3))))
}

func (g *c10Gen) lexp(d int) *c10E {
	if d <= 0 {
		if g.nl > 0 && g.r.Chance(0.75) {
			return lConst(g.r.Pick(g.nl))
		}
		if g.r.Chance(0.5) {
			return lSingle(zS(sArg(g.r.Pick(2))))
		}
		return lNumbers(g.count())
	}
	switch g.r.Pick(10) {
	case 0, 1:
		return lAppend(g.lexp(d-1), g.zexp(d-1))
	case 2:
		return lMap(g.sexp(1, g.r.Chance(0.8)), g.lexp(d-1))
	case 3:
		return lAccept(g.sexp(1, g.r.Chance(0.8)), g.lexp(d-1))
	case 4:
		return lTop(g.count(), g.lexp(d-1))
	case 5:
		if g.guarded {
			return lGuard(sArg(g.r.Pick(2)), g.lexp(d-1))
		}
		return lSkip(g.count(), g.lexp(d-1))
	case 6:
		return lConcat(g.lexp(d-1), g.lexp(d-1))
	case 7:
		return lReverse(g.lexp(d - 1))
	case 8:
		return lForce(g.lexp(d - 1))
	}
	return g.lexp(0)
}

func (g *c10Gen) zexp(d int) *c10E {
	if d <= 0 {
		return zS(g.sexp(1, g.r.Chance(0.7)))
	}
	switch g.r.Pick(12) {
	case 0:
		return zAdd(g.zexp(d-1), g.zexp(d-1))
	case 1:
		return zMul(g.zexp(d-1), zS(sLit(int64(g.r.Pick(4)))))
	case 2, 3, 4:
		return zIndex(g.lexp(d-1), g.zexp(d-1))
	case 5, 6:
		return zSize(g.lexp(d - 1))
	case 7:
		return zSum(g.lexp(d - 1))
	case 8:
		return zFirst(g.lexp(d - 1))
	case 9:
		return zTry(g.zexp(d-1), g.zexp(d-1))
	case 10:
		return zIf(g.zexp(d-1), g.zexp(d-1), g.zexp(d-1), g.zexp(d-1))
	}
	if g.r.Chance(0.3) {
		return zThrow()
	}
	return g.zexp(0)
}

// closed list expression for a definition (cannot fail)
func (g *c10Gen) closedL(d int) *c10E {
	if d <= 0 || g.nl == 0 {
		if g.nl > 0 && g.r.Chance(0.7) {
			return lConst(g.r.Pick(g.nl))
		}
		if g.r.Chance(0.3) {
			return lNumbers(sLit(int64(g.r.Pick(6))))
		}
		n := g.r.Pick(6)
		xs := make([]int64, n)
		for i := range xs {
			xs[i] = int64(g.r.Pick(9))
		}
		return lLit(xs...)
	}
	k := sLit(int64(g.r.Pick(7)))
	switch g.r.Pick(9) {
	case 0, 1:
		return lAppend(g.closedL(d-1), zS(sLit(int64(g.r.Pick(9)))))
	case 2, 3:
		return lMap(k, g.closedL(d-1))
	case 4:
		return lAccept(k, g.closedL(d-1))
	case 5:
		return lTop(sLit(int64(g.r.Pick(4))), g.closedL(d-1))
	case 6:
		if g.guarded {
			return lGuard(sLit(int64(g.r.Pick(9))), g.closedL(d-1))
		}
		return lSkip(sLit(int64(g.r.Pick(3))), g.closedL(d-1))
	case 7:
		return lConcat(g.closedL(d-1), g.closedL(d-1))
	}
	if g.r.Chance(0.5) {
		return lReverse(g.closedL(d - 1))
	}
	return lForce(g.closedL(d - 1))
}

// every `let` of the program was folded into a constant: the optimized AST does not start with a let any more
// (a definition that fails while it is folded - c.eval(), c.append(x), c.reverse() on a constant with a failing
// element - stays a run-time let, which is outside the model, even when it creates no list object of its own)
func c10AllDefsFolded(fg *value.FunctionGenerator, p *c10Prog) bool {
	ast, err := fg.CreateAst(p.Src, fg.Identifier().AddArgs(p.Args, nil))
	if err != nil {
		return false
	}
	_, isLet := ast.(*parser2.Let)
	return !isLet
}

func c10RandomProg(r *Rng, n int) *c10Prog {
	for {
		g := &c10Gen{r: r, guarded: r.Chance(0.3)}
		var defs []c10Def
		nd := 1 + r.Pick(3)
		for i := 0; i < nd; i++ {
			e := g.closedL(1 + r.Pick(2))
			if e.Op == "lconst" {
				e = lMap(sLit(int64(1+r.Pick(3))), e)
			}
			defs = append(defs, dL(e))
			g.nl++
			if g.guarded && i == 0 && nd > 1 {
				// make sure there is a constant with a failing element behind a good prefix
				defs = append(defs, dL(lGuard(sLit(e.lastLit()), lConst(0))))
				g.nl++
			}
			if r.Chance(0.15) && !g.guarded {
				defs = append(defs, dS(r.Pick(g.nl)))
				g.ns++
			}
		}
		listBody := r.Chance(0.3)
		var body *c10E
		ok := false
		for try := 0; try < 30 && !ok; try++ {
			if listBody {
				body = g.lexp(1 + r.Pick(3))
			} else {
				body = g.zexp(1 + r.Pick(3))
			}
			ok = body.nofold() && body.hasArg() && body.hasConst()
		}
		if ok {
			p := c10MkProg(fmt.Sprintf("random-%d", n), defs, body, listBody)
			if !g.guarded {
				return p
			}
			// a definition over a failing constant may fail to fold (e.g. c1.append(4) with c1 failing): it would
			// stay a run-time let, which is outside the model - such programs are dropped (decided on the real code)
			s := c10NewSession(true)
			if fn, err := s.generate(p); err == nil && len(fn.lists) == p.NewObjs && c10AllDefsFolded(s.fg, p) {
				return p
			}
		}
	}
}

// ---------------------------------------------------------------- running programs on the real library

// c10Spy wraps the generator's own optimizer and records, in creation order, every list object that
// constant folding produces (every list created at Generate time is the value of some folded Const node)
type c10Spy struct {
	inner parser2.Optimizer
	seen  map[*value.List]bool
	lists []*value.List
}

func (s *c10Spy) Optimize(a parser2.AST) parser2.AST {
	res := s.inner.Optimize(a)
	if c, ok := res.(*parser2.Const[value.Value]); ok {
		if l, ok := c.Value.(*value.List); ok && !s.seen[l] {
			s.seen[l] = true
			s.lists = append(s.lists, l)
		}
	}
	return res
}

type c10Session struct {
	fg    *value.FunctionGenerator
	spy   *c10Spy
	funcs []*c10Func
}

type c10Func struct {
	prog  *c10Prog
	f     funcGen.Func[value.Value]
	lists []*value.List // list objects created by its Generate call, in creation order
}

func c10NewSession(spy bool) *c10Session {
	s := &c10Session{fg: value.New()}
	if spy {
		s.spy = &c10Spy{inner: funcGen.VerifOptimizer(s.fg.FunctionGenerator), seen: map[*value.List]bool{}}
		s.fg.SetOptimizer(s.spy)
	}
	return s
}

func (s *c10Session) generate(p *c10Prog) (*c10Func, error) {
	before := 0
	if s.spy != nil {
		before = len(s.spy.lists)
	}
	f, _, err := s.fg.Generate(p.Src, p.Args...)
	if err != nil {
		return nil, err
	}
	fn := &c10Func{prog: p, f: f}
	if s.spy != nil {
		fn.lists = append(fn.lists, s.spy.lists[before:]...)
	}
	s.funcs = append(s.funcs, fn)
	return fn, nil
}

type c10Rep struct {
	Present  bool
	Len, Cap int
}

func c10RepOf(l *value.List) c10Rep {
	n, c, p, _ := value.VerifListState(l)
	return c10Rep{p, n, c}
}

func (r c10Rep) coq() string { return fmt.Sprintf("R3 %s %d %d", CoqBool(r.Present), r.Len, r.Cap) }

// representation state of the DL constants of a modelled function
func (fn *c10Func) constReps() ([]c10Rep, bool) {
	if fn.prog.NewObjs != len(fn.lists) {
		return nil, false
	}
	reps := make([]c10Rep, len(fn.prog.Consts))
	for i, h := range fn.prog.Consts {
		reps[i] = c10RepOf(fn.lists[h])
	}
	return reps, true
}

func (fn *c10Func) allReps() []c10Rep {
	reps := make([]c10Rep, len(fn.lists))
	for i, l := range fn.lists {
		reps[i] = c10RepOf(l)
	}
	return reps
}

// an observed outcome: Kind err | int | list | str (str: canonical text, programs outside the modelled fragment)
type c10Out struct {
	Kind string  `json:"kind"`
	Z    int64   `json:"z,omitempty"`
	Xs   []int64 `json:"xs,omitempty"`
	S    string  `json:"s,omitempty"`
}

func (o c10Out) String() string {
	switch o.Kind {
	case "err":
		return "error"
	case "int":
		return fmt.Sprint(o.Z)
	case "list":
		return fmt.Sprint(o.Xs)
	}
	return o.S
}

func (o c10Out) coq() string {
	switch o.Kind {
	case "err":
		return "OErr"
	case "int":
		return "(OInt " + c10Z(o.Z) + ")"
	case "list":
		return "(OList " + c10ZList(o.Xs) + ")"
	}
	return ""
}

// evaluate with the given arguments; of a list result the host pulls at most j elements and stops
func c10Eval(f funcGen.Func[value.Value], args []int64, j int, modelled bool) c10Out {
	v, err := c10Call(f, nil, args)
	return c10Consume(v, err, j, modelled)
}

// objs: pooled argument objects, passed before the integer arguments
func c10Call(f funcGen.Func[value.Value], objs []value.Value, args []int64) (value.Value, error) {
	var vs []value.Value
	vs = append(vs, objs...)
	for _, a := range args {
		vs = append(vs, value.Int(a))
	}
	return f.Eval(vs...)
}

// the list object for programs with a list argument: made by evaluating the maker expression once on fg
func c10MakeList(fg *value.FunctionGenerator, src string) value.Value {
	f, _, err := fg.Generate(src)
	if err != nil {
		fatal("c10: list maker %s does not generate: %v", src, err)
	}
	v, err := f.Eval()
	if err != nil {
		fatal("c10: list maker %s fails: %v", src, err)
	}
	return v
}

// what the host does with the result (possibly long after the evaluation returned it)
func c10Consume(v value.Value, err error, j int, modelled bool) c10Out {
	if err != nil {
		return c10Out{Kind: "err"}
	}
	st := funcGen.NewEmptyStack[value.Value]()
	if l, ok := v.(*value.List); ok {
		var xs []int64
		var ss []string
		allInt := true
		n := 0
		if j > 0 {
			for e, err := range l.Iterate(st) {
				if err != nil {
					return c10Out{Kind: "err"}
				}
				if i, ok := e.(value.Int); ok {
					xs = append(xs, int64(i))
				} else {
					allInt = false
				}
				s, err := e.ToString(st)
				if err != nil {
					return c10Out{Kind: "err"}
				}
				ss = append(ss, s)
				n++
				if n >= j {
					break
				}
			}
		}
		if allInt && modelled {
			return c10Out{Kind: "list", Xs: xs}
		}
		return c10Out{Kind: "str", S: "list[" + strings.Join(ss, ",") + "]"}
	}
	if i, ok := v.(value.Int); ok && modelled {
		return c10Out{Kind: "int", Z: int64(i)}
	}
	s, err := v.ToString(st)
	if err != nil {
		return c10Out{Kind: "err"}
	}
	return c10Out{Kind: "str", S: s}
}

// Go-side oracle: a FRESH generator generates the program and evaluates it exactly once
var c10OracleCache = map[string]c10Out{}

func c10Oracle(p *c10Prog, args []int64, j int) c10Out {
	key := fmt.Sprintf("%s|%s|%v|%v|%d", p.Src, p.ListArg, p.OracleSrc, args, j)
	if o, ok := c10OracleCache[key]; ok {
		return o
	}
	if len(p.OracleSrc) > 0 {
		var parts []string
		o := c10Out{Kind: "str"}
		for _, src := range p.OracleSrc {
			po := c10Oracle(&c10Prog{Src: src, Args: p.Args}, args, j)
			if po.Kind != "str" {
				o = c10Out{Kind: po.Kind}
				break
			}
			parts = append(parts, po.S)
		}
		if o.Kind == "str" {
			o.S = strings.Join(parts, "|")
		}
		c10OracleCache[key] = o
		return o
	}
	fg := value.New()
	f, _, err := fg.Generate(p.Src, p.Args...)
	var o c10Out
	if err != nil {
		o = c10Out{Kind: "str", S: "generate-error"}
	} else {
		var objs []value.Value
		if p.ListArg != "" {
			objs = append(objs, c10MakeList(fg, p.ListArg))
		}
		for _, mk := range p.objMakers(args) {
			objs = append(objs, c10MakeList(fg, mk))
		}
		v, err := c10Call(f, objs, args)
		o = c10Consume(v, err, j, p.modelled())
	}
	c10OracleCache[key] = o
	return o
}

// capacities the Go runtime chooses AT THE LIBRARY'S OWN CALL SITES (they depend on the call site: the compiler
// and the allocator's size classes decide), measured through the library with the hook value.VerifListState:
// evalCap[n] = capacity after List.Eval's append loop produced n elements; appCap[n] = capacity of the array
// List.Append allocates when the receiver is full and the result has n elements
func c10MeasureCaps(max int) (evalCap, appCap []int) {
	st := funcGen.NewEmptyStack[value.Value]()
	for n := 0; n <= max; n++ {
		m := n
		l := value.NewListFromIterable(func(funcGen.Stack[value.Value]) iterator.Producer[value.Value] {
			return iterator.Generate[value.Value](m, func(i int) (value.Value, error) { return value.Int(i), nil })
		})
		if err := l.Eval(st); err != nil {
			fatal("c10: measuring capacities: %v", err)
		}
		_, c, _, _ := value.VerifListState(l)
		evalCap = append(evalCap, c)
		if n == 0 {
			appCap = append(appCap, 0)
			continue
		}
		full := value.NewList(make([]value.Value, n-1)...)
		res, err := full.Append(funcGen.NewStack[value.Value](full, value.Int(0)))
		if err != nil {
			fatal("c10: measuring capacities: %v", err)
		}
		_, c, _, _ = value.VerifListState(res)
		appCap = append(appCap, c)
	}
	return
}

func c10NatList(xs []int) string {
	ss := make([]string, len(xs))
	for i, x := range xs {
		ss[i] = fmt.Sprint(x)
	}
	return "[" + strings.Join(ss, ";") + "]%nat"
}

// ---------------------------------------------------------------- sessions

type c10Event struct {
	Kind string   `json:"kind"` // gen | eval
	Prog *c10Prog `json:"prog,omitempty"`
	K    int      `json:"k"` // function number within the session (all functions, modelled or not)
	Args []int64  `json:"args,omitempty"`
	J    int      `json:"j,omitempty"`
	// Defer: the host keeps a returned list and consumes it only after the NEXT evaluation on this generator has
	// finished (a lazy result carries closures and constants of the evaluation that produced it)
	Defer bool `json:"defer,omitempty"`
}

type c10Case struct {
	ID     int        `json:"id"`
	Events []c10Event `json:"events"`
}

var c10ArgPool = []int64{0, 1, 2, 3, 5, -1}
var c10JPool = []int{0, 1, 2, 100}

func c10RandomSession(r *Rng, id int, pool []*c10Prog, maxLen int) *c10Case {
	c := &c10Case{ID: id}
	var progs []*c10Prog
	pick := func() *c10Prog {
		if r.Chance(0.55) {
			if r.Chance(0.25) {
				return c10RandomMixed(r, id*100+len(progs))
			}
			return c10RandomProg(r, id*100+len(progs))
		}
		return pool[r.Pick(len(pool))]
	}
	n := 8 + r.Pick(maxLen-7)
	// a favourite (function, arguments, consumption) that is repeated throughout the session
	var favK int
	var favArgs []int64
	favJ := 0
	for len(c.Events) < n {
		switch {
		case len(progs) == 0 || (len(progs) < 5 && r.Chance(0.12)):
			p := pick()
			progs = append(progs, p)
			c.Events = append(c.Events, c10Event{Kind: "gen", Prog: p, K: len(progs) - 1})
			if len(progs) == 1 {
				favK, favArgs, favJ = 0, []int64{c10ArgPool[r.Pick(len(c10ArgPool))], c10ArgPool[r.Pick(len(c10ArgPool))]}, c10JPool[r.Pick(len(c10JPool))]
			}
		case r.Chance(0.3):
			c.Events = append(c.Events, c10Event{Kind: "eval", K: favK, Args: favArgs, J: favJ})
		default:
			k := r.Pick(len(progs))
			if r.Chance(0.5) {
				k = favK
			}
			args := []int64{c10ArgPool[r.Pick(len(c10ArgPool))], c10ArgPool[r.Pick(len(c10ArgPool))]}
			c.Events = append(c.Events, c10Event{Kind: "eval", K: k, Args: args, J: c10JPool[r.Pick(len(c10JPool))], Defer: r.Chance(0.3)})
		}
	}
	return c
}

// corpus: the known-bad shapes, each pool program alone: first touch with every argument kind, repeated
func c10CorpusSessions(pool []*c10Prog, start int) []*c10Case {
	var cs []*c10Case
	for i, p := range pool {
		c := &c10Case{ID: start + i}
		c.Events = append(c.Events, c10Event{Kind: "gen", Prog: p, K: 0})
		seq := [][]int64{{1, 2}, {5, 0}, {1, 2}, {-1, 1}, {0, 3}, {1, 2}, {3, 3}, {5, 0}, {1, 2}, {0, 1}, {0, 1}, {2, 0}, {1, 2}}
		for n, a := range seq {
			c.Events = append(c.Events, c10Event{Kind: "eval", K: 0, Args: a, J: []int{100, 1, 0, 2}[n%4], Defer: n%3 == 1})
		}
		// a second function of the same program on the same generator, interleaved with the first
		c.Events = append(c.Events, c10Event{Kind: "gen", Prog: p, K: 1})
		for _, a := range [][]int64{{2, 1}, {1, 2}} {
			c.Events = append(c.Events, c10Event{Kind: "eval", K: 1, Args: a, J: 100, Defer: true})
			c.Events = append(c.Events, c10Event{Kind: "eval", K: 0, Args: a, J: 100})
		}
		cs = append(cs, c)
	}
	return cs
}

type c10Result struct {
	coqEvents, coqObs []string
	outs              []c10Out // per event (gen: zero value)
	viol              *GoViolation
	mcases            []string         // evaluations of programs of the map fragment, as Coq terms
	xprogs            map[int]string   // session function number -> xprog term (mixed fragment)
	xevals            map[int][]string // ... -> its evaluations in the order of the Eval calls, as Coq terms
	xorder            []int
	argViol           *GoViolation // an argument object of the pool changed (reported besides viol)
	nontriv           bool
	evals             int
}

func c10RunSession(c *c10Case, sum *Summary) *c10Result {
	res := &c10Result{}
	s := c10NewSession(true)
	modelIdx := map[int]int{} // session function number -> number among the modelled functions
	type seenKey struct {
		k    int
		args string
		j    int
	}
	lastSeen := map[seenKey]int{}
	var pending, held []func()
	pooled := map[string]value.Value{} // maker source -> the ONE object of this session
	pooledSnap := map[string]string{}
	var pooledOrder []string
	for n, ev := range c.Events {
		switch ev.Kind {
		case "gen":
			fn, err := s.generate(ev.Prog)
			res.outs = append(res.outs, c10Out{})
			if err != nil {
				fatal("c10: program %s does not generate: %v\n%s", ev.Prog.Name, err, ev.Prog.Src)
			}
			sum.Count("program_class", ev.Prog.Class)
			if ev.Prog.Coq == "" {
				res.coqEvents = append(res.coqEvents, "EScratch []")
				res.coqObs = append(res.coqObs, "XNone")
				break
			}
			modelIdx[ev.K] = len(modelIdx)
			reps, ok := fn.constReps()
			if !ok {
				fatal("c10: program %s: Generate created %d list objects, the harness counted %d\n%s", ev.Prog.Name, len(fn.lists), ev.Prog.NewObjs, ev.Prog.Src)
			}
			res.coqEvents = append(res.coqEvents, "EGen "+ev.Prog.Coq)
			res.coqObs = append(res.coqObs, "XGen true "+c10RepsCoq(reps))
			for _, r := range reps {
				sum.Count("const_state_after_generate", c10RepClass(r))
			}
		case "eval":
			fn := s.funcs[ev.K]
			before := fn.allReps()
			var objs []value.Value
			get := func(mk string) value.Value {
				if pooled[mk] == nil {
					pooled[mk] = c10MakeList(s.fg, mk)
					pooledSnap[mk] = c10Render(c10MakeList(value.New(), mk)) // what a fresh object of this kind shows
					pooledOrder = append(pooledOrder, mk)
				}
				sum.Count("object_argument", "pooled object handed in")
				return pooled[mk]
			}
			if fn.prog.ListArg != "" {
				objs = append(objs, get(fn.prog.ListArg))
			}
			for _, mk := range fn.prog.objMakers(ev.Args) {
				objs = append(objs, get(mk))
			}
			v, err := c10Call(fn.f, objs, ev.Args)
			after := fn.allReps()
			res.outs = append(res.outs, c10Out{})
			res.coqEvents = append(res.coqEvents, "")
			res.coqObs = append(res.coqObs, "")
			reps, _ := fn.constReps()
			nn, evv := n, ev
			xslot := -1
			if fn.prog.XCoq != "" {
				if res.xprogs == nil {
					res.xprogs, res.xevals = map[int]string{}, map[int][]string{}
				}
				if _, ok := res.xprogs[ev.K]; !ok {
					res.xprogs[ev.K] = fn.prog.XCoq
					res.xorder = append(res.xorder, ev.K)
				}
				xslot = len(res.xevals[ev.K])
				res.xevals[ev.K] = append(res.xevals[ev.K], "")
			}
			finish := func() {
				out := c10Consume(v, err, evv.J, fn.prog.modelled())
				res.outs[nn] = out
				sum.Count("outcome_kind", out.Kind)
				want := c10Oracle(fn.prog, evv.Args, evv.J)
				if (want.Kind != out.Kind || want.String() != out.String()) && res.viol == nil {
					res.viol = &GoViolation{CaseID: c.ID, What: fmt.Sprintf("evaluation %d of the session (function %d, %s) differs from the evaluation of the same program with the same arguments on a fresh generator", nn, evv.K, fn.prog.Name),
						Sig: "history-dependent/" + fn.prog.Class, Expected: want.String(), Observed: out.String(),
						Human: map[string]any{"program": fn.prog.Src, "args": evv.Args, "consumed": evv.J, "event": nn, "consumption_deferred": evv.Defer}}
				}
				if fn.prog.MCoq != "" {
					o := "None"
					if out.Kind == "int" {
						o = "(Some " + c10Z(out.Z) + "%Z)"
					} else if out.Kind != "err" {
						o = "(Some 123456789%Z) (* not an integer: " + out.Kind + " *)"
					}
					res.mcases = append(res.mcases, fmt.Sprintf("MCase %s %s %s", fn.prog.MCoq, c10ZList(evv.Args), o))
					sum.Count("map_fragment", "evaluations compared with the map model")
				}
				if xslot >= 0 {
					o := "(XO " + out.coq() + ")"
					if out.Kind == "str" {
						o = "(XOStr " + CoqStr(out.S) + ")"
					}
					res.xevals[evv.K][xslot] = fmt.Sprintf("(%s, %d%%nat, %s)", c10ZList(evv.Args), evv.J, o)
					sum.Count("mixed_fragment", "evaluations compared with the mixed list/map model")
				}
				if fn.prog.Coq == "" {
					res.coqEvents[nn], res.coqObs[nn] = "EScratch []", "XNone"
				} else {
					res.coqEvents[nn] = fmt.Sprintf("EEval %d %s %d", modelIdx[evv.K], c10ZList(evv.Args), evv.J)
					res.coqObs[nn] = "XEval " + out.coq() + " " + c10RepsCoq(reps)
				}
			}
			// (i) the host keeps every list it got and re-observes it when the session is over: what it shows then
			// must be what it showed when it was consumed (deep rendering both times)
			if _, isList := v.(*value.List); isList && err == nil && evv.J > 0 {
				held = append(held, func() {
					was := res.outs[nn]
					now := c10Consume(v, nil, evv.J, fn.prog.modelled())
					sum.Count("held_results", "re-observed at the end of the session")
					if (was.Kind != now.Kind || was.String() != now.String()) && res.viol == nil {
						res.viol = &GoViolation{CaseID: c.ID, What: fmt.Sprintf("the list returned by evaluation %d of the session (function %d, %s) shows different elements at the end of the session", nn, evv.K, fn.prog.Name),
							Sig: "held-result-changed/" + fn.prog.Class, Expected: was.String(), Observed: now.String(),
							Human: map[string]any{"program": fn.prog.Src, "args": evv.Args, "consumed": evv.J, "event": nn}}
					}
				})
			}
			// results kept by the host during this evaluation are consumed now
			for _, f := range pending {
				f()
			}
			pending = nil
			if _, isList := v.(*value.List); isList && ev.Defer && err == nil {
				pending = append(pending, finish)
				sum.Count("consumption_time", "deferred: after the next evaluation")
			} else {
				finish()
				sum.Count("consumption_time", "immediately")
			}
			res.evals++
			sum.Count("consumption", fmt.Sprint(ev.J))
			changed := "unchanged"
			for i := range before {
				if before[i] != after[i] {
					if !before[i].Present && after[i].Present {
						changed = "materialised-by-evaluation"
					} else if changed == "unchanged" {
						changed = "capacity-trimmed-by-evaluation"
					}
				}
			}
			sum.Count("const_representation_change", changed)
			key := seenKey{ev.K, fmt.Sprint(ev.Args), ev.J}
			if prev, ok := lastSeen[key]; ok && n-prev > 1 {
				// evaluated before, with at least one other event in between
				other := false
				for m := prev + 1; m < n; m++ {
					if c.Events[m].Kind == "eval" && (c.Events[m].K != ev.K || fmt.Sprint(c.Events[m].Args) != fmt.Sprint(ev.Args)) {
						other = true
					}
				}
				if other && (fn.prog.Class == "lazy-const" || fn.prog.Class == "spare-const" || strings.HasPrefix(fn.prog.Class, "opaque:lazy") || fn.prog.Class == "opaque:append-both" ||
					strings.HasPrefix(fn.prog.Class, "mixed:mixed-spare") || strings.HasPrefix(fn.prog.Class, "mixed:mixed-lazy") || strings.HasPrefix(fn.prog.Class, "mixed:mixed-lol")) {
					res.nontriv = true
				}
			}
			lastSeen[key] = n
		}
	}
	for _, f := range pending {
		f()
	}
	for _, f := range held {
		f()
	}
	// the argument objects of the pool must show at the end what a fresh object of their kind shows
	for _, mk := range pooledOrder {
		if now := c10Render(pooled[mk]); now != pooledSnap[mk] && res.argViol == nil {
			res.argViol = &GoViolation{CaseID: c.ID, What: "an argument object of the session's pool (made by " + mk + ", handed to several evaluations) shows different content at the end of the session",
				Sig: "argument-changed", Expected: pooledSnap[mk], Observed: now, Human: map[string]any{"program": mk}}
		}
	}
	return res
}

func c10RepClass(r c10Rep) string {
	switch {
	case !r.Present:
		return "lazy (not materialised)"
	case r.Cap > r.Len:
		return "materialised with spare capacity"
	}
	return "materialised, cap=len (frozen)"
}

func c10RepsCoq(reps []c10Rep) string {
	ss := make([]string, len(reps))
	for i, r := range reps {
		ss[i] = r.coq()
	}
	return "[" + strings.Join(ss, "; ") + "]"
}

func c10Describe(c *c10Case, res *c10Result) map[string]any {
	var lines []string
	progOf := map[int]*c10Prog{}
	for n, ev := range c.Events {
		if ev.Kind == "gen" {
			progOf[ev.K] = ev.Prog
			la := ""
			if ev.Prog.ListArg != "" {
				la = "   [l = ONE list object per session, made by evaluating " + ev.Prog.ListArg + " on this generator, passed to every evaluation]"
			}
			lines = append(lines, fmt.Sprintf("%d: f%d := Generate(%q, %s)%s", n, ev.K, ev.Prog.Src, strings.Join(ev.Prog.Args, ", "), la))
		} else {
			o := ""
			if res != nil && n < len(res.outs) {
				o = " -> " + res.outs[n].String()
			}
			when := ""
			if ev.Defer {
				when = " (a list result is consumed only after the next evaluation)"
			}
			objs := ""
			if pr := progOf[ev.K]; pr != nil && len(pr.ObjPool) > 0 {
				for i, mk := range pr.objMakers(ev.Args) {
					objs += fmt.Sprintf(" o%d=pool[%s]", i, mk)
				}
			}
			lines = append(lines, fmt.Sprintf("%d: f%d.Eval(%v%s), host consumes %d%s%s", n, ev.K, ev.Args, objs, ev.J, when, o))
		}
	}
	sig := "history-dependent/session"
	for _, ev := range c.Events {
		if ev.Kind == "gen" {
			sig = "history-dependent/" + ev.Prog.Class
			break
		}
	}
	return map[string]any{"session": lines, "repro": c, "signature": sig}
}

func cmdC10(seed int64, tier, outDir string) {
	sum := NewSummary("C10", seed, tier)
	sum.Rule = "a session = one generator, <= 50 events (Generate calls of pool/random programs, evaluations with arguments from {0,1,2,3,5,-1}^2, list results consumed 0/1/2/all); non-trivial = some (function, arguments, consumption) is evaluated >= 2 times with >= 1 different evaluation in between and the program has a lazy or appendable (spare capacity) list constant; distinct by the text of the session"
	evalCap, appCap := c10MeasureCaps(80)
	cw := NewCaseWriter(outDir, "From P2 Require Import Base.Prelude Heap.ListHeap Heap.MapHeap Heap.FuncState Heap.MapState Heap.MixState Run.C10Run.",
		"c10_case", "c10_id", "(c10_im go_caps)", "c10_is", 40)
	cw.prelude = fmt.Sprintf("Definition go_caps := caps_of_tables %s %s.\n", c10NatList(evalCap), c10NatList(appCap))
	sum.Extra["go_append_capacities"] = map[string]any{"eval_loop": evalCap[:20], "append_to_full": appCap[:20]}

	pool := c10FullPool()
	var cases []*c10Case
	if optReplay != "" {
		var c c10Case
		if err := json.Unmarshal(loadReplayCase(), &c); err != nil {
			fatal("c10: replay case: %v", err)
		}
		cases = []*c10Case{&c}
	} else {
		cases = c10CorpusSessions(pool, 1)
		r := NewRng(seed)
		n := 260
		maxLen := 30
		if tier == "thorough" {
			n, maxLen = 8000, 50
		}
		n *= optBoost
		for i := 0; i < n; i++ {
			ml := maxLen
			if i%10 == 0 {
				ml = 50
			}
			cases = append(cases, c10RandomSession(r, len(cases)+1, pool, ml))
		}
	}
	var viols []GoViolation
	for _, c := range cases {
		res := c10RunSession(c, sum)
		sum.Evaluations += res.evals
		sum.Count("session_length", bucket(len(c.Events)))
		d := c10Describe(c, res)
		text, _ := json.Marshal(d["session"])
		if res.nontriv {
			sum.Nontriv(string(text))
		}
		sum.Cases[fmt.Sprint(c.ID)] = d
		for _, v := range []*GoViolation{res.viol, res.argViol} {
			if v != nil {
				v.Human["session"] = d["session"]
				v.Human["repro"] = c
				viols = append(viols, *v)
			}
		}
		sum.Sample(d["session"])
		var xcases []string
		for _, k := range res.xorder {
			xcases = append(xcases, fmt.Sprintf("XCase %s [%s]", res.xprogs[k], strings.Join(res.xevals[k], "; ")))
		}
		cw.Add(fmt.Sprintf("(%d, [%s],\n  [%s],\n  [%s],\n  [%s])", c.ID, strings.Join(res.coqEvents, "; "), strings.Join(res.coqObs, "; "), strings.Join(res.mcases, "; "), strings.Join(xcases, ";\n   ")))
	}
	sort.SliceStable(viols, func(i, j int) bool {
		return len(fmt.Sprint(viols[i].Human["session"])) < len(fmt.Sprint(viols[j].Human["session"]))
	})
	sum.GoViolations = viols
	sum.Extra["sessions"] = len(cases)
	sum.Extra["fresh_generator_oracle_evaluations"] = len(c10OracleCache)
	cw.Flush()
	sum.CaseFiles = cw.files
	sum.Write(outDir)
	fmt.Fprintf(os.Stderr, "c10: %d sessions, %d evaluations, %d non-trivial, %d oracle disagreements\n", len(cases), sum.Evaluations, sum.Nontrivial, len(viols))
}
