package main

// C06 - lazy list pipelines give the sequential result under every parallel schedule.
//
// `p2h c06` (driver) generates pipelines, builds a race-detector worker (`go build -race -tags verif` of this
// same package), runs it under GOMAXPROCS in {1,2,4,16} (parallel library path, switch forced by a sleeping
// host function) and under `taskset -c k` (runtime.NumCPU()==1: the library's sequential path), compares with
// a plain Go reference fold, and writes the observations as Coq cases for Run/C06Run.v.
// `p2h c06worker` is the worker: it evaluates cases from a file with the real library.

import (
	"bufio"
	"bytes"
	"encoding/json"
	"fmt"
	"os"
	"os/exec"
	"path/filepath"
	"regexp"
	"runtime"
	"sort"
	"strconv"
	"strings"
	"sync"
	"sync/atomic"
	"time"

	"github.com/hneemann/parser2/funcGen"
	"github.com/hneemann/parser2/value"
)

func init() {
	register("c06", cmdC06)
	register("c06worker", cmdC06Worker)
}

// ---------------------------------------------------------------- pipelines

type C6Stage struct {
	Kind  string `json:"kind"`
	ID    int    `json:"id"`  // host-function id of the stage's closure(s)
	ID2   int    `json:"id2"` // id of the closure in the other list (cross/merge/concat) or second closure
	A     int64  `json:"a"`
	B     int64  `json:"b"`
	A2    int64  `json:"a2"`
	B2    int64  `json:"b2"`
	K     int64  `json:"k"`
	Fail  int64  `json:"fail"` // the host function fails on this value; -1 never
	Cost  string `json:"cost"` // none | front (first 13 calls sleep 300us: forces the switch) | all | late (calls >= 13 sleep: switch forbidden)
	OLen  int64  `json:"olen"`
	ONum  bool   `json:"onum"`
	OA    int64  `json:"oa"`
	OB    int64  `json:"ob"`
	Cost2 string `json:"cost2"`
	// cross/merge/concat: lazy stages applied to numbers(OLen)[.number(..)] - the other operand is a PIPELINE
	Sub []C6Stage `json:"sub,omitempty"`
	// nest: the mapped closure builds numbers(OLen).map(y->y+k).<Sub[0]> per item and consumes it by NC (index J, first, size, sum, reduce)
	// reent: let b=numbers(OLen).number(..); the stage indexes b[J]; terminal index: PIPELINE[J]
	NC string `json:"nc,omitempty"`
	J  int64  `json:"j,omitempty"`
}

type C6Case struct {
	ID     int       `json:"id"`
	N      int64     `json:"n"`
	Stages []C6Stage `json:"stages"`
	Term   C6Stage   `json:"term"`
	Procs  int       `json:"procs"` // GOMAXPROCS of the parallel run
	Seed   int64     `json:"seed"`  // seed of the model's schedule
	Lazy   bool      `json:"lazy,omitempty"` // the lazy family (c06lazy.go): map/accept/number stages in front of a short-circuit consumer
}

var c6StageKinds = []string{"map", "accept", "combine", "combine3", "combineN", "iir", "iirCombine", "number", "compact", "cross", "merge", "top", "skip", "fsm", "concat"}
// list-valued elements that ESCAPE from a stage's closure and are read by a map behind it (which may run on workers)
var c6EscKinds = []string{"escCombineN", "escCombineNLazy", "escCombine", "escCross", "escGroup"}
var c6NestInner = []string{"number", "combine", "combine3", "combineN", "iir", "iirCombine", "compact", "cross", "merge"}
var c6NestCons = []string{"index", "first", "size", "sum", "reduce"}

func c6IsPar(kind string) bool { // stages whose (last) closure runs through MapAuto/FilterAuto
	return kind == "map" || kind == "accept" || kind == "nest" || strings.HasPrefix(kind, "esc")
}

// the host-function id whose goroutine set shows the switch of a parallel stage
func (s C6Stage) parID() int {
	if s.Kind == "nest" {
		return s.Sub[0].ID
	}
	return s.ID
}

var c6SelfKinds = []string{"crossSelf", "mergeSelf", "concatSelf"} // let m = <pipeline so far>; m.cross(m,..) | m.merge(m,..) | (m+m)
var c6TermKinds = []string{"index", "twice", "reduce", "mapReduce", "sum", "size", "string", "first", "last", "minMax", "visit", "order", "orderRev", "groupByInt", "groupByString", "groupByEqual", "multiUse"}

func c6Coq(kind string) string {
	return strings.ToUpper(kind[:1]) + kind[1:]
}

// the Coq constructor term of a stage kind
func (s C6Stage) coqKind() string {
	switch {
	case strings.HasPrefix(s.Kind, "esc"):
		return "(KEsc E" + s.Kind[3:] + ")"
	case s.Kind == "nest":
		return fmt.Sprintf("(KNest K%s NC%s %s %s)", c6Coq(s.Sub[0].Kind), c6Coq(s.NC), c06CoqZ(s.OLen), c06CoqZ(s.J))
	case s.Kind == "reent":
		return fmt.Sprintf("(KReent %s %s)", c06CoqZ(s.OLen), c06CoqZ(s.J))
	case s.Kind == "index":
		return fmt.Sprintf("(TIndex %s)", c06CoqZ(s.J))
	}
	return "K" + c6Coq(s.Kind)
}

func lin1s(s C6Stage, a, b int64, x string) string {
	return fmt.Sprintf("(%d*%s+%d)%%1009", a, x, b)
}
func lin2s(a, b int64, p, q string) string { return fmt.Sprintf("(%d*%s+%s+%d)%%1009", a, p, q, b) }
func lin3s(a, b int64, p, q, r string) string {
	return fmt.Sprintf("(%d*%s+%s+2*%s+%d)%%1009", a, p, q, r, b)
}

func (s C6Stage) other() string {
	t := fmt.Sprintf("numbers(%d)", s.OLen)
	if s.ONum {
		t = fmt.Sprintf("numbers(%d).number((i,e)->h(%d,%s))", s.OLen, s.ID2, lin2s(s.OA, s.OB, "i", "e"))
	}
	for _, u := range s.Sub {
		t = u.render(t)
	}
	return t
}

// every stage of the case including the stages of the other operands' pipelines
func c6Walk(stages []C6Stage, f func(s *C6Stage, depth int)) { c6walk(stages, 0, f) }
func c6walk(stages []C6Stage, d int, f func(s *C6Stage, depth int)) {
	for i := range stages {
		f(&stages[i], d)
		c6walk(stages[i].Sub, d+1, f)
	}
}

func (s C6Stage) render(prev string) string {
	h := func(e string) string { return fmt.Sprintf("h(%d,%s)", s.ID, e) }
	switch s.Kind {
	case "map":
		return prev + ".map(x->" + h(lin1s(s, s.A, s.B, "x")) + ")"
	case "accept":
		return prev + fmt.Sprintf(".accept(x->%s%%%d!=0)", h(lin1s(s, s.A, s.B, "x")), s.K)
	case "combine":
		return prev + ".combine((p,q)->" + h(lin2s(s.A, s.B, "p", "q")) + ")"
	case "combine3":
		return prev + ".combine3((p,q,r)->" + h(lin3s(s.A, s.B, "p", "q", "r")) + ")"
	case "combineN":
		return prev + fmt.Sprintf(".combineN(%d,l->%s)", s.K, h(lin1s(s, s.A, s.B, "l.sum()")))
	case "iir":
		return prev + ".iir(x->" + h(lin1s(s, s.A, s.B, "x")) + ",(x,l)->" + h(lin2s(s.A2, s.B2, "x", "l")) + ")"
	case "iirCombine":
		return prev + ".iirCombine(x->" + h(lin1s(s, s.A, s.B, "x")) + ",(p,q,l)->" + h(lin3s(s.A2, s.B2, "p", "q", "l")) + ")"
	case "number":
		return prev + ".number((i,e)->" + h(lin2s(s.A, s.B, "i", "e")) + ")"
	case "compact":
		return prev + fmt.Sprintf(".compact((p,q)->%s=q%%%d)", h(fmt.Sprintf("p%%%d", s.K)), s.K)
	case "cross":
		return prev + ".cross(" + s.other() + ",(p,q)->" + h(lin2s(s.A, s.B, "p", "q")) + ")"
	case "merge":
		return prev + ".merge(" + s.other() + ",(p,q)->" + h("p") + "<q)"
	case "top":
		return prev + fmt.Sprintf(".top(%d)", s.K)
	case "skip":
		return prev + fmt.Sprintf(".skip(%d)", s.K)
	case "fsm":
		return prev + fmt.Sprintf(".fsm((s,i)->goto(%s)).map(s->h(%d,s.state))", h(fmt.Sprintf("(%d*s.state+i+%d)%%7", s.A, s.B)), s.ID2)
	case "concat":
		return "(" + prev + "+" + s.other() + ")"
	case "escCombineN":
		return prev + fmt.Sprintf(".combineN(%d,g->g).map(g->%s)", s.K, h(lin2s(s.A, s.B, "g[0]", fmt.Sprintf("g[%d]", s.K-1))))
	case "escCombineNLazy":
		return prev + fmt.Sprintf(".combineN(%d,g->g.map(x->x+1)).map(g->%s)", s.K, h(lin1s(s, s.A, s.B, "g.sum()")))
	case "escCombine":
		return prev + ".combine((p,q)->[p,q]).map(g->" + h(lin2s(s.A, s.B, "g[0]", "g[1]")) + ")"
	case "escCross":
		return prev + ".cross(" + s.other() + ",(p,q)->[p,q]).map(g->" + h(lin2s(s.A, s.B, "g[0]", "g[1]")) + ")"
	case "escGroup":
		return prev + fmt.Sprintf(".groupByEqual(x->x%%%d).map(m->%s)", s.K, h(lin2s(s.A, s.B, "m.key", "m.values.sum()")))
	case "nest":
		inner := s.Sub[0].render(fmt.Sprintf("numbers(%d).map(y->y+k)", s.OLen))
		switch s.NC {
		case "index":
			inner += fmt.Sprintf("[%d]", s.J)
		case "reduce":
			inner += ".reduce((s,v)->(s+v)%1009)"
		default:
			inner += "." + s.NC + "()"
		}
		return prev + ".map(k->" + inner + ")"
	case "reent": // b<ID> is let-bound in front of the program
		return prev + ".number((i,x)->" + h(fmt.Sprintf("(b%d[%d]+%d*i+x+%d)%%1009", s.ID, s.J, s.A, s.B)) + ")"
	case "index":
		return prev + fmt.Sprintf("[%d]", s.J)
	case "crossSelf": // prev is the let-bound name
		return prev + ".cross(" + prev + ",(p,q)->" + h(lin2s(s.A, s.B, "p", "q")) + ")"
	case "mergeSelf":
		return prev + ".merge(" + prev + ",(p,q)->" + h("p") + "<q)"
	case "concatSelf":
		return "(" + prev + "+" + prev + ")"
	case "twice": // prev is the let-bound name: three traversals of the same lazy list value
		return fmt.Sprintf("[%s.sum(),%s.mapReduce(%d,(s,v)->%s),%s.size()]", prev, prev, s.K, h(lin2s(s.A, s.B, "s", "v")), prev)
	// terminals
	case "reduce":
		return prev + ".reduce((s,v)->" + h(lin2s(s.A, s.B, "s", "v")) + ")"
	case "mapReduce":
		return prev + fmt.Sprintf(".mapReduce(%d,(s,v)->%s)", s.K, h(lin2s(s.A, s.B, "s", "v")))
	case "visit":
		return prev + fmt.Sprintf(".visit(%d,(s,v)->%s)", s.K, h(lin2s(s.A, s.B, "s", "v")))
	case "sum", "size", "string", "first", "last":
		return prev + "." + s.Kind + "()"
	case "lzFirst", "lzTop", "lzPresent", "lzIndexWhere", "lzSingle":
		return s.renderLazyCons(prev)
	case "minMax":
		return prev + ".minMax(x->" + h(lin1s(s, s.A, s.B, "x")) + ")"
	case "order", "orderRev":
		return prev + "." + s.Kind + "(x->" + h("x") + ")"
	case "groupByInt", "groupByEqual":
		return prev + fmt.Sprintf(".%s(x->%s%%%d)", s.Kind, h("x"), s.K)
	case "groupByString":
		return prev + fmt.Sprintf(".groupByString(x->string(%s%%%d))", h("x"), s.K)
	case "multiUse":
		// NC = the shape of consumer b's result: a scalar, its lazy list, a list literal holding the lazy list (alone or behind
		// a string), a map holding a list literal holding the lazy list - runConsumer has to force all of them before it reports done
		nl := fmt.Sprintf("l.number((i,e)->h(%d,%s))", s.ID, lin2s(s.A2, s.B2, "i", "e"))
		b := nl + ".sum()"
		switch s.NC {
		case "lazy":
			b = nl
		case "listlit":
			b = "[" + nl + "]"
		case "taglist":
			b = "[\"odd\"," + nl + "]"
		case "maplist":
			b = "{r:[" + nl + "]}"
		}
		return prev + fmt.Sprintf(".multiUse({a:l->l.reduce((s,v)->%s),b:l->%s})", h(lin2s(s.A, s.B, "s", "v")), b)
	}
	panic("unknown stage kind " + s.Kind)
}

func c6IsSelf(kind string) bool {
	return kind == "crossSelf" || kind == "mergeSelf" || kind == "concatSelf" || kind == "twice"
}

func (c *C6Case) Text() string {
	lets := ""
	t := fmt.Sprintf("numbers(%d)", c.N)
	step := func(i int, s C6Stage) {
		if s.Kind == "reent" {
			lets += fmt.Sprintf("let b%d=numbers(%d).number((i,y)->h(%d,%s));", s.ID, s.OLen, s.ID2, lin2s(s.A2, s.B2, "i", "y"))
		}
		if c6IsSelf(s.Kind) {
			name := fmt.Sprintf("m%d", i)
			lets += "let " + name + "=" + t + ";"
			t = name
		}
		t = s.render(t)
	}
	for i, s := range c.Stages {
		step(i, s)
	}
	step(len(c.Stages), c.Term)
	return lets + t
}

func c6Calls(kind string, s C6Stage) bool { // does the stage call a closure on the stack it was handed?
	switch kind {
	case "map", "accept", "top", "skip", "sum", "size", "string", "first", "last", "multiUse", "concatSelf", "nest", "index", "lzFirst", "lzTop", "lzSingle":
		return false
	case "concat":
		return s.ONum
	}
	return true
}

// ---------------------------------------------------------------- plain Go reference (sequential fold)

type c6fail struct{}

func c6h(fail, v int64) int64 {
	if v == fail {
		panic(c6fail{})
	}
	return v
}
func l1(a, b, x int64) int64       { return (a*x + b) % 1009 }
func l2(a, b, p, q int64) int64    { return (a*p + q + b) % 1009 }
func l3(a, b, p, q, r int64) int64 { return (a*p + q + 2*r + b) % 1009 }

func c6Numbers(n int64) []int64 {
	r := make([]int64, 0, n)
	for i := int64(0); i < n; i++ {
		r = append(r, i)
	}
	return r
}

func (s C6Stage) otherRef() []int64 {
	o := c6Numbers(s.OLen)
	if s.ONum {
		for i := range o {
			o[i] = l2(s.OA, s.OB, int64(i), o[i])
		}
	}
	for _, u := range s.Sub {
		o = u.ref(o)
	}
	return o
}

func (s C6Stage) ref(l []int64) []int64 {
	h := func(v int64) int64 { return c6h(s.Fail, v) }
	out := []int64{}
	switch s.Kind {
	case "map":
		for _, x := range l {
			out = append(out, h(l1(s.A, s.B, x)))
		}
	case "accept":
		for _, x := range l {
			if h(l1(s.A, s.B, x))%s.K != 0 {
				out = append(out, x)
			}
		}
	case "combine":
		for i := 0; i+1 < len(l); i++ {
			out = append(out, h(l2(s.A, s.B, l[i], l[i+1])))
		}
	case "combine3":
		for i := 0; i+2 < len(l); i++ {
			out = append(out, h(l3(s.A, s.B, l[i], l[i+1], l[i+2])))
		}
	case "combineN":
		n := int(s.K)
		for i := 0; i+n <= len(l); i++ {
			sum := int64(0)
			for _, v := range l[i : i+n] {
				sum += v
			}
			out = append(out, h(l1(s.A, s.B, sum)))
		}
	case "iir", "iirCombine":
		var last int64
		for i, x := range l {
			if i == 0 {
				last = h(l1(s.A, s.B, x))
			} else if s.Kind == "iir" {
				last = h(l2(s.A2, s.B2, x, last))
			} else {
				last = h(l3(s.A2, s.B2, l[i-1], x, last))
			}
			out = append(out, last)
		}
	case "number":
		for i, x := range l {
			out = append(out, h(l2(s.A, s.B, int64(i), x)))
		}
	case "compact":
		var lp int64
		for i, v := range l {
			if i == 0 {
				lp = v
				out = append(out, v)
			} else if h(lp%s.K) != v%s.K {
				lp = v
				out = append(out, v)
			}
		}
	case "cross", "crossSelf":
		o := l
		if s.Kind == "cross" {
			o = s.otherRef()
		}
		for _, x := range l {
			for _, y := range o {
				out = append(out, h(l2(s.A, s.B, x, y)))
			}
		}
	case "merge", "mergeSelf":
		o := l
		if s.Kind == "merge" {
			o = s.otherRef()
		}
		i, j := 0, 0
		for i < len(l) && j < len(o) {
			if h(l[i]) < o[j] {
				out = append(out, l[i])
				i++
			} else {
				out = append(out, o[j])
				j++
			}
		}
		out = append(out, l[i:]...)
		out = append(out, o[j:]...)
	case "top":
		k := int(s.K)
		if k > len(l) {
			k = len(l)
		}
		out = append(out, l[:k]...)
	case "skip":
		k := int(s.K)
		if k > len(l) {
			k = len(l)
		}
		out = append(out, l[k:]...)
	case "fsm":
		st := int64(0)
		for _, x := range l {
			st = h((s.A*st + x + s.B) % 7)
			out = append(out, st)
		}
	case "concat":
		out = append(append(out, l...), s.otherRef()...)
	case "concatSelf":
		out = append(append(out, l...), l...)
	case "escCombineN", "escCombineNLazy":
		n := int(s.K)
		for i := 0; i+n <= len(l); i++ {
			w := l[i : i+n]
			if s.Kind == "escCombineN" {
				out = append(out, h(l2(s.A, s.B, w[0], w[n-1])))
			} else {
				sum := int64(n)
				for _, v := range w {
					sum += v
				}
				out = append(out, h(l1(s.A, s.B, sum)))
			}
		}
	case "escCombine":
		for i := 0; i+1 < len(l); i++ {
			out = append(out, h(l2(s.A, s.B, l[i], l[i+1])))
		}
	case "escCross":
		o := s.otherRef()
		for _, x := range l {
			for _, y := range o {
				out = append(out, h(l2(s.A, s.B, x, y)))
			}
		}
	case "escGroup": // groupByEqual: groups in the order of first appearance of their key
		var keys []int64
		sums := map[int64]int64{}
		for _, x := range l {
			k := x % s.K
			if _, ok := sums[k]; !ok {
				keys = append(keys, k)
			}
			sums[k] += x
		}
		for _, k := range keys {
			out = append(out, h(l2(s.A, s.B, k, sums[k])))
		}
	case "nest":
		for _, k := range l {
			in := c6Numbers(s.OLen)
			for i := range in {
				in[i] += k
			}
			in = s.Sub[0].ref(in)
			switch s.NC {
			case "index":
				if int(s.J) >= len(in) {
					panic(c6fail{})
				}
				out = append(out, in[s.J])
			case "first":
				if len(in) == 0 {
					panic(c6fail{})
				}
				out = append(out, in[0])
			case "size":
				out = append(out, int64(len(in)))
			case "sum", "reduce":
				if len(in) == 0 {
					panic(c6fail{})
				}
				sum := in[0]
				for _, v := range in[1:] {
					if s.NC == "reduce" {
						sum = (sum + v) % 1009
					} else {
						sum += v
					}
				}
				out = append(out, sum)
			}
		}
	case "reent":
		if len(l) > 0 && s.J >= s.OLen {
			panic(c6fail{})
		}
		c := l2(s.A2, s.B2, s.J, s.J)
		for i, x := range l {
			out = append(out, h((c+s.A*int64(i)+x+s.B)%1009))
		}
	default:
		panic("ref: unknown stage " + s.Kind)
	}
	return out
}

func (s C6Stage) refTerm(l []int64) []int64 {
	h := func(v int64) int64 { return c6h(s.Fail, v) }
	fold := func(init int64, xs []int64) int64 {
		for _, v := range xs {
			init = h(l2(s.A, s.B, init, v))
		}
		return init
	}
	switch s.Kind {
	case "reduce":
		if len(l) == 0 {
			panic(c6fail{})
		}
		return []int64{fold(l[0], l[1:])}
	case "index":
		if int(s.J) >= len(l) {
			panic(c6fail{})
		}
		return []int64{l[s.J]}
	case "mapReduce", "visit":
		return []int64{fold(s.K, l)}
	case "twice":
		if len(l) == 0 {
			panic(c6fail{})
		}
		sum := int64(0)
		for _, v := range l {
			sum += v
		}
		return []int64{sum, fold(s.K, l), int64(len(l))}
	case "sum":
		if len(l) == 0 {
			panic(c6fail{})
		}
		sum := int64(0)
		for _, v := range l {
			sum += v
		}
		return []int64{sum}
	case "size":
		return []int64{int64(len(l))}
	case "string":
		return append([]int64{}, l...)
	case "first":
		if len(l) == 0 {
			panic(c6fail{})
		}
		return []int64{l[0]}
	case "last":
		if len(l) == 0 {
			panic(c6fail{})
		}
		return []int64{l[len(l)-1]}
	case "minMax":
		if len(l) == 0 {
			return []int64{0, 0, 0, 0, 0}
		}
		var mn, mx, mni, mxi int64
		for i, x := range l {
			k := h(l1(s.A, s.B, x))
			if i == 0 {
				mn, mx, mni, mxi = k, k, x, x
				continue
			}
			if k < mn {
				mn, mni = k, x
			}
			if mx < k {
				mx, mxi = k, x
			}
		}
		return []int64{mn, mx, mni, mxi, 1}
	case "order", "orderRev":
		out := append([]int64{}, l...)
		if len(l) >= 2 {
			for _, x := range l {
				h(x)
			}
		}
		sort.Slice(out, func(i, j int) bool {
			if s.Kind == "order" {
				return out[i] < out[j]
			}
			return out[i] > out[j]
		})
		return out
	case "groupByInt", "groupByString", "groupByEqual":
		g := map[int64][]int64{}
		for _, x := range l {
			k := h(x) % s.K
			g[k] = append(g[k], x)
		}
		out := []int64{}
		for k := int64(0); k < s.K; k++ {
			if len(g[k]) > 0 {
				out = append(out, k, int64(len(g[k])))
				out = append(out, g[k]...)
			}
		}
		return out
	case "multiUse":
		if len(l) == 0 {
			panic(c6fail{})
		}
		a := fold(l[0], l[1:])
		b := int64(0)
		for i, e := range l {
			b += h(l2(s.A2, s.B2, int64(i), e))
		}
		return []int64{a, b}
	}
	panic("ref: unknown terminal " + s.Kind)
}

// Ref: the strictly sequential result; ok=false means "evaluation fails"
func (c *C6Case) Ref() (obs []int64, ok bool) {
	defer func() {
		if r := recover(); r != nil {
			if _, is := r.(c6fail); is {
				obs, ok = nil, false
				return
			}
			panic(r)
		}
	}()
	l := c6Numbers(c.N)
	for _, s := range c.Stages {
		l = s.ref(l)
	}
	return c.Term.refTerm(l), true
}

// ---------------------------------------------------------------- Coq terms

func c06CoqZ(v int64) string {
	if v < 0 {
		return fmt.Sprintf("(%d)%%Z", v)
	}
	return fmt.Sprintf("%d%%Z", v)
}

func (s C6Stage) coqSP(sw bool, seed int64) string {
	return fmt.Sprintf("(mkSP %s %s %s %s %s %s %s %d%%N %s %s %s %s)", c06CoqZ(s.A), c06CoqZ(s.B), c06CoqZ(s.A2), c06CoqZ(s.B2), c06CoqZ(s.K), c06CoqZ(s.Fail),
		CoqBool(sw), seed, c06CoqZ(s.OLen), CoqBool(s.ONum), c06CoqZ(s.OA), c06CoqZ(s.OB))
}

func c06CoqObs(obs []int64, ok bool) string {
	if !ok {
		return "None"
	}
	xs := make([]string, len(obs))
	for i, v := range obs {
		xs[i] = c06CoqZ(v)
	}
	return "(Some " + CoqList(xs) + ")"
}

func (c *C6Case) coq(id int, ncpu int, switched map[int]bool, obs []int64, ok bool) string {
	var one func(s C6Stage) string
	one = func(s C6Stage) string {
		var sub []string
		for _, u := range s.Sub {
			sub = append(sub, one(u))
		}
		if s.Kind == "nest" { // the parameters of the inner stage; the switch is seen on the inner closure's goroutines
			in := s.Sub[0]
			in.Fail = -1
			return fmt.Sprintf("(PS %s %s [])", s.coqKind(), in.coqSP(switched[in.ID], c.Seed+int64(s.ID)))
		}
		return fmt.Sprintf("(PS %s %s %s)", s.coqKind(), s.coqSP(switched[s.ID], c.Seed+int64(s.ID)), CoqList(sub))
	}
	var st []string
	for _, s := range c.Stages {
		st = append(st, one(s))
	}
	return fmt.Sprintf("(%d%%N, (%d%%N, %s, %s, %s, %s), %s)", id, ncpu, c06CoqZ(c.N), CoqList(st), c.Term.coqTermKind(), c.Term.coqSP(false, 0), c06CoqObs(obs, ok))
}

func (s C6Stage) coqTermKind() string {
	if s.Kind == "index" {
		return s.coqKind()
	}
	return "T" + c6Coq(s.Kind)
}

// ---------------------------------------------------------------- worker

type c6HostStage struct {
	cost  string
	fail  int64
	calls int64
	mu    sync.Mutex
	gids  map[int64]bool
}

type c6Host struct{ st [256]*c6HostStage }

var c6host atomic.Pointer[c6Host]

var gidRe = regexp.MustCompile(`^goroutine (\d+) `)

func curGid() int64 {
	var buf [64]byte
	n := runtime.Stack(buf[:], false)
	m := gidRe.FindSubmatch(buf[:n])
	if m == nil {
		return -1
	}
	g, _ := strconv.ParseInt(string(m[1]), 10, 64)
	return g
}

// h(id, v): per-stage cost profile, goroutine bookkeeping, optional failure. The synchronisation objects are per
// stage id, so that no happens-before edge is added between closures of DIFFERENT stages (which would hide races).
func c6HostFunc(st funcGen.Stack[value.Value], cs []value.Value) (value.Value, error) {
	id, ok1 := st.Get(0).(value.Int)
	v, ok2 := st.Get(1).(value.Int)
	if !ok1 || !ok2 {
		return nil, fmt.Errorf("h: int arguments required, got %v %v", st.Get(0), st.Get(1))
	}
	if id < 0 || int(id) >= 256 || c6host.Load().st[int(id)] == nil {
		// only reachable when the arguments were corrupted (the stack slots were overwritten by another goroutine)
		return nil, fmt.Errorf("h: unknown stage id %d", id)
	}
	hs := c6host.Load().st[int(id)]
	n := atomic.AddInt64(&hs.calls, 1) - 1
	slow := false
	switch hs.cost {
	case "front":
		slow = n < 13
	case "all":
		slow = true
	case "late":
		slow = n >= 13
	}
	if slow {
		time.Sleep(300 * time.Microsecond)
	}
	g := curGid()
	hs.mu.Lock()
	hs.gids[g] = true
	hs.mu.Unlock()
	if int64(v) == hs.fail {
		return nil, fmt.Errorf("h(%d): failing element %d", id, v)
	}
	return v, nil
}

type C6Result struct {
	ID    int         `json:"id"`
	OK    bool        `json:"ok"`
	Obs   []int64     `json:"obs"`
	Err   string      `json:"err,omitempty"`
	Gids  map[int]int `json:"gids"` // stage id -> number of distinct goroutines that ran its closure
	Ms    float64     `json:"ms"`
	NCPU  int         `json:"ncpu"`
	Procs int         `json:"procs"`
	Hang  bool        `json:"hang,omitempty"`
	Skip  bool        `json:"skip,omitempty"`
	Crash bool        `json:"crash,omitempty"`
}

var intRe = regexp.MustCompile(`-?\d+`)

func c6Ints(v value.Value) ([]int64, error) {
	st := funcGen.NewEmptyStack[value.Value]()
	switch x := v.(type) {
	case value.Int:
		return []int64{int64(x)}, nil
	case value.Bool:
		if x {
			return []int64{1}, nil
		}
		return []int64{0}, nil
	case value.String:
		var r []int64
		for _, m := range intRe.FindAllString(string(x), -1) {
			n, _ := strconv.ParseInt(m, 10, 64)
			r = append(r, n)
		}
		return r, nil
	case value.Map:
		r := []int64{}
		var ierr error
		x.Iter(func(k string, e value.Value) bool {
			ev, err := c6Ints(e)
			if err != nil {
				ierr = err
				return false
			}
			r = append(r, ev...)
			return true
		})
		return r, ierr
	case *value.List:
		sl, err := x.ToSlice(st)
		if err != nil {
			return nil, err
		}
		r := []int64{}
		for _, e := range sl {
			ev, err := c6Ints(e)
			if err != nil {
				return nil, err
			}
			r = append(r, ev...)
		}
		return r, nil
	}
	return nil, fmt.Errorf("unexpected value %T", v)
}

func c6Canon(kind string, v value.Value) ([]int64, error) {
	get := func(m value.Map, k string) ([]int64, error) {
		e, ok := m.Get(k)
		if !ok {
			return nil, fmt.Errorf("missing key %s", k)
		}
		return c6Ints(e)
	}
	switch kind {
	case "minMax", "multiUse":
		m, ok := v.ToMap()
		if !ok {
			return nil, fmt.Errorf("map expected")
		}
		keys := []string{"min", "max", "minItem", "maxItem", "valid"}
		if kind == "multiUse" {
			keys = []string{"a", "b"}
		}
		var r []int64
		for _, k := range keys {
			x, err := get(m, k)
			if err != nil {
				return nil, err
			}
			if kind == "multiUse" && k == "b" { // whatever shape consumer b's result has: the sum of the numbers in it
				sum := int64(0)
				for _, v := range x {
					sum += v
				}
				x = []int64{sum}
			}
			r = append(r, x...)
		}
		return r, nil
	case "groupByInt", "groupByString", "groupByEqual":
		l, ok := v.(*value.List)
		if !ok {
			return nil, fmt.Errorf("list expected")
		}
		sl, err := l.ToSlice(funcGen.NewEmptyStack[value.Value]())
		if err != nil {
			return nil, err
		}
		type grp struct {
			k  int64
			vs []int64
		}
		var gs []grp
		for _, e := range sl {
			m, ok := e.ToMap()
			if !ok {
				return nil, fmt.Errorf("group map expected")
			}
			k, err := get(m, "key")
			if err != nil || len(k) != 1 {
				return nil, fmt.Errorf("group key: %v %v", k, err)
			}
			vs, err := get(m, "values")
			if err != nil {
				return nil, err
			}
			gs = append(gs, grp{k[0], vs})
		}
		sort.SliceStable(gs, func(i, j int) bool { return gs[i].k < gs[j].k })
		r := []int64{}
		for _, g := range gs {
			r = append(r, g.k, int64(len(g.vs)))
			r = append(r, g.vs...)
		}
		return r, nil
	}
	return c6Ints(v)
}

func c6Eval(fg *value.FunctionGenerator, c *C6Case) C6Result {
	host := &c6Host{}
	reg := func(id int, cost string, fail int64) {
		if host.st[id] == nil {
			host.st[id] = &c6HostStage{cost: cost, fail: fail, gids: map[int64]bool{}}
		}
	}
	c6Walk(append(append([]C6Stage{}, c.Stages...), c.Term), func(s *C6Stage, _ int) {
		reg(s.ID, s.Cost, s.Fail)
		reg(s.ID2, s.Cost2, -1)
	})
	c6host.Store(host)
	res := C6Result{ID: c.ID, NCPU: runtime.NumCPU(), Procs: runtime.GOMAXPROCS(0), Gids: map[int]int{}}
	t0 := time.Now()
	f, _, err := fg.Generate(c.Text())
	if err != nil {
		res.Err = "generate: " + err.Error()
		return res
	}
	v, err := f(funcGen.NewEmptyStack[value.Value]())
	if err == nil {
		res.Obs, err = c6Canon(c.Term.Kind, v)
	}
	res.Ms = float64(time.Since(t0).Microseconds()) / 1000
	if err != nil {
		res.Err = err.Error()
	} else {
		res.OK = true
		if res.Obs == nil {
			res.Obs = []int64{}
		}
	}
	for id, hs := range host.st {
		if hs != nil {
			hs.mu.Lock()
			res.Gids[id] = len(hs.gids)
			hs.mu.Unlock()
		}
	}
	return res
}

// p2h c06worker --out <dir>: reads <dir>/worker-in.json ({"cases":[...], "from": k}), appends one JSON line per case to stdout
func cmdC06Worker(seed int64, tier, outDir string) {
	muTimeouts := 0
	bs, err := os.ReadFile(outDir)
	if err != nil {
		fatal("worker input: %v", err)
	}
	var cases []C6Case
	if err := json.Unmarshal(bs, &cases); err != nil {
		fatal("worker input: %v", err)
	}
	fg := value.New()
	fg.AddStaticFunction("h", funcGen.Function[value.Value]{Func: c6HostFunc, Args: 2, IsPure: false})
	w := bufio.NewWriter(os.Stdout)
	for i := range cases {
		c := &cases[i]
		fmt.Fprintf(os.Stderr, "@@CASE %d\n", c.ID)
		if c.Term.Kind == "multiUse" && c.Term.NC != "" && muTimeouts >= 2 {
			// every such case costs CopyProducer's 5 s guard once it times out: the family is stopped after two
			line, _ := json.Marshal(C6Result{ID: c.ID, Skip: true, NCPU: runtime.NumCPU(), Procs: runtime.GOMAXPROCS(0), Gids: map[int]int{}})
			w.Write(line)
			w.WriteByte('\n')
			w.Flush()
			continue
		}
		done := make(chan C6Result, 1)
		go func() { done <- c6Eval(fg, c) }()
		var r C6Result
		select {
		case r = <-done:
		case <-time.After(90 * time.Second):
			r = C6Result{ID: c.ID, Hang: true, Err: "no result after 90 s", NCPU: runtime.NumCPU(), Procs: runtime.GOMAXPROCS(0)}
		}
		if c.Term.Kind == "multiUse" && c.Term.NC != "" && strings.Contains(r.Err, "timed out") {
			muTimeouts++
		}
		line, _ := json.Marshal(r)
		w.Write(line)
		w.WriteByte('\n')
		w.Flush()
		if r.Hang {
			os.Exit(3) // the driver restarts after this case
		}
	}
	fmt.Fprintf(os.Stderr, "@@END\n")
}

// ---------------------------------------------------------------- generator

func (r *Rng) c6Cost(par bool) string {
	if par {
		switch x := r.Pick(20); {
		case x < 13:
			return "front"
		case x < 15:
			return "all"
		case x < 17:
			return "late"
		}
		return "none"
	}
	if r.Chance(0.04) {
		return "front"
	}
	return "none"
}

// c6Sub: the other operand of a binary stage as a lazy pipeline of 1..3 stages (depth: how deep binary stages may nest)
func (r *Rng) c6Sub(s *C6Stage, id *int, depth int, maxLen int) {
	if depth <= 0 || !r.Chance(0.7) {
		return
	}
	kinds := []string{"merge", "merge", "cross", "map", "accept", "number", "iir", "iirCombine", "combine", "combine3", "combineN", "compact", "concat", "top", "skip", "fsm"}
	n := 1 + r.Pick(3)
	for i := 0; i < n; i++ {
		k := kinds[r.Pick(len(kinds))]
		u := r.c6StageD(k, id, depth-1)
		if u.Cost == "all" || u.Cost == "late" {
			u.Cost = "front" // the operand of a cross is traversed once per row
		}
		s.Sub = append(s.Sub, u)
	}
	if n := len(s.otherRef()); n > maxLen { // an early-stopping consumer on top of the operand pipeline
		u := r.c6StageD("top", id, 0)
		u.K = int64(1 + r.Pick(maxLen))
		s.Sub = append(s.Sub, u)
	}
}

func (r *Rng) c6Stage(kind string, id *int) C6Stage { return r.c6StageD(kind, id, 2) }

func (r *Rng) c6StageD(kind string, id *int, depth int) C6Stage {
	*id += 2
	s := C6Stage{Kind: kind, ID: *id, ID2: *id + 1, A: int64(1 + r.Pick(9)), B: int64(r.Pick(50)), A2: int64(1 + r.Pick(9)), B2: int64(r.Pick(50)),
		Fail: -1, Cost: "none", Cost2: "none"}
	s.Cost = r.c6Cost(c6IsPar(kind))
	switch kind {
	case "accept":
		s.K = int64([]int{2, 3, 5}[r.Pick(3)])
	case "combineN":
		s.K = int64(1 + r.Pick(4))
	case "compact":
		s.K = int64(2 + r.Pick(4))
	case "top", "skip":
		s.K = int64(r.Pick(40))
		if r.Chance(0.3) {
			s.K = int64(r.Pick(400))
		}
	case "cross":
		s.OLen = int64(r.Pick(4))
		s.ONum = r.Chance(0.6)
		if depth > 0 && r.Chance(0.7) {
			s.OLen = int64(r.Pick(9))
		}
	case "merge":
		s.OLen = int64(r.Pick(60))
		s.ONum = r.Chance(0.7)
	case "concat":
		s.OLen = int64(r.Pick(30))
		s.ONum = r.Chance(0.6)
	case "escCombineN", "escCombineNLazy":
		s.K = int64(1 + r.Pick(4))
	case "escGroup":
		s.K = int64(2 + r.Pick(6))
	case "escCross":
		s.OLen = int64(1 + r.Pick(3))
		s.ONum = r.Chance(0.5)
	case "nest":
		s.OLen = int64(3 + r.Pick(4))
		s.J = int64(r.Pick(3))
		s.NC = c6NestCons[r.Pick(len(c6NestCons))]
		if r.Chance(0.4) {
			s.NC = "index"
		}
		in := r.c6StageD(c6NestInner[r.Pick(len(c6NestInner))], id, 0)
		in.Cost, s.Cost = s.Cost, "none" // the pause sits in the closure of the inner stage
		if in.Kind == "combineN" && in.K > 2 {
			in.K = 2
		}
		if in.Kind == "cross" || in.Kind == "merge" {
			in.OLen = int64(1 + r.Pick(3))
		}
		s.Sub = []C6Stage{in}
	case "reent":
		s.OLen = int64(2 + r.Pick(5))
		s.J = int64(r.Pick(int(s.OLen)))
	case "index":
		s.J = int64(r.Pick(3))
	case "mapReduce", "visit", "twice":
		s.K = int64(r.Pick(100))
	case "groupByInt", "groupByString", "groupByEqual":
		s.K = int64(2 + r.Pick(5))
	}
	s.OA, s.OB = int64(1+r.Pick(5)), int64(r.Pick(20))
	switch kind {
	case "cross":
		r.c6Sub(&s, id, depth, 6)
	case "merge", "concat":
		r.c6Sub(&s, id, depth, 120)
	}
	return s
}

// the reference elements behind stage s at generation time; a stage whose evaluation fails (index out of range in a
// nested list ...) makes the whole pipeline fail, nothing flows on
func c6SafeRef(s C6Stage, l []int64) (out []int64) {
	defer func() {
		if r := recover(); r != nil {
			if _, is := r.(c6fail); !is {
				panic(r)
			}
			out = []int64{}
		}
	}()
	return s.ref(l)
}

// multiUse consumers whose result is a structure holding lazy lists: each costs 5 s when the forcing is broken, so only a few
var c6MuShapes, c6MuShapeMax = 0, 4

// boosted shape: closure-calling stages on both sides of a map/accept whose switch is forced
func (r *Rng) c6Gen(id int, big bool) *C6Case {
	c := &C6Case{ID: id, Seed: int64(r.Intn(1 << 30))}
	switch x := r.Pick(20); {
	case x == 0:
		c.N = int64(r.Pick(13))
	case x < 4:
		c.N = int64(13 + r.Pick(30))
	case x < 17:
		c.N = int64(40 + r.Pick(260))
	default:
		c.N = int64(300 + r.Pick(700))
	}
	if big {
		c.N = int64(1000 + r.Pick(1001))
	}
	ns := 1 + r.Pick(6)
	hid := 0
	callers := []string{"combine", "combine3", "combineN", "iir", "iirCombine", "number", "compact", "fsm", "merge", "cross"}
	cur := c6Numbers(c.N) // the reference elements so far (no stage fails yet): keeps cross products small
	for i := 0; i < ns; i++ {
		var kind string
		switch x := r.Pick(20); {
		case x < 5:
			kind = []string{"map", "accept"}[r.Pick(2)]
		case x < 7:
			kind = c6EscKinds[r.Pick(len(c6EscKinds))]
		case x < 9:
			kind = "nest"
		case x < 13:
			kind = callers[r.Pick(len(callers))]
		case x < 15:
			kind = c6SelfKinds[r.Pick(len(c6SelfKinds))]
		default:
			kind = c6StageKinds[r.Pick(len(c6StageKinds))]
		}
		if kind == "escCross" && len(cur) > 500 {
			kind = "escCombine"
		}
		if (kind == "cross" && len(cur) > 500) || (kind == "crossSelf" && len(cur) > 40) || (c6IsSelf(kind) && len(cur) > 1500) {
			kind = "number"
		}
		s := r.c6Stage(kind, &hid)
		if (big || (kind == "nest" && len(cur) > 60)) && s.Cost == "all" {
			s.Cost = "front"
		}
		if kind == "nest" && s.Sub[0].Cost == "all" && len(cur) > 60 {
			s.Sub[0].Cost = "front"
		}
		cur = c6SafeRef(s, cur)
		c.Stages = append(c.Stages, s)
	}
	tk := c6TermKinds[r.Pick(len(c6TermKinds))]
	if r.Chance(0.35) {
		tk = []string{"reduce", "mapReduce", "visit", "minMax"}[r.Pick(4)]
	}
	if r.Chance(0.06) && len(cur) > 0 && len(cur) < 400 { // the sequential re-entrant index access
		s := r.c6Stage("reent", &hid)
		cur = c6SafeRef(s, cur)
		c.Stages = append(c.Stages, s)
		tk = "index"
	}
	c.Term = r.c6Stage(tk, &hid)
	c.Term.Cost = "none"
	if tk == "multiUse" && c6MuShapes < c6MuShapeMax && r.Chance(0.6) { // consumer b returns a list / a structure holding its lazy list
		c.Term.NC = []string{"lazy", "listlit", "taglist", "maplist"}[r.Pick(4)]
		c6MuShapes++
	}
	// failing element: only where the whole list is consumed (no top / first), see the property's quantifier
	early := tk == "first"
	for _, s := range c.Stages {
		if s.Kind == "nest" { // a failing inner evaluation is an ordinary error of the mapped closure: allowed, but keep the generator simple
			_ = s
		}
	}
	for _, s := range c.Stages {
		if s.Kind == "top" {
			early = true
		}
	}
	if !early && r.Chance(0.12) {
		cand := []*C6Stage{}
		for i := range c.Stages {
			switch c.Stages[i].Kind {
			case "top", "skip", "concat", "concatSelf", "nest":
			default:
				cand = append(cand, &c.Stages[i])
			}
		}
		if tk == "reduce" || tk == "mapReduce" || tk == "visit" || tk == "minMax" || tk == "groupByInt" {
			cand = append(cand, &c.Term)
		}
		if len(cand) > 0 {
			s := cand[r.Pick(len(cand))]
			s.Fail = int64(r.Pick(60))
			if s.Kind == "fsm" {
				s.Fail = int64(r.Pick(7))
			}
		}
	}
	return c
}

func c6Corpus() []*C6Case {
	mk := func(n int64, term C6Stage, st ...C6Stage) *C6Case {
		c := &C6Case{N: n, Term: term, Seed: 7}
		id := 0
		for _, s := range st {
			id += 2
			s.ID, s.ID2 = id, id+1
			if s.Fail == 0 {
				s.Fail = -1
			}
			if s.Cost == "" {
				s.Cost = "none"
			}
			s.Cost2 = "none"
			c.Stages = append(c.Stages, s)
		}
		id += 2
		c.Term.ID, c.Term.ID2 = id, id+1
		if c.Term.Fail == 0 {
			c.Term.Fail = -1
		}
		c.Term.Cost, c.Term.Cost2 = "none", "none"
		return c
	}
	red := C6Stage{Kind: "reduce", A: 1, B: 0}
	num := C6Stage{Kind: "number", A: 1, B: 0}
	slow := C6Stage{Kind: "map", A: 1, B: 0, Cost: "all"}
	front := C6Stage{Kind: "map", A: 3, B: 1, Cost: "front"}
	return []*C6Case{
		// the defect known at the pinned commit: numbers(400).number((i,e)->i+e).map(x->slow(x)).reduce((a,b)->a+b)
		mk(400, red, num, slow),
		mk(400, red, num, front),
		mk(300, C6Stage{Kind: "visit", A: 2, B: 3, K: 5}, C6Stage{Kind: "combine", A: 2, B: 1}, C6Stage{Kind: "accept", A: 1, B: 0, K: 3, Cost: "front"}, C6Stage{Kind: "iir", A: 1, B: 1, A2: 2, B2: 3}),
		// merge needs no timing: both inputs are produced on goroutines of their own
		mk(20, C6Stage{Kind: "string"}, num, C6Stage{Kind: "merge", OLen: 20, ONum: true, OA: 2, OB: 0}),
		mk(200, C6Stage{Kind: "mapReduce", A: 3, B: 1, K: 1}, C6Stage{Kind: "fsm", A: 2, B: 1}, C6Stage{Kind: "merge", OLen: 50, ONum: true, OA: 3, OB: 1}),
		mk(250, red, C6Stage{Kind: "number", A: 2, B: 1}, front, C6Stage{Kind: "number", A: 1, B: 2}, C6Stage{Kind: "accept", A: 1, B: 0, K: 2, Cost: "front"}, C6Stage{Kind: "combine", A: 1, B: 0}),
		// a failing element behind the switch; consumed completely
		mk(200, red, num, C6Stage{Kind: "map", A: 1, B: 0, Cost: "front", Fail: 150}),
		mk(200, C6Stage{Kind: "minMax", A: 1, B: 0}, C6Stage{Kind: "cross", A: 1, B: 0, OLen: 2, ONum: true, OA: 1, OB: 1}, front, C6Stage{Kind: "compact", K: 3}),
		mk(120, C6Stage{Kind: "multiUse", A: 1, B: 0, A2: 1, B2: 1}, num, front),
		mk(0, C6Stage{Kind: "size"}, front),
		// a lazy pipeline as the SECOND list of a cross is traversed once per row: a merge, and stages on top of a merge
		mk(3, C6Stage{Kind: "string"}, C6Stage{Kind: "cross", A: 1000 % 1009, B: 0, OLen: 2, Sub: []C6Stage{{Kind: "merge", ID: 90, ID2: 91, Fail: -1, Cost: "none", Cost2: "none", OLen: 2}}}),
		mk(20, C6Stage{Kind: "size"}, num, C6Stage{Kind: "cross", A: 3, B: 1, OLen: 30, ONum: true, OA: 2, OB: 1, Sub: []C6Stage{
			{Kind: "merge", ID: 90, ID2: 91, Fail: -1, Cost: "none", Cost2: "none", OLen: 30, ONum: true, OA: 1, OB: 3},
			{Kind: "map", ID: 92, ID2: 93, A: 2, B: 1, Fail: -1, Cost: "front", Cost2: "none"},
			{Kind: "top", ID: 94, ID2: 95, K: 25, Fail: -1, Cost: "none", Cost2: "none"}}}),
		// the same lazy list value used more than once
		mk(200, C6Stage{Kind: "twice", A: 2, B: 1, K: 3}, num, front, C6Stage{Kind: "merge", OLen: 40, ONum: true, OA: 2, OB: 1}),
		mk(30, red, num, front, C6Stage{Kind: "crossSelf", A: 2, B: 1}),
		mk(150, C6Stage{Kind: "visit", A: 1, B: 2, K: 4}, num, front, C6Stage{Kind: "mergeSelf"}),
		// a list that escapes from the producing closure is read by a map that runs on workers
		mk(90, C6Stage{Kind: "string"}, C6Stage{Kind: "escCombineN", A: 1000 % 1009, B: 0, K: 3, Cost: "all"}),
		mk(90, C6Stage{Kind: "string"}, C6Stage{Kind: "escCombineN", A: 1, B: 0, K: 1, Cost: "all"}),
		mk(90, red, C6Stage{Kind: "escCombineNLazy", A: 1, B: 0, K: 4, Cost: "front"}),
		mk(120, C6Stage{Kind: "string"}, num, C6Stage{Kind: "escCombine", A: 3, B: 1, Cost: "front"}, C6Stage{Kind: "escGroup", A: 2, B: 1, K: 5, Cost: "none"}),
		// the mapped closure builds a lazy list with a closure stage per item and indexes it (workers: one evaluation context each)
		mk(90, C6Stage{Kind: "string"}, C6Stage{Kind: "nest", OLen: 4, J: 2, NC: "index", Sub: []C6Stage{{Kind: "number", ID: 90, ID2: 91, A: 10, B: 0, Fail: -1, Cost: "all", Cost2: "none"}}}),
		mk(90, C6Stage{Kind: "string"}, C6Stage{Kind: "nest", OLen: 6, J: 3, NC: "index", Sub: []C6Stage{{Kind: "combine", ID: 90, ID2: 91, A: 10, B: 0, Fail: -1, Cost: "all", Cost2: "none"}}}),
		mk(90, red, C6Stage{Kind: "nest", OLen: 5, J: 0, NC: "sum", Sub: []C6Stage{{Kind: "iir", ID: 90, ID2: 91, A: 1, B: 0, A2: 1, B2: 0, Fail: -1, Cost: "front", Cost2: "none"}}}),
		// sequential re-entrant index access: the stage indexes an unevaluated let-bound closure-stage list while it is itself evaluated by an index access
		// multiUse: the consumer's result holds its lazy list inside a list literal / a map of a list literal
		mk(40, C6Stage{Kind: "multiUse", A: 1, B: 0, A2: 1, B2: 1, NC: "listlit"}, num),
		mk(60, C6Stage{Kind: "multiUse", A: 2, B: 1, A2: 1, B2: 2, NC: "maplist"}, num, front),
		mk(3, C6Stage{Kind: "index", J: 0}, C6Stage{Kind: "reent", A: 0, B: 0, A2: 0, B2: 0, OLen: 5, J: 1}),
		mk(40, C6Stage{Kind: "index", J: 7}, num, C6Stage{Kind: "reent", A: 2, B: 1, A2: 3, B2: 2, OLen: 6, J: 4}),
		mk(13, C6Stage{Kind: "string"}, num, front, num),
		// a MERGE result as the direct source of a map/accept that goes parallel, a closure-calling consumer behind it: less runs on
		// the goroutine that feeds the workers, the consumer on the collector (seeded/C06-h: map/accept read "isolated" sources,
		// merge results included, on the consumer's stack); less reads its second argument after the delay of h
		mk(200, red, C6Stage{Kind: "merge", OLen: 50, ONum: true, OA: 3, OB: 1, Cost: "all"}, slow),
		mk(200, C6Stage{Kind: "mapReduce", A: 3, B: 1, K: 1}, C6Stage{Kind: "merge", OLen: 40, ONum: true, OA: 2, OB: 1, Cost: "all"}, front),
		mk(150, C6Stage{Kind: "visit", A: 1, B: 2, K: 4}, C6Stage{Kind: "merge", OLen: 30, Cost: "front"}, C6Stage{Kind: "accept", A: 1, B: 0, K: 3, Cost: "all"}),
		mk(160, C6Stage{Kind: "string"}, C6Stage{Kind: "merge", OLen: 50, ONum: true, OA: 3, OB: 1, Cost: "all"}, slow, num),
	}
}

// ---------------------------------------------------------------- driver

type c6Run struct {
	name    string // "p1" "p2" "p4" "p16" or "seq0".."seq3"
	procs   int    // GOMAXPROCS (0: sequential run under taskset)
	cpu     int    // taskset cpu for sequential runs
	cases   []*C6Case
	results map[int]*C6Result
	races   map[int]int // case id -> number of race reports
	raceTxt map[int]string
	err     error
	notRun  int
}

func (run *c6Run) exec(bin, dir string) {
	run.results, run.races, run.raceTxt = map[int]*C6Result{}, map[int]int{}, map[int]string{}
	todo := run.cases
	for round := 0; len(todo) > 0 && round < 60; round++ {
		in := filepath.Join(dir, fmt.Sprintf("in-%s-%d.json", run.name, round))
		bs, _ := json.Marshal(todo)
		os.WriteFile(in, bs, 0o644)
		var cmd *exec.Cmd
		if run.procs == 0 {
			cmd = exec.Command("taskset", "-c", fmt.Sprint(run.cpu), bin, "c06worker", "--out", in)
			cmd.Env = append(os.Environ(), "GORACE=halt_on_error=0")
		} else {
			cmd = exec.Command(bin, "c06worker", "--out", in)
			cmd.Env = append(os.Environ(), fmt.Sprintf("GOMAXPROCS=%d", run.procs), "GORACE=halt_on_error=0")
		}
		var stdout, stderr bytes.Buffer
		cmd.Stdout, cmd.Stderr = &stdout, &stderr
		err := cmd.Run()
		os.WriteFile(filepath.Join(dir, fmt.Sprintf("stderr-%s-%d.txt", run.name, round)), stderr.Bytes(), 0o644)
		seen := 0
		for _, line := range strings.Split(stdout.String(), "\n") {
			if strings.TrimSpace(line) == "" {
				continue
			}
			var r C6Result
			if json.Unmarshal([]byte(line), &r) == nil {
				rr := r
				run.results[r.ID] = &rr
				seen++
			}
		}
		// attribute race reports to the case that was running
		cur := -1
		for _, blk := range strings.Split(stderr.String(), "@@CASE ") {
			nl := strings.IndexByte(blk, '\n')
			if nl < 0 {
				continue
			}
			if id, e := strconv.Atoi(strings.TrimSpace(blk[:nl])); e == nil {
				cur = id
			}
			if n := strings.Count(blk, "WARNING: DATA RACE"); n > 0 && cur >= 0 {
				run.races[cur] += n
				if run.raceTxt[cur] == "" {
					i := strings.Index(blk, "WARNING: DATA RACE")
					txt := blk[i:]
					if len(txt) > 1500 {
						txt = txt[:1500]
					}
					run.raceTxt[cur] = txt
				}
			}
		}
		if seen >= len(todo) {
			break
		}
		// the worker died (a panic on a library goroutine kills the process) or gave up on a hanging case:
		// the case after the last reported one is the culprit; go on with the rest
		code := -1
		if ee, ok := err.(*exec.ExitError); ok {
			code = ee.ExitCode()
		}
		if err == nil {
			run.err = fmt.Errorf("worker %s stopped early (exit %d) without a reason\n%s", run.name, code, tail(stderr.String(), 2000))
			return
		}
		if code != 3 { // exit 3: the hang was already reported by the worker itself
			bad := todo[seen]
			run.results[bad.ID] = &C6Result{ID: bad.ID, Crash: true, Err: fmt.Sprintf("worker process died (exit %d): %s", code, c6PanicLine(stderr.String())),
				NCPU: runtime.NumCPU(), Procs: run.procs, Gids: map[int]int{}}
			seen++
		}
		todo = todo[seen:]
	}
	if len(todo) > 0 && run.err == nil {
		for _, c := range todo {
			if run.results[c.ID] == nil {
				run.notRun++
			}
		}
	}
}

func c6PanicLine(stderr string) string {
	for _, l := range strings.Split(stderr, "\n") {
		if strings.HasPrefix(l, "panic:") || strings.HasPrefix(l, "fatal error:") {
			return l
		}
	}
	return "no panic line"
}

func tail(s string, n int) string {
	if len(s) > n {
		return s[len(s)-n:]
	}
	return s
}

func c6BuildRace() string {
	p2h := os.Getenv("P2H")
	if p2h == "" {
		p2h, _ = os.Executable()
	}
	build := filepath.Dir(p2h)
	// the check driver runs a private copy of the harness binary and hands over the module file it was built with
	// (P2H_MODFILE): checks against different scratch trees may run side by side
	bin := p2h + "-race"
	modfile := os.Getenv("P2H_MODFILE")
	if modfile == "" {
		modfile = filepath.Join(build, "harness.mod")
	}
	cwd, _ := os.Getwd()
	hdir := filepath.Join(cwd, "harness")
	if _, err := os.Stat(filepath.Join(hdir, "c06.go")); err != nil {
		fatal("c06: run from the framework root (harness sources not found in %s)", hdir)
	}
	cmd := exec.Command("go", "build", "-race", "-tags", "verif", "-modfile", modfile, "-o", bin, ".")
	cmd.Dir = hdir
	cmd.Env = append(os.Environ(), "CGO_ENABLED=1")
	out, err := cmd.CombinedOutput()
	if err != nil {
		fatal("c06: building the race-detector worker failed: %v\n%s", err, out)
	}
	return bin
}

func c6Equal(a []int64, aok bool, b []int64, bok bool) bool {
	if aok != bok {
		return false
	}
	if !aok {
		return true
	}
	if len(a) != len(b) {
		return false
	}
	for i := range a {
		if a[i] != b[i] {
			return false
		}
	}
	return true
}

func c6ObsString(o []int64, ok bool) string {
	if !ok {
		return "fails"
	}
	s := fmt.Sprint(o)
	if len(s) > 300 {
		s = s[:300] + fmt.Sprintf("... (%d values)", len(o))
	}
	return s
}

// signature: closure-calling stage kinds around the first switched parallel stage (or merge) · symptom
func c6Signature(c *C6Case, switched map[int]bool, symptom string) string {
	all := append(append([]C6Stage{}, c.Stages...), c.Term)
	for i, s := range c.Stages {
		boundary := (c6IsPar(s.Kind) && switched[s.parID()]) || s.Kind == "merge" || (s.Kind == "fsm" && switched[s.ID2])
		if !boundary {
			continue
		}
		if s.Kind == "nest" { // workers of ONE stage evaluate per-item lazy lists with closure stages
			return fmt.Sprintf("nest(%s.%s)/%s", s.Sub[0].Kind, s.NC, symptom)
		}
		if strings.HasPrefix(s.Kind, "esc") { // a list escapes from the producing closure and is read on the workers
			return fmt.Sprintf("%s/%s", s.Kind, symptom)
		}
		up, down := "", ""
		if s.Kind == "fsm" { // the map(s->s.state) that belongs to the fsm stage switched: fsm itself is the upstream caller
			up = "fsm"
		}
		for j := i - 1; j >= 0 && up == ""; j-- {
			if c6Calls(all[j].Kind, all[j]) {
				up = all[j].Kind
			}
		}
		if s.Kind == "merge" {
			down = "merge"
			if up == "" && s.ONum {
				up = "number(other)"
			}
		} else {
			for j := i + 1; j < len(all); j++ {
				if c6Calls(all[j].Kind, all[j]) {
					down = all[j].Kind
					break
				}
			}
		}
		if up != "" && down != "" {
			return fmt.Sprintf("up=%s/par=%s/down=%s/%s", up, s.Kind, down, symptom)
		}
	}
	if c.Term.Kind == "multiUse" && c.Term.NC != "" && (symptom == "error-mismatch" || symptom == "sequential-path") {
		return fmt.Sprintf("multiUse-result-shape(%s)/%s", c.Term.NC, symptom)
	}
	if c.Term.Kind == "index" {
		for _, s := range c.Stages {
			if s.Kind == "reent" {
				return "reentrant-index-access/" + symptom
			}
		}
	}
	for _, s := range c.Stages { // a lazy pipeline that is traversed more than once
		if s.Kind == "cross" && len(s.Sub) > 0 {
			ks := []string{}
			for _, u := range s.Sub {
				ks = append(ks, u.Kind)
			}
			return fmt.Sprintf("cross-over-lazy-operand(%s)/%s", strings.Join(ks, "."), symptom)
		}
		if c6IsSelf(s.Kind) {
			return fmt.Sprintf("%s/%s", s.Kind, symptom)
		}
	}
	return fmt.Sprintf("no-closure-pair/term=%s/%s", c.Term.Kind, symptom)
}

func cmdC06(seed int64, tier, outDir string) {
	os.MkdirAll(outDir, 0o755)
	for _, pat := range []string{"in-*.json", "stderr-*.txt"} {
		old, _ := filepath.Glob(filepath.Join(outDir, pat))
		for _, f := range old {
			os.Remove(f)
		}
	}
	sum := NewSummary("C06", seed, tier)
	sum.Rule = "pipelines numbers(n) + up to 6 lazy stages + terminal, closures from a linear family through the host function h (per-stage cost profile none/front/all/late, optional failing value), evaluated by a `go build -race` worker under GOMAXPROCS 1/2/4/16 and under taskset (NumCPU==1, sequential library path); non-trivial = the switch to parallel execution was observed (>= 2 goroutine ids ran a map/accept closure) or the pipeline merges, and at least one other stage or the terminal calls a closure; distinct by expression text"
	cw := NewCaseWriter(outDir, "From P2 Require Import Base.Prelude Conc.ParMap Conc.Pipeline Run.C06Run.", "c06_case", "c06_id", "c06_im", "c06_is", 40)
	lw := NewCaseWriter(filepath.Join(outDir, "lazy"), "From P2 Require Import Base.Prelude Conc.ParMap Conc.Pipeline Conc.LazyPipe Run.C06Run.", "c06l_case", "c06l_id", "c06l_im", "c06l_is", 12)
	r := NewRng(seed)
	tStart := time.Now()
	bin := c6BuildRace()
	fmt.Fprintf(os.Stderr, "c06: race worker built after %.1fs\n", time.Since(tStart).Seconds())

	var cases []*C6Case
	procsSet := []int{1, 2, 4, 16}
	repeatAll := map[int]bool{} // cases run under every GOMAXPROCS
	if optReplay != "" {
		var c C6Case
		if err := json.Unmarshal(loadReplayCase(), &c); err != nil {
			fatal("replay case: %v", err)
		}
		for k := 0; k < 3; k++ { // a schedule-dependent failure gets several chances
			cc := c
			cc.ID = k + 1
			cases = append(cases, &cc)
			repeatAll[cc.ID] = true
		}
	} else {
		n, nbig := 200, 6
		if tier == "thorough" {
			c6MuShapeMax = 60
			n, nbig = 6000, 150
		}
		n *= optBoost
		id := 0
		for _, c := range c6Corpus() {
			id++
			c.ID = id
			repeatAll[id] = true
			cases = append(cases, c)
		}
		sum.Extra["corpus_cases"] = id
		for i := 0; i < n+nbig; i++ {
			id++
			c := r.c6Gen(id, i >= n)
			c.Procs = procsSet[i%4]
			if tier == "thorough" && r.Chance(0.2) {
				repeatAll[id] = true
			}
			cases = append(cases, c)
		}
		// the lazy family: short-circuit consumers behind forced-parallel stages
		nlazy := 42
		if tier == "thorough" {
			nlazy = 1500
		}
		nlazy *= optBoost
		rl := NewRng(seed + 77)
		for _, c := range c6LazyCorpus() {
			id++
			c.ID = id
			c.Procs = 4
			cases = append(cases, c)
		}
		for i := 0; i < nlazy; i++ {
			id++
			c := rl.c6GenLazy(id, i)
			c.Procs = procsSet[1+i%3] // a single P never reorders arrivals
			if i%8 == 0 {
				repeatAll[id] = true
			}
			cases = append(cases, c)
		}
	}

	// runs
	var runs []*c6Run
	for _, p := range procsSet {
		run := &c6Run{name: fmt.Sprintf("p%d", p), procs: p}
		for _, c := range cases {
			if repeatAll[c.ID] || c.Procs == p {
				run.cases = append(run.cases, c)
			}
		}
		runs = append(runs, run)
	}
	nseq := 4
	for k := 0; k < nseq; k++ {
		run := &c6Run{name: fmt.Sprintf("seq%d", k), cpu: k}
		for i, c := range cases {
			if i%nseq == k {
				run.cases = append(run.cases, c)
			}
		}
		runs = append(runs, run)
	}
	var wg sync.WaitGroup
	for _, run := range runs {
		wg.Add(1)
		go func(run *c6Run) { defer wg.Done(); run.exec(bin, outDir) }(run)
	}
	wg.Wait()
	for _, run := range runs {
		if run.err != nil {
			fatal("c06: %v", run.err)
		}
		if run.notRun > 0 {
			sum.Skipped["not-run-after-60-worker-crashes"] += run.notRun
		}
	}
	fmt.Fprintf(os.Stderr, "c06: runs done after %.1fs\n", time.Since(tStart).Seconds())

	// verdicts
	seqOf := map[int]*C6Result{}
	seqRaces := map[int]int{}
	for _, run := range runs {
		if run.procs == 0 {
			for id, res := range run.results {
				seqOf[id] = res
			}
			for id, n := range run.races {
				seqRaces[id] += n
			}
		}
	}
	caseID := 0
	addViolation := func(c *C6Case, switched map[int]bool, symptom, what, exp, obs string, cid int, extra map[string]any) {
		sig := c6Signature(c, switched, symptom)
		human := map[string]any{"expression": c.Text(), "n": c.N, "gomaxprocs": extra["gomaxprocs"], "repro": c, "signature": sig}
		for k, v := range extra {
			human[k] = v
		}
		sum.GoViolations = append(sum.GoViolations, GoViolation{CaseID: cid, What: what, Sig: sig, Human: human, Expected: exp, Observed: obs})
	}
	for _, c := range cases {
		if c.Lazy {
			ref, refOK, consumed, hasErr := c.lazyRef()
			text := c.Text()
			mode := "no failing element"
			switch {
			case hasErr && !refOK:
				mode = "failing element inside the demanded prefix (or the consumer itself reports an error)"
			case hasErr:
				mode = "failing element behind the decisive one"
			}
			sum.Count("lazy_family", c.Term.Kind+": "+mode)
			sum.Count("lazy_decisive_position", bucket(consumed))
			if sq := seqOf[c.ID]; sq != nil && sq.NCPU == 1 {
				if strings.HasPrefix(sq.Err, "generate:") {
					fatal("c06: generated expression rejected: %s: %s", text, sq.Err)
				}
				if !c6Equal(sq.Obs, sq.OK, ref, refOK) {
					caseID++
					addViolation(c, map[int]bool{}, "sequential-path", "lazy family: the library's sequential path (NumCPU==1) disagrees with the lazy reference: "+sq.Err,
						c6ObsString(ref, refOK), c6ObsString(sq.Obs, sq.OK), caseID, map[string]any{"gomaxprocs": "taskset"})
				}
				if seqRaces[c.ID] > 0 {
					caseID++
					addViolation(c, map[int]bool{}, "race-sequential", "data race reported on the sequential path", "no race", fmt.Sprintf("%d reports", seqRaces[c.ID]), caseID, map[string]any{"gomaxprocs": "taskset"})
				}
			} else {
				sum.Skipped["no-sequential-result"]++
			}
			for _, run := range runs {
				res := run.results[c.ID]
				if run.procs == 0 || res == nil {
					continue
				}
				caseID++
				sum.Evaluations++
				sum.Count("gomaxprocs", fmt.Sprint(run.procs))
				switched := map[int]bool{}
				for _, s := range c.Stages {
					if c6IsPar(s.Kind) && res.Gids[s.ID] >= 2 {
						switched[s.ID] = true
					}
				}
				if len(switched) > 0 {
					sum.Count("parallel_switch", "observed")
					sum.Nontriv(text)
				} else {
					sum.Count("parallel_switch", "not taken")
				}
				sum.Cases[fmt.Sprint(caseID)] = map[string]any{"expression": text, "n": c.N, "gomaxprocs": run.procs, "switched_stage_ids": sortedIntKeys(switched),
					"observed": c6ObsString(res.Obs, res.OK), "reference": c6ObsString(ref, refOK), "repro": c, "signature": c6Signature(c, switched, "wrong-value")}
				extra := map[string]any{"gomaxprocs": run.procs, "switched_stage_ids": sortedIntKeys(switched)}
				if res.Hang {
					addViolation(c, switched, "hang", "evaluation did not finish within 90 s", c6ObsString(ref, refOK), "no result", caseID, extra)
					continue
				}
				if res.Crash {
					addViolation(c, switched, "process-crash", res.Err, c6ObsString(ref, refOK), "process died", caseID, extra)
					continue
				}
				lw.Add(c.coqLazy(caseID, res.NCPU, switched, res.Obs, res.OK))
				wrong := !c6Equal(res.Obs, res.OK, ref, refOK)
				if wrong && !res.OK && hasErr && refOK {
					// pipeline_par_early_stop_eq_seq: the error of a read-ahead element behind the decisive one surfaced
					sum.Count("lazy_late_error", "surfaced (evaluation fails, the sequential result is a value)")
					sum.Sample(map[string]any{"lazy_late_error_surfaced": text, "gomaxprocs": run.procs, "sequential_result": c6ObsString(ref, refOK), "error": res.Err})
					// a violation of the property (strictly sequential evaluation returns the value), with a signature of its own:
					// recorded in known_findings.json (defect of the dependency's collector, iterator.initParallel)
					lateSig := "parallel map/accept | short-circuit consumer | error of a read-ahead element behind the decisive one surfaces"
					hl := map[string]any{"expression": text, "n": c.N, "gomaxprocs": run.procs, "repro": c, "signature": lateSig, "error": res.Err, "switched_stage_ids": sortedIntKeys(switched)}
					sum.GoViolations = append(sum.GoViolations, GoViolation{CaseID: caseID, What: "lazy family: evaluation fails under parallel execution with the error of an element BEHIND the decisive one; strictly sequential evaluation returns a value",
						Sig: lateSig, Human: hl, Expected: c6ObsString(ref, refOK), Observed: "error: " + res.Err})
					wrong = false
				} else if hasErr && refOK {
					sum.Count("lazy_late_error", "invisible")
				}
				if wrong {
					symptom := "wrong-value"
					if res.OK != refOK {
						symptom = "error-mismatch"
					}
					extra["error"] = res.Err
					addViolation(c, switched, symptom, "lazy family: result under parallel execution differs from the sequential result", c6ObsString(ref, refOK), c6ObsString(res.Obs, res.OK), caseID, extra)
				}
				if n := run.races[c.ID]; n > 0 && !wrong {
					extra["race_report"] = run.raceTxt[c.ID]
					addViolation(c, switched, "race-only", fmt.Sprintf("%d data race report(s) from the race detector", n), "no race", fmt.Sprintf("%d reports", n), caseID, extra)
				}
			}
			continue
		}
		ref, refOK := c.Ref()
		text := c.Text()
		sum.Count("list_size", bucket(int(c.N)))
		sum.Count("stages", fmt.Sprint(len(c.Stages)))
		sum.Count("terminal", c.Term.Kind)
		for _, s := range c.Stages {
			sum.Count("stage_kinds", s.Kind)
			if c6IsPar(s.Kind) {
				sum.Count("cost_profile", s.Cost)
			}
			if strings.HasPrefix(s.Kind, "esc") {
				sum.Count("escaping_lists", s.Kind)
			}
			if s.Kind == "nest" {
				sum.Count("nested_per_item_lists", s.Sub[0].Kind+" consumed by "+s.NC)
			}
			if s.Kind == "cross" || s.Kind == "merge" || s.Kind == "concat" {
				if len(s.Sub) == 0 {
					sum.Count("other_operand", s.Kind+": numbers(n)[.number]")
				} else {
					sum.Count("other_operand", fmt.Sprintf("%s: lazy pipeline of %d stages", s.Kind, len(s.Sub)))
				}
			}
			if s.Kind == "cross" && len(s.Sub) > 0 && len(c.Stages) > 0 {
				sum.Count("reiteration", "cross re-iterates a lazy second list")
			}
			if c6IsSelf(s.Kind) {
				sum.Count("reiteration", s.Kind)
			}
		}
		if c.Term.Kind == "multiUse" {
			shape := c.Term.NC
			if shape == "" {
				shape = "scalar"
			}
			sum.Count("multiUse_result_shape", shape)
		}
		if c.Term.Kind == "twice" {
			sum.Count("reiteration", "twice: [m.sum(), m.mapReduce(..), m.size()]")
		}
		c6Walk(c.Stages, func(s *C6Stage, d int) {
			if d > 0 {
				sum.Count("operand_stage_kinds", s.Kind)
			}
		})
		if !refOK {
			sum.Count("outcome", "fails")
		} else {
			sum.Count("outcome", "value")
		}
		// sequential implementation run
		if sq := seqOf[c.ID]; sq != nil {
			if sq.NCPU != 1 {
				sum.Skipped["taskset-did-not-restrict-cpus"]++
			} else if sq.Skip {
				sum.Skipped["multiUse-result-shape-family-stopped-after-two-timeouts"]++
			} else {
				if strings.HasPrefix(sq.Err, "generate:") {
					fatal("c06: generated expression rejected: %s: %s", text, sq.Err)
				}
				if !c6Equal(sq.Obs, sq.OK, ref, refOK) {
					caseID++
					addViolation(c, map[int]bool{}, "sequential-path", "the library's sequential path (NumCPU==1) disagrees with the reference fold: "+sq.Err,
						c6ObsString(ref, refOK), c6ObsString(sq.Obs, sq.OK), caseID, map[string]any{"gomaxprocs": "taskset"})
				}
				if seqRaces[c.ID] > 0 {
					caseID++
					addViolation(c, map[int]bool{}, "race-sequential", "data race reported on the sequential path", "no race", fmt.Sprintf("%d reports", seqRaces[c.ID]), caseID, map[string]any{"gomaxprocs": "taskset"})
				}
			}
		} else {
			sum.Skipped["no-sequential-result"]++
		}
		for _, run := range runs {
			if run.procs == 0 {
				continue
			}
			res := run.results[c.ID]
			if res == nil {
				continue
			}
			caseID++
			sum.Evaluations++
			sum.Count("gomaxprocs", fmt.Sprint(run.procs))
			switched := map[int]bool{}
			anySwitch, merges, otherCalls := false, false, 0
			c6Walk(append(append([]C6Stage{}, c.Stages...), c.Term), func(sp *C6Stage, _ int) {
				s := *sp
				if c6IsPar(s.Kind) {
					if res.Gids[s.parID()] >= 2 {
						switched[s.parID()] = true
						anySwitch = true
					}
					if s.Kind != "map" && s.Kind != "accept" {
						otherCalls++
					}
				} else if c6Calls(s.Kind, s) {
					otherCalls++
				}
				if s.Kind == "fsm" && res.Gids[s.ID2] >= 2 {
					switched[s.ID2] = true
					anySwitch = true
				}
				if s.Kind == "merge" || s.Kind == "mergeSelf" {
					merges = true
				}
			})
			if anySwitch {
				sum.Count("parallel_switch", "observed")
			} else {
				sum.Count("parallel_switch", "not taken")
			}
			if (anySwitch || merges) && otherCalls > 0 {
				sum.Nontriv(text)
			}
			human := map[string]any{"expression": text, "n": c.N, "gomaxprocs": run.procs, "switched_stage_ids": sortedIntKeys(switched),
				"observed": c6ObsString(res.Obs, res.OK), "reference": c6ObsString(ref, refOK), "repro": c, "signature": c6Signature(c, switched, "wrong-value")}
			sum.Cases[fmt.Sprint(caseID)] = human
			if anySwitch && otherCalls > 0 {
				sum.Sample(map[string]any{"expression": text, "gomaxprocs": run.procs, "observed": c6ObsString(res.Obs, res.OK)})
			}
			extra := map[string]any{"gomaxprocs": run.procs, "switched_stage_ids": sortedIntKeys(switched)}
			if res.Skip {
				sum.Skipped["multiUse-result-shape-family-stopped-after-two-timeouts"]++
				caseID--
				sum.Evaluations--
				continue
			}
			if res.Hang {
				addViolation(c, switched, "hang", "evaluation did not finish within 90 s", c6ObsString(ref, refOK), "no result", caseID, extra)
				continue
			}
			if res.Crash {
				addViolation(c, switched, "process-crash", res.Err, c6ObsString(ref, refOK), "process died", caseID, extra)
				continue
			}
			cw.Add(c.coq(caseID, res.NCPU, switched, res.Obs, res.OK))
			wrong := !c6Equal(res.Obs, res.OK, ref, refOK)
			if wrong {
				symptom := "wrong-value"
				if res.OK != refOK {
					symptom = "error-mismatch"
				}
				extra["error"] = res.Err
				addViolation(c, switched, symptom, "result under parallel execution differs from the sequential result", c6ObsString(ref, refOK), c6ObsString(res.Obs, res.OK), caseID, extra)
			}
			if n := run.races[c.ID]; n > 0 && !wrong {
				extra["race_report"] = run.raceTxt[c.ID]
				addViolation(c, switched, "race-only", fmt.Sprintf("%d data race report(s) from the race detector", n), "no race", fmt.Sprintf("%d reports", n), caseID, extra)
			} else if n > 0 {
				sum.Count("races_with_wrong_value", "cases")
			}
		}
	}
	cw.Flush()
	lw.Flush()
	sum.CaseFiles = append(append([]string{}, cw.files...), lw.files...)
	// value disagreements first (they name the case beyond doubt), then by size; a race report is attributed by its position
	// in the worker's stderr, so a goroutine left behind by an earlier case can make it land on a later one
	rank := func(v GoViolation) int {
		switch {
		case strings.HasSuffix(v.Sig, "/wrong-value"):
			return 0
		case strings.HasSuffix(v.Sig, "/error-mismatch"):
			return 1
		case strings.HasSuffix(v.Sig, "/race-only"):
			return 3
		}
		return 2
	}
	sort.SliceStable(sum.GoViolations, func(i, j int) bool {
		if ri, rj := rank(sum.GoViolations[i]), rank(sum.GoViolations[j]); ri != rj {
			return ri < rj
		}
		a, b := sum.GoViolations[i].Human["repro"].(*C6Case), sum.GoViolations[j].Human["repro"].(*C6Case)
		return int(a.N)*(1+len(a.Stages)) < int(b.N)*(1+len(b.Stages))
	})
	sum.Write(outDir)
}

func sortedIntKeys(m map[int]bool) []int {
	ks := []int{}
	for k := range m {
		ks = append(ks, k)
	}
	sort.Ints(ks)
	return ks
}
